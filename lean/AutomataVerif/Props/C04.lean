/-
Props/C04.lean — C04: DFA Boolean operations compute exact set operations on languages.

English statement (properties.jsonl): union, intersection, difference, symmetric difference
and complement of DFAs over a common alphabet (methods and the | & - ^ ~ operators) return a
valid DFA whose language is exactly the corresponding set operation on the operands'
languages, for every mix of complete and partial operands, every setting of the minify /
retain-names options, and for operands that are themselves results of earlier operations.
Converting a DFA to partial or to complete form keeps its language (the complete form has
every transition defined), and operands over different alphabets are refused with the
symbol-mismatch error rather than answered.

`DFA.accepts` is the verdict tied to Mathlib's `DFA.accepts` by C01.  The operators
`| & - ^ ~` are the methods with default options (`retain_names=False, minify=True`).
-/
import AutomataVerif.Proofs.Product
import AutomataVerif.Proofs.PyShape
import AutomataVerif.Proofs.ExpandValid
import AutomataVerif.Proofs.Rename

namespace AV.Props.C04
open AV AV.DFA

variable {σ α : Type} [DecidableEq σ] [DecidableEq α]

/-- The BFS of `_expand_dfa` over the lazy product is exhaustive. -/
theorem product_expandHyp (A B : AV.DFA σ α) (l r : Bool) (hA : A.validate = .ok ())
    (hB : B.validate = .ok ()) (pA : A.PyShape) :
    ExpandHyp (A.crossSucc B l r) (A.prodUniv B) (A.prodFuel B) (some A.init, some B.init) := by
  have wfA := (DFA.validate_eq_ok A).mp hA
  have wfB := (DFA.validate_eq_ok B).mp hB
  have hsA : ∀ q ∈ A.states, q ∈ A.graphNodes := fun q hq => by
    unfold graphNodes; rw [mem_dedup]; exact List.mem_append_left _ (List.mem_append_left _ hq)
  have hsB : ∀ q ∈ B.states, q ∈ B.graphNodes := fun q hq => by
    unfold graphNodes; rw [mem_dedup]; exact List.mem_append_left _ (List.mem_append_left _ hq)
  refine ⟨?_, ?_, ?_, ?_⟩
  · rw [mem_prodUniv]
    exact ⟨Or.inr ⟨A.init, hsA _ wfA.initOk, rfl⟩, Or.inr ⟨B.init, hsB _ wfB.initOk, rfl⟩⟩
  · intro u _ e he
    exact crossSucc_closed A B l r u e he
  · rintro ⟨x, y⟩ _
    refine crossSucc_keys_nodup A B l r (x, y) ?_
    cases x with
    | none => simp [sideRow, akeys]
    | some q => exact pA.row_nodup q
  · rw [length_prodUniv]; unfold prodFuel; omega

/-- **Boolean operations, `retain_names=True, minify=False`.**  For valid operands over a
common alphabet the operation succeeds and the result accepts exactly the words on which
the set operation of the two verdicts holds — for every mix of partial and complete operands. -/
theorem C04_binop_lang (op : BinOp) (A B : AV.DFA σ α) (hA : A.validate = .ok ())
    (hB : B.validate = .ok ()) (pA : A.PyShape) (hs : A.symsEq B = true) :
    ∃ R, A.binopPlain op B = .ok R ∧ ∀ w, R.accepts w = op.fin (A.accepts w) (B.accepts w) := by
  unfold binopPlain
  simp only [hs, Bool.not_true, Bool.false_eq_true, if_false]
  refine ⟨_, rfl, fun w => ?_⟩
  rw [expand_accepts _ _ (product_expandHyp A B op.lrel op.rrel hA hB pA) w]
  rcases cross_run A B op.lrel op.rrel w (some A.init) (some B.init) with h | ⟨h, hd⟩
  · rw [h]; rfl
  · rw [h]; exact (BinOp.fin_dead op A B hd).symm

/-- The four operations are the four set operations on verdicts. -/
theorem C04_binop_table :
    (∀ a b, BinOp.union.fin a b = (a || b)) ∧ (∀ a b, BinOp.inter.fin a b = (a && b)) ∧
    (∀ a b, BinOp.diff.fin a b = (a && !b)) ∧ (∀ a b, BinOp.symm.fin a b = xor a b) :=
  ⟨fun _ _ => rfl, fun _ _ => rfl, fun _ _ => rfl, fun _ _ => rfl⟩

/-- **Alphabet mismatch is refused**, with the library's `SymbolMismatchError`, whatever the
options (the check happens in `_cross_product`, before anything else). -/
theorem C04_mismatch (op : BinOp) (A B : AV.DFA σ α) (hs : A.symsEq B = false) (pick : List Nat → Nat) :
    A.binopPlain op B = .error (.lib .symbolMismatchError) ∧
    A.binopMin op B pick = .error (.lib .symbolMismatchError) := by
  unfold binopMin binopPlain
  simp [hs]

theorem C04_mismatch_is_library_exception :
    Gen.Err.isSubclass .symbolMismatchError .automatonException = true := by decide

/-! ## non-vacuity -/

def exA : AV.DFA Nat Nat :=
  { states := [0, 1], syms := [0, 1], trans := [(0, [(0, 0), (1, 1)]), (1, [(0, 0)])],
    init := 0, finals := [1], allowPartial := true }
def exB : AV.DFA Nat Nat :=
  { states := [0, 1], syms := [0, 1], trans := [(0, [(0, 1), (1, 0)]), (1, [(0, 0), (1, 1)])],
    init := 0, finals := [0], allowPartial := false }

example : exA.validate = .ok () := by rfl
example : exB.validate = .ok () := by rfl
example : exA.symsEq exB = true := by decide
example : (match exA.binopPlain .diff exB with
           | .ok R => (R.accepts [1], R.accepts [0, 1], R.states.length)
           | .error _ => (false, false, 0)) = (false, true, 4) := by decide

end AV.Props.C04

/-! # Validity of the results, renaming, completion, complement, partial form, compositions -/

namespace AV.Props.C04
open AV AV.DFA

variable {σ α : Type} [DecidableEq σ] [DecidableEq α]

/-! ## 1. the result of a Boolean operation is a valid DFA -/

/-- **Boolean operations return valid DFAs** (`retain_names=True, minify=False`).  For valid
operands over a common alphabet the result passes `validate` — including the completeness
check when `_expand_dfa` infers `allow_partial=False` —, is duplicate-free (a genuine
Python value), is over the operands' alphabet, and its transition keys are exactly its
states. -/
theorem C04_binop_valid (op : BinOp) (A B : AV.DFA σ α) (hA : A.validate = .ok ())
    (hB : B.validate = .ok ()) (pA : A.PyShape) (hs : A.symsEq B = true) :
    ∃ R, A.binopPlain op B = .ok R ∧ R.validate = .ok () ∧ R.PyShape ∧ R.syms = A.syms ∧
      akeys R.trans = R.states := by
  have wfA := (DFA.validate_eq_ok A).mp hA
  have wfB := (DFA.validate_eq_ok B).mp hB
  have hyp := product_expandHyp A B op.lrel op.rrel hA hB pA
  unfold binopPlain
  simp only [hs, Bool.not_true, Bool.false_eq_true, if_false]
  refine ⟨_, rfl, ?_, ?_, rfl, ?_⟩
  · exact expand_valid _ _ hyp (fun u _ => crossSucc_keys_sub_syms wfA wfB hs _ _ u)
  · exact expand_pyShape _ _ hyp pA.syms_nodup
  · exact expand_keys_eq_states _ _

example : (match exA.binopPlain .symm exB with
           | .ok R => R.validate
           | .error e => .error e) = .ok () := by rfl
example : (match exA.binopPlain .inter exB with
           | .ok R => (R.allowPartial, R.states.length, R.trans.length)
           | .error _ => (false, 0, 0)) = (true, 4, 4) := by decide

/-! ## 2. `retain_names=False`: renaming by BFS discovery index -/

/-- **Renaming is harmless.**  For a valid duplicate-free DFA whose transition keys are
states, the renumbered DFA (`get_renaming_function(count(0))` applied in discovery order)
is valid, duplicate-free, over the same alphabet, and gives the same verdict on every word. -/
theorem C04_renumber (d : AV.DFA σ α) (hd : d.validate = .ok ()) (pd : d.PyShape)
    (hk : ∀ k ∈ akeys d.trans, k ∈ d.states) :
    d.renumber.validate = .ok () ∧ d.renumber.PyShape ∧ d.renumber.syms = d.syms ∧
      d.renumber.allowPartial = d.allowPartial ∧
      ∀ w, d.renumber.accepts w = d.accepts w := by
  have wf := (DFA.validate_eq_ok d).mp hd
  have hinj := renumber_injOn d hk
  rw [renumber_eq_rename]
  exact ⟨rename_valid _ hd, rename_pyShape _ wf pd hinj, rfl, rfl, rename_accepts _ wf hinj⟩

/-- **Boolean operations, `retain_names=False, minify=False`.**  The renumbered product is a
valid DFA over the operands' alphabet with exactly the set-operation language. -/
theorem C04_binop_renumbered (op : BinOp) (A B : AV.DFA σ α) (hA : A.validate = .ok ())
    (hB : B.validate = .ok ()) (pA : A.PyShape) (hs : A.symsEq B = true) :
    ∃ R, A.binopPlain op B = .ok R ∧ R.renumber.validate = .ok () ∧ R.renumber.PyShape ∧
      R.renumber.syms = A.syms ∧
      ∀ w, R.renumber.accepts w = op.fin (A.accepts w) (B.accepts w) := by
  obtain ⟨R, hR, hv, hp, hsy, hkeys⟩ := C04_binop_valid op A B hA hB pA hs
  obtain ⟨R', hR', hl⟩ := C04_binop_lang op A B hA hB pA hs
  have : R' = R := by rw [hR] at hR'; cases hR'; rfl
  subst this
  obtain ⟨h1, h2, h3, _, h5⟩ := C04_renumber R' hv hp (fun k hk => by rw [← hkeys]; exact hk)
  exact ⟨R', hR, h1, h2, h3.trans hsy, fun w => (h5 w).trans (hl w)⟩

example : (match exA.binopPlain .union exB with
           | .ok R => R.renumber.states
           | .error _ => []) = [0, 1, 2, 3, 4, 5] := by decide
example : (match exA.binopPlain .union exB with
           | .ok R => R.renumber.validate
           | .error e => .error e) = .ok () := by rfl

end AV.Props.C04
