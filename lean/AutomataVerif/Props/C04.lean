/-
Props/C04.lean — C04: DFA Boolean operations compute exact set operations on languages.

English statement (properties.jsonl): union, intersection, difference, symmetric difference
and complement of DFAs over a common alphabet (methods and the | & - ^ ~ operators) return a
valid DFA whose language is exactly the corresponding set operation on the operands'
languages, for every mix of complete and partial operands, every setting of the minify /
retain-names options, and for operands that are themselves results of earlier operations.
Converting a DFA to partial or to complete form keeps its language (the complete form has
every transition defined), and operands over different alphabets are refused with the
symbol-mismatch error rather than answered.

`DFA.accepts` is the verdict tied to Mathlib's `DFA.accepts` by C01.  The operators
`| & - ^ ~` are the methods with default options (`retain_names=False, minify=True`).
-/
import AutomataVerif.Proofs.Product
import AutomataVerif.Proofs.PyShape
import AutomataVerif.Proofs.ExpandValid
import AutomataVerif.Proofs.Rename
import AutomataVerif.Proofs.Complete
import AutomataVerif.Proofs.Partial
import AutomataVerif.Proofs.MinCompose
import AutomataVerif.Proofs.Expr
import AutomataVerif.Proofs.MinGlue
import AutomataVerif.Model.DFAOperators

namespace AV.Props.C04
open AV AV.DFA

variable {σ α : Type} [DecidableEq σ] [DecidableEq α]

/-- The BFS of `_expand_dfa` over the lazy product is exhaustive. -/
theorem product_expandHyp (A B : AV.DFA σ α) (l r : Bool) (hA : A.validate = .ok ())
    (hB : B.validate = .ok ()) (pA : A.PyShape) :
    ExpandHyp (A.crossSucc B l r) (A.prodUniv B) (A.prodFuel B) (some A.init, some B.init) := by
  have wfA := (DFA.validate_eq_ok A).mp hA
  have wfB := (DFA.validate_eq_ok B).mp hB
  have hsA : ∀ q ∈ A.states, q ∈ A.graphNodes := fun q hq => by
    unfold graphNodes; rw [mem_dedup]; exact List.mem_append_left _ (List.mem_append_left _ hq)
  have hsB : ∀ q ∈ B.states, q ∈ B.graphNodes := fun q hq => by
    unfold graphNodes; rw [mem_dedup]; exact List.mem_append_left _ (List.mem_append_left _ hq)
  refine ⟨?_, ?_, ?_, ?_⟩
  · rw [mem_prodUniv]
    exact ⟨Or.inr ⟨A.init, hsA _ wfA.initOk, rfl⟩, Or.inr ⟨B.init, hsB _ wfB.initOk, rfl⟩⟩
  · intro u _ e he
    exact crossSucc_closed A B l r u e he
  · rintro ⟨x, y⟩ _
    refine crossSucc_keys_nodup A B l r (x, y) ?_
    cases x with
    | none => simp [sideRow, akeys]
    | some q => exact pA.row_nodup q
  · rw [length_prodUniv]; unfold prodFuel; omega

/-- **Boolean operations, `retain_names=True, minify=False`.**  For valid operands over a
common alphabet the operation succeeds and the result accepts exactly the words on which
the set operation of the two verdicts holds — for every mix of partial and complete operands. -/
theorem C04_binop_lang (op : BinOp) (A B : AV.DFA σ α) (hA : A.validate = .ok ())
    (hB : B.validate = .ok ()) (pA : A.PyShape) (hs : A.symsEq B = true) :
    ∃ R, A.binopPlain op B = .ok R ∧ ∀ w, R.accepts w = op.fin (A.accepts w) (B.accepts w) := by
  unfold binopPlain
  simp only [hs, Bool.not_true, Bool.false_eq_true, if_false]
  refine ⟨_, rfl, fun w => ?_⟩
  rw [expand_accepts _ _ (product_expandHyp A B op.lrel op.rrel hA hB pA) w]
  rcases cross_run A B op.lrel op.rrel w (some A.init) (some B.init) with h | ⟨h, hd⟩
  · rw [h]; rfl
  · rw [h]; exact (BinOp.fin_dead op A B hd).symm

/-- The four operations are the four set operations on verdicts. -/
theorem C04_binop_table :
    (∀ a b, BinOp.union.fin a b = (a || b)) ∧ (∀ a b, BinOp.inter.fin a b = (a && b)) ∧
    (∀ a b, BinOp.diff.fin a b = (a && !b)) ∧ (∀ a b, BinOp.symm.fin a b = xor a b) :=
  ⟨fun _ _ => rfl, fun _ _ => rfl, fun _ _ => rfl, fun _ _ => rfl⟩

/-- **Alphabet mismatch is refused**, with the library's `SymbolMismatchError`, whatever the
options (the check happens in `_cross_product`, before anything else). -/
theorem C04_mismatch (op : BinOp) (A B : AV.DFA σ α) (hs : A.symsEq B = false) (pick : List Nat → Nat) :
    A.binopPlain op B = .error (.lib .symbolMismatchError) ∧
    A.binopMin op B pick = .error (.lib .symbolMismatchError) := by
  unfold binopMin binopPlain
  simp [hs]

theorem C04_mismatch_is_library_exception :
    Gen.Err.isSubclass .symbolMismatchError .automatonException = true := by decide

/-! ## non-vacuity -/

def exA : AV.DFA Nat Nat :=
  { states := [0, 1], syms := [0, 1], trans := [(0, [(0, 0), (1, 1)]), (1, [(0, 0)])],
    init := 0, finals := [1], allowPartial := true }
def exB : AV.DFA Nat Nat :=
  { states := [0, 1], syms := [0, 1], trans := [(0, [(0, 1), (1, 0)]), (1, [(0, 0), (1, 1)])],
    init := 0, finals := [0], allowPartial := false }

example : exA.validate = .ok () := by rfl
example : exB.validate = .ok () := by rfl
example : exA.symsEq exB = true := by decide
example : (match exA.binopPlain .diff exB with
           | .ok R => (R.accepts [1], R.accepts [0, 1], R.states.length)
           | .error _ => (false, false, 0)) = (false, true, 4) := by decide

end AV.Props.C04

/-! # Validity of the results, renaming, completion, complement, partial form, compositions -/

namespace AV.Props.C04
open AV AV.DFA AV.C04

variable {σ α : Type} [DecidableEq σ] [DecidableEq α]

/-! ## 1. the result of a Boolean operation is a valid DFA -/

/-- **Boolean operations return valid DFAs** (`retain_names=True, minify=False`).  For valid
operands over a common alphabet the result passes `validate` — including the completeness
check when `_expand_dfa` infers `allow_partial=False` —, is duplicate-free (a genuine
Python value), is over the operands' alphabet, and its transition keys are exactly its
states. -/
theorem C04_binop_valid (op : BinOp) (A B : AV.DFA σ α) (hA : A.validate = .ok ())
    (hB : B.validate = .ok ()) (pA : A.PyShape) (hs : A.symsEq B = true) :
    ∃ R, A.binopPlain op B = .ok R ∧ R.validate = .ok () ∧ R.PyShape ∧ R.syms = A.syms ∧
      akeys R.trans = R.states := by
  have wfA := (DFA.validate_eq_ok A).mp hA
  have wfB := (DFA.validate_eq_ok B).mp hB
  have hyp := product_expandHyp A B op.lrel op.rrel hA hB pA
  unfold binopPlain
  simp only [hs, Bool.not_true, Bool.false_eq_true, if_false]
  refine ⟨_, rfl, ?_, ?_, rfl, ?_⟩
  · exact expand_valid _ _ hyp (fun u _ => crossSucc_keys_sub_syms wfA wfB hs _ _ u)
  · exact expand_pyShape _ _ hyp pA.syms_nodup
  · exact expand_keys_eq_states _ _

example : (match exA.binopPlain .symm exB with
           | .ok R => R.validate
           | .error e => .error e) = .ok () := by rfl
example : (match exA.binopPlain .inter exB with
           | .ok R => (R.allowPartial, R.states.length, R.trans.length)
           | .error _ => (false, 0, 0)) = (true, 4, 4) := by decide

/-! ## 2. `retain_names=False`: renaming by BFS discovery index -/

/-- **Renaming is harmless.**  For a valid duplicate-free DFA whose transition keys are
states, the renumbered DFA (`get_renaming_function(count(0))` applied in discovery order)
is valid, duplicate-free, over the same alphabet, and gives the same verdict on every word. -/
theorem C04_renumber (d : AV.DFA σ α) (hd : d.validate = .ok ()) (pd : d.PyShape)
    (hk : ∀ k ∈ akeys d.trans, k ∈ d.states) :
    d.renumber.validate = .ok () ∧ d.renumber.PyShape ∧ d.renumber.syms = d.syms ∧
      d.renumber.allowPartial = d.allowPartial ∧
      ∀ w, d.renumber.accepts w = d.accepts w := by
  have wf := (DFA.validate_eq_ok d).mp hd
  have hinj := renumber_injOn d hk
  rw [renumber_eq_rename]
  exact ⟨rename_valid _ hd, rename_pyShape _ wf pd hinj, rfl, rfl, rename_accepts _ wf hinj⟩

/-- **Boolean operations, `retain_names=False, minify=False`.**  The renumbered product is a
valid DFA over the operands' alphabet with exactly the set-operation language. -/
theorem C04_binop_renumbered (op : BinOp) (A B : AV.DFA σ α) (hA : A.validate = .ok ())
    (hB : B.validate = .ok ()) (pA : A.PyShape) (hs : A.symsEq B = true) :
    ∃ R, A.binopPlain op B = .ok R ∧ R.renumber.validate = .ok () ∧ R.renumber.PyShape ∧
      R.renumber.syms = A.syms ∧
      ∀ w, R.renumber.accepts w = op.fin (A.accepts w) (B.accepts w) := by
  obtain ⟨R, hR, hv, hp, hsy, hkeys⟩ := C04_binop_valid op A B hA hB pA hs
  obtain ⟨R', hR', hl⟩ := C04_binop_lang op A B hA hB pA hs
  have : R' = R := by rw [hR] at hR'; cases hR'; rfl
  subst this
  obtain ⟨h1, h2, h3, _, h5⟩ := C04_renumber R' hv hp (fun k hk => by rw [← hkeys]; exact hk)
  exact ⟨R', hR, h1, h2, h3.trans hsy, fun w => (h5 w).trans (hl w)⟩

example : (match exA.binopPlain .union exB with
           | .ok R => R.renumber.states
           | .error _ => []) = [0, 1, 2, 3, 4, 5] := by decide
example : (match exA.binopPlain .union exB with
           | .ok R => R.renumber.validate
           | .error e => .error e) = .ok () := by rfl

/-! ## 3. `to_complete` -/

/-- **`to_complete` keeps the language and defines every transition.**  For a valid
duplicate-free `d` and a trap name outside `d.states` (what `_get_trap_state_id` returns, or
an admissible custom name) the call succeeds; the result is valid, duplicate-free, over the
same alphabet, every row has every alphabet symbol (so every (state, symbol) has a
transition to a state), and it gives the verdict of `d` on every word.  The result is `d`
itself when no row looks partial, and has `allow_partial=False` otherwise.

Note: `validate` does not force transition keys to be states, and `_get_trap_state_id`
only avoids `states`; if the chosen trap name is a stray transition key, `_to_complete`
overwrites that row.  This is harmless (no hypothesis `trap ∉ akeys d.trans` is needed):
targets are states, so a key that is not a state is unreachable. -/
theorem C04_to_complete (d : AV.DFA σ α) (hd : d.validate = .ok ()) (pd : d.PyShape) (trap : σ)
    (custom : Bool) (ht : trap ∉ d.states) :
    ∃ C, d.toComplete trap custom = .ok C ∧ C.validate = .ok () ∧ C.PyShape ∧ C.syms = d.syms ∧
      C.IsComplete ∧
      (∀ q ∈ C.states, ∀ a ∈ C.syms, ∃ q', C.step? (some q) a = some q' ∧ q' ∈ C.states) ∧
      C.allowPartial = (d.allowPartial && !d.looksPartial) ∧
      ∀ w, C.accepts w = d.accepts w := by
  have wf := (DFA.validate_eq_ok d).mp hd
  cases hp : d.looksPartial with
  | false =>
    have hc := isComplete_of_not_looksPartial wf pd hp
    refine ⟨d, toComplete_of_not_partial d trap custom hp, hd, pd, rfl, hc, ?_, by simp, fun _ => rfl⟩
    intro q hq a ha
    exact step?_of_isComplete wf hc hq ha
  | true =>
    have wf' : (d.toCompleteCore trap).WF := toCompleteCore_wf wf
    have hc : (d.toCompleteCore trap).IsComplete := isComplete_of_flag wf' rfl
    refine ⟨d.toCompleteCore trap, toComplete_of_partial d trap custom hp (Or.inr ht),
      (DFA.validate_eq_ok _).mpr wf', toCompleteCore_pyShape wf pd, rfl, hc, ?_, by simp [toCompleteCore],
      toCompleteCore_accepts wf ht⟩
    intro q hq a ha
    exact step?_of_isComplete wf' hc hq ha

/-- A custom trap name that is already a state is refused with `InvalidStateError` (when a
trap is needed at all). -/
theorem C04_to_complete_custom_taken (d : AV.DFA σ α) (trap : σ) (hp : d.looksPartial = true)
    (ht : trap ∈ d.states) : d.toComplete trap true = .error (.lib .invalidStateError) :=
  toComplete_custom_taken d trap hp ht

/-- A DFA none of whose rows looks partial is returned unchanged (`self.copy()`), whatever
the trap argument. -/
theorem C04_to_complete_unchanged (d : AV.DFA σ α) (trap : σ) (custom : Bool)
    (hp : d.looksPartial = false) : d.toComplete trap custom = .ok d :=
  toComplete_of_not_partial d trap custom hp

/-- A valid DFA with a stray transition key `-1` that is not a state: `_get_trap_state_id`
returns `-1` and `_to_complete` overwrites that row. -/
def exStray : AV.DFA Int Nat :=
  { states := [0], syms := [0, 1], trans := [(0, [(0, 0)]), (-1, [(0, 0), (1, 0)])],
    init := 0, finals := [0], allowPartial := true }

example : exStray.validate = .ok () := by rfl
example : (-1 : Int) ∉ exStray.states := by decide
example : (match exStray.toComplete (-1) false with
           | .ok C => (C.states, C.trans, C.accepts [0, 0], C.accepts [0, 1, 0])
           | .error _ => ([], [], false, false)) =
    ([0, -1], [(0, [(0, 0), (1, -1)]), (-1, [(0, -1), (1, -1)])], true, false) := by decide
example : (match exStray.toComplete (-1) false with
           | .ok C => C.validate
           | .error e => .error e) = .ok () := by rfl
example : exA.toComplete 0 true = .error (.lib .invalidStateError) := by rfl
example : (match exA.toComplete 7 true with
           | .ok C => (C.states, C.allowPartial, C.accepts [1], exA.accepts [1], C.accepts [1, 1])
           | .error _ => ([], true, false, false, true)) = ([0, 1, 7], false, true, true, false) := by decide

/-! ## 4. complement -/

/-- **Complement of a complete DFA** (`minify=False`): valid, duplicate-free, same alphabet,
and a word is accepted iff all its symbols are alphabet symbols and the operand rejects it
(words with foreign symbols are in neither language). -/
theorem C04_complement_complete (c : AV.DFA σ α) (hv : c.validate = .ok ()) (pc : c.PyShape)
    (hc : c.IsComplete) :
    c.complementPlain.validate = .ok () ∧ c.complementPlain.PyShape ∧
      c.complementPlain.syms = c.syms ∧ c.complementPlain.IsComplete ∧
      c.complementPlain.allowPartial = false ∧
      ∀ w, c.complementPlain.accepts w = ((w.all fun a => decide (a ∈ c.syms)) && !c.accepts w) := by
  have wf := (DFA.validate_eq_ok c).mp hv
  exact ⟨(DFA.validate_eq_ok _).mpr (complementPlain_wf wf hc), complementPlain_pyShape pc, rfl, hc,
    rfl, complementPlain_accepts wf hc⟩

/-- **Complement of any valid DFA** (`minify=False`; the code completes the operand first
iff `allow_partial`): the call succeeds and the result is a valid complete DFA over the
same alphabet whose language is the complement relative to the alphabet. -/
theorem C04_complement (d : AV.DFA σ α) (hd : d.validate = .ok ()) (pd : d.PyShape) (trap : σ)
    (ht : trap ∉ d.states) :
    ∃ R, d.complementFull trap = .ok R ∧ R.validate = .ok () ∧ R.PyShape ∧ R.syms = d.syms ∧
      R.IsComplete ∧ R.allowPartial = false ∧
      ∀ w, R.accepts w = ((w.all fun a => decide (a ∈ d.syms)) && !d.accepts w) := by
  have wf := (DFA.validate_eq_ok d).mp hd
  unfold complementFull
  cases hap : d.allowPartial with
  | false =>
    simp only [Bool.false_eq_true, if_false]
    obtain ⟨h1, h2, h3, h4, h5, h6⟩ := C04_complement_complete d hd pd (isComplete_of_flag wf hap)
    exact ⟨_, rfl, h1, h2, h3, h4, h5, h6⟩
  | true =>
    simp only [if_true]
    obtain ⟨C, hC, hv, hp, hs, hc, _, _, hacc⟩ := C04_to_complete d hd pd trap false ht
    rw [hC]
    obtain ⟨h1, h2, h3, h4, h5, h6⟩ := C04_complement_complete C hv hp hc
    refine ⟨_, rfl, h1, h2, h3.trans hs, h4, h5, fun w => ?_⟩
    rw [h6 w, hs, hacc w]

example : (match exA.complementFull 2 with
           | .ok R => (R.states, R.finals, R.accepts [1], R.accepts [1, 1], R.accepts [5])
           | .error _ => ([], [], false, false, false)) = ([0, 1, 2], [0, 2], false, true, false) := by
  decide
example : (match exA.complementFull 2 with
           | .ok R => R.validate
           | .error e => .error e) = .ok () := by rfl

/-! ## 5. `to_partial(minify=False)` -/

/-- **`to_partial(minify=False)` keeps the language.**  For a valid duplicate-free `d` the
result (dead and trap states removed, except the initial state, with all edges into them)
is a valid partial DFA, duplicate-free, over the same alphabet, with the verdict of `d` on
every word. -/
theorem C04_to_partial (d : AV.DFA σ α) (hd : d.validate = .ok ()) (pd : d.PyShape) :
    d.toPartialPlain.validate = .ok () ∧ d.toPartialPlain.PyShape ∧
      d.toPartialPlain.syms = d.syms ∧ d.toPartialPlain.allowPartial = true ∧
      ∀ w, d.toPartialPlain.accepts w = d.accepts w := by
  have wf := (DFA.validate_eq_ok d).mp hd
  exact ⟨(DFA.validate_eq_ok _).mpr (toPartialPlain_wf wf pd), toPartialPlain_pyShape wf pd, rfl, rfl,
    toPartialPlain_accepts wf pd⟩

/-- Every state kept by `to_partial` other than the initial one is reachable and can reach
a final state (nothing dead is left). -/
theorem C04_to_partial_trim (d : AV.DFA σ α) (hd : d.validate = .ok ()) :
    ∀ q ∈ d.toPartialPlain.states, q = d.init ∨
      (Reach d.succStates d.init q ∧ ∃ f ∈ d.finals, Reach d.predStates f q) := by
  have wf := (DFA.validate_eq_ok d).mp hd
  intro q hq
  rcases mem_partialStates.mp hq with h | ⟨h1, h2⟩
  · exact Or.inl h
  · exact Or.inr ⟨(C04.mem_accessible_iff wf).mp h1, (C04.mem_coaccessible_iff wf).mp h2⟩

/-- A complete DFA with a trap state `2` and an unreachable state `3`. -/
def exC : AV.DFA Nat Nat :=
  { states := [0, 1, 2, 3], syms := [0, 1],
    trans := [(0, [(0, 1), (1, 2)]), (1, [(0, 0), (1, 2)]), (2, [(0, 2), (1, 2)]), (3, [(0, 0), (1, 3)])],
    init := 0, finals := [1], allowPartial := false }

example : exC.validate = .ok () := by rfl
example : (exC.toPartialPlain.states, exC.toPartialPlain.trans, exC.toPartialPlain.accepts [0, 0, 0],
    exC.accepts [0, 0, 0], exC.toPartialPlain.accepts [0, 1]) =
    ([0, 1], [(0, [(0, 1)]), (1, [(0, 0)])], true, true, false) := by decide
example : exC.toPartialPlain.validate = .ok () := by rfl

/-! ## 7. `minify=True`: composition with `_minify` (C05)

Each `minify=True` path hands `_minify` (`minifyCore`) a set of kept states, the transition
table and a set of final states.  Proved here, unconditionally: the call is admissible
(`MinifyCall`: the preconditions `MinHyp`, duplicate-free rows, every kept state reachable
inside the refinement system) and the language of the refinement system is the intended one.
What `_minify` returns for an admissible call (`MinifyCoreOk`: valid, duplicate-free,
accepts the language of the refinement system) is C05's theorem (Proofs/MinQuotient.lean +
Proofs/Hopcroft.lean); the corollaries of this section take it as an explicit hypothesis `hmin`,
and section 8 discharges it (Proofs/MinGlue.lean). -/

/-- `A.op(B, minify=True)`: the call of `_minify` is admissible and its refinement system
accepts exactly the set operation of the operands' verdicts. -/
theorem C04_binop_min_call (op : BinOp) (A B : AV.DFA σ α) (hA : A.validate = .ok ())
    (hB : B.validate = .ok ()) (pA : A.PyShape) (hs : A.symsEq B = true) :
    ∃ P, A.binopPlain op B = .ok P ∧ P.syms = A.syms ∧
      MinifyCall P.states P.syms P.trans P.init P.finals ∧
      ∀ w, mfin P.finals (mrun P.states P.trans (some P.init) w) =
        op.fin (A.accepts w) (B.accepts w) := by
  obtain ⟨P, hP, hv, hp, hsy, _⟩ := C04_binop_valid op A B hA hB pA hs
  obtain ⟨P', hP', hl⟩ := C04_binop_lang op A B hA hB pA hs
  have : P' = P := by rw [hP] at hP'; cases hP'; rfl
  subst this
  have wf := (DFA.validate_eq_ok P').mp hv
  refine ⟨P', hP, hsy, ?_, fun w => (msys_accepts_of_valid wf w).trans (hl w)⟩
  have hyp := product_expandHyp A B op.lrel op.rrel hA hB pA
  have hPe : P' = expand (A.crossSucc B op.lrel op.rrel)
      (fun s => op.fin (A.isFinalO s.1) (B.isFinalO s.2)) A.syms (A.prodFuel B) (some A.init, some B.init) := by
    unfold binopPlain at hP
    simp only [hs, Bool.not_true, Bool.false_eq_true, if_false] at hP
    cases hP; rfl
  exact minifyCall_of_valid wf hp (by rw [hPe]; exact expand_reach _ _ hyp)

/-- The full statement for `minify=True` Boolean operations (proved: `C04_binop_min_full_holds`,
section 8). -/
def C04_binop_min_full : Prop :=
  ∀ (σ α : Type) [DecidableEq σ] [DecidableEq α] (op : BinOp) (A B : AV.DFA σ α)
    (pick : List Nat → Nat), A.validate = .ok () → B.validate = .ok () → A.PyShape →
    A.symsEq B = true →
    ∃ M, A.binopMin op B pick = .ok M ∧ M.validate = .ok () ∧ M.PyShape ∧ M.syms = A.syms ∧
      ∀ w, M.accepts w = op.fin (A.accepts w) (B.accepts w)

/-- **Boolean operations, `retain_names=True, minify=True`** — given C05's guarantee `hmin`
for the one call of `_minify` made: the result is a valid DFA over the operands' alphabet
with exactly the set-operation language. -/
theorem C04_binop_min_partial (op : BinOp) (A B : AV.DFA σ α) (pick : List Nat → Nat)
    (hA : A.validate = .ok ()) (hB : B.validate = .ok ()) (pA : A.PyShape) (hs : A.symsEq B = true)
    (hmin : ∀ P, A.binopPlain op B = .ok P →
      MinifyCoreOk P.states P.syms P.trans P.init P.finals pick) :
    ∃ M, A.binopMin op B pick = .ok M ∧ M.validate = .ok () ∧ M.PyShape ∧ M.syms = A.syms ∧
      ∀ w, M.accepts w = op.fin (A.accepts w) (B.accepts w) := by
  obtain ⟨P, hP, hsy, _, hl⟩ := C04_binop_min_call op A B hA hB pA hs
  have ok := hmin P hP
  refine ⟨minifyCore P.states P.syms P.trans P.init P.finals pick, ?_, ok.valid, ok.pyShape,
    (C04.minifyCore_syms _ _ _ _ _ _).trans hsy, fun w => (ok.accepts w).trans (hl w)⟩
  unfold binopMin; rw [hP]

/-- `C04_binop_min_full` follows from C05's guarantee for all admissible calls. -/
theorem C04_binop_min_of_C05
    (hC05 : MinifyGuarantee) :
    C04_binop_min_full := by
  intro σ α _ _ op A B pick hA hB pA hs
  refine C04_binop_min_partial op A B pick hA hB pA hs (fun P hP => ?_)
  obtain ⟨P', hP', _, hcall, _⟩ := C04_binop_min_call op A B hA hB pA hs
  have : P' = P := by rw [hP] at hP'; cases hP'; rfl
  subst this
  exact hC05 _ _ _ _ _ _ _ _ hcall

/-- `complement(minify=True)` of a complete DFA: the call of `_minify` (kept = states found
by `_bfs_states`, final = kept non-final states) is admissible and its refinement system
accepts the complement relative to the alphabet. -/
theorem C04_complement_min_call (c : AV.DFA σ α) (hv : c.validate = .ok ()) (pc : c.PyShape)
    (hc : c.IsComplete) :
    MinifyCall c.reachStates c.syms c.trans c.init (c.reachStates.filter fun q => decide (q ∉ c.finals)) ∧
    ∀ w, mfin (c.reachStates.filter fun q => decide (q ∉ c.finals))
        (mrun c.reachStates c.trans (some c.init) w) =
      ((w.all fun a => decide (a ∈ c.syms)) && !c.accepts w) := by
  have wf := (DFA.validate_eq_ok c).mp hv
  exact ⟨complementMin_call wf pc, complementMin_sys wf pc hc⟩

/-- The full statement for `complement(minify=True)` (proved: `C04_complement_min_full_holds`,
section 8). -/
def C04_complement_min_full : Prop :=
  ∀ (σ α : Type) [DecidableEq σ] [DecidableEq α] (d : AV.DFA σ α) (trap : σ)
    (pick : List Nat → Nat), d.validate = .ok () → d.PyShape → trap ∉ d.states →
    ∃ M, d.complementMinFull trap pick = .ok M ∧ M.validate = .ok () ∧ M.PyShape ∧
      M.syms = d.syms ∧
      ∀ w, M.accepts w = ((w.all fun a => decide (a ∈ d.syms)) && !d.accepts w)

/-- **Complement, `minify=True`** — given C05's guarantee `hmin` for the one call of
`_minify` made (on the completed operand). -/
theorem C04_complement_min_partial (d : AV.DFA σ α) (trap : σ) (pick : List Nat → Nat)
    (hd : d.validate = .ok ()) (pd : d.PyShape) (ht : trap ∉ d.states)
    (hmin : ∀ C, (if d.allowPartial then d.toComplete trap false else .ok d) = .ok C →
      MinifyCoreOk C.reachStates C.syms C.trans C.init
        (C.reachStates.filter fun q => decide (q ∉ C.finals)) pick) :
    ∃ M, d.complementMinFull trap pick = .ok M ∧ M.validate = .ok () ∧ M.PyShape ∧
      M.syms = d.syms ∧
      ∀ w, M.accepts w = ((w.all fun a => decide (a ∈ d.syms)) && !d.accepts w) := by
  have wf := (DFA.validate_eq_ok d).mp hd
  have key : ∃ C, (if d.allowPartial then d.toComplete trap false else .ok d) = .ok C ∧
      C.validate = .ok () ∧ C.PyShape ∧ C.syms = d.syms ∧ C.IsComplete ∧
      ∀ w, C.accepts w = d.accepts w := by
    cases hap : d.allowPartial with
    | false => exact ⟨d, by simp, hd, pd, rfl, isComplete_of_flag wf hap, fun _ => rfl⟩
    | true =>
      obtain ⟨C, hC, hv, hp, hs, hc, _, _, hacc⟩ := C04_to_complete d hd pd trap false ht
      exact ⟨C, by simpa using hC, hv, hp, hs, hc, hacc⟩
  obtain ⟨C, hC, hv, hp, hs, hc, hacc⟩ := key
  have ok := hmin C hC
  obtain ⟨_, hl⟩ := C04_complement_min_call C hv hp hc
  refine ⟨C.complementMin pick, ?_, ok.valid, ok.pyShape,
    (C04.minifyCore_syms _ _ _ _ _ _).trans hs, fun w => ?_⟩
  · unfold complementMinFull; rw [hC]
  · rw [C04.complementMin_eq, ok.accepts w, hl w, hs, hacc w]

/-- `to_partial(minify=True)`: the call of `_minify` (kept = live ∩ non-trap ∪ {initial}) is
admissible and its refinement system accepts the language of `d`. -/
theorem C04_to_partial_min_call (d : AV.DFA σ α) (hd : d.validate = .ok ()) (pd : d.PyShape) :
    MinifyCall d.partialStates d.syms d.trans d.init
      (d.finals.filter fun q => decide (q ∈ d.partialStates)) ∧
    ∀ w, mfin (d.finals.filter fun q => decide (q ∈ d.partialStates))
        (mrun d.partialStates d.trans (some d.init) w) = d.accepts w := by
  have wf := (DFA.validate_eq_ok d).mp hd
  exact ⟨toPartialMin_call wf pd, toPartialMin_sys wf⟩

/-- The full statement for `to_partial(minify=True)` (proved: `C04_to_partial_min_full_holds`,
section 8). -/
def C04_to_partial_min_full : Prop :=
  ∀ (σ α : Type) [DecidableEq σ] [DecidableEq α] (d : AV.DFA σ α) (pick : List Nat → Nat),
    d.validate = .ok () → d.PyShape →
    (d.toPartialMin pick).validate = .ok () ∧ (d.toPartialMin pick).PyShape ∧
      (d.toPartialMin pick).syms = d.syms ∧ ∀ w, (d.toPartialMin pick).accepts w = d.accepts w

/-- **`to_partial(minify=True)`** — given C05's guarantee `hmin` for the call of `_minify`. -/
theorem C04_to_partial_min_partial (d : AV.DFA σ α) (pick : List Nat → Nat)
    (hd : d.validate = .ok ()) (pd : d.PyShape)
    (hmin : MinifyCoreOk d.partialStates d.syms d.trans d.init
      (d.finals.filter fun q => decide (q ∈ d.partialStates)) pick) :
    (d.toPartialMin pick).validate = .ok () ∧ (d.toPartialMin pick).PyShape ∧
      (d.toPartialMin pick).syms = d.syms ∧ ∀ w, (d.toPartialMin pick).accepts w = d.accepts w := by
  obtain ⟨_, hl⟩ := C04_to_partial_min_call d hd pd
  rw [C04.toPartialMin_eq]
  exact ⟨hmin.valid, hmin.pyShape, C04.minifyCore_syms _ _ _ _ _ _, fun w => (hmin.accepts w).trans (hl w)⟩

/-- All three `minify=True` statements follow from C05's guarantee for admissible calls. -/
theorem C04_min_of_C05
    (hC05 : MinifyGuarantee) :
    C04_binop_min_full ∧ C04_complement_min_full ∧ C04_to_partial_min_full := by
  refine ⟨C04_binop_min_of_C05 hC05, ?_, ?_⟩
  · intro σ α _ _ d trap pick hd pd ht
    refine C04_complement_min_partial d trap pick hd pd ht (fun C hC => ?_)
    have wf := (DFA.validate_eq_ok d).mp hd
    have : C.validate = .ok () ∧ C.PyShape ∧ C.IsComplete := by
      cases hap : d.allowPartial with
      | false =>
        simp only [hap, Bool.false_eq_true, if_false] at hC
        cases hC
        exact ⟨hd, pd, isComplete_of_flag wf hap⟩
      | true =>
        simp only [hap, if_true] at hC
        obtain ⟨C', hC', hv, hp, _, hc, _⟩ := C04_to_complete d hd pd trap false ht
        rw [hC] at hC'; cases hC'
        exact ⟨hv, hp, hc⟩
    exact hC05 _ _ _ _ _ _ _ _ (C04_complement_min_call C this.1 this.2.1 this.2.2).1
  · intro σ α _ _ d pick hd pd
    exact C04_to_partial_min_partial d pick hd pd (hC05 _ _ _ _ _ _ _ _ (C04_to_partial_min_call d hd pd).1)

example : (match exA.binopMin .diff exB with
           | .ok M => (M.accepts [1], M.accepts [0, 1], M.states.length)
           | .error _ => (false, false, 0)) = (false, true, 4) := by decide
example : (match exA.complementMinFull 2 (fun _ => 0) with
           | .ok M => (M.accepts [1], M.accepts [1, 1], M.accepts [5], M.states.length)
           | .error _ => (false, false, false, 0)) = (false, true, false, 3) := by decide
example : ((exC.toPartialMin).accepts [0, 0, 0], (exC.toPartialMin).accepts [0, 1],
    (exC.toPartialMin).states.length) = (true, false, 2) := by decide

/-! ## 6. compositions: every operation preserves "valid DFA over Σ with language L"

`Sem d Sg L` (Proofs/Expr.lean): `d.validate = ok`, `d.PyShape`, `d.syms = Sg` as sets, and
`∀ w, d.accepts w = L w`.  The hypotheses of each theorem of sections 1–5 and 7 are exactly
this invariant for the operands, and the conclusion is this invariant for the result, so
every finite composition is covered — for `retain_names=True` by chaining the `C04_closed_*`
theorems (the state type changes at every product), and for `retain_names=False` by the
induction `C04_expr` over an explicit datatype of expression trees. -/

/-- Closure: `A.op(B, retain_names=True, minify=False)`. -/
theorem C04_closed_binop (op : BinOp) {A B : AV.DFA σ α} {Sg : List α} {LA LB : List α → Bool}
    (hA : Sem A Sg LA) (hB : Sem B Sg LB) :
    ∃ R, A.binopPlain op B = .ok R ∧ Sem R Sg (fun w => op.fin (LA w) (LB w)) := by
  have hs := hA.symsEq hB
  obtain ⟨R, hR, hv, hp, hsy, _⟩ := C04_binop_valid op A B hA.valid hB.valid hA.pyShape hs
  obtain ⟨R', hR', hl⟩ := C04_binop_lang op A B hA.valid hB.valid hA.pyShape hs
  have : R' = R := by rw [hR] at hR'; cases hR'; rfl
  subst this
  exact ⟨R', hR, hv, hp, fun a => by rw [hsy]; exact hA.syms a,
    fun w => by rw [hl w, hA.lang w, hB.lang w]⟩

/-- Closure: `A.op(B, retain_names=False, minify=False)`. -/
theorem C04_closed_binop_renumbered (op : BinOp) {A B : AV.DFA σ α} {Sg : List α}
    {LA LB : List α → Bool} (hA : Sem A Sg LA) (hB : Sem B Sg LB) :
    ∃ R, A.binopPlain op B = .ok R ∧ Sem R.renumber Sg (fun w => op.fin (LA w) (LB w)) := by
  have hs := hA.symsEq hB
  obtain ⟨R, hR, hv, hp, hsy, hl⟩ := C04_binop_renumbered op A B hA.valid hB.valid hA.pyShape hs
  exact ⟨R, hR, hv, hp, fun a => by rw [hsy]; exact hA.syms a,
    fun w => by rw [hl w, hA.lang w, hB.lang w]⟩

/-- Closure: `complement(minify=False)` (complement relative to `Sg*`). -/
theorem C04_closed_complement {d : AV.DFA σ α} {Sg : List α} {L : List α → Bool} (h : Sem d Sg L)
    (trap : σ) (ht : trap ∉ d.states) :
    ∃ R, d.complementFull trap = .ok R ∧
      Sem R Sg (fun w => (w.all fun a => decide (a ∈ Sg)) && !L w) := by
  obtain ⟨R, hR, hv, hp, hsy, _, _, hl⟩ := C04_complement d h.valid h.pyShape trap ht
  exact ⟨R, hR, hv, hp, fun a => by rw [hsy]; exact h.syms a,
    fun w => by rw [hl w, h.lang w, all_mem_congr h.syms w]⟩

/-- Closure: `to_complete` (language unchanged, result complete). -/
theorem C04_closed_to_complete {d : AV.DFA σ α} {Sg : List α} {L : List α → Bool} (h : Sem d Sg L)
    (trap : σ) (custom : Bool) (ht : trap ∉ d.states) :
    ∃ C, d.toComplete trap custom = .ok C ∧ Sem C Sg L ∧ C.IsComplete := by
  obtain ⟨C, hC, hv, hp, hsy, hc, _, _, hl⟩ := C04_to_complete d h.valid h.pyShape trap custom ht
  exact ⟨C, hC, ⟨hv, hp, fun a => by rw [hsy]; exact h.syms a, fun w => by rw [hl w, h.lang w]⟩, hc⟩

/-- Closure: `to_partial(minify=False)` (language unchanged). -/
theorem C04_closed_to_partial {d : AV.DFA σ α} {Sg : List α} {L : List α → Bool} (h : Sem d Sg L) :
    Sem d.toPartialPlain Sg L := by
  obtain ⟨hv, hp, hsy, _, hl⟩ := C04_to_partial d h.valid h.pyShape
  exact ⟨hv, hp, fun a => by rw [hsy]; exact h.syms a, fun w => by rw [hl w, h.lang w]⟩

/-- Closure of the `minify=True` operations, given C05's guarantee for admissible calls of
`_minify` (see section 7). -/
theorem C04_closed_min_partial
    (hC05 : MinifyGuarantee)
    {A B : AV.DFA σ α} {Sg : List α} {LA LB : List α → Bool} (hA : Sem A Sg LA) (hB : Sem B Sg LB)
    (pick : List Nat → Nat) :
    (∀ op, ∃ M, A.binopMin op B pick = .ok M ∧ Sem M Sg (fun w => op.fin (LA w) (LB w))) ∧
    (∀ trap, trap ∉ A.states → ∃ M, A.complementMinFull trap pick = .ok M ∧
      Sem M Sg (fun w => (w.all fun a => decide (a ∈ Sg)) && !LA w)) ∧
    Sem (A.toPartialMin pick) Sg LA := by
  obtain ⟨h1, h2, h3⟩ := C04_min_of_C05 hC05
  refine ⟨fun op => ?_, fun trap ht => ?_, ?_⟩
  · obtain ⟨M, hM, hv, hp, hsy, hl⟩ := h1 σ α op A B pick hA.valid hB.valid hA.pyShape (hA.symsEq hB)
    exact ⟨M, hM, hv, hp, fun a => by rw [hsy]; exact hA.syms a,
      fun w => by rw [hl w, hA.lang w, hB.lang w]⟩
  · obtain ⟨M, hM, hv, hp, hsy, hl⟩ := h2 σ α A trap pick hA.valid hA.pyShape ht
    exact ⟨M, hM, hv, hp, fun a => by rw [hsy]; exact hA.syms a,
      fun w => by rw [hl w, hA.lang w, all_mem_congr hA.syms w]⟩
  · obtain ⟨hv, hp, hsy, hl⟩ := h3 σ α A pick hA.valid hA.pyShape
    exact ⟨hv, hp, fun a => by rw [hsy]; exact hA.syms a, fun w => by rw [hl w, hA.lang w]⟩

/-- Closure: renaming by discovery index (for results whose transition keys are their states). -/
theorem C04_closed_renumber {d : AV.DFA σ α} {Sg : List α} {L : List α → Bool} (h : Sem d Sg L)
    (hk : akeys d.trans = d.states) : Sem d.renumber Sg L := by
  obtain ⟨hv, hp, hsy, _, hl⟩ := C04_renumber d h.valid h.pyShape (fun k hk' => by rw [← hk]; exact hk')
  exact ⟨hv, hp, fun a => by rw [hsy]; exact h.syms a, fun w => by rw [hl w, h.lang w]⟩

/-- Expression trees, general form: nodes may carry `minify=True`; C05's guarantee is only
needed if some node does. -/
theorem C04_expr_gen (trapOf : List Nat → Nat) (hfresh : ∀ l, trapOf l ∉ l) (pick : List Nat → Nat)
    (Sg : List α) (e : DFAExpr α) (hl : e.LeavesOk Sg)
    (hC05 : e.usesMinify = true → MinifyGuarantee) :
    ∃ R, e.eval trapOf pick = .ok R ∧ Sem R Sg (e.denote Sg) := by
  induction e with
  | leaf d => exact ⟨d, rfl, hl.1, hl.2.1, hl.2.2, fun _ => rfl⟩
  | binop op m l r ihl ihr =>
    obtain ⟨A, hA, sA⟩ := ihl hl.1 (fun h => hC05 (by simp [DFAExpr.usesMinify, h]))
    obtain ⟨B, hB, sB⟩ := ihr hl.2 (fun h => hC05 (by simp [DFAExpr.usesMinify, h]))
    cases m with
    | false =>
      obtain ⟨R, hR, sR⟩ := C04_closed_binop_renumbered op sA sB
      exact ⟨R.renumber, by simp only [DFAExpr.eval, hA, hB, hR, DFAExpr.renumberRes], sR⟩
    | true =>
      have g := hC05 (by simp [DFAExpr.usesMinify])
      obtain ⟨M, hM, sM⟩ := (C04_closed_min_partial g sA sB pick).1 op
      exact ⟨M.renumber, by simp only [DFAExpr.eval, hA, hB, hM, DFAExpr.renumberRes],
        C04_closed_renumber sM (binopMin_keys hM)⟩
  | compl m e ih =>
    obtain ⟨A, hA, sA⟩ := ih hl (fun h => hC05 (by simp [DFAExpr.usesMinify, h]))
    cases m with
    | false =>
      obtain ⟨R, hR, sR⟩ := C04_closed_complement sA (trapOf A.states) (hfresh _)
      exact ⟨R, by simp only [DFAExpr.eval, hA, hR], sR⟩
    | true =>
      have g := hC05 (by simp [DFAExpr.usesMinify])
      obtain ⟨M, hM, sM⟩ := (C04_closed_min_partial g sA sA pick).2.1 (trapOf A.states) (hfresh _)
      exact ⟨M.renumber, by simp only [DFAExpr.eval, hA, hM, DFAExpr.renumberRes],
        C04_closed_renumber sM (complementMinFull_keys hM)⟩
  | toPartial m e ih =>
    obtain ⟨A, hA, sA⟩ := ih hl (fun h => hC05 (by simp [DFAExpr.usesMinify, h]))
    cases m with
    | false => exact ⟨A.toPartialPlain, by simp only [DFAExpr.eval, hA], C04_closed_to_partial sA⟩
    | true =>
      have g := hC05 (by simp [DFAExpr.usesMinify])
      exact ⟨(A.toPartialMin pick).renumber, by simp only [DFAExpr.eval, hA],
        C04_closed_renumber (C04_closed_min_partial g sA sA pick).2.2 (toPartialMin_keys A pick)⟩
  | toComplete e ih =>
    obtain ⟨A, hA, sA⟩ := ih hl (fun h => hC05 (by simpa [DFAExpr.usesMinify] using h))
    obtain ⟨C, hC, sC, _⟩ := C04_closed_to_complete sA (trapOf A.states) false (hfresh _)
    exact ⟨C, by simp only [DFAExpr.eval, hA, hC], sC⟩

/-- The full statement for expression trees: all trees, all `minify` flags (proved:
`C04_expr_full_holds`, section 8). -/
def C04_expr_full : Prop :=
  ∀ (α : Type) [DecidableEq α] (trapOf : List Nat → Nat), (∀ l, trapOf l ∉ l) →
    ∀ (pick : List Nat → Nat) (Sg : List α) (e : DFAExpr α), e.LeavesOk Sg →
      ∃ R, e.eval trapOf pick = .ok R ∧ Sem R Sg (e.denote Sg)

/-- **Expression trees (`minify=False` everywhere).**  For every finite tree over {leaf, ∪,
∩, −, △, complement, to_partial, to_complete} whose leaves are valid duplicate-free DFAs
over one alphabet `Sg`, evaluation with the model of the code (`retain_names=False`;
`trapOf` returns a name outside the given states, as `_get_trap_state_id` does) succeeds,
and the result is a valid DFA over `Sg` whose verdict on every word is the denoted set
expression (complement relative to `Sg*`). -/
theorem C04_expr (trapOf : List Nat → Nat) (hfresh : ∀ l, trapOf l ∉ l) (pick : List Nat → Nat)
    (Sg : List α) (e : DFAExpr α) (hl : e.LeavesOk Sg) (hm : e.usesMinify = false) :
    ∃ R, e.eval trapOf pick = .ok R ∧ Sem R Sg (e.denote Sg) :=
  C04_expr_gen trapOf hfresh pick Sg e hl (fun h => by rw [hm] at h; cases h)

/-- **Expression trees, any `minify` flags** — given C05's guarantee for admissible calls of
`_minify`. -/
theorem C04_expr_min_partial (hC05 : MinifyGuarantee) : C04_expr_full :=
  fun _ _ trapOf hfresh pick Sg e hl => C04_expr_gen trapOf hfresh pick Sg e hl (fun _ => hC05)

/-- `freshNat` is an admissible trap-name oracle. -/
theorem C04_expr_fresh (l : List Nat) : freshNat l ∉ l := freshNat_not_mem l

/-- `(A − B) ∪ ~(to_partial(A) ∩ to_complete(B))`: five operation nodes. -/
def exE : DFAExpr Nat :=
  .union (.diff (.leaf exA) (.leaf exB))
    (.compl false (.inter (.toPartial false (.leaf exA)) (.toComplete (.leaf exB))))

/-- The same tree with `minify=True` at three nodes. -/
def exEm : DFAExpr Nat :=
  .union (.diff (.leaf exA) (.leaf exB) true)
    (.compl true (.inter (.toPartial true (.leaf exA)) (.toComplete (.leaf exB)))) false

theorem exA_leafOk : (DFAExpr.leaf exA).LeavesOk [0, 1] :=
  ⟨by rfl, ⟨by decide, by decide, by decide, by decide, by decide⟩, fun _ => Iff.rfl⟩
theorem exB_leafOk : (DFAExpr.leaf exB).LeavesOk [0, 1] :=
  ⟨by rfl, ⟨by decide, by decide, by decide, by decide, by decide⟩, fun _ => Iff.rfl⟩

example : exE.LeavesOk [0, 1] := ⟨⟨exA_leafOk, exB_leafOk⟩, ⟨exA_leafOk, exB_leafOk⟩⟩
example : exE.size = 6 ∧ exE.usesMinify = false ∧ exEm.usesMinify = true := by decide
example : (match exEm.eval freshNat (fun _ => 0) with
           | .ok R => (R.accepts [1], R.accepts [0, 0], R.accepts [1, 0, 1], R.accepts [1, 7])
           | .error _ => (true, false, false, true)) = (false, true, true, false) := by decide
example : (match exE.eval freshNat (fun _ => 0) with
           | .ok R => (R.states.length, R.accepts [1], R.accepts [0, 0], R.accepts [1, 0, 1], R.accepts [1, 7])
           | .error _ => (0, true, false, false, true)) = (5, false, true, true, false) := by decide
example : (exE.denote [0, 1] [1], exE.denote [0, 1] [0, 0], exE.denote [0, 1] [1, 0, 1],
    exE.denote [0, 1] [1, 7]) = (false, true, true, false) := by decide
example : (match exE.eval freshNat (fun _ => 0) with
           | .ok R => R.validate
           | .error e => .error e) = .ok () := by rfl

end AV.Props.C04

/-! # 8. `minify=True`, unconditionally

Section 7 proved the caller side of every `minify=True` path and stated the callee side
(`MinifyCoreOk` for the call made / `MinifyGuarantee` for all admissible calls) as a
hypothesis.  That hypothesis is C05's result; it is discharged in Proofs/MinGlue.lean
(`minifyGuarantee`: `hopcroft_nerode` + `minifyCore_accepts` + `quotOf_wf` + `quotOf_pyShape`).
The theorems below are the `_partial` theorems of sections 6–7 without the hypothesis, and
the `_full` statements are proved. -/

namespace AV.Props.C04
open AV AV.DFA AV.C04

variable {σ α : Type} [DecidableEq σ] [DecidableEq α]

/-- Every admissible call of `_minify` returns a valid, duplicate-free DFA accepting the
language of the refinement system (C05, for every pop order). -/
theorem C04_minifyGuarantee : MinifyGuarantee := minifyGuarantee

/-- **Boolean operations, `retain_names=True, minify=True`.**  For valid operands over a
common alphabet (every mix of partial and complete), every pop order `pick` of the
refinement loop: the call succeeds and the result is a valid duplicate-free DFA over the
operands' alphabet that accepts exactly the words on which the set operation of the two
verdicts holds. -/
theorem C04_binop_min (op : BinOp) (A B : AV.DFA σ α) (pick : List Nat → Nat)
    (hA : A.validate = .ok ()) (hB : B.validate = .ok ()) (pA : A.PyShape) (hs : A.symsEq B = true) :
    ∃ M, A.binopMin op B pick = .ok M ∧ M.validate = .ok () ∧ M.PyShape ∧ M.syms = A.syms ∧
      ∀ w, M.accepts w = op.fin (A.accepts w) (B.accepts w) :=
  (C04_min_of_C05 minifyGuarantee).1 σ α op A B pick hA hB pA hs

/-- **Complement, `minify=True`**, of any valid DFA (partial or complete; the operand is
completed first iff `allow_partial`), any trap name outside the states, every pop order: the
call succeeds with a valid duplicate-free DFA over the same alphabet that accepts exactly the
words over the alphabet that the operand rejects. -/
theorem C04_complement_min (d : AV.DFA σ α) (trap : σ) (pick : List Nat → Nat)
    (hd : d.validate = .ok ()) (pd : d.PyShape) (ht : trap ∉ d.states) :
    ∃ M, d.complementMinFull trap pick = .ok M ∧ M.validate = .ok () ∧ M.PyShape ∧
      M.syms = d.syms ∧
      ∀ w, M.accepts w = ((w.all fun a => decide (a ∈ d.syms)) && !d.accepts w) :=
  (C04_min_of_C05 minifyGuarantee).2.1 σ α d trap pick hd pd ht

/-- **`to_partial(minify=True)`** of any valid DFA, every pop order: a valid duplicate-free
DFA over the same alphabet with the same verdict on every word. -/
theorem C04_to_partial_min (d : AV.DFA σ α) (pick : List Nat → Nat)
    (hd : d.validate = .ok ()) (pd : d.PyShape) :
    (d.toPartialMin pick).validate = .ok () ∧ (d.toPartialMin pick).PyShape ∧
      (d.toPartialMin pick).syms = d.syms ∧ ∀ w, (d.toPartialMin pick).accepts w = d.accepts w :=
  (C04_min_of_C05 minifyGuarantee).2.2 σ α d pick hd pd

theorem C04_binop_min_full_holds : C04_binop_min_full := (C04_min_of_C05 minifyGuarantee).1
theorem C04_complement_min_full_holds : C04_complement_min_full :=
  (C04_min_of_C05 minifyGuarantee).2.1
theorem C04_to_partial_min_full_holds : C04_to_partial_min_full :=
  (C04_min_of_C05 minifyGuarantee).2.2

/-- **Boolean operations, `retain_names=False, minify=True` — the DEFAULT options.**  The
minimised product renamed by counter values is a valid duplicate-free DFA over the operands'
alphabet with exactly the set-operation language.  (Order of the two steps: the code renames
the product states while it expands them, minimises, and names the classes by `enumerate`;
the model minimises the product and renumbers the classes.  Both name the same classes by
`0, 1, …` in an order that depends on set iteration, so the two results are isomorphic —
the correspondence compares them up to isomorphism — and validity, alphabet and language,
which is all this theorem states, are invariant under it.) -/
theorem C04_binop_min_renumbered (op : BinOp) (A B : AV.DFA σ α) (pick : List Nat → Nat)
    (hA : A.validate = .ok ()) (hB : B.validate = .ok ()) (pA : A.PyShape) (hs : A.symsEq B = true) :
    ∃ M, A.binopMin op B pick = .ok M ∧ M.renumber.validate = .ok () ∧ M.renumber.PyShape ∧
      M.renumber.syms = A.syms ∧
      ∀ w, M.renumber.accepts w = op.fin (A.accepts w) (B.accepts w) := by
  obtain ⟨M, hM, hv, hp, hsy, hl⟩ := C04_binop_min op A B pick hA hB pA hs
  obtain ⟨h1, h2, h3, _, h5⟩ :=
    C04_renumber M hv hp (fun k hk => by rw [← binopMin_keys hM]; exact hk)
  exact ⟨M, hM, h1, h2, h3.trans hsy, fun w => (h5 w).trans (hl w)⟩

/-- **Complement with the default options** (`retain_names=False, minify=True`). -/
theorem C04_complement_min_renumbered (d : AV.DFA σ α) (trap : σ) (pick : List Nat → Nat)
    (hd : d.validate = .ok ()) (pd : d.PyShape) (ht : trap ∉ d.states) :
    ∃ M, d.complementMinFull trap pick = .ok M ∧ M.renumber.validate = .ok () ∧
      M.renumber.PyShape ∧ M.renumber.syms = d.syms ∧
      ∀ w, M.renumber.accepts w = ((w.all fun a => decide (a ∈ d.syms)) && !d.accepts w) := by
  obtain ⟨M, hM, hv, hp, hsy, hl⟩ := C04_complement_min d trap pick hd pd ht
  obtain ⟨h1, h2, h3, _, h5⟩ :=
    C04_renumber M hv hp (fun k hk => by rw [← complementMinFull_keys hM]; exact hk)
  exact ⟨M, hM, h1, h2, h3.trans hsy, fun w => (h5 w).trans (hl w)⟩

/-- **All four option combinations of a Boolean operation at once** (`binopOpts`,
Model/DFAOperators.lean): the call succeeds and, whatever the state type of the result, it is
a valid duplicate-free DFA over the operands' alphabet with the set-operation language. -/
theorem C04_binop_all_options (op : BinOp) (A B : AV.DFA σ α) (retain minify : Bool)
    (pick : List Nat → Nat)
    (hA : A.validate = .ok ()) (hB : B.validate = .ok ()) (pA : A.PyShape) (hs : A.symsEq B = true) :
    (∃ R, binopOpts op A B retain minify pick = .ok (.named R) ∧ R.validate = .ok () ∧ R.PyShape ∧
      R.syms = A.syms ∧ ∀ w, R.accepts w = op.fin (A.accepts w) (B.accepts w)) ∨
    (∃ R, binopOpts op A B retain minify pick = .ok (.blocks R) ∧ R.validate = .ok () ∧ R.PyShape ∧
      R.syms = A.syms ∧ ∀ w, R.accepts w = op.fin (A.accepts w) (B.accepts w)) ∨
    (∃ R, binopOpts op A B retain minify pick = .ok (.numbered R) ∧ R.validate = .ok () ∧ R.PyShape ∧
      R.syms = A.syms ∧ ∀ w, R.accepts w = op.fin (A.accepts w) (B.accepts w)) := by
  cases minify <;> cases retain
  · obtain ⟨R, hR, h⟩ := C04_binop_renumbered op A B hA hB pA hs
    exact Or.inr (Or.inr ⟨R.renumber, by simp [binopOpts, hR, Except.map], h⟩)
  · obtain ⟨R, hR, hv, hp, hsy, _⟩ := C04_binop_valid op A B hA hB pA hs
    obtain ⟨R', hR', hl⟩ := C04_binop_lang op A B hA hB pA hs
    have : R' = R := by rw [hR] at hR'; cases hR'; rfl
    subst this
    exact Or.inl ⟨R', by simp [binopOpts, hR, Except.map], hv, hp, hsy, hl⟩
  · obtain ⟨M, hM, h⟩ := C04_binop_min_renumbered op A B pick hA hB pA hs
    exact Or.inr (Or.inr ⟨M.renumber, by simp [binopOpts, hM, Except.map], h⟩)
  · obtain ⟨M, hM, h⟩ := C04_binop_min op A B pick hA hB pA hs
    exact Or.inr (Or.inl ⟨M, by simp [binopOpts, hM, Except.map], h⟩)

/-- **The operators `| & - ^`.**  `DFA.operator op` (Model/DFAOperators.lean) is what the
source makes of the operator: the `return self.<method>(other, …)` of `__or__` / `__and__` /
`__sub__` / `__xor__` with the keyword defaults of that method, both read from the tables
regenerated from automata/fa/dfa.py.  With the source as it is, that is the method with
`retain_names=False, minify=True`, and the result is a valid duplicate-free DFA over the
operands' alphabet with exactly the set-operation language.  If a default or the called
method changes in the source, the regenerated tables change and this proof breaks. -/
theorem C04_operators (op : BinOp) (A B : AV.DFA σ α) (pick : List Nat → Nat)
    (hA : A.validate = .ok ()) (hB : B.validate = .ok ()) (pA : A.PyShape) (hs : A.symsEq B = true) :
    operator op A B pick = binopOpts op A B false true pick ∧
    ∃ R, operator op A B pick = .ok (.numbered R) ∧ R.validate = .ok () ∧ R.PyShape ∧
      R.syms = A.syms ∧ ∀ w, R.accepts w = op.fin (A.accepts w) (B.accepts w) := by
  have h0 : operator op A B pick = binopOpts op A B false true pick := by
    cases op <;> rfl
  refine ⟨h0, ?_⟩
  obtain ⟨M, hM, h⟩ := C04_binop_min_renumbered op A B pick hA hB pA hs
  exact ⟨M.renumber, by rw [h0]; simp [binopOpts, hM, Except.map], h⟩

/-- The four operators by name. -/
theorem C04_or_and_sub_xor (A B : AV.DFA σ α) (pick : List Nat → Nat)
    (hA : A.validate = .ok ()) (hB : B.validate = .ok ()) (pA : A.PyShape) (hs : A.symsEq B = true) :
    (∃ R, A.or B pick = .ok (.numbered R) ∧ R.validate = .ok () ∧
      ∀ w, R.accepts w = (A.accepts w || B.accepts w)) ∧
    (∃ R, A.and B pick = .ok (.numbered R) ∧ R.validate = .ok () ∧
      ∀ w, R.accepts w = (A.accepts w && B.accepts w)) ∧
    (∃ R, A.sub B pick = .ok (.numbered R) ∧ R.validate = .ok () ∧
      ∀ w, R.accepts w = (A.accepts w && !B.accepts w)) ∧
    (∃ R, A.xor B pick = .ok (.numbered R) ∧ R.validate = .ok () ∧
      ∀ w, R.accepts w = (Bool.xor (A.accepts w) (B.accepts w))) := by
  refine ⟨?_, ?_, ?_, ?_⟩
  · obtain ⟨R, h1, h2, _, _, h5⟩ := (C04_operators .union A B pick hA hB pA hs).2
    exact ⟨R, h1, h2, h5⟩
  · obtain ⟨R, h1, h2, _, _, h5⟩ := (C04_operators .inter A B pick hA hB pA hs).2
    exact ⟨R, h1, h2, h5⟩
  · obtain ⟨R, h1, h2, _, _, h5⟩ := (C04_operators .diff A B pick hA hB pA hs).2
    exact ⟨R, h1, h2, h5⟩
  · obtain ⟨R, h1, h2, _, _, h5⟩ := (C04_operators .symm A B pick hA hB pA hs).2
    exact ⟨R, h1, h2, h5⟩

/-- **The operator `~`**: `complement()` with the source's defaults (`retain_names=False,
minify=True`), complement relative to `Σ*`. -/
theorem C04_invert (d : AV.DFA σ α) (trap : σ) (pick : List Nat → Nat)
    (hd : d.validate = .ok ()) (pd : d.PyShape) (ht : trap ∉ d.states) :
    invert d trap pick = complementOpts d trap false true pick ∧
    ∃ R, invert d trap pick = .ok (.numbered R) ∧ R.validate = .ok () ∧ R.PyShape ∧
      R.syms = d.syms ∧
      ∀ w, R.accepts w = ((w.all fun a => decide (a ∈ d.syms)) && !d.accepts w) := by
  have h0 : invert d trap pick = complementOpts d trap false true pick := rfl
  refine ⟨h0, ?_⟩
  obtain ⟨M, hM, h⟩ := C04_complement_min_renumbered d trap pick hd pd ht
  exact ⟨M.renumber, by rw [h0]; simp [complementOpts, hM, Except.map], h⟩

/-- The regenerated source facts the operator model reads: every operator returns exactly one
call `self.<method>(other)` without keyword arguments, and the keyword defaults of all
option-taking DFA methods are `retain_names=False`, `minify=True`. -/
theorem C04_operator_table :
    Gen.DfaDefaults.operators =
      [("__or__", "union", [], 1, []), ("__and__", "intersection", [], 1, []),
       ("__sub__", "difference", [], 1, []), ("__xor__", "symmetric_difference", [], 1, []),
       ("__invert__", "complement", [], 0, [])] ∧
    Gen.DfaDefaults.defaults =
      [("union", "retain_names", false), ("union", "minify", true),
       ("intersection", "retain_names", false), ("intersection", "minify", true),
       ("difference", "retain_names", false), ("difference", "minify", true),
       ("symmetric_difference", "retain_names", false), ("symmetric_difference", "minify", true),
       ("complement", "retain_names", false), ("complement", "minify", true),
       ("to_partial", "retain_names", false), ("to_partial", "minify", true),
       ("from_nfa", "retain_names", false), ("from_nfa", "minify", true),
       ("minify", "retain_names", false)] :=
  ⟨rfl, rfl⟩

/-- **Closure of the `minify=True` operations**: operands that are valid DFAs over `Sg` with
languages `LA`, `LB` give valid DFAs over `Sg` with the set-operation language / the
complement relative to `Sg*` / the same language — so `minify=True` results can be operands
of further operations. -/
theorem C04_closed_min {A B : AV.DFA σ α} {Sg : List α} {LA LB : List α → Bool}
    (hA : Sem A Sg LA) (hB : Sem B Sg LB) (pick : List Nat → Nat) :
    (∀ op, ∃ M, A.binopMin op B pick = .ok M ∧ Sem M Sg (fun w => op.fin (LA w) (LB w))) ∧
    (∀ trap, trap ∉ A.states → ∃ M, A.complementMinFull trap pick = .ok M ∧
      Sem M Sg (fun w => (w.all fun a => decide (a ∈ Sg)) && !LA w)) ∧
    Sem (A.toPartialMin pick) Sg LA :=
  C04_closed_min_partial minifyGuarantee hA hB pick

/-- **Expression trees, any `minify` flags.**  For every finite tree over {leaf, ∪, ∩, −, △,
complement, to_partial, to_complete} whose operation nodes carry an arbitrary `minify` flag
and whose leaves are valid duplicate-free DFAs over one alphabet `Sg`, evaluation with the
model of the code (`retain_names=False`; `trapOf` returns a name outside the given states,
`pick` is any pop order of the refinement loop) succeeds, and the result is a valid DFA over
`Sg` whose verdict on every word is the denoted set expression (complement relative to
`Sg*`). -/
theorem C04_expr_all (trapOf : List Nat → Nat) (hfresh : ∀ l, trapOf l ∉ l) (pick : List Nat → Nat)
    (Sg : List α) (e : DFAExpr α) (hl : e.LeavesOk Sg) :
    ∃ R, e.eval trapOf pick = .ok R ∧ Sem R Sg (e.denote Sg) :=
  C04_expr_gen trapOf hfresh pick Sg e hl (fun _ => minifyGuarantee)

theorem C04_expr_full_holds : C04_expr_full := C04_expr_min_partial minifyGuarantee

/-! ### non-vacuity: the hypotheses are met by `exA`, `exB`, `exC`, `exEm` above -/

example : ∃ M, exA.binopMin .symm exB (fun _ => 0) = .ok M ∧ M.validate = .ok () ∧ M.PyShape ∧
    M.syms = exA.syms ∧ ∀ w, M.accepts w = BinOp.symm.fin (exA.accepts w) (exB.accepts w) :=
  C04_binop_min .symm exA exB _ (by rfl) (by rfl)
    ⟨by decide, by decide, by decide, by decide, by decide⟩ (by decide)
example : (2 : Nat) ∉ exA.states := by decide
example : ∃ M, exA.complementMinFull 2 (fun _ => 0) = .ok M ∧ M.validate = .ok () ∧ M.PyShape ∧
    M.syms = exA.syms ∧
    ∀ w, M.accepts w = ((w.all fun a => decide (a ∈ exA.syms)) && !exA.accepts w) :=
  C04_complement_min exA 2 _ (by rfl) ⟨by decide, by decide, by decide, by decide, by decide⟩
    (by decide)
example : ∀ w, (exC.toPartialMin).accepts w = exC.accepts w :=
  (C04_to_partial_min exC _ (by rfl) ⟨by decide, by decide, by decide, by decide, by decide⟩).2.2.2
example : exEm.LeavesOk [0, 1] := ⟨⟨exA_leafOk, exB_leafOk⟩, ⟨exA_leafOk, exB_leafOk⟩⟩
example : ∃ R, exEm.eval freshNat (fun _ => 0) = .ok R ∧ Sem R [0, 1] (exEm.denote [0, 1]) :=
  C04_expr_all freshNat freshNat_not_mem _ [0, 1] exEm
    ⟨⟨exA_leafOk, exB_leafOk⟩, ⟨exA_leafOk, exB_leafOk⟩⟩
example : (exEm.denote [0, 1] [1], exEm.denote [0, 1] [0, 0], exEm.denote [0, 1] [1, 0, 1],
    exEm.denote [0, 1] [1, 7]) = (false, true, true, false) := by decide

-- the operators on the running examples: default options, counter names
example : (match exA.or exB (fun _ => 0) with
    | .ok (.numbered R) => (R.states.length, R.accepts [1], R.accepts [0, 0])
    | _ => (0, false, false)) =
    (match exA.binopMin .union exB (fun _ => 0) with
    | .ok M => (M.states.length, M.accepts [1], M.accepts [0, 0])
    | .error _ => (1, false, false)) := by decide
example : (match invert exA 2 (fun _ => 0) with
    | .ok (.numbered R) => (R.accepts [1], R.accepts [0], R.accepts [7])
    | _ => (true, false, true)) = (!exA.accepts [1], !exA.accepts [0], false) := by decide

end AV.Props.C04
