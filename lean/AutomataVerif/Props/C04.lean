import AutomataVerif.Model.DFAOps
