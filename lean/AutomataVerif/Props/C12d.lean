/-
Props/C12d.lean — C12: the last hypothesis of "`GNFA.to_regex` returns a regex for the language,
for EVERY GNFA that `GNFA.validate` accepts" is discharged.

`Props/C12c.lean` replaced `Shape` by `validate = ok` and left `Denotes Lab` — "every string label
denotes a language" — as `C12_validate_gives_denotes_full` (not proved there: the repository had
`Renders → re._validate accepts`, not the converse).  The converse is a parsing-completeness
statement for the label syntax; `Proofs/GnfaLabelParse.lean` proves it with an executable one-pass
parser `parseLabel : Str → Option Rx`:

* soundness      `parseLabel s = some e → Renders .U e s`                (`C12_label_parse_sound`);
* completeness   `s ≠ ""`, characters of the grammar, `re._validate s` ⇒ `parseLabel s ≠ none`
                                                                         (`C12_label_parse_complete`);
* so `validate_tokens` — the pair automaton with the late bracket counter — accepts **exactly**
  the strings of the grammar (`C12_validator_accepts_exactly_grammar`).  In particular the corner
  cases the pair automaton lets through (`a**`, `()`, `(())`, `a|()`, `()?`, `()()`, `a?*?`) are all
  strings of the grammar (examples below, parsed by `decide`), and the real `NFA.from_regex`
  accepts each of them with the language of the parse (replayed on /repo).  No counter-example
  exists: the statement `C12_validate_gives_denotes_full` is true
  (`C12_validate_gives_denotes_full_holds`).

End theorems (no `Shape`, no `Denotes`; the only hypotheses are: the constructor accepted the
definition, rows are dicts, the input symbols are literal characters — necessary, see the open
finding `C12:alphabet-has-reserved-regex-character` and `C12_label_needs_literal_alphabet` below):

* `C12_to_regex_of_validate`      — `to_regex` returns (every tie-break) `None` iff the language of
  the GNFA is empty, else a well-formed regex string for exactly that language, the edge
  languages being the **explicit** `labelLb` (each label parsed by `parseLabel`);
* `C12_to_regex_full_of_validate` — the same through the library's own parser model (C10): every
  label `s` of the GNFA compiles (`NFA.from_regex(s)`) to `labelDen s`, and the string returned by
  `to_regex` compiles to the language of the GNFA over those edge languages;
* `C12_to_regex_of_validate_re`   — the same for the validator instance `reValidate` that the
  driver runs (C10 lexer with the quantifier rule).
-/
import AutomataVerif.Props.C12b
import AutomataVerif.Props.C12c
import AutomataVerif.Proofs.GnfaLabelParse

namespace AV.Props.C12
open AV AV.GNFA AV.GnfaSpec

variable {σ : Type} [DecidableEq σ]

/-! ## (1) the label parser -/

/-- **C12_label_parse_sound** — a string the label parser accepts renders the expression it
returns (so, by `C12_parser_full_holds`, the library compiles it to that expression's language). -/
theorem C12_label_parse_sound {s : Str} {e : Rx} (h : parseLabel s = some e) : Renders .U e s :=
  parseLabel_sound h

/-- **C12_label_parse_complete** — parsing completeness against the validator: a non-empty string
over literal characters and `* | ( ) ?` on which the model of `re._validate` answers `True` has
a parse. -/
theorem C12_label_parse_complete {s : Str} (hne : s ≠ []) (hch : ∀ c ∈ s, RChar c)
    (hv : simpleRxValid s = .ok true) : ∃ e, parseLabel s = some e :=
  parseLabel_complete hne hch hv

/-- **C12_validator_accepts_exactly_grammar** — on non-empty strings over literal characters and
`* | ( ) ?`: `re._validate` accepts ⇔ `parseLabel` succeeds ⇔ the string renders an expression.
(`⇐` of the first equivalence is `C12_renders_valid`; `⇒` is new.) -/
theorem C12_validator_accepts_exactly_grammar {s : Str} (hne : s ≠ []) (hch : ∀ c ∈ s, RChar c) :
    (simpleRxValid s = .ok true ↔ ∃ e, parseLabel s = some e) ∧
    ((∃ e, parseLabel s = some e) ↔ ∃ e, Renders .U e s) :=
  parseLabel_iff_valid hne hch

/-- **C12_label_denotes** — one label: if `_validate_transition_invalid_symbols` accepts the
string `s` over an alphabet of literal characters, then `s` denotes the language `labelDen s`
(`{ε}` for `""`, else the language of the parse). -/
theorem C12_label_denotes {syms : List Char} (hlit : ∀ a ∈ syms, IsLit a) {s : Str}
    (h : strLabelCheck simpleRxValid syms s = .ok ()) : Lab (labelDen s) s :=
  strLabelCheck_lab hlit h

/-- **C12_label_compile** — and the library's own parser model (C10, `NFA.from_regex(s)` with the
inferred alphabet) compiles an accepted label to exactly that language: `labelDen` is not a
convention of this file but what the library reads the label as. -/
theorem C12_label_compile {syms : List Char} (hlit : ∀ a ∈ syms, IsLit a) {s : Str}
    (h : strLabelCheck simpleRxValid syms s = .ok ()) :
    AV.Rx.GnfaGlue.compile s = some (labelDen s) := by
  rcases strLabelCheck_lab hlit h with ⟨rfl, h1⟩ | ⟨e, hr, hd⟩
  · rw [h1]; exact C12_parser_full_holds.1
  · rw [← hd]; exact C12_parser_full_holds.2 e s hr

/-! ## (2) `GNFA.validate = ok` gives `Denotes` -/

/-- The edge languages of a GNFA with string labels: `None` / a missing entry is no edge,
a string is read by `labelDen`. -/
def labelLb (tr : Table σ Str) (p r : σ) : Language Char :=
  match lab tr p r with
  | none => 0
  | some s => labelDen s

omit [DecidableEq σ] in
theorem lab_some_mem [DecidableEq σ] {ℓ : Type} {tr : Table σ ℓ} {p r : σ} {l : ℓ}
    (h : lab tr p r = some l) : ∃ kv ∈ tr, some l ∈ avals kv.2 := by
  unfold lab get2 at h
  cases h1 : alookup p tr with
  | none => rw [h1] at h; simp at h
  | some row =>
    rw [h1] at h
    simp only [Option.bind_some] at h
    cases h2 : alookup r row with
    | none => rw [h2] at h; simp at h
    | some o =>
      rw [h2] at h
      simp only [Option.join_some] at h
      subst h
      exact ⟨(p, row), alookup_some_mem h1, alookup_some_val_mem h2⟩

/-- **C12_validate_gives_denotes** — the hypothesis `Denotes Lab` of the C12c theorems holds for
every accepted GNFA over literal input symbols, with the explicit edge languages `labelLb`. -/
theorem C12_validate_gives_denotes (g : GNFA σ Str)
    (hv : g.validateStr simpleRxValid = .ok ()) (hlit : ∀ a ∈ g.syms, IsLit a) :
    Denotes Lab g.trans (labelLb g.trans) := by
  have hA := accepted_of_validate hv
  intro p r
  unfold labelLb
  cases hl : lab g.trans p r with
  | none => rfl
  | some s =>
    obtain ⟨kv, hkv, hs⟩ := lab_some_mem hl
    exact strLabelCheck_lab hlit (hA.labels kv hkv s hs)

/-- **C12_validate_gives_denotes_full_holds** — the statement left open in Props/C12c.lean. -/
theorem C12_validate_gives_denotes_full_holds : C12_validate_gives_denotes_full σ :=
  fun g hv hlit => ⟨labelLb g.trans, C12_validate_gives_denotes g hv hlit⟩

/-! ## (3) `to_regex` on every accepted GNFA, no hypothesis on the labels left -/

/-- **C12_to_regex_of_validate** — `C12_to_regex_strings_of_validate` without `Denotes`: for every
GNFA the constructor accepts (rows are dicts, input symbols literal characters) and every
tie-break order, `to_regex` raises nothing and returns `None` iff the language of the GNFA is
empty, else a well-formed regex string for exactly the language of the GNFA — paths from the
initial to the final state, each edge read with the language of its label. -/
theorem C12_to_regex_of_validate (g : GNFA σ Str)
    (hv : g.validateStr simpleRxValid = .ok ()) (hnd : ∀ kv ∈ g.trans, (akeys kv.2).Nodup)
    (hlit : ∀ a ∈ g.syms, IsLit a)
    (ord : Nat → List σ → List σ) (hord : ∀ k l x, x ∈ ord k l ↔ x ∈ l) :
    ∃ o, toRegex g ord = .ok o ∧ LabO (GLang (labelLb g.trans) g.init g.final) o :=
  C12_to_regex_strings_of_validate simpleRxValid g hv hnd
    (C12_validate_gives_denotes g hv hlit) ord hord

/-- **C12_to_regex_full_of_validate** — the English property for hand-written GNFAs, through the
library's own parser model: every label of an accepted GNFA compiles to `labelDen` of it, and
`to_regex` returns `None` iff the GNFA's language over these edge languages is empty, else a
string that `re._validate` accepts and that `NFA.from_regex` compiles to exactly that language. -/
theorem C12_to_regex_full_of_validate (g : GNFA σ Str)
    (hv : g.validateStr simpleRxValid = .ok ()) (hnd : ∀ kv ∈ g.trans, (akeys kv.2).Nodup)
    (hlit : ∀ a ∈ g.syms, IsLit a)
    (ord : Nat → List σ → List σ) (hord : ∀ k l x, x ∈ ord k l ↔ x ∈ l) :
    (∀ p r s, lab g.trans p r = some s → AV.Rx.GnfaGlue.compile s = some (labelDen s)) ∧
    ∃ o, toRegex g ord = .ok o ∧
      match o with
      | none => GLang (labelLb g.trans) g.init g.final = 0
      | some s => simpleRxValid s = .ok true ∧
          AV.Rx.GnfaGlue.compile s = some (GLang (labelLb g.trans) g.init g.final) := by
  have hA := accepted_of_validate hv
  refine ⟨fun p r s hl => ?_, ?_⟩
  · obtain ⟨kv, hkv, hs⟩ := lab_some_mem hl
    exact C12_label_compile hlit (hA.labels kv hkv s hs)
  · obtain ⟨o, ho, hL⟩ := C12_to_regex_of_validate g hv hnd hlit ord hord
    refine ⟨o, ho, ?_⟩
    cases o with
    | none => exact hL
    | some s =>
      refine ⟨Lab.valid hL, ?_⟩
      rcases hL with ⟨rfl, h1⟩ | ⟨e, hr, hd⟩
      · rw [h1]; exact C12_parser_full_holds.1
      · rw [← hd]; exact C12_parser_full_holds.2 e s hr

/-- **C12_to_regex_of_validate_re** — the same for the validator the driver runs (`reValidate`:
C10's lexer with the quantifier rule + `validate_tokens`): over literal input symbols the two
constructors are the same function. -/
theorem C12_to_regex_of_validate_re (g : GNFA σ Str)
    (hv : g.validateStr reValidate = .ok ()) (hnd : ∀ kv ∈ g.trans, (akeys kv.2).Nodup)
    (hlit : ∀ a ∈ g.syms, IsLit a)
    (ord : Nat → List σ → List σ) (hord : ∀ k l x, x ∈ ord k l ↔ x ∈ l) :
    ∃ o, toRegex g ord = .ok o ∧ LabO (GLang (labelLb g.trans) g.init g.final) o := by
  have hb : '{' ∉ g.syms := fun h => absurd (hlit _ h) (by decide)
  rw [← AV.GNFA.ReValidate.validateStr_congr g hb] at hv
  exact C12_to_regex_of_validate g hv hnd hlit ord hord

/-! ## (4) the corner cases of `validate_tokens`, and non-vacuity -/

/-- Every corner case the pair automaton lets through is a string of the grammar. -/
example : parseLabel "a**".toList = some (.star (.star (.sym 'a'))) := by decide
example : parseLabel "()".toList = some .eps := by decide
example : parseLabel "(())".toList = some .eps := by decide
example : parseLabel "a|()".toList = some (.union (.sym 'a') .eps) := by decide
example : parseLabel "()?".toList = some (.opt .eps) := by decide
example : parseLabel "()()".toList = some (.cat .eps .eps) := by decide
example : parseLabel "a?*?".toList = some (.opt (.star (.opt (.sym 'a')))) := by decide
example : parseLabel "(()|a)*b".toList =
    some (.cat (.star (.union .eps (.sym 'a'))) (.sym 'b')) := by decide
example : parseLabel "ab|c(d|e)*f?".toList =
    some (.union (.cat (.sym 'a') (.sym 'b'))
      (.cat (.cat (.sym 'c') (.star (.union (.sym 'd') (.sym 'e')))) (.opt (.sym 'f')))) := by
  decide

/-- … and what it rejects has no parse (both sides of the equivalence evaluated). -/
example : parseLabel "".toList = none ∧ simpleRxValid "".toList = .ok true := by decide
example : parseLabel "(|a)".toList = none ∧ simpleRxValid "(|a)".toList = .ok false := by decide
example : parseLabel "(a|)".toList = none ∧ simpleRxValid "(a|)".toList = .ok false := by decide
example : parseLabel "a)(".toList = none ∧ simpleRxValid "a)(".toList = .ok false := by decide
example : parseLabel "*a".toList = none ∧ simpleRxValid "*a".toList = .ok false := by decide
example : parseLabel "a|*".toList = none ∧ simpleRxValid "a|*".toList = .ok false := by decide
example : parseLabel "(a".toList = none ∧ simpleRxValid "(a".toList = .ok false := by decide
example : parseLabel "a|".toList = none ∧ simpleRxValid "a|".toList = .ok false := by decide

/-- The hand-written GNFA of Props/C12c.lean (compound labels, all three kinds of slack): the end
theorem applies with nothing but decidable hypotheses. -/
example (ord : Nat → List Nat → List Nat) (hord : ∀ k l x, x ∈ ord k l ↔ x ∈ l) :
    ∃ o, toRegex exHand ord = .ok o ∧
      LabO (GLang (labelLb exHand.trans) exHand.init exHand.final) o :=
  C12_to_regex_of_validate exHand (by decide) (by decide) (by decide) ord hord

/-- A GNFA whose labels are the validator's corner cases: accepted, so the theorem applies.
0 -`a**`→ 1, 0 -`(())`→ 2, 1 -`a|()`→ 1, 1 -`()?b`→ 2. -/
def exCorner : GNFA Nat Str :=
  { states := [0, 1, 2], syms := ['a', 'b'],
    trans := [(0, [(1, some "a**".toList), (2, some "(())".toList)]),
              (1, [(1, some "a|()".toList), (2, some "()?b".toList)])],
    init := 0, final := 2 }

example : exCorner.validateStr simpleRxValid = .ok () := by decide

example : toRegex exCorner (fun _ l => l) = .ok (some "a**(a|())*()?b|(())".toList) := by decide

example (ord : Nat → List Nat → List Nat) (hord : ∀ k l x, x ∈ ord k l ↔ x ∈ l) :
    ∃ o, toRegex exCorner ord = .ok o ∧
      LabO (GLang (labelLb exCorner.trans) exCorner.init exCorner.final) o :=
  C12_to_regex_of_validate exCorner (by decide) (by decide) (by decide) ord hord

/-- **C12_label_needs_literal_alphabet** — the hypothesis "input symbols are literal characters"
cannot be dropped from `C12_label_denotes`: with the reserved character `.` (or `+`) as an input
symbol the constructor's label check accepts the labels `.` and `a+`, which are not strings of
the grammar (this is the open finding `C12:alphabet-has-reserved-regex-character`, see
`C12_reserved_alphabet_fails` in Props/C12b.lean for its effect on `to_regex`). -/
theorem C12_label_needs_literal_alphabet :
    strLabelCheck simpleRxValid ['.'] ['.'] = .ok () ∧ (¬ ∃ e, Renders .U e ['.']) ∧
    strLabelCheck simpleRxValid ['a', '+'] ['a', '+'] = .ok () ∧
    (¬ ∃ e, Renders .U e ['a', '+']) := by
  refine ⟨by decide, ?_, by decide, ?_⟩
  · rintro ⟨e, he⟩
    have := he.rchars '.' (by simp)
    revert this; unfold RChar; decide
  · rintro ⟨e, he⟩
    have := he.rchars '+' (by simp)
    revert this; unfold RChar; decide

end AV.Props.C12
