/-
Props/C10.lean — C10: regular expressions compile to an NFA with exactly the denoted language.

English statement (properties.jsonl): for every regular expression in the documented syntax
(literals, concatenation, | union, & intersection, ^ shuffle, postfix * + ? and {m,n} {m,} {,n}
repetition, . wildcard over the given alphabet, () empty string, grouping, ignored blanks), the
NFA built from it accepts exactly the language the expression denotes, with postfix operators
binding tighter than concatenation and concatenation tighter than the binary operators.
Redundant parentheses and blanks never change the language.

How it is stated here.
* Abstract syntax `Rx α` (Model/RxAst.lean) and its denotation `den Σ : Rx α → Language α`
  (Proofs/RxDen.lean; Mathlib's `Language`: `*`, `+`, `⊓`, `∗`, `^`, and `shuffleLang`).
* Concrete syntax: `Renders ts s` — the string `s` spells the token list `ts` with blanks anywhere
  (Proofs/RxLex.lean) — and `G .E e ts` — `ts` is an expression of the token grammar with tree
  `e`: postfix operators bind tighter than juxtaposition, juxtaposition tighter than `| & ^`,
  which share one left-associative level; `A → ( E )` makes redundant parentheses derivable
  (Proofs/RxGrammar.lean).
* The model of the code: `lex`, `validateTokens`, `addConcat`, `tokensToPostfix`, `evalPostfix`,
  `Builder.*`, `parseRegex`, `fromRegex` (Model/Rx*.lean).  Acceptance of the resulting NFA is
  `NFA.accepts` of Model/NFA.lean, which C01 proves equal to Mathlib's `εNFA.accepts`.
-/
import AutomataVerif.Proofs.RxDen
import AutomataVerif.Proofs.RxPipeline

namespace AV.Props.C10
open AV AV.Rx

/-! ## precedences (regenerated table) -/

/-- Precedences as the source has them now (`AV.Gen.Regex.tokenClasses`, regenerated from
parser.py on every run): postfix operators 3 > concatenation 2 > union = intersection = shuffle 1.
The parser theorem below is proved against these values, so a change of any of them in the source
breaks the build of this file. -/
theorem C10_generated_precedence :
    (Tok.star (α := Char)).prec = some 3 ∧ (Tok.plus (α := Char)).prec = some 3 ∧
    (Tok.opt (α := Char)).prec = some 3 ∧ (∀ lo hi, (Tok.quant (α := Char) lo hi).prec = some 3) ∧
    (Tok.concat (α := Char)).prec = some 2 ∧
    (Tok.union (α := Char)).prec = some 1 ∧ (Tok.inter (α := Char)).prec = some 1 ∧
    (Tok.shuffle (α := Char)).prec = some 1 := by
  refine ⟨by decide, by decide, by decide, fun _ _ => rfl, by decide, by decide, by decide, by decide⟩

/-! ## the builder -/

section builder
variable {α : Type} [DecidableEq α]

/-- **Builder theorem.**  For every expression tree `e`, alphabet `Σ` and counter value `c`, the
sequence of `NFARegexBuilder` calls the pipeline performs for `e` (literals / wildcard, `union`,
`intersection`, `concatenate`, `shuffle_product`, `repeat` for `* + ? {lo,hi}`)
* never fails (no `KeyError`), uses only state names in `[c, c')` and returns the counter `c'`;
* re-establishes the builder invariant (keys = states, distinct, all targets / initial / final
  states are keys, **no transition enters the initial state**);
* yields a valid NFA definition over any alphabet containing the literals of `e`;
* and the NFA accepts exactly `den Σ e` — for all repetition bounds, including upper bound 0 and
  `lo > hi` (empty language), and for ∩ / shuffle under star. -/
theorem C10_builder (syms : List α) (e : Rx α) (c : Nat) :
    ∃ b c', e.build syms c = .ok (b, c') ∧ c < c' ∧ b.Inv c c' ∧
      ((∀ a ∈ e.lits, a ∈ syms) → (b.toNFA syms).validate = .ok ()) ∧
      ∀ A, (b.toNFA A).validate = .ok () →
        ∀ w, (b.toNFA A).accepts w = true ↔ w ∈ den syms e := by
  obtain ⟨b, c', hb, hlt, i, r, sy, hl⟩ := build_spec syms e c
  refine ⟨b, c', hb, hlt, i, ?_, ?_⟩
  · intro hlits
    exact Builder.toNFA_valid i r (sy.mono (fun x hx => hx.elim id (hlits x)))
  · intro A hv w
    rw [toNFA_accepts_iff b A hv, hl, den_iff]

/-- `parse_postfix_tokens` on the postfix linearisation of a tree performs exactly the builder
run of the tree (same counter threading, same failures). -/
theorem C10_postfix_eval (syms : List α) (e : Rx α) (c : Nat) :
    evalPostfix syms e.toPostfix [] c = e.build syms c :=
  evalPostfix_tree syms e c

end builder

/-! ## the parser -/

/-- **Parser theorem.**  For a token list of the grammar with tree `e`,
`add_concat_and_empty_string_tokens` followed by `tokens_to_postfix` (shunting-yard, precedences
and pair table regenerated from the source) yields the postfix linearisation of `e`:
postfix operators bind tighter than concatenation, concatenation tighter than `| & ^`, which are
left-associative on one level; parentheses only group. -/
theorem C10_parse {α : Type} {e : Rx α} {ts : List (Tok α)} (h : G .E e ts) :
    tokensToPostfix (addConcat ts) = .ok e.toPostfix :=
  parse_postfix h

/-- **Lexer theorem.**  A string that spells a token list — symbols are single non-blank,
non-reserved characters, bounds are ASCII digit strings or omitted, blanks (space, tab) anywhere
between tokens — lexes to exactly that list. -/
theorem C10_lex {ts : List (Tok Char)} {s : List Char} (h : Renders ts s) : lex s = .ok ts :=
  lex_renders h

/-! ## the whole pipeline -/

/-- **Compilation theorem, explicit alphabet.**  If `s` spells (with any blanks) a token list of
the grammar with tree `e` (any redundant parentheses), the alphabet has no reserved character and
contains the symbols of `e`, then `NFA.from_regex(s, input_symbols=Σ)` returns an NFA that passes
the constructor's validation and accepts exactly the language `e` denotes over `Σ`. -/
theorem C10_compile {s : List Char} {ts : List (Tok Char)} {e : Rx Char} (hr : Renders ts s)
    (hg : G .E e ts) (syms : List Char) (hres : ∀ c ∈ syms, isReserved c = false)
    (hlits : ∀ a ∈ e.lits, a ∈ syms) :
    ∃ N, fromRegex s (some syms) = .ok N ∧ N.validate = .ok () ∧
      ∀ w, N.accepts w = true ↔ w ∈ den syms e := by
  obtain ⟨b, c', hb, hv, hf⟩ :=
    fromRegex_of_grammar (lex_renders hr) hg (validate_of_grammar hg) hres hlits
  obtain ⟨b', c'', hb', _, _, _, hacc⟩ := C10_builder syms e 0
  rw [hb] at hb'
  cases hb'
  exact ⟨_, hf, hv, hacc syms hv⟩

/-- **Compilation theorem, default alphabet** (`input_symbols=None`: the non-reserved characters
of the string). -/
theorem C10_compile_default {s : List Char} {ts : List (Tok Char)} {e : Rx Char}
    (hr : Renders ts s) (hg : G .E e ts) :
    ∃ N, fromRegex s none = .ok N ∧ N.validate = .ok () ∧
      ∀ w, N.accepts w = true ↔ w ∈ den (defaultSyms s) e := by
  have hlits : ∀ a ∈ e.lits, a ∈ defaultSyms s := by
    intro a ha
    obtain ⟨h1, h2⟩ := renders_str_mem hr a (lits_mem_tokens hg a ha)
    exact mem_defaultSyms h1 h2
  obtain ⟨b, c', hb, hv, hf⟩ :=
    fromRegex_default_of_grammar (lex_renders hr) hg (validate_of_grammar hg) hlits
  obtain ⟨b', c'', hb', _, _, _, hacc⟩ := C10_builder (defaultSyms s) e 0
  rw [hb] at hb'
  cases hb'
  exact ⟨_, hf, hv, hacc _ hv⟩

/-- **Redundant parentheses and blanks never change the language**: two strings that spell (with
different blanks, different redundant parentheses) token lists of the same tree compile to NFAs
with the same language. -/
theorem C10_parens_blanks {s1 s2 : List Char} {ts1 ts2 : List (Tok Char)} {e : Rx Char}
    (hr1 : Renders ts1 s1) (hg1 : G .E e ts1) (hr2 : Renders ts2 s2) (hg2 : G .E e ts2)
    (syms : List Char) (hres : ∀ c ∈ syms, isReserved c = false)
    (hlits : ∀ a ∈ e.lits, a ∈ syms) :
    ∃ N1 N2, fromRegex s1 (some syms) = .ok N1 ∧ fromRegex s2 (some syms) = .ok N2 ∧
      ∀ w, N1.accepts w = N2.accepts w := by
  obtain ⟨N1, h1, _, a1⟩ := C10_compile hr1 hg1 syms hres hlits
  obtain ⟨N2, h2, _, a2⟩ := C10_compile hr2 hg2 syms hres hlits
  refine ⟨N1, N2, h1, h2, fun w => ?_⟩
  have := (a1 w).trans (a2 w).symm
  cases h : N1.accepts w <;> cases h' : N2.accepts w <;> simp_all

/-- **Equal denotations, equal languages.**  Two strings whose trees have the same denotation
over `Σ` — e.g. trees that differ by associativity-redundant parentheses, `a(bc)` vs `abc`,
`a|(b|c)` vs `a|b|c`, which the grammar parses to *different* trees — compile to NFAs with the
same verdict on every word.  (`C10_parens_blanks` is the special case of equal trees.) -/
theorem C10_same_den {s1 s2 : List Char} {ts1 ts2 : List (Tok Char)} {e1 e2 : Rx Char}
    (hr1 : Renders ts1 s1) (hg1 : G .E e1 ts1) (hr2 : Renders ts2 s2) (hg2 : G .E e2 ts2)
    (syms : List Char) (hres : ∀ c ∈ syms, isReserved c = false)
    (hl1 : ∀ a ∈ e1.lits, a ∈ syms) (hl2 : ∀ a ∈ e2.lits, a ∈ syms)
    (hden : den syms e1 = den syms e2) :
    ∃ N1 N2, fromRegex s1 (some syms) = .ok N1 ∧ fromRegex s2 (some syms) = .ok N2 ∧
      ∀ w, N1.accepts w = N2.accepts w := by
  obtain ⟨N1, h1, _, a1⟩ := C10_compile hr1 hg1 syms hres hl1
  obtain ⟨N2, h2, _, a2⟩ := C10_compile hr2 hg2 syms hres hl2
  refine ⟨N1, N2, h1, h2, fun w => ?_⟩
  have := (a1 w).trans ((hden ▸ Iff.rfl : w ∈ den syms e1 ↔ w ∈ den syms e2).trans (a2 w).symm)
  cases h : N1.accepts w <;> cases h' : N2.accepts w <;> simp_all

/-- Concatenation and the binary operators are associative on denotations, so the
associativity reading of "redundant parentheses" is an instance of `C10_same_den`. -/
theorem C10_assoc_den (syms : List Char) (e f g : Rx Char) :
    den syms (.cat e (.cat f g)) = den syms (.cat (.cat e f) g) ∧
    den syms (.union e (.union f g)) = den syms (.union (.union e f) g) ∧
    den syms (.inter e (.inter f g)) = den syms (.inter (.inter e f) g) := by
  refine ⟨?_, ?_, ?_⟩
  · show den syms e * (den syms f * den syms g) = den syms e * den syms f * den syms g
    exact (mul_assoc _ _ _).symm
  · show den syms e + (den syms f + den syms g) = den syms e + den syms f + den syms g
    exact (add_assoc _ _ _).symm
  · show den syms e ⊓ (den syms f ⊓ den syms g) = den syms e ⊓ den syms f ⊓ den syms g
    exact (inf_assoc _ _ _).symm

/-! ## the empty regex and blank-only regexes (outside the grammar: `G` derives no empty list) -/

/-- **The empty string and every string of blanks compile to the `{ε}` NFA** (fix 9e58d22; before
it a blank-only regex raised `IndexError`), over every explicit alphabet without reserved
characters and over the default alphabet (`input_symbols=None`, which is then empty): the NFA
passes the constructor's validation and accepts exactly the empty word. -/
theorem C10_blank_only (s : List Char) (h : ∀ c ∈ s, isBlank c = true) :
    (∀ syms : List Char, (∀ c ∈ syms, isReserved c = false) →
      ∃ N, fromRegex s (some syms) = .ok N ∧ N.validate = .ok () ∧
        ∀ w, N.accepts w = true ↔ w = []) ∧
    (∃ N, fromRegex s none = .ok N ∧ N.validate = .ok () ∧ N.syms = [] ∧
      ∀ w, N.accepts w = true ↔ w = []) := by
  have hl := (Builder.eps_spec (α := Char) 0).2
  constructor
  · intro syms hres
    refine ⟨_, fromRegex_blanks h syms hres, epsNFA_valid syms, fun w => ?_⟩
    rw [toNFA_accepts_iff _ _ (epsNFA_valid syms), hl]
  · refine ⟨_, fromRegex_default_blanks h, epsNFA_valid _, ?_, fun w => ?_⟩
    · show defaultSyms s = []
      unfold defaultSyms
      have : s.filter (fun c => !isReserved c) = [] := by
        rw [List.filter_eq_nil_iff]
        intro c hc
        have hb : c = ' ' ∨ c = '\t' := by simpa [isBlank] using h c hc
        rcases hb with rfl | rfl <;> decide
      rw [this]
      rfl
    · rw [toNFA_accepts_iff _ _ (epsNFA_valid _), hl]

/-! ## non-vacuity -/

/-- `(a|b)*a{0,0}` as a tree … -/
def exTree : Rx Char :=
  .cat (.star (.union (.lit 'a') (.lit 'b'))) (.rep (.lit 'a') 0 (some 0))

/-- … and as tokens (with the redundant parentheses of `((a|b))*a{0,0}`). -/
def exToks : List (Tok Char) :=
  [.lparen, .lparen, .str ['a'], .union, .str ['b'], .rparen, .rparen, .star, .str ['a'],
   .quant 0 (some 0)]

example : G .E exTree exToks := by
  have hab : G .E (.union (.lit 'a') (.lit 'b')) [.str ['a'], .union, .str ['b']] :=
    .union (.term (.factor (.atom (.lit 'a')))) (.factor (.atom (.lit 'b')))
  have hp : G .A (.union (.lit 'a') (.lit 'b'))
      [.lparen, .lparen, .str ['a'], .union, .str ['b'], .rparen, .rparen] :=
    .paren (.term (.factor (.atom (.paren hab))))
  have hs : G .F (.star (.union (.lit 'a') (.lit 'b')))
      [.lparen, .lparen, .str ['a'], .union, .str ['b'], .rparen, .rparen, .star] :=
    .star (.atom hp)
  have hq : G .F (.rep (.lit 'a') 0 (some 0)) [.str ['a'], .quant 0 (some 0)] :=
    .quant 0 (some 0) (.atom (.lit 'a'))
  exact .term (.cat (.factor hs) hq)

/-- The model lexes, parses and compiles the string; `a{0,0}` contributes nothing (F4). -/
example : lex "((a|b)) * a{0,0}".toList = .ok exToks := by decide
example : tokensToPostfix (addConcat exToks) = .ok exTree.toPostfix := by decide
example : (fromRegex "((a|b)) * a{0,0}".toList (some ['a', 'b'])).toOption.map
    (fun N => (N.accepts "ab".toList, N.accepts "aba".toList, N.accepts [], N.accepts "c".toList)) =
    some (true, true, true, false) := by decide

/-- Blank-only strings: the hypothesis of `C10_blank_only` is met, the model compiles them to a
one-state NFA accepting exactly ε. -/
example : ∀ c ∈ " \t ".toList, isBlank c = true := by decide
example : ((fromRegex " \t ".toList (some ['a', 'b'])).toOption.map
    (fun N => (N.states.length, N.accepts [], N.accepts "a".toList)),
    (fromRegex [] none).toOption.map (fun N => (N.states.length, N.accepts [], N.accepts "a".toList))) =
    (some (1, true, false), some (1, true, false)) := by decide

/-- `C10_same_den` is not vacuous: `a(bc)` and `abc` spell different trees with the same
denotation (`C10_assoc_den`). -/
example : G .E (.cat (.lit 'a') (.cat (.lit 'b') (.lit 'c')) : Rx Char)
    [.str ['a'], .lparen, .str ['b'], .str ['c'], .rparen] :=
  .term (.cat (.factor (.atom (.lit 'a')))
    (.atom (.paren (.term (.cat (.factor (.atom (.lit 'b'))) (.atom (.lit 'c')))))))
example : G .E (.cat (.cat (.lit 'a') (.lit 'b')) (.lit 'c') : Rx Char)
    [.str ['a'], .str ['b'], .str ['c']] :=
  .term (.cat (.cat (.factor (.atom (.lit 'a'))) (.atom (.lit 'b'))) (.atom (.lit 'c')))
example : lex "a(bc)".toList = .ok [.str ['a'], .lparen, .str ['b'], .str ['c'], .rparen] := by
  decide

/-- A spelling with blanks INSIDE the braces (`a{ 1 , 2 }`, accepted by the code through
`int()`'s strip) is a `Renders` instance, so all theorems above cover it. -/
example : Renders [.str ['a'], .quant 1 (some 2)] "a{ 1 ,\t2 }".toList :=
  .tok (.sym 'a' ⟨by decide, by decide⟩)
    (.tok (.quant [' ', '1', ' '] ['\t', '2', ' '] 1 (some 2)
      (Or.inr ⟨['1'], ⟨[' '], [' '], rfl, by decide, by decide, by simp, by decide⟩, by decide⟩)
      (Or.inr ⟨['2'], ⟨['\t'], [' '], rfl, by decide, by decide, by simp, by decide⟩, by decide,
        by decide⟩)) .nil)
example : lex "a{ 1 ,\t2 }".toList = .ok [.str ['a'], .quant 1 (some 2)] := by decide

end AV.Props.C10
