/-
Props/C10.lean — C10 (work in progress: placeholder with the generated precedence theorem).
-/
import AutomataVerif.Model.RxCompile

namespace AV.Props.C10
open AV AV.Rx

/-- Precedences as the source has them now (table regenerated on every run): postfix operators
bind tighter than concatenation, concatenation tighter than the three binary operators, which
share one level. -/
theorem C10_generated_precedence :
    (Tok.star (α := Char)).prec = some 3 ∧ (Tok.plus (α := Char)).prec = some 3 ∧
    (Tok.opt (α := Char)).prec = some 3 ∧ (∀ lo hi, (Tok.quant (α := Char) lo hi).prec = some 3) ∧
    (Tok.concat (α := Char)).prec = some 2 ∧
    (Tok.union (α := Char)).prec = some 1 ∧ (Tok.inter (α := Char)).prec = some 1 ∧
    (Tok.shuffle (α := Char)).prec = some 1 := by
  refine ⟨by decide, by decide, by decide, fun _ _ => rfl, by decide, by decide, by decide, by decide⟩

end AV.Props.C10
