/-
Props/C08.lean — NFA regular operations are total and compute the textbook language
operations.

English statement (properties.jsonl C08): "For any valid NFAs, union, concatenation, Kleene
star, option, reversal, intersection, shuffle product, and left and right quotient (and the
+ | & operators) always return a valid NFA, never an error, whose language is exactly the
corresponding operation on the operand languages.  This holds for operands with empty-string
transitions, with empty or universal languages, with overlapping state names, and for
results fed into further operations."

Model: Model/NFAOps.lean mirrors the code function by function (state maps, fresh state,
table loading, work-list product, constructor validation), with every Python failure mode
as an `Except` branch.  Each theorem below says, for ALL valid operands (any state-name
types, any alphabets, ε-moves, junk rows, any order of the lists that stand for sets):

  * totality — the operation returns `.ok R` (no `KeyError`, no library exception);
  * validity — `R` passes `validate` and is again `Valid` (so results can be fed back);
  * language — `Lang R` is Mathlib's language operation applied to the operand languages,
    where `Lang n` is `εNFA.accepts` of the textbook ε-NFA of the definition
    (`Props/C01.lean` proves that this is what `accepts_input` computes).

`Valid n` is: `n.validate = .ok ()` (exactly what `NFA.validate` checks) and the transition
table is a dict of dicts (keys unique at both levels — a representation invariant of Python
dicts, not a restriction on automata).

`kleene_star`, `option` and `reverse` add the state `_add_new_state` picks (the first natural
number that is not a state); `nat : ℕ → σ` is the embedding of Python's ints into the
state-name type and is assumed injective (distinct ints are distinct names) — for integer
names it is the identity.  The two operands of a binary operation may have different
state-name types; overlapping names are the special case `σ₁ = σ₂`.
-/
import AutomataVerif.Proofs.EpsOpsA
import AutomataVerif.Proofs.EpsOpsB
import AutomataVerif.Proofs.NFAOpsUnary
import AutomataVerif.Proofs.NFAOpsReverse
import AutomataVerif.Proofs.NFAOpsBinary
import AutomataVerif.Proofs.NFAOpsInter
import AutomataVerif.Proofs.EpsOpsC
import AutomataVerif.Proofs.NFAElimSpec
import AutomataVerif.Proofs.NFAOpsRQ
import AutomataVerif.Proofs.NFAOpsLQ
import AutomataVerif.Proofs.NFAOpsShuffle
import AutomataVerif.Proofs.NFAMapStates
import AutomataVerif.Props.C01

namespace AV.Props.C08
open AV AV.NFA AV.Props.C01 AV.EpsOps

set_option linter.unusedSectionVars false

variable {σ σ₁ σ₂ α : Type} [DecidableEq σ] [DecidableEq σ₁] [DecidableEq σ₂] [DecidableEq α]

/-- The language of an NFA definition: Mathlib's `εNFA.accepts` of its textbook ε-NFA. -/
def Lang (n : AV.NFA σ α) : Language α := (nfaTextbook n).accepts

/-- `Lang` is what the model's reader (and, by C01's correspondence, `accepts_input`) decides. -/
theorem mem_Lang (n : AV.NFA σ α) (hv : n.validate = .ok ()) (w : List α) :
    w ∈ Lang n ↔ n.accepts w = true := (C01_nfa_accepts_iff n hv w).symm

/-- `Valid` unfolded: `validate` passes and the tables are dicts. -/
theorem valid_iff (n : AV.NFA σ α) : n.Valid ↔ n.validate = .ok () ∧ Tbl.Dict n.trans :=
  ⟨fun h => ⟨h.validate, h.dict⟩, fun h => ⟨(NFA.validate_eq_ok n).mp h.1, h.2⟩⟩

/-- The states of a well-formed NFA are closed under its transitions. -/
theorem closed_states (n : AV.NFA σ α) (wf : n.WF) : Closed (nfaTextbook n) {q | q ∈ n.states} :=
  fun _ _ _ _ hp => NFA.targets_mem_states wf hp

/-! ## option -/

/-- **C08 (option).**  `A.option()` never fails, returns a valid NFA, and its language is
`{ε} ∪ L(A)`. -/
theorem C08_option (nat : Nat → σ) (hnat : Function.Injective nat) (A : AV.NFA σ α) (hA : A.Valid) :
    ∃ R, NFA.option nat A = .ok R ∧ R.Valid ∧ Lang R = 1 + Lang A := by
  have hfresh := addNewState_fresh nat (fun i j h => hnat h) A.states
  refine ⟨optionRaw nat A, ?_, optionRaw_valid nat A hA, ?_⟩
  · rw [option_eq, create_eq_ok _ (optionRaw_wf nat A hA.wf)]
  · refine accepts_option (nfaTextbook (optionRaw nat A)) (nfaTextbook A) {q | q ∈ A.states}
      (addNewState nat A.states) A.init (closed_states A hA.wf) hA.wf.initOk hfresh rfl rfl
      ?_ ?_ ?_ ?_ ?_
    · ext p
      simp [nfaTextbook, optionRaw_targets_new]
    · intro a
      ext p
      simp [nfaTextbook, optionRaw_targets_new]
    · intro q hq a
      have hne : q ≠ addNewState nat A.states := fun e => hfresh (e ▸ hq)
      simp only [nfaTextbook, optionRaw_targets_old nat A hne]
    · intro q hq
      have hne : q ≠ addNewState nat A.states := fun e => hfresh (e ▸ hq)
      simp [nfaTextbook, optionRaw, hne]
    · simp [nfaTextbook, optionRaw]

/-! ## kleene_star -/

/-- **C08 (kleene_star).**  `A.kleene_star()` never fails, returns a valid NFA, and its
language is `L(A)∗`. -/
theorem C08_kleene_star (nat : Nat → σ) (hnat : Function.Injective nat) (A : AV.NFA σ α)
    (hA : A.Valid) :
    ∃ R, NFA.kleeneStar nat A = .ok R ∧ R.Valid ∧ Lang R = KStar.kstar (Lang A) := by
  have hfresh := addNewState_fresh nat (fun i j h => hnat h) A.states
  have hfin : addNewState nat A.states ∉ A.finals := fun h => hfresh (hA.wf.finalsOk _ h)
  refine ⟨starRaw nat A, ?_, starRaw_valid nat A hA, ?_⟩
  · rw [kleeneStar_eq, create_eq_ok _ (starRaw_wf nat A hA.wf)]
  · refine accepts_star (nfaTextbook (starRaw nat A)) (nfaTextbook A) {q | q ∈ A.states}
      (addNewState nat A.states) A.init (closed_states A hA.wf) hA.wf.initOk hfresh rfl rfl
      ?_ ?_ ?_ ?_ ?_
    · ext p
      simp [nfaTextbook, starRaw_mem_targets, hfin]
    · intro a
      ext p
      simp [nfaTextbook, starRaw_mem_targets, hfin]
    · intro q hq a
      have hne : q ≠ addNewState nat A.states := fun e => hfresh (e ▸ hq)
      ext p
      simp only [nfaTextbook, Set.mem_ofPred_eq, starRaw_mem_targets, hne, if_false, Set.mem_union]
      constructor
      · rintro (h | ⟨h1, h2, h3⟩)
        · exact Or.inl h
        · exact Or.inr ⟨h2, h1, h3⟩
      · rintro (h | ⟨h1, h2, h3⟩)
        · exact Or.inl h
        · exact Or.inr ⟨h2, h1, h3⟩
    · intro q hq
      have hne : q ≠ addNewState nat A.states := fun e => hfresh (e ▸ hq)
      simp [nfaTextbook, starRaw, hne]
    · simp [nfaTextbook, starRaw]

/-! ## union -/

/-- **C08 (union, `|`).**  `A.union(B)` never fails, returns a valid NFA, and its language is
`L(A) ∪ L(B)` — for operands with different state-name types, overlapping names, different
alphabets, ε-moves, junk rows. -/
theorem C08_union (A : AV.NFA σ₁ α) (B : AV.NFA σ₂ α) (hA : A.Valid) (hB : B.Valid) :
    ∃ R, NFA.union A B = .ok R ∧ R.Valid ∧ Lang R = Lang A + Lang B := by
  have hval := unionRaw_valid A B hA hB
  refine ⟨unionRaw A B, ?_, hval, ?_⟩
  · rw [union_eq A B hA.wf hB.wf, create_eq_ok _ hval.wf]
  · refine accepts_union (nfaTextbook (unionRaw A B)) (nfaTextbook A) (nfaTextbook B)
      {q | q ∈ A.states} {q | q ∈ B.states} (uφa A) (uφb A B) 0 A.init B.init
      (closed_states A hA.wf) (closed_states B hB.wf) hA.wf.initOk hB.wf.initOk rfl rfl rfl
      ?_ ?_ ?_ ?_ ?_ ?_ ?_
    · ext p
      simp [nfaTextbook, unionRaw_targets_zero]
    · intro a
      ext p
      simp [nfaTextbook, unionRaw_targets_zero]
    · intro q hq a
      ext p
      simp only [nfaTextbook, Set.mem_ofPred_eq, Set.mem_image]
      rw [unionRaw_targets_a A B hA hq a p]
      constructor
      · rintro ⟨t, ht, rfl⟩; exact ⟨t, ht, rfl⟩
      · rintro ⟨t, ht, rfl⟩; exact ⟨t, ht, rfl⟩
    · intro q hq a
      ext p
      simp only [nfaTextbook, Set.mem_ofPred_eq, Set.mem_image]
      rw [unionRaw_targets_b A B hB hq a p]
      constructor
      · rintro ⟨t, ht, rfl⟩; exact ⟨t, ht, rfl⟩
      · rintro ⟨t, ht, rfl⟩; exact ⟨t, ht, rfl⟩
    · intro q hq
      exact unionRaw_final_a A B hA.wf hq
    · intro q hq
      exact unionRaw_final_b A B hA.wf hB.wf hq
    · intro h
      rcases (mem_unionRaw_finals A B 0).mp h with ⟨q, _, e⟩ | ⟨q, _, e⟩
      · exact uφa_ne_zero A q e.symm
      · exact uφb_ne_zero A B q e.symm

/-- The operator `A | B` is `union`. -/
theorem C08_or (A : AV.NFA σ₁ α) (B : AV.NFA σ₂ α) (hA : A.Valid) (hB : B.Valid) :
    ∃ R, NFA.orOp A B = .ok R ∧ R.Valid ∧ Lang R = Lang A + Lang B := C08_union A B hA hB

/-! ## concatenate -/

/-- **C08 (concatenate, `+`).**  `A.concatenate(B)` never fails, returns a valid NFA, and its
language is `L(A) · L(B)`. -/
theorem C08_concatenate (A : AV.NFA σ₁ α) (B : AV.NFA σ₂ α) (hA : A.Valid) (hB : B.Valid) :
    ∃ R, NFA.concatenate A B = .ok R ∧ R.Valid ∧ Lang R = Lang A * Lang B := by
  have hval := concatRaw_valid A B hA hB
  refine ⟨concatRaw A B, ?_, hval, ?_⟩
  · rw [concatenate_eq A B hA.wf hB.wf, create_eq_ok _ hval.wf]
  · refine accepts_concat (nfaTextbook (concatRaw A B)) (nfaTextbook A) (nfaTextbook B)
      {q | q ∈ A.states} {q | q ∈ B.states} (cφa A) (cφb A B) A.init B.init
      (closed_states A hA.wf) (closed_states B hB.wf) hA.wf.initOk hB.wf.initOk rfl rfl rfl
      ?_ ?_ ?_ ?_
    · intro q hq a
      ext p
      simp only [nfaTextbook, Set.mem_ofPred_eq, Set.mem_image, Set.mem_union]
      rw [concatRaw_targets_a A B hA hq a p]
      constructor
      · rintro (⟨t, ht, rfl⟩ | h)
        · exact Or.inl ⟨t, ht, rfl⟩
        · exact Or.inr h
      · rintro (⟨t, ht, rfl⟩ | h)
        · exact Or.inl ⟨t, ht, rfl⟩
        · exact Or.inr h
    · intro q hq a
      ext p
      simp only [nfaTextbook, Set.mem_ofPred_eq, Set.mem_image]
      rw [concatRaw_targets_b A B hA.wf hB hq a p]
      constructor
      · rintro ⟨t, ht, rfl⟩; exact ⟨t, ht, rfl⟩
      · rintro ⟨t, ht, rfl⟩; exact ⟨t, ht, rfl⟩
    · intro q hq h
      obtain ⟨q', _, e⟩ := (mem_concatRaw_finals A B _).mp h
      exact cφa_ne_cφb A B hq q' e
    · intro q hq
      show cφb A B q ∈ (concatRaw A B).finals ↔ q ∈ B.finals
      rw [mem_concatRaw_finals]
      constructor
      · rintro ⟨q', hq', e⟩
        rw [cφb_inj A B q hq q' (hB.wf.finalsOk q' hq') e]; exact hq'
      · intro h; exact ⟨q, h, rfl⟩

/-- The operator `A + B` is `concatenate`. -/
theorem C08_add (A : AV.NFA σ₁ α) (B : AV.NFA σ₂ α) (hA : A.Valid) (hB : B.Valid) :
    ∃ R, NFA.addOp A B = .ok R ∧ R.Valid ∧ Lang R = Lang A * Lang B := C08_concatenate A B hA hB

/-! ## intersection -/

/-- **C08 (intersection, `&`).**  `A.intersection(B)` never fails (the work-list search stops
within its fuel), returns a valid NFA, and its language is `L(A) ∩ L(B)`. -/
theorem C08_intersection (A : AV.NFA σ₁ α) (B : AV.NFA σ₂ α) (hA : A.Valid) (hB : B.Valid) :
    ∃ R, NFA.intersection A B = .ok R ∧ R.Valid ∧ Lang R = Lang A ⊓ Lang B := by
  obtain ⟨R, hR, hval, _, hinit, hi, hcl, hnone, hsome, hfin⟩ := intersection_spec A B hA hB
  refine ⟨R, hR, hval, ?_⟩
  refine accepts_inter (nfaTextbook R) (nfaTextbook A) (nfaTextbook B) {s | s ∈ R.states}
    A.init B.init rfl rfl ?_ hi ?_ ?_ ?_ ?_
  · simp [nfaTextbook, hinit]
  · intro s hs a t ht
    exact hcl s hs a t ht
  · intro s hs
    ext t
    exact hnone s hs t
  · intro s hs a
    ext t
    exact hsome s hs a t
  · intro s hs
    exact hfin s hs

/-- The operator `A & B` is `intersection`. -/
theorem C08_and (A : AV.NFA σ₁ α) (B : AV.NFA σ₂ α) (hA : A.Valid) (hB : B.Valid) :
    ∃ R, NFA.andOp A B = .ok R ∧ R.Valid ∧ Lang R = Lang A ⊓ Lang B := C08_intersection A B hA hB

/-! ## ε-elimination (helper of the quotients) -/

/-- The ε-free automaton described by the triple `_eliminate_lambda` returns. -/
def elimTextbook (i : σ) (ta : Tbl σ α) (fa : List σ) : εNFA α σ where
  step := fun q a => {p | p ∈ Tbl.tgt ta q a}
  start := {i}
  accept := {q | q ∈ fa}

/-- `_eliminate_lambda` preserves the language (and yields an ε-free automaton on the
reachable states). -/
theorem elim_language (A : AV.NFA σ α) (hA : A.Valid) (ra : List σ) (ta : Tbl σ α) (fa : List σ)
    (sa : NFAElim.ElimSpec A ra ta fa) : (elimTextbook A.init ta fa).accepts = Lang A := by
  have hcl : ∀ q ∈ A.states, ∀ p, p ∈ A.closure q ↔ p ∈ (nfaTextbook A).εClosure {q} :=
    fun q hq p => C01_nfa_closure A q p hq
  refine accepts_elim (nfaTextbook A) (elimTextbook A.init ta fa) {q | q ∈ ra} A.init rfl rfl
    sa.init_mem ?_ ?_ ?_ ?_ ?_
  · intro q hq a p hp
    exact sa.closed q hq a p hp
  · intro q hq
    ext p
    simp only [elimTextbook, Set.mem_ofPred_eq, Set.mem_empty_iff_false, iff_false]
    unfold Tbl.tgt
    rw [sa.no_eps_key q hq]
    simp
  · intro q hq a r hr s hs
    exact sa.low q hq a r ((hcl q (sa.sub q hq) r).mpr hr) s hs
  · intro q hq a p hp
    obtain ⟨r, hr, s, hs, hps⟩ := sa.up q hq a p hp
    have hrs : r ∈ A.states := NFA.closure_sub_states hA.wf (sa.sub q hq) hr
    exact ⟨r, (hcl q (sa.sub q hq) r).mp hr, s, hs,
      (hcl s (NFA.targets_mem_states hA.wf hs) p).mp hps⟩
  · intro q hq
    show q ∈ fa ↔ _
    rw [sa.fin q]
    constructor
    · rintro ⟨_, p, hp, hf⟩
      exact ⟨p, (hcl q (sa.sub q hq) p).mp hp, hf⟩
    · rintro ⟨p, hp, hf⟩
      exact ⟨hq, p, (hcl q (sa.sub q hq) p).mpr hp, hf⟩

/-! ## right_quotient -/

/-- **C08 (right_quotient).**  `A.right_quotient(B)` never fails, returns a valid NFA, and
its language is `L(A) / L(B) = {w | ∃ x ∈ L(B), w·x ∈ L(A)}`. -/
theorem C08_right_quotient (A : AV.NFA σ₁ α) (B : AV.NFA σ₂ α) (hA : A.Valid) (hB : B.Valid) :
    ∃ R, NFA.rightQuotient A B = .ok R ∧ R.Valid ∧ Lang R = rightQuotientLang (Lang A) (Lang B) := by
  obtain ⟨ra, ta, fa, hca, sa⟩ := NFAElim.core_spec A hA
  obtain ⟨rb, tb, fb, hcb, sb⟩ := NFAElim.core_spec B hB
  obtain ⟨R, hR, hval, hinit, hAsome, hAnone, hBnone, hBsome, hfin⟩ :=
    rightQuotient_spec A B hA hB ra ta fa rb tb fb hca hcb sa sb
  refine ⟨R, hR, hval, ?_⟩
  rw [← elim_language A hA ra ta fa sa, ← elim_language B hB rb tb fb sb]
  refine accepts_right_quotient (nfaTextbook R) (elimTextbook A.init ta fa) (elimTextbook B.init tb fb)
    {q | q ∈ ra} {q | q ∈ rb} A.init B.init (fun q hq a p hp => sa.closed q hq a p hp)
    (fun q hq a p hp => sb.closed q hq a p hp) sa.init_mem sb.init_mem ?_ ?_ rfl rfl ?_ ?_ ?_ ?_ ?_ ?_
  · intro q hq
    ext p
    simp only [elimTextbook, Set.mem_ofPred_eq, Set.mem_empty_iff_false, iff_false]
    unfold Tbl.tgt
    rw [sa.no_eps_key q hq]; simp
  · intro q hq
    ext p
    simp only [elimTextbook, Set.mem_ofPred_eq, Set.mem_empty_iff_false, iff_false]
    unfold Tbl.tgt
    rw [sb.no_eps_key q hq]; simp
  · simp [nfaTextbook, hinit]
  · intro q hq a
    ext t
    exact hAsome q hq a t
  · intro q hq
    ext t
    simp only [nfaTextbook, Set.mem_ofPred_eq, Set.mem_singleton_iff]
    exact hAnone q hq t
  · intro qa hqa qb hqb
    ext t
    exact hBnone qa hqa qb hqb t
  · intro qa hqa qb hqb a
    ext t
    simp [nfaTextbook, hBsome qa hqa qb hqb a]
  · intro s
    exact hfin s

/-! ## left_quotient -/

/-- **C08 (left_quotient).**  `A.left_quotient(B)` never fails (in particular no
`MissingStateError`, the defect F6 repaired by fb93c3d), returns a valid NFA, and its language
is `L(B) \ L(A) = {w | ∃ x ∈ L(B), x·w ∈ L(A)}`. -/
theorem C08_left_quotient (A : AV.NFA σ₁ α) (B : AV.NFA σ₂ α) (hA : A.Valid) (hB : B.Valid) :
    ∃ R, NFA.leftQuotient A B = .ok R ∧ R.Valid ∧ Lang R = leftQuotientLang (Lang A) (Lang B) := by
  obtain ⟨ra, ta, fa, hca, sa⟩ := NFAElim.core_spec A hA
  obtain ⟨rb, tb, fb, hcb, sb⟩ := NFAElim.core_spec B hB
  obtain ⟨R, hR, hval, hinit, hAnone, hAsome, hBsome, hBnone, hfin⟩ :=
    leftQuotient_spec A B hA hB ra ta fa rb tb fb hca hcb sa sb
  refine ⟨R, hR, hval, ?_⟩
  rw [← elim_language A hA ra ta fa sa, ← elim_language B hB rb tb fb sb]
  refine accepts_left_quotient (nfaTextbook R) (elimTextbook A.init ta fa) (elimTextbook B.init tb fb)
    {q | q ∈ ra} {q | q ∈ rb} A.init B.init (fun q hq a p hp => sa.closed q hq a p hp)
    (fun q hq a p hp => sb.closed q hq a p hp) sa.init_mem sb.init_mem ?_ ?_ rfl rfl ?_ ?_ ?_ ?_ ?_ ?_
  · intro q hq
    ext p
    simp only [elimTextbook, Set.mem_ofPred_eq, Set.mem_empty_iff_false, iff_false]
    unfold Tbl.tgt
    rw [sa.no_eps_key q hq]; simp
  · intro q hq
    ext p
    simp only [elimTextbook, Set.mem_ofPred_eq, Set.mem_empty_iff_false, iff_false]
    unfold Tbl.tgt
    rw [sb.no_eps_key q hq]; simp
  · simp [nfaTextbook, hinit]
  · intro qa hqa qb hqb
    ext t
    exact hAnone qa hqa qb hqb t
  · intro qa hqa qb hqb a
    ext t
    simp [nfaTextbook, hAsome qa hqa qb hqb a]
  · intro qa hqa qb _ hfb a
    ext t
    exact hBsome qa hqa qb hfb a t
  · intro qa hqa qb _ hfb
    ext t
    simp [nfaTextbook, hBnone qa hqa qb hfb]
  · intro s
    exact hfin s

/-! ## reverse -/

/-- **C08 (reverse).**  `A.reverse()` never fails, returns a valid NFA, and its language is
the set of reversed words of `L(A)`. -/
theorem C08_reverse (nat : Nat → σ) (hnat : Function.Injective nat) (A : AV.NFA σ α) (hA : A.Valid) :
    ∃ R, NFA.reverse nat A = .ok R ∧ R.Valid ∧ Lang R = (Lang A).reverse := by
  have hfresh := addNewState_fresh nat (fun i j h => hnat h) A.states
  obtain ⟨R, hR, hval, _, _, hinit, hfin, hn_none, hn_some, hstep⟩ :=
    reverse_spec nat (fun i j h => hnat h) A hA
  refine ⟨R, hR, hval, ?_⟩
  refine accepts_reverse (nfaTextbook R) (nfaTextbook A) {q | q ∈ A.states}
    (addNewState nat A.states) A.init (closed_states A hA.wf) hA.wf.initOk hfresh
    (fun q hq => hA.wf.finalsOk q hq) rfl ?_ ?_ ?_ ?_ ?_
  · simp [nfaTextbook, hinit]
  · ext p
    simp [nfaTextbook, hn_none]
  · intro a
    ext p
    simp [nfaTextbook, hn_some]
  · intro q hq a p
    exact hstep q hq a p
  · intro q
    simp [nfaTextbook, hfin]

/-! ## shuffle_product -/

/-- **C08 (shuffle_product).**  `A.shuffle_product(B)` never fails, returns a valid NFA, and
its language is the shuffle (all interleavings of a word of `L(A)` with a word of `L(B)`). -/
theorem C08_shuffle_product (A : AV.NFA σ₁ α) (B : AV.NFA σ₂ α) (hA : A.Valid) (hB : B.Valid) :
    ∃ R, NFA.shuffleProduct A B = .ok R ∧ R.Valid ∧ Lang R = shuffleLang (Lang A) (Lang B) := by
  obtain ⟨R, hR, hval, _, hinit, _, hstep, hfin⟩ := shuffleProduct_spec A B hA hB
  refine ⟨R, hR, hval, ?_⟩
  refine accepts_shuffle (nfaTextbook R) (nfaTextbook A) (nfaTextbook B) {q | q ∈ A.states}
    {q | q ∈ B.states} A.init B.init (closed_states A hA.wf) (closed_states B hB.wf)
    hA.wf.initOk hB.wf.initOk rfl rfl ?_ ?_ ?_
  · simp [nfaTextbook, hinit]
  · intro p hp q hq a
    ext t
    exact hstep p hp q hq a t
  · intro p _ q _
    exact hfin p q

/-! ## compositions: results fed into further operations -/

/-- `r` is a successful computation of a valid NFA whose language is `L`. -/
def Computes (r : Res (AV.NFA σ α)) (L : Language α) : Prop :=
  ∃ n, r = .ok n ∧ n.Valid ∧ Lang n = L

theorem Computes.leaf {A : AV.NFA σ α} (hA : A.Valid) : Computes (.ok A) (Lang A) := ⟨A, rfl, hA, rfl⟩

section compose
variable {τ₁ τ₂ : Type} [DecidableEq τ₁] [DecidableEq τ₂]
variable {x : Res (AV.NFA τ₁ α)} {y : Res (AV.NFA τ₂ α)} {L₁ L₂ : Language α}

/-- **C08 (compositions).**  Every operation maps successful computations of valid NFAs to a
successful computation of a valid NFA with the textbook language — so every finite
expression tree over valid leaves evaluates without error to a valid NFA whose language is
the expression's denotation (by induction on the tree, one lemma per node kind). -/
theorem Computes.union (hx : Computes x L₁) (hy : Computes y L₂) :
    Computes (do let a ← x; let b ← y; NFA.union a b) (L₁ + L₂) := by
  obtain ⟨a, rfl, ha, rfl⟩ := hx
  obtain ⟨b, rfl, hb, rfl⟩ := hy
  exact C08_union a b ha hb

theorem Computes.concatenate (hx : Computes x L₁) (hy : Computes y L₂) :
    Computes (do let a ← x; let b ← y; NFA.concatenate a b) (L₁ * L₂) := by
  obtain ⟨a, rfl, ha, rfl⟩ := hx
  obtain ⟨b, rfl, hb, rfl⟩ := hy
  exact C08_concatenate a b ha hb

theorem Computes.intersection (hx : Computes x L₁) (hy : Computes y L₂) :
    Computes (do let a ← x; let b ← y; NFA.intersection a b) (L₁ ⊓ L₂) := by
  obtain ⟨a, rfl, ha, rfl⟩ := hx
  obtain ⟨b, rfl, hb, rfl⟩ := hy
  exact C08_intersection a b ha hb

theorem Computes.shuffleProduct (hx : Computes x L₁) (hy : Computes y L₂) :
    Computes (do let a ← x; let b ← y; NFA.shuffleProduct a b) (shuffleLang L₁ L₂) := by
  obtain ⟨a, rfl, ha, rfl⟩ := hx
  obtain ⟨b, rfl, hb, rfl⟩ := hy
  exact C08_shuffle_product a b ha hb

theorem Computes.rightQuotient (hx : Computes x L₁) (hy : Computes y L₂) :
    Computes (do let a ← x; let b ← y; NFA.rightQuotient a b) (rightQuotientLang L₁ L₂) := by
  obtain ⟨a, rfl, ha, rfl⟩ := hx
  obtain ⟨b, rfl, hb, rfl⟩ := hy
  exact C08_right_quotient a b ha hb

theorem Computes.leftQuotient (hx : Computes x L₁) (hy : Computes y L₂) :
    Computes (do let a ← x; let b ← y; NFA.leftQuotient a b) (leftQuotientLang L₁ L₂) := by
  obtain ⟨a, rfl, ha, rfl⟩ := hx
  obtain ⟨b, rfl, hb, rfl⟩ := hy
  exact C08_left_quotient a b ha hb

theorem Computes.kleeneStar (nat : Nat → τ₁) (hnat : Function.Injective nat) (hx : Computes x L₁) :
    Computes (do let a ← x; NFA.kleeneStar nat a) (KStar.kstar L₁) := by
  obtain ⟨a, rfl, ha, rfl⟩ := hx
  exact C08_kleene_star nat hnat a ha

theorem Computes.option (nat : Nat → τ₁) (hnat : Function.Injective nat) (hx : Computes x L₁) :
    Computes (do let a ← x; NFA.option nat a) (1 + L₁) := by
  obtain ⟨a, rfl, ha, rfl⟩ := hx
  exact C08_option nat hnat a ha

theorem Computes.reverse (nat : Nat → τ₁) (hnat : Function.Injective nat) (hx : Computes x L₁) :
    Computes (do let a ← x; NFA.reverse nat a) L₁.reverse := by
  obtain ⟨a, rfl, ha, rfl⟩ := hx
  exact C08_reverse nat hnat a ha

end compose

/-- A depth-3 instance: `((A | B) + C)∗ & D.reverse()` for any valid operands (of any four
state-name types) evaluates without error to a valid NFA for `((L_A + L_B)·L_C)∗ ⊓ L_Dʳ`. -/
theorem C08_expr_example {τ₁ τ₂ τ₃ τ₄ : Type} [DecidableEq τ₁] [DecidableEq τ₂] [DecidableEq τ₃]
    [DecidableEq τ₄] (A : AV.NFA τ₁ α) (B : AV.NFA τ₂ α) (C : AV.NFA τ₃ α) (D : AV.NFA τ₄ α)
    (nat : Nat → τ₄) (hnat : Function.Injective nat)
    (hA : A.Valid) (hB : B.Valid) (hC : C.Valid) (hD : D.Valid) :
    Computes (do
        let s ← (do
          let c ← (do let u ← (do let a ← (.ok A : Res _); let b ← (.ok B : Res _); NFA.union a b)
                       let c ← (.ok C : Res _); NFA.concatenate u c)
          NFA.kleeneStar (fun k => k) c)
        let r ← (do let d ← (.ok D : Res _); NFA.reverse nat d)
        NFA.intersection s r)
      (KStar.kstar ((Lang A + Lang B) * Lang C) ⊓ (Lang D).reverse) :=
  Computes.intersection
    (Computes.kleeneStar (fun k => k) (fun _ _ h => h)
      (Computes.concatenate (Computes.union (Computes.leaf hA) (Computes.leaf hB)) (Computes.leaf hC)))
    (Computes.reverse nat hnat (Computes.leaf hD))

/-! ## results fed into further operations, with Python's single universe of names

`Computes.kleeneStar/option/reverse` above take an arbitrary injective `nat : ℕ → τ`.  For a
result of `intersection`, `shuffle_product` or a quotient the name type `τ` is a tuple type,
and what Python does next is to add the INT `0` (or `1`, …) next to the tuples: mixed names.
Here every operation is stated over the universal name type `PyName` (Model/NFAOpsPy.lean:
`int | pair | triple | other`), results being re-embedded by the canonical injections
(`Nat ↦ int`, pairs ↦ `pair`, triples ↦ `triple`), and the fresh state of the unary
operations is `PyName.nat k = int k` — faithful to Python's mixed names. -/

/-- **State renaming.**  Renaming the states of a valid NFA through an injective function
gives a valid NFA with the same language. -/
theorem mapStates_valid_lang {τ : Type} [DecidableEq τ] (f : σ → τ) (hf : Function.Injective f)
    (n : AV.NFA σ α) (h : n.Valid) : (n.mapStates f).Valid ∧ Lang (n.mapStates f) = Lang n :=
  ⟨MapStates.mapStates_valid f n hf h, MapStates.mapStates_lang f n hf h.wf⟩

/-- Embedding the names of a computed result keeps it a successful computation of a valid
NFA with the same language. -/
theorem Computes.mapRes {τ₁ τ₂ : Type} [DecidableEq τ₁] [DecidableEq τ₂] {x : Res (AV.NFA τ₁ α)}
    {L : Language α} (f : τ₁ → τ₂) (hf : Function.Injective f) (hx : Computes x L) :
    Computes (NFA.mapRes f x) L := by
  obtain ⟨a, rfl, ha, rfl⟩ := hx
  obtain ⟨hv, hl⟩ := mapStates_valid_lang f hf a ha
  exact ⟨a.mapStates f, rfl, hv, hl⟩

section pyname
variable {A B : AV.NFA PyName α}

/-- The nine operations over `PyName`: total, valid, textbook language — so results can be
fed into ANY further operation, whatever the shapes of their names. -/
theorem C08_py_union (hA : A.Valid) (hB : B.Valid) :
    Computes (Py.union A B) (Lang A + Lang B) :=
  Computes.mapRes _ MapStates.nat_injective (C08_union A B hA hB)

theorem C08_py_concatenate (hA : A.Valid) (hB : B.Valid) :
    Computes (Py.concatenate A B) (Lang A * Lang B) :=
  Computes.mapRes _ MapStates.nat_injective (C08_concatenate A B hA hB)

theorem C08_py_intersection (hA : A.Valid) (hB : B.Valid) :
    Computes (Py.intersection A B) (Lang A ⊓ Lang B) :=
  Computes.mapRes _ MapStates.ofPair_injective (C08_intersection A B hA hB)

theorem C08_py_shuffle_product (hA : A.Valid) (hB : B.Valid) :
    Computes (Py.shuffleProduct A B) (shuffleLang (Lang A) (Lang B)) :=
  Computes.mapRes _ MapStates.ofPair_injective (C08_shuffle_product A B hA hB)

theorem C08_py_right_quotient (hA : A.Valid) (hB : B.Valid) :
    Computes (Py.rightQuotient A B) (rightQuotientLang (Lang A) (Lang B)) :=
  Computes.mapRes _ MapStates.ofTriple_injective (C08_right_quotient A B hA hB)

theorem C08_py_left_quotient (hA : A.Valid) (hB : B.Valid) :
    Computes (Py.leftQuotient A B) (leftQuotientLang (Lang A) (Lang B)) :=
  Computes.mapRes _ MapStates.ofTriple_injective (C08_left_quotient A B hA hB)

/-- `kleene_star` / `option` / `reverse` of an NFA with names of ANY shape (ints, tuples,
mixed): the fresh state is the first int `0, 1, 2, …` that is not a state. -/
theorem C08_py_kleene_star (hA : A.Valid) : Computes (Py.kleeneStar A) (KStar.kstar (Lang A)) :=
  C08_kleene_star PyName.nat MapStates.nat_injective A hA

theorem C08_py_option (hA : A.Valid) : Computes (Py.option A) (1 + Lang A) :=
  C08_option PyName.nat MapStates.nat_injective A hA

theorem C08_py_reverse (hA : A.Valid) : Computes (Py.reverse A) (Lang A).reverse :=
  C08_reverse PyName.nat MapStates.nat_injective A hA

end pyname

/-- `Computes.kleeneStar/option/reverse` for results embedded in `PyName`, with
`nat := PyName.int ∘ Int.ofNat`: the operand may be the (embedded) result of an
intersection, a shuffle product or a quotient. -/
theorem Computes.kleeneStarPy {x : Res (AV.NFA PyName α)} {L : Language α} (hx : Computes x L) :
    Computes (do let a ← x; Py.kleeneStar a) (KStar.kstar L) :=
  Computes.kleeneStar PyName.nat MapStates.nat_injective hx

theorem Computes.optionPy {x : Res (AV.NFA PyName α)} {L : Language α} (hx : Computes x L) :
    Computes (do let a ← x; Py.option a) (1 + L) :=
  Computes.option PyName.nat MapStates.nat_injective hx

theorem Computes.reversePy {x : Res (AV.NFA PyName α)} {L : Language α} (hx : Computes x L) :
    Computes (do let a ← x; Py.reverse a) L.reverse :=
  Computes.reverse PyName.nat MapStates.nat_injective hx

/-- **Instance: `kleene_star(intersection(A, B))`** — pair names plus the int `0`. -/
theorem C08_star_of_intersection (A B : AV.NFA PyName α) (hA : A.Valid) (hB : B.Valid) :
    Computes (do let c ← Py.intersection A B; Py.kleeneStar c) (KStar.kstar (Lang A ⊓ Lang B)) :=
  Computes.kleeneStarPy (C08_py_intersection hA hB)

/-- … and the same for operands of any two name types `σ₁`, `σ₂` embedded by injections
(`e₁`, `e₂`): the typed intersection, its pair names embedded into `PyName`, then
`kleene_star` adding an int. -/
theorem C08_star_of_intersection_typed (e₁ : σ₁ → PyName) (e₂ : σ₂ → PyName)
    (h₁ : Function.Injective e₁) (h₂ : Function.Injective e₂)
    (A : AV.NFA σ₁ α) (B : AV.NFA σ₂ α) (hA : A.Valid) (hB : B.Valid) :
    Computes (do let c ← NFA.mapRes (fun p => PyName.pair (e₁ p.1) (e₂ p.2)) (NFA.intersection A B)
                 Py.kleeneStar c)
      (KStar.kstar (Lang A ⊓ Lang B)) := by
  refine Computes.kleeneStarPy (Computes.mapRes _ ?_ (C08_intersection A B hA hB))
  rintro ⟨a, b⟩ ⟨c, d⟩ h
  simp only [PyName.pair.injEq] at h
  rw [h₁ h.1, h₂ h.2]

/-- The textbook denotation of an expression tree. -/
def denote : OpExpr α → Language α
  | .leaf n => Lang n
  | .union l r => denote l + denote r
  | .concatenate l r => denote l * denote r
  | .intersection l r => denote l ⊓ denote r
  | .shuffleProduct l r => shuffleLang (denote l) (denote r)
  | .rightQuotient l r => rightQuotientLang (denote l) (denote r)
  | .leftQuotient l r => leftQuotientLang (denote l) (denote r)
  | .kleeneStar e => KStar.kstar (denote e)
  | .option e => 1 + denote e
  | .reverse e => (denote e).reverse

/-- Every leaf of the tree is a valid NFA. -/
def LeavesValid : OpExpr α → Prop
  | .leaf n => n.Valid
  | .union l r | .concatenate l r | .intersection l r | .shuffleProduct l r
  | .rightQuotient l r | .leftQuotient l r => LeavesValid l ∧ LeavesValid r
  | .kleeneStar e | .option e | .reverse e => LeavesValid e

theorem Computes.bind2 {x y : Res (AV.NFA PyName α)} {L₁ L₂ : Language α}
    {op : AV.NFA PyName α → AV.NFA PyName α → Res (AV.NFA PyName α)}
    (F : Language α → Language α → Language α)
    (hx : Computes x L₁) (hy : Computes y L₂)
    (hop : ∀ a b : AV.NFA PyName α, a.Valid → b.Valid → Computes (op a b) (F (Lang a) (Lang b))) :
    Computes (do let a ← x; let b ← y; op a b) (F L₁ L₂) := by
  obtain ⟨a, rfl, ha, rfl⟩ := hx
  obtain ⟨b, rfl, hb, rfl⟩ := hy
  exact hop a b ha hb

theorem Computes.bind1 {x : Res (AV.NFA PyName α)} {L₁ : Language α}
    {op : AV.NFA PyName α → Res (AV.NFA PyName α)} (F : Language α → Language α)
    (hx : Computes x L₁)
    (hop : ∀ a : AV.NFA PyName α, a.Valid → Computes (op a) (F (Lang a))) :
    Computes (do let a ← x; op a) (F L₁) := by
  obtain ⟨a, rfl, ha, rfl⟩ := hx
  exact hop a ha

/-- **C08 (results fed into further operations), every finite expression tree.**  Whatever
the tree built from the nine operations over valid leaves — unary operations on top of
products and quotients included, names mixing ints and tuples as in Python — its evaluation
raises no error and yields a valid NFA whose language is the textbook denotation. -/
theorem C08_expr (e : OpExpr α) (h : LeavesValid e) : Computes e.eval (denote e) := by
  induction e with
  | leaf n => exact Computes.leaf h
  | union l r ihl ihr =>
    exact Computes.bind2 (· + ·) (ihl h.1) (ihr h.2) fun _ _ ha hb => C08_py_union ha hb
  | concatenate l r ihl ihr =>
    exact Computes.bind2 (· * ·) (ihl h.1) (ihr h.2) fun _ _ ha hb => C08_py_concatenate ha hb
  | intersection l r ihl ihr =>
    exact Computes.bind2 (· ⊓ ·) (ihl h.1) (ihr h.2) fun _ _ ha hb => C08_py_intersection ha hb
  | shuffleProduct l r ihl ihr =>
    exact Computes.bind2 shuffleLang (ihl h.1) (ihr h.2) fun _ _ ha hb =>
      C08_py_shuffle_product ha hb
  | rightQuotient l r ihl ihr =>
    exact Computes.bind2 rightQuotientLang (ihl h.1) (ihr h.2) fun _ _ ha hb =>
      C08_py_right_quotient ha hb
  | leftQuotient l r ihl ihr =>
    exact Computes.bind2 leftQuotientLang (ihl h.1) (ihr h.2) fun _ _ ha hb =>
      C08_py_left_quotient ha hb
  | kleeneStar e ih => exact Computes.bind1 KStar.kstar (ih h) fun _ ha => C08_py_kleene_star ha
  | option e ih => exact Computes.bind1 (1 + ·) (ih h) fun _ ha => C08_py_option ha
  | reverse e ih => exact Computes.bind1 Language.reverse (ih h) fun _ ha => C08_py_reverse ha

/-! ## non-vacuity: concrete valid operands, concrete results -/

/-- `a*` with an ε-cycle, a state without a row and a junk row keyed by the non-state `1`
(the name `_add_new_state` will pick). -/
def exA : AV.NFA Nat Nat :=
  { states := [0, 2], syms := [0], init := 0, finals := [2],
    trans := [(0, [(none, [2]), (some 0, [0])]), (1, [(some 0, [0]), (none, [2])])] }

/-- `b` over the alphabet `{b}` (`b = 1`), with state names overlapping those of `exA`. -/
def exB : AV.NFA Nat Nat :=
  { states := [0, 2], syms := [1], init := 2, finals := [0], trans := [(2, [(some 1, [0])])] }

/-- The empty language with a single non-final state and no row at all. -/
def exEmpty : AV.NFA Nat Nat := { states := [5], syms := [0], init := 5, finals := [], trans := [] }

theorem exA_valid : exA.Valid := ⟨(NFA.validate_eq_ok _).mp (by decide), ⟨by decide, by decide⟩⟩
theorem exB_valid : exB.Valid := ⟨(NFA.validate_eq_ok _).mp (by decide), ⟨by decide, by decide⟩⟩
theorem exEmpty_valid : exEmpty.Valid := ⟨(NFA.validate_eq_ok _).mp (by decide), ⟨by decide, by decide⟩⟩

/-- The model really computes: the union accepts `aa` and `b`, not `ab`; the concatenation
accepts `aab`; the left quotient by the empty-language operand (the F6 trigger shape) is a
valid NFA for the empty language instead of an error. -/
example : (match NFA.union exA exB with
    | .ok R => R.accepts [0, 0] && R.accepts [1] && !R.accepts [0, 1]
    | .error _ => false) = true := by decide
example : (match NFA.concatenate exA exB with
    | .ok R => R.accepts [0, 0, 1] && R.accepts [1] && !R.accepts [0]
    | .error _ => false) = true := by decide
example : (match NFA.reverse (fun k => k) exA with
    | .ok R => R.accepts [0, 0] && R.accepts [] && decide (R.init = 1)
    | .error _ => false) = true := by decide
example : (match NFA.leftQuotient exA exEmpty with
    | .ok R => !R.accepts [] && !R.accepts [0]
    | .error _ => false) = true := by decide
example : (match NFA.rightQuotient exA exA with
    | .ok R => R.accepts [] && R.accepts [0, 0]
    | .error _ => false) = true := by decide

/-- `exA` and `exB` with their int names in the universal name type. -/
def pyA : AV.NFA PyName Nat := exA.mapStates PyName.nat
def pyB : AV.NFA PyName Nat := exB.mapStates PyName.nat

theorem pyA_valid : pyA.Valid := (mapStates_valid_lang _ MapStates.nat_injective exA exA_valid).1
theorem pyB_valid : pyB.Valid := (mapStates_valid_lang _ MapStates.nat_injective exB exB_valid).1

/-- `kleene_star(intersection(A, A))` in the model: the states are the pairs `(0,0), (2,2), …`
PLUS the int `0` chosen by `_add_new_state` (mixed names, as in Python); the result accepts
`ε` and `aa`. -/
example : (match (OpExpr.kleeneStar (.intersection (.leaf pyA) (.leaf pyA))).eval with
    | .ok R => decide (R.init = PyName.int 0) && decide (PyName.pair (.int 0) (.int 0) ∈ R.states) &&
        R.accepts [] && R.accepts [0, 0] && !R.accepts [1]
    | .error _ => false) = true := by decide

/-- `reverse(right_quotient(A, A)) | B`: triples, then an int next to them, then a union. -/
example : (match (OpExpr.union (.reverse (.rightQuotient (.leaf pyA) (.leaf pyA))) (.leaf pyB)).eval with
    | .ok R => R.accepts [0, 0] && R.accepts [1] && !R.accepts [1, 0]
    | .error _ => false) = true := by decide

example : Computes (OpExpr.kleeneStar (.intersection (.leaf pyA) (.leaf pyA))).eval
    (KStar.kstar (Lang pyA ⊓ Lang pyA)) :=
  C08_expr _ ⟨pyA_valid, pyA_valid⟩

end AV.Props.C08
