import AutomataVerif.Model.NFAOps
