/-
Props/C12c.lean — C12: the bridge from the GNFA constructor's own check to `to_regex`.

`Props/C12.lean` proves `to_regex` correct on GNFAs built by `from_dfa` / `from_nfa`, and on any
GNFA "of the documented shape" with `Shape` (Proofs/GnfaTable.lean) as a hypothesis
(`C12_to_regex_strings`, `C12_elim_ast_all_orders`; `Props/C19e.lean`, field `gnfa_to_regex`).
This file replaces that hypothesis by what a user can actually know about a hand-written GNFA:
**the constructor accepted it** (`GNFA.validate = ok`, model `AV.GNFA.validate` / `validateStr`
as repaired by fix 084dfed).

Findings.

* The literal bridge `validate = ok → Shape` is **false**: `Shape` is an exact description
  (`↔`: a row for every non-final state *and no other row*, an entry for every non-initial state
  *and no other entry*), while `GNFA.validate` tolerates (a) an empty row for the final state,
  (b) rows keyed by objects that are not states, (c) entries `None` for the initial state.
  `C12_validate_does_not_give_shape` exhibits an accepted GNFA with all three that is not of that
  shape.  This is a gap of the *proof interface*, not of the code: on that GNFA the real
  `to_regex()` and the model return the same regex (replayed on /repo).
* What `validate = ok` does give is the one-directional `Loose` shape (`C12_validate_gives_loose`),
  the exact `Shape` of the *core* of the table (`C12_validate_gives_core_shape`: the table
  restricted to the rows and entries `to_regex` reads), and the exact `Shape` of the table itself
  when the definition has none of (a)–(c) (`C12_validate_gives_shape`).
* `to_regex` maintains `Loose`, so **`to_regex` on ANY accepted GNFA returns** — no `KeyError` in
  `_find_min_connected_node`, in the four reads / the write of the product loop, in the two `del`
  loops, in the final read; no `ValueError` of `min` — for every tie-break order
  (`C12_to_regex_total_of_validate`, and generically in the label rule
  `C12_toRegexG_total_of_validate`); and it returns a label for the language of the GNFA
  whenever the labels denote languages (`C12_to_regex_strings_of_validate`,
  `C12_elim_ast_all_orders_of_validate`, `C12_toRegexG_of_validate`): `Shape` is discharged,
  `Denotes` stays.
* The only hypothesis next to `validate = ok` is that each row is a Python dict (no duplicate
  key).  It is needed for the *model* (an association list `[(init, None), (init, "a"), …]`
  passes the model of `paths.get(initial_state) is not None` and then makes the model of
  `state_degree[to_state] += 1` raise `KeyError`: `C12_row_nodup_needed`); a real dict cannot
  have duplicate keys.

Not proved (stated as `C12_validate_gives_denotes_full`): that every string label accepted by
`_validate_transition_invalid_symbols` over an alphabet of literal characters is a rendering
`Renders .U e s` (or `""`), which would discharge `Denotes Lab` too.  The repository has the
direction `Renders → re._validate accepts` (`C12_renders_valid`), not its converse.
-/
import AutomataVerif.Props.C12
import AutomataVerif.Proofs.GnfaShapeBridge

namespace AV.Props.C12
open AV AV.GNFA AV.GnfaSpec

variable {σ ℓ : Type} [DecidableEq σ] [DecidableEq ℓ]

/-! ## (1) What `GNFA.validate = ok` gives -/

/-- **C12_validate_accepted** — the checks of `GNFA.validate` read off an accepted definition
(any label type, any label check): `init`, `final` are states and differ; every non-final state
has a row; every row keyed by the final state is empty; every other row has an entry for every
state but the initial one; all entry keys are states; no row has a labelled entry for the
initial state; every label passed the label check. -/
theorem C12_validate_accepted (labelCheck : ℓ → Res Unit) (g : GNFA σ ℓ)
    (hv : g.validate labelCheck = .ok ()) : Accepted labelCheck g :=
  accepted_of_validate hv

/-- **C12_validate_gives_loose** — an accepted definition whose rows have no duplicate keys has
the one-directional shape `Loose` that `to_regex` needs and maintains: an entry for every pair
(non-final state, non-initial state), and every labelled entry of such a row leads to a
non-initial state. -/
theorem C12_validate_gives_loose (labelCheck : ℓ → Res Unit) (g : GNFA σ ℓ)
    (hv : g.validate labelCheck = .ok ()) (hnd : ∀ kv ∈ g.trans, (akeys kv.2).Nodup) :
    Loose (dedup g.states) g.init g.final g.trans :=
  loose_of_accepted (accepted_of_validate hv) hnd

/-- **C12_validate_gives_shape** — the exact predicate `Shape` of the `to_regex` theorems, for an
accepted definition *without slack*: no row keyed by the final state or by a non-state, no entry
keyed by the initial state (what `from_dfa` / `from_nfa` build, and what the class docstring
describes).  Without these two hypotheses the statement is false:
`C12_validate_does_not_give_shape`. -/
theorem C12_validate_gives_shape (labelCheck : ℓ → Res Unit) (g : GNFA σ ℓ)
    (hv : g.validate labelCheck = .ok ())
    (hrows : ∀ kv ∈ g.trans, kv.1 ∈ g.states ∧ kv.1 ≠ g.final)
    (hinit : ∀ kv ∈ g.trans, g.init ∉ akeys kv.2) :
    Shape (dedup g.states) g.init g.final g.trans :=
  shape_of_accepted_tight (accepted_of_validate hv) hrows hinit

/-- **C12_validate_gives_core_shape** — for *every* accepted definition (rows without duplicate
keys) the core of the table — rows of non-final states, entries of non-initial states, labels as
in the table — has the exact `Shape`, and agrees with the table on every pair `to_regex` reads. -/
theorem C12_validate_gives_core_shape (labelCheck : ℓ → Res Unit) (g : GNFA σ ℓ)
    (hv : g.validate labelCheck = .ok ()) (hnd : ∀ kv ∈ g.trans, (akeys kv.2).Nodup) :
    Shape (dedup g.states) g.init g.final (coreTable (dedup g.states) g.init g.final g.trans) ∧
    Sim (dedup g.states) g.init g.final g.trans
      (coreTable (dedup g.states) g.init g.final g.trans) :=
  have hL := loose_of_accepted (accepted_of_validate hv) hnd
  ⟨shape_coreTable hL, sim_coreTable hL⟩

/-! ## (2) `to_regex` on every accepted GNFA -/

/-- **C12_toRegexG_of_validate** — `toRegexG_spec` with `Shape` replaced by `validate = ok`:
for every label type, label check, sound label rule and tie-break order, `to_regex` of an
accepted GNFA raises nothing and returns a label denoting the language of the GNFA
(`None` iff that language is empty). -/
theorem C12_toRegexG_of_validate {R : Language Char → ℓ → Prop}
    {comb : Option ℓ → Option ℓ → Option ℓ → Option ℓ → Option ℓ} (hcomb : CombSound R comb)
    (labelCheck : ℓ → Res Unit) (g : GNFA σ ℓ) (hv : g.validate labelCheck = .ok ())
    (hnd : ∀ kv ∈ g.trans, (akeys kv.2).Nodup)
    {Lb : σ → σ → Language Char} (hD : Denotes R g.trans Lb)
    (ord : Nat → List σ → List σ) (hord : ∀ k l x, x ∈ ord k l ↔ x ∈ l) :
    ∃ o, toRegexG comb g ord = .ok o ∧ RO R (GLang Lb g.init g.final) o := by
  have hA := accepted_of_validate hv
  obtain ⟨o, ho, hsem⟩ := toRegexG_loose comb g (loose_of_accepted hA hnd) ord hord
  exact ⟨o, ho, hsem R hcomb Lb (final_row_of_accepted hA) hD⟩

/-- **C12_toRegexG_total_of_validate** — crash freedom alone needs nothing about the labels:
for every label rule `comb` whatsoever and every tie-break order, the elimination loop on an
accepted GNFA ends with `.ok`. -/
theorem C12_toRegexG_total_of_validate
    (comb : Option ℓ → Option ℓ → Option ℓ → Option ℓ → Option ℓ)
    (labelCheck : ℓ → Res Unit) (g : GNFA σ ℓ) (hv : g.validate labelCheck = .ok ())
    (hnd : ∀ kv ∈ g.trans, (akeys kv.2).Nodup)
    (ord : Nat → List σ → List σ) (hord : ∀ k l x, x ∈ ord k l ↔ x ∈ l) :
    ∃ o, toRegexG comb g ord = .ok o := by
  obtain ⟨o, ho, _⟩ :=
    toRegexG_loose comb g (loose_of_accepted (accepted_of_validate hv) hnd) ord hord
  exact ⟨o, ho⟩

/-- **C12_to_regex_total_of_validate** — the code's instance: `GNFA(...)` accepted the definition
(`validateStr`, any model `rxValid` of `re._validate`) ⇒ `to_regex()` returns, whatever state
`_find_min_connected_node` picks among the minimal ones.  This is the field `gnfa_to_regex` of
`Props/C19e.lean` with both hypotheses `Shape` and `Denotes` replaced by `validateStr = ok`. -/
theorem C12_to_regex_total_of_validate (rxValid : Str → Res Bool) (g : GNFA σ Str)
    (hv : g.validateStr rxValid = .ok ()) (hnd : ∀ kv ∈ g.trans, (akeys kv.2).Nodup)
    (ord : Nat → List σ → List σ) (hord : ∀ k l x, x ∈ ord k l ↔ x ∈ l) :
    ∃ o, toRegex g ord = .ok o :=
  C12_toRegexG_total_of_validate ripLabel (strLabelCheck rxValid g.syms) g hv hnd ord hord

/-- **C12_to_regex_strings_of_validate** — `C12_to_regex_strings` with `Shape` discharged: on an
accepted GNFA whose labels are well-formed regex strings for edge languages `Lb`, `to_regex`
returns a well-formed regex string for the language of the GNFA (`None` iff empty), for every
tie-break order. -/
theorem C12_to_regex_strings_of_validate (rxValid : Str → Res Bool) (g : GNFA σ Str)
    (hv : g.validateStr rxValid = .ok ()) (hnd : ∀ kv ∈ g.trans, (akeys kv.2).Nodup)
    {Lb : σ → σ → Language Char} (hD : Denotes Lab g.trans Lb)
    (ord : Nat → List σ → List σ) (hord : ∀ k l x, x ∈ ord k l ↔ x ∈ l) :
    ∃ o, toRegex g ord = .ok o ∧ LabO (GLang Lb g.init g.final) o := by
  have hcomb : CombSound Lab ripLabel := by
    intro L1 L2 L3 L4 r1 r2 r3 r4 h1 h2 h3 h4
    have e : ∀ L o, RO Lab L o ↔ LabO L o := by intro L o; cases o <;> exact Iff.rfl
    rw [e] at h1 h2 h3 h4 ⊢
    exact ripLabel_sound h1 h2 h3 h4
  obtain ⟨o, ho, hRO⟩ :=
    C12_toRegexG_of_validate hcomb (strLabelCheck rxValid g.syms) g hv hnd hD ord hord
  refine ⟨o, ho, ?_⟩
  cases o <;> exact hRO

/-- **C12_elim_ast_all_orders_of_validate** — `C12_elim_ast_all_orders` with `Shape` discharged:
with expression labels (where `Denotes` holds by definition) the statement has no hypothesis
left but acceptance: the loop ends in an expression for the language of the GNFA, or in `None`
exactly when that language is empty. -/
theorem C12_elim_ast_all_orders_of_validate (labelCheck : Rx → Res Unit) (g : GNFA σ Rx)
    (hv : g.validate labelCheck = .ok ()) (hnd : ∀ kv ∈ g.trans, (akeys kv.2).Nodup)
    (ord : Nat → List σ → List σ) (hord : ∀ k l x, x ∈ ord k l ↔ x ∈ l) :
    ∃ o, toRegexG ripRx g ord = .ok o ∧
      match o with
      | none => rxLang g.trans g.init g.final = 0
      | some e => e.den = rxLang g.trans g.init g.final := by
  obtain ⟨o, ho, hRO⟩ :=
    C12_toRegexG_of_validate ripRx_sound labelCheck g hv hnd (denotes_rxLb g.trans) ord hord
  refine ⟨o, ho, ?_⟩
  cases o with
  | none => exact hRO
  | some e => exact hRO

/-- **C12_loose_step** — the loop invariant itself: one round of `to_regex` on a loose table
(any inner state `q`) raises nothing, and leaves a loose table for the remaining states. -/
theorem C12_loose_step (comb : Option ℓ → Option ℓ → Option ℓ → Option ℓ → Option ℓ)
    {S : List σ} {init final : σ} {tr : Table σ ℓ} (hS : Loose S init final tr) {q : σ}
    (hq : q ∈ S) (hqi : q ≠ init) (hqf : q ≠ final) :
    ∃ tr', ripStep comb init final S tr q = .ok (S.filter (fun x => decide (x ≠ q)), tr') ∧
      Loose (S.filter fun x => decide (x ≠ q)) init final tr' := by
  obtain ⟨tr', h1, h2, _⟩ := ripStep_loose comb hS hq hqi hqf
  exact ⟨tr', h1, h2⟩

/-! ## (3) The statement that is still open -/

/-- The remaining bridge, **not proved**: over an alphabet of literal characters every label the
constructor accepts is the empty string or a rendering of an expression, i.e. the labels of an
accepted GNFA denote languages.  (Together with `C12_to_regex_strings_of_validate` it would make
"`to_regex` of an accepted GNFA returns a well-formed regex for its language" unconditional.) -/
def C12_validate_gives_denotes_full (σ : Type) [DecidableEq σ] : Prop :=
  ∀ g : GNFA σ Str, g.validateStr simpleRxValid = .ok () → (∀ a ∈ g.syms, IsLit a) →
    ∃ Lb : σ → σ → Language Char, Denotes Lab g.trans Lb

/-! ## (4) Concrete hand-written GNFAs (not produced by `from_dfa` / `from_nfa`) -/

/-- Hand-written, 4 states + slack: initial 0, final 3; compound labels `a|b`, `b*`, `""`;
(a) an empty row for the final state 3, (b) a row keyed by the non-state 7, (c) `None` entries
for the initial state 0 in rows 0 and 1. -/
def exHand : GNFA Nat Str :=
  { states := [0, 1, 2, 3], syms := ['a', 'b'],
    trans := [(0, [(0, none), (1, some ['a']), (2, some []), (3, none)]),
              (1, [(0, none), (1, some ['a', '|', 'b']), (2, some ['b']), (3, some [])]),
              (2, [(1, none), (2, some ['b', '*']), (3, some ['a'])]),
              (3, []),
              (7, [(1, some ['a']), (2, some ['b']), (3, none)])],
    init := 0, final := 3 }

/-- The constructor accepts it. -/
example : exHand.validateStr simpleRxValid = .ok () := by decide
example : ∀ kv ∈ exHand.trans, (akeys kv.2).Nodup := by decide

/-- `to_regex` returns on it (model, list order as set order) … -/
example : toRegex exHand (fun _ l => l) =
    .ok (some ("(a(a|b)*b)?(b*)*a|a(a|b)*".toList)) := by decide

/-- … and for every tie-break, by the theorem. -/
example (ord : Nat → List Nat → List Nat) (hord : ∀ k l x, x ∈ ord k l ↔ x ∈ l) :
    ∃ o, toRegex exHand ord = .ok o :=
  C12_to_regex_total_of_validate simpleRxValid exHand (by decide) (by decide) ord hord

/-- **C12_validate_does_not_give_shape** — the literal bridge is false: `exHand` is accepted by
the constructor (rows are dicts), `to_regex` returns on it, but its table is not of the exact
`Shape` (the final state has a row). -/
theorem C12_validate_does_not_give_shape :
    exHand.validateStr simpleRxValid = .ok () ∧ (∀ kv ∈ exHand.trans, (akeys kv.2).Nodup) ∧
    (∃ o, toRegex exHand (fun _ l => l) = .ok o) ∧
    ¬ Shape (dedup exHand.states) exHand.init exHand.final exHand.trans := by
  refine ⟨by decide, by decide,
    ⟨some "(a(a|b)*b)?(b*)*a|a(a|b)*".toList, by decide⟩, ?_⟩
  intro h
  have h3 := (h.rows 3).mp (by decide)
  exact h3.2 rfl

/-- Each kind of slack alone already breaks `Shape`: (b) a row of a non-state, (c) an entry for
the initial state. -/
def exHandJunk : GNFA Nat Str :=
  { states := [0, 1, 2], syms := ['a'],
    trans := [(0, [(1, some ['a']), (2, none)]), (1, [(1, some ['a']), (2, some [])]),
              (7, [(1, none), (2, none)])],
    init := 0, final := 2 }

def exHandInit : GNFA Nat Str :=
  { states := [0, 1, 2], syms := ['a'],
    trans := [(0, [(0, none), (1, some ['a']), (2, none)]), (1, [(1, some ['a']), (2, some [])])],
    init := 0, final := 2 }

theorem C12_validate_does_not_give_shape_junk_row :
    exHandJunk.validateStr simpleRxValid = .ok () ∧
    toRegex exHandJunk (fun _ l => l) = .ok (some "aa*".toList) ∧
    ¬ Shape (dedup exHandJunk.states) exHandJunk.init exHandJunk.final exHandJunk.trans := by
  refine ⟨by decide, by decide, ?_⟩
  intro h
  have h7 := (h.rows 7).mp (by decide)
  exact absurd h7.1 (by decide)

theorem C12_validate_does_not_give_shape_init_entry :
    exHandInit.validateStr simpleRxValid = .ok () ∧
    toRegex exHandInit (fun _ l => l) = .ok (some "aa*".toList) ∧
    ¬ Shape (dedup exHandInit.states) exHandInit.init exHandInit.final exHandInit.trans := by
  refine ⟨by decide, by decide, ?_⟩
  intro h
  have h0 := (h.entries 0 0).mp (by decide)
  exact h0.2.2.2 rfl

/-- A hand-written GNFA without slack: `C12_validate_gives_shape` applies. -/
def exHandTight : GNFA Nat Str :=
  { states := [0, 1, 2, 3], syms := ['a', 'b'],
    trans := [(0, [(1, some ['a']), (2, some []), (3, none)]),
              (1, [(1, some ['a', '|', 'b']), (2, some ['b']), (3, some [])]),
              (2, [(1, none), (2, some ['b', '*']), (3, some ['a'])])],
    init := 0, final := 3 }

example : Shape (dedup exHandTight.states) exHandTight.init exHandTight.final exHandTight.trans :=
  C12_validate_gives_shape (strLabelCheck simpleRxValid exHandTight.syms) exHandTight
    (by decide) (by decide) (by decide)

example : toRegex exHandTight (fun _ l => l) =
    .ok (some ("(a(a|b)*b)?(b*)*a|a(a|b)*".toList)) := by decide

/-- **C12_row_nodup_needed** — the hypothesis "rows are dicts" is needed for the model: with the
association list `[(0, None), (0, "a"), …]` as row of state 1 (not a Python dict), the model of
`paths.get(initial_state) is not None` sees `None`, validation passes, and the model of
`state_degree[to_state] += 1` raises `KeyError` on the shadowed labelled entry. -/
def exDupRow : GNFA Nat Str :=
  { states := [0, 1, 2], syms := ['a'],
    trans := [(0, [(1, some ['a']), (2, none)]),
              (1, [(0, none), (0, some ['a']), (1, none), (2, some [])])],
    init := 0, final := 2 }

theorem C12_row_nodup_needed :
    exDupRow.validateStr simpleRxValid = .ok () ∧
    toRegex exDupRow (fun _ l => l) = .error (.py .keyError) ∧
    ¬ (∀ kv ∈ exDupRow.trans, (akeys kv.2).Nodup) := by
  refine ⟨by decide, by decide, by decide⟩

/-- Expression labels, hand-written with all three kinds of slack: the AST-level theorem applies
with acceptance as its only hypothesis.  0 -a→ 1, 0 -ε→ 2, 1 -(a|b)→ 1, 1 -b→ 2, 1 -ε→ 3,
2 -b*→ 2, 2 -a→ 3. -/
def exHandRx : GNFA Nat Rx :=
  { states := [0, 1, 2, 3], syms := ['a', 'b'],
    trans := [(0, [(0, none), (1, some (.sym 'a')), (2, some .eps), (3, none)]),
              (1, [(0, none), (1, some (.union (.sym 'a') (.sym 'b'))), (2, some (.sym 'b')),
                   (3, some .eps)]),
              (2, [(1, none), (2, some (.star (.sym 'b'))), (3, some (.sym 'a'))]),
              (3, []),
              (7, [(1, some (.sym 'a')), (2, some (.sym 'b')), (3, none)])],
    init := 0, final := 3 }

example : exHandRx.validate (fun _ => .ok ()) = .ok () := by decide

example : ∃ e, toRegexG ripRx exHandRx (fun _ l => l) = .ok (some e) ∧
    e.den = rxLang exHandRx.trans 0 3 := by
  obtain ⟨o, ho, hm⟩ := C12_elim_ast_all_orders_of_validate (fun _ => .ok ()) exHandRx
    (by decide) (by decide) (fun _ l => l) (fun _ _ _ => Iff.rfl)
  have h2 : (match toRegexG ripRx exHandRx (fun _ l => l) with
      | .ok (some _) => true
      | _ => false) = true := by decide
  rw [ho] at h2
  cases o with
  | none => simp at h2
  | some e => exact ⟨e, ho, hm⟩

end AV.Props.C12
