/-
Props/C07.lean — C07: NFA/DFA conversions and ε-elimination preserve the language.

English statement (properties.jsonl): determinising any NFA (with every combination of the
minify and retain-names options), viewing any DFA as an NFA, and eliminating empty-string
transitions from any NFA each produce a valid automaton with exactly the same language as
the source.  The epsilon-eliminated NFA has no empty-string transition left and no state
unreachable from its initial state.

`NFA.accepts` / `DFA.accepts` are the verdicts tied to Mathlib's `εNFA.accepts` /
`DFA.accepts` by C01; "valid" is `validate = .ok ()`, the model of the constructor's check;
`PyShape` says that the lists standing for Python sets/dicts have no repeated elements/keys.
-/
import AutomataVerif.Proofs.Subset
import AutomataVerif.Proofs.Elim

namespace AV.Props.C07
open AV AV.C07

variable {σ α : Type} [DecidableEq σ] [DecidableEq α]

/-! ## A. `DFA.from_nfa` — the subset construction -/

/-- **Subset construction, `retain_names=True, minify=False`: same language.**  For every
valid NFA (ε-cycles, states without rows, empty target sets, unreachable parts included) the
DFA built by `DFA.from_nfa` accepts exactly the words the NFA accepts.  No size bound: the
BFS fuel `2 ^ |states| + 1` of the model is shown to be sufficient. -/
theorem C07_from_nfa_lang (n : AV.NFA σ α) (hv : n.validate = .ok ()) (ps : n.PyShape) :
    ∀ w, n.toDFA.accepts w = n.accepts w := by
  intro w
  have wf := (NFA.validate_eq_ok n).mp hv
  unfold NFA.toDFA
  rw [DFA.expand_accepts _ _ (subset_expandHyp n _) w]
  have h := subset_run wf ps w _ (fun q hq => NFA.closure_sub_states wf wf.initOk hq)
  cases hr : DFA.implRun n.subsetSucc (some (n.canon (n.closure n.init))) w <;>
    rw [hr] at h <;> exact h

/-- **Subset construction: the result is a valid DFA** (every state has a row, rows use
alphabet symbols only and lead to states, a row is complete unless the DFA is flagged
partial, initial and final states are states). -/
theorem C07_from_nfa_valid (n : AV.NFA σ α) (hv : n.validate = .ok ()) :
    n.toDFA.validate = .ok () := by
  have wf := (NFA.validate_eq_ok n).mp hv
  rw [DFA.validate_eq_ok]
  exact expand_wf _ _ (subset_expandHyp n _) (fun u _ => subsetSucc_keys_sub wf u)

/-! ## B. `NFA.from_dfa` — a DFA viewed as an NFA -/

/-- **`NFA.from_dfa`: the result is a valid NFA** (in particular the initial state has a
transition row, which `NFA.validate` demands and DFA validity provides). -/
theorem C07_from_dfa_valid (d : AV.DFA σ α) (hv : d.validate = .ok ()) :
    (NFA.ofDFA d).validate = .ok () := by
  rw [NFA.validate_eq_ok]
  exact ofDFA_wf ((DFA.validate_eq_ok d).mp hv)

/-- **`NFA.from_dfa`: same language**, for complete and partial DFAs alike (this half needs
no validity hypothesis at all: the NFA has no ε-moves and its set of current states is the
singleton of the DFA's state, or empty once the DFA run has stopped). -/
theorem C07_from_dfa_lang (d : AV.DFA σ α) : ∀ w, (NFA.ofDFA d).accepts w = d.accepts w :=
  ofDFA_accepts d

/-- The set of current states of the embedded DFA after `w`. -/
theorem C07_from_dfa_run (d : AV.DFA σ α) (w : List α) (p : σ) :
    p ∈ (NFA.ofDFA d).runFrom ((NFA.ofDFA d).closure d.init) w ↔ d.run (some d.init) w = some p := by
  rw [ofDFA_closure]; exact ofDFA_run d w (some d.init) p

/-! ## C. `NFA.eliminate_lambda` -/

/-- **ε-elimination: same language.**  For every valid NFA (ε-cycles, states without rows,
empty target sets, unreachable parts, rows keyed by non-states included) the result of
`eliminate_lambda` accepts exactly the words the source accepts. -/
theorem C07_elim_lang (n : AV.NFA σ α) (hv : n.validate = .ok ()) (ps : n.PyShape) :
    ∀ w, n.eliminateLambda.accepts w = n.accepts w :=
  fun w => elim_accepts ((NFA.validate_eq_ok n).mp hv) ps w

/-- **ε-elimination: the result is a valid NFA** (the constructor call at the end of
`eliminate_lambda` cannot raise). -/
theorem C07_elim_valid (n : AV.NFA σ α) (hv : n.validate = .ok ()) (ps : n.PyShape) :
    n.eliminateLambda.validate = .ok () := by
  rw [NFA.validate_eq_ok]
  exact elim_wf ((NFA.validate_eq_ok n).mp hv) ps

/-- **No empty-string transition is left**: no row of the result has a `""` key — hence no
state has a λ-move and every λ-closure in the result is the state itself. -/
theorem C07_elim_no_epsilon (n : AV.NFA σ α) (hv : n.validate = .ok ()) (ps : n.PyShape) :
    (∀ kv ∈ n.eliminateLambda.trans, ∀ e ∈ kv.2, e.1 ≠ none) ∧
    (∀ q, n.eliminateLambda.targets q none = []) ∧
    (∀ q, n.eliminateLambda.closure q = [q]) := by
  have wf := (NFA.validate_eq_ok n).mp hv
  exact ⟨elim_noEps wf ps, elim_targets_none wf ps, elim_closure wf ps⟩

/-- **No unreachable state is left**: every state of the result is reached from its initial
state by following transitions of the result. -/
theorem C07_elim_all_reachable (n : AV.NFA σ α) (hv : n.validate = .ok ()) (ps : n.PyShape) :
    ∀ q ∈ n.eliminateLambda.states,
      Reach (fun q => (n.eliminateLambda.row q).flatMap fun e => e.2) n.eliminateLambda.init q :=
  elim_reachable ((NFA.validate_eq_ok n).mp hv) ps

/-- The result again has the shape of a value built from Python sets and dicts (so the
conversions compose: e.g. `DFA.from_nfa(n.eliminate_lambda())`). -/
theorem C07_elim_pyShape (n : AV.NFA σ α) (hv : n.validate = .ok ()) (ps : n.PyShape) :
    n.eliminateLambda.PyShape :=
  elim_pyShape ((NFA.validate_eq_ok n).mp hv) ps

/-- What the transformation does, state by state: the new final states are the reachable
states whose λ-closure meets the old final states (whatever the order in which the loop
visits the states), and the new targets of a reachable `q` on `a` are its old targets plus
everything reachable by `a` (λ-closed) from the other members of its λ-closure. -/
theorem C07_elim_shape (n : AV.NFA σ α) (hv : n.validate = .ok ()) (ps : n.PyShape) :
    (∀ q, q ∈ n.eliminateLambda.finals ↔
      q ∈ n.eliminateLambda.states ∧ q ∈ n.states ∧ ∃ p ∈ n.closure q, p ∈ n.finals) ∧
    (∀ q ∈ n.eliminateLambda.states, ∀ a t,
      t ∈ n.eliminateLambda.targets q (some a) ↔
        t ∈ n.targets q (some a) ∨
        t ∈ n.nextStates ((n.closure q).filter fun p => decide (p ≠ q)) a) := by
  have wf := (NFA.validate_eq_ok n).mp hv
  exact ⟨fun q => mem_elim_finals wf q, fun q hq a t => elim_targets_some wf ps hq a t⟩

end AV.Props.C07
