/-
Props/C07.lean — C07: NFA/DFA conversions and ε-elimination preserve the language.

English statement (properties.jsonl): determinising any NFA (with every combination of the
minify and retain-names options), viewing any DFA as an NFA, and eliminating empty-string
transitions from any NFA each produce a valid automaton with exactly the same language as
the source.  The epsilon-eliminated NFA has no empty-string transition left and no state
unreachable from its initial state.

`NFA.accepts` / `DFA.accepts` are the verdicts tied to Mathlib's `εNFA.accepts` /
`DFA.accepts` by C01; "valid" is `validate = .ok ()`, the model of the constructor's check;
`PyShape` says that the lists standing for Python sets/dicts have no repeated elements/keys.
-/
import AutomataVerif.Proofs.Subset
import AutomataVerif.Proofs.Elim
import AutomataVerif.Proofs.MinGlueSubset

namespace AV.Props.C07
open AV AV.C07

variable {σ α : Type} [DecidableEq σ] [DecidableEq α]

/-! ## A. `DFA.from_nfa` — the subset construction -/

/-- **Subset construction, `retain_names=True, minify=False`: same language.**  For every
valid NFA (ε-cycles, states without rows, empty target sets, unreachable parts included) the
DFA built by `DFA.from_nfa` accepts exactly the words the NFA accepts.  No size bound: the
BFS fuel `2 ^ |states| + 1` of the model is shown to be sufficient. -/
theorem C07_from_nfa_lang (n : AV.NFA σ α) (hv : n.validate = .ok ()) (ps : n.PyShape) :
    ∀ w, n.toDFA.accepts w = n.accepts w := by
  intro w
  have wf := (NFA.validate_eq_ok n).mp hv
  unfold NFA.toDFA
  rw [DFA.expand_accepts _ _ (subset_expandHyp n _) w]
  have h := subset_run wf ps w _ (fun q hq => NFA.closure_sub_states wf wf.initOk hq)
  cases hr : DFA.implRun n.subsetSucc (some (n.canon (n.closure n.init))) w <;>
    rw [hr] at h <;> exact h

/-- **Subset construction: the result is a valid DFA** (every state has a row, rows use
alphabet symbols only and lead to states, a row is complete unless the DFA is flagged
partial, initial and final states are states). -/
theorem C07_from_nfa_valid (n : AV.NFA σ α) (hv : n.validate = .ok ()) :
    n.toDFA.validate = .ok () := by
  have wf := (NFA.validate_eq_ok n).mp hv
  rw [DFA.validate_eq_ok]
  exact expand_wf _ _ (subset_expandHyp n _) (fun u _ => subsetSucc_keys_sub wf u)

/-- The subset DFA has the shape of a value built from Python sets and dicts, and its BFS
is exhaustive (used by the corollaries below). -/
theorem C07_from_nfa_pyShape (n : AV.NFA σ α) (ps : n.PyShape) : n.toDFA.PyShape :=
  expand_pyShape _ _ (subset_expandHyp n _) ps.syms_nodup

/-- **Subset construction, `retain_names=False, minify=False`**: the states are renamed by
their BFS discovery index; the result is still a valid DFA with the language of the NFA. -/
theorem C07_from_nfa_renumbered (n : AV.NFA σ α) (hv : n.validate = .ok ()) (ps : n.PyShape) :
    n.toDFA.renumber.validate = .ok () ∧ ∀ w, n.toDFA.renumber.accepts w = n.accepts w := by
  have wfD := (DFA.validate_eq_ok _).mp (C07_from_nfa_valid n hv)
  refine ⟨(DFA.validate_eq_ok _).mpr (renumber_wf wfD), fun w => ?_⟩
  rw [renumber_accepts wfD, C07_from_nfa_lang n hv ps]

/-- What the C05 development establishes about `_minify` (Proofs/MinifySpec.lean: under
`MinHyp`, from `HopcroftCorrect`): the quotient is a valid DFA accepting the language of the
refinement system it was given. -/
def MinifyCoreSpec {τ : Type} [DecidableEq τ] (kept : List τ) (syms : List α)
    (trans : List (τ × List (α × τ))) (init : τ) (finals : List τ) (pick : List Nat → Nat) : Prop :=
  (DFA.minifyCore kept syms trans init finals pick).validate = .ok () ∧
  ∀ w, (DFA.minifyCore kept syms trans init finals pick).accepts w =
    DFA.mfin finals (DFA.mrun kept trans (some init) w)

/-- `_expand_dfa(minify=True)` calls `_minify` on arguments that satisfy its preconditions. -/
theorem C07_from_nfa_minHyp (n : AV.NFA σ α) (hv : n.validate = .ok ()) (ps : n.PyShape) :
    DFA.MinHyp n.toDFA.states n.toDFA.syms n.toDFA.trans n.toDFA.init n.toDFA.finals := by
  have wf := (NFA.validate_eq_ok n).mp hv
  exact expand_minHyp _ _ (subset_expandHyp n _) ps.syms_nodup (fun u _ => subsetSucc_keys_sub wf u)

/-- **Subset construction, `minify=True`** (both `retain_names` settings: the model compares
names up to isomorphism), for every pop order `pick` of the Hopcroft loop — *relative to*
the correctness of `_minify` on these arguments (C05, proved in the C05 development from
`MinHyp`, which is discharged here by `C07_from_nfa_minHyp`). -/
theorem C07_from_nfa_min_partial (n : AV.NFA σ α) (hv : n.validate = .ok ()) (ps : n.PyShape)
    (pick : List Nat → Nat)
    (hC05 : DFA.MinHyp n.toDFA.states n.toDFA.syms n.toDFA.trans n.toDFA.init n.toDFA.finals →
      MinifyCoreSpec n.toDFA.states n.toDFA.syms n.toDFA.trans n.toDFA.init n.toDFA.finals pick) :
    (n.toDFAMin pick).validate = .ok () ∧ ∀ w, (n.toDFAMin pick).accepts w = n.accepts w := by
  obtain ⟨h1, h2⟩ := hC05 (C07_from_nfa_minHyp n hv ps)
  have wfD := (DFA.validate_eq_ok _).mp (C07_from_nfa_valid n hv)
  refine ⟨h1, fun w => ?_⟩
  show (DFA.minifyCore n.toDFA.states n.toDFA.syms n.toDFA.trans n.toDFA.init n.toDFA.finals pick).accepts w = _
  rw [h2 w, mlang_eq_accepts wfD, C07_from_nfa_lang n hv ps]

/-- The full statement for `minify=True`, without the C05 hypothesis (proved:
`C07_from_nfa_min_full_holds` below). -/
def C07_from_nfa_min_full : Prop :=
  ∀ (σ α : Type) [DecidableEq σ] [DecidableEq α] (n : AV.NFA σ α), n.validate = .ok () → n.PyShape →
    ∀ pick : List Nat → Nat,
      (n.toDFAMin pick).validate = .ok () ∧ ∀ w, (n.toDFAMin pick).accepts w = n.accepts w

/-- **C05's result for the call of `_minify` made by `from_nfa(minify=True)`**: the quotient
validates and accepts the language of the refinement system it was given, for every pop
order.  (Proofs/MinGlueSubset.lean: the subset DFA is the output of an exhaustive
`_expand_dfa`, so all its states are reachable, which is what validity of the quotient
needs besides `MinHyp`; then `hopcroft_nerode` + the quotient lemmas of C05.)  This is the
conclusion of the hypothesis `hC05` of `C07_from_nfa_min_partial`. -/
theorem C07_from_nfa_minifyCoreSpec (n : AV.NFA σ α) (hv : n.validate = .ok ()) (ps : n.PyShape)
    (pick : List Nat → Nat) :
    MinifyCoreSpec n.toDFA.states n.toDFA.syms n.toDFA.trans n.toDFA.init n.toDFA.finals pick := by
  obtain ⟨h1, _, h3⟩ := toDFAMin_core ((NFA.validate_eq_ok n).mp hv) ps pick
  exact ⟨h1, h3⟩

/-- **Subset construction, `minify=True`, unconditionally** (both `retain_names` settings:
the model compares names up to isomorphism).  For every valid NFA of Python shape and every
pop order `pick` of the Hopcroft loop, `DFA.from_nfa(n, minify=True)` is a valid DFA with
exactly the language of `n`. -/
theorem C07_from_nfa_min (n : AV.NFA σ α) (hv : n.validate = .ok ()) (ps : n.PyShape)
    (pick : List Nat → Nat) :
    (n.toDFAMin pick).validate = .ok () ∧ ∀ w, (n.toDFAMin pick).accepts w = n.accepts w :=
  C07_from_nfa_min_partial n hv ps pick (fun _ => C07_from_nfa_minifyCoreSpec n hv ps pick)

/-- The minified subset DFA is again a value Python sets/dicts can hold (so it can be an
operand of further operations). -/
theorem C07_from_nfa_min_pyShape (n : AV.NFA σ α) (hv : n.validate = .ok ()) (ps : n.PyShape)
    (pick : List Nat → Nat) : (n.toDFAMin pick).PyShape :=
  (toDFAMin_core ((NFA.validate_eq_ok n).mp hv) ps pick).2.1

theorem C07_from_nfa_min_full_holds : C07_from_nfa_min_full :=
  fun _ _ _ _ n hv ps pick => C07_from_nfa_min n hv ps pick

/-- **Subset construction with the library's DEFAULT options `retain_names=False,
minify=True`** — the literal call `DFA.from_nfa(n)`.  Here `_expand_dfa` renames the subset
states by BFS discovery index *before* it calls `_minify`, so `_minify` runs on a table with
int names (and picks its trap id among the negative ints, which the indices never are).
For every valid NFA of Python shape and every pop order `pick` of the Hopcroft loop the
result is a valid DFA with exactly the language of `n`.  (The final `enumerate` renaming of
the blocks is an injective renaming of a valid DFA: `C07_from_nfa_default_renamed`.) -/
theorem C07_from_nfa_min_renumbered (n : AV.NFA σ α) (hv : n.validate = .ok ()) (ps : n.PyShape)
    (pick : List Nat → Nat) :
    (n.toDFAMinRenum pick).validate = .ok () ∧ ∀ w, (n.toDFAMinRenum pick).accepts w = n.accepts w :=
  let h := toDFAMinRenum_core ((NFA.validate_eq_ok n).mp hv) ps pick
  ⟨h.1, h.2.2⟩

/-- The same statement with `_minify`'s arguments spelled out, as in the reviewer's reading:
`P` is the renumbered subset DFA. -/
theorem C07_from_nfa_min_renumbered' (n : AV.NFA σ α) (hv : n.validate = .ok ()) (ps : n.PyShape)
    (pick : List Nat → Nat) :
    let P := n.toDFA.renumber
    (DFA.minifyCore P.states P.syms P.trans P.init P.finals pick).validate = .ok () ∧
    ∀ w, (DFA.minifyCore P.states P.syms P.trans P.init P.finals pick).accepts w = n.accepts w :=
  C07_from_nfa_min_renumbered n hv ps pick

/-- The default-options result is again a value Python sets/dicts can hold. -/
theorem C07_from_nfa_min_renumbered_pyShape (n : AV.NFA σ α) (hv : n.validate = .ok ())
    (ps : n.PyShape) (pick : List Nat → Nat) : (n.toDFAMinRenum pick).PyShape :=
  (toDFAMinRenum_core ((NFA.validate_eq_ok n).mp hv) ps pick).2.1

/-- The default-options result is trim and reduced (hence minimal, as in C05): every state
is reached from the initial state by a word, and any two distinct states are told apart by
a word. -/
theorem C07_from_nfa_min_renumbered_minimal (n : AV.NFA σ α) (hv : n.validate = .ok ())
    (ps : n.PyShape) (pick : List Nat → Nat) :
    (∀ q ∈ (n.toDFAMinRenum pick).states,
      ∃ w, (n.toDFAMinRenum pick).run (some (n.toDFAMinRenum pick).init) w = some q) ∧
    (∀ q ∈ (n.toDFAMinRenum pick).states, ∀ q' ∈ (n.toDFAMinRenum pick).states, q ≠ q' →
      ∃ w, (n.toDFAMinRenum pick).isFinal ((n.toDFAMinRenum pick).run (some q) w) ≠
        (n.toDFAMinRenum pick).isFinal ((n.toDFAMinRenum pick).run (some q') w)) :=
  let S := toDFA_renumber_minSource ((NFA.validate_eq_ok n).mp hv) ps
  ⟨S.reachable pick, S.distinguishable pick⟩

/-- **`DFA.from_nfa(n)` with int names.**  `_minify(retain_names=False)` finally names each
block by a number; renaming the valid quotient by the position of the block (any injective
numbering behaves the same, see `C04_renumber`) keeps validity and the language. -/
theorem C07_from_nfa_default_renamed (n : AV.NFA σ α) (hv : n.validate = .ok ()) (ps : n.PyShape)
    (pick : List Nat → Nat) :
    (n.toDFAMinRenum pick).renumber.validate = .ok () ∧
    ∀ w, (n.toDFAMinRenum pick).renumber.accepts w = n.accepts w := by
  obtain ⟨h1, h2⟩ := C07_from_nfa_min_renumbered n hv ps pick
  have wfM := (DFA.validate_eq_ok _).mp h1
  exact ⟨(DFA.validate_eq_ok _).mpr (renumber_wf wfM), fun w => by rw [renumber_accepts wfM, h2]⟩

/-! ## B. `NFA.from_dfa` — a DFA viewed as an NFA -/

/-- **`NFA.from_dfa`: the result is a valid NFA** (in particular the initial state has a
transition row, which `NFA.validate` demands and DFA validity provides). -/
theorem C07_from_dfa_valid (d : AV.DFA σ α) (hv : d.validate = .ok ()) :
    (NFA.ofDFA d).validate = .ok () := by
  rw [NFA.validate_eq_ok]
  exact ofDFA_wf ((DFA.validate_eq_ok d).mp hv)

/-- **`NFA.from_dfa`: same language**, for complete and partial DFAs alike (this half needs
no validity hypothesis at all: the NFA has no ε-moves and its set of current states is the
singleton of the DFA's state, or empty once the DFA run has stopped). -/
theorem C07_from_dfa_lang (d : AV.DFA σ α) : ∀ w, (NFA.ofDFA d).accepts w = d.accepts w :=
  ofDFA_accepts d

/-- The set of current states of the embedded DFA after `w`. -/
theorem C07_from_dfa_run (d : AV.DFA σ α) (w : List α) (p : σ) :
    p ∈ (NFA.ofDFA d).runFrom ((NFA.ofDFA d).closure d.init) w ↔ d.run (some d.init) w = some p := by
  rw [ofDFA_closure]; exact ofDFA_run d w (some d.init) p

/-! ## C. `NFA.eliminate_lambda` -/

/-- **ε-elimination: same language.**  For every valid NFA (ε-cycles, states without rows,
empty target sets, unreachable parts, rows keyed by non-states included) the result of
`eliminate_lambda` accepts exactly the words the source accepts. -/
theorem C07_elim_lang (n : AV.NFA σ α) (hv : n.validate = .ok ()) (ps : n.PyShape) :
    ∀ w, n.eliminateLambda.accepts w = n.accepts w :=
  fun w => elim_accepts ((NFA.validate_eq_ok n).mp hv) ps w

/-- **ε-elimination: the result is a valid NFA** (the constructor call at the end of
`eliminate_lambda` cannot raise). -/
theorem C07_elim_valid (n : AV.NFA σ α) (hv : n.validate = .ok ()) (ps : n.PyShape) :
    n.eliminateLambda.validate = .ok () := by
  rw [NFA.validate_eq_ok]
  exact elim_wf ((NFA.validate_eq_ok n).mp hv) ps

/-- **No empty-string transition is left**: no row of the result has a `""` key — hence no
state has a λ-move and every λ-closure in the result is the state itself. -/
theorem C07_elim_no_epsilon (n : AV.NFA σ α) (hv : n.validate = .ok ()) (ps : n.PyShape) :
    (∀ kv ∈ n.eliminateLambda.trans, ∀ e ∈ kv.2, e.1 ≠ none) ∧
    (∀ q, n.eliminateLambda.targets q none = []) ∧
    (∀ q, n.eliminateLambda.closure q = [q]) := by
  have wf := (NFA.validate_eq_ok n).mp hv
  exact ⟨elim_noEps wf ps, elim_targets_none wf ps, elim_closure wf ps⟩

/-- **No unreachable state is left**: every state of the result is reached from its initial
state by following transitions of the result. -/
theorem C07_elim_all_reachable (n : AV.NFA σ α) (hv : n.validate = .ok ()) (ps : n.PyShape) :
    ∀ q ∈ n.eliminateLambda.states,
      Reach (fun q => (n.eliminateLambda.row q).flatMap fun e => e.2) n.eliminateLambda.init q :=
  elim_reachable ((NFA.validate_eq_ok n).mp hv) ps

/-- The same in terms of words: every state of the result is among the current states after
reading some word. -/
theorem C07_elim_all_reachable_by_words (n : AV.NFA σ α) (hv : n.validate = .ok ()) (ps : n.PyShape) :
    ∀ q ∈ n.eliminateLambda.states,
      ∃ w, q ∈ n.eliminateLambda.runFrom (n.eliminateLambda.closure n.eliminateLambda.init) w :=
  elim_reachable_word ((NFA.validate_eq_ok n).mp hv) ps

/-- **C07 for `eliminate_lambda`, in one statement** (DESIGN.md §7): valid, same language,
no empty-string transition, no unreachable state. -/
theorem C07_elim (n : AV.NFA σ α) (hv : n.validate = .ok ()) (ps : n.PyShape) :
    n.eliminateLambda.validate = .ok () ∧
    (∀ w, n.eliminateLambda.accepts w = n.accepts w) ∧
    (∀ kv ∈ n.eliminateLambda.trans, ∀ e ∈ kv.2, e.1 ≠ none) ∧
    (∀ q ∈ n.eliminateLambda.states,
      Reach (fun q => (n.eliminateLambda.row q).flatMap fun e => e.2) n.eliminateLambda.init q) :=
  ⟨C07_elim_valid n hv ps, C07_elim_lang n hv ps, (C07_elim_no_epsilon n hv ps).1,
    C07_elim_all_reachable n hv ps⟩

/-- The result again has the shape of a value built from Python sets and dicts (so the
conversions compose: e.g. `DFA.from_nfa(n.eliminate_lambda())`). -/
theorem C07_elim_pyShape (n : AV.NFA σ α) (hv : n.validate = .ok ()) (ps : n.PyShape) :
    n.eliminateLambda.PyShape :=
  elim_pyShape ((NFA.validate_eq_ok n).mp hv) ps

/-- What the transformation does, state by state: the new final states are the reachable
states whose λ-closure meets the old final states (whatever the order in which the loop
visits the states), and the new targets of a reachable `q` on `a` are its old targets plus
everything reachable by `a` (λ-closed) from the other members of its λ-closure. -/
theorem C07_elim_shape (n : AV.NFA σ α) (hv : n.validate = .ok ()) (ps : n.PyShape) :
    (∀ q, q ∈ n.eliminateLambda.finals ↔
      q ∈ n.eliminateLambda.states ∧ q ∈ n.states ∧ ∃ p ∈ n.closure q, p ∈ n.finals) ∧
    (∀ q ∈ n.eliminateLambda.states, ∀ a t,
      t ∈ n.eliminateLambda.targets q (some a) ↔
        t ∈ n.targets q (some a) ∨
        t ∈ n.nextStates ((n.closure q).filter fun p => decide (p ≠ q)) a) := by
  have wf := (NFA.validate_eq_ok n).mp hv
  exact ⟨fun q => mem_elim_finals wf q, fun q hq a t => elim_targets_some wf ps hq a t⟩

/-! ## non-vacuity -/

/-- An NFA with an ε-cycle (0 ⇄ 1), a state without a row (2), an unreachable state with an
empty target set (3), and a row keyed by a name that is not a state (9). -/
def exN : AV.NFA Nat Nat :=
  { states := [0, 1, 2, 3], syms := [0, 1],
    trans := [(0, [(none, [1]), (some 0, [0])]), (1, [(none, [0]), (some 1, [2])]),
              (3, [(some 0, [])]), (9, [(none, [3])])],
    init := 0, finals := [2] }

/-- The "second symbol from the end is 1" NFA (its subset DFA needs 4 states). -/
def exK : AV.NFA Nat Nat :=
  { states := [0, 1, 2], syms := [0, 1],
    trans := [(0, [(some 0, [0]), (some 1, [0, 1])]), (1, [(some 0, [2]), (some 1, [2])])],
    init := 0, finals := [2] }

def exD : AV.DFA Nat Nat :=
  { states := [0, 1], syms := [0, 1], trans := [(0, [(0, 0), (1, 1)]), (1, [(0, 0)])],
    init := 0, finals := [1], allowPartial := true }

example : exN.validate = .ok () := by rfl
example : exK.validate = .ok () := by rfl
example : exD.validate = .ok () := by rfl
theorem exN_pyShape : exN.PyShape :=
  ⟨by decide, by decide, by decide, by decide, by decide, by decide⟩
theorem exK_pyShape : exK.PyShape :=
  ⟨by decide, by decide, by decide, by decide, by decide, by decide⟩

example : exN.closure 0 = [0, 1] := by decide
example : (exN.accepts [1], exN.accepts [0, 0, 1], exN.accepts [0], exN.accepts [1, 1]) =
    (true, true, false, false) := by decide
example : (exN.toDFA.states, exN.toDFA.allowPartial) = ([[0, 1], [2]], true) := by decide
example : (exN.toDFA.accepts [0, 0, 1], exN.toDFA.accepts [1, 1]) = (true, false) := by decide
example : exN.toDFA.renumber.states = [0, 1] := by decide
example : exK.toDFA.states.length = 4 := by decide
example : (exK.toDFA.accepts [1, 0], exK.accepts [1, 0], exK.toDFA.accepts [0, 1]) =
    (true, true, false) := by decide
example : (exK.toDFAMin).states.length = 4 := by decide
example : (exK.toDFAMin).validate = .ok () ∧ ∀ w, (exK.toDFAMin).accepts w = exK.accepts w :=
  C07_from_nfa_min exK (by rfl) exK_pyShape _
example : (exN.toDFAMin).validate = .ok () ∧ ∀ w, (exN.toDFAMin).accepts w = exN.accepts w :=
  C07_from_nfa_min exN (by rfl) exN_pyShape _
example : (exK.toDFAMinRenum).states.length = 4 := by decide
example : (exN.toDFAMinRenum).states = [DFA.MinName.blk [1], DFA.MinName.blk [0]] := by decide
example : (exN.toDFAMinRenum).validate = .ok () ∧
    ∀ w, (exN.toDFAMinRenum).accepts w = exN.accepts w :=
  C07_from_nfa_min_renumbered exN (by rfl) exN_pyShape _

example : ((NFA.ofDFA exD).accepts [0, 1], (NFA.ofDFA exD).accepts [1, 1]) = (true, false) := by decide

/-- State 1 (only entered by λ-moves) and state 3 become unreachable and are pruned, with
their rows and the row of the non-state 9. -/
example : exN.eliminateLambda.states = [0, 2] := by decide
example : exN.eliminateLambda.trans = [(0, [(some 0, [0]), (some 1, [2])])] := by decide
example : exN.eliminateLambda.finals = [2] := by decide
example : (exN.eliminateLambda.accepts [0, 0, 1], exN.eliminateLambda.accepts [0]) = (true, false) := by
  decide

/-- ε-elimination creates final states: here every state becomes final (0 through the
in-loop growth or directly, both give the same set). -/
def exF : AV.NFA Nat Nat :=
  { states := [0, 1, 2], syms := [0], trans := [(0, [(none, [1])]), (1, [(none, [2]), (some 0, [0])])],
    init := 0, finals := [2] }
example : exF.validate = .ok () := by rfl
example : exF.eliminateLambda.finals = [0, 1, 2] ∧ exF.eliminateLambda.states = [0, 1, 2] ∧
    exF.eliminateLambda.trans = [(0, [(some 0, [0, 1, 2])]), (1, [(some 0, [0])])] ∧
    exF.eliminateLambda.accepts [] = true ∧ exF.accepts [] = true := by decide

end AV.Props.C07
