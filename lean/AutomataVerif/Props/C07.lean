/-
Props/C07.lean — C07: NFA/DFA conversions and ε-elimination preserve the language.

English statement (properties.jsonl): determinising any NFA (with every combination of the
minify and retain-names options), viewing any DFA as an NFA, and eliminating empty-string
transitions from any NFA each produce a valid automaton with exactly the same language as
the source.  The epsilon-eliminated NFA has no empty-string transition left and no state
unreachable from its initial state.

`NFA.accepts` / `DFA.accepts` are the verdicts tied to Mathlib's `εNFA.accepts` /
`DFA.accepts` by C01; "valid" is `validate = .ok ()`, the model of the constructor's check;
`PyShape` says that the lists standing for Python sets/dicts have no repeated elements/keys.
-/
import AutomataVerif.Proofs.Subset

namespace AV.Props.C07
open AV AV.C07

variable {σ α : Type} [DecidableEq σ] [DecidableEq α]

/-! ## A. `DFA.from_nfa` — the subset construction -/

/-- **Subset construction, `retain_names=True, minify=False`: same language.**  For every
valid NFA (ε-cycles, states without rows, empty target sets, unreachable parts included) the
DFA built by `DFA.from_nfa` accepts exactly the words the NFA accepts.  No size bound: the
BFS fuel `2 ^ |states| + 1` of the model is shown to be sufficient. -/
theorem C07_from_nfa_lang (n : AV.NFA σ α) (hv : n.validate = .ok ()) (ps : n.PyShape) :
    ∀ w, n.toDFA.accepts w = n.accepts w := by
  intro w
  have wf := (NFA.validate_eq_ok n).mp hv
  unfold NFA.toDFA
  rw [DFA.expand_accepts _ _ (subset_expandHyp n _) w]
  have h := subset_run wf ps w _ (fun q hq => NFA.closure_sub_states wf wf.initOk hq)
  cases hr : DFA.implRun n.subsetSucc (some (n.canon (n.closure n.init))) w <;>
    rw [hr] at h <;> exact h

/-- **Subset construction: the result is a valid DFA** (every state has a row, rows use
alphabet symbols only and lead to states, a row is complete unless the DFA is flagged
partial, initial and final states are states). -/
theorem C07_from_nfa_valid (n : AV.NFA σ α) (hv : n.validate = .ok ()) :
    n.toDFA.validate = .ok () := by
  have wf := (NFA.validate_eq_ok n).mp hv
  rw [DFA.validate_eq_ok]
  exact expand_wf _ _ (subset_expandHyp n _) (fun u _ => subsetSucc_keys_sub wf u)

/-! ## B. `NFA.from_dfa` — a DFA viewed as an NFA -/

/-- **`NFA.from_dfa`: the result is a valid NFA** (in particular the initial state has a
transition row, which `NFA.validate` demands and DFA validity provides). -/
theorem C07_from_dfa_valid (d : AV.DFA σ α) (hv : d.validate = .ok ()) :
    (NFA.ofDFA d).validate = .ok () := by
  rw [NFA.validate_eq_ok]
  exact ofDFA_wf ((DFA.validate_eq_ok d).mp hv)

/-- **`NFA.from_dfa`: same language**, for complete and partial DFAs alike (this half needs
no validity hypothesis at all: the NFA has no ε-moves and its set of current states is the
singleton of the DFA's state, or empty once the DFA run has stopped). -/
theorem C07_from_dfa_lang (d : AV.DFA σ α) : ∀ w, (NFA.ofDFA d).accepts w = d.accepts w :=
  ofDFA_accepts d

/-- The set of current states of the embedded DFA after `w`. -/
theorem C07_from_dfa_run (d : AV.DFA σ α) (w : List α) (p : σ) :
    p ∈ (NFA.ofDFA d).runFrom ((NFA.ofDFA d).closure d.init) w ↔ d.run (some d.init) w = some p := by
  rw [ofDFA_closure]; exact ofDFA_run d w (some d.init) p

end AV.Props.C07
