import AutomataVerif.Model.Convert
