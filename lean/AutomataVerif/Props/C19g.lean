/-
Props/C19g.lean — C19, crash-freedom of the operations whose model is a TOTAL function
(the gap listed in the header of Props/C19e.lean).

Model/DFAOpsE.lean refines the total models with explicit Python failures (every dict subscript
of the real function can raise `KeyError`, `next(iter(eq))` can raise `StopIteration`).  Here:
on a definition accepted by `validate` the failure-tracking version returns `.ok` of exactly the
value of the total model — the model that C05 / C13 prove the language facts about.
-/
import AutomataVerif.Model.DFAOpsE
import AutomataVerif.Proofs.Query
import AutomataVerif.Proofs.MinRep
import AutomataVerif.Proofs.Hopcroft

namespace AV

set_option linter.unusedSectionVars false

/-! ## generic lemmas about the failing combinators -/

theorem optE_some {β : Type} {o : Option β} {v : β} (h : o = some v) : optE o = .ok v := by
  subst h; rfl

theorem asub_of_lookup {κ β : Type} [DecidableEq κ] {k : κ} {d : List (κ × β)} {v : β}
    (h : alookup k d = some v) : asub k d = .ok v := optE_some h

theorem mapE_eq_ok {β γ : Type} (f : β → Res γ) (g : β → γ) :
    ∀ l : List β, (∀ x ∈ l, f x = .ok (g x)) → mapE f l = .ok (l.map g) := by
  intro l
  induction l with
  | nil => intro _; rfl
  | cons x t ih =>
    intro h
    have h1 := h x (by simp)
    have h2 := ih fun y hy => h y (by simp [hy])
    simp [mapE, h1, h2]

theorem mapE_optE_eq_filterMap {β γ : Type} (f : β → Option γ) :
    ∀ l : List β, (∀ x ∈ l, (f x).isSome = true) →
      mapE (fun x => optE (f x)) l = .ok (l.filterMap f) := by
  intro l
  induction l with
  | nil => intro _; rfl
  | cons x t ih =>
    intro h
    have h1 := h x (by simp)
    have h2 := ih fun y hy => h y (by simp [hy])
    cases hx : f x with
    | none => simp [hx] at h1
    | some v => rw [mapE, h2, hx]; simp [optE, hx]

theorem foldlE_eq_ok {β γ : Type} (f : γ → β → Res γ) (g : γ → β → γ) (P : γ → Prop)
    (l : List β) (h : ∀ acc x, P acc → x ∈ l → f acc x = .ok (g acc x) ∧ P (g acc x)) :
    ∀ acc, P acc → foldlE f acc l = .ok (l.foldl g acc) := by
  induction l with
  | nil => intro acc _; rfl
  | cons x t ih =>
    intro acc hP
    obtain ⟨h1, h2⟩ := h acc x hP (by simp)
    simp only [foldlE, h1, List.foldl_cons]
    exact ih (fun acc' y hP' hy => h acc' y hP' (by simp [hy])) _ h2

theorem bfsAuxE_eq_ok {σ : Type} [DecidableEq σ] (succE : σ → Res (List σ)) (succ : σ → List σ)
    (P : σ → Prop) (hs : ∀ q, P q → succE q = .ok (succ q)) (hc : ∀ q, P q → ∀ t ∈ succ q, P t) :
    ∀ (fuel : Nat) (work vis : List σ), (∀ q ∈ work, P q) →
      bfsAuxE succE fuel work vis = .ok (bfsAux succ fuel work vis) := by
  intro fuel
  induction fuel with
  | zero => intro work vis _; rfl
  | succ fuel ih =>
    intro work vis hw
    cases work with
    | nil => rfl
    | cons q work =>
      have hq := hw q (by simp)
      simp only [bfsAuxE, hs q hq, bfsAux]
      apply ih
      intro t ht
      rcases List.mem_append.mp ht with h | h
      · exact hw t (by simp [h])
      · have := mem_dedup.mp h
        exact hc q hq t (List.mem_filter.mp this).1

theorem alookup_map_val {κ β γ : Type} [DecidableEq κ] (f : β → γ) (k : κ) :
    ∀ l : List (κ × β), alookup k (l.map fun kv => (kv.1, f kv.2)) = (alookup k l).map f := by
  intro l
  induction l with
  | nil => rfl
  | cons e t ih =>
    obtain ⟨k', v⟩ := e
    simp only [List.map_cons, alookup_cons]
    split
    · rfl
    · exact ih

theorem alookup_map_self_g {κ β : Type} [DecidableEq κ] (f : κ → β) (k : κ) :
    ∀ l : List κ, k ∈ l → alookup k (l.map fun e => (e, f e)) = some (f k) := by
  intro l
  induction l with
  | nil => intro h; simp at h
  | cons e t ih =>
    intro h
    simp only [List.map_cons, alookup_cons]
    by_cases he : e = k
    · subst he; simp
    · rw [if_neg he]
      rcases List.mem_cons.mp h with h | h
      · exact absurd h.symm he
      · exact ih h

namespace DFA
variable {σ α : Type} [DecidableEq σ] [DecidableEq α]

/-! ## rows of declared states -/

theorem rowE_eq {d : DFA σ α} (wf : d.WF) {q : σ} (hq : q ∈ d.states) : d.rowE q = .ok (d.row q) := by
  obtain ⟨r, hr⟩ : ∃ r, alookup q d.trans = some r := by
    have := alookup_isSome_iff.mpr (wf.rows q hq)
    cases h : alookup q d.trans with
    | none => simp [h] at this
    | some r => exact ⟨r, rfl⟩
  unfold rowE row row?
  rw [asub_of_lookup hr, hr]; rfl

theorem rowSuccE_eq {d : DFA σ α} (wf : d.WF) {q : σ} (hq : q ∈ d.states) :
    d.rowSuccE q = .ok (avals (d.row q)) := by
  unfold rowSuccE; rw [rowE_eq wf hq]

theorem row_targets {d : DFA σ α} (wf : d.WF) {q t : σ} (ht : t ∈ avals (d.row q)) : t ∈ d.states := by
  unfold row row? at ht
  cases h : alookup q d.trans with
  | none => simp [h, avals] at ht
  | some r =>
    rw [h] at ht
    exact wf.tgtOk (q, r) (alookup_some_mem h) t ht

/-- The BFS over `self.transitions[state]` from the initial state never meets a missing row. -/
theorem bfs_rows_eq {d : DFA σ α} (wf : d.WF) (fuel : Nat) :
    bfsAuxE d.rowSuccE fuel (dedup [d.init]) (dedup [d.init]) =
      .ok (bfsAux (fun q => avals (d.row q)) fuel (dedup [d.init]) (dedup [d.init])) := by
  apply bfsAuxE_eq_ok d.rowSuccE (fun q => avals (d.row q)) (fun q => q ∈ d.states)
  · intro q hq; exact rowSuccE_eq wf hq
  · intro q _ t ht; exact row_targets wf ht
  · intro q hq
    have : q = d.init := by simpa using mem_dedup.mp hq
    subst this; exact wf.initOk

end DFA

namespace Props.C19
open AV.DFA
variable {σ α : Type} [DecidableEq σ] [DecidableEq α]

/-! ## `isempty`, `count_words_of_length`, `words_of_length` -/

/-- **`isempty()` raises no `KeyError`** (`self.transitions[state]` for every state the BFS
pops) and returns what the total model returns. -/
theorem C19_isempty_no_keyerror (d : AV.DFA σ α) (hv : d.validate = .ok ()) :
    d.isEmptyE = .ok d.isEmpty := by
  have wf := (validate_eq_ok d).mp hv
  unfold isEmptyE
  rw [bfs_rows_eq wf]
  rfl

theorem countLevelE_eq {d : AV.DFA σ α} (wf : d.WF) : ∀ k, d.countLevelE k = .ok (d.countLevel k) := by
  intro k
  induction k with
  | zero => rfl
  | succ k ih =>
    simp only [countLevelE, ih, countLevel, countNextE, countNext]
    apply mapE_eq_ok
    intro q hq
    rw [rowE_eq wf hq]

/-- **`count_words_of_length(k)` raises no `KeyError`** (`self.transitions[state]` for every
declared state, at every level) and returns what the total model returns. -/
theorem C19_count_words_no_keyerror (d : AV.DFA σ α) (hv : d.validate = .ok ()) (k : Nat) :
    d.countWordsOfLengthE k = .ok (d.countWordsOfLength k) := by
  have wf := (validate_eq_ok d).mp hv
  unfold countWordsOfLengthE
  rw [countLevelE_eq wf]
  rfl

theorem wordLevelE_eq {d : AV.DFA σ α} (wf : d.WF) (key : α → Int) :
    ∀ k, d.wordLevelE key k = .ok (d.wordLevel key k) := by
  intro k
  induction k with
  | zero => rfl
  | succ k ih =>
    simp only [wordLevelE, ih, wordLevel, wordNextE, wordNext]
    apply mapE_eq_ok
    intro q hq
    obtain ⟨r, hr⟩ : ∃ r, alookup q d.trans = some r := by
      have := alookup_isSome_iff.mpr (wf.rows q hq)
      cases h : alookup q d.trans with
      | none => simp [h] at this
      | some r => exact ⟨r, rfl⟩
    have hrow : d.row q = r := by unfold row row?; rw [hr]; rfl
    have hst : asub q (d.sortedTable key) = .ok (sortedKeys key r) := by
      apply asub_of_lookup
      unfold sortedTable
      rw [alookup_map_val (sortedKeys key) q d.trans, hr]; rfl
    rw [hst, rowE_eq wf hq, hrow]
    simp only
    rw [mapE_eq_ok _ (fun a => match alookup a r with
        | some t => (wget (d.wordLevel key k) t).map (a :: ·)
        | none => [])]
    · rw [List.flatMap_def]; rfl
    · intro a ha
      have hk : a ∈ akeys r := mem_sortBy.mp ha
      have := alookup_isSome_iff.mpr hk
      cases h : alookup a r with
      | none => simp [h] at this
      | some t => simp [asub, optE, h]

/-- **`words_of_length(k)` raises no `KeyError`** (`sorted_transition_symbols[state]`,
`self.transitions[state][symbol]`) and yields what the total model yields. -/
theorem C19_words_of_length_no_keyerror (d : AV.DFA σ α) (hv : d.validate = .ok ()) (key : α → Int)
    (k : Nat) : d.wordsOfLengthE key k = .ok (d.wordsOfLength key k) := by
  have wf := (validate_eq_ok d).mp hv
  unfold wordsOfLengthE
  rw [wordLevelE_eq wf key]
  rfl

end Props.C19
end AV
