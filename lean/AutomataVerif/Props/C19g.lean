/-
Props/C19g.lean — C19, crash-freedom of the operations whose model is a TOTAL function
(the gap listed in the header of Props/C19e.lean).

Model/DFAOpsE.lean refines the total models with explicit Python failures (every dict subscript
of the real function can raise `KeyError`, `next(iter(eq))` can raise `StopIteration`).  Here:
on a definition accepted by `validate` the failure-tracking version returns `.ok` of exactly the
value of the total model — the model that C05 / C13 prove the language facts about.

Covered: `minify` (both pre-passes), `to_partial(minify=True)`, `complement(minify=True)` of a
complete DFA, `_minify` for any caller (`MinSource`), `isempty`, `count_words_of_length`,
`words_of_length`.  The list of modelled subscripts (with line numbers) is in the header of
Model/DFAOpsE.lean.  NOT modelled as failing: the construction loop of `transition_back_map`
(its subscripts use keys stored by the same loop; the end result `backMap` is taken as given),
the networkx calls of the partial pre-pass, `retain_names=False` renaming, list indexing of the
caches.  Not covered at all: `DFA.from_nfa`, `NFA.from_dfa`, `NFA.eliminate_lambda`.
No subscript was found that can fail on an accepted definition.
-/
import AutomataVerif.Proofs.OpsE

namespace AV

set_option linter.unusedSectionVars false

namespace Props.C19
open AV.DFA
variable {σ α : Type} [DecidableEq σ] [DecidableEq α]

/-! ## `isempty`, `count_words_of_length`, `words_of_length` -/

/-- **`isempty()` raises no `KeyError`** (`self.transitions[state]` for every state the BFS
pops) and returns what the total model returns. -/
theorem C19_isempty_no_keyerror (d : AV.DFA σ α) (hv : d.validate = .ok ()) :
    d.isEmptyE = .ok d.isEmpty := by
  have wf := (validate_eq_ok d).mp hv
  unfold isEmptyE
  rw [bfs_rows_eq wf]
  rfl

theorem countLevelE_eq {d : AV.DFA σ α} (wf : d.WF) : ∀ k, d.countLevelE k = .ok (d.countLevel k) := by
  intro k
  induction k with
  | zero => rfl
  | succ k ih =>
    simp only [countLevelE, ih, countLevel, countNextE, countNext]
    apply mapE_eq_ok
    intro q hq
    rw [rowE_eq wf hq]

/-- **`count_words_of_length(k)` raises no `KeyError`** (`self.transitions[state]` for every
declared state, at every level) and returns what the total model returns. -/
theorem C19_count_words_no_keyerror (d : AV.DFA σ α) (hv : d.validate = .ok ()) (k : Nat) :
    d.countWordsOfLengthE k = .ok (d.countWordsOfLength k) := by
  have wf := (validate_eq_ok d).mp hv
  unfold countWordsOfLengthE
  rw [countLevelE_eq wf]
  rfl

theorem wordLevelE_eq {d : AV.DFA σ α} (wf : d.WF) (key : α → Int) :
    ∀ k, d.wordLevelE key k = .ok (d.wordLevel key k) := by
  intro k
  induction k with
  | zero => rfl
  | succ k ih =>
    simp only [wordLevelE, ih, wordLevel, wordNextE, wordNext]
    apply mapE_eq_ok
    intro q hq
    obtain ⟨r, hr⟩ : ∃ r, alookup q d.trans = some r := by
      have := alookup_isSome_iff.mpr (wf.rows q hq)
      cases h : alookup q d.trans with
      | none => simp [h] at this
      | some r => exact ⟨r, rfl⟩
    have hrow : d.row q = r := by unfold row row?; rw [hr]; rfl
    have hst : asub q (d.sortedTable key) = .ok (sortedKeys key r) := by
      apply asub_of_lookup
      unfold sortedTable
      rw [alookup_map_val_g (sortedKeys key) q d.trans, hr]; rfl
    rw [hst, rowE_eq wf hq, hrow]
    simp only
    rw [mapE_eq_ok _ (fun a => match alookup a r with
        | some t => (wget (d.wordLevel key k) t).map (a :: ·)
        | none => [])]
    · rw [List.flatMap_def]; rfl
    · intro a ha
      have hk : a ∈ akeys r := mem_sortBy.mp ha
      have := alookup_isSome_iff.mpr hk
      cases h : alookup a r with
      | none => simp [h] at this
      | some t => simp [asub, optE, h]

/-- **`words_of_length(k)` raises no `KeyError`** (`sorted_transition_symbols[state]`,
`self.transitions[state][symbol]`) and yields what the total model yields. -/
theorem C19_words_of_length_no_keyerror (d : AV.DFA σ α) (hv : d.validate = .ok ()) (key : α → Int)
    (k : Nat) : d.wordsOfLengthE key k = .ok (d.wordsOfLength key k) := by
  have wf := (validate_eq_ok d).mp hv
  unfold wordsOfLengthE
  rw [wordLevelE_eq wf key]
  rfl

/-! ## `_minify` as used by `minify` and `to_partial` -/

theorem minifyKeptE_eq {d : AV.DFA σ α} (wf : d.WF) : d.minifyKeptE = .ok d.minifyKept := by
  unfold minifyKeptE minifyKept
  cases d.allowPartial with
  | true => rfl
  | false =>
    simp only [Bool.false_eq_true, if_false]
    rw [bfs_rows_eq wf]
    rfl

/-- **`_minify` raises no `KeyError` / `StopIteration`** whatever caller hands it arguments that
describe a DFA (`MinSource`: `minify`, `to_partial`, `complement`, the Boolean operations,
`from_nfa` — see Proofs/MinifyCorrect.lean, Proofs/MinifyExpand.lean for the sources), for every
pop order `pick` of `processing`, and returns the value of the total model. -/
theorem C19_minify_core_no_keyerror {d : AV.DFA σ α} {kept finals : List σ}
    (S : MinSource d kept finals) (pick : List Nat → Nat) :
    minifyCoreE kept d.syms d.trans d.init finals pick =
      .ok (minifyCore kept d.syms d.trans d.init finals pick) :=
  minifyCoreE_eq S pick

/-- **`minify()` raises no `KeyError` / `StopIteration`** on an accepted definition:
`self.transitions[state]` in the reachability pass, `_partition[x]` / `_sets[id]` inside
`PartitionRefinement`, `origin_dict[end_state]`, `back_map[initial_state]`, `back_map[acc]`,
`next(iter(eq))`, `transitions[eq_class_rep]` — and returns the value of the total model
(the one `C05_lang`, `C05_valid`, `C05_minimal_*` are about). -/
theorem C19_minify_no_keyerror (d : AV.DFA σ α) (hv : d.validate = .ok ()) (ps : d.PyShape)
    (pick : List Nat → Nat) : d.minifyE pick = .ok (d.minify pick) := by
  have wf := (validate_eq_ok d).mp hv
  unfold minifyE
  rw [minifyKeptE_eq wf]
  exact minifyCoreE_eq (minify_source wf ps) pick

/-- **`to_partial(minify=True)` raises no `KeyError` / `StopIteration`** on an accepted
definition (partial or complete), and returns the value of the total model. -/
theorem C19_to_partial_min_no_keyerror (d : AV.DFA σ α) (hv : d.validate = .ok ()) (ps : d.PyShape)
    (pick : List Nat → Nat) : d.toPartialMinE pick = .ok (d.toPartialMin pick) := by
  have wf := (validate_eq_ok d).mp hv
  have wf' : ({ d with allowPartial := true } : AV.DFA σ α).WF :=
    ⟨wf.rows, fun h => (by cases h), wf.symsOk, wf.tgtOk, wf.initOk, wf.finalsOk⟩
  have ps' : ({ d with allowPartial := true } : AV.DFA σ α).PyShape :=
    ⟨ps.states_nodup, ps.syms_nodup, ps.finals_nodup, ps.keys_nodup, ps.rows_nodup⟩
  rw [toPartialMin_eq]
  exact minifyCoreE_eq (minify_source wf' ps') pick

/-- **`complement(minify=True)` of a complete accepted definition raises no `KeyError` /
`StopIteration`**, and returns the value of the total model. -/
theorem C19_complement_min_no_keyerror (c : AV.DFA σ α) (hv : c.validate = .ok ())
    (hc : c.allowPartial = false) (ps : c.PyShape) (pick : List Nat → Nat) :
    c.complementMinE pick = .ok (c.complementMin pick) := by
  have wf := (validate_eq_ok c).mp hv
  unfold complementMinE
  rw [bfs_rows_eq wf, complementMin_eq]
  exact minifyCoreE_eq (complementMin_source wf hc ps) pick

/-- The gap of Props/C19e.lean for these operations, in its vocabulary: none of them ends with an
undocumented Python error on an accepted definition. -/
theorem C19_total_ops_no_crash (d : AV.DFA σ α) (hv : d.validate = .ok ()) (ps : d.PyShape)
    (pick : List Nat → Nat) (key : α → Int) (k : Nat) :
    (∀ e : PyErr, d.minifyE pick ≠ .error (.py e)) ∧
    (∀ e : PyErr, d.toPartialMinE pick ≠ .error (.py e)) ∧
    (∀ e : PyErr, d.isEmptyE ≠ .error (.py e)) ∧
    (∀ e : PyErr, d.countWordsOfLengthE k ≠ .error (.py e)) ∧
    (∀ e : PyErr, d.wordsOfLengthE key k ≠ .error (.py e)) := by
  rw [C19_minify_no_keyerror d hv ps pick, C19_to_partial_min_no_keyerror d hv ps pick,
    C19_isempty_no_keyerror d hv, C19_count_words_no_keyerror d hv k,
    C19_words_of_length_no_keyerror d hv key k]
  refine ⟨?_, ?_, ?_, ?_, ?_⟩ <;> intro e h <;> cases h

/-! ## non-vacuity, and what the failure-tracking models do outside the hypotheses -/

/-- Equality of results is decidable (for the `decide` examples). -/
local instance decEqRes {β : Type} [DecidableEq β] : DecidableEq (Res β) := fun a b =>
  match a, b with
  | .ok x, .ok y => if h : x = y then isTrue (by rw [h]) else isFalse (fun he => h (by cases he; rfl))
  | .error x, .error y =>
    if h : x = y then isTrue (by rw [h]) else isFalse (fun he => h (by cases he; rfl))
  | .ok _, .error _ => isFalse (fun he => by cases he)
  | .error _, .ok _ => isFalse (fun he => by cases he)

/-- A partial DFA with a dead state: 0 -a-> 1 (final), 0 -b-> 2 (dead, no way to a final state),
1 has no `b`-transition. -/
def exDead : AV.DFA Nat Nat :=
  { states := [0, 1, 2], syms := [0, 1],
    trans := [(0, [(0, 1), (1, 2)]), (1, [(0, 1)]), (2, [(0, 2), (1, 2)])],
    init := 0, finals := [1], allowPartial := true }

/-- A complete DFA whose table has a row keyed by the non-state 7 (validation accepts it) and an
unreachable state 2. -/
def exExtraRow : AV.DFA Nat Nat :=
  { states := [0, 1, 2], syms := [0],
    trans := [(0, [(0, 1)]), (1, [(0, 0)]), (2, [(0, 2)]), (7, [(0, 0)])],
    init := 0, finals := [1], allowPartial := false }

example : exDead.validate = .ok () ∧ exExtraRow.validate = .ok () := by decide

theorem exDead_shape : exDead.PyShape :=
  ⟨by decide, by decide, by decide, by decide, by decide⟩
theorem exExtraRow_shape : exExtraRow.PyShape :=
  ⟨by decide, by decide, by decide, by decide, by decide⟩

/-- The failure-tracking runs on the two examples end with `.ok` (computed, not via the theorems). -/
example : (match exDead.minifyE with | .ok m => m.states.length | .error _ => 99) = 2 := by decide
example : (match exDead.toPartialMinE with | .ok m => m.states.length | .error _ => 99) = 2 := by
  decide
example : (match exExtraRow.minifyE with | .ok m => m.states.length | .error _ => 99) = 2 := by decide
example : (match exExtraRow.toPartialMinE with | .ok m => m.states.length | .error _ => 99) = 2 := by
  decide
example : exDead.isEmptyE = .ok false ∧ exExtraRow.isEmptyE = .ok false := by decide
example : exDead.countWordsOfLengthE 3 = .ok 1 ∧ exExtraRow.countWordsOfLengthE 3 = .ok 1 := by decide
example : exDead.wordsOfLengthE Int.ofNat 2 = .ok [[0, 0]] ∧ exExtraRow.wordsOfLengthE Int.ofNat 3 = .ok [[0, 0, 0]] := by
  decide

/-- The failure tracking is not vacuous: drop the row of the declared state 1 (validation rejects
this table with `MissingStateError`) and every operation that subscripts `transitions[1]` fails
with `KeyError`, while the total models silently read an empty row. -/
def exNoRow : AV.DFA Nat Nat :=
  { states := [0, 1], syms := [0], trans := [(0, [(0, 1)])], init := 0, finals := [1],
    allowPartial := false }

example : exNoRow.validate = .error (.lib .missingStateError) ∧
    exNoRow.isEmptyE = .error (.py .keyError) ∧ exNoRow.isEmpty = false ∧
    exNoRow.countWordsOfLengthE 1 = .error (.py .keyError) ∧ exNoRow.countWordsOfLength 1 = 1 ∧
    exNoRow.wordsOfLengthE Int.ofNat 1 = .error (.py .keyError) ∧
    (match exNoRow.minifyE with | .error (.py .keyError) => true | _ => false) = true := by decide

end Props.C19
end AV
