/- Props/C20.lean — in progress. -/
import AutomataVerif.Model.DFACache

namespace AV.Props.C20
end AV.Props.C20
