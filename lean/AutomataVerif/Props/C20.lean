/-
Props/C20.lean — C20: query answers do not depend on what was asked before (caches stay
coherent).

English statement (properties.jsonl): the answer to any query on an automaton (acceptance,
counts and word lists for any length, cardinality, lengths, emptiness, finiteness, iteration,
successor search, comparisons, equality, determinisation) is the same whether it is the first
call on a fresh object or comes after any sequence of other queries, repeated queries,
partially consumed generators or cache clearing on the same object.  In particular results
for a shorter length asked after a longer one, and vice versa, are identical.

Model (Model/DFACache.lean): an instance is `Inst = (_count_cache, _word_cache, cached_method
tables, live generator objects)`; every public call is `step : Inst → Query → Inst × Ans`
(the caches grow on demand, `clear_cache` empties the two lists but not the memo tables,
`lru_cache` does not store raised exceptions, generator bodies run — and populate caches —
only when they are advanced).  `stepPure` is the stateless reference: it keeps nothing but
each generator's own position and computes every answer from the definition alone with the
functions of C13/C14 (`countWordsOfLength`, `wordsOfLength`, `cardinality`, `successors`, …).

Theorems: `CacheInv` (every populated level is the table of that level, every memo entry is the
value computed from the definition) holds initially and is kept by every call; under `CacheInv`
every call returns the stateless answer; hence for **every finite history** the answers of
the cached instance are those of the stateless reference (`C20_history`), and the answer to
any plain query after any history equals its answer on a fresh object (`C20_fresh`).
Lengths are naturals (`k : Nat`): negative lengths index the caches from the end in the real
code and *are* history dependent (finding F18, outside the domain).
Live generators of all three kinds (`words_of_length`, `iter(dfa)`, `successors`/`predecessors`)
are objects of the instance that are advanced one `next()` at a time between arbitrary other
calls (`C20_generator`: non-interference + closed form; `C20_words_generator`,
`C20_iter_generator`, `C20_succ_generator`).  `minify()` (partial DFA) and `to_partial()` read
`_get_digraph()` through the memo (`Query.minify`, `Query.toPartial`); the rest of their body is a
function `Ext.viaGraph` of the definition and of the graph object they got.
NFAs (`_get_lambda_closures`, Model/NFACache.lean): `nstep` threads the memo through every reader;
`C20_nfa_step`, `C20_nfa_history`, `C20_nfa_fresh` are the same three statements for NFA objects.
Queries that never touch the caches (`==`, `<=`, `issubset`, `isdisjoint`, `complement`, …) are the
opaque constructor `Query.other`: for them the statement is about the model's claim that they
do not read or write the caches, which the correspondence run checks on the real object.
-/
import AutomataVerif.Proofs.Cache
import AutomataVerif.Proofs.CacheGen
import AutomataVerif.Proofs.NFACache

namespace AV.Props.C20
open AV AV.DFA AV.DFA.CacheGen

variable {σ α : Type} [DecidableEq σ] [DecidableEq α]

/-- The invariant holds for a freshly constructed object. -/
theorem C20_inv_init (d : DFA σ α) (key : α → Int) : d.CacheInv key (Inst.fresh : Inst σ α) :=
  cacheInv_fresh d key

/-- Every public call keeps the invariant and answers exactly like the stateless reference
(same answer, same generator positions). -/
theorem C20_step (d : DFA σ α) (key : α → Int) (ext : Ext σ) (s : Inst σ α)
    (h : d.CacheInv key s) (q : Query α) :
    d.CacheInv key (d.step key ext s q).1 ∧
      (d.step key ext s q).2 = (d.stepPure key ext s.gens q).2 ∧
      (d.step key ext s q).1.gens = (d.stepPure key ext s.gens q).1 := by
  have := step_sim ext h q
  exact ⟨this.1, by rw [this.2], by rw [this.2]⟩

/-- The invariant survives every finite history. -/
theorem C20_inv_history (d : DFA σ α) (key : α → Int) (ext : Ext σ) (qs : List (Query α)) :
    ∀ (s : Inst σ α), d.CacheInv key s → d.CacheInv key (d.afterHistory key ext s qs) := by
  induction qs with
  | nil => intro s h; exact h
  | cons q qs ih => intro s h; exact ih _ (step_sim ext h q).1

theorem gens_afterHistory_fresh (d : DFA σ α) (key : α → Int) (ext : Ext σ)
    (qs : List (Query α)) (s : Inst σ α) (h : d.CacheInv key s) :
    d.runHistory key ext s qs = d.runPure key ext s.gens qs := by
  induction qs generalizing s with
  | nil => rfl
  | cons q qs ih =>
    have hs := step_sim ext h q
    simp only [runHistory, runPure]
    rw [hs.2]
    simp only
    rw [ih _ hs.1]

/-- **Refinement for every finite history**: whatever calls are made on one instance, in
whatever order — repeated queries, shorter lengths after longer ones and vice versa,
generators advanced between other calls or abandoned, `clear_cache` at any point — the list
of answers is the list of answers of the stateless reference, which recomputes everything
from the definition. -/
theorem C20_history (d : DFA σ α) (key : α → Int) (ext : Ext σ) (qs : List (Query α)) :
    d.runHistory key ext Inst.fresh qs = d.runPure key ext [] qs :=
  gens_afterHistory_fresh d key ext qs Inst.fresh (cacheInv_fresh d key)

/-- Queries whose answer is a plain value (everything except creating or advancing a
generator object, whose "answer" is a position in the instance's generator table). -/
def Plain : Query α → Prop
  | .wordsOpen _ => False
  | .iterOpen => False
  | .next _ _ => False
  | .succOpen _ _ _ => False
  | _ => True

/-- The stateless answer of a plain query does not depend on the generator table. -/
theorem stepPure_plain (d : DFA σ α) (key : α → Int) (ext : Ext σ) (g₁ g₂ : List (Gen σ α))
    (q : Query α) (hq : Plain q) :
    (d.stepPure key ext g₁ q).2 = (d.stepPure key ext g₂ q).2 := by
  cases q with
  | wordsOpen k => exact absurd hq (by simp [Plain])
  | iterOpen => exact absurd hq (by simp [Plain])
  | next h f => exact absurd hq (by simp [Plain])
  | succOpen skey input o => exact absurd hq (by simp [Plain])
  | succs skey input o n fuel => cases n <;> rfl
  | minify tag => simp only [stepPure]; cases d.allowPartial <;> rfl
  | _ => rfl

/-- **Fresh = after any history**: the answer to a plain query after an arbitrary history on
the same instance equals its answer as the first call on a fresh object. -/
theorem C20_fresh (d : DFA σ α) (key : α → Int) (ext : Ext σ) (hist : List (Query α))
    (q : Query α) (hq : Plain q) :
    (d.step key ext (d.afterHistory key ext Inst.fresh hist) q).2 =
      (d.step key ext Inst.fresh q).2 := by
  have h1 := C20_inv_history d key ext hist Inst.fresh (cacheInv_fresh d key)
  rw [(C20_step d key ext _ h1 q).2.1, (C20_step d key ext _ (cacheInv_fresh d key) q).2.1]
  exact stepPure_plain d key ext _ _ q hq

/-- Counting after any history returns the count computed from the definition — in particular
a shorter length asked after a longer one, and vice versa. -/
theorem C20_count_any_order (d : DFA σ α) (key : α → Int) (ext : Ext σ) (hist : List (Query α))
    (k : Nat) :
    (d.step key ext (d.afterHistory key ext Inst.fresh hist) (.count k)).2 =
      .nat (d.countWordsOfLength k) := by
  have h1 := C20_inv_history d key ext hist Inst.fresh (cacheInv_fresh d key)
  rw [(C20_step d key ext _ h1 (.count k)).2.1]
  rfl

/-- The same for every cached method: after any history they return what the definition
dictates (the functions characterised in Props/C13.lean). -/
theorem C20_cached_methods (d : DFA σ α) (key : α → Int) (ext : Ext σ) (hist : List (Query α)) :
    let s := d.afterHistory key ext Inst.fresh hist
    (d.step key ext s .cardinality).2 = ansOfRes .nat d.cardinality ∧
    (d.step key ext s .len).2 = ansOfRes .nat d.len ∧
    (d.step key ext s .minLen).2 = ansOfRes .nat d.minimumWordLength ∧
    (d.step key ext s .maxLen).2 = ansOfRes .optNat d.maximumWordLength ∧
    (d.step key ext s .isEmpty).2 = .bool d.isEmpty ∧
    (d.step key ext s .isFinite).2 = ansOfRes .bool d.isFinite := by
  intro s
  have h1 := C20_inv_history d key ext hist Inst.fresh (cacheInv_fresh d key)
  refine ⟨?_, ?_, ?_, ?_, ?_, ?_⟩ <;> rw [(C20_step d key ext s h1 _).2.1] <;> rfl

/-! ### partially consumed `words_of_length` generators -/

/-- The answers to the `next(g_h)` calls inside a history, in order. -/
def nextAnswers (h : Nat) : List (Query α) → List (Ans α) → List (Ans α)
  | .next h' _ :: qs, a :: as => if h' = h then a :: nextAnswers h qs as else nextAnswers h qs as
  | _ :: qs, _ :: as => nextAnswers h qs as
  | _, _ => []

/-- What a generator walking the list `R` delivers to `n` successive `next` calls. -/
def wordsStream : List (List α) → Nat → List (Ans α)
  | _, 0 => []
  | [], n + 1 => .stop :: wordsStream [] n
  | w :: R, n + 1 => .word w :: wordsStream R n

/-- Number of `next(g_h)` calls in a history. -/
def countNext (h : Nat) : List (Query α) → Nat
  | [] => 0
  | .next h' _ :: qs => if h' = h then countNext h qs + 1 else countNext h qs
  | _ :: qs => countNext h qs

/-- What is left of a `words_of_length` generator. -/
def remaining (d : DFA σ α) (key : α → Int) : Gen σ α → Option (List (List α))
  | .wordsNew k => some (d.wordsOfLength key k)
  | .wordsRun rest => some rest
  | .done => some []
  | _ => none

theorem runPure_wordsGen (d : DFA σ α) (key : α → Int) (ext : Ext σ) (h : Nat) :
    ∀ (qs : List (Query α)) (gens : List (Gen σ α)) (g : Gen σ α) (R : List (List α)),
      gens[h]? = some g → remaining d key g = some R →
      nextAnswers h qs (d.runPure key ext gens qs) = wordsStream R (countNext h qs) := by
  intro qs
  induction qs with
  | nil => intro gens g R _ _; rfl
  | cons q qs ih =>
    intro gens g R hg hR
    have hlt : h < gens.length := by
      rcases Nat.lt_or_ge h gens.length with hl | hl
      · exact hl
      · rw [List.getElem?_eq_none hl] at hg; cases hg
    -- a query that leaves slot `h` alone
    have keep : ∀ gens', gens'[h]? = some g → ∀ a : Ans α,
        (∀ h' f, q ≠ .next h' f ∨ h' ≠ h) →
        d.stepPure key ext gens q = (gens', a) →
        nextAnswers h (q :: qs) (d.runPure key ext gens (q :: qs)) =
          wordsStream R (countNext h (q :: qs)) := by
      intro gens' hg' a hne hstep
      simp only [runPure, hstep]
      cases q with
      | next h' f =>
        have : h' ≠ h := by
          rcases hne h' f with hh | hh
          · exact absurd rfl hh
          · exact hh
        simp only [nextAnswers, countNext, this, if_false]
        exact ih gens' g R hg' hR
      | _ => simp only [nextAnswers, countNext]; exact ih gens' g R hg' hR
    cases q with
    | next h' f =>
      by_cases hh : h' = h
      · subst hh
        simp only [runPure, stepPure, hg, nextAnswers, countNext, if_true]
        cases g with
        | wordsNew k =>
          simp only [remaining, Option.some.injEq] at hR
          subst hR
          simp only [pGenNext]
          cases hw : d.wordsOfLength key k with
          | nil =>
            simp only [wordsStream]
            congr 1
            exact ih _ .done [] (by simp [hlt]) rfl
          | cons w rest =>
            simp only [wordsStream]
            congr 1
            exact ih _ (.wordsRun rest) rest (by simp [hlt]) rfl
        | wordsRun rest =>
          simp only [remaining, Option.some.injEq] at hR
          subst hR
          cases rest with
          | nil =>
            simp only [pGenNext, wordsStream]
            congr 1
            exact ih _ .done [] (by simp [hlt]) rfl
          | cons w rest =>
            simp only [pGenNext, wordsStream]
            congr 1
            exact ih _ (.wordsRun rest) rest (by simp [hlt]) rfl
        | done =>
          simp only [remaining, Option.some.injEq] at hR
          subst hR
          simp only [pGenNext, wordsStream]
          congr 1
          exact ih _ .done [] (by simp [hlt]) rfl
        | iterNew => simp [remaining] at hR
        | iterRun i l r => simp [remaining] at hR
        | succNew k i o => simp [remaining] at hR
        | succRun o c st => simp [remaining] at hR
        | raising e => simp [remaining] at hR
      · have hne : ∀ h'' f'', Query.next (α := α) h' f ≠ .next h'' f'' ∨ h'' ≠ h := by
          intro h'' f''
          by_cases e : h'' = h
          · subst e; exact Or.inl (by intro c; cases c; exact hh rfl)
          · exact Or.inr e
        cases hg' : gens[h']? with
        | none => exact keep gens hg .stop hne (by simp [stepPure, hg'])
        | some g' =>
          refine keep (gens.set h' (d.pGenNext key f g').1) ?_ (d.pGenNext key f g').2 hne
            (by simp [stepPure, hg'])
          rw [List.getElem?_set_ne hh]; exact hg
    | wordsOpen k =>
      exact keep (gens ++ [.wordsNew k]) (by rw [List.getElem?_append_left hlt]; exact hg)
        (.handle gens.length) (fun _ _ => Or.inl (by intro c; cases c)) rfl
    | iterOpen =>
      exact keep (gens ++ [.iterNew]) (by rw [List.getElem?_append_left hlt]; exact hg)
        (.handle gens.length) (fun _ _ => Or.inl (by intro c; cases c)) rfl
    | succOpen skey input o =>
      exact keep (gens ++ [.succNew skey input o]) (by rw [List.getElem?_append_left hlt]; exact hg)
        (.handle gens.length) (fun _ _ => Or.inl (by intro c; cases c)) rfl
    | succs skey input o n fuel =>
      cases n with
      | zero => exact keep gens hg _ (fun _ _ => Or.inl (by intro c; cases c)) rfl
      | succ n => exact keep gens hg _ (fun _ _ => Or.inl (by intro c; cases c)) rfl
    | minify tag =>
      cases hp : d.allowPartial with
      | true =>
        exact keep gens hg (.opaque (ext.viaGraph tag d.digraph))
          (fun _ _ => Or.inl (by intro c; cases c)) (by simp [stepPure, hp])
      | false =>
        exact keep gens hg (.opaque (ext.other tag))
          (fun _ _ => Or.inl (by intro c; cases c)) (by simp [stepPure, hp])
    | _ => exact keep gens hg _ (fun _ _ => Or.inl (by intro c; cases c)) rfl

/-- **Partially consumed generators**: let `g = words_of_length(k)` be created on an instance in
any coherent state (e.g. after any history).  Whatever other calls are interleaved afterwards
— other generators, counts of other lengths, `clear_cache` — the successive `next(g)` calls
deliver exactly the words of length `k` in order, each once, then `StopIteration`. -/
theorem C20_words_generator (d : DFA σ α) (key : α → Int) (ext : Ext σ) (s : Inst σ α)
    (hs : d.CacheInv key s) (k : Nat) (qs : List (Query α)) :
    let s' := (d.step key ext s (.wordsOpen k)).1
    nextAnswers s.gens.length qs (d.runHistory key ext s' qs) =
      wordsStream (d.wordsOfLength key k) (countNext s.gens.length qs) := by
  intro s'
  have hs' : d.CacheInv key s' := (step_sim ext hs (.wordsOpen k)).1
  rw [gens_afterHistory_fresh d key ext qs s' hs']
  exact runPure_wordsGen d key ext s.gens.length qs s'.gens (.wordsNew k) _
    (by simp [s', step]) rfl

/-! ### partially consumed generators of every kind: `words_of_length`, `iter`, `successors` -/

/-- The fuels of the `next(g_h)` calls inside a history, in order. -/
def nextFuels (h : Nat) : List (Query α) → List Nat
  | [] => []
  | .next h' f :: qs => if h' = h then f :: nextFuels h qs else nextFuels h qs
  | _ :: qs => nextFuels h qs

omit [DecidableEq α] in
theorem length_nextFuels (h : Nat) (qs : List (Query α)) : (nextFuels h qs).length = countNext h qs := by
  induction qs with
  | nil => rfl
  | cons q qs ih =>
    cases q with
    | next h' f =>
      by_cases hh : h' = h
      · simp [nextFuels, countNext, hh, ih]
      · simp [nextFuels, countNext, hh, ih]
    | _ => simpa [nextFuels, countNext] using ih

/-- **Non-interference** (stateless reference): whatever other queries are interleaved — other
generators of any kind, counts, `clear_cache`, … — the answers to the `next` calls of one
generator are those of the same generator advanced on its own (`soloAnswers`). -/
theorem runPure_gen_solo (d : DFA σ α) (key : α → Int) (ext : Ext σ) (h : Nat) :
    ∀ (qs : List (Query α)) (gens : List (Gen σ α)) (g : Gen σ α), gens[h]? = some g →
      nextAnswers h qs (d.runPure key ext gens qs) = soloAnswers d key g (nextFuels h qs) := by
  intro qs
  induction qs with
  | nil => intro gens g _; rfl
  | cons q qs ih =>
    intro gens g hg
    have hlt : h < gens.length := by
      rcases Nat.lt_or_ge h gens.length with hl | hl
      · exact hl
      · rw [List.getElem?_eq_none hl] at hg; cases hg
    -- a query that leaves slot `h` alone
    have keep : ∀ gens', gens'[h]? = some g → ∀ a : Ans α,
        (∀ h' f, q ≠ .next h' f ∨ h' ≠ h) →
        d.stepPure key ext gens q = (gens', a) →
        nextAnswers h (q :: qs) (d.runPure key ext gens (q :: qs)) =
          soloAnswers d key g (nextFuels h (q :: qs)) := by
      intro gens' hg' a hne hstep
      simp only [runPure, hstep]
      cases q with
      | next h' f =>
        have : h' ≠ h := by
          rcases hne h' f with hh | hh
          · exact absurd rfl hh
          · exact hh
        simp only [nextAnswers, nextFuels, this, if_false]
        exact ih gens' g hg'
      | _ => simp only [nextAnswers, nextFuels]; exact ih gens' g hg'
    cases q with
    | next h' f =>
      by_cases hh : h' = h
      · subst hh
        simp only [runPure, stepPure, hg, nextAnswers, nextFuels, if_true, soloAnswers]
        congr 1
        exact ih _ _ (by simp [hlt])
      · have hne : ∀ h'' f'', Query.next (α := α) h' f ≠ .next h'' f'' ∨ h'' ≠ h := by
          intro h'' f''
          by_cases e : h'' = h
          · subst e; exact Or.inl (by intro c; cases c; exact hh rfl)
          · exact Or.inr e
        cases hg' : gens[h']? with
        | none => exact keep gens hg .stop hne (by simp [stepPure, hg'])
        | some g' =>
          refine keep (gens.set h' (d.pGenNext key f g').1) ?_ (d.pGenNext key f g').2 hne
            (by simp [stepPure, hg'])
          rw [List.getElem?_set_ne hh]; exact hg
    | wordsOpen k =>
      exact keep (gens ++ [.wordsNew k]) (by rw [List.getElem?_append_left hlt]; exact hg)
        (.handle gens.length) (fun _ _ => Or.inl (by intro c; cases c)) rfl
    | iterOpen =>
      exact keep (gens ++ [.iterNew]) (by rw [List.getElem?_append_left hlt]; exact hg)
        (.handle gens.length) (fun _ _ => Or.inl (by intro c; cases c)) rfl
    | succOpen skey input o =>
      exact keep (gens ++ [.succNew skey input o]) (by rw [List.getElem?_append_left hlt]; exact hg)
        (.handle gens.length) (fun _ _ => Or.inl (by intro c; cases c)) rfl
    | succs skey input o n fuel =>
      cases n with
      | zero => exact keep gens hg _ (fun _ _ => Or.inl (by intro c; cases c)) rfl
      | succ n => exact keep gens hg _ (fun _ _ => Or.inl (by intro c; cases c)) rfl
    | minify tag =>
      cases hp : d.allowPartial with
      | true =>
        exact keep gens hg (.opaque (ext.viaGraph tag d.digraph))
          (fun _ _ => Or.inl (by intro c; cases c)) (by simp [stepPure, hp])
      | false =>
        exact keep gens hg (.opaque (ext.other tag))
          (fun _ _ => Or.inl (by intro c; cases c)) (by simp [stepPure, hp])
    | _ => exact keep gens hg _ (fun _ _ => Or.inl (by intro c; cases c)) rfl

/-- **Any live generator, any interleaving** (cached instance): let the generator `g` sit in
slot `h` of an instance in a coherent state.  Whatever calls follow on the instance, the answers
to the `next(g)` calls among them are the answers of `g` advanced on its own from the definition
— and hence (`solo_closed_form`), when none of them ran out of fuel, the stream of the atomic run
of what was left of `g`, for every sufficiently large fuel `F + K` of that run. -/
theorem C20_generator (d : DFA σ α) (key : α → Int) (ext : Ext σ) (s : Inst σ α)
    (hs : d.CacheInv key s) (h : Nat) (g : Gen σ α) (hg : s.gens[h]? = some g) (qs : List (Query α)) :
    nextAnswers h qs (d.runHistory key ext s qs) = soloAnswers d key g (nextFuels h qs) ∧
    (Ans.outOfFuel ∉ nextAnswers h qs (d.runHistory key ext s qs) →
      ∃ K, ∀ F, nextAnswers h qs (d.runHistory key ext s qs) =
        stream (resid d key (F + K) g) (countNext h qs)) := by
  have h1 : nextAnswers h qs (d.runHistory key ext s qs) = soloAnswers d key g (nextFuels h qs) := by
    rw [gens_afterHistory_fresh d key ext qs s hs]
    exact runPure_gen_solo d key ext h qs s.gens g hg
  refine ⟨h1, fun hno => ?_⟩
  rw [h1] at hno ⊢
  obtain ⟨K, hK⟩ := solo_closed_form d key (nextFuels h qs) g hno
  exact ⟨K, fun F => by rw [hK F, length_nextFuels]⟩

/-- **Partially consumed `successors` / `predecessors` generators**: let
`g = successors(input, key=skey, …)` be created on an instance in any coherent state (e.g. after
any history).  Whatever other calls are interleaved afterwards — counts, other generators,
`clear_cache` between two `next(g)`, … — the successive `next(g)` calls (none of which ran out of
fuel) deliver exactly the stream of the atomic run `d.successors skey input o` (the function
characterised by C14): its words in order, each once, then `StopIteration` (or its exception,
once).  The cached calls (`isfinite`, `_get_digraph`) happen at the first `next(g)` only. -/
theorem C20_succ_generator (d : DFA σ α) (key : α → Int) (ext : Ext σ) (s : Inst σ α)
    (hs : d.CacheInv key s) (skey : α → Int) (input : Option (List α)) (o : SuccOpts)
    (qs : List (Query α)) :
    let s' := (d.step key ext s (.succOpen skey input o)).1
    let answers := nextAnswers s.gens.length qs (d.runHistory key ext s' qs)
    Ans.outOfFuel ∉ answers →
      (∃ K, ∀ F, answers = stream (d.successors skey input o (F + K)) (countNext s.gens.length qs)) ∧
      (∀ F0, (d.successors skey input o F0).2 ≠ .outOfFuel →
        answers = stream (d.successors skey input o F0) (countNext s.gens.length qs)) := by
  intro s' answers hno
  have hs' : d.CacheInv key s' := (step_sim ext hs (.succOpen skey input o)).1
  have hg : s'.gens[s.gens.length]? = some (.succNew skey input o) := by simp [s', step]
  obtain ⟨h1, h2⟩ := C20_generator d key ext s' hs' s.gens.length _ hg qs
  refine ⟨h2 hno, fun F0 hend => ?_⟩
  show nextAnswers s.gens.length qs (d.runHistory key ext s' qs) = _
  rw [h1, ← length_nextFuels]
  exact solo_total d key _ _ (by rw [← h1]; exact hno) F0 hend

/-- **Partially consumed `iter(dfa)` generators** (closed form per `next()`): for `g = iter(dfa)`
created in any coherent state and any interleaving of other calls, the successive `next(g)` calls
(none of which ran out of fuel) deliver the stream of the batch run `iterRun` (characterised by
C13: all words by length, then by `key`): after `m` calls the first `m` words of
`(iterRun key n).1` for every sufficiently large `n`, and once that list is used up `StopIteration`
iff the batch run is exhausted. -/
theorem C20_iter_generator (d : DFA σ α) (key : α → Int) (ext : Ext σ) (s : Inst σ α)
    (hs : d.CacheInv key s) (qs : List (Query α)) :
    let s' := (d.step key ext s .iterOpen).1
    let answers := nextAnswers s.gens.length qs (d.runHistory key ext s' qs)
    Ans.outOfFuel ∉ answers →
      (∃ K, ∀ n, answers = stream (ofIter (d.iterRun key (n + K))) (countNext s.gens.length qs)) ∧
      (∀ n0, (ofIter (d.iterRun key n0)).2 ≠ .outOfFuel →
        answers = stream (ofIter (d.iterRun key n0)) (countNext s.gens.length qs)) := by
  intro s' answers hno
  have hs' : d.CacheInv key s' := (step_sim ext hs .iterOpen).1
  have hg : s'.gens[s.gens.length]? = some .iterNew := by simp [s', step]
  obtain ⟨h1, h2⟩ := C20_generator d key ext s' hs' s.gens.length _ hg qs
  refine ⟨h2 hno, fun n0 hend => ?_⟩
  show nextAnswers s.gens.length qs (d.runHistory key ext s' qs) = _
  rw [h1, ← length_nextFuels]
  exact solo_total d key _ _ (by rw [← h1]; exact hno) n0 hend

/-! ## the NFA half: the `_get_lambda_closures` memo (Model/NFACache.lean) -/

section nfa
open AV.NFA.CacheProofs

/-- Every public call on an NFA instance keeps the memo coherent (`NMemoOK`: the closure table,
once cached, is the table computed from the definition) and answers exactly like the stateless
reference, which computes every λ-closure from the definition (Model/NFA.lean). -/
theorem C20_nfa_step (n : NFA σ α) (ext : NFA.NExt σ) (s : NFA.NInst σ) (h : NMemoOK n s)
    (q : NFA.NQuery α) :
    NMemoOK n (n.nstep ext s q).1 ∧ (n.nstep ext s q).2 = n.nstepPure ext q :=
  nstep_sim ext h q

theorem nfa_history_from (n : NFA σ α) (ext : NFA.NExt σ) (qs : List (NFA.NQuery α)) :
    ∀ (s : NFA.NInst σ), NMemoOK n s →
      n.nrunHistory ext s qs = qs.map (n.nstepPure ext) ∧ NMemoOK n (n.nafterHistory ext s qs) := by
  induction qs with
  | nil => intro s h; exact ⟨rfl, h⟩
  | cons q qs ih =>
    intro s h
    have h1 := nstep_sim ext h q
    have h2 := ih _ h1.1
    exact ⟨by simp only [NFA.nrunHistory, List.map_cons, h1.2, h2.1], h2.2⟩

/-- **NFA, every finite history**: whatever calls are made on one NFA object, in whatever order
(acceptance, stepwise reading, `==`, `DFA.from_nfa`, `eliminate_lambda`, …), each answer is the
answer of the stateless reference — it does not depend on what was asked before. -/
theorem C20_nfa_history (n : NFA σ α) (ext : NFA.NExt σ) (qs : List (NFA.NQuery α)) :
    n.nrunHistory ext NFA.NInst.fresh qs = qs.map (n.nstepPure ext) :=
  (nfa_history_from n ext qs _ (nmemoOK_fresh n)).1

/-- **NFA, fresh = after any history**. -/
theorem C20_nfa_fresh (n : NFA σ α) (ext : NFA.NExt σ) (hist : List (NFA.NQuery α)) (q : NFA.NQuery α) :
    (n.nstep ext (n.nafterHistory ext NFA.NInst.fresh hist) q).2 = (n.nstep ext NFA.NInst.fresh q).2 := by
  rw [(nstep_sim ext (nfa_history_from n ext hist _ (nmemoOK_fresh n)).2 q).2,
    (nstep_sim ext (nmemoOK_fresh n) q).2]

/-- `0 -λ→ 1 -a→ 1`, `1` final; state `2` only occurs as a target (reading `b` from it is fine,
reaching it asks for `lambda_closures[2]`: `KeyError` — kept explicit). -/
def exN : NFA Nat Nat :=
  { states := [0, 1], syms := [0, 1], trans := [(0, [(none, [1])]), (1, [(some 0, [1]), (some 1, [2])])],
    init := 0, finals := [1] }

example :
    exN.nrunHistory { other := id, viaTable := fun t tbl => t + tbl.length } NFA.NInst.fresh
      [.accepts [0, 0], .readStepwise [0], .viaClosures 5, .accepts [1], .readStepwise []] =
      [.bool true, .configs [[0, 1], [1]] none, .opaque 7, .exn (.py .keyError),
       .configs [[0, 1]] none] := by decide

end nfa

/-! ### non-vacuity: a concrete DFA and a concrete history -/

/-- `a*b` style DFA over symbols 0,1 with states 0,1,2 (2 is a trap). -/
def exD : DFA Nat Int :=
  { states := [0, 1, 2], syms := [0, 1],
    trans := [(0, [(0, 0), (1, 1)]), (1, [(0, 2), (1, 1)]), (2, [(0, 2), (1, 2)])],
    init := 0, finals := [1], allowPartial := false }

def exHist : List (Query Int) :=
  [.count 3, .wordsOpen 2, .next 0 5, .count 1, .clearCache, .next 0 5, .iterOpen, .next 1 5,
   .count 3, .isFinite, .next 0 5, .next 0 5, .minLen, .randomWord 2 [1, 0]]

def exExt : Ext Nat := { other := id, viaGraph := fun t g => t + g.edges.length }

/-- A `successors(None, max_length=2)` generator advanced across `clear_cache`, another
generator, `to_partial()` and `minify()`. -/
def exHist2 : List (Query Int) :=
  [.succOpen id none { maxLen := some 2 }, .next 0 50, .clearCache, .wordsOpen 1, .next 0 50,
   .toPartial 0, .next 1 5, .next 0 50, .minify 7, .next 0 50, .next 0 50]

example : exD.validate.isOk = true := by decide

/-- The history is answered as the language dictates: 3 words of length 3 (`001, 011, 111`),
the generator for length 2 delivers `01, 11` across a `clear_cache`, then stops. -/
example :
    exD.runHistory id exExt Inst.fresh exHist =
      [.nat 3, .handle 0, .word [0, 1], .nat 1, .unit, .word [1, 1], .handle 1, .word [1],
       .nat 3, .bool false, .stop, .stop, .nat 1, .word [1, 1]] := by decide

/-- `successors` of `0*1⁺` up to length 2 = `01, 1, 11`, delivered one `next()` at a time across
the other calls, then `StopIteration`; `exD` is complete, so `minify` does not read the digraph. -/
example :
    exD.runHistory id exExt Inst.fresh exHist2 =
      [.handle 0, .word [0, 1], .unit, .handle 1, .word [1], .opaque 6, .word [1], .word [1, 1],
       .opaque 7, .stop, .stop] := by decide
example : exD.successors id none { maxLen := some 2 } 100 = ([[0, 1], [1], [1, 1]], .finished) := by
  decide

end AV.Props.C20
