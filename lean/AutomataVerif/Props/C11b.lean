/-
Props/C11b.lean — C11, the comparison helpers, with the library's OWN `NFA.__eq__` and
`NFA.union`.

`Props/C11.lean` proves `C11_comparisons` with the behaviour of `NFA.__eq__` / `NFA.union` as
hypotheses (`EqContract`, `UnionContract`).  Those contracts are theorems of C09 (`C09_eq_iff`,
model `NFA.eqOp`, Model/NFAEq.lean) and C08 (`C08_union`, model `NFA.union`,
Model/NFAOps.lean).  Here the comparison helpers' model (`Rx.isequal / issubset / issuperset`,
Model/RxCompile.lean, parametric in the two operations) is instantiated with those models and
the hypotheses disappear.

The contracts as phrased in `Props/C11.lean` quantify over ALL valid NFAs; C08's theorems need
the stronger `NFA.Valid` (validate ok + dict-shaped tables).  So the contracts are not
instantiated literally; instead the three calls the helpers make are followed on the compiled
NFAs, which ARE `Valid` (`compile_Valid`: the builder invariant gives unique keys at both
levels), and `union`'s result is `Valid` again by C08.

Kept in its own module because it imports the property files of C08 and C09.
-/
import AutomataVerif.Props.C11
import AutomataVerif.Model.RxCompare
import AutomataVerif.Props.C09
import AutomataVerif.Props.C08

namespace AV.Props.C11
open AV AV.Rx AV.NFA

/-! ## the compiled NFAs are `Valid` in the sense of C08 -/

/-- A builder satisfying the pipeline invariant has a dict-shaped table, so once the constructor's
`validate()` passes the NFA handed to it is `Valid` in C08's sense. -/
theorem toNFA_Valid {α : Type} [DecidableEq α] {b : Builder α} {lo hi : Nat} (i : b.Inv lo hi)
    (r : RowsNodup b.trans) {syms : List α} (hv : (b.toNFA syms).validate = .ok ()) :
    (b.toNFA syms).Valid :=
  ⟨(NFA.validate_eq_ok _).mp hv, ⟨i.keysNodup, r⟩⟩

/-- `C10_compile` with the representation invariant added: `NFA.from_regex(s, input_symbols=Σ)`
returns an NFA that is `Valid` (validate ok, tables are dicts), has alphabet `Σ` and accepts
`den Σ e`. -/
theorem compile_Valid {s : List Char} {ts : List (Tok Char)} {e : Rx Char} (hr : Renders ts s)
    (hg : G .E e ts) (syms : List Char) (hres : ∀ c ∈ syms, isReserved c = false)
    (hlits : ∀ a ∈ e.lits, a ∈ syms) :
    ∃ N, fromRegex s (some syms) = .ok N ∧ N.Valid ∧ N.syms = syms ∧
      ∀ w, N.accepts w = true ↔ w ∈ den syms e := by
  obtain ⟨N, hN, hv, hacc⟩ := C10.C10_compile hr hg syms hres hlits
  obtain ⟨b, c', hb, _, hf⟩ :=
    fromRegex_of_grammar (lex_renders hr) hg (validate_of_grammar hg) hres hlits
  obtain ⟨b', c'', hb', _, i, r, _, _⟩ := build_spec syms e 0
  rw [hb] at hb'
  cases hb'
  rw [hf] at hN
  cases hN
  exact ⟨_, hf, toNFA_Valid i r hv, rfl, hacc⟩

/-! ## the library's operations as the parameters of the helpers' model -/

/-! `eqLib p₁ p₂` (= `NFA.eqOp`, the model of `nfa_a == nfa_b`, C09) and `uniLib` (= `NFA.union`,
C08) are defined in the core-only `Model/RxCompare.lean`, so that the driver executable's
`RX_CMP` command runs exactly the terms `isequal (eqLib …)`, `issubset (eqLib …) uniLib`,
`issuperset (eqLib …) uniLib` of `C11_comparisons_lib` below (with `drvPick`, which is
`C09.exPick`). -/

example : drvPick = C09.exPick := rfl

theorem sameSyms_self (xs : List Char) : sameSyms xs xs = true := by
  simp [sameSyms]

theorem sameSyms_sunion_self (xs : List Char) : sameSyms (sunion xs xs) xs = true := by
  simp [sameSyms]

/-- Equal acceptance functions ↔ equal languages, for NFAs whose acceptance is characterised. -/
theorem sameAcc (A B : NFA Nat Char) (LA LB : Language Char)
    (hA : ∀ w, A.accepts w = true ↔ w ∈ LA) (hB : ∀ w, B.accepts w = true ↔ w ∈ LB) :
    (∀ w, A.accepts w = B.accepts w) ↔ LA = LB := by
  constructor
  · intro h
    ext w
    rw [← hA, ← hB, h]
  · intro h w
    have : (A.accepts w = true) ↔ (B.accepts w = true) := by rw [hA, hB, h]
    cases hx : A.accepts w <;> cases hy : B.accepts w <;> simp_all

/-- **The calls the comparison helpers make all succeed and are exact** (library models of
`from_regex`, `union`, `==`; no hypotheses about them).  For two strings spelling expressions of
the grammar over a common explicit alphabet `Σ` (no reserved character, containing their
literals) and any union–find representative choices:
`from_regex` returns `N1`, `N2`; `N1.union(N2)` returns an NFA `U` (no `KeyError`, constructor
validation passes); each of `N1 == N2`, `U == N2`, `U == N1` evaluates to a Boolean (no
`NotImplemented` fall-through, no fuel exhaustion), which is `True` exactly when
`den Σ e1 = den Σ e2`, `den Σ e1 ≤ den Σ e2`, `den Σ e2 ≤ den Σ e1` respectively. -/
theorem C11_comparisons_calls (p₁ p₂ : C09.Pick Nat Nat)
    {s1 s2 : List Char} {ts1 ts2 : List (Tok Char)} {e1 e2 : Rx Char}
    (hr1 : Renders ts1 s1) (hg1 : G .E e1 ts1) (hr2 : Renders ts2 s2) (hg2 : G .E e2 ts2)
    (syms : List Char) (hres : ∀ c ∈ syms, isReserved c = false)
    (hl1 : ∀ a ∈ e1.lits, a ∈ syms) (hl2 : ∀ a ∈ e2.lits, a ∈ syms) :
    ∃ N1 N2 U beq bsub bsup,
      fromRegex s1 (some syms) = .ok N1 ∧ fromRegex s2 (some syms) = .ok N2 ∧
      NFA.union N1 N2 = .ok U ∧
      eqOp p₁ p₂ N1 N2 = some beq ∧ eqOp p₁ p₂ U N2 = some bsub ∧ eqOp p₁ p₂ U N1 = some bsup ∧
      (beq = true ↔ den syms e1 = den syms e2) ∧
      (bsub = true ↔ den syms e1 ≤ den syms e2) ∧
      (bsup = true ↔ den syms e2 ≤ den syms e1) := by
  obtain ⟨N1, h1, V1, sy1, a1⟩ := compile_Valid hr1 hg1 syms hres hl1
  obtain ⟨N2, h2, V2, sy2, a2⟩ := compile_Valid hr2 hg2 syms hres hl2
  have v1 := V1.validate
  have v2 := V2.validate
  -- C08: the union exists, is valid and accepts the union
  obtain ⟨U, hU, VU, LU⟩ := C08.C08_union N1 N2 V1 V2
  have vu := VU.validate
  have syu : U.syms = sunion syms syms := by
    rw [union_eq N1 N2 V1.wf V2.wf, create_eq_ok _ (unionRaw_valid N1 N2 V1 V2).wf] at hU
    cases hU
    show sunion N1.syms N2.syms = _
    rw [sy1, sy2]
  have au : ∀ w, U.accepts w = true ↔ w ∈ den syms e1 + den syms e2 := by
    intro w
    rw [← C08.mem_Lang U vu w, LU, Language.mem_add, C08.mem_Lang N1 v1 w, C08.mem_Lang N2 v2 w,
      a1, a2]
    exact (Language.mem_add _ _ _).symm
  -- C09: the three `==` evaluate and decide language equality
  have s12 : sameSyms N1.syms N2.syms = true := by rw [sy1, sy2]; exact sameSyms_self syms
  have su2 : sameSyms U.syms N2.syms = true := by rw [syu, sy2]; exact sameSyms_sunion_self syms
  have su1 : sameSyms U.syms N1.syms = true := by rw [syu, sy1]; exact sameSyms_sunion_self syms
  obtain ⟨beq, heq, _, ieq⟩ := C09.C09_eq_iff p₁ p₂ N1 N2 v1 v2 s12
  obtain ⟨bsub, hsub, _, isub⟩ := C09.C09_eq_iff p₁ p₂ U N2 vu v2 su2
  obtain ⟨bsup, hsup, _, isup⟩ := C09.C09_eq_iff p₁ p₂ U N1 vu v1 su1
  refine ⟨N1, N2, U, beq, bsub, bsup, h1, h2, hU, heq, hsub, hsup, ?_, ?_, ?_⟩
  · rw [ieq]
    exact sameAcc N1 N2 _ _ a1 a2
  · rw [isub, sameAcc U N2 _ _ au a2]
    exact sup_eq_right
  · rw [isup, sameAcc U N1 _ _ au a1]
    exact sup_eq_left

/-- **`isequal`, `issubset`, `issuperset` are exact — with the library's own `==` and `union`.**
The conclusion of `C11_comparisons`, for the helpers' model instantiated with the models of
`NFA.__eq__` (C09) and `NFA.union` (C08); the contract hypotheses are gone.  Holds for every
choice of union–find representatives. -/
theorem C11_comparisons_lib (p₁ p₂ : C09.Pick Nat Nat)
    {s1 s2 : List Char} {ts1 ts2 : List (Tok Char)} {e1 e2 : Rx Char}
    (hr1 : Renders ts1 s1) (hg1 : G .E e1 ts1) (hr2 : Renders ts2 s2) (hg2 : G .E e2 ts2)
    (syms : List Char) (hres : ∀ c ∈ syms, isReserved c = false)
    (hl1 : ∀ a ∈ e1.lits, a ∈ syms) (hl2 : ∀ a ∈ e2.lits, a ∈ syms) :
    (∃ b, isequal (eqLib p₁ p₂) s1 s2 (some syms) = .ok b ∧
      (b = true ↔ den syms e1 = den syms e2)) ∧
    (∃ b, issubset (eqLib p₁ p₂) uniLib s1 s2 (some syms) = .ok b ∧
      (b = true ↔ den syms e1 ≤ den syms e2)) ∧
    (∃ b, issuperset (eqLib p₁ p₂) uniLib s1 s2 (some syms) = .ok b ∧
      (b = true ↔ den syms e2 ≤ den syms e1)) := by
  obtain ⟨N1, N2, U, beq, bsub, bsup, h1, h2, hU, heq, hsub, hsup, ieq, isub, isup⟩ :=
    C11_comparisons_calls p₁ p₂ hr1 hg1 hr2 hg2 syms hres hl1 hl2
  have hu : uniLib N1 N2 = U := by simp [uniLib, hU]
  refine ⟨⟨beq, ?_, ieq⟩, ⟨bsub, ?_, isub⟩, ⟨bsup, ?_, isup⟩⟩
  · unfold isequal; simp only [h1, h2, eqLib, heq, Option.getD_some]
  · unfold issubset; simp only [h1, h2, hu, eqLib, hsub, Option.getD_some]
  · unfold issuperset; simp only [h1, h2, hu, eqLib, hsup, Option.getD_some]

/-! ## non-vacuity -/

/-- The instantiated model runs: `a|b` vs `b|a|b` are equal, `a` is a proper subset of `a|b`
(so `issubset` is true, `issuperset` and `isequal` false). -/
example :
    (isequal (eqLib C09.exPick C09.exPick) "a|b".toList "b|a|b".toList (some ['a', 'b']),
     isequal (eqLib C09.exPick C09.exPick) "a".toList "a|b".toList (some ['a', 'b']),
     issubset (eqLib C09.exPick C09.exPick) uniLib "a".toList "a|b".toList (some ['a', 'b']),
     issuperset (eqLib C09.exPick C09.exPick) uniLib "a".toList "a|b".toList (some ['a', 'b']))
    = (.ok true, .ok false, .ok true, .ok false) := by decide

end AV.Props.C11
