/-
Props/C12.lean — C12: state elimination yields a regular expression for the same language.
(theorems are added below as they are proved)
-/
import AutomataVerif.Model.GNFA

namespace AV.Props.C12
end AV.Props.C12
