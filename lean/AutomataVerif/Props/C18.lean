/- Props/C18.lean — placeholder, theorems follow. -/
import AutomataVerif.Model.Instance
namespace AV.Props.C18
end AV.Props.C18
