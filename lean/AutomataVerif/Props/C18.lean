/-
Props/C18.lean — C18: automata are immutable values: no call changes an operand; copies
round-trip.

English statement (properties.jsonl): once constructed, an automaton's definition cannot be
altered: setting or deleting an attribute raises, and in the default configuration all nested
sets, maps and lists are stored in immutable form, so later mutation of the objects passed to
the constructor does not affect it.  No library operation, query or conversion changes the
definition or the language of any automaton passed to it (even when the mutable-automata
option is switched on), and copy() and a pickle round trip give an automaton of the same class
with an identical definition.

What is proved here (about the model, for all inputs):
  * `freeze_value` (automata/base/utils.py, as of /repo fixes 3900daf: tuples are entered, and
    0014d04 / finding F37: set-like and mapping-like objects that are not builtin sets / dicts —
    dict views, mappingproxy, UserDict, ChainMap, user `collections.abc` containers — are
    converted too, and ab97679: so are sequence-like objects that are not lists / tuples —
    UserList, deque) on a model of Python values `PyVal`: the result contains no mutable container
    and no live view of one (`C18_freeze_immutable`; `C18_freeze_lookalike_regression` states
    what the function before 0014d04 violated) for every value
    Python can build (`supported`: dictionary keys and set / frozenset elements are hashable —
    anything else raises `TypeError: unhashable type` before `freeze_value` is reached), has the
    same abstract value, and freezing is idempotent — hence what `Automaton.__init__` stores in
    the default configuration is immutable and equal in value to the arguments;
  * `__setattr__` / `__delattr__` always raise `AttributeError`;
  * for each of the eight classes the public `__slots__` are exactly the `__init__` parameters
    and all of them are handed to `Automaton.__init__` (evaluated on the tables regenerated
    from the source at every build), and therefore `copy()` and the pickle round trip
    (`__getstate__` / `__setstate__`) return an object of the same class with identical
    `input_parameters`, under both settings of `allow_mutable_automata` (and with the same
    abstract value when the setting changes in between).

What is NOT provable in a pure model and is MONITORED instead (level "other", harness/ops/C18.py
part B): object identity and aliasing — "no call changes an operand" is trivially true of pure
functions.  The harness passes containers that log every write under
`allow_mutable_automata=True`, runs histories of all public operations on all eight classes and
compares deep snapshots before / after every call.
-/
import AutomataVerif.Proofs.Instance

namespace AV.Props.C18
open AV AV.VA AV.VA.PyVal AV.VA.Obj

/-! ## `freeze_value` -/

/-- After freezing no `dict`, `set` or `list` object — and no set-like / mapping-like object that
is not a builtin container (`setlike`: dict views, user `collections.abc.Set` classes; `maplike`:
mappingproxy, UserDict, ChainMap, user `Mapping` classes; `seqlike`: UserList, deque) — is left anywhere inside the value (keys,
tuple members and frozenset members included).  `supported` is no restriction on real inputs:
it says that every dictionary key and every set / frozenset element is hashable (on the model:
`isFrozen` — an unhashable `dict` / `set` / `list` nowhere inside it), which Python enforces when
the dict / set / frozenset is *built* (`{[1]: 2}`, `{[1]}`, `frozenset([[1]])`, `{(1, [2]): 3}`
raise `TypeError: unhashable type`).  Lists, tuples, dict / frozendict values may hold anything
and nest arbitrarily — in particular a list inside a tuple (the MNTM result
`('q1', [['1', 'R']])`, the DPDA result `('q1', ['1', '0'])`) is covered since fix 3900daf.
What the model does not see: a user-defined hashable object with mutable content that is neither
a `collections.abc.Set`, a `collections.abc.Mapping` nor a `collections.abc.Sequence` (`other` stands
for immutable atoms only). -/
theorem C18_freeze_immutable (v : PyVal) (h : v.supported = true) : (freeze v).isFrozen = true :=
  isFrozen_freeze v h

/-- Freezing does not change what the value says: the abstract value (`norm`: every container
kind replaced by its immutable counterpart, everywhere) is the same before and after. -/
theorem C18_freeze_value (v : PyVal) : (freeze v).norm = v.norm := norm_freeze v

/-- Freezing twice is freezing once (what `copy()` relies on in the default configuration). -/
theorem C18_freeze_idem (v : PyVal) : freeze (freeze v) = freeze v := freeze_idem v

/-- An already immutable value is returned unchanged. -/
theorem C18_freeze_fixes_immutable (v : PyVal) (h : v.isFrozen = true) : freeze v = v :=
  freeze_of_isFrozen v h

/-- Tuples are entered (fix 3900daf): `freeze (x₁, …, xₙ) = (freeze x₁, …, freeze xₙ)` — the
same as for a list. -/
theorem C18_freeze_enters_tuples (xs : List PyVal) :
    freeze (.tuple xs) = .tuple (xs.map freeze) ∧ freeze (.tuple xs) = freeze (.list xs) := by
  simp only [freeze, freezeList_eq_map, and_self]

/-- … so a list placed inside a tuple is frozen: `freeze_value((1, [2]))` is `(1, (2,))`, and
the MNTM result `('q1', [['1', 'R']])` becomes `('q1', (('1', 'R'),))`.  (Before fix 3900daf
the code returned tuples as they were and `C18_freeze_does_not_enter_tuples` stated the
opposite here.) -/
theorem C18_freeze_tuple_holding_list :
    freeze (.tuple [.int 1, .list [.int 2]]) = .tuple [.int 1, .tuple [.int 2]] ∧
    freeze (.tuple [.str "q1", .list [.list [.str "1", .str "R"]]]) =
      .tuple [.str "q1", .tuple [.tuple [.str "1", .str "R"]]] ∧
    (freeze (.tuple [.str "q1", .list [.list [.str "1", .str "R"]]])).isFrozen = true :=
  ⟨rfl, rfl, rfl⟩

/-- Frozensets are still returned without looking inside, and dictionary keys are never touched.
That is harmless exactly because of hashability: a frozenset whose elements are hashable
(`isFrozenList`) is already immutable, and the same holds for keys. -/
theorem C18_freeze_frozenset (xs : List PyVal) :
    freeze (.frozenset xs) = .frozenset xs ∧
    (isFrozenList xs = true → (freeze (.frozenset xs)).isFrozen = true) :=
  ⟨rfl, fun h => by simp only [freeze, isFrozen, h]⟩

/-- `supported` holds of every immutable (= hashable) value, and it is exactly "keys and set /
frozenset elements hashable": the only way to fail it is an unhashable key or element. -/
theorem C18_supported_of_immutable (v : PyVal) (h : v.isFrozen = true) : v.supported = true :=
  supported_of_isFrozen v h

/-- The excluded values are the ones Python refuses to build: a list as a set element / as a
dictionary key, a tuple holding a list as a key. -/
example : (PyVal.set [.list [.int 1]]).supported = false ∧
    (PyVal.dict [(.list [.int 1], .int 2)]).supported = false ∧
    (PyVal.frozenset [.list [.int 1]]).supported = false ∧
    (PyVal.dict [(.tuple [.int 1, .list [.int 2]], .int 3)]).supported = false := ⟨rfl, rfl, rfl, rfl⟩

/-- The regenerated shape of `freeze_value`: which `isinstance` branches exist, in which order,
and that the dict / set / list-or-tuple / Mapping / non-frozenset Set / non-bytes Sequence branches recurse (the model
`PyVal.freeze` mirrors exactly this; the abstract base classes are named by what the module
imports them from, not by their local alias). -/
theorem C18_freeze_source_shape :
    Gen.Validate.freezeBranches =
      [("str,int", "same"), ("dict", "frozendict+rec"), ("set", "frozenset+rec"),
       ("list,tuple", "tuple+rec"), ("collections.abc.Mapping", "frozendict+rec"),
       ("collections.abc.Set&!frozenset", "frozenset+rec"),
       ("collections.abc.Sequence&!bytes", "tuple+rec")] := by
  decide

/-- Non-vacuity: an MNTM-style transition table written with nested lists
(`{("1",): [["q0", [["1", "R"]]]]}`) is supported and freezes to nested tuples inside a
frozendict. -/
example :
    let v : PyVal := .dict [(.tuple [.str "1"], .list [.list [.str "q0", .list [.list [.str "1", .str "R"]]]])]
    v.supported = true ∧
    freeze v = .frozendict [(.tuple [.str "1"],
      .tuple [.tuple [.str "q0", .tuple [.tuple [.str "1", .str "R"]]]])] ∧
    (freeze v).isFrozen = true := ⟨rfl, rfl, rfl⟩

/-- Non-vacuity: the reviewer's MNTM table `{'q0': {('1',): [('q1', [['1', 'R']])]}}` — a tuple
holding a list — is supported and freezes to an immutable value. -/
example :
    let v : PyVal := .dict [(.str "q0", .dict [(.tuple [.str "1"],
      .list [.tuple [.str "q1", .list [.list [.str "1", .str "R"]]]])])]
    v.supported = true ∧
    freeze v = .frozendict [(.str "q0", .frozendict [(.tuple [.str "1"],
      .tuple [.tuple [.str "q1", .tuple [.tuple [.str "1", .str "R"]]]])])] ∧
    (freeze v).isFrozen = true := ⟨rfl, rfl, rfl⟩

/-- Non-vacuity: an NFA transition table `{"q": {"": {"p"}, "a": set()}}`. -/
example :
    freeze (.dict [(.str "q", .dict [(.str "", .set [.str "p"]), (.str "a", .set [])])]) =
      .frozendict [(.str "q", .frozendict [(.str "", .frozenset [.str "p"]), (.str "a", .frozenset [])])] :=
  rfl

/-! ### look-alike containers (finding F37, /repo fix 0014d04)

`freezeOld` is `freeze_value` as it was before the repair: the same function without the last two
`isinstance` tests (three as of fix ab97679, which added the `Sequence` test the same way), so a
set-like / mapping-like / sequence-like object that is not a builtin container falls through to
`return value` — stored BY REFERENCE — at the top level and at every nesting level
the recursion reaches. -/

mutual
/-- `freeze_value` before fix 0014d04. -/
def freezeOld : PyVal → PyVal
  | .str s => .str s
  | .int i => .int i
  | .dict kvs => .frozendict (freezeOldKVs kvs)
  | .frozendict kvs => .frozendict (freezeOldKVs kvs)
  | .set xs => .frozenset (freezeOldList xs)
  | .list xs => .tuple (freezeOldList xs)
  | .tuple xs => .tuple (freezeOldList xs)
  | .frozenset xs => .frozenset xs
  | .other t => .other t
  | .setlike xs => .setlike xs                          -- `return value`
  | .maplike kvs => .maplike kvs                        -- `return value`
  | .seqlike xs => .seqlike xs                          -- `return value` (until fix ab97679)
def freezeOldList : List PyVal → List PyVal
  | [] => []
  | x :: xs => freezeOld x :: freezeOldList xs
def freezeOldKVs : List (PyVal × PyVal) → List (PyVal × PyVal)
  | [] => []
  | (k, v) :: t => (k, freezeOld v) :: freezeOldKVs t
end

/-- `fin.keys()` for `fin = {1: None}` (the `final_states` argument of finding F37) and the
transition table of the same DFA wrapped in `types.MappingProxyType`, rows included. -/
def exKeysView : PyVal := .setlike [.int 1]
def exProxyTable : PyVal :=
  .maplike [(.int 0, .maplike [(.str "a", .int 1)]), (.int 1, .maplike [(.str "a", .int 1)])]

/-- The regression, stated explicitly.  For the OLD function there is a value Python can build
(`supported`) whose image is not immutable — the keys view of a dictionary is returned as it is, a
live window onto the caller's dict, at the top level and equally inside a builtin container the
function does enter (`{0: proxy}`, `[view]`) — whereas for the function as it is now no such value
exists.  (The old function differs from the new one ONLY on values holding such a look-alike:
`C18_freezeOld_eq_freeze`.) -/
theorem C18_freeze_lookalike_regression :
    (∃ v : PyVal, v.supported = true ∧ (freezeOld v).isFrozen = false) ∧
    (¬ ∃ v : PyVal, v.supported = true ∧ (freeze v).isFrozen = false) := by
  refine ⟨⟨exKeysView, by decide, by decide⟩, ?_⟩
  rintro ⟨v, hs, hf⟩
  rw [isFrozen_freeze v hs] at hf
  exact Bool.noConfusion hf

mutual
/-- No look-alike container at any position `freeze_value` reaches (the values of dicts, the
members of sets, lists and tuples; frozensets and keys are not entered). -/
def reachesNoLookalike : PyVal → Bool
  | .str _ => true
  | .int _ => true
  | .other _ => true
  | .frozenset _ => true
  | .dict kvs => reachesNoLookalikeKVs kvs
  | .frozendict kvs => reachesNoLookalikeKVs kvs
  | .set xs => reachesNoLookalikeList xs
  | .list xs => reachesNoLookalikeList xs
  | .tuple xs => reachesNoLookalikeList xs
  | .setlike _ => false
  | .maplike _ => false
  | .seqlike _ => false
def reachesNoLookalikeList : List PyVal → Bool
  | [] => true
  | x :: xs => reachesNoLookalike x && reachesNoLookalikeList xs
def reachesNoLookalikeKVs : List (PyVal × PyVal) → Bool
  | [] => true
  | (_, v) :: t => reachesNoLookalike v && reachesNoLookalikeKVs t
end

mutual
/-- The repair changed nothing else: on every value in which the function meets no look-alike
container, the old and the new `freeze_value` return the same. -/
theorem C18_freezeOld_eq_freeze : ∀ v : PyVal, reachesNoLookalike v = true → freezeOld v = freeze v
  | .str _, _ => rfl
  | .int _, _ => rfl
  | .other _, _ => rfl
  | .frozenset _, _ => rfl
  | .dict kvs, h => by
      simp only [reachesNoLookalike] at h; simp only [freezeOld, freeze, freezeOldKVs_eq kvs h]
  | .frozendict kvs, h => by
      simp only [reachesNoLookalike] at h; simp only [freezeOld, freeze, freezeOldKVs_eq kvs h]
  | .set xs, h => by
      simp only [reachesNoLookalike] at h; simp only [freezeOld, freeze, freezeOldList_eq xs h]
  | .list xs, h => by
      simp only [reachesNoLookalike] at h; simp only [freezeOld, freeze, freezeOldList_eq xs h]
  | .tuple xs, h => by
      simp only [reachesNoLookalike] at h; simp only [freezeOld, freeze, freezeOldList_eq xs h]
  | .setlike _, h => by simp [reachesNoLookalike] at h
  | .maplike _, h => by simp [reachesNoLookalike] at h
  | .seqlike _, h => by simp [reachesNoLookalike] at h
theorem freezeOldList_eq : ∀ xs : List PyVal, reachesNoLookalikeList xs = true →
    freezeOldList xs = freezeList xs
  | [], _ => rfl
  | x :: xs, h => by
      simp only [reachesNoLookalikeList, Bool.and_eq_true] at h
      simp only [freezeOldList, freezeList, C18_freezeOld_eq_freeze x h.1, freezeOldList_eq xs h.2]
theorem freezeOldKVs_eq : ∀ kvs : List (PyVal × PyVal), reachesNoLookalikeKVs kvs = true →
    freezeOldKVs kvs = freezeKVs kvs
  | [], _ => rfl
  | (k, v) :: t, h => by
      simp only [reachesNoLookalikeKVs, Bool.and_eq_true] at h
      simp only [freezeOldKVs, freezeKVs, C18_freezeOld_eq_freeze v h.1, freezeOldKVs_eq t h.2]
end

/-- The witnesses of the finding and what the two functions make of them: the keys view and the
proxied table are kept by the old function and converted by the new one; a view placed inside a
dict / list the old function does enter is kept as well. -/
example :
    exKeysView.supported = true ∧ freezeOld exKeysView = exKeysView ∧
      (freezeOld exKeysView).isFrozen = false ∧
      freeze exKeysView = .frozenset [.int 1] ∧ (freeze exKeysView).isFrozen = true ∧
    exProxyTable.supported = true ∧ freezeOld exProxyTable = exProxyTable ∧
      (freezeOld exProxyTable).isFrozen = false ∧
      freeze exProxyTable =
        .frozendict [(.int 0, .frozendict [(.str "a", .int 1)]), (.int 1, .frozendict [(.str "a", .int 1)])] ∧
      (freeze exProxyTable).isFrozen = true ∧
    (freezeOld (.dict [(.int 0, exKeysView)])).isFrozen = false ∧
      (freeze (.dict [(.int 0, exKeysView)])).isFrozen = true ∧
    (freezeOld (.list [exProxyTable])).isFrozen = false ∧
      (freeze (.list [exProxyTable])).isFrozen = true ∧
    -- a `collections.UserList` of MNTM results (fix ab97679): kept by the old function, a tuple now
    (freezeOld (.dict [(.tuple [.str "1"], .seqlike [.tuple [.str "q1", .list [.list [.str "1", .str "R"]]]])])).isFrozen = false ∧
      freeze (.dict [(.tuple [.str "1"], .seqlike [.tuple [.str "q1", .list [.list [.str "1", .str "R"]]]])]) =
        .frozendict [(.tuple [.str "1"], .tuple [.tuple [.str "q1", .tuple [.tuple [.str "1", .str "R"]]]])] ∧
    -- an items view whose members are unhashable tuples: `{1: [2]}.items()`
    (PyVal.setlike [.tuple [.int 1, .list [.int 2]]]).supported = true ∧
      freeze (.setlike [.tuple [.int 1, .list [.int 2]]]) = .frozenset [.tuple [.int 1, .tuple [.int 2]]] :=
  ⟨rfl, rfl, rfl, rfl, rfl, rfl, rfl, rfl, rfl, rfl, rfl, rfl, rfl, rfl, rfl, rfl, rfl, rfl⟩

/-- What the constructor stored before the repair: in the default configuration the attribute
`final_states` of finding F37 was the caller's view itself. -/
example :
    (List.map (fun kv : String × PyVal => (kv.1, freezeOld kv.2)) [("final_states", exKeysView)]) =
      [("final_states", exKeysView)] ∧
    (∀ kv ∈ storeKwargs false [("final_states", exKeysView)], kv.2.isFrozen = true) := by
  refine ⟨rfl, ?_⟩
  decide

/-! ## what the constructor stores -/

/-- In the default configuration every stored attribute is immutable (for every argument
Python can build: keys and set elements hashable, see `C18_freeze_immutable`): no nested set,
map or list can be written to afterwards, and — the stored value being a function of the
argument's value at construction time — later mutation of the argument objects cannot reach
it. -/
theorem C18_stored_immutable (kwargs : List (String × PyVal))
    (h : ∀ kv ∈ kwargs, kv.2.supported = true) :
    ∀ kv ∈ storeKwargs false kwargs, kv.2.isFrozen = true := by
  intro kv hkv
  simp only [storeKwargs, List.mem_map] at hkv
  obtain ⟨kv0, h0, rfl⟩ := hkv
  exact isFrozen_freeze kv0.2 (h kv0 h0)

/-- Under either setting of `allow_mutable_automata` the stored attributes have the names and
the abstract values of the arguments. -/
theorem C18_stored_value (allowMutable : Bool) (kwargs : List (String × PyVal)) :
    (storeKwargs allowMutable kwargs).map (fun kv => (kv.1, kv.2.norm)) =
      kwargs.map (fun kv => (kv.1, kv.2.norm)) := by
  simp only [storeKwargs, List.map_map]
  apply List.map_congr_left
  intro kv _
  cases allowMutable <;> simp [norm_freeze]

/-! ## attribute protocol -/

/-- The attribute hooks as the source has them (regenerated from the AST of every class of the
package that derives from `Automaton`): `__setattr__` and `__delattr__` are defined by
`Automaton` only — no subclass overrides them — and the body of each (docstring aside) is the
single statement `raise AttributeError(...)`: an unconditional raise.  A raise placed under an
`if`, an added statement or an override changes the regenerated table and breaks this theorem
(and `C18_setattr_delattr`, whose model reads the same table). -/
theorem C18_attr_hooks_unconditional :
    Gen.Object.attrHooks =
      [("Automaton", "__setattr__", "raise AttributeError"),
       ("Automaton", "__delattr__", "raise AttributeError")] ∧
    hookShape "__setattr__" = .raisesAttributeError ∧ hookShape "__delattr__" = .raisesAttributeError ∧
    (∀ cls ∈ classes, cls ∈ Gen.Object.automatonClasses) := by
  decide

/-- Setting or deleting any attribute of any automaton raises `AttributeError`.  (Not true by
definition: `Inst.setattr` / `Inst.delattr` raise only if the regenerated body shape of the hook
is an unconditional `raise AttributeError`; otherwise they rebind / delete the attribute.) -/
theorem C18_setattr_delattr (o : Inst) (name : String) (v : PyVal) :
    o.setattr name v = .error (.py .attributeError) ∧ o.delattr name = .error (.py .attributeError) := by
  have h1 : hookShape "__setattr__" = .raisesAttributeError := by decide
  have h2 : hookShape "__delattr__" = .raisesAttributeError := by decide
  simp only [Inst.setattr, Inst.delattr, h1, h2, and_self]

/-- Where the library itself goes around the hooks (`object.__setattr__(self, …)` /
`object.__delattr__(self, …)`, regenerated from every class deriving from `Automaton`): outside
the constructors only *literal private* names are bound (at present: `DFA.clear_cache` resets
the two cache slots `_word_cache` / `_count_cache`, which are not part of the definition), and
the only constructor doing it is `Automaton.__init__` (the storing loop).  So after
construction no method of the library rebinds or deletes a definition attribute.  (A new site
with a public or computed name breaks this theorem.) -/
theorem C18_hook_bypass_sites :
    (∀ t ∈ Gen.Object.objectSetattrSites,
      (t.1 = "Automaton" ∧ t.2.1 = "__init__" ∧ t.2.2.1 = "__setattr__") ∨
      (t.2.1 ≠ "__init__" ∧ ∀ n ∈ t.2.2.2, isPublic n = false)) ∧
    (∃ t ∈ Gen.Object.objectSetattrSites, t.1 = "Automaton" ∧ t.2.1 = "__init__") := by
  decide

/-- Tie to the source (raise sites): `__setattr__` and `__delattr__` are defined by `Automaton`
only (no subclass overrides them) and each raises `AttributeError` (regenerated raise sites;
`C18_attr_hooks_unconditional` adds that the raise is the whole body). -/
theorem C18_attr_hooks_source :
    Gen.Validate.raiseSites.filter (fun t => t.2.1 == "__setattr__" || t.2.1 == "__delattr__") =
      [("Automaton", "__setattr__", ["AttributeError"]), ("Automaton", "__delattr__", ["AttributeError"])] := by
  decide

/-! ## copy() and pickling -/

/-- For every class the public `__slots__` are exactly the `__init__` parameters (as sets), all
of them are passed on to `Automaton.__init__`, and nothing else is (except GNFA's derived
`final_states`).  Evaluated on the tables regenerated from /repo at every build: a slot renamed
to start with `_`, a dropped slot, or a new `__init__` parameter without a slot breaks this
theorem. -/
theorem C18_slots_are_init_params : ∀ cls ∈ classes, TablesOk cls := tablesOk_all

/-- The eight classes the tables cover. -/
theorem C18_classes : classes = ["DFA", "NFA", "GNFA", "DPDA", "NPDA", "DTM", "NTM", "MNTM"] := by
  decide

/-- The shape of automata/base/automaton.py that the object model mirrors (regenerated):
`input_parameters` iterates `__slots__` skipping names that start with `_`, `copy()` is
`self.__class__(**self.input_parameters)`, `__getstate__` returns `input_parameters`,
`__setstate__` calls `__init__`, `__init__` freezes unless the option allows mutable automata;
the attribute hooks raise unconditionally; the constructors take keyword arguments only. -/
theorem C18_automaton_source_shape :
    Gen.Validate.automatonFacts.all (fun f => f.2) = true ∧
    -- the bodies of `__setattr__` / `__delattr__` are a single unconditional `raise AttributeError(...)`
    (Gen.Object.attrHooks.filter (fun t => t.1 == "Automaton")).map (fun t => (t.2.1, t.2.2)) =
      [("__setattr__", "raise AttributeError"), ("__delattr__", "raise AttributeError")] ∧
    -- every concrete `__init__` is `(self, *, …)`: arguments are bound by keyword only
    Gen.Object.initKeywordOnly.all (fun f => f.2) = true ∧
    Gen.Object.initKeywordOnly.map Prod.fst = classes := by
  decide

/-- `copy()` of a constructed automaton succeeds and returns an object of the same class with
identical `input_parameters`, under either setting of `allow_mutable_automata`. -/
theorem C18_copy_roundtrip (allowMutable : Bool) (cls : String) (hcls : cls ∈ classes)
    (kwargs : List (String × PyVal)) (a : Inst) (h : classInit allowMutable cls kwargs = .ok a) :
    ∃ b, copy allowMutable a = .ok b ∧ b.cls = a.cls ∧ inputParameters b = inputParameters a := by
  obtain ⟨hpa, b, hb, hc, hpb⟩ :=
    copy_after_init allowMutable allowMutable cls (tablesOk_all cls hcls) kwargs a h
  refine ⟨b, hb, hc, ?_⟩
  rw [hpa, hpb]
  congr 1
  apply List.map_congr_left
  intro s _
  rw [fz_fz_same]

/-- A pickle round trip (`__getstate__` then `__setstate__` on a blank object of the class)
gives the same: same class, identical `input_parameters`. -/
theorem C18_pickle_roundtrip (allowMutable : Bool) (cls : String) (hcls : cls ∈ classes)
    (kwargs : List (String × PyVal)) (a : Inst) (h : classInit allowMutable cls kwargs = .ok a) :
    ∃ b, pickleRoundTrip allowMutable a = .ok b ∧ b.cls = a.cls ∧
      inputParameters b = inputParameters a :=
  C18_copy_roundtrip allowMutable cls hcls kwargs a h

/-- When the option changes between construction and copying / unpickling, the result still has
the same class and the same parameters up to the kind of container (same abstract value). -/
theorem C18_copy_roundtrip_across_options (am0 am1 : Bool) (cls : String) (hcls : cls ∈ classes)
    (kwargs : List (String × PyVal)) (a : Inst) (h : classInit am0 cls kwargs = .ok a) :
    ∃ b pa pb, copy am1 a = .ok b ∧ b.cls = a.cls ∧ inputParameters a = .ok pa ∧
      inputParameters b = .ok pb ∧
      pb.map (fun kv => (kv.1, kv.2.norm)) = pa.map (fun kv => (kv.1, kv.2.norm)) := by
  obtain ⟨hpa, b, hb, hc, hpb⟩ := copy_after_init am0 am1 cls (tablesOk_all cls hcls) kwargs a h
  refine ⟨b, _, _, hb, hc, hpa, hpb, ?_⟩
  simp only [List.map_map]
  apply List.map_congr_left
  intro s _
  simp [norm_fz]

/-! ### copy() of a valid automaton passes the validation of its constructor

`classInitV` / `copyV` are `classInit` / `copy` with `Automaton.__post_init__`: the stored
definition is validated when `should_validate_automata` is on (GNFA: always).  They are built on
`construct` (Model/Freeze.lean), the constructor of C19's option theorems (`C19_options*`), here
applied to the keyword list of a concrete class.  `v cls` is the class's validator as a function
of the abstract value of the definition — an arbitrary function: the theorems hold for every
validator that reads the definition up to the kind of container (the typed validators of C19 do:
they test membership and equality of names only). -/

/-- If `cls(**kwargs)` returns with validation due, the validator accepted the definition of
the new object. -/
theorem C18_constructed_valid (v : String → List (String × PyVal) → Res Unit) (sv am : Bool)
    (cls : String) (hcls : cls ∈ classes) (kwargs : List (String × PyVal)) (a : Inst)
    (h : classInitV v sv am cls kwargs = .ok a) (hdue : (sv || alwaysValidates cls) = true) :
    v cls (definitionOf a) = .ok () :=
  (classInitV_ok_inv v sv am cls (tablesOk_all cls hcls) kwargs a h).2 hdue

/-- `copy()` re-validates successfully: for an automaton `a = cls(**kwargs)` (built under any
options) whose definition satisfies the validator, `a.copy()` — under any options, validation
included — is constructed, has the same class and the same definition (abstract value of every
attribute `validate()` reads, GNFA's derived `final_states` included), hence satisfies the
validator again, and reports parameters equal in abstract value.  So no `copy()` of a valid
automaton can raise a validation error, and none can smuggle an invalid definition past
validation. -/
theorem C18_copy_valid (v : String → List (String × PyVal) → Res Unit) (sv0 am0 sv1 am1 : Bool)
    (cls : String) (hcls : cls ∈ classes) (kwargs : List (String × PyVal)) (a : Inst)
    (h : classInitV v sv0 am0 cls kwargs = .ok a) (hvalid : v cls (definitionOf a) = .ok ()) :
    ∃ b, copyV v sv1 am1 a = .ok b ∧ b.cls = a.cls ∧ definitionOf b = definitionOf a ∧
      v cls (definitionOf b) = .ok () ∧
      ∃ pa pb, inputParameters a = .ok pa ∧ inputParameters b = .ok pb ∧ absKw pb = absKw pa := by
  have ht := tablesOk_all cls hcls
  have hci := (classInitV_ok_inv v sv0 am0 cls ht kwargs a h).1
  obtain ⟨b, hbV, hb, hdef⟩ := copyV_after_init v am0 sv1 am1 cls ht kwargs a hci hvalid
  obtain ⟨b', pa, pb, hb', hc', hpa, hpb, hn⟩ :=
    C18_copy_roundtrip_across_options am0 am1 cls hcls kwargs a hci
  have hbb : b' = b := by rw [hb] at hb'; exact (Except.ok.inj hb').symm
  subst hbb
  exact ⟨b', hbV, hc', hdef, by rw [hdef]; exact hvalid, pa, pb, hpa, hpb, hn⟩

/-- In particular with validation on at both ends no hypothesis on the definition is needed:
whatever the constructor accepted, `copy()` (and a pickle round trip, which is the same call of
`__init__`) accepts. -/
theorem C18_copy_valid_validated (v : String → List (String × PyVal) → Res Unit) (am0 sv1 am1 : Bool)
    (cls : String) (hcls : cls ∈ classes) (kwargs : List (String × PyVal)) (a : Inst)
    (h : classInitV v true am0 cls kwargs = .ok a) :
    ∃ b, copyV v sv1 am1 a = .ok b ∧ b.cls = a.cls ∧ definitionOf b = definitionOf a :=
  let ⟨b, h1, h2, h3, _⟩ := C18_copy_valid v true am0 sv1 am1 cls hcls kwargs a h
    (C18_constructed_valid v true am0 cls hcls kwargs a h rfl)
  ⟨b, h1, h2, h3⟩

/-- The reported parameters are exactly the constructor's: `input_parameters` of `cls(**kwargs)`
lists the public slots, each with the stored form of the argument bound to it. -/
theorem C18_input_parameters (allowMutable : Bool) (cls : String) (hcls : cls ∈ classes)
    (kwargs : List (String × PyVal)) (a : Inst) (h : classInit allowMutable cls kwargs = .ok a) :
    inputParameters a =
      .ok ((publicSlots cls).map fun s => (s, fz allowMutable (boundVal cls kwargs s))) :=
  (copy_after_init allowMutable allowMutable cls (tablesOk_all cls hcls) kwargs a h).1

/-- The default values the model binds are the ones of the `__init__` signatures: `defaultOf`
reads the table regenerated from the AST (at present `DFA(allow_partial=False)`,
`DPDA / NPDA(acceptance_mode="both")`), nothing is written by hand, so a new or changed default
changes the model at the next build and the NEW correspondence (family `default_param`) compares
it with the real constructor.  What the theorems need from the table: it covers the eight
classes; every default is a literal the model represents exactly (bool / int / str / None —
not an opaque expression); every parameter with a default is a parameter and a public slot of
its class, so `copy()` / unpickling always pass it explicitly and a default is never applied a
second time. -/
theorem C18_init_defaults :
    Gen.Object.initDefaults.map Prod.fst = classes ∧
    (∀ cd ∈ Gen.Object.initDefaults, ∀ pd ∈ cd.2,
      (match pd.2 with | .other _ => false | _ => true) = true ∧
      pd.1 ∈ publicSlots cd.1 ∧ pd.1 ∈ initParamsOf cd.1) := by
  decide

/-- The attributes a constructor binds besides the ones handed to `Automaton.__init__` (regenerated:
`object.__setattr__(self, "<name>", …)` in `__init__` or in a method it calls on `self`; at present
only `DFA.clear_cache`: `_word_cache = []`, `_count_cache = []`) are private slots of the class:
none of them is reported by `input_parameters`, none is part of the definition. -/
theorem C18_post_init_attrs :
    Gen.Object.postInitAttrs.map Prod.fst = classes ∧
    (∀ cls ∈ classes, ∀ kv ∈ extraAttrs cls, isPublic kv.1 = false ∧ kv.1 ∈ slotsOf cls) := by
  decide

/-! ### non-vacuity -/

/-- A partial DFA: construction succeeds, the parameters come back (frozen), `copy()` returns a
DFA with the same parameters — `allow_partial` included. -/
def exDFA : List (String × PyVal) :=
  [("states", .set [.int 0, .int 1]), ("input_symbols", .set [.str "a"]),
   ("transitions", .dict [(.int 0, .dict [(.str "a", .int 1)]), (.int 1, .dict [])]),
   ("initial_state", .int 0), ("final_states", .set [.int 1]), ("allow_partial", .int 1)]

example :
    (match classInit false "DFA" exDFA with
     | .ok a => a.cls == "DFA" && (a.attrs.map Prod.fst ==
          ["states", "input_symbols", "transitions", "initial_state", "final_states", "allow_partial",
           "_word_cache", "_count_cache"])
     | .error _ => false) = true := by decide

example :
    (match classInit false "DFA" exDFA with
     | .ok a => (match copy false a, inputParameters a with
        | .ok b, .ok pa => b.cls == "DFA" && (pa.map Prod.fst ==
            ["states", "input_symbols", "transitions", "initial_state", "final_states", "allow_partial"])
        | _, _ => false)
     | .error _ => false) = true := by decide

/-- A missing parameter without default is a `TypeError`; GNFA receives its derived
`final_states` attribute. -/
example : (match classInit false "DFA" (exDFA.take 3) with | .error (.py .typeError) => true | _ => false) = true := by
  decide

example :
    (match classInit false "GNFA" [("states", .set [.int 0, .int 1]), ("input_symbols", .set []),
        ("transitions", .dict [(.int 0, .dict [(.int 1, .other 0)])]), ("initial_state", .int 0),
        ("final_state", .int 1)] with
     | .ok a => a.attrs.map Prod.fst ==
         ["states", "input_symbols", "transitions", "initial_state", "final_state", "final_states"]
     | .error _ => false) = true := by decide

/-- Non-vacuity / sanity of `classInitV`: a validator that rejects makes the constructor raise
when validation is on and is not consulted when it is off — except for GNFA, which always
validates; a validator that accepts lets construction and `copyV` through. -/
def rejectAll : String → List (String × PyVal) → Res Unit := fun _ _ => .error (.lib .invalidStateError)
def acceptAll : String → List (String × PyVal) → Res Unit := fun _ _ => .ok ()
def exGNFA : List (String × PyVal) :=
  [("states", .set [.int 0, .int 1]), ("input_symbols", .set []),
   ("transitions", .dict [(.int 0, .dict [(.int 1, .other 0)])]), ("initial_state", .int 0),
   ("final_state", .int 1)]

example :
    (match classInitV rejectAll true false "DFA" exDFA with
      | .error (.lib .invalidStateError) => true | _ => false) = true ∧
    (match classInitV rejectAll false false "DFA" exDFA with | .ok _ => true | _ => false) = true ∧
    (match classInitV rejectAll false false "GNFA" exGNFA with
      | .error (.lib .invalidStateError) => true | _ => false) = true ∧
    alwaysValidates "GNFA" = true ∧ alwaysValidates "DFA" = false ∧
    (match classInitV acceptAll true false "GNFA" exGNFA with
      | .ok a => (match copyV acceptAll true true a with
          | .ok b => b.cls == "GNFA" && (definitionOf b).map Prod.fst ==
              ["states", "input_symbols", "transitions", "initial_state", "final_state", "final_states"]
          | _ => false)
      | _ => false) = true := by
  decide

end AV.Props.C18
