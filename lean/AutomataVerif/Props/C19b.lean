/-
Props/C19b.lean — C19, the clause "every automaton returned by a library operation passes
validation itself", assembled from the property files in which the operations are modelled.

`Props/C19.lean` states the obligation abstractly (`C19_results_valid_full`) and proves it for
`copy` only.  The models of the automaton-valued operations live in Model/DFAOps, Convert,
NFAOps, NFAEdit, RxCompile, GNFA, DfaCtor, and each of C04, C05, C07, C08, C10, C12, C15, C16
proves — next to its language statement — that the result passes `validate`.  `ResultsValid`
below has one field per public automaton-valued operation (and option combination) of the
library; `C19_results_valid` fills every field by citing the theorem of the property that owns
the operation.  Nothing is re-proved here except two one-line glue facts
(`finishBuild_ok_valid`: `GNFA.from_dfa/from_nfa` return only what the GNFA constructor's
validation accepted; renumbering after `_minify` keeps the keys = states shape).

Which `validate`.  DFA and NFA results are checked with `AV.DFA.validate` / `AV.NFA.validate`
(Model/DFA.lean, Model/NFA.lean) — the ones tied to the code by the correspondence of C01 / C04 /
C08, and the DFA / NFA validate models of C19 for name types that cannot express the two
reserved names: `C19_dfa_validate_iff` / `C19_nfa_validate_iff` are about `validateDef R` =
"`_validate_reserved_names()` (no state named `None`, `""` not an input symbol — fixes b159ae7,
07f4843) under the interpretation `R` of the names, then `validate`", and `C19_reserved_absent`
says `validateDef Reserved.absent = validate`.  The operation models below work on such name
types (`none : Option σ` is the sink of a DFA run, `none : Option α` is λ; neither can be a
name), so a result that passes `validate` passes the complete check; on the real code the
reserved-name check of every result is part of the sampled re-validation (harness/ops/C19.py).  GNFA results are checked with
`AV.GNFA.validateStr simpleRxValid` (Model/GNFAValidate.lean, the model used by C12 and run by
its driver: string labels, `re._validate` modelled at character level for labels without `{`),
NOT with `AV.VA.GNFA.validate` of Model/ValidateAll.lean, which represents a label abstractly
(characters + an oracle verdict); the two are written from the same source lines but no bridge
between them is proved.

Hypotheses.  Every field carries exactly the hypotheses of the cited theorem: operands pass
`validate`; where the cited theorem needs it, the representation invariant "came from Python
sets / dicts" (`DFA.PyShape`, `NFA.PyShape`, `NFA.Valid` = validate ok + dict-shaped tables:
no duplicate keys / elements — not a restriction on automata); and the argument conditions
under which the code does not raise (common alphabet, trap state not a state, `k ≥ 0`, symbol
in the alphabet, …).  Fields are stated in the total form "the call returns `R` and `R` passes
validate"; `dfa_binop_any_alphabets` shows for the Boolean operations how the side condition
disappears in the form "whatever is returned passes validate" (the other case raises).

Operations with `retain_names=False` are modelled by `DFA.renumber` (BFS discovery index).
For results of `_minify` the code numbers the blocks by `enumerate` instead: the same DFA up to
an injective renaming of states (see Proofs/Expr.lean, `DFAExpr.eval`).

Public operations NOT covered by a field (no Lean statement here):
  * `copy()` of every class — the result is built from the reported constructor parameters and
    is the same definition (C18: `C18_copy_roundtrip`; abstractly `C19_results_valid_partial`);
  * DPDA, NPDA, DTM, NTM, MNTM have no automaton-valued operation besides `copy`;
  * `GNFA.to_regex` returns a string (C12); `DFA.successor(s)`, `predecessor(s)`, `random_word`,
    `words_of_length`, … return words; `show_diagram` returns a graph;
  * `NFA.from_regex` on strings outside the documented token language, and operations called
    with arguments for which the cited theorem has no success case (they raise — no result);
  * DFA operands that violate `PyShape` cannot arise from Python values (sets / dicts).
All of these, and every field below again, are additionally SAMPLED on the real code by
harness/ops/C19.py (every result of every public operation re-validated).
-/
import AutomataVerif.Props.C19
import AutomataVerif.Props.C19c
import AutomataVerif.Props.C04
import AutomataVerif.Props.C05
import AutomataVerif.Props.C07
import AutomataVerif.Props.C08
import AutomataVerif.Props.C10
import AutomataVerif.Props.C12
import AutomataVerif.Props.C15
import AutomataVerif.Props.C16

namespace AV.Props.C19
open AV AV.Ctor AV.GNFA AV.GnfaSpec

/-! ## glue -/

/-- `GNFA.from_dfa` / `from_nfa` end in the validating constructor: whatever they return passed
`GNFA.validate`. -/
theorem finishBuild_ok_valid {σ : Type} [DecidableEq σ] (rxValid : Str → Res Bool)
    (natName : Nat → σ) (src : List σ) (syms : List Char)
    (rows : List (σ × List (σ × Option Str))) (init : σ) (finals : List σ) (g : GNFA σ Str)
    (h : finishBuild rxValid natName src syms rows init finals = .ok g) :
    g.validateStr rxValid = .ok () := by
  unfold finishBuild at h
  simp only at h
  split at h
  · cases h
  · split at h
    · cases h
    · split at h
      · rename_i hv
        cases h
        exact hv
      · cases h

/-- Renumbering a valid duplicate-free DFA whose rows are keyed by its states gives a valid DFA
(`C04_renumber`). -/
theorem renumber_valid {σ α : Type} [DecidableEq σ] [DecidableEq α] (d : DFA σ α)
    (hv : d.validate = .ok ()) (ps : d.PyShape) (hk : akeys d.trans = d.states) :
    d.renumber.validate = .ok () :=
  (C04.C04_renumber d hv ps (fun k h => by rw [hk] at h; exact h)).1

/-! ## the statement: one field per operation -/

/-- **Every automaton returned by a library operation passes `validate`.**  One field per
automaton-valued public operation (model function named in the field). -/
structure ResultsValid : Prop where
  -- ### DFA → DFA (C04, C05)
  /-- `A.union/intersection/difference/symmetric_difference(B, retain_names=True, minify=False)`. -/
  dfa_binop : ∀ {σ α : Type} [DecidableEq σ] [DecidableEq α] (op : DFA.BinOp) (A B : DFA σ α),
    A.validate = .ok () → B.validate = .ok () → A.PyShape → A.symsEq B = true →
    ∃ R, A.binopPlain op B = .ok R ∧ R.validate = .ok ()
  /-- The same without the common-alphabet condition: whatever is returned is valid. -/
  dfa_binop_any_alphabets : ∀ {σ α : Type} [DecidableEq σ] [DecidableEq α] (op : DFA.BinOp)
    (A B : DFA σ α), A.validate = .ok () → B.validate = .ok () → A.PyShape →
    ∀ R, A.binopPlain op B = .ok R → R.validate = .ok ()
  /-- `…(B, retain_names=False, minify=False)`. -/
  dfa_binop_renumbered : ∀ {σ α : Type} [DecidableEq σ] [DecidableEq α] (op : DFA.BinOp)
    (A B : DFA σ α), A.validate = .ok () → B.validate = .ok () → A.PyShape → A.symsEq B = true →
    ∃ R, A.binopPlain op B = .ok R ∧ R.renumber.validate = .ok ()
  /-- `…(B, retain_names=True, minify=True)`, every pop order of the refinement loop. -/
  dfa_binop_min : ∀ {σ α : Type} [DecidableEq σ] [DecidableEq α] (op : DFA.BinOp)
    (A B : DFA σ α) (pick : List Nat → Nat),
    A.validate = .ok () → B.validate = .ok () → A.PyShape → A.symsEq B = true →
    ∃ M, A.binopMin op B pick = .ok M ∧ M.validate = .ok ()
  /-- `…(B)` with the defaults `retain_names=False, minify=True` (also `| & - ^`). -/
  dfa_binop_min_renumbered : ∀ {σ α : Type} [DecidableEq σ] [DecidableEq α] (op : DFA.BinOp)
    (A B : DFA σ α) (pick : List Nat → Nat),
    A.validate = .ok () → B.validate = .ok () → A.PyShape → A.symsEq B = true →
    ∃ M, A.binopMin op B pick = .ok M ∧ M.renumber.validate = .ok ()
  /-- `d.to_complete(trap_state)` (`custom = false`: the library picks the trap name). -/
  dfa_to_complete : ∀ {σ α : Type} [DecidableEq σ] [DecidableEq α] (d : DFA σ α) (trap : σ)
    (custom : Bool), d.validate = .ok () → d.PyShape → trap ∉ d.states →
    ∃ C, d.toComplete trap custom = .ok C ∧ C.validate = .ok ()
  /-- `d.complement(retain_names=True, minify=False)` (completes first iff `allow_partial`). -/
  dfa_complement : ∀ {σ α : Type} [DecidableEq σ] [DecidableEq α] (d : DFA σ α) (trap : σ),
    d.validate = .ok () → d.PyShape → trap ∉ d.states →
    ∃ R, d.complementFull trap = .ok R ∧ R.validate = .ok ()
  /-- `d.complement(retain_names=True, minify=True)`. -/
  dfa_complement_min : ∀ {σ α : Type} [DecidableEq σ] [DecidableEq α] (d : DFA σ α) (trap : σ)
    (pick : List Nat → Nat), d.validate = .ok () → d.PyShape → trap ∉ d.states →
    ∃ M, d.complementMinFull trap pick = .ok M ∧ M.validate = .ok ()
  /-- `d.complement()` with the defaults `retain_names=False, minify=True` (also `~d`). -/
  dfa_complement_min_renumbered : ∀ {σ α : Type} [DecidableEq σ] [DecidableEq α] (d : DFA σ α)
    (trap : σ) (pick : List Nat → Nat), d.validate = .ok () → d.PyShape → trap ∉ d.states →
    ∃ M, d.complementMinFull trap pick = .ok M ∧ M.renumber.validate = .ok ()
  /-- `d.to_partial(retain_names=True, minify=False)`. -/
  dfa_to_partial : ∀ {σ α : Type} [DecidableEq σ] [DecidableEq α] (d : DFA σ α),
    d.validate = .ok () → d.PyShape → d.toPartialPlain.validate = .ok ()
  /-- `d.to_partial(retain_names=True, minify=True)`. -/
  dfa_to_partial_min : ∀ {σ α : Type} [DecidableEq σ] [DecidableEq α] (d : DFA σ α)
    (pick : List Nat → Nat), d.validate = .ok () → d.PyShape →
    (d.toPartialMin pick).validate = .ok ()
  /-- `d.to_partial()` with the defaults `retain_names=False, minify=True`. -/
  dfa_to_partial_min_renumbered : ∀ {σ α : Type} [DecidableEq σ] [DecidableEq α] (d : DFA σ α)
    (pick : List Nat → Nat), d.validate = .ok () → d.PyShape →
    (d.toPartialMin pick).renumber.validate = .ok ()
  /-- `d.minify(retain_names=True)`. -/
  dfa_minify : ∀ {σ α : Type} [DecidableEq σ] [DecidableEq α] (d : DFA σ α)
    (pick : List Nat → Nat), d.validate = .ok () → d.PyShape → (d.minify pick).validate = .ok ()
  /-- `d.minify()` with the default `retain_names=False`. -/
  dfa_minify_renumbered : ∀ {σ α : Type} [DecidableEq σ] [DecidableEq α] (d : DFA σ α)
    (pick : List Nat → Nat), d.validate = .ok () → d.PyShape →
    (d.minify pick).renumber.validate = .ok ()
  /-- Results fed into further operations: every finite expression tree over
  {∪, ∩, −, △, complement, to_partial, to_complete} with any `minify` flags
  (`retain_names=False`), whose leaves are valid DFAs over one alphabet. -/
  dfa_expr : ∀ {α : Type} [DecidableEq α] (trapOf : List Nat → Nat), (∀ l, trapOf l ∉ l) →
    ∀ (pick : List Nat → Nat) (Sg : List α) (e : C04.DFAExpr α), e.LeavesOk Sg →
    ∃ R, e.eval trapOf pick = .ok R ∧ R.validate = .ok ()
  -- ### NFA → DFA, DFA → NFA, NFA → NFA conversions (C07)
  /-- `DFA.from_nfa(n, retain_names=True, minify=False)`. -/
  dfa_from_nfa : ∀ {σ α : Type} [DecidableEq σ] [DecidableEq α] (n : NFA σ α),
    n.validate = .ok () → n.toDFA.validate = .ok ()
  /-- `DFA.from_nfa(n, retain_names=False, minify=False)`. -/
  dfa_from_nfa_renumbered : ∀ {σ α : Type} [DecidableEq σ] [DecidableEq α] (n : NFA σ α),
    n.validate = .ok () → n.PyShape → n.toDFA.renumber.validate = .ok ()
  /-- `DFA.from_nfa(n, retain_names=True, minify=True)`. -/
  dfa_from_nfa_min : ∀ {σ α : Type} [DecidableEq σ] [DecidableEq α] (n : NFA σ α)
    (pick : List Nat → Nat), n.validate = .ok () → n.PyShape →
    (n.toDFAMin pick).validate = .ok ()
  /-- `DFA.from_nfa(n)` with the defaults `retain_names=False, minify=True`. -/
  dfa_from_nfa_min_renumbered : ∀ {σ α : Type} [DecidableEq σ] [DecidableEq α] (n : NFA σ α)
    (pick : List Nat → Nat), n.validate = .ok () → n.PyShape →
    (n.toDFAMin pick).renumber.validate = .ok ()
  /-- `NFA.from_dfa(d)`. -/
  nfa_from_dfa : ∀ {σ α : Type} [DecidableEq σ] [DecidableEq α] (d : DFA σ α),
    d.validate = .ok () → (NFA.ofDFA d).validate = .ok ()
  /-- `n.eliminate_lambda()`. -/
  nfa_eliminate_lambda : ∀ {σ α : Type} [DecidableEq σ] [DecidableEq α] (n : NFA σ α),
    n.validate = .ok () → n.PyShape → n.eliminateLambda.validate = .ok ()
  -- ### NFA regular operations (C08); `R.Valid` = validate ok + dict-shaped, so results can
  -- be fed back
  nfa_union : ∀ {σ₁ σ₂ α : Type} [DecidableEq σ₁] [DecidableEq σ₂] [DecidableEq α]
    (A : NFA σ₁ α) (B : NFA σ₂ α), A.Valid → B.Valid →
    ∃ R, NFA.union A B = .ok R ∧ R.validate = .ok () ∧ R.Valid
  nfa_or : ∀ {σ₁ σ₂ α : Type} [DecidableEq σ₁] [DecidableEq σ₂] [DecidableEq α]
    (A : NFA σ₁ α) (B : NFA σ₂ α), A.Valid → B.Valid →
    ∃ R, NFA.orOp A B = .ok R ∧ R.validate = .ok () ∧ R.Valid
  nfa_concatenate : ∀ {σ₁ σ₂ α : Type} [DecidableEq σ₁] [DecidableEq σ₂] [DecidableEq α]
    (A : NFA σ₁ α) (B : NFA σ₂ α), A.Valid → B.Valid →
    ∃ R, NFA.concatenate A B = .ok R ∧ R.validate = .ok () ∧ R.Valid
  nfa_add : ∀ {σ₁ σ₂ α : Type} [DecidableEq σ₁] [DecidableEq σ₂] [DecidableEq α]
    (A : NFA σ₁ α) (B : NFA σ₂ α), A.Valid → B.Valid →
    ∃ R, NFA.addOp A B = .ok R ∧ R.validate = .ok () ∧ R.Valid
  nfa_intersection : ∀ {σ₁ σ₂ α : Type} [DecidableEq σ₁] [DecidableEq σ₂] [DecidableEq α]
    (A : NFA σ₁ α) (B : NFA σ₂ α), A.Valid → B.Valid →
    ∃ R, NFA.intersection A B = .ok R ∧ R.validate = .ok () ∧ R.Valid
  nfa_and : ∀ {σ₁ σ₂ α : Type} [DecidableEq σ₁] [DecidableEq σ₂] [DecidableEq α]
    (A : NFA σ₁ α) (B : NFA σ₂ α), A.Valid → B.Valid →
    ∃ R, NFA.andOp A B = .ok R ∧ R.validate = .ok () ∧ R.Valid
  nfa_shuffle_product : ∀ {σ₁ σ₂ α : Type} [DecidableEq σ₁] [DecidableEq σ₂] [DecidableEq α]
    (A : NFA σ₁ α) (B : NFA σ₂ α), A.Valid → B.Valid →
    ∃ R, NFA.shuffleProduct A B = .ok R ∧ R.validate = .ok () ∧ R.Valid
  nfa_right_quotient : ∀ {σ₁ σ₂ α : Type} [DecidableEq σ₁] [DecidableEq σ₂] [DecidableEq α]
    (A : NFA σ₁ α) (B : NFA σ₂ α), A.Valid → B.Valid →
    ∃ R, NFA.rightQuotient A B = .ok R ∧ R.validate = .ok () ∧ R.Valid
  nfa_left_quotient : ∀ {σ₁ σ₂ α : Type} [DecidableEq σ₁] [DecidableEq σ₂] [DecidableEq α]
    (A : NFA σ₁ α) (B : NFA σ₂ α), A.Valid → B.Valid →
    ∃ R, NFA.leftQuotient A B = .ok R ∧ R.validate = .ok () ∧ R.Valid
  /-- `nat` = the embedding of Python's ints into the state names (`_add_new_state`). -/
  nfa_kleene_star : ∀ {σ α : Type} [DecidableEq σ] [DecidableEq α] (nat : Nat → σ),
    Function.Injective nat → ∀ A : NFA σ α, A.Valid →
    ∃ R, NFA.kleeneStar nat A = .ok R ∧ R.validate = .ok () ∧ R.Valid
  nfa_option : ∀ {σ α : Type} [DecidableEq σ] [DecidableEq α] (nat : Nat → σ),
    Function.Injective nat → ∀ A : NFA σ α, A.Valid →
    ∃ R, NFA.option nat A = .ok R ∧ R.validate = .ok () ∧ R.Valid
  nfa_reverse : ∀ {σ α : Type} [DecidableEq σ] [DecidableEq α] (nat : Nat → σ),
    Function.Injective nat → ∀ A : NFA σ α, A.Valid →
    ∃ R, NFA.reverse nat A = .ok R ∧ R.validate = .ok () ∧ R.Valid
  -- ### NFA constructors (C10, C16)
  /-- `NFA.from_regex(s, input_symbols=Σ)` for `s` spelling an expression of the grammar. -/
  nfa_from_regex : ∀ {s : List Char} {ts : List (Rx.Tok Char)} {e : Rx.Rx Char},
    Rx.Renders ts s → Rx.G .E e ts → ∀ syms : List Char, (∀ c ∈ syms, Rx.isReserved c = false) →
    (∀ a ∈ e.lits, a ∈ syms) →
    ∃ N, Rx.fromRegex s (some syms) = .ok N ∧ N.validate = .ok ()
  /-- `NFA.from_regex(s)` (default alphabet). -/
  nfa_from_regex_default : ∀ {s : List Char} {ts : List (Rx.Tok Char)} {e : Rx.Rx Char},
    Rx.Renders ts s → Rx.G .E e ts →
    ∃ N, Rx.fromRegex s none = .ok N ∧ N.validate = .ok ()
  /-- `NFA.edit_distance(Σ, ref, k, insertion, deletion, substitution)`. -/
  nfa_edit_distance : ∀ {α : Type} [DecidableEq α] (syms ref : List α) (k : Int)
    (ins del sub : Bool), 0 ≤ k → (ins || del || sub) = true → (∀ c ∈ ref, c ∈ syms) →
    ∃ R, NFA.editDistance syms ref k ins del sub = .ok R ∧ R.validate = .ok ()
  -- ### GNFA constructors (C12); validate = `GNFA.validateStr simpleRxValid`
  /-- `GNFA.from_dfa(d)`, alphabet of literal characters. -/
  gnfa_from_dfa : ∀ {σ : Type} [DecidableEq σ] (natName : Nat → σ), Function.Injective natName →
    ∀ d : DFA σ Char, d.validate = .ok () → (∀ a ∈ d.syms, IsLit a) →
    ∃ g, fromDFA simpleRxValid natName d = .ok g ∧ g.validateStr simpleRxValid = .ok ()
  /-- `GNFA.from_nfa(n)`. -/
  gnfa_from_nfa : ∀ {σ : Type} [DecidableEq σ] (natName : Nat → σ), Function.Injective natName →
    ∀ n : NFA σ Char, n.validate = .ok () → (∀ kv ∈ n.trans, (akeys kv.2).Nodup) →
    (∀ kv ∈ n.trans, ∀ e ∈ kv.2, e.2.Nodup) → (∀ a ∈ n.syms, IsLit a) →
    ∃ g, fromNFA simpleRxValid natName n = .ok g ∧ g.validateStr simpleRxValid = .ok ()
  -- ### DFA constructors (C15)
  dfa_universal_language : ∀ {α : Type} [DecidableEq α] (syms : List α),
    ∃ d, universalLanguage syms = .ok d ∧ d.validate = .ok ()
  dfa_empty_language : ∀ {α : Type} [DecidableEq α] (syms : List α),
    ∃ d, emptyLanguage syms = .ok d ∧ d.validate = .ok ()
  dfa_count_mod : ∀ {α : Type} [DecidableEq α] (syms : List α) (k : Int), 0 < k →
    ∀ (remainders : Option (List Int)) (count : Option (List α)),
    (∀ r ∈ remainders.getD [0], 0 ≤ r ∧ r < k) →
    ∃ d, countMod syms k remainders count = .ok d ∧ d.validate = .ok ()
  dfa_of_length : ∀ {α : Type} [DecidableEq α] (syms : List α) (minLen : Int), 0 ≤ minLen →
    ∀ (maxLen : Option Int) (count : Option (List α)),
    ∃ d, ofLength syms minLen maxLen count = .ok d ∧ d.validate = .ok ()
  dfa_nth_from_start : ∀ {α : Type} [DecidableEq α] (syms : List α) (s : α) (n : Int),
    1 ≤ n → s ∈ syms → ∃ d, nthFromStart syms s n = .ok d ∧ d.validate = .ok ()
  dfa_nth_from_end : ∀ {α : Type} [DecidableEq α] (syms : List α) (s : α) (n : Int),
    1 ≤ n → s ∈ syms → ∃ d, nthFromEnd syms s n = .ok d ∧ d.validate = .ok ()
  dfa_from_subsequence : ∀ {α : Type} [DecidableEq α] (syms p : List α), (∀ c ∈ p, c ∈ syms) →
    ∀ contains : Bool, ∃ d, fromSubsequence syms p contains = .ok d ∧ d.validate = .ok ()
  dfa_from_prefix : ∀ {α : Type} [DecidableEq α] (syms p : List α), (∀ c ∈ p, c ∈ syms) →
    ∀ contains asPartial : Bool,
    ∃ d, fromPrefix syms p contains asPartial = .ok d ∧ d.validate = .ok ()
  dfa_from_substring : ∀ {α : Type} [DecidableEq α] (syms p : List α) (contains sf : Bool),
    ∃ d, fromSubstring syms p contains sf = .ok d ∧ d.validate = .ok ()
  dfa_from_suffix : ∀ {α : Type} [DecidableEq α] (syms p : List α) (contains : Bool),
    ∃ d, fromSuffix syms p contains = .ok d ∧ d.validate = .ok ()
  dfa_from_substrings : ∀ {α : Type} [DecidableEq α] (syms : List α), syms.Nodup →
    ∀ (pats : List (List α)) (contains sf : Bool), (∀ p ∈ pats, ∀ c ∈ p, c ∈ syms) →
    ∃ d, fromSubstrings syms pats contains sf = .ok d ∧ d.validate = .ok ()
  dfa_from_finite_language : ∀ {α : Type} [DecidableEq α] (lt : α → α → Bool),
    FL.StrictTotal lt → ∀ syms : List α, syms.Nodup → ∀ lang : List (List α), lang.Nodup →
    ∀ asPartial : Bool, (∀ w ∈ lang, ∀ c ∈ w, c ∈ syms) →
    ∃ d, fromFiniteLanguage lt syms lang asPartial = .ok d ∧ d.validate = .ok ()

/-! ## the proof: every field cites the property that owns the operation -/

private theorem ofBuilds {σ α : Type} [DecidableEq σ] [DecidableEq α] {r : Res (DFA σ α)}
    {syms : List α} {L : List α → Prop} (h : C15.Builds r syms L) :
    ∃ d, r = .ok d ∧ d.validate = .ok () :=
  let ⟨d, hd, hv, _⟩ := h
  ⟨d, hd, hv⟩

private theorem ofC08 {σ α : Type} [DecidableEq σ] [DecidableEq α] {r : Res (NFA σ α)}
    {L : Language α} (h : ∃ R, r = .ok R ∧ R.Valid ∧ C08.Lang R = L) :
    ∃ R, r = .ok R ∧ R.validate = .ok () ∧ R.Valid :=
  let ⟨R, hR, hV, _⟩ := h
  ⟨R, hR, hV.validate, hV⟩

/-- **C19 (results are valid).**  Every automaton-valued operation of the library that has a
model returns — for all valid operands, under the hypotheses of the theorem that owns it — an
automaton that passes the `validate` of its class. -/
theorem C19_results_valid : ResultsValid where
  dfa_binop := fun op A B hA hB pA hs =>
    let ⟨R, h, v, _⟩ := C04.C04_binop_valid op A B hA hB pA hs
    ⟨R, h, v⟩
  dfa_binop_any_alphabets := fun op A B hA hB pA R hR => by
    cases hs : A.symsEq B with
    | true =>
      obtain ⟨R', h, v, _⟩ := C04.C04_binop_valid op A B hA hB pA hs
      rw [h] at hR
      cases hR
      exact v
    | false =>
      rw [(C04.C04_mismatch op A B hs (fun _ => 0)).1] at hR
      cases hR
  dfa_binop_renumbered := fun op A B hA hB pA hs =>
    let ⟨R, h, v, _⟩ := C04.C04_binop_renumbered op A B hA hB pA hs
    ⟨R, h, v⟩
  dfa_binop_min := fun op A B pick hA hB pA hs =>
    let ⟨M, h, v, _⟩ := C04.C04_binop_min op A B pick hA hB pA hs
    ⟨M, h, v⟩
  dfa_binop_min_renumbered := fun op A B pick hA hB pA hs =>
    let ⟨M, h, v, p, _⟩ := C04.C04_binop_min op A B pick hA hB pA hs
    ⟨M, h, renumber_valid M v p (C04.binopMin_keys h)⟩
  dfa_to_complete := fun d trap custom hd pd ht =>
    let ⟨C, h, v, _⟩ := C04.C04_to_complete d hd pd trap custom ht
    ⟨C, h, v⟩
  dfa_complement := fun d trap hd pd ht =>
    let ⟨R, h, v, _⟩ := C04.C04_complement d hd pd trap ht
    ⟨R, h, v⟩
  dfa_complement_min := fun d trap pick hd pd ht =>
    let ⟨M, h, v, _⟩ := C04.C04_complement_min d trap pick hd pd ht
    ⟨M, h, v⟩
  dfa_complement_min_renumbered := fun d trap pick hd pd ht =>
    let ⟨M, h, v, p, _⟩ := C04.C04_complement_min d trap pick hd pd ht
    ⟨M, h, renumber_valid M v p (C04.complementMinFull_keys h)⟩
  dfa_to_partial := fun d hd pd => (C04.C04_to_partial d hd pd).1
  dfa_to_partial_min := fun d pick hd pd => (C04.C04_to_partial_min d pick hd pd).1
  dfa_to_partial_min_renumbered := fun d pick hd pd =>
    let ⟨v, p, _⟩ := C04.C04_to_partial_min d pick hd pd
    renumber_valid _ v p (C04.toPartialMin_keys d pick)
  dfa_minify := fun d pick hd pd => (C05.C05_valid d hd pd pick).1
  dfa_minify_renumbered := fun d pick hd pd =>
    let ⟨v, _, p⟩ := C05.C05_valid d hd pd pick
    renumber_valid _ v p (C04.minifyCore_keys _ _ _ _ _ _)
  dfa_expr := fun trapOf hfresh pick Sg e hl =>
    let ⟨R, h, s⟩ := C04.C04_expr_all trapOf hfresh pick Sg e hl
    ⟨R, h, s.valid⟩
  dfa_from_nfa := fun n hv => C07.C07_from_nfa_valid n hv
  dfa_from_nfa_renumbered := fun n hv ps => (C07.C07_from_nfa_renumbered n hv ps).1
  dfa_from_nfa_min := fun n pick hv ps => (C07.C07_from_nfa_min n hv ps pick).1
  dfa_from_nfa_min_renumbered := fun n pick hv ps =>
    renumber_valid _ (C07.C07_from_nfa_min n hv ps pick).1 (C07.C07_from_nfa_min_pyShape n hv ps pick)
      (C04.minifyCore_keys _ _ _ _ _ _)
  nfa_from_dfa := fun d hv => C07.C07_from_dfa_valid d hv
  nfa_eliminate_lambda := fun n hv ps => C07.C07_elim_valid n hv ps
  nfa_union := fun A B hA hB => ofC08 (C08.C08_union A B hA hB)
  nfa_or := fun A B hA hB => ofC08 (C08.C08_or A B hA hB)
  nfa_concatenate := fun A B hA hB => ofC08 (C08.C08_concatenate A B hA hB)
  nfa_add := fun A B hA hB => ofC08 (C08.C08_add A B hA hB)
  nfa_intersection := fun A B hA hB => ofC08 (C08.C08_intersection A B hA hB)
  nfa_and := fun A B hA hB => ofC08 (C08.C08_and A B hA hB)
  nfa_shuffle_product := fun A B hA hB => ofC08 (C08.C08_shuffle_product A B hA hB)
  nfa_right_quotient := fun A B hA hB => ofC08 (C08.C08_right_quotient A B hA hB)
  nfa_left_quotient := fun A B hA hB => ofC08 (C08.C08_left_quotient A B hA hB)
  nfa_kleene_star := fun nat hnat A hA => ofC08 (C08.C08_kleene_star nat hnat A hA)
  nfa_option := fun nat hnat A hA => ofC08 (C08.C08_option nat hnat A hA)
  nfa_reverse := fun nat hnat A hA => ofC08 (C08.C08_reverse nat hnat A hA)
  nfa_from_regex := fun hr hg syms hres hlits =>
    let ⟨N, h, v, _⟩ := C10.C10_compile hr hg syms hres hlits
    ⟨N, h, v⟩
  nfa_from_regex_default := fun hr hg =>
    let ⟨N, h, v, _⟩ := C10.C10_compile_default hr hg
    ⟨N, h, v⟩
  nfa_edit_distance := fun syms ref k ins del sub hk hflag href =>
    let ⟨R, h, v, _⟩ := C16.C16_edit_distance syms ref k ins del sub hk hflag href
    ⟨R, h, v⟩
  gnfa_from_dfa := fun natName hinj d hv hlit =>
    let ⟨g, h⟩ := C12.C12_from_dfa_total natName hinj d hv hlit
    ⟨g, h, finishBuild_ok_valid _ _ _ _ _ _ _ g h⟩
  gnfa_from_nfa := fun natName hinj n hv hkeys htgts hlit =>
    let ⟨g, h⟩ := C12.C12_from_nfa_total natName hinj n hv hkeys htgts hlit
    ⟨g, h, finishBuild_ok_valid _ _ _ _ _ _ _ g h⟩
  dfa_universal_language := fun syms => ofBuilds (C15.C15_universal syms).1
  dfa_empty_language := fun syms => ofBuilds (C15.C15_empty syms).1
  dfa_count_mod := fun syms k hk remainders count hrem =>
    ofBuilds (C15.C15_count_mod syms k hk remainders count hrem)
  dfa_of_length := fun syms minLen hmin maxLen count =>
    ofBuilds (C15.C15_of_length syms minLen hmin maxLen count)
  dfa_nth_from_start := fun syms s n hn hs => ofBuilds (C15.C15_nth_from_start syms s n hn hs)
  dfa_nth_from_end := fun syms s n hn hs => ofBuilds (C15.C15_nth_from_end syms s n hn hs)
  dfa_from_subsequence := fun syms p hp contains =>
    ofBuilds (C15.C15_from_subsequence syms p hp contains)
  dfa_from_prefix := fun syms p hp contains asPartial =>
    ofBuilds (C15.C15_from_prefix syms p hp contains asPartial)
  dfa_from_substring := fun syms p contains sf => by
    cases sf with
    | false => exact ofBuilds (C15.C15_from_substring syms p contains)
    | true => exact ofBuilds (C15.C15_from_suffix syms p contains).2
  dfa_from_suffix := fun syms p contains => ofBuilds (C15.C15_from_suffix syms p contains).1
  dfa_from_substrings := fun syms hsyms pats contains sf hover =>
    ofBuilds (C15.C15_from_substrings syms hsyms pats contains sf hover)
  dfa_from_finite_language := fun lt ho syms hsyms lang hnd asPartial hover =>
    ofBuilds (C15.C15_from_finite_language lt ho syms hsyms lang hnd asPartial hover).1

/-! ## non-vacuity -/

/-- The statement is about concrete runs of the models: the product of the two C04 example DFAs,
minified and renumbered (the default call `exA ^ exB`), passes `validate`. -/
example : (match C04.exA.binopMin .symm C04.exB (fun _ => 0) with
           | .ok M => M.renumber.validate
           | .error e => .error e) = .ok () := by decide

/-- … and so does the union of the two C08 example NFAs. -/
example : (match NFA.union C08.exA C08.exB with
           | .ok R => R.validate
           | .error e => .error e) = .ok () := by decide

end AV.Props.C19
