/-
Props/C13.lean — C13: word counting, enumeration, lengths and random sampling match the
language.

English statement (properties.jsonl): for every DFA and length k, the reported number of
accepted words of length k, the list of those words (each once, in sorted order), the minimum
and maximum word length, the cardinality / len of a finite language and iteration over the
language (ordered by length, then lexicographically, every accepted word eventually and
nothing else) all equal what the language itself dictates; infinite or empty languages raise
the documented exceptions where a number is impossible, and iterating an empty language
produces no word.  A random word of length k is always an accepted word of length k, every
such word is equally likely, and asking for a length with no words raises ValueError.

The language of `d` is `{w | d.accepts w = true}` with `accepts` the reader of C01 (proved
there equal to Mathlib's `DFA.accepts`).  "Valid" is `d.validate = .ok ()` (the constructor's
check); `d.IsDict` says that the association lists of the model have unique keys, as Python
dicts do; `d.KeyInj key` says that `key` (the code point, by which Python compares
one-character strings) is injective on the alphabet.  Word order is `lexLt key` = Python's `<`
on strings.  The functions are those a *fresh* object computes; C20 proves that caches never
change them.
-/
import AutomataVerif.Proofs.Query
import AutomataVerif.Proofs.Random
import Mathlib.Data.Set.Card
import Mathlib.Order.Interval.Finset.Nat
import Mathlib.Tactic.FieldSimp
import Mathlib.Algebra.Order.Field.Rat

namespace AV.Props.C13
open AV AV.DFA

variable {σ α : Type} [DecidableEq σ] [DecidableEq α]

/-- The language of `d`. -/
def Lang (d : AV.DFA σ α) : Set (List α) := {w | d.accepts w = true}

/-! ## words_of_length / count_words_of_length -/

/-- `words_of_length(k)` yields exactly the accepted words of length `k`. -/
theorem C13_words_mem (d : AV.DFA σ α) (hv : d.validate = .ok ()) (key : α → Int) (k : Nat)
    (w : List α) : w ∈ d.wordsOfLength key k ↔ w.length = k ∧ w ∈ Lang d := by
  have wf := (DFA.validate_eq_ok d).mp hv
  exact mem_wordLevel wf key k d.init w (Or.inr wf.initOk)

/-- The same for the table entry of every state (the DP table the code keeps per level):
`_word_cache[k][q]` = the words of length `k` accepted from `q`. -/
theorem C13_word_table (d : AV.DFA σ α) (hv : d.validate = .ok ()) (key : α → Int) (k : Nat)
    (q : σ) (hq : q ∈ d.states) (w : List α) :
    w ∈ wget (d.wordLevel key k) q ↔ w.length = k ∧ d.acceptsFrom q w = true :=
  mem_wordLevel ((DFA.validate_eq_ok d).mp hv) key k q w (Or.inr hq)

/-- … in strictly increasing order (Python's string order): sorted, and each word once. -/
theorem C13_words_sorted (d : AV.DFA σ α) (hv : d.validate = .ok ()) (hd : d.IsDict)
    (key : α → Int) (hk : d.KeyInj key) (k : Nat) :
    (d.wordsOfLength key k).Pairwise (lexLt key) :=
  sorted_wordLevel ((DFA.validate_eq_ok d).mp hv) hd key hk k d.init

theorem C13_words_nodup (d : AV.DFA σ α) (hv : d.validate = .ok ()) (hd : d.IsDict)
    (key : α → Int) (hk : d.KeyInj key) (k : Nat) : (d.wordsOfLength key k).Nodup :=
  nodup_wordLevel ((DFA.validate_eq_ok d).mp hv) hd key hk k d.init

/-- `count_words_of_length(k)` is the length of that list … -/
theorem C13_count (d : AV.DFA σ α) (hd : d.IsDict) (key : α → Int) (k : Nat) :
    d.countWordsOfLength k = (d.wordsOfLength key k).length :=
  cget_countLevel_eq_length hd key k d.init

/-- … hence the number of accepted words of length `k` (cardinality of the set). -/
theorem C13_count_card (d : AV.DFA σ α) (hv : d.validate = .ok ()) (hd : d.IsDict) (key : α → Int)
    (hk : d.KeyInj key) (k : Nat) :
    Set.ncard {w | w.length = k ∧ w ∈ Lang d} = d.countWordsOfLength k := by
  classical
  have hset : {w | w.length = k ∧ w ∈ Lang d} = ↑(d.wordsOfLength key k).toFinset := by
    ext w
    simp only [Set.mem_ofPred_eq, List.coe_toFinset]
    exact (C13_words_mem d hv key k w).symm
  rw [hset, Set.ncard_coe_finset, List.toFinset_card_of_nodup (C13_words_nodup d hv hd key hk k),
    C13_count d hd key k]

/-- The count does not depend on the key at all (it is computed without sorting); an injective
key exists for every alphabet that can be listed, so the count is the cardinality whenever
some ordering of the symbols exists. -/
theorem C13_count_zero_iff (d : AV.DFA σ α) (hv : d.validate = .ok ()) (hd : d.IsDict) (k : Nat) :
    d.countWordsOfLength k = 0 ↔ ∀ w, w.length = k → w ∉ Lang d := by
  rw [C13_count d hd (fun _ => 0) k]
  constructor
  · intro h w hl hw
    have := (C13_words_mem d hv (fun _ => 0) k w).mpr ⟨hl, hw⟩
    rw [List.length_eq_zero_iff.mp h] at this
    cases this
  · intro h
    rw [List.length_eq_zero_iff, List.eq_nil_iff_forall_not_mem]
    intro w hw
    have := (C13_words_mem d hv (fun _ => 0) k w).mp hw
    exact h w this.1 this.2


/-! ## random_word

`randomWord d k cs` is `random_word(k)` where `cs` lists the successive results of
`rng.randint(0, total - 1)`.  `InRange` is the contract of `randint`: every result is below the
`total` of its step.  Uniformity is a counting statement about these results. -/

theorem cnt_pos_of_acceptsFrom {d : AV.DFA σ α} (wf : d.WF) (hd : d.IsDict) {q : σ} (hq : q ∈ d.states)
    {w : List α} (hw : d.acceptsFrom q w = true) : 0 < d.cnt w.length q := by
  unfold DFA.cnt
  rw [cget_countLevel_eq_length hd (fun _ => 0)]
  exact List.length_pos_of_mem ((mem_wordLevel wf (fun _ => 0) w.length q w (Or.inr hq)).mpr ⟨rfl, hw⟩)

/-- A random word of length `k` is an accepted word of length `k` (no exception, no
fall-through of the inner loop) whenever such words exist. -/
theorem C13_random_member (d : AV.DFA σ α) (hv : d.validate = .ok ()) (hd : d.IsDict) (k : Nat)
    (cs : List Nat) (hpos : d.countWordsOfLength k ≠ 0) (hin : d.InRange k d.init cs) :
    ∃ w, d.randomWord k cs = .ok w ∧ w.length = k ∧ w ∈ Lang d := by
  have wf := (DFA.validate_eq_ok d).mp hv
  have hpos' : 0 < d.cnt k d.init := Nat.pos_of_ne_zero hpos
  obtain ⟨w, qf, hrun, hlen, hrd, hfin⟩ := randomWordLoop_ok wf hd k d.init cs [] wf.initOk hpos' hin
  refine ⟨w, ?_, hlen, ?_⟩
  · rw [randomWord_eq]
    unfold DFA.randomWordCore
    have h0 : decide (d.cnt k d.init = 0) = false := by simp; omega
    simp only [h0, hrun, List.reverse_nil, List.nil_append]
    simp [hfin]
  · show d.accepts w = true
    simp [DFA.accepts, hrd, DFA.isFinal, hfin]

/-- Asking for a length with no words raises `ValueError` … -/
theorem C13_random_none (d : AV.DFA σ α) (k : Nat) (cs : List Nat)
    (h0 : d.countWordsOfLength k = 0) : d.randomWord k cs = .error (.py .valueError) := by
  rw [randomWord_eq]
  unfold DFA.randomWordCore
  have h0' : d.cnt k d.init = 0 := h0
  have : decide (d.cnt k d.init = 0) = true := by simpa using h0'
  simp only [this]

/-- … and only then: `ValueError` iff the language has no word of length `k`. -/
theorem C13_random_valueError_iff (d : AV.DFA σ α) (hv : d.validate = .ok ()) (hd : d.IsDict)
    (k : Nat) (cs : List Nat) (hin : d.InRange k d.init cs) :
    d.randomWord k cs = .error (.py .valueError) ↔ ∀ w, w.length = k → w ∉ Lang d := by
  rw [← C13_count_zero_iff d hv hd k]
  constructor
  · intro he
    by_cases h0 : d.countWordsOfLength k = 0
    · exact h0
    · obtain ⟨w, hw, _⟩ := C13_random_member d hv hd k cs h0 hin
      rw [hw] at he; cases he
  · exact C13_random_none d k cs

/-- Number of outcomes `c` of `randint(0, total - 1)` — in the state `q` with `r + 1` symbols
to go, `total = _count_cache[r+1][q]` — for which the inner loop selects the edge `e`. -/
def selecting (d : AV.DFA σ α) (r : Nat) (q : σ) (e : α × σ) : Nat :=
  ((Finset.range (d.cnt (r + 1) q)).filter fun c => pickEdge (d.cnt r) (d.row q) c = some e).card

/-- **One step is count-weighted**: the edge `(a, q')` is selected by exactly
`_count_cache[r][q']` of the `total` equally likely outcomes. -/
theorem C13_random_step (d : AV.DFA σ α) (hd : d.IsDict) (r : Nat) (q : σ)
    (hq : q ∈ d.states) (e : α × σ) (he : e ∈ d.row q) : selecting d r q e = d.cnt r e.2 := by
  have hnd : (d.row q).Nodup := by
    have := row_keys_nodup hd q
    unfold akeys at this
    exact List.Nodup.of_map _ this
  obtain ⟨pre, post, hrow⟩ := List.append_of_mem he
  rw [hrow] at hnd
  have hpre : e ∉ pre := by
    intro h
    have := (List.nodup_append.mp hnd).2.2 e h e (List.mem_cons_self)
    exact this rfl
  have hpost : e ∉ post := by
    have := (List.nodup_append.mp hnd).2.1
    exact (List.nodup_cons.mp this).1
  unfold selecting
  have htotal : d.cnt (r + 1) q = weight (d.cnt r) pre + (d.cnt r e.2 + weight (d.cnt r) post) := by
    rw [cnt_succ]; simp [hq, hrow, weight_append]
  have : (Finset.range (d.cnt (r + 1) q)).filter
      (fun c => pickEdge (d.cnt r) (d.row q) c = some e) =
      Finset.Ico (weight (d.cnt r) pre) (weight (d.cnt r) pre + d.cnt r e.2) := by
    ext c
    simp only [Finset.mem_filter, Finset.mem_range, Finset.mem_Ico, hrow,
      pickEdge_eq_some_iff (d.cnt r) pre post e hpre hpost c]
    omega
  rw [this, Nat.card_Ico]
  omega

/-- Probability that the loop, started in `q` with `|w|` symbols to go, outputs `w`, when every
`randint(0, total - 1)` is uniform and independent of the earlier ones: the product over the
steps of (number of outcomes selecting the symbol) / `total`. -/
def wordProb (d : AV.DFA σ α) : σ → List α → ℚ
  | _, [] => 1
  | q, a :: w =>
    match d.step? (some q) a with
    | some t => (selecting d w.length q (a, t) : ℚ) / (d.cnt (w.length + 1) q : ℚ) * wordProb d t w
    | none => 0

theorem wordProb_eq {d : AV.DFA σ α} (wf : d.WF) (hd : d.IsDict) :
    ∀ (w : List α) (q : σ), q ∈ d.states → d.acceptsFrom q w = true →
      wordProb d q w = 1 / (d.cnt w.length q : ℚ) := by
  intro w
  induction w with
  | nil =>
    intro q _ hw
    have : q ∈ d.finals := by simpa [DFA.acceptsFrom, DFA.isFinal] using hw
    simp only [wordProb, cnt_zero, this, if_true, List.length_nil]
    norm_num
  | cons a w ih =>
    intro q hq hw
    simp only [DFA.acceptsFrom, DFA.run_cons] at hw
    cases hs : d.step? (some q) a with
    | none => rw [hs, isFinal_run_cons_none] at hw; cases hw
    | some t =>
      rw [hs] at hw
      have hmem : (a, t) ∈ d.row q := alookup_some_mem hs
      have ht : t ∈ d.states := row_vals_states wf (alookup_some_val_mem hs)
      have hpos := cnt_pos_of_acceptsFrom wf hd ht hw
      have hpos' : 0 < d.cnt (w.length + 1) q :=
        cnt_pos_of_acceptsFrom wf hd hq (w := a :: w) (by simp [DFA.acceptsFrom, DFA.run_cons, hs, hw])
      simp only [wordProb, hs, C13_random_step d hd w.length q hq (a, t) hmem, ih t ht hw,
        List.length_cons]
      have h1 : (d.cnt w.length t : ℚ) ≠ 0 := by exact_mod_cast Nat.pos_iff_ne_zero.mp hpos
      have h2 : (d.cnt (w.length + 1) q : ℚ) ≠ 0 := by exact_mod_cast Nat.pos_iff_ne_zero.mp hpos'
      generalize (d.cnt w.length t : ℚ) = x at h1 ⊢
      generalize (d.cnt (w.length + 1) q : ℚ) = y at h2 ⊢
      field_simp

/-- **Uniformity**: every accepted word of length `k` is produced with probability exactly
`1 / count_words_of_length(k)`, the same for all of them. -/
theorem C13_random_uniform (d : AV.DFA σ α) (hv : d.validate = .ok ()) (hd : d.IsDict)
    (w : List α) (hw : w ∈ Lang d) :
    wordProb d d.init w = 1 / (d.countWordsOfLength w.length : ℚ) :=
  wordProb_eq ((DFA.validate_eq_ok d).mp hv) hd w d.init ((DFA.validate_eq_ok d).mp hv).initOk hw

/-- Words outside the language (or unreadable) have probability 0. -/
theorem C13_random_zero (d : AV.DFA σ α) (hv : d.validate = .ok ()) (hd : d.IsDict) :
    ∀ (w : List α) (q : σ), q ∈ d.states → d.acceptsFrom q w = false → 0 < w.length →
      wordProb d q w = 0 := by
  have wf := (DFA.validate_eq_ok d).mp hv
  intro w
  induction w with
  | nil => intro q _ _ h; simp at h
  | cons a w ih =>
    intro q hq hw _
    simp only [DFA.acceptsFrom, DFA.run_cons] at hw
    cases hs : d.step? (some q) a with
    | none => simp [wordProb, hs]
    | some t =>
      rw [hs] at hw
      have hmem : (a, t) ∈ d.row q := alookup_some_mem hs
      have ht : t ∈ d.states := row_vals_states wf (alookup_some_val_mem hs)
      simp only [wordProb, hs, C13_random_step d hd w.length q hq (a, t) hmem]
      cases w with
      | nil =>
        have : t ∉ d.finals := by simpa [DFA.isFinal] using hw
        simp [cnt_zero, this, wordProb]
      | cons b w' =>
        rw [ih t ht hw (by simp)]
        simp

/-! ## non-vacuity -/

/-- `0*1⁺` over symbols 0,1 (state 2 is a trap): a complete DFA with an infinite language. -/
def exD : AV.DFA Nat Int :=
  { states := [0, 1, 2], syms := [0, 1],
    trans := [(0, [(0, 0), (1, 1)]), (1, [(0, 2), (1, 1)]), (2, [(0, 2), (1, 2)])],
    init := 0, finals := [1], allowPartial := false }

/-- `{ε, 0, 01, 1, 10, 11}`-like finite language, partial table. -/
def exF : AV.DFA Nat Int :=
  { states := [0, 1, 2, 3], syms := [0, 1],
    trans := [(0, [(1, 2), (0, 1)]), (1, [(1, 3)]), (2, [(0, 3), (1, 3)]), (3, [])],
    init := 0, finals := [0, 1, 2, 3], allowPartial := true }

example : exD.validate = .ok () := by decide
example : exF.validate = .ok () := by decide
example : exD.IsDict := ⟨by decide, by decide⟩
example : exF.IsDict := ⟨by decide, by decide⟩
example : exD.KeyInj id := by unfold DFA.KeyInj; decide
example : exD.wordsOfLength id 3 = [[0, 0, 1], [0, 1, 1], [1, 1, 1]] ∧ exD.countWordsOfLength 3 = 3 := by
  decide
example : exF.wordsOfLength id 2 = [[0, 1], [1, 0], [1, 1]] ∧ exF.countWordsOfLength 2 = 3 ∧
    exF.countWordsOfLength 3 = 0 := by decide

example : exD.InRange 2 exD.init [1, 0] := by decide
example : exD.randomWord 2 [1, 0] = .ok [1, 1] ∧ exD.randomWord 2 [0, 0] = .ok [0, 1] := by decide
example : exF.randomWord 3 [] = .error (.py .valueError) := by decide

end AV.Props.C13
