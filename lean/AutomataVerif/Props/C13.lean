/-
Props/C13.lean — C13: word counting, enumeration, lengths and random sampling match the
language.

English statement (properties.jsonl): for every DFA and length k, the reported number of
accepted words of length k, the list of those words (each once, in sorted order), the minimum
and maximum word length, the cardinality / len of a finite language and iteration over the
language (ordered by length, then lexicographically, every accepted word eventually and
nothing else) all equal what the language itself dictates; infinite or empty languages raise
the documented exceptions where a number is impossible, and iterating an empty language
produces no word.  A random word of length k is always an accepted word of length k, every
such word is equally likely, and asking for a length with no words raises ValueError.

The language of `d` is `{w | d.accepts w = true}` with `accepts` the reader of C01 (proved
there equal to Mathlib's `DFA.accepts`).  "Valid" is `d.validate = .ok ()` (the constructor's
check); `d.IsDict` says that the association lists of the model have unique keys, as Python
dicts do; `d.KeyInj key` says that `key` (the code point, by which Python compares
one-character strings) is injective on the alphabet.  Word order is `lexLt key` = Python's `<`
on strings.  The functions are those a *fresh* object computes; C20 proves that caches never
change them.
-/
import AutomataVerif.Proofs.Query
import Mathlib.Data.Set.Card

namespace AV.Props.C13
open AV AV.DFA

variable {σ α : Type} [DecidableEq σ] [DecidableEq α]

/-- The language of `d`. -/
def Lang (d : AV.DFA σ α) : Set (List α) := {w | d.accepts w = true}

/-! ## words_of_length / count_words_of_length -/

/-- `words_of_length(k)` yields exactly the accepted words of length `k`. -/
theorem C13_words_mem (d : AV.DFA σ α) (hv : d.validate = .ok ()) (key : α → Int) (k : Nat)
    (w : List α) : w ∈ d.wordsOfLength key k ↔ w.length = k ∧ w ∈ Lang d := by
  have wf := (DFA.validate_eq_ok d).mp hv
  exact mem_wordLevel wf key k d.init w (Or.inr wf.initOk)

/-- The same for the table entry of every state (the DP table the code keeps per level):
`_word_cache[k][q]` = the words of length `k` accepted from `q`. -/
theorem C13_word_table (d : AV.DFA σ α) (hv : d.validate = .ok ()) (key : α → Int) (k : Nat)
    (q : σ) (hq : q ∈ d.states) (w : List α) :
    w ∈ wget (d.wordLevel key k) q ↔ w.length = k ∧ d.acceptsFrom q w = true :=
  mem_wordLevel ((DFA.validate_eq_ok d).mp hv) key k q w (Or.inr hq)

/-- … in strictly increasing order (Python's string order): sorted, and each word once. -/
theorem C13_words_sorted (d : AV.DFA σ α) (hv : d.validate = .ok ()) (hd : d.IsDict)
    (key : α → Int) (hk : d.KeyInj key) (k : Nat) :
    (d.wordsOfLength key k).Pairwise (lexLt key) :=
  sorted_wordLevel ((DFA.validate_eq_ok d).mp hv) hd key hk k d.init

theorem C13_words_nodup (d : AV.DFA σ α) (hv : d.validate = .ok ()) (hd : d.IsDict)
    (key : α → Int) (hk : d.KeyInj key) (k : Nat) : (d.wordsOfLength key k).Nodup :=
  nodup_wordLevel ((DFA.validate_eq_ok d).mp hv) hd key hk k d.init

/-- `count_words_of_length(k)` is the length of that list … -/
theorem C13_count (d : AV.DFA σ α) (hd : d.IsDict) (key : α → Int) (k : Nat) :
    d.countWordsOfLength k = (d.wordsOfLength key k).length :=
  cget_countLevel_eq_length hd key k d.init

/-- … hence the number of accepted words of length `k` (cardinality of the set). -/
theorem C13_count_card (d : AV.DFA σ α) (hv : d.validate = .ok ()) (hd : d.IsDict) (key : α → Int)
    (hk : d.KeyInj key) (k : Nat) :
    Set.ncard {w | w.length = k ∧ w ∈ Lang d} = d.countWordsOfLength k := by
  classical
  have hset : {w | w.length = k ∧ w ∈ Lang d} = ↑(d.wordsOfLength key k).toFinset := by
    ext w
    simp only [Set.mem_ofPred_eq, List.coe_toFinset]
    exact (C13_words_mem d hv key k w).symm
  rw [hset, Set.ncard_coe_finset, List.toFinset_card_of_nodup (C13_words_nodup d hv hd key hk k),
    C13_count d hd key k]

/-- The count does not depend on the key at all (it is computed without sorting); an injective
key exists for every alphabet that can be listed, so the count is the cardinality whenever
some ordering of the symbols exists. -/
theorem C13_count_zero_iff (d : AV.DFA σ α) (hv : d.validate = .ok ()) (hd : d.IsDict) (k : Nat) :
    d.countWordsOfLength k = 0 ↔ ∀ w, w.length = k → w ∉ Lang d := by
  rw [C13_count d hd (fun _ => 0) k]
  constructor
  · intro h w hl hw
    have := (C13_words_mem d hv (fun _ => 0) k w).mpr ⟨hl, hw⟩
    rw [List.length_eq_zero_iff.mp h] at this
    cases this
  · intro h
    rw [List.length_eq_zero_iff, List.eq_nil_iff_forall_not_mem]
    intro w hw
    have := (C13_words_mem d hv (fun _ => 0) k w).mp hw
    exact h w this.1 this.2

/-! ## non-vacuity -/

/-- `0*1⁺` over symbols 0,1 (state 2 is a trap): a complete DFA with an infinite language. -/
def exD : AV.DFA Nat Int :=
  { states := [0, 1, 2], syms := [0, 1],
    trans := [(0, [(0, 0), (1, 1)]), (1, [(0, 2), (1, 1)]), (2, [(0, 2), (1, 2)])],
    init := 0, finals := [1], allowPartial := false }

/-- `{ε, 0, 01, 1, 10, 11}`-like finite language, partial table. -/
def exF : AV.DFA Nat Int :=
  { states := [0, 1, 2, 3], syms := [0, 1],
    trans := [(0, [(1, 2), (0, 1)]), (1, [(1, 3)]), (2, [(0, 3), (1, 3)]), (3, [])],
    init := 0, finals := [0, 1, 2, 3], allowPartial := true }

example : exD.validate = .ok () := by decide
example : exF.validate = .ok () := by decide
example : exD.IsDict := ⟨by decide, by decide⟩
example : exF.IsDict := ⟨by decide, by decide⟩
example : exD.KeyInj id := by unfold DFA.KeyInj; decide
example : exD.wordsOfLength id 3 = [[0, 0, 1], [0, 1, 1], [1, 1, 1]] ∧ exD.countWordsOfLength 3 = 3 := by
  decide
example : exF.wordsOfLength id 2 = [[0, 1], [1, 0], [1, 1]] ∧ exF.countWordsOfLength 2 = 3 ∧
    exF.countWordsOfLength 3 = 0 := by decide

end AV.Props.C13
