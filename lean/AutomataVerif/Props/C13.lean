/-
Props/C13.lean — C13: word counting, enumeration, lengths and random sampling match the
language.

English statement (properties.jsonl): for every DFA and length k, the reported number of
accepted words of length k, the list of those words (each once, in sorted order), the minimum
and maximum word length, the cardinality / len of a finite language and iteration over the
language (ordered by length, then lexicographically, every accepted word eventually and
nothing else) all equal what the language itself dictates; infinite or empty languages raise
the documented exceptions where a number is impossible, and iterating an empty language
produces no word.  A random word of length k is always an accepted word of length k, every
such word is equally likely, and asking for a length with no words raises ValueError.

The language of `d` is `{w | d.accepts w = true}` with `accepts` the reader of C01 (proved
there equal to Mathlib's `DFA.accepts`).  "Valid" is `d.validate = .ok ()` (the constructor's
check); `d.IsDict` says that the association lists of the model have unique keys, as Python
dicts do; `d.KeyInj key` says that `key` (the code point, by which Python compares
one-character strings) is injective on the alphabet.  Word order is `lexLt key` = Python's `<`
on strings.  The functions are those a *fresh* object computes; C20 proves that caches never
change them.

Two clauses need care.  (1) "len of a finite language": the method `__len__` is `cardinality()`
(`C13_cardinality`), but the builtin `len(dfa)` converts its result to a `Py_ssize_t`: from 2^63
words on it raises `OverflowError` (`DFA.lenBuiltin`, Model/DFALen.lean).  `C13_len` is the
statement that holds, `C13_len_full_fails` refutes the unrestricted one with a concrete finite
language (open finding `C13:len-overflow-2^63`).  (2) "every such word is equally likely" is a
statement about the OUTPUT of `randomWord`: `C13_random_output_iff` characterises the event
`randomWord k cs = .ok w` and `C13_random_uniform_output` computes its probability, `1/count`,
over the loop's own draw tree (every `randint(0, total-1)` result uniform on its range and
independent of the earlier ones).
-/
import AutomataVerif.Proofs.Query
import AutomataVerif.Proofs.Random
import AutomataVerif.Proofs.Iter
import AutomataVerif.Proofs.RandomSel
import AutomataVerif.Model.DFALen
import Mathlib.Order.Bounds.Basic
import Mathlib.Data.Set.Finite.Basic
import Mathlib.Data.List.Basic
import Mathlib.Data.List.Nodup
import Mathlib.Data.Set.Card
import Mathlib.Order.Interval.Finset.Nat
import Mathlib.Tactic.FieldSimp
import Mathlib.Algebra.Order.Field.Rat
import Mathlib.Algebra.BigOperators.Ring.Finset
import Mathlib.Algebra.BigOperators.Group.Finset.Piecewise

namespace AV.Props.C13
open AV AV.DFA

variable {σ α : Type} [DecidableEq σ] [DecidableEq α]

/-- The language of `d`. -/
def Lang (d : AV.DFA σ α) : Set (List α) := {w | d.accepts w = true}

/-! ## words_of_length / count_words_of_length -/

/-- `words_of_length(k)` yields exactly the accepted words of length `k`. -/
theorem C13_words_mem (d : AV.DFA σ α) (hv : d.validate = .ok ()) (key : α → Int) (k : Nat)
    (w : List α) : w ∈ d.wordsOfLength key k ↔ w.length = k ∧ w ∈ Lang d := by
  have wf := (DFA.validate_eq_ok d).mp hv
  exact mem_wordLevel wf key k d.init w (Or.inr wf.initOk)

/-- The same for the table entry of every state (the DP table the code keeps per level):
`_word_cache[k][q]` = the words of length `k` accepted from `q`. -/
theorem C13_word_table (d : AV.DFA σ α) (hv : d.validate = .ok ()) (key : α → Int) (k : Nat)
    (q : σ) (hq : q ∈ d.states) (w : List α) :
    w ∈ wget (d.wordLevel key k) q ↔ w.length = k ∧ d.acceptsFrom q w = true :=
  mem_wordLevel ((DFA.validate_eq_ok d).mp hv) key k q w (Or.inr hq)

/-- … in strictly increasing order (Python's string order): sorted, and each word once. -/
theorem C13_words_sorted (d : AV.DFA σ α) (hv : d.validate = .ok ()) (hd : d.IsDict)
    (key : α → Int) (hk : d.KeyInj key) (k : Nat) :
    (d.wordsOfLength key k).Pairwise (lexLt key) :=
  sorted_wordLevel ((DFA.validate_eq_ok d).mp hv) hd key hk k d.init

theorem C13_words_nodup (d : AV.DFA σ α) (hv : d.validate = .ok ()) (hd : d.IsDict)
    (key : α → Int) (hk : d.KeyInj key) (k : Nat) : (d.wordsOfLength key k).Nodup :=
  nodup_wordLevel ((DFA.validate_eq_ok d).mp hv) hd key hk k d.init

/-- `count_words_of_length(k)` is the length of that list … -/
theorem C13_count (d : AV.DFA σ α) (hd : d.IsDict) (key : α → Int) (k : Nat) :
    d.countWordsOfLength k = (d.wordsOfLength key k).length :=
  cget_countLevel_eq_length hd key k d.init

/-- An ordering key that is injective on the alphabet always exists: the position in the list. -/
def idxKey (d : AV.DFA σ α) : α → Int := fun a => (d.syms.idxOf a : Int)

omit [DecidableEq σ] in
theorem idxKey_inj (d : AV.DFA σ α) : d.KeyInj (idxKey d) := by
  intro a ha b _ h
  have : d.syms.idxOf a = d.syms.idxOf b := by simpa [idxKey] using h
  exact (List.idxOf_inj ha).mp this

/-- … hence the number of accepted words of length `k` (cardinality of the set).  The count is
computed without sorting, so no key appears in the statement (the proof uses the position in the
alphabet list as an injective key). -/
theorem C13_count_card (d : AV.DFA σ α) (hv : d.validate = .ok ()) (hd : d.IsDict) (k : Nat) :
    Set.ncard {w | w.length = k ∧ w ∈ Lang d} = d.countWordsOfLength k := by
  classical
  have hset : {w | w.length = k ∧ w ∈ Lang d} = ↑(d.wordsOfLength (idxKey d) k).toFinset := by
    ext w
    simp only [Set.mem_ofPred_eq, List.coe_toFinset]
    exact (C13_words_mem d hv (idxKey d) k w).symm
  rw [hset, Set.ncard_coe_finset,
    List.toFinset_card_of_nodup (C13_words_nodup d hv hd (idxKey d) (idxKey_inj d) k),
    C13_count d hd (idxKey d) k]

/-- In particular the count is 0 exactly when no accepted word has length `k`. -/
theorem C13_count_zero_iff (d : AV.DFA σ α) (hv : d.validate = .ok ()) (hd : d.IsDict) (k : Nat) :
    d.countWordsOfLength k = 0 ↔ ∀ w, w.length = k → w ∉ Lang d := by
  rw [C13_count d hd (fun _ => 0) k]
  constructor
  · intro h w hl hw
    have := (C13_words_mem d hv (fun _ => 0) k w).mpr ⟨hl, hw⟩
    rw [List.length_eq_zero_iff.mp h] at this
    cases this
  · intro h
    rw [List.length_eq_zero_iff, List.eq_nil_iff_forall_not_mem]
    intro w hw
    have := (C13_words_mem d hv (fun _ => 0) k w).mp hw
    exact h w this.1 this.2


/-! ## random_word

`randomWord d k cs` is `random_word(k)` where `cs` lists the successive results of
`rng.randint(0, total - 1)`.  `InRange` is the contract of `randint`: every result is below the
`total` of its step.  Uniformity is a statement about these results: each is uniform on its
range and independent of the earlier ones (`drawExp` / `drawProb`, section "the output
distribution" below), and the event whose probability is computed is
`d.randomWord k cs = .ok w` (`C13_random_output_iff`, `C13_random_uniform_output`). -/

theorem cnt_pos_of_acceptsFrom {d : AV.DFA σ α} (wf : d.WF) (hd : d.IsDict) {q : σ} (hq : q ∈ d.states)
    {w : List α} (hw : d.acceptsFrom q w = true) : 0 < d.cnt w.length q := by
  unfold DFA.cnt
  rw [cget_countLevel_eq_length hd (fun _ => 0)]
  exact List.length_pos_of_mem ((mem_wordLevel wf (fun _ => 0) w.length q w (Or.inr hq)).mpr ⟨rfl, hw⟩)

/-- A random word of length `k` is an accepted word of length `k` (no exception, no
fall-through of the inner loop) whenever such words exist. -/
theorem C13_random_member (d : AV.DFA σ α) (hv : d.validate = .ok ()) (hd : d.IsDict) (k : Nat)
    (cs : List Nat) (hpos : d.countWordsOfLength k ≠ 0) (hin : d.InRange k d.init cs) :
    ∃ w, d.randomWord k cs = .ok w ∧ w.length = k ∧ w ∈ Lang d := by
  have wf := (DFA.validate_eq_ok d).mp hv
  have hpos' : 0 < d.cnt k d.init := Nat.pos_of_ne_zero hpos
  obtain ⟨w, qf, hrun, hlen, hrd, hfin⟩ := randomWordLoop_ok wf hd k d.init cs [] wf.initOk hpos' hin
  refine ⟨w, ?_, hlen, ?_⟩
  · rw [randomWord_eq]
    unfold DFA.randomWordCore
    have h0 : decide (d.cnt k d.init = 0) = false := by simp; omega
    simp only [h0, hrun, List.reverse_nil, List.nil_append]
    simp [hfin]
  · show d.accepts w = true
    simp [DFA.accepts, hrd, DFA.isFinal, hfin]

/-- Asking for a length with no words raises `ValueError` … -/
theorem C13_random_none (d : AV.DFA σ α) (k : Nat) (cs : List Nat)
    (h0 : d.countWordsOfLength k = 0) : d.randomWord k cs = .error (.py .valueError) := by
  rw [randomWord_eq]
  unfold DFA.randomWordCore
  have h0' : d.cnt k d.init = 0 := h0
  have : decide (d.cnt k d.init = 0) = true := by simpa using h0'
  simp only [this]

/-- … and only then: `ValueError` iff the language has no word of length `k`. -/
theorem C13_random_valueError_iff (d : AV.DFA σ α) (hv : d.validate = .ok ()) (hd : d.IsDict)
    (k : Nat) (cs : List Nat) (hin : d.InRange k d.init cs) :
    d.randomWord k cs = .error (.py .valueError) ↔ ∀ w, w.length = k → w ∉ Lang d := by
  rw [← C13_count_zero_iff d hv hd k]
  constructor
  · intro he
    by_cases h0 : d.countWordsOfLength k = 0
    · exact h0
    · obtain ⟨w, hw, _⟩ := C13_random_member d hv hd k cs h0 hin
      rw [hw] at he; cases he
  · exact C13_random_none d k cs

/-- Number of outcomes `c` of `randint(0, total - 1)` — in the state `q` with `r + 1` symbols
to go, `total = _count_cache[r+1][q]` — for which the inner loop selects the edge `e`. -/
def selecting (d : AV.DFA σ α) (r : Nat) (q : σ) (e : α × σ) : Nat :=
  ((Finset.range (d.cnt (r + 1) q)).filter fun c => pickEdge (d.cnt r) (d.row q) c = some e).card

/-- **One step is count-weighted**: the edge `(a, q')` is selected by exactly
`_count_cache[r][q']` of the `total` equally likely outcomes. -/
theorem C13_random_step (d : AV.DFA σ α) (hd : d.IsDict) (r : Nat) (q : σ)
    (hq : q ∈ d.states) (e : α × σ) (he : e ∈ d.row q) : selecting d r q e = d.cnt r e.2 := by
  have hnd : (d.row q).Nodup := by
    have := row_keys_nodup hd q
    unfold akeys at this
    exact List.Nodup.of_map _ this
  obtain ⟨pre, post, hrow⟩ := List.append_of_mem he
  rw [hrow] at hnd
  have hpre : e ∉ pre := by
    intro h
    have := (List.nodup_append.mp hnd).2.2 e h e (List.mem_cons_self)
    exact this rfl
  have hpost : e ∉ post := by
    have := (List.nodup_append.mp hnd).2.1
    exact (List.nodup_cons.mp this).1
  unfold selecting
  have htotal : d.cnt (r + 1) q = weight (d.cnt r) pre + (d.cnt r e.2 + weight (d.cnt r) post) := by
    rw [cnt_succ]; simp [hq, hrow, weight_append]
  have : (Finset.range (d.cnt (r + 1) q)).filter
      (fun c => pickEdge (d.cnt r) (d.row q) c = some e) =
      Finset.Ico (weight (d.cnt r) pre) (weight (d.cnt r) pre + d.cnt r e.2) := by
    ext c
    simp only [Finset.mem_filter, Finset.mem_range, Finset.mem_Ico, hrow,
      pickEdge_eq_some_iff (d.cnt r) pre post e hpre hpost c]
    omega
  rw [this, Nat.card_Ico]
  omega

/-- Probability that the loop, started in `q` with `|w|` symbols to go, outputs `w`, when every
`randint(0, total - 1)` is uniform and independent of the earlier ones: the product over the
steps of (number of outcomes selecting the symbol) / `total`. -/
def wordProb (d : AV.DFA σ α) : σ → List α → ℚ
  | _, [] => 1
  | q, a :: w =>
    match d.step? (some q) a with
    | some t => (selecting d w.length q (a, t) : ℚ) / (d.cnt (w.length + 1) q : ℚ) * wordProb d t w
    | none => 0

theorem wordProb_eq {d : AV.DFA σ α} (wf : d.WF) (hd : d.IsDict) :
    ∀ (w : List α) (q : σ), q ∈ d.states → d.acceptsFrom q w = true →
      wordProb d q w = 1 / (d.cnt w.length q : ℚ) := by
  intro w
  induction w with
  | nil =>
    intro q _ hw
    have : q ∈ d.finals := by simpa [DFA.acceptsFrom, DFA.isFinal] using hw
    simp only [wordProb, cnt_zero, this, if_true, List.length_nil]
    norm_num
  | cons a w ih =>
    intro q hq hw
    simp only [DFA.acceptsFrom, DFA.run_cons] at hw
    cases hs : d.step? (some q) a with
    | none => rw [hs, isFinal_run_cons_none] at hw; cases hw
    | some t =>
      rw [hs] at hw
      have hmem : (a, t) ∈ d.row q := alookup_some_mem hs
      have ht : t ∈ d.states := row_vals_states wf (alookup_some_val_mem hs)
      have hpos := cnt_pos_of_acceptsFrom wf hd ht hw
      have hpos' : 0 < d.cnt (w.length + 1) q :=
        cnt_pos_of_acceptsFrom wf hd hq (w := a :: w) (by simp [DFA.acceptsFrom, DFA.run_cons, hs, hw])
      simp only [wordProb, hs, C13_random_step d hd w.length q hq (a, t) hmem, ih t ht hw,
        List.length_cons]
      have h1 : (d.cnt w.length t : ℚ) ≠ 0 := by exact_mod_cast Nat.pos_iff_ne_zero.mp hpos
      have h2 : (d.cnt (w.length + 1) q : ℚ) ≠ 0 := by exact_mod_cast Nat.pos_iff_ne_zero.mp hpos'
      generalize (d.cnt w.length t : ℚ) = x at h1 ⊢
      generalize (d.cnt (w.length + 1) q : ℚ) = y at h2 ⊢
      field_simp

/-- **Uniformity** (step-product form): every accepted word of length `k` has `wordProb` exactly
`1 / count_words_of_length(k)`, the same for all of them.  That `wordProb` is the probability of
the event "`random_word(k)` returns `w`" is `C13_wordProb_eq_output_prob`; the statement about
the output itself is `C13_random_uniform_output`. -/
theorem C13_random_uniform (d : AV.DFA σ α) (hv : d.validate = .ok ()) (hd : d.IsDict)
    (w : List α) (hw : w ∈ Lang d) :
    wordProb d d.init w = 1 / (d.countWordsOfLength w.length : ℚ) :=
  wordProb_eq ((DFA.validate_eq_ok d).mp hv) hd w d.init ((DFA.validate_eq_ok d).mp hv).initOk hw

/-- Words outside the language (or unreadable) have probability 0. -/
theorem C13_random_zero (d : AV.DFA σ α) (hv : d.validate = .ok ()) (hd : d.IsDict) :
    ∀ (w : List α) (q : σ), q ∈ d.states → d.acceptsFrom q w = false → 0 < w.length →
      wordProb d q w = 0 := by
  have wf := (DFA.validate_eq_ok d).mp hv
  intro w
  induction w with
  | nil => intro q _ _ h; simp at h
  | cons a w ih =>
    intro q hq hw _
    simp only [DFA.acceptsFrom, DFA.run_cons] at hw
    cases hs : d.step? (some q) a with
    | none => simp [wordProb, hs]
    | some t =>
      rw [hs] at hw
      have hmem : (a, t) ∈ d.row q := alookup_some_mem hs
      have ht : t ∈ d.states := row_vals_states wf (alookup_some_val_mem hs)
      simp only [wordProb, hs, C13_random_step d hd w.length q hq (a, t) hmem]
      cases w with
      | nil =>
        have : t ∉ d.finals := by simpa [DFA.isFinal] using hw
        simp [cnt_zero, this, wordProb]
      | cons b w' =>
        rw [ih t ht hw (by simp)]
        simp


/-! ## random_word: the output distribution -/

/-- **Output characterisation**: with in-range `randint` results, `random_word(k)` returns `w`
exactly when the results select `w` (`Sel`: the i-th result picks, count-weighted and in row
order, an edge labelled with the i-th symbol of `w`; the walk ends in a final state). -/
theorem C13_random_output_iff (d : AV.DFA σ α) (hv : d.validate = .ok ()) (k : Nat)
    (cs : List Nat) (w : List α) (hin : d.InRange k d.init cs) :
    d.randomWord k cs = .ok w ↔ d.Sel k d.init cs w :=
  RandSel.randomWord_ok_iff_sel ((DFA.validate_eq_ok d).mp hv) k cs w hin

/-- Selecting results are in range, and select an accepted word of length `k`. -/
theorem C13_random_sel_sound (d : AV.DFA σ α) (hv : d.validate = .ok ()) (hd : d.IsDict) (k : Nat)
    (cs : List Nat) (w : List α) (hs : d.Sel k d.init cs w) :
    d.InRange k d.init cs ∧ d.randomWord k cs = .ok w ∧ w.length = k ∧ w ∈ Lang d := by
  have wf := (DFA.validate_eq_ok d).mp hv
  obtain ⟨hl, hacc⟩ := RandSel.sel_accepts hd k d.init cs w hs
  exact ⟨RandSel.sel_inRange wf k d.init cs w wf.initOk hs, RandSel.randomWord_ok_of_sel wf k cs w hs,
    hl, hacc⟩

/-- Expected value of `f (c₁ … c_r)` when the loop runs from `q` with `r` symbols to go and every
`randint(0, total - 1)` is uniform on its range and independent of the earlier ones: the loop's
own draw tree (`total = _count_cache[r+1][q]`; next state = the edge picked by the result, or
the same state on fall-through), each result weighted `1/total`. -/
def drawExp (d : AV.DFA σ α) : Nat → σ → (List Nat → ℚ) → ℚ
  | 0, _, f => f []
  | r + 1, q, f =>
    (∑ c ∈ Finset.range (d.cnt (r + 1) q),
      match pickEdge (d.cnt r) (d.row q) c with
      | some e => drawExp d r e.2 (fun cs => f (c :: cs))
      | none => drawExp d r q (fun cs => f (c :: cs))) / (d.cnt (r + 1) q : ℚ)

open Classical in
/-- Probability of the event `E` about the vector of `randint` results. -/
noncomputable def drawProb (d : AV.DFA σ α) (r : Nat) (q : σ) (E : List Nat → Prop) : ℚ :=
  drawExp d r q (fun cs => if E cs then 1 else 0)

omit [DecidableEq α] in
/-- Only in-range result vectors of length `r` carry weight. -/
theorem drawExp_congr (d : AV.DFA σ α) : ∀ (r : Nat) (q : σ) (f g : List Nat → ℚ),
    (∀ cs, cs.length = r → d.InRange r q cs → f cs = g cs) → drawExp d r q f = drawExp d r q g := by
  intro r
  induction r with
  | zero => intro q f g h; exact h [] rfl trivial
  | succ r ih =>
    intro q f g h
    unfold drawExp
    congr 1
    apply Finset.sum_congr rfl
    intro c hc
    have hc' : c < d.cnt (r + 1) q := Finset.mem_range.mp hc
    cases hp : pickEdge (d.cnt r) (d.row q) c with
    | none =>
      simp only
      apply ih
      intro cs hl _
      apply h (c :: cs) (by simp [hl])
      refine ⟨hc', ?_⟩
      simp only [List.headD_cons, hp]
    | some e =>
      simp only
      apply ih
      intro cs hl hin
      apply h (c :: cs) (by simp [hl])
      refine ⟨hc', ?_⟩
      simp only [List.headD_cons, hp, List.tail_cons]
      exact hin

omit [DecidableEq α] in
theorem drawExp_zero (d : AV.DFA σ α) : ∀ (r : Nat) (q : σ), drawExp d r q (fun _ => 0) = 0 := by
  intro r
  induction r with
  | zero => intro q; rfl
  | succ r ih =>
    intro q
    unfold drawExp
    have : ∀ c ∈ Finset.range (d.cnt (r + 1) q),
        (match pickEdge (d.cnt r) (d.row q) c with
          | some e => drawExp d r e.2 (fun _ => (0 : ℚ))
          | none => drawExp d r q (fun _ => (0 : ℚ))) = 0 := by
      intro c _
      cases pickEdge (d.cnt r) (d.row q) c with
      | none => exact ih q
      | some e => exact ih e.2
    rw [Finset.sum_eq_zero this]
    simp

/-- The weights add up to 1 (from a state with a positive count). -/
theorem drawExp_const {d : AV.DFA σ α} (wf : d.WF) (x : ℚ) : ∀ (r : Nat) (q : σ), q ∈ d.states →
    0 < d.cnt r q → drawExp d r q (fun _ => x) = x := by
  intro r
  induction r with
  | zero => intro q _ _; rfl
  | succ r ih =>
    intro q hq hpos
    unfold drawExp
    have : ∀ c ∈ Finset.range (d.cnt (r + 1) q),
        (match pickEdge (d.cnt r) (d.row q) c with
          | some e => drawExp d r e.2 (fun _ => x)
          | none => drawExp d r q (fun _ => x)) = x := by
      intro c hc
      have hc' : c < weight (d.cnt r) (d.row q) := by
        have := Finset.mem_range.mp hc
        rw [cnt_succ] at this; simpa [hq] using this
      obtain ⟨e, he, hepos⟩ := pickEdge_lt_weight hc'
      rw [he]
      exact ih e.2 (row_vals_states wf (List.mem_map.mpr ⟨e, pickEdge_mem he, rfl⟩)) hepos
    rw [Finset.sum_congr rfl this, Finset.sum_const, Finset.card_range, nsmul_eq_mul]
    have h2 : (d.cnt (r + 1) q : ℚ) ≠ 0 := by exact_mod_cast Nat.pos_iff_ne_zero.mp hpos
    field_simp

omit [DecidableEq α] in
theorem drawProb_congr (d : AV.DFA σ α) (r : Nat) (q : σ) (E E' : List Nat → Prop)
    (h : ∀ cs, cs.length = r → d.InRange r q cs → (E cs ↔ E' cs)) :
    drawProb d r q E = drawProb d r q E' := by
  unfold drawProb
  apply drawExp_congr
  intro cs hl hin
  have hiff := h cs hl hin
  by_cases hE : E cs
  · simp [hE, hiff.mp hE]
  · have hE' : ¬ E' cs := fun h' => hE (hiff.mpr h')
    simp [hE, hE']

omit [DecidableEq α] in
theorem drawProb_false (d : AV.DFA σ α) (r : Nat) (q : σ) : drawProb d r q (fun _ => False) = 0 := by
  unfold drawProb
  simp only [if_false]
  exact drawExp_zero d r q

open Classical in
/-- The results that select a given accepted word have total weight `1 / count`. -/
theorem drawProb_sel {d : AV.DFA σ α} (wf : d.WF) (hd : d.IsDict) :
    ∀ (w : List α) (q : σ), q ∈ d.states → d.acceptsFrom q w = true →
      drawProb d w.length q (fun cs => d.Sel w.length q cs w) = 1 / (d.cnt w.length q : ℚ) := by
  intro w
  induction w with
  | nil =>
    intro q _ hw
    have hq : q ∈ d.finals := by simpa [DFA.acceptsFrom, DFA.isFinal] using hw
    simp [drawProb, drawExp, Sel, hq, cnt_zero]
  | cons a w ih =>
    intro q hq hw
    simp only [DFA.acceptsFrom, DFA.run_cons] at hw
    cases hs : d.step? (some q) a with
    | none => rw [hs, isFinal_run_cons_none] at hw; cases hw
    | some t =>
      rw [hs] at hw
      have hmem : (a, t) ∈ d.row q := alookup_some_mem hs
      have ht : t ∈ d.states := row_vals_states wf (alookup_some_val_mem hs)
      have hpos := cnt_pos_of_acceptsFrom wf hd ht hw
      have hpos' : 0 < d.cnt (w.length + 1) q :=
        cnt_pos_of_acceptsFrom wf hd hq (w := a :: w) (by simp [DFA.acceptsFrom, DFA.run_cons, hs, hw])
      have hsummand : ∀ c ∈ Finset.range (d.cnt (w.length + 1) q),
          (match pickEdge (d.cnt w.length) (d.row q) c with
            | some e => drawExp d w.length e.2
                (fun cs => if d.Sel (w.length + 1) q (c :: cs) (a :: w) then (1 : ℚ) else 0)
            | none => drawExp d w.length q
                (fun cs => if d.Sel (w.length + 1) q (c :: cs) (a :: w) then (1 : ℚ) else 0)) =
          if pickEdge (d.cnt w.length) (d.row q) c = some (a, t) then 1 / (d.cnt w.length t : ℚ) else 0 := by
        intro c _
        cases hp : pickEdge (d.cnt w.length) (d.row q) c with
        | none =>
          simp only [reduceCtorEq, if_false]
          have : ∀ cs, ¬ d.Sel (w.length + 1) q (c :: cs) (a :: w) :=
            fun cs => RandSel.not_sel_of_pick_none d _ q c cs _ hp
          simp only [this, if_false]
          exact drawExp_zero d _ q
        | some e =>
          simp only
          by_cases hea : e.1 = a
          · have het : e = (a, t) := by
              have h1 := mem_row_lookup hd (pickEdge_mem hp)
              rw [hea, hs] at h1
              cases e; simp only at hea h1; cases h1; rw [hea]
            subst het
            simp only [if_true]
            have : ∀ cs, d.Sel (w.length + 1) q (c :: cs) (a :: w) ↔ d.Sel w.length t cs w := by
              intro cs
              rw [RandSel.sel_cons_of_pick d _ q c cs a w hp]
              simp
            simp only [this]
            exact ih t ht hw
          · have hne : e ≠ (a, t) := fun h => hea (by rw [h])
            simp only [Option.some.injEq, hne, if_false]
            have : ∀ cs, ¬ d.Sel (w.length + 1) q (c :: cs) (a :: w) := by
              intro cs h
              exact hea ((RandSel.sel_cons_of_pick d _ q c cs a w hp).mp h).1
            simp only [this, if_false]
            exact drawExp_zero d _ e.2
      have hexp : drawProb d (a :: w).length q (fun cs => d.Sel (a :: w).length q cs (a :: w)) =
          (∑ c ∈ Finset.range (d.cnt (w.length + 1) q),
            match pickEdge (d.cnt w.length) (d.row q) c with
            | some e => drawExp d w.length e.2
                (fun cs => if d.Sel (w.length + 1) q (c :: cs) (a :: w) then (1 : ℚ) else 0)
            | none => drawExp d w.length q
                (fun cs => if d.Sel (w.length + 1) q (c :: cs) (a :: w) then (1 : ℚ) else 0)) /
            (d.cnt (w.length + 1) q : ℚ) := rfl
      rw [hexp, Finset.sum_congr rfl hsummand, Finset.sum_ite, Finset.sum_const_zero, add_zero,
        Finset.sum_const, nsmul_eq_mul]
      have hsel : ((Finset.range (d.cnt (w.length + 1) q)).filter
          fun c => pickEdge (d.cnt w.length) (d.row q) c = some (a, t)).card = d.cnt w.length t :=
        C13_random_step d hd w.length q hq (a, t) hmem
      rw [hsel]
      have h1 : (d.cnt w.length t : ℚ) ≠ 0 := by exact_mod_cast Nat.pos_iff_ne_zero.mp hpos
      simp only [List.length_cons]
      field_simp

/-- **Uniformity of the output.**  When every `randint` result is uniform on its range and
independent of the earlier ones, the event "`random_word(k)` returns `w`" has probability exactly
`1 / count_words_of_length(k)` for every accepted word `w` of length `k` — the same for all. -/
theorem C13_random_uniform_output (d : AV.DFA σ α) (hv : d.validate = .ok ()) (hd : d.IsDict)
    (w : List α) (hw : w ∈ Lang d) :
    drawProb d w.length d.init (fun cs => d.randomWord w.length cs = .ok w) =
      1 / (d.countWordsOfLength w.length : ℚ) := by
  have wf := (DFA.validate_eq_ok d).mp hv
  rw [drawProb_congr d w.length d.init _ (fun cs => d.Sel w.length d.init cs w)
    (fun cs _ hin => C13_random_output_iff d hv w.length cs w hin)]
  exact drawProb_sel wf hd w d.init wf.initOk hw

/-- Every other word has probability 0 … -/
theorem C13_random_output_zero (d : AV.DFA σ α) (hv : d.validate = .ok ()) (hd : d.IsDict)
    (k : Nat) (w : List α) (hw : ¬ (w.length = k ∧ w ∈ Lang d)) :
    drawProb d k d.init (fun cs => d.randomWord k cs = .ok w) = 0 := by
  rw [drawProb_congr d k d.init _ (fun _ => False), drawProb_false]
  intro cs _ hin
  simp only [iff_false]
  intro hrun
  by_cases h0 : d.countWordsOfLength k = 0
  · rw [C13_random_none d k cs h0] at hrun; cases hrun
  · obtain ⟨w', hw', hl, hacc⟩ := C13_random_member d hv hd k cs h0 hin
    rw [hw'] at hrun
    cases hrun
    exact hw ⟨hl, hacc⟩

/-- … and the probabilities of all result vectors add up to 1 whenever a word of length `k`
exists (`drawProb` is a probability distribution on the in-range result vectors). -/
theorem C13_random_draw_total (d : AV.DFA σ α) (hv : d.validate = .ok ())
    (k : Nat) (hpos : d.countWordsOfLength k ≠ 0) : drawProb d k d.init (fun _ => True) = 1 := by
  have wf := (DFA.validate_eq_ok d).mp hv
  unfold drawProb
  simp only [if_true]
  exact drawExp_const wf 1 k d.init wf.initOk (Nat.pos_of_ne_zero hpos)

/-- The step-product `wordProb` of `C13_random_uniform` is the probability of the output event. -/
theorem C13_wordProb_eq_output_prob (d : AV.DFA σ α) (hv : d.validate = .ok ()) (hd : d.IsDict)
    (w : List α) (hw : w ∈ Lang d) :
    wordProb d d.init w = drawProb d w.length d.init (fun cs => d.randomWord w.length cs = .ok w) := by
  rw [C13_random_uniform d hv hd w hw, C13_random_uniform_output d hv hd w hw]


/-! ## emptiness, minimum and maximum word length, finiteness -/

/-- The set of lengths of accepted words. -/
def Lengths (d : AV.DFA σ α) : Set Nat := {n | ∃ w ∈ Lang d, w.length = n}

theorem lang_empty_iff (d : AV.DFA σ α) : Lang d = ∅ ↔ ∀ w : List α, d.accepts w = false := by
  constructor
  · intro h w
    cases hw : d.accepts w with
    | false => rfl
    | true => have : w ∈ Lang d := hw; rw [h] at this; cases this
  · intro h
    ext w
    simp only [Lang, Set.mem_ofPred_eq, h w, Set.mem_empty_iff_false]
    simp

/-- `isempty()` is true exactly when no word is accepted. -/
theorem C13_isempty (d : AV.DFA σ α) (hd : d.IsDict) : d.isEmpty = true ↔ Lang d = ∅ := by
  rw [lang_empty_iff]; exact isEmpty_spec hd

/-- `minimum_word_length()` returns the least length of an accepted word, and raises
`EmptyLanguageException` exactly when the language is empty (no other outcome exists). -/
theorem C13_min (d : AV.DFA σ α) (hd : d.IsDict) :
    (∀ m, d.minimumWordLength = .ok m ↔ IsLeast (Lengths d) m) ∧
    (d.minimumWordLength = .error (.lib .emptyLanguageException) ↔ Lang d = ∅) ∧
    (∀ e, d.minimumWordLength = .error e → e = .lib .emptyLanguageException) := by
  rcases minimumWordLength_spec hd with ⟨m0, h0, ⟨w0, hl0, hw0⟩, hmin⟩ | ⟨h0, hall⟩
  · have hleast : IsLeast (Lengths d) m0 :=
      ⟨⟨w0, hw0, hl0⟩, fun n ⟨w, hw, hl⟩ => hl ▸ hmin w hw⟩
    refine ⟨fun m => ?_, ?_, ?_⟩
    · rw [h0]
      constructor
      · intro h; cases h; exact hleast
      · intro h; rw [hleast.unique h]
    · rw [h0]
      constructor
      · intro h; cases h
      · intro h; have : w0 ∈ Lang d := hw0; rw [h] at this; cases this
    · intro e he; rw [h0] at he; cases he
  · have hemp : Lang d = ∅ := (lang_empty_iff d).mpr hall
    refine ⟨fun m => ?_, ?_, ?_⟩
    · rw [h0]
      constructor
      · intro h; cases h
      · rintro ⟨⟨w, hw, _⟩, _⟩; rw [hemp] at hw; cases hw
    · rw [h0]; exact ⟨fun _ => hemp, fun _ => rfl⟩
    · intro e he; rw [h0] at he; cases he; rfl

/-- A valid DFA's language is finite iff the lengths of its words are bounded. -/
theorem lang_finite_iff_bounded (d : AV.DFA σ α) (hv : d.validate = .ok ()) :
    (Lang d).Finite ↔ ∃ m, ∀ w ∈ Lang d, w.length ≤ m := by
  classical
  constructor
  · intro hf
    exact ⟨hf.toFinset.sup List.length,
      fun w hw => Finset.le_sup (f := List.length) (hf.mem_toFinset.mpr hw)⟩
  · rintro ⟨m, hm⟩
    apply Set.Finite.subset
      (Finset.finite_toSet ((List.range (m + 1)).flatMap (d.wordsOfLength fun _ => 0)).toFinset)
    intro w hw
    simp only [List.coe_toFinset, Set.mem_ofPred_eq, List.mem_flatMap, List.mem_range]
    exact ⟨w.length, Nat.lt_succ_of_le (hm w hw), (C13_words_mem d hv _ _ w).mpr ⟨rfl, hw⟩⟩

/-- `maximum_word_length()` raises `EmptyLanguageException` exactly for the empty language,
returns `None` exactly for infinite languages, and otherwise the greatest length of an accepted
word. -/
theorem C13_max (d : AV.DFA σ α) (hv : d.validate = .ok ()) (hd : d.IsDict) :
    (d.maximumWordLength = .error (.lib .emptyLanguageException) ↔ Lang d = ∅) ∧
    (d.maximumWordLength = .ok none ↔ (Lang d).Infinite) ∧
    (∀ m, d.maximumWordLength = .ok (some m) ↔ IsGreatest (Lengths d) m) ∧
    (∀ e, d.maximumWordLength = .error e → e = .lib .emptyLanguageException) := by
  rcases maximumWordLength_spec hd with ⟨h0, hall⟩ | ⟨h0, ⟨w0, hw0⟩, hunb⟩ | ⟨m0, h0, ⟨w0, hl0, hw0⟩, hmax⟩
  · have hemp : Lang d = ∅ := (lang_empty_iff d).mpr hall
    refine ⟨by rw [h0]; exact ⟨fun _ => hemp, fun _ => rfl⟩, ?_, fun m => ?_, ?_⟩
    · rw [h0, hemp]
      constructor
      · intro h; cases h
      · intro h; exact absurd Set.finite_empty h
    · rw [h0]
      constructor
      · intro h; cases h
      · rintro ⟨⟨w, hw, _⟩, _⟩; rw [hemp] at hw; cases hw
    · intro e he; rw [h0] at he; cases he; rfl
  · have hinf : (Lang d).Infinite := by
      intro hf
      obtain ⟨m, hm⟩ := (lang_finite_iff_bounded d hv).mp hf
      obtain ⟨w, hl, hw⟩ := hunb (m + 1)
      have := hm w hw
      omega
    refine ⟨?_, by rw [h0]; exact ⟨fun _ => hinf, fun _ => rfl⟩, fun m => ?_, ?_⟩
    · rw [h0]
      constructor
      · intro h; cases h
      · intro h; have : w0 ∈ Lang d := hw0; rw [h] at this; cases this
    · rw [h0]
      constructor
      · intro h; cases h
      · rintro ⟨_, hub⟩
        obtain ⟨w, hl, hw⟩ := hunb (m + 1)
        have := hub ⟨w, hw, rfl⟩
        omega
    · intro e he; rw [h0] at he; cases he
  · have hgr : IsGreatest (Lengths d) m0 :=
      ⟨⟨w0, hw0, hl0⟩, fun n ⟨w, hw, hl⟩ => hl ▸ hmax w hw⟩
    have hfin : (Lang d).Finite := (lang_finite_iff_bounded d hv).mpr ⟨m0, hmax⟩
    refine ⟨?_, ?_, fun m => ?_, ?_⟩
    · rw [h0]
      constructor
      · intro h; cases h
      · intro h; have : w0 ∈ Lang d := hw0; rw [h] at this; cases this
    · rw [h0]
      constructor
      · intro h; cases h
      · intro h; exact absurd hfin h
    · rw [h0]
      constructor
      · intro h; cases h; exact hgr
      · intro h; rw [hgr.unique h]
    · intro e he; rw [h0] at he; cases he

/-- `isfinite()` never raises and answers whether the language is finite. -/
theorem C13_isfinite (d : AV.DFA σ α) (hv : d.validate = .ok ()) (hd : d.IsDict) :
    ∃ b, d.isFinite = .ok b ∧ (b = true ↔ (Lang d).Finite) := by
  obtain ⟨h1, h2, h3, _⟩ := C13_max d hv hd
  unfold DFA.isFinite DFA.isFiniteCore
  rcases maximumWordLength_spec hd with ⟨h0, _⟩ | ⟨h0, _, _⟩ | ⟨m0, h0, _, _⟩
  · rw [h0]
    refine ⟨true, rfl, ?_⟩
    simp only [true_iff]
    rw [h1.mp h0]; exact Set.finite_empty
  · rw [h0]
    refine ⟨false, rfl, ?_⟩
    simp only [Bool.false_eq_true, false_iff]
    exact h2.mp h0
  · rw [h0]
    refine ⟨true, rfl, ?_⟩
    simp only [true_iff]
    have hgr := (h3 m0).mp h0
    exact (lang_finite_iff_bounded d hv).mpr ⟨m0, fun w hw => hgr.2 ⟨w, hw, rfl⟩⟩

/-! ## cardinality, len -/

/-- The words of the lengths `i, …, i+k-1`, level after level: duplicate free. -/
theorem levels_nodup (d : AV.DFA σ α) (hv : d.validate = .ok ()) (hd : d.IsDict) (key : α → Int)
    (hk : d.KeyInj key) (i k : Nat) :
    ((List.range' i k).flatMap (d.wordsOfLength key)).Nodup := by
  rw [List.nodup_flatMap]
  refine ⟨fun j _ => C13_words_nodup d hv hd key hk j, ?_⟩
  have := List.pairwise_lt_range' (s := i) (n := k) 1
  refine this.imp ?_
  intro a b hab
  simp only [Function.onFun, List.disjoint_left]
  intro w hwa hwb
  have h1 := ((C13_words_mem d hv key a w).mp hwa).1
  have h2 := ((C13_words_mem d hv key b w).mp hwb).1
  omega

/-- `cardinality()` returns the number of words of a finite language and raises
`InfiniteLanguageException` for an infinite one; the method `__len__` (`d.len`) is the same call.
The builtin `len(dfa)` is `d.lenBuiltin` (the interpreter converts the result of `__len__` to a
`Py_ssize_t`): `C13_len` below. -/
theorem C13_cardinality (d : AV.DFA σ α) (hv : d.validate = .ok ()) (hd : d.IsDict) :
    ((Lang d).Finite → d.cardinality = .ok (Set.ncard (Lang d))) ∧
    ((Lang d).Infinite → d.cardinality = .error (.lib .infiniteLanguageException)) ∧
    d.len = d.cardinality := by
  classical
  obtain ⟨hmin1, hmin2, _⟩ := C13_min d hd
  obtain ⟨hmax1, hmax2, hmax3, _⟩ := C13_max d hv hd
  refine ⟨?_, ?_, rfl⟩
  · intro hfin
    unfold DFA.cardinality
    rcases minimumWordLength_spec hd with ⟨i, h0, ⟨w0, hl0, hw0⟩, hmin⟩ | ⟨h0, hall⟩
    · rw [h0]
      simp only
      rcases maximumWordLength_spec hd with ⟨h1, hall⟩ | ⟨h1, _, _⟩ | ⟨m, h1, _, hmax⟩
      · rw [hall w0] at hw0; cases hw0
      · exact absurd hfin (hmax2.mp h1)
      · rw [h1]
        simp only
        congr 1
        have hset : Lang d =
            ↑((List.range' i (m + 1 - i)).flatMap (d.wordsOfLength (idxKey d))).toFinset := by
          ext w
          simp only [List.coe_toFinset, Set.mem_ofPred_eq, mem_iterLoop_levels]
          constructor
          · intro hw
            have h1 := hmin w hw
            have h2 := hmax w hw
            exact ⟨w.length, h1, by omega, (C13_words_mem d hv _ _ w).mpr ⟨rfl, hw⟩⟩
          · rintro ⟨j, _, _, hw⟩
            exact ((C13_words_mem d hv _ _ w).mp hw).2
        rw [hset, Set.ncard_coe_finset,
          List.toFinset_card_of_nodup (levels_nodup d hv hd _ (idxKey_inj d) _ _),
          List.length_flatMap]
        apply congrArg
        apply List.map_congr_left
        intro j _
        exact C13_count d hd (idxKey d) j
    · rw [h0]
      simp only
      rw [(lang_empty_iff d).mpr hall]
      simp
  · intro hinf
    unfold DFA.cardinality
    rcases minimumWordLength_spec hd with ⟨i, h0, _, _⟩ | ⟨h0, hall⟩
    · rw [h0]
      simp only
      rw [hmax2.mpr hinf]
    · rw [(lang_empty_iff d).mpr hall] at hinf
      exact absurd Set.finite_empty hinf

/-! ## `len(dfa)` — the builtin, with CPython's `Py_ssize_t` conversion -/

/-- `len(dfa)` returns the number of words of a finite language **when that number is below
2^63** (`sys.maxsize + 1`); from 2^63 on the interpreter raises `OverflowError` although
`__len__` (= `cardinality()`, `C13_cardinality`) returned the right number; an infinite language
raises `InfiniteLanguageException`. -/
theorem C13_len (d : AV.DFA σ α) (hv : d.validate = .ok ()) (hd : d.IsDict) :
    ((Lang d).Finite → Set.ncard (Lang d) < 2 ^ 63 → d.lenBuiltin = .ok (Set.ncard (Lang d))) ∧
    ((Lang d).Finite → 2 ^ 63 ≤ Set.ncard (Lang d) → d.lenBuiltin = .error .overflowError) ∧
    ((Lang d).Infinite → d.lenBuiltin = .error (.exn (.lib .infiniteLanguageException))) := by
  obtain ⟨hfin, hinf, hlen⟩ := C13_cardinality d hv hd
  refine ⟨fun h hlt => ?_, fun h hge => ?_, fun h => ?_⟩
  · unfold DFA.lenBuiltin
    rw [hlen, hfin h]
    have : decide (Set.ncard (Lang d) < ssizeLimit) = true := decide_eq_true (by unfold ssizeLimit; exact hlt)
    simp only [toSsize, this]
  · unfold DFA.lenBuiltin
    rw [hlen, hfin h]
    have : decide (Set.ncard (Lang d) < ssizeLimit) = false := decide_eq_false (by unfold ssizeLimit; omega)
    simp only [toSsize, this]
  · unfold DFA.lenBuiltin
    rw [hlen, hinf h]

/-! ## iteration -/

/-- The order of iteration: by length, then Python's string order. -/
def shortlex (key : α → Int) (u v : List α) : Prop :=
  u.length < v.length ∨ (u.length = v.length ∧ lexLt key u v)

/-- Iterating an empty language produces no word and ends at once (no exception). -/
theorem C13_iter_empty (d : AV.DFA σ α) (hd : d.IsDict) (key : α → Int) (n : Nat)
    (h : Lang d = ∅) : d.iterRun key n = .ok ([], true) := by
  unfold DFA.iterRun
  rw [(C13_isempty d hd).mpr h]

/-- What the iterator has produced after at most `n` rounds of its loop: never an exception;
the words of the lengths `i, i+1, …, i+k-1` (`i` = minimum word length), level after level,
each level in `words_of_length` order; it is exhausted only when the next length exceeds the
maximum word length. -/
theorem iterRun_levels (d : AV.DFA σ α) (hv : d.validate = .ok ()) (hd : d.IsDict) (key : α → Int)
    (n : Nat) (hne : Lang d ≠ ∅) :
    ∃ i limit k, d.minimumWordLength = .ok i ∧ d.maximumWordLength = .ok limit ∧ k ≤ n ∧
      d.iterRun key n =
        .ok ((List.range' i k).flatMap (d.wordsOfLength key), !iterCond limit (i + k)) ∧
      (∀ j, i ≤ j → j < i + k → iterCond limit j = true) ∧
      (k < n → iterCond limit (i + k) = false) := by
  obtain ⟨_, hmin2, hmin3⟩ := C13_min d hd
  obtain ⟨hmax1, _, _, hmax4⟩ := C13_max d hv hd
  have he : d.isEmpty = false := by
    cases h : d.isEmpty with
    | false => rfl
    | true => exact absurd ((C13_isempty d hd).mp h) hne
  cases hi : d.minimumWordLength with
  | error e => rw [hmin3 e hi] at hi; exact absurd (hmin2.mp hi) hne
  | ok i =>
    cases hl : d.maximumWordLength with
    | error e => rw [hmax4 e hl] at hl; exact absurd (hmax1.mp hl) hne
    | ok limit =>
      obtain ⟨k, hk, h1, h2, h3, h4⟩ := iterLoop_spec d key limit n i
      refine ⟨i, limit, k, rfl, rfl, hk, ?_, ?_, h4⟩
      · unfold DFA.iterRun
        simp only [he, hi, hl]
        rw [← h1, ← h3]
      · intro j hij hjk
        rcases h2 j hjk with h | h
        · exact h
        · omega

/-- **Nothing else, in order, each once**: every word produced by iteration is accepted; the
sequence is strictly increasing in (length, then string order). -/
theorem C13_iter_sound_sorted (d : AV.DFA σ α) (hv : d.validate = .ok ()) (hd : d.IsDict)
    (key : α → Int) (hk : d.KeyInj key) (n : Nat) :
    ∃ ys fin, d.iterRun key n = .ok (ys, fin) ∧ (∀ w ∈ ys, w ∈ Lang d) ∧
      ys.Pairwise (shortlex key) := by
  by_cases hne : Lang d = ∅
  · exact ⟨[], true, C13_iter_empty d hd key n hne, by simp, List.Pairwise.nil⟩
  · obtain ⟨i, limit, k, _, _, _, hrun, _, _⟩ := iterRun_levels d hv hd key n hne
    refine ⟨_, _, hrun, ?_, ?_⟩
    · intro w hw
      obtain ⟨j, _, _, hwj⟩ := mem_iterLoop_levels.mp hw
      exact ((C13_words_mem d hv key j w).mp hwj).2
    · rw [List.pairwise_flatMap]
      constructor
      · intro j _
        refine (C13_words_sorted d hv hd key hk j).imp_of_mem ?_
        intro u v hu hv' huv
        right
        exact ⟨by rw [((C13_words_mem d hv key j u).mp hu).1, ((C13_words_mem d hv key j v).mp hv').1], huv⟩
      · have := List.pairwise_lt_range' (s := i) (n := k) 1
        refine this.imp ?_
        intro a b hab u hu v hv'
        left
        rw [((C13_words_mem d hv key a u).mp hu).1, ((C13_words_mem d hv key b v).mp hv').1]
        exact hab

/-- **Every accepted word eventually**: an accepted word `w` has been produced after at most
`|w| + 1` rounds of the loop. -/
theorem C13_iter_complete (d : AV.DFA σ α) (hv : d.validate = .ok ()) (hd : d.IsDict)
    (key : α → Int) (w : List α) (hw : w ∈ Lang d) (n : Nat) (hn : w.length < n) :
    ∃ ys fin, d.iterRun key n = .ok (ys, fin) ∧ w ∈ ys := by
  have hne : Lang d ≠ ∅ := by intro h; rw [h] at hw; cases hw
  obtain ⟨hmin1, _, _⟩ := C13_min d hd
  obtain ⟨_, _, hmax3, _⟩ := C13_max d hv hd
  obtain ⟨i, limit, k, hi, hl, hk, hrun, hcond, hstop⟩ := iterRun_levels d hv hd key n hne
  refine ⟨_, _, hrun, mem_iterLoop_levels.mpr ⟨w.length, ?_, ?_, (C13_words_mem d hv key _ w).mpr ⟨rfl, hw⟩⟩⟩
  · exact ((hmin1 i).mp hi).2 ⟨w, hw, rfl⟩
  · -- the loop condition holds at |w|, so the loop cannot have stopped before it
    have hcw : iterCond limit w.length = true := by
      cases limit with
      | none => rfl
      | some m =>
        have := ((hmax3 m).mp hl).2 ⟨w, hw, rfl⟩
        simpa [iterCond] using this
    rcases Nat.lt_or_ge k n with hlt | hge
    · have hfalse := hstop hlt
      rcases Nat.lt_or_ge w.length (i + k) with h | h
      · exact h
      · rw [iterCond_mono hcw h] at hfalse; cases hfalse
    · omega

/-- For a finite language the iterator is exhausted after finitely many rounds, having produced
exactly the language; for an infinite language it is never exhausted. -/
theorem C13_iter_exhaustion (d : AV.DFA σ α) (hv : d.validate = .ok ()) (hd : d.IsDict)
    (key : α → Int) :
    ((Lang d).Finite → ∃ n ys, d.iterRun key n = .ok (ys, true) ∧ ∀ w, w ∈ ys ↔ w ∈ Lang d) ∧
    ((Lang d).Infinite → ∀ n ys fin, d.iterRun key n = .ok (ys, fin) → fin = false) := by
  obtain ⟨_, hmax2, hmax3, _⟩ := C13_max d hv hd
  constructor
  · intro hfin
    by_cases hne : Lang d = ∅
    · exact ⟨0, [], C13_iter_empty d hd key 0 hne, by simp [hne]⟩
    · obtain ⟨m, hm⟩ := (lang_finite_iff_bounded d hv).mp hfin
      obtain ⟨i, limit, k, hi, hl, hk, hrun, hcond, hstop⟩ := iterRun_levels d hv hd key (m + 2) hne
      have hlim : ∃ l, limit = some l := by
        cases limit with
        | none => exact absurd hfin (hmax2.mp hl)
        | some l => exact ⟨l, rfl⟩
      obtain ⟨l, rfl⟩ := hlim
      have hgr := (hmax3 l).mp hl
      have hlm : l ≤ m := by
        obtain ⟨w, hw, hwl⟩ := hgr.1
        rw [← hwl]; exact hm w hw
      have hdone : iterCond (some l) (i + k) = false := by
        rcases Nat.lt_or_ge k (m + 2) with hlt | hge
        · exact hstop hlt
        · simp only [iterCond, decide_eq_false_iff_not]; omega
      refine ⟨m + 2, _, by rw [hrun, hdone]; rfl, ?_⟩
      intro w
      constructor
      · intro hw
        obtain ⟨j, _, _, hwj⟩ := mem_iterLoop_levels.mp hw
        exact ((C13_words_mem d hv key j w).mp hwj).2
      · intro hw
        obtain ⟨ys, fin, hrun', hmem⟩ := C13_iter_complete d hv hd key w hw (m + 2) (by have := hm w hw; omega)
        rw [hrun] at hrun'
        cases hrun'
        exact hmem
  · intro hinf n ys fin hrun
    have hne : Lang d ≠ ∅ := by intro h; rw [h] at hinf; exact hinf Set.finite_empty
    obtain ⟨i, limit, k, hi, hl, hk, hrun', _, _⟩ := iterRun_levels d hv hd key n hne
    rw [hrun'] at hrun
    have : limit = none := by
      cases limit with
      | none => rfl
      | some l =>
        have hgr := (hmax3 l).mp hl
        exact absurd ((lang_finite_iff_bounded d hv).mpr ⟨l, fun w hw => hgr.2 ⟨w, hw, rfl⟩⟩) hinf
    subst this
    cases hrun
    rfl

/-! ## non-vacuity -/

/-- `0*1⁺` over symbols 0,1 (state 2 is a trap): a complete DFA with an infinite language. -/
def exD : AV.DFA Nat Int :=
  { states := [0, 1, 2], syms := [0, 1],
    trans := [(0, [(0, 0), (1, 1)]), (1, [(0, 2), (1, 1)]), (2, [(0, 2), (1, 2)])],
    init := 0, finals := [1], allowPartial := false }

/-- `{ε, 0, 01, 1, 10, 11}`-like finite language, partial table. -/
def exF : AV.DFA Nat Int :=
  { states := [0, 1, 2, 3], syms := [0, 1],
    trans := [(0, [(1, 2), (0, 1)]), (1, [(1, 3)]), (2, [(0, 3), (1, 3)]), (3, [])],
    init := 0, finals := [0, 1, 2, 3], allowPartial := true }

example : exD.validate = .ok () := by decide
example : exF.validate = .ok () := by decide
example : exD.IsDict := ⟨by decide, by decide⟩
example : exF.IsDict := ⟨by decide, by decide⟩
example : exD.KeyInj id := by unfold DFA.KeyInj; decide
example : exD.wordsOfLength id 3 = [[0, 0, 1], [0, 1, 1], [1, 1, 1]] ∧ exD.countWordsOfLength 3 = 3 := by
  decide
example : exF.wordsOfLength id 2 = [[0, 1], [1, 0], [1, 1]] ∧ exF.countWordsOfLength 2 = 3 ∧
    exF.countWordsOfLength 3 = 0 := by decide

example : exD.minimumWordLength = .ok 1 ∧ exD.maximumWordLength = .ok none ∧ exD.isFinite = .ok false ∧
    exD.cardinality = .error (.lib .infiniteLanguageException) := by decide
example : exF.minimumWordLength = .ok 0 ∧ exF.maximumWordLength = .ok (some 2) ∧ exF.isFinite = .ok true ∧
    exF.cardinality = .ok 6 := by decide
example : exF.iterRun id 5 = .ok ([[], [0], [1], [0, 1], [1, 0], [1, 1]], true) := by decide
example : exD.iterRun id 3 = .ok ([[1], [0, 1], [1, 1], [0, 0, 1], [0, 1, 1], [1, 1, 1]], false) := by decide
example : exD.InRange 2 exD.init [1, 0] := by decide
example : exD.randomWord 2 [1, 0] = .ok [1, 1] ∧ exD.randomWord 2 [0, 0] = .ok [0, 1] := by decide
example : exF.randomWord 3 [] = .error (.py .valueError) := by decide

/-- The full claim of the English statement for `len`: every finite language has its number of
words as `len`.  It is FALSE for the code as it stands (finding `C13:len-overflow-2^63`): see
`C13_len_full_fails`; `C13_len` is the statement that holds. -/
def C13_len_full : Prop :=
  ∀ d : AV.DFA Nat Nat, d.validate = .ok () → d.IsDict → (Lang d).Finite →
    d.lenBuiltin = .ok (Set.ncard (Lang d))

/-- `DFA.of_length(set('abcdefgh'), min_length=0, max_length=21)`: states 0..22 (22 is the
trap), all of 0..21 final: the (8^22 - 1)/7 = 10540996613548315209 ≥ 2^63 words of length ≤ 21
over 8 symbols.  (The two-symbol instance of the finding, `of_length({'a','b'}, min_length=0,
max_length=64)` with 2^65 - 1 words, is the one the harness replays; this one is cheaper for
the kernel to evaluate.) -/
def exBig : AV.DFA Nat Nat :=
  { states := List.range 23, syms := List.range 8,
    trans := (List.range 22).map (fun i => (i, (List.range 8).map fun a => (a, i + 1))) ++
      [(22, (List.range 8).map fun a => (a, 22))],
    init := 0, finals := List.range 22, allowPartial := false }

theorem exBig_valid : exBig.validate = .ok () := by decide +kernel
theorem exBig_dict : exBig.IsDict := ⟨by decide +kernel, by decide +kernel⟩
theorem exBig_card : exBig.isFinite = .ok true ∧ exBig.cardinality = .ok ((8 ^ 22 - 1) / 7) ∧
    exBig.lenBuiltin = .error .overflowError := by decide +kernel

/-- The unrestricted claim about `len` fails: a finite language with at least 2^63 words. -/
theorem C13_len_full_fails : ¬ C13_len_full := by
  intro h
  have hfin : (Lang exBig).Finite := by
    obtain ⟨b, hb, hiff⟩ := C13_isfinite exBig exBig_valid exBig_dict
    rw [exBig_card.1] at hb
    cases hb
    exact hiff.mp rfl
  have := h exBig exBig_valid exBig_dict hfin
  rw [exBig_card.2.2] at this
  cases this

example : exF.lenBuiltin = .ok 6 ∧ exD.lenBuiltin = .error (.exn (.lib .infiniteLanguageException)) := by
  decide

/-! ### random_word: output distribution, examples -/

/-- `{00, 01, 10}` as a partial DFA: from the initial state the edge `0` carries two words, the
edge `1` one. -/
def exU : AV.DFA Nat Nat :=
  { states := [0, 1, 2, 3], syms := [0, 1],
    trans := [(0, [(0, 1), (1, 2)]), (1, [(0, 3), (1, 3)]), (2, [(0, 3)]), (3, [])],
    init := 0, finals := [3], allowPartial := true }

example : exU.validate = .ok () := by decide
example : exU.Sel 2 0 [1, 0] [0, 0] := ⟨0, 1, [0], rfl, by decide, 0, 3, [], rfl, by decide, rfl, by decide⟩

/-- All three words have probability 1/3 … -/
example : drawProb exU 2 0 (fun cs => exU.randomWord 2 cs = .ok [0, 0]) = 1 / 3 ∧
    drawProb exU 2 0 (fun cs => exU.randomWord 2 cs = .ok [1, 0]) = 1 / 3 := by
  have h := fun w hw => C13_random_uniform_output exU (by decide) ⟨by decide, by decide⟩ w hw
  have hc : exU.countWordsOfLength 2 = 3 := by decide
  refine ⟨?_, ?_⟩
  · have := h [0, 0] (show exU.accepts [0, 0] = true by decide)
    simp only [List.length_cons, List.length_nil, Nat.zero_add, Nat.reduceAdd, hc] at this
    exact_mod_cast this
  · have := h [1, 0] (show exU.accepts [1, 0] = true by decide)
    simp only [List.length_cons, List.length_nil, Nat.zero_add, Nat.reduceAdd, hc] at this
    exact_mod_cast this

/-- … although the NUMBER of in-range result vectors that produce a word is not the same for
all words (`[0,0]` ← `[0,0]`, `[1,0]`; `[1,0]` ← `[2,0]` only): the vectors are not equally
likely (the range of the second `randint` depends on the first result), which is why
`C13_random_uniform_output` weights every vector by the product of `1/total` along its run
instead of counting vectors. -/
example :
    let vecs := (List.range 3).flatMap fun a => (List.range 3).map fun b => [a, b]
    (vecs.filter fun cs => decide (exU.InRange 2 0 cs) && decide (exU.randomWord 2 cs = .ok [0, 0])) =
        [[0, 0], [1, 0]] ∧
    (vecs.filter fun cs => decide (exU.InRange 2 0 cs) && decide (exU.randomWord 2 cs = .ok [1, 0])) =
        [[2, 0]] := by decide

end AV.Props.C13
