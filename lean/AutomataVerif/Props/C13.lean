/- Props/C13.lean — in progress. -/
import AutomataVerif.Model.DFACache

namespace AV.Props.C13
end AV.Props.C13
