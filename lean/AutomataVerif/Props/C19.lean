/-
Props/C19.lean — C19: validation is sound, results are valid, global options never change
answers.

English statement (properties.jsonl): corrupting a valid definition so that it breaks one of the
well-formedness rules the library documents and tests (unknown end state or transition symbol,
missing transition row or symbol of a complete DFA, initial or final state outside the state
set, initial state without transitions, invalid stack symbol or acceptance mode,
nondeterministic DPDA, bad tape symbol, direction or tape count, final TM state with
transitions, malformed GNFA label) makes the constructor raise the documented exception type,
while every well-formed definition is accepted and can then be run on any string and passed to
any operation without any undocumented error.  Every automaton returned by a library operation
passes validation itself, and turning automatic validation off or mutable automata on never
changes the result of any operation on valid inputs.

Model: `validate` of DFA, NFA (Model/DFA.lean, Model/NFA.lean) and of GNFA, DPDA, NPDA, DTM,
NTM, MNTM (Model/ValidateAll.lean), each performing the checks in the order of the code and
returning the first error.  The declarative side is in Proofs/Validate.lean,
Proofs/ValidateAll.lean (`WF` structures), Proofs/ValidateRules.lean (rule systems:
for each documented rule its exception class `kind`, the position `stage` of its check, and
what it means to violate it) and Proofs/ValidateReserved.lean (reserved names).

Reserved names (fixes b159ae7, 07f4843, cb4efab, f47420f).  `validate()` of DFA and NFA first
refuses `None` as a state name or as the key of a transition row, and `""` as an input symbol, `validate()` of the PDA classes first refuses
`""` as a stack symbol.  The state / symbol types of the model are arbitrary types; which of
their elements stand for `None` and `""` is an explicit interpretation (`R : Reserved σ α` for
DFA / NFA, a predicate `isEmptyStr : γ → Bool` for the stack symbols of a PDA), and the theorems
about these four classes hold for every interpretation: `DFA.validateDef R d` is "the
reserved-name check under `R`, then `d.validate`", `DFA.WFDef R d` is "no state and no row key is
`None`, no input symbol is `""`, and `d.WF`".  `C19_reserved_absent`: when no name is reserved (the name
types of the models of C01–C17) these are `validate` and `WF`.

Proved here, for all definitions (no bounds):
  A. per class `validate d = ok ↔ WF d` — every well-formed definition is accepted and nothing
     else is (`C19_*_validate_iff`);
  B. per class the rule system is correct (`C19_*_rules`): `validate d = ok` iff no rule is
     violated, and an error raised by `validate` is the documented class of a violated rule
     such that no rule checked earlier is violated; hence (`C19_corruption_raises`) a
     definition that breaks rule `r` — and otherwise only rules of the same class or rules
     checked after `r` — makes the constructor raise exactly `kind r`; concrete corruption
     operators are instances (`C19_*_corrupt_*`);
  C. the documented classes themselves, the raise sites and the order of the checks are tied
     to the source by regenerated tables (`C19_rule_tables`, `C19_raise_sites`,
     `C19_validate_call_order`, `C19_literals`);
  D. the constructor under the two global options returns an object of the same abstract
     value for all four combinations on valid inputs, and raises the same error whatever
     `allow_mutable_automata` is (`C19_options`, `C19_options_invalid`, `C19_options_kwargs`).
Only sampled (harness/ops/C19.py), not proved here: that accepted definitions can be run and
passed to every operation without undocumented errors and that every operation's result
passes validation — these are the `Valid` conclusions of the theorems of C01–C17, whose models
live in other files (`C19_results_valid_full` below states the obligation).
-/
import AutomataVerif.Proofs.CorruptOps
import AutomataVerif.Proofs.ValidateReserved
import AutomataVerif.Proofs.Freeze
import AutomataVerif.Generated.Slots

namespace AV.Props.C19
open AV AV.VA

variable {σ α γ : Type} [DecidableEq σ] [DecidableEq α] [DecidableEq γ]

/-! ## A. validation accepts exactly the well-formed definitions -/

/-- DFA: no state and no row of the table is named `None` and no input symbol is `""` (under the
interpretation `R` of the abstract names); every state has a row; rows use only input symbols (all of them unless
`allow_partial`) and lead to states; initial and final states are states.  (Rows keyed by
names that are not states are allowed, as in the code.) -/
theorem C19_dfa_validate_iff (R : Reserved σ α) (d : DFA σ α) :
    DFA.validateDef R d = .ok () ↔ DFA.WFDef R d := DFA.validateDef_eq_ok R d

/-- NFA: no state and no row of the table is named `None` and no input symbol is `""`; rows use input symbols or `""`
(λ) and lead to states; the initial state is a state and has a row (unless it is the only
state); final states are states. -/
theorem C19_nfa_validate_iff (R : Reserved σ α) (n : NFA σ α) :
    NFA.validateDef R n = .ok () ↔ NFA.WFDef R n := NFA.validateDef_eq_ok R n

/-- GNFA: initial ≠ final, both states; every non-final state has a row; labels are `None` or
valid regular expressions over the input symbols and `* | ( ) ?`; the final state's row is
empty; every other row has an entry for every state except the initial one, only for states,
and no labelled entry into the initial state. -/
theorem C19_gnfa_validate_iff (g : GNFA σ α) : g.validate = .ok () ↔ g.WF := GNFA.validate_eq_ok g

/-- DPDA: `""` is not a stack symbol (`isEmptyStr` says which abstract stack symbols stand for
it); rows use input symbols or `""` and stack symbols; no stack symbol of a row has both
a λ-move and a move on an input symbol; initial state, initial stack symbol, final states and
acceptance mode are legal. -/
theorem C19_dpda_validate_iff (isEmptyStr : γ → Bool) (d : DPDA σ α γ) :
    d.validateDef isEmptyStr = .ok () ↔ d.WFDef isEmptyStr := DPDA.validateDef_eq_ok isEmptyStr d

theorem C19_npda_validate_iff (isEmptyStr : γ → Bool) (d : NPDA σ α γ) :
    d.validateDef isEmptyStr = .ok () ↔ d.WFDef isEmptyStr := NPDA.validateDef_eq_ok isEmptyStr d

/-- Name types that cannot express `None` / `""` (interpretation `Reserved.absent`, resp. the
predicate that is never true) — the situation of the DFA / NFA / PDA models of C01–C17, where
`none : Option σ` is the sink, `none : Option α` is λ, and an empty stack has no top symbol:
the reserved-name checks are vacuous, `validateDef` is the `validate` those properties use and
`WFDef` is their `WF`.  A definition that uses a reserved name is rejected by the constructor
and is outside the domain of those models. -/
theorem C19_reserved_absent :
    (∀ d : DFA σ α, DFA.validateDef Reserved.absent d = d.validate ∧ (DFA.WFDef Reserved.absent d ↔ d.WF)) ∧
    (∀ n : NFA σ α, NFA.validateDef Reserved.absent n = n.validate ∧ (NFA.WFDef Reserved.absent n ↔ n.WF)) ∧
    (∀ d : DPDA σ α γ, d.validateDef (fun _ => false) = d.validate ∧ (d.WFDef (fun _ => false) ↔ d.WF)) ∧
    (∀ d : NPDA σ α γ, d.validateDef (fun _ => false) = d.validate ∧ (d.WFDef (fun _ => false) ↔ d.WF)) :=
  ⟨fun d => ⟨DFA.validateDef_absent d, DFA.wfDef_absent d⟩,
   fun n => ⟨NFA.validateDef_absent n, NFA.wfDef_absent n⟩,
   fun d => ⟨DPDA.validateDef_absent d, DPDA.wfDef_absent d⟩,
   fun d => ⟨NPDA.validateDef_absent d, NPDA.wfDef_absent d⟩⟩

/-- DTM: Σ ⊊ Γ, blank ∈ Γ; rows only for states, reading tape symbols, with results
(state, tape symbol, direction ∈ {L, N, R}); the initial state is a non-final state with a row
(unless it is the only state); final states are states without rows. -/
theorem C19_dtm_validate_iff (d : DTM σ γ) : d.validate = .ok () ↔ d.WF := DTM.validate_eq_ok d

theorem C19_ntm_validate_iff (d : NTM σ γ) : d.validate = .ok () ↔ d.WF := NTM.validate_eq_ok d

/-- MNTM: as NTM for every move of every transition, and every read tuple and every move
tuple has exactly `n_tapes` components. -/
theorem C19_mntm_validate_iff (d : MNTM σ γ) : d.validate = .ok () ↔ d.WF := MNTM.validate_eq_ok d

/-! ## B. corruptions raise the documented class -/

/-- General form.  `S.Correct validate` (proved per class below) means: `validate d = ok` iff
no rule is violated, and an error raised is the documented class of a violated rule no earlier
rule being violated.  Consequence: if `d'` breaks rule `r`, and every rule `d'` breaks has
`r`'s documented class or is checked after `r`, the constructor raises exactly `kind r`.
A single-rule corruption of a valid definition is the special case where `r` is the only
violated rule. -/
theorem C19_corruption_raises {δ ρ : Type} (S : RuleSys δ ρ) (validate : δ → Res Unit)
    (hc : S.Correct validate) (d' : δ) (r : ρ) (hv : S.Violates d' r)
    (hother : ∀ r', S.Violates d' r' → S.kind r' = S.kind r ∨ S.stage r < S.stage r') :
    validate d' = .error (.lib (S.kind r)) :=
  hc.corrupt_raises d' r hv hother

/-- Single-rule corruption, literally: `d` valid, `d'` breaks `r` and nothing else. -/
theorem C19_single_rule_corruption {δ ρ : Type} (S : RuleSys δ ρ) (validate : δ → Res Unit)
    (hc : S.Correct validate) (d d' : δ) (r : ρ) (_hvalid : validate d = .ok ())
    (hv : S.Violates d' r) (honly : ∀ r', S.Violates d' r' → r' = r) :
    validate d' = .error (.lib (S.kind r)) :=
  hc.corrupt_raises d' r hv (fun r' h' => Or.inl (by rw [honly r' h']))

/-- Whatever is broken (any number of rules): the class raised is the documented class of one
of the broken rules. -/
theorem C19_error_is_documented {δ ρ : Type} (S : RuleSys δ ρ) (validate : δ → Res Unit)
    (hc : S.Correct validate) (d' : δ) (e : Exn) (h : validate d' = .error e) :
    ∃ r, S.Violates d' r ∧ e = .lib (S.kind r) := by
  obtain ⟨r, hv, he, _⟩ := hc.error_kind d' e h
  exact ⟨r, hv, he⟩

theorem C19_dfa_rules (R : Reserved σ α) : (DFA.defRules R).Correct (DFA.validateDef R) :=
  DFA.defRules_correct R
theorem C19_nfa_rules (R : Reserved σ α) : (NFA.defRules R).Correct (NFA.validateDef R) :=
  NFA.defRules_correct R
theorem C19_gnfa_rules : (GNFA.rules : RuleSys (GNFA σ α) _).Correct GNFA.validate := GNFA.rules_correct
theorem C19_dpda_rules (isEmptyStr : γ → Bool) :
    (DPDA.defRules isEmptyStr : RuleSys (DPDA σ α γ) _).Correct (DPDA.validateDef isEmptyStr) :=
  DPDA.defRules_correct isEmptyStr
theorem C19_npda_rules (isEmptyStr : γ → Bool) :
    (NPDA.defRules isEmptyStr : RuleSys (NPDA σ α γ) _).Correct (NPDA.validateDef isEmptyStr) :=
  NPDA.defRules_correct isEmptyStr
theorem C19_dtm_rules : (DTM.rules : RuleSys (DTM σ γ) _).Correct DTM.validate := DTM.rules_correct
theorem C19_ntm_rules : (NTM.rules : RuleSys (NTM σ γ) _).Correct NTM.validate := NTM.rules_correct
theorem C19_mntm_rules : (MNTM.rules : RuleSys (MNTM σ γ) _).Correct MNTM.validate := MNTM.rules_correct

/-! ### the rule tables (rule ↦ documented exception class), spelled out -/

/-- Every documented rule with the exception class the documentation and the tests name for
it (for DFA, NFA and the PDA classes — whose `validate()` starts with the reserved-name checks of
fixes b159ae7, 07f4843, cb4efab — also the position of its check: the reserved names come
first).  (`GNFA.labelLexerError` is the one undocumented path: a `LexerError` escaping from the
regex validator; it needs an input symbol that is itself a reserved regex character.) -/
theorem C19_rule_tables :
    ([DFA.DefRule.reservedStateName, .reservedInputSymbol, .missingRow, .missingSymbol, .unknownSymbol,
        .unknownEndState, .badInitial, .badFinal].map fun r => (r.kind.name, r.stage)) =
      [("InvalidStateError", 0), ("InvalidSymbolError", 1), ("MissingStateError", 2),
       ("MissingSymbolError", 3), ("InvalidSymbolError", 3), ("InvalidStateError", 3),
       ("InvalidStateError", 4), ("InvalidStateError", 5)] ∧
    ([NFA.DefRule.reservedStateName, .reservedInputSymbol, .unknownSymbol, .unknownEndState, .badInitial,
        .initialNoRow, .badFinal].map fun r => (r.kind.name, r.stage)) =
      [("InvalidStateError", 0), ("InvalidSymbolError", 1), ("InvalidSymbolError", 2),
       ("InvalidStateError", 2), ("InvalidStateError", 3), ("MissingStateError", 4),
       ("InvalidStateError", 5)] ∧
    ([GNFA.Rule.badInitial, .badFinal, .initialEqualsFinal, .missingRow, .malformedLabel,
        .labelLexerError, .finalHasTransitions, .missingEntry, .unknownEndState,
        .transitionIntoInitial, .initialNoRow].map fun r => r.kind.name) =
      ["InvalidStateError", "InvalidStateError", "InvalidStateError", "MissingStateError",
       "InvalidRegexError", "LexerError", "InvalidStateError", "MissingStateError",
       "InvalidStateError", "InvalidStateError", "MissingStateError"] ∧
    ([PdaDefRule.reservedStackSymbol, .unknownInputSymbol, .nondeterministic, .unknownStackSymbol,
        .badInitial, .badInitialStackSymbol, .badFinal, .badAcceptanceMode].map
        fun r => (r.kind.name, r.stage)) =
      [("InvalidSymbolError", 0), ("InvalidSymbolError", 1), ("NondeterminismError", 1),
       ("InvalidSymbolError", 1), ("InvalidStateError", 2), ("InvalidSymbolError", 3),
       ("InvalidStateError", 4), ("InvalidAcceptanceModeError", 5)] ∧
    ([TmRule.inputNotProperSubset, .badBlank, .unknownTransitionState, .badReadSymbol,
        .unknownResultState, .badWriteSymbol, .badDirection, .badInitial, .initialNoRow,
        .initialIsFinal, .badFinal, .finalHasTransitions, .badTapeCount].map fun r => r.kind.name) =
      ["MissingSymbolError", "InvalidSymbolError", "InvalidStateError", "InvalidSymbolError",
       "InvalidStateError", "InvalidSymbolError", "InvalidDirectionError", "InvalidStateError",
       "MissingStateError", "InitialStateError", "InvalidStateError", "FinalStateError",
       "InconsistentTapesException"] := by
  decide

/-- In the class hierarchy regenerated from the source every documented class is a library
exception below `AutomatonException`; the PDA-specific ones are below `PDAException`, the
TM-specific ones below `TMException`. -/
theorem C19_documented_classes_hierarchy :
    (∀ r : DFA.DefRule, r.kind.isSubclass .automatonException = true) ∧
    (∀ r : NFA.DefRule, r.kind.isSubclass .automatonException = true) ∧
    (∀ r : GNFA.Rule, r ≠ .labelLexerError → r ≠ .malformedLabel →
        r.kind.isSubclass .automatonException = true) ∧
    (GNFA.Rule.malformedLabel.kind.isSubclass .regexException = true) ∧
    (∀ r : PdaDefRule, r.kind.isSubclass .automatonException = true) ∧
    (PdaDefRule.nondeterministic.kind.isSubclass .pDAException = true) ∧
    (PdaDefRule.badAcceptanceMode.kind.isSubclass .pDAException = true) ∧
    (∀ r : TmRule, r.kind.isSubclass .automatonException = true) ∧
    (TmRule.badDirection.kind.isSubclass .tMException = true) ∧
    (TmRule.badTapeCount.kind.isSubclass .tMException = true) := by
  refine ⟨?_, ?_, ?_, ?_, ?_, ?_, ?_, ?_, ?_, ?_⟩
  · intro r; cases r <;> decide
  · intro r; cases r <;> decide
  · intro r h1 h2; cases r <;> first | decide | exact absurd rfl h1 | exact absurd rfl h2
  · decide
  · intro r; cases r <;> decide
  · decide
  · decide
  · intro r; cases r <;> decide
  · decide
  · decide

/-! ### concrete corruption operators

Each takes a *valid* definition and one documented way of breaking it, and states the class the
constructor raises.  They are instances of `C19_corruption_raises`: the corrupted field occurs
in no rule that is checked earlier with another class. -/

section operators

set_option hygiene false in
section
/-- other rules of `DFA`: same class, or unaffected by the edit (hence not violated, the
original being valid), or checked later. -/
local macro "other_dfa" : tactic => `(tactic| first
  | exact Or.inl rfl
  | exact absurd hv' (hno .missingRow)
  | exact absurd hv' (hno .missingSymbol)
  | exact absurd hv' (hno .unknownSymbol)
  | exact absurd hv' (hno .unknownEndState)
  | exact absurd hv' (hno .badInitial)
  | exact absurd hv' (hno .badFinal)
  | (right; rw [DFA.rules_stage]; decide))
/-- other rules of `NFA`: same class, or unaffected by the edit (hence not violated, the
original being valid), or checked later. -/
local macro "other_nfa" : tactic => `(tactic| first
  | exact Or.inl rfl
  | exact absurd hv' (hno .unknownSymbol)
  | exact absurd hv' (hno .unknownEndState)
  | exact absurd hv' (hno .badInitial)
  | exact absurd hv' (hno .initialNoRow)
  | exact absurd hv' (hno .badFinal)
  | (right; rw [NFA.rules_stage]; decide))
/-- other rules of `DPDA`: same class, or unaffected by the edit (hence not violated, the
original being valid), or checked later. -/
local macro "other_dpda" : tactic => `(tactic| first
  | exact Or.inl rfl
  | exact absurd hv' (hno .unknownInputSymbol)
  | exact absurd hv' (hno .nondeterministic)
  | exact absurd hv' (hno .unknownStackSymbol)
  | exact absurd hv' (hno .badInitial)
  | exact absurd hv' (hno .badInitialStackSymbol)
  | exact absurd hv' (hno .badFinal)
  | exact absurd hv' (hno .badAcceptanceMode)
  | (right; rw [DPDA.rules_stage]; decide))
/-- other rules of `NPDA`: same class, or unaffected by the edit (hence not violated, the
original being valid), or checked later. -/
local macro "other_npda" : tactic => `(tactic| first
  | exact Or.inl rfl
  | exact absurd hv' (hno .unknownInputSymbol)
  | exact absurd hv' (hno .nondeterministic)
  | exact absurd hv' (hno .unknownStackSymbol)
  | exact absurd hv' (hno .badInitial)
  | exact absurd hv' (hno .badInitialStackSymbol)
  | exact absurd hv' (hno .badFinal)
  | exact absurd hv' (hno .badAcceptanceMode)
  | (right; rw [NPDA.rules_stage]; decide))
/-- other rules of `DTM`: same class, or unaffected by the edit (hence not violated, the
original being valid), or checked later. -/
local macro "other_dtm" : tactic => `(tactic| first
  | exact Or.inl rfl
  | exact absurd hv' (hno .inputNotProperSubset)
  | exact absurd hv' (hno .badBlank)
  | exact absurd hv' (hno .unknownTransitionState)
  | exact absurd hv' (hno .badReadSymbol)
  | exact absurd hv' (hno .unknownResultState)
  | exact absurd hv' (hno .badWriteSymbol)
  | exact absurd hv' (hno .badDirection)
  | exact absurd hv' (hno .badInitial)
  | exact absurd hv' (hno .initialNoRow)
  | exact absurd hv' (hno .initialIsFinal)
  | exact absurd hv' (hno .badFinal)
  | exact absurd hv' (hno .finalHasTransitions)
  | exact absurd hv' (hno .badTapeCount)
  | (right; rw [DTM.rules_stage]; decide))
/-- other rules of `GNFA`: same class, or unaffected by the edit (hence not violated, the
original being valid), or checked later. -/
local macro "other_gnfa" : tactic => `(tactic| first
  | exact Or.inl rfl
  | exact absurd hv' (hno .badInitial)
  | exact absurd hv' (hno .badFinal)
  | exact absurd hv' (hno .initialEqualsFinal)
  | exact absurd hv' (hno .missingRow)
  | exact absurd hv' (hno .malformedLabel)
  | exact absurd hv' (hno .labelLexerError)
  | exact absurd hv' (hno .finalHasTransitions)
  | exact absurd hv' (hno .missingEntry)
  | exact absurd hv' (hno .unknownEndState)
  | exact absurd hv' (hno .transitionIntoInitial)
  | exact absurd hv' (hno .initialNoRow)
  | (right; rw [GNFA.rules_stage]; decide))
/-- other rules of `NTM`: same class, or unaffected by the edit (hence not violated, the
original being valid), or checked later. -/
local macro "other_ntm" : tactic => `(tactic| first
  | exact Or.inl rfl
  | exact absurd hv' (hno .inputNotProperSubset)
  | exact absurd hv' (hno .badBlank)
  | exact absurd hv' (hno .unknownTransitionState)
  | exact absurd hv' (hno .badReadSymbol)
  | exact absurd hv' (hno .unknownResultState)
  | exact absurd hv' (hno .badWriteSymbol)
  | exact absurd hv' (hno .badDirection)
  | exact absurd hv' (hno .badInitial)
  | exact absurd hv' (hno .initialNoRow)
  | exact absurd hv' (hno .initialIsFinal)
  | exact absurd hv' (hno .badFinal)
  | exact absurd hv' (hno .finalHasTransitions)
  | exact absurd hv' (hno .badTapeCount)
  | (right; rw [NTM.rules_stage]; decide))
/-- other rules of `MNTM`: same class, or unaffected by the edit (hence not violated, the
original being valid), or checked later. -/
local macro "other_mntm" : tactic => `(tactic| first
  | exact Or.inl rfl
  | exact absurd hv' (hno .inputNotProperSubset)
  | exact absurd hv' (hno .badBlank)
  | exact absurd hv' (hno .unknownTransitionState)
  | exact absurd hv' (hno .badReadSymbol)
  | exact absurd hv' (hno .unknownResultState)
  | exact absurd hv' (hno .badWriteSymbol)
  | exact absurd hv' (hno .badDirection)
  | exact absurd hv' (hno .badInitial)
  | exact absurd hv' (hno .initialNoRow)
  | exact absurd hv' (hno .initialIsFinal)
  | exact absurd hv' (hno .badFinal)
  | exact absurd hv' (hno .finalHasTransitions)
  | exact absurd hv' (hno .badTapeCount)
  | (right; rw [MNTM.rules_stage]; decide))


/-- DFA / initial state outside the state set → `InvalidStateError`. -/
theorem C19_dfa_corrupt_initial (R : Reserved σ α) (d : DFA σ α) (wf : DFA.WFDef R d) (q : σ)
    (hq : q ∉ d.states) :
    DFA.validateDef R { d with init := q } = .error (.lib .invalidStateError) := by
  rw [DFA.validateDef_eq_validate R wf ({ d with init := q } : DFA σ α) rfl rfl (fun _ h => h)]
  have hno := (DFA.wf_iff d).mp wf.toWF
  refine DFA.rules_correct.corrupt_raises _ .badInitial hq ?_
  intro r' hv'
  cases r' <;> other_dfa

/-- DFA / a final state outside the state set → `InvalidStateError`. -/
theorem C19_dfa_corrupt_final (R : Reserved σ α) (d : DFA σ α) (wf : DFA.WFDef R d) (q : σ)
    (hq : q ∉ d.states) :
    DFA.validateDef R { d with finals := q :: d.finals } = .error (.lib .invalidStateError) := by
  rw [DFA.validateDef_eq_validate R wf ({ d with finals := q :: d.finals } : DFA σ α) rfl rfl (fun _ h => h)]
  have hno := (DFA.wf_iff d).mp wf.toWF
  refine DFA.rules_correct.corrupt_raises _ .badFinal ⟨q, by simp, hq⟩ ?_
  intro r' hv'
  cases r' <;> other_dfa

/-- NFA / initial state outside the state set → `InvalidStateError` (although the foreign
name has no row either: that check comes later). -/
theorem C19_nfa_corrupt_initial (R : Reserved σ α) (n : NFA σ α) (wf : NFA.WFDef R n) (q : σ)
    (hq : q ∉ n.states) :
    NFA.validateDef R { n with init := q } = .error (.lib .invalidStateError) := by
  rw [NFA.validateDef_eq_validate R wf ({ n with init := q } : NFA σ α) rfl rfl (fun _ h => h)]
  have hno := (NFA.wf_iff n).mp wf.toWF
  refine NFA.rules_correct.corrupt_raises _ .badInitial hq ?_
  intro r' hv'
  cases r' <;> other_nfa

/-- NFA / a final state outside the state set → `InvalidStateError`. -/
theorem C19_nfa_corrupt_final (R : Reserved σ α) (n : NFA σ α) (wf : NFA.WFDef R n) (q : σ)
    (hq : q ∉ n.states) :
    NFA.validateDef R { n with finals := q :: n.finals } = .error (.lib .invalidStateError) := by
  rw [NFA.validateDef_eq_validate R wf ({ n with finals := q :: n.finals } : NFA σ α) rfl rfl (fun _ h => h)]
  have hno := (NFA.wf_iff n).mp wf.toWF
  refine NFA.rules_correct.corrupt_raises _ .badFinal ⟨q, by simp, hq⟩ ?_
  intro r' hv'
  cases r' <;> other_nfa

/-- DPDA / invalid acceptance mode → `InvalidAcceptanceModeError`. -/
theorem C19_dpda_corrupt_mode (isEmptyStr : γ → Bool) (d : DPDA σ α γ) (wf : d.WFDef isEmptyStr)
    (m : String) (hm : m ∉ Gen.Validate.pdaAcceptanceModes) :
    ({ d with mode := m } : DPDA σ α γ).validateDef isEmptyStr =
      .error (.lib .invalidAcceptanceModeError) := by
  show (pdaValidateReserved isEmptyStr d.stackSyms).andThen _ = _
  rw [wf.reservedOk, Res.ok_andThen]
  have hno := (DPDA.wf_iff d).mp wf.toWF
  refine DPDA.rules_correct.corrupt_raises _ .badAcceptanceMode hm ?_
  intro r' hv'
  cases r' <;> other_dpda

/-- DPDA / invalid initial stack symbol → `InvalidSymbolError`. -/
theorem C19_dpda_corrupt_initial_stack_symbol (isEmptyStr : γ → Bool) (d : DPDA σ α γ)
    (wf : d.WFDef isEmptyStr) (g : γ) (hg : g ∉ d.stackSyms) :
    ({ d with initStack := g } : DPDA σ α γ).validateDef isEmptyStr = .error (.lib .invalidSymbolError) := by
  show (pdaValidateReserved isEmptyStr d.stackSyms).andThen _ = _
  rw [wf.reservedOk, Res.ok_andThen]
  have hno := (DPDA.wf_iff d).mp wf.toWF
  refine DPDA.rules_correct.corrupt_raises _ .badInitialStackSymbol hg ?_
  intro r' hv'
  cases r' <;> other_dpda

/-- NPDA / invalid acceptance mode → `InvalidAcceptanceModeError`. -/
theorem C19_npda_corrupt_mode (isEmptyStr : γ → Bool) (d : NPDA σ α γ) (wf : d.WFDef isEmptyStr)
    (m : String) (hm : m ∉ Gen.Validate.pdaAcceptanceModes) :
    ({ d with mode := m } : NPDA σ α γ).validateDef isEmptyStr =
      .error (.lib .invalidAcceptanceModeError) := by
  show (pdaValidateReserved isEmptyStr d.stackSyms).andThen _ = _
  rw [wf.reservedOk, Res.ok_andThen]
  have hno := (NPDA.wf_iff d).mp wf.toWF
  refine NPDA.rules_correct.corrupt_raises _ .badAcceptanceMode hm ?_
  intro r' hv'
  cases r' <;> other_npda

/-- DTM / the initial state made final → `InitialStateError` (the `FinalStateError` its row
would cause is checked later). -/
theorem C19_dtm_corrupt_initial_is_final (d : DTM σ γ) (wf : d.WF) :
    ({ d with finals := d.init :: d.finals } : DTM σ γ).validate = .error (.lib .initialStateError) := by
  have hno := (DTM.wf_iff d).mp wf
  refine DTM.rules_correct.corrupt_raises _ .initialIsFinal (by simp [DTM.rules]) ?_
  intro r' hv'
  cases r' <;> first
    | other_dtm
    | (exfalso
       obtain ⟨q, hq, hnq⟩ := hv'
       rcases List.mem_cons.mp hq with rfl | hq
       · exact hnq wf.tail.initOk
       · exact hnq (wf.tail.finalsOk q hq))

/-- DTM / blank symbol outside the tape alphabet → `InvalidSymbolError`. -/
theorem C19_dtm_corrupt_blank (d : DTM σ γ) (wf : d.WF) (b : γ) (hb : b ∉ d.tapeSyms) :
    ({ d with blank := b } : DTM σ γ).validate = .error (.lib .invalidSymbolError) := by
  have hno := (DTM.wf_iff d).mp wf
  refine DTM.rules_correct.corrupt_raises _ .badBlank hb ?_
  intro r' hv'
  cases r' <;> other_dtm

/-- MNTM / wrong tape count (with at least one transition read tuple) →
`InconsistentTapesException`. -/
theorem C19_mntm_corrupt_tape_count (d : MNTM σ γ) (wf : d.WF) (n : Int) (hn : n ≠ d.nTapes)
    (hne : ∃ kv ∈ d.trans, kv.2 ≠ []) :
    ({ d with nTapes := n } : MNTM σ γ).validate = .error (.lib .inconsistentTapesException) := by
  have hno := (MNTM.wf_iff d).mp wf
  have hv : MNTM.rules.Violates ({ d with nTapes := n } : MNTM σ γ) .badTapeCount := by
    obtain ⟨kv, hkv, hnil⟩ := hne
    obtain ⟨en, t, hcons⟩ : ∃ x t, kv.2 = x :: t := by
      cases h2 : kv.2 with
      | nil => exact absurd h2 hnil
      | cons x t => exact ⟨x, t, rfl⟩
    left
    refine ⟨kv, hkv, en, by simp [hcons], ?_⟩
    have := wf.readCount kv hkv en (by simp [hcons])
    show (en.1.length : Int) ≠ n
    rw [this]; exact fun h => hn h.symm
  refine MNTM.rules_correct.corrupt_raises _ .badTapeCount hv ?_
  intro r' hv'
  cases r' <;> other_mntm


/-- GNFA / initial state outside the state set → `InvalidStateError` (the first check). -/
theorem C19_gnfa_corrupt_initial (g : GNFA σ α) (wf : g.WF) (q : σ) (hq : q ∉ g.states) :
    ({ g with init := q } : GNFA σ α).validate = .error (.lib .invalidStateError) := by
  have hno := (GNFA.wf_iff g).mp wf
  refine GNFA.rules_correct.corrupt_raises _ .badInitial hq ?_
  intro r' hv'
  cases r' <;> other_gnfa

/-- GNFA / final state outside the state set → `InvalidStateError`. -/
theorem C19_gnfa_corrupt_final (g : GNFA σ α) (wf : g.WF) (q : σ) (hq : q ∉ g.states) :
    ({ g with final := q } : GNFA σ α).validate = .error (.lib .invalidStateError) := by
  have hno := (GNFA.wf_iff g).mp wf
  refine GNFA.rules_correct.corrupt_raises _ .badFinal hq ?_
  intro r' hv'
  cases r' <;> other_gnfa

/-- DPDA / initial state outside the state set → `InvalidStateError`. -/
theorem C19_dpda_corrupt_initial (isEmptyStr : γ → Bool) (d : DPDA σ α γ) (wf : d.WFDef isEmptyStr)
    (q : σ) (hq : q ∉ d.states) :
    ({ d with init := q } : DPDA σ α γ).validateDef isEmptyStr = .error (.lib .invalidStateError) := by
  show (pdaValidateReserved isEmptyStr d.stackSyms).andThen _ = _
  rw [wf.reservedOk, Res.ok_andThen]
  have hno := (DPDA.wf_iff d).mp wf.toWF
  refine DPDA.rules_correct.corrupt_raises _ .badInitial hq ?_
  intro r' hv'
  cases r' <;> other_dpda

/-- NPDA / initial state outside the state set → `InvalidStateError`. -/
theorem C19_npda_corrupt_initial (isEmptyStr : γ → Bool) (d : NPDA σ α γ) (wf : d.WFDef isEmptyStr)
    (q : σ) (hq : q ∉ d.states) :
    ({ d with init := q } : NPDA σ α γ).validateDef isEmptyStr = .error (.lib .invalidStateError) := by
  show (pdaValidateReserved isEmptyStr d.stackSyms).andThen _ = _
  rw [wf.reservedOk, Res.ok_andThen]
  have hno := (NPDA.wf_iff d).mp wf.toWF
  refine NPDA.rules_correct.corrupt_raises _ .badInitial hq ?_
  intro r' hv'
  cases r' <;> other_npda

/-- DTM / initial state outside the state set → `InvalidStateError`. -/
theorem C19_dtm_corrupt_initial (d : DTM σ γ) (wf : d.WF) (q : σ) (hq : q ∉ d.states) :
    ({ d with init := q } : DTM σ γ).validate = .error (.lib .invalidStateError) := by
  have hno := (DTM.wf_iff d).mp wf
  refine DTM.rules_correct.corrupt_raises _ .badInitial hq ?_
  intro r' hv'
  cases r' <;> other_dtm

/-- NTM / initial state outside the state set → `InvalidStateError`. -/
theorem C19_ntm_corrupt_initial (d : NTM σ γ) (wf : d.WF) (q : σ) (hq : q ∉ d.states) :
    ({ d with init := q } : NTM σ γ).validate = .error (.lib .invalidStateError) := by
  have hno := (NTM.wf_iff d).mp wf
  refine NTM.rules_correct.corrupt_raises _ .badInitial hq ?_
  intro r' hv'
  cases r' <;> other_ntm

/-- MNTM / initial state outside the state set → `InvalidStateError`. -/
theorem C19_mntm_corrupt_initial (d : MNTM σ γ) (wf : d.WF) (q : σ) (hq : q ∉ d.states) :
    ({ d with init := q } : MNTM σ γ).validate = .error (.lib .invalidStateError) := by
  have hno := (MNTM.wf_iff d).mp wf
  refine MNTM.rules_correct.corrupt_raises _ .badInitial hq ?_
  intro r' hv'
  cases r' <;> other_mntm

/-- NTM / blank symbol outside the tape alphabet → `InvalidSymbolError`. -/
theorem C19_ntm_corrupt_blank (d : NTM σ γ) (wf : d.WF) (b : γ) (hb : b ∉ d.tapeSyms) :
    ({ d with blank := b } : NTM σ γ).validate = .error (.lib .invalidSymbolError) := by
  have hno := (NTM.wf_iff d).mp wf
  refine NTM.rules_correct.corrupt_raises _ .badBlank hb ?_
  intro r' hv'
  cases r' <;> other_ntm

end

end operators


/-! ### row- and entry-level operators for the DFA: each of its six documented rules -/

/-- DFA / the row of a state removed → `MissingStateError` (the first check after the reserved
names; holds for every definition that uses no reserved name, valid or not). -/
theorem C19_dfa_corrupt_missing_row (R : Reserved σ α) (d : DFA σ α)
    (hres : faValidateReserved R d.states (akeys d.trans) d.syms = .ok ()) (q : σ) (hq : q ∈ d.states) :
    DFA.validateDef R { d with trans := d.trans.filter (fun kv => decide (kv.1 ≠ q)) } =
      .error (.lib .missingStateError) := by
  obtain ⟨h1, h2, h3⟩ := (faValidateReserved_eq_ok R _ _ _).mp hres
  have hres' : faValidateReserved R d.states (akeys (d.trans.filter (fun kv => decide (kv.1 ≠ q)))) d.syms =
      .ok () := by
    refine (faValidateReserved_eq_ok R _ _ _).mpr ⟨h1, fun x hx => h2 x ?_, h3⟩
    obtain ⟨kv, hkv, rfl⟩ := List.mem_map.mp hx
    exact List.mem_map.mpr ⟨kv, (List.mem_filter.mp hkv).1, rfl⟩
  show (faValidateReserved R d.states (akeys (d.trans.filter (fun kv => decide (kv.1 ≠ q)))) d.syms).andThen _ = _
  rw [hres', Res.ok_andThen]
  have hv : DFA.rules.Violates ({ d with trans := d.trans.filter (fun kv => decide (kv.1 ≠ q)) } : DFA σ α)
      .missingRow := by
    refine ⟨q, hq, ?_⟩
    simp only [akeys, List.mem_map, List.mem_filter, decide_eq_true_eq, not_exists, not_and]
    intro kv hkv hk
    exact hkv.2 hk
  refine DFA.rules_correct.corrupt_raises _ .missingRow hv ?_
  intro r' _
  cases r' <;> first | exact Or.inl rfl | (right; rw [DFA.rules_stage]; decide)

/-- DFA / a symbol removed from the row of a state of a valid complete DFA → `MissingSymbolError`. -/
theorem C19_dfa_corrupt_missing_symbol (R : Reserved σ α) (d : DFA σ α) (wf : DFA.WFDef R d)
    (hc : d.allowPartial = false) (q : σ) (hq : q ∈ d.states) (a : α) (ha : a ∈ d.syms) :
    DFA.validateDef R (dropSymbol d q a) = .error (.lib .missingSymbolError) := by
  rw [DFA.validateDef_eq_validate R wf (dropSymbol d q a) rfl rfl (by rw [dropSymbol_keys]; exact fun _ h => h)]
  have hno := (DFA.wf_iff d).mp wf.toWF
  -- every row of the new table is a sub-row of a row of the old one
  have hsub : ∀ kv' ∈ (dropSymbol d q a).trans, ∃ kv ∈ d.trans, kv'.1 = kv.1 ∧ ∀ e ∈ kv'.2, e ∈ kv.2 := by
    intro kv' hkv'
    simp only [dropSymbol, List.mem_map] at hkv'
    obtain ⟨kv, hkv, rfl⟩ := hkv'
    refine ⟨kv, hkv, ?_⟩
    split
    · exact ⟨rfl, fun e he => (List.mem_filter.mp he).1⟩
    · exact ⟨rfl, fun e he => he⟩
  have hv : DFA.rules.Violates (dropSymbol d q a) .missingSymbol := by
    obtain ⟨kv, hkv, hk⟩ := List.mem_map.mp (wf.rows q hq)
    refine ⟨hc, (kv.1, kv.2.filter fun e => decide (e.1 ≠ a)), ?_, a, ha, ?_⟩
    · simp only [dropSymbol, List.mem_map]
      exact ⟨kv, hkv, by simp [hk]⟩
    · simp only [akeys, List.mem_map, List.mem_filter, decide_eq_true_eq, not_exists, not_and]
      intro e he hk'
      exact he.2 hk'
  refine DFA.rules_correct.corrupt_raises _ .missingSymbol hv ?_
  intro r' hv'
  cases r'
  · -- missingRow: the keys are unchanged
    exfalso
    obtain ⟨p, hp, hnp⟩ := hv'
    rw [dropSymbol_keys] at hnp
    exact hnp (wf.rows p hp)
  · exact Or.inl rfl
  · -- unknownSymbol: sub-rows of valid rows
    exfalso
    obtain ⟨kv', hkv', b, hb, hnb⟩ := hv'
    obtain ⟨kv, hkv, _, hsubrow⟩ := hsub kv' hkv'
    obtain ⟨e, he, rfl⟩ := List.mem_map.mp hb
    exact hnb (wf.symsOk kv hkv e.1 (List.mem_map.mpr ⟨e, hsubrow e he, rfl⟩))
  · exfalso
    obtain ⟨kv', hkv', p, hp, hnp⟩ := hv'
    obtain ⟨kv, hkv, _, hsubrow⟩ := hsub kv' hkv'
    obtain ⟨e, he, rfl⟩ := List.mem_map.mp hp
    exact hnp (wf.tgtOk kv hkv e.2 (List.mem_map.mpr ⟨e, hsubrow e he, rfl⟩))
  · right; rw [DFA.rules_stage]; decide
  · right; rw [DFA.rules_stage]; decide

/-- DFA / `transitions[q][a] = t` with `t` not a state, in a valid DFA → `InvalidStateError`
("unknown end state"). -/
theorem C19_dfa_corrupt_end_state (R : Reserved σ α) (d : DFA σ α) (wf : DFA.WFDef R d) (q : σ)
    (hq : q ∈ d.states) (a : α) (ha : a ∈ d.syms) (t : σ) (ht : t ∉ d.states) :
    DFA.validateDef R (setEntry d q a t) = .error (.lib .invalidStateError) := by
  rw [DFA.validateDef_eq_validate R wf (setEntry d q a t) rfl rfl (by rw [setEntry_keys]; exact fun _ h => h)]
  have hv : DFA.rules.Violates (setEntry d q a t) .unknownEndState := by
    obtain ⟨kv, hkv, hk⟩ := List.mem_map.mp (wf.rows q hq)
    refine ⟨(kv.1, ainsert a t kv.2), ?_, t, ?_, ht⟩
    · simp only [setEntry, List.mem_map]
      exact ⟨kv, hkv, by simp [hk]⟩
    · exact List.mem_map.mpr ⟨(a, t), ainsert_mem_self a t kv.2, rfl⟩
  refine DFA.rules_correct.corrupt_raises _ .unknownEndState hv ?_
  intro r' hv'
  cases r'
  · exfalso
    obtain ⟨p, hp, hnp⟩ := hv'
    rw [setEntry_keys] at hnp
    exact hnp (wf.rows p hp)
  · -- missingSymbol: rows only grow
    exfalso
    obtain ⟨hp, kv', hkv', b, hb, hnb⟩ := hv'
    obtain ⟨kv, hkv, _, hkeys⟩ := setEntry_rows d q a t kv' hkv'
    exact hnb (hkeys b (wf.complete hp kv hkv b hb))
  · -- unknownSymbol: the new entry uses an input symbol
    exfalso
    obtain ⟨kv', hkv', b, hb, hnb⟩ := hv'
    obtain ⟨kv, hkv, hent, _⟩ := setEntry_rows d q a t kv' hkv'
    obtain ⟨e, he, rfl⟩ := List.mem_map.mp hb
    rcases hent e he with rfl | he'
    · exact hnb ha
    · exact hnb (wf.symsOk kv hkv e.1 (List.mem_map.mpr ⟨e, he', rfl⟩))
  · exact Or.inl rfl
  · exact Or.inl rfl
  · exact Or.inl rfl

/-- DFA / `transitions[q][a] = t` with `a` not an input symbol, in a valid DFA →
`InvalidSymbolError` ("unknown transition symbol"). -/
theorem C19_dfa_corrupt_symbol (R : Reserved σ α) (d : DFA σ α) (wf : DFA.WFDef R d) (q : σ)
    (hq : q ∈ d.states) (a : α) (ha : a ∉ d.syms) (t : σ) (ht : t ∈ d.states) :
    DFA.validateDef R (setEntry d q a t) = .error (.lib .invalidSymbolError) := by
  rw [DFA.validateDef_eq_validate R wf (setEntry d q a t) rfl rfl (by rw [setEntry_keys]; exact fun _ h => h)]
  have hv : DFA.rules.Violates (setEntry d q a t) .unknownSymbol := by
    obtain ⟨kv, hkv, hk⟩ := List.mem_map.mp (wf.rows q hq)
    refine ⟨(kv.1, ainsert a t kv.2), ?_, a, ?_, ha⟩
    · simp only [setEntry, List.mem_map]
      exact ⟨kv, hkv, by simp [hk]⟩
    · exact List.mem_map.mpr ⟨(a, t), ainsert_mem_self a t kv.2, rfl⟩
  refine DFA.rules_correct.corrupt_raises _ .unknownSymbol hv ?_
  intro r' hv'
  cases r'
  · exfalso
    obtain ⟨p, hp, hnp⟩ := hv'
    rw [setEntry_keys] at hnp
    exact hnp (wf.rows p hp)
  · exfalso
    obtain ⟨hp, kv', hkv', b, hb, hnb⟩ := hv'
    obtain ⟨kv, hkv, _, hkeys⟩ := setEntry_rows d q a t kv' hkv'
    exact hnb (hkeys b (wf.complete hp kv hkv b hb))
  · exact Or.inl rfl
  · -- unknownEndState: the new entry leads to a state
    exfalso
    obtain ⟨kv', hkv', p, hp, hnp⟩ := hv'
    obtain ⟨kv, hkv, hent, _⟩ := setEntry_rows d q a t kv' hkv'
    obtain ⟨e, he, rfl⟩ := List.mem_map.mp hp
    rcases hent e he with rfl | he'
    · exact hnp ht
    · exact hnp (wf.tgtOk kv hkv e.2 (List.mem_map.mpr ⟨e, he', rfl⟩))
  · right; rw [DFA.rules_stage]; decide
  · right; rw [DFA.rules_stage]; decide

/-! ### row- and entry-level operators for the NFA (with the two field-level ones above: all five rules) -/

/-- NFA / the row of the initial state removed (more than one state) → `MissingStateError`
("initial state without transitions"). -/
theorem C19_nfa_corrupt_initial_row (R : Reserved σ α) (n : NFA σ α) (wf : NFA.WFDef R n)
    (hlen : 1 < n.states.length) :
    NFA.validateDef R { n with trans := n.trans.filter (fun kv => decide (kv.1 ≠ n.init)) } =
      .error (.lib .missingStateError) := by
  rw [NFA.validateDef_eq_validate R wf ({ n with trans := n.trans.filter (fun kv => decide (kv.1 ≠ n.init)) } : NFA σ α) rfl rfl (fun x hx => by
    obtain ⟨kv, hkv, rfl⟩ := List.mem_map.mp hx
    exact List.mem_map.mpr ⟨kv, (List.mem_filter.mp hkv).1, rfl⟩)]
  have hno := (NFA.wf_iff n).mp wf.toWF
  have hv : NFA.rules.Violates ({ n with trans := n.trans.filter (fun kv => decide (kv.1 ≠ n.init)) } : NFA σ α)
      .initialNoRow := by
    refine ⟨?_, hlen⟩
    simp only [akeys, List.mem_map, List.mem_filter, decide_eq_true_eq, not_exists, not_and]
    intro kv hkv hk
    exact hkv.2 hk
  refine NFA.rules_correct.corrupt_raises _ .initialNoRow hv ?_
  intro r' hv'
  cases r'
  · exfalso
    obtain ⟨kv, hkv, a, ha, hna⟩ := hv'
    exact hna (wf.symsOk kv (List.mem_filter.mp hkv).1 a ha)
  · exfalso
    obtain ⟨kv, hkv, ts, hts, q, hq, hnq⟩ := hv'
    exact hnq (wf.tgtOk kv (List.mem_filter.mp hkv).1 ts hts q hq)
  · exact absurd hv' (hno .badInitial)
  · exact Or.inl rfl
  · right; rw [NFA.rules_stage]; decide

/-- NFA / `transitions[q][a] = ts` with a non-state among `ts`, `a` an input symbol or `""`, in a
valid NFA → `InvalidStateError` ("unknown end state"). -/
theorem C19_nfa_corrupt_end_state (R : Reserved σ α) (n : NFA σ α) (wf : NFA.WFDef R n) (q : σ)
    (hq : q ∈ akeys n.trans) (a : Option α) (ha : ∀ x, a = some x → x ∈ n.syms) (ts : List σ) (t : σ)
    (ht : t ∈ ts) (hnt : t ∉ n.states) :
    NFA.validateDef R (NFA.setEntry n q a ts) = .error (.lib .invalidStateError) := by
  rw [NFA.validateDef_eq_validate R wf (NFA.setEntry n q a ts) rfl rfl (by rw [NFA.setEntry_keys]; exact fun _ h => h)]
  have hno := (NFA.wf_iff n).mp wf.toWF
  have hv : NFA.rules.Violates (NFA.setEntry n q a ts) .unknownEndState := by
    obtain ⟨kv, hkv, hk⟩ := List.mem_map.mp hq
    refine ⟨(kv.1, ainsert a ts kv.2), ?_, ts, ?_, t, ht, hnt⟩
    · simp only [NFA.setEntry, List.mem_map]
      exact ⟨kv, hkv, by simp [hk]⟩
    · exact List.mem_map.mpr ⟨(a, ts), ainsert_mem_self a ts kv.2, rfl⟩
  refine NFA.rules_correct.corrupt_raises _ .unknownEndState hv ?_
  intro r' hv'
  cases r'
  · -- unknownSymbol (same stage, other class): the new entry uses a legal symbol
    exfalso
    obtain ⟨kv', hkv', b, hb, hnb⟩ := hv'
    obtain ⟨kv, hkv, hent⟩ := NFA.setEntry_rows n q a ts kv' hkv'
    obtain ⟨e, he, hbe⟩ := List.mem_map.mp hb
    rcases hent e he with rfl | he'
    · exact hnb (ha b hbe)
    · exact hnb (wf.symsOk kv hkv b (List.mem_map.mpr ⟨e, he', hbe⟩))
  · exact Or.inl rfl
  · exact Or.inl rfl
  · right; rw [NFA.rules_stage]; decide
  · exact Or.inl rfl

/-- NFA / `transitions[q][a] = ts` with `a` neither an input symbol nor `""`, `ts` states, in a
valid NFA → `InvalidSymbolError` ("unknown transition symbol"). -/
theorem C19_nfa_corrupt_symbol (R : Reserved σ α) (n : NFA σ α) (wf : NFA.WFDef R n) (q : σ)
    (hq : q ∈ akeys n.trans) (a : α) (ha : a ∉ n.syms) (ts : List σ) (hts : ∀ t ∈ ts, t ∈ n.states) :
    NFA.validateDef R (NFA.setEntry n q (some a) ts) = .error (.lib .invalidSymbolError) := by
  rw [NFA.validateDef_eq_validate R wf (NFA.setEntry n q (some a) ts) rfl rfl (by rw [NFA.setEntry_keys]; exact fun _ h => h)]
  have hno := (NFA.wf_iff n).mp wf.toWF
  have hv : NFA.rules.Violates (NFA.setEntry n q (some a) ts) .unknownSymbol := by
    obtain ⟨kv, hkv, hk⟩ := List.mem_map.mp hq
    refine ⟨(kv.1, ainsert (some a) ts kv.2), ?_, a, ?_, ha⟩
    · simp only [NFA.setEntry, List.mem_map]
      exact ⟨kv, hkv, by simp [hk]⟩
    · exact List.mem_map.mpr ⟨(some a, ts), ainsert_mem_self (some a) ts kv.2, rfl⟩
  refine NFA.rules_correct.corrupt_raises _ .unknownSymbol hv ?_
  intro r' hv'
  cases r'
  · exact Or.inl rfl
  · -- unknownEndState (same stage, other class): the new entry leads to states
    exfalso
    obtain ⟨kv', hkv', us, hus, p, hp, hnp⟩ := hv'
    obtain ⟨kv, hkv, hent⟩ := NFA.setEntry_rows n q (some a) ts kv' hkv'
    obtain ⟨e, he, hue⟩ := List.mem_map.mp hus
    rcases hent e he with rfl | he'
    · exact hnp (hts p (by rw [← hue] at hp; exact hp))
    · exact hnp (wf.tgtOk kv hkv us (List.mem_map.mpr ⟨e, he', hue⟩) p hp)
  · right; rw [NFA.rules_stage]; decide
  · right; rw [NFA.rules_stage]; decide
  · right; rw [NFA.rules_stage]; decide

/-! ### reserved names (fixes b159ae7, 07f4843, cb4efab): checked before everything else -/

/-- DFA / `None` added to the state set → `InvalidStateError` — for every definition, valid or
not, and although the new state has no row (`MissingStateError` is checked later). -/
theorem C19_dfa_corrupt_none_state (R : Reserved σ α) (d : DFA σ α) (q : σ) (hq : R.isNone q = true) :
    DFA.validateDef R { d with states := q :: d.states } = .error (.lib .invalidStateError) := by
  refine (DFA.defRules_correct R).corrupt_raises _ .reservedStateName (Or.inl ⟨q, by simp, hq⟩) ?_
  intro r' _
  cases r' <;> first | exact Or.inl rfl | (right; rw [DFA.defRules_stage]; decide)

/-- DFA / a row keyed by `None` added to the transition table (fix f47420f) → `InvalidStateError`,
for every definition — rows keyed by other names that are not states are accepted. -/
theorem C19_dfa_corrupt_none_row_key (R : Reserved σ α) (d : DFA σ α) (q : σ) (hq : R.isNone q = true)
    (row : List (α × σ)) :
    DFA.validateDef R { d with trans := d.trans ++ [(q, row)] } = .error (.lib .invalidStateError) := by
  refine (DFA.defRules_correct R).corrupt_raises _ .reservedStateName (Or.inr ⟨q, by simp [akeys], hq⟩) ?_
  intro r' _
  cases r' <;> first | exact Or.inl rfl | (right; rw [DFA.defRules_stage]; decide)

/-- DFA / `""` added to the input symbols of a definition without a state or row named `None` →
`InvalidSymbolError` (although the rows of a complete DFA now lack a symbol: `MissingSymbolError`
is checked later). -/
theorem C19_dfa_corrupt_empty_symbol (R : Reserved σ α) (d : DFA σ α)
    (hn : ∀ q ∈ d.states, R.isNone q = false) (hk : ∀ q ∈ akeys d.trans, R.isNone q = false) (a : α)
    (ha : R.isEmptyStr a = true) :
    DFA.validateDef R { d with syms := a :: d.syms } = .error (.lib .invalidSymbolError) := by
  refine (DFA.defRules_correct R).corrupt_raises _ .reservedInputSymbol ⟨a, by simp, ha⟩ ?_
  intro r' hv'
  cases r' <;> first
    | exact Or.inl rfl
    | (right; rw [DFA.defRules_stage]; decide)
    | (exfalso
       rcases hv' with ⟨q, hq, hq'⟩ | ⟨q, hq, hq'⟩
       · rw [hn q hq] at hq'; cases hq'
       · rw [hk q hq] at hq'; cases hq')

/-- NFA / `None` added to the state set → `InvalidStateError`, for every definition. -/
theorem C19_nfa_corrupt_none_state (R : Reserved σ α) (n : NFA σ α) (q : σ) (hq : R.isNone q = true) :
    NFA.validateDef R { n with states := q :: n.states } = .error (.lib .invalidStateError) := by
  refine (NFA.defRules_correct R).corrupt_raises _ .reservedStateName (Or.inl ⟨q, by simp, hq⟩) ?_
  intro r' _
  cases r' <;> first | exact Or.inl rfl | (right; rw [NFA.defRules_stage]; decide)

/-- NFA / a row keyed by `None` added to the transition table → `InvalidStateError`, for every
definition. -/
theorem C19_nfa_corrupt_none_row_key (R : Reserved σ α) (n : NFA σ α) (q : σ) (hq : R.isNone q = true)
    (row : List (Option α × List σ)) :
    NFA.validateDef R { n with trans := n.trans ++ [(q, row)] } = .error (.lib .invalidStateError) := by
  refine (NFA.defRules_correct R).corrupt_raises _ .reservedStateName (Or.inr ⟨q, by simp [akeys], hq⟩) ?_
  intro r' _
  cases r' <;> first | exact Or.inl rfl | (right; rw [NFA.defRules_stage]; decide)

/-- NFA / `""` added to the input symbols of a definition without a state or row named `None` →
`InvalidSymbolError`. -/
theorem C19_nfa_corrupt_empty_symbol (R : Reserved σ α) (n : NFA σ α)
    (hn : ∀ q ∈ n.states, R.isNone q = false) (hk : ∀ q ∈ akeys n.trans, R.isNone q = false) (a : α)
    (ha : R.isEmptyStr a = true) :
    NFA.validateDef R { n with syms := a :: n.syms } = .error (.lib .invalidSymbolError) := by
  refine (NFA.defRules_correct R).corrupt_raises _ .reservedInputSymbol ⟨a, by simp, ha⟩ ?_
  intro r' hv'
  cases r' <;> first
    | exact Or.inl rfl
    | (right; rw [NFA.defRules_stage]; decide)
    | (exfalso
       rcases hv' with ⟨q, hq, hq'⟩ | ⟨q, hq, hq'⟩
       · rw [hn q hq] at hq'; cases hq'
       · rw [hk q hq] at hq'; cases hq')

/-- DPDA / `""` added to the stack symbols → `InvalidSymbolError`, for every definition (the
first statement of `PDA.validate`). -/
theorem C19_dpda_corrupt_empty_stack_symbol (isEmptyStr : γ → Bool) (d : DPDA σ α γ) (g : γ)
    (hg : isEmptyStr g = true) :
    ({ d with stackSyms := g :: d.stackSyms } : DPDA σ α γ).validateDef isEmptyStr =
      .error (.lib .invalidSymbolError) := by
  refine (DPDA.defRules_correct isEmptyStr).corrupt_raises _ .reservedStackSymbol ⟨g, by simp, hg⟩ ?_
  intro r' _
  cases r' <;> first | exact Or.inl rfl | (right; rw [DPDA.defRules_stage]; decide)

/-- NPDA / `""` added to the stack symbols → `InvalidSymbolError`, for every definition. -/
theorem C19_npda_corrupt_empty_stack_symbol (isEmptyStr : γ → Bool) (d : NPDA σ α γ) (g : γ)
    (hg : isEmptyStr g = true) :
    ({ d with stackSyms := g :: d.stackSyms } : NPDA σ α γ).validateDef isEmptyStr =
      .error (.lib .invalidSymbolError) := by
  refine (NPDA.defRules_correct isEmptyStr).corrupt_raises _ .reservedStackSymbol ⟨g, by simp, hg⟩ ?_
  intro r' _
  cases r' <;> first | exact Or.inl rfl | (right; rw [NPDA.defRules_stage]; decide)

/-! ## C. tie to the source: raise sites, order of checks, literals -/

/-- Which exception classes the validation methods of every class can raise (regenerated from
/repo on every run; the error kinds of the model's rule systems mirror exactly this table).
Stated per class and as a set (sorted, no repeats), so that splitting, merging or moving a check
inside a class — a harmless rewrite — does not touch it, while dropping the last raise of a kind or
adding a new kind does. -/
theorem C19_raise_sites :
    Gen.Validate.raiseKinds =
      [("Automaton", ["InvalidStateError", "MissingStateError"]),
       ("FA", ["InvalidStateError", "InvalidSymbolError"]),
       ("DFA", ["InvalidStateError", "InvalidSymbolError", "MissingStateError", "MissingSymbolError"]),
       ("NFA", ["InvalidStateError", "InvalidSymbolError"]),
       ("GNFA", ["InvalidRegexError", "InvalidStateError", "MissingStateError"]),
       ("PDA", ["InvalidAcceptanceModeError", "InvalidSymbolError"]),
       ("DPDA", ["NondeterminismError"]),
       ("TM", ["InitialStateError", "InvalidSymbolError", "MissingSymbolError"]),
       ("DTM", ["FinalStateError", "InvalidDirectionError", "InvalidStateError", "InvalidSymbolError"]),
       ("NTM", ["FinalStateError", "InvalidDirectionError", "InvalidStateError", "InvalidSymbolError"]),
       ("MNTM", ["InconsistentTapesException", "InvalidStateError", "InvalidSymbolError"])] := by
  decide

/-- The order in which `validate()` of each class calls its checks (regenerated); the stages of
the rule systems follow this order. -/
theorem C19_validate_call_order :
    Gen.Validate.validateCalls.filter (fun t => ["DFA", "NFA", "GNFA", "PDA", "DTM", "NTM", "MNTM",
        "DFA._validate_transitions", "DPDA._validate_transition_invalid_symbols",
        "NPDA._validate_transition_invalid_symbols", "DTM._validate_transitions",
        "NTM._validate_transitions", "GNFA.__post_init__", "Automaton.__post_init__"].contains t.1) =
      [("Automaton.__post_init__", ["validate"]),
       ("DFA._validate_transitions", ["_validate_transition_missing_symbols",
          "_validate_transition_invalid_symbols", "_validate_transition_end_states"]),
       ("DFA", ["_validate_reserved_names", "_validate_transition_start_states", "_validate_transitions",
          "_validate_initial_state", "_validate_final_states"]),
       ("NFA", ["_validate_reserved_names", "_validate_transition_invalid_symbols",
          "_validate_transition_end_states", "_validate_initial_state", "_validate_initial_state_transitions",
          "_validate_final_states"]),
       ("GNFA.__post_init__", ["validate"]),
       ("GNFA", ["_validate_initial_state", "_validate_final_state",
          "_validate_transition_invalid_symbols", "_validate_transition_end_states",
          "_validate_initial_state_transitions"]),
       ("PDA", ["_validate_transition_invalid_symbols", "_validate_initial_state",
          "_validate_initial_stack_symbol", "_validate_final_states", "_validate_acceptance"]),
       ("DPDA._validate_transition_invalid_symbols", ["_validate_transition_invalid_input_symbols",
          "_validate_transition_isolated_lambda_transitions", "_validate_transition_invalid_stack_symbols"]),
       ("NPDA._validate_transition_invalid_symbols", ["_validate_transition_invalid_input_symbols",
          "_validate_transition_invalid_stack_symbols"]),
       ("DTM._validate_transitions", ["_validate_transition_state", "_validate_transition_symbols",
          "_validate_transition_results"]),
       ("DTM", ["_read_input_symbol_subset", "_validate_blank_symbol", "_validate_transitions",
          "_validate_initial_state", "_validate_initial_state_transitions",
          "_validate_nonfinal_initial_state", "_validate_final_states",
          "_validate_final_state_transitions"]),
       ("NTM._validate_transitions", ["_validate_transition_state", "_validate_transition_symbols",
          "_validate_transition_results"]),
       ("NTM", ["_read_input_symbol_subset", "_validate_blank_symbol", "_validate_transitions",
          "_validate_initial_state", "_validate_initial_state_transitions",
          "_validate_nonfinal_initial_state", "_validate_final_states",
          "_validate_final_state_transitions"]),
       ("MNTM", ["super.validate", "_validate_tapes_consistency"])] := by
  decide

/-- The literals the checks compare against are the documented ones; the reserved names are
`None` (state name or row key) and the empty string (input symbol of a DFA / NFA, stack symbol of a PDA),
tested before anything else by `DFA.validate`, `NFA.validate` and `PDA.validate`. -/
theorem C19_literals :
    Gen.Validate.dtmDirections = ["L", "N", "R"] ∧ Gen.Validate.ntmDirections = ["L", "N", "R"] ∧
    Gen.Validate.pdaAcceptanceModes = ["final_state", "empty_stack", "both"] ∧
    (∀ c ∈ ["*", "|", "(", ")", "?"], c ∈ Gen.Validate.gnfaLabelExtra) ∧
    Gen.Validate.gnfaLabelExtra.length = 5 ∧
    Gen.Slots.configDefaults = [("should_validate_automata", true), ("allow_mutable_automata", false)] ∧
    Gen.Validate.reservedNameChecks =
      [("FA._validate_reserved_names",
          ["if None in self.states or None in self.transitions: raise InvalidStateError",
           "if '' in self.input_symbols: raise InvalidSymbolError"]),
       ("DFA.validate", ["self._validate_reserved_names()", "self._validate_transition_start_states()", "for",
          "self._validate_initial_state()", "self._validate_final_states()"]),
       ("NFA.validate", ["self._validate_reserved_names()", "for", "self._validate_initial_state()",
          "self._validate_initial_state_transitions()", "self._validate_final_states()"]),
       ("PDA.validate", ["if '' in self.stack_symbols: raise InvalidSymbolError", "for",
          "self._validate_initial_state()", "self._validate_initial_stack_symbol()",
          "self._validate_final_states()", "self._validate_acceptance()"])] := by
  decide

/-! ## D. the global options never change the answer -/

/-- On a valid input, all four combinations of `should_validate_automata` /
`allow_mutable_automata` construct an object, and all four objects have the abstract value of
the arguments — so every (pure) operation returns the same answer on them.  `abs` / `freeze`
are any representation whose freezing preserves the abstract value (`C18_freeze_value` for
Python values, instance below); `alwaysValidate` is `GNFA.__post_init__`. -/
theorem C19_options {κ δ : Type} (abs : κ → δ) (freeze : κ → κ) (v : δ → Res Unit)
    (alwaysValidate : Bool) (hfz : ∀ c, abs (freeze c) = abs c) (c : κ) (hvalid : v (abs c) = .ok ())
    (shouldValidate allowMutable : Bool) :
    ∃ s, construct abs freeze v alwaysValidate shouldValidate allowMutable c = .ok s ∧ abs s = abs c := by
  unfold construct
  have hs : abs (if allowMutable then c else freeze c) = abs c := by
    cases allowMutable <;> simp [hfz]
  by_cases hb : (shouldValidate || alwaysValidate) = true
  · simp only [hb, if_true, hs, hvalid]
    exact ⟨_, rfl, hs⟩
  · simp only [hb]
    exact ⟨_, rfl, hs⟩

/-- On an invalid input, with validation on, the same error is raised whether or not mutable
automata are allowed; with validation off nothing is raised (except by GNFA, which always
validates). -/
theorem C19_options_invalid {κ δ : Type} (abs : κ → δ) (freeze : κ → κ) (v : δ → Res Unit)
    (hfz : ∀ c, abs (freeze c) = abs c) (c : κ) (e : Exn) (hinvalid : v (abs c) = .error e)
    (allowMutable : Bool) :
    construct abs freeze v false true allowMutable c = .error e ∧
    construct abs freeze v true false allowMutable c = .error e ∧
    ∃ s, construct abs freeze v false false allowMutable c = .ok s := by
  have hs : abs (if allowMutable then c else freeze c) = abs c := by
    cases allowMutable <;> simp [hfz]
  refine ⟨?_, ?_, ?_⟩
  · simp [construct, hs, hinvalid]
  · simp [construct, hs, hinvalid]
  · exact ⟨(if allowMutable then c else freeze c), by simp [construct]⟩

/-- Instance for the real representation: constructor arguments as Python values, stored by
`Automaton.__init__` (`storeKwargs`), abstract value = names with `norm`-alised values, any
validator that reads the abstract value (all of the above do: they only test membership). -/
theorem C19_options_kwargs (v : List (String × PyVal) → Res Unit) (alwaysValidate : Bool)
    (kwargs : List (String × PyVal))
    (hvalid : v (kwargs.map fun kv => (kv.1, kv.2.norm)) = .ok ())
    (shouldValidate allowMutable : Bool) :
    ∃ stored, construct (fun kw : List (String × PyVal) => kw.map fun kv => (kv.1, kv.2.norm))
        (storeKwargs false) v alwaysValidate shouldValidate allowMutable kwargs = .ok stored ∧
      stored.map (fun kv => (kv.1, kv.2.norm)) = kwargs.map (fun kv => (kv.1, kv.2.norm)) := by
  apply C19_options
  · intro c
    simp only [storeKwargs, List.map_map]
    apply List.map_congr_left
    intro kv _
    simp [PyVal.norm_freeze]
  · exact hvalid

/-- For the eight validators of this file: same verdict under all four combinations. -/
theorem C19_options_dfa (R : Reserved σ α) (d : DFA σ α) (hv : DFA.validateDef R d = .ok ())
    (sv am : Bool) : construct id id (DFA.validateDef R) false sv am d = .ok d := by
  obtain ⟨s, hs, rfl⟩ := C19_options id id (DFA.validateDef R) false (fun _ => rfl) d hv sv am
  exact hs

theorem C19_options_gnfa (g : GNFA σ α) (hv : g.validate = .ok ()) (sv am : Bool) :
    construct id id GNFA.validate true sv am g = .ok g := by
  obtain ⟨s, hs, rfl⟩ := C19_options id id GNFA.validate true (fun _ => rfl) g hv sv am
  exact hs

/-- GNFA ignores `should_validate_automata`: an ill-formed GNFA is rejected even with validation
switched off. -/
theorem C19_gnfa_always_validates (g : GNFA σ α) (e : Exn) (h : g.validate = .error e) (sv am : Bool) :
    construct id id GNFA.validate true sv am g = .error e := by
  cases am <;> simp [construct, h]

/-! ## results are valid — statement of the obligation (partial)

Every automaton returned by a library operation passes validation.  The operations are
modelled in the files of C04–C17, whose property theorems carry the corresponding `Valid`
conclusions; this file cannot import them (they are developed independently), so the
obligation is stated here over an arbitrary family of modelled operations and proved only for
the operation this file models itself (`copy`).  On the real code it is checked by
harness/ops/C19.py: every result of every public operation is re-validated, with automatic
validation switched off during the call. -/

/-- Full statement: `ops` is the family of modelled operations of a class with definitions `δ`
(each takes valid operands and returns a definition or raises). -/
def C19_results_valid_full (δ : Type) (validate : δ → Res Unit) (ops : List (List δ → Res δ)) : Prop :=
  ∀ op ∈ ops, ∀ args : List δ, (∀ a ∈ args, validate a = .ok ()) →
    ∀ r, op args = .ok r → validate r = .ok ()

/-- Proved part: the copy of a valid definition is valid (construction from the reported
parameters; the definition is the same value — Props/C18). -/
theorem C19_results_valid_partial (δ : Type) (validate : δ → Res Unit) :
    C19_results_valid_full δ validate [fun args => match args with | [a] => .ok a | _ => .error (.py .typeError)] := by
  intro op hop args hargs r hr
  simp only [List.mem_singleton] at hop
  subst hop
  match args, hargs, hr with
  | [a], hargs, hr =>
    simp only [Except.ok.injEq] at hr
    subst hr
    exact hargs a (by simp)

/-! ## non-vacuity: concrete definitions, valid and corrupted -/

def exDFA : DFA Nat Nat :=
  { states := [0, 1], syms := [0, 1], trans := [(0, [(0, 1), (1, 0)]), (1, [(0, 1), (1, 1)]), (7, [(0, 0), (1, 0)])],
    init := 0, finals := [1], allowPartial := false }

/-- names 99 / 77 stand for `None` / `""` -/
def exR : Reserved Nat Nat := ⟨(· == 99), (· == 77)⟩

example : DFA.validateDef exR exDFA = .ok () := by decide
example : DFA.validateDef exR { exDFA with init := 5 } = .error (.lib .invalidStateError) := by decide
example : DFA.validateDef exR { exDFA with trans := exDFA.trans.tail } = .error (.lib .missingStateError) := by
  decide
example : DFA.validateDef exR { exDFA with trans := [(0, [(0, 1)]), (1, [(0, 1), (1, 1)])] } =
    .error (.lib .missingSymbolError) := by decide
/-- `None` among the states wins over the missing row / the bad initial state -/
example : DFA.validateDef exR { exDFA with states := [0, 1, 99], trans := exDFA.trans.tail } =
    .error (.lib .invalidStateError) := by decide
/-- a row keyed by `None` is refused (fix f47420f), a row keyed by another non-state (7) is not -/
example : DFA.validateDef exR { exDFA with trans := exDFA.trans ++ [(99, [(0, 0), (1, 0)])] } =
    .error (.lib .invalidStateError) := by decide
/-- `""` among the input symbols wins over the rows that now lack a symbol -/
example : DFA.validateDef exR { exDFA with syms := [0, 1, 77] } = .error (.lib .invalidSymbolError) := by decide
example : ({ exDFA with syms := [0, 1, 77] } : DFA Nat Nat).validate = .error (.lib .missingSymbolError) := by
  decide

/-! The three definitions whose old behaviour motivated the fixes (review finding X1, the
`edit_distance` alphabet, the PDA table keyed by `""`), under the concrete interpretation
`Reserved.python` (`none : Option _` is `None`, `""` is the empty string): every check that
existed before the fixes passes (`validate`), the constructor now rejects them (`validateDef`). -/

/-- X1: `DFA(states={0,None}, input_symbols={'a','b'}, transitions={0:{'a':0}, None:{}},
initial_state=0, final_states={None}, allow_partial=True)` — accepted `'b'` before b159ae7. -/
def x1DFA : DFA (Option Nat) String :=
  { states := [some 0, none], syms := ["a", "b"], trans := [(some 0, [("a", some 0)]), (none, [])],
    init := some 0, finals := [none], allowPartial := true }

example : x1DFA.validate = .ok () := by decide
example : DFA.validateDef Reserved.python x1DFA = .error (.lib .invalidStateError) := by decide

/-- an NFA over `{"", "a"}` (the alphabet `NFA.edit_distance` was called with before 07f4843) -/
def emptySymNFA : NFA (Option Nat) String :=
  { states := [some 0], syms := ["", "a"], trans := [(some 0, [(some "a", [some 0])])], init := some 0,
    finals := [some 0] }

/-- F33: `DFA(states={0,1}, input_symbols={'a'}, transitions={0:{'a':1}, 1:{'a':1}, None:{'a':0}},
initial_state=0, final_states={1})` — a row keyed by `None` passed `validate()` before f47420f and
`isfinite()` / `len()` / `successor()` raised networkx's `ValueError: None cannot be a node`. -/
def f33DFA : DFA (Option Nat) String :=
  { states := [some 0, some 1], syms := ["a"],
    trans := [(some 0, [("a", some 1)]), (some 1, [("a", some 1)]), (none, [("a", some 0)])],
    init := some 0, finals := [some 1], allowPartial := false }

example : f33DFA.validate = .ok () := by decide
example : DFA.validateDef Reserved.python f33DFA = .error (.lib .invalidStateError) := by decide

example : emptySymNFA.validate = .ok () := by decide
example : NFA.validateDef Reserved.python emptySymNFA = .error (.lib .invalidSymbolError) := by decide

def exGNFA : GNFA Nat Nat :=
  { states := [0, 1, 2], syms := [0],
    trans := [(0, [(1, some ⟨[.sym 0], .valid⟩), (2, none)]),
              (1, [(1, some ⟨[.sym 0, .extra "*"], .valid⟩), (2, some ⟨[], .valid⟩)])],
    init := 0, final := 2 }

example : exGNFA.validate = .ok () := by decide
example : ({ exGNFA with final := 0 } : GNFA Nat Nat).validate = .error (.lib .invalidStateError) := by decide
example : ({ exGNFA with trans := exGNFA.trans.take 1 } : GNFA Nat Nat).validate =
    .error (.lib .missingStateError) := by decide
example : ({ exGNFA with trans := [(0, [(1, some ⟨[.sym 9], .valid⟩), (2, none)]), (1, [(1, none), (2, none)])] } :
    GNFA Nat Nat).validate = .error (.lib .invalidRegexError) := by decide

def exDPDA : DPDA Nat Nat Nat :=
  { states := [0, 1], syms := [0], stackSyms := [0, 1],
    trans := [(0, [(some 0, [(0, (0, [1, 0]))]), (none, [(1, (1, []))])])],
    init := 0, initStack := 0, finals := [1], mode := "final_state" }

example : exDPDA.validateDef (· == 77) = .ok () := by decide
/-- the λ-entry placed *after* the conflicting symbol entry is still caught -/
example : ({ exDPDA with trans := [(0, [(some 0, [(0, (0, [1, 0]))]), (none, [(0, (1, []))])])] } :
    DPDA Nat Nat Nat).validateDef (· == 77) = .error (.lib .nondeterminismError) := by decide
example : ({ exDPDA with mode := "final" } : DPDA Nat Nat Nat).validateDef (· == 77) =
    .error (.lib .invalidAcceptanceModeError) := by decide
/-- `""` among the stack symbols is the first error, whatever else is wrong -/
example : ({ exDPDA with stackSyms := [0, 1, 77], mode := "final" } : DPDA Nat Nat Nat).validateDef (· == 77) =
    .error (.lib .invalidSymbolError) := by decide

/-- rev1 C02 GAP-2: a PDA table keyed by the stack symbol `""` let an *empty* stack make a move
(`PDAStack.top()` of an empty stack is `""`): `NPDA(states={0,1}, input_symbols={'a'},
stack_symbols={'Z',''}, transitions={0: {'': {'Z': {(0,'')}, '': {(1,'Z')}}}}, initial_state=0,
initial_stack_symbol='Z', final_states={1}, acceptance_mode='final_state')` accepted `''`.
Every older check passes, cb4efab rejects it. -/
def emptyStackSymNPDA : NPDA Nat String String :=
  { states := [0, 1], syms := ["a"], stackSyms := ["Z", ""],
    trans := [(0, [(none, [("Z", [(0, [])]), ("", [(1, ["Z"])])])])],
    init := 0, initStack := "Z", finals := [1], mode := "final_state" }

example : emptyStackSymNPDA.validate = .ok () := by decide
example : emptyStackSymNPDA.validateDef (· == "") = .error (.lib .invalidSymbolError) := by decide

def exMNTM : MNTM Nat Nat :=
  { states := [0, 1], syms := [0], tapeSyms := [0, 9], nTapes := 2,
    trans := [(0, [([0, 9], [(1, [(0, "R"), (9, "N")])]), ([9, 9], [])])],
    init := 0, blank := 9, finals := [1] }

example : exMNTM.validate = .ok () := by decide
example : ({ exMNTM with nTapes := 3 } : MNTM Nat Nat).validate = .error (.lib .inconsistentTapesException) := by
  decide
example : ({ exMNTM with finals := [0, 1] } : MNTM Nat Nat).validate = .error (.lib .initialStateError) := by decide
example : ({ exMNTM with trans := [(0, [([0, 9], [(1, [(0, "R"), (9, "X")])])])] } : MNTM Nat Nat).validate =
    .error (.lib .invalidDirectionError) := by decide
example : ({ exMNTM with syms := [0, 9] } : MNTM Nat Nat).validate = .error (.lib .missingSymbolError) := by decide

end AV.Props.C19
