/- Props/C19.lean — placeholder, theorems follow. -/
import AutomataVerif.Model.ValidateAll
namespace AV.Props.C19
end AV.Props.C19
