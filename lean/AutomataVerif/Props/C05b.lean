/-
Props/C05b.lean — C05, `complement(minify=True)` of ANY valid DFA (partial operands
included), composed from C04's `to_complete` / complement theorems and C05's minimality of
`_minify`.  Kept in its own module because it imports the property files of C04 and C05.
-/
import AutomataVerif.Props.C04
import AutomataVerif.Props.C05

namespace AV.Props.C05
open AV AV.DFA

variable {σ α : Type} [DecidableEq σ] [DecidableEq α]

/-- **`complement(minify=True)` of any valid DFA** — partial or complete, any trap name
outside the states, every pop order — as the code composes it (`complementMinFull`:
`to_complete()` first iff `allow_partial`, then `_minify` of the reachable part with flipped
final states): the call succeeds and the result is a valid COMPLETE DFA that accepts exactly
the words over the alphabet that `d` rejects and has the fewest states of any valid complete
DFA over (at least) that alphabet with that language.  (`C05_complementMin` is the special
case of an operand declared complete; a partial operand whose rows happen to be complete is
returned unchanged by `to_complete`, keeps `allow_partial=True`, and is covered here too.) -/
theorem C05_complementMinFull (d : AV.DFA σ α) (hv : d.validate = .ok ()) (ps : d.PyShape)
    (trap : σ) (ht : trap ∉ d.states) (pick : List Nat → Nat) :
    ∃ M, d.complementMinFull trap pick = .ok M ∧
      MinimalFor M (fun w => (w.all fun a => decide (a ∈ d.syms)) && !d.accepts w) d.syms ∧
      M.allowPartial = false := by
  -- the completed operand
  have hC : ∃ C, (if d.allowPartial then d.toComplete trap false else .ok d) = .ok C ∧
      C.validate = .ok () ∧ C.PyShape ∧ C.syms = d.syms ∧ C.IsComplete ∧
      ∀ w, C.accepts w = d.accepts w := by
    cases hp : d.allowPartial with
    | false =>
      exact ⟨d, by simp, hv, ps, rfl,
        AV.C04.isComplete_of_flag ((validate_eq_ok d).mp hv) hp, fun _ => rfl⟩
    | true =>
      obtain ⟨C, h1, h2, h3, h4, h5, _, _, h8⟩ :=
        AV.Props.C04.C04_to_complete d hv ps trap false ht
      exact ⟨C, by simpa using h1, h2, h3, h4, h5, h8⟩
  obtain ⟨C, hCeq, hCv, hCp, hCs, hCc, hCl⟩ := hC
  have wfC := (validate_eq_ok C).mp hCv
  -- the same table declared complete
  let C' : AV.DFA σ α := { C with allowPartial := false }
  have wfC' : C'.WF :=
    ⟨wfC.rows, fun _ => hCc, wfC.symsOk, wfC.tgtOk, wfC.initOk, wfC.finalsOk⟩
  have psC' : C'.PyShape :=
    ⟨hCp.states_nodup, hCp.syms_nodup, hCp.finals_nodup, hCp.keys_nodup, hCp.rows_nodup⟩
  obtain ⟨hmin, hflag⟩ := C05_complementMin C' ((validate_eq_ok C').mpr wfC') rfl psC' pick
  have e1 : C'.complementMin pick = C.complementMin pick := rfl
  have e2 : C'.complementPlain = C.complementPlain := rfl
  have e3 : C'.syms = d.syms := hCs
  have hlang : C.complementPlain.accepts =
      fun w => (w.all fun a => decide (a ∈ d.syms)) && !d.accepts w := by
    funext w
    rw [(AV.Props.C04.C04_complement_complete C hCv hCp hCc).2.2.2.2.2 w, hCs, hCl w]
  refine ⟨C.complementMin pick, ?_, ?_, ?_⟩
  · unfold complementMinFull
    rw [hCeq]
  · rw [e1, e2, e3, hlang] at hmin
    exact hmin
  · rw [e1] at hflag; exact hflag

/-- Non-vacuity: the partial 4-state DFA of finding F1 (`exF1`), trap name 9. -/
example : ∃ M, exF1.complementMinFull 9 (fun _ => 0) = .ok M ∧
    MinimalFor M (fun w => (w.all fun a => decide (a ∈ exF1.syms)) && !exF1.accepts w) exF1.syms ∧
    M.allowPartial = false :=
  C05_complementMinFull exF1 rfl ⟨by decide, by decide, by decide, by decide, by decide⟩ 9
    (by decide) _

example : (match exF1.complementMinFull 9 (fun _ => 0) with
    | .ok M => (M.states.length, M.accepts [0, 0, 1], M.accepts [1], M.accepts [7])
    | .error _ => (0, false, false, false)) = (4, true, false, false) := by decide

end AV.Props.C05
