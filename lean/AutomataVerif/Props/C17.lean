/-
Props/C17.lean — C17: single-tape simulation of a multitape machine agrees with the native run.

English statement (properties.jsonl): for every valid multitape Turing machine and every
input on which the native multitape run halts, simulating the machine on one extended tape
gives the same accept/reject verdict, and it signals rejection only through the library's
rejection exception.  This includes machines whose heads move left from the leftmost cell of
a tape or right past its end, since tapes are blank-extended in both directions.
Quantifier: all valid 1-, 2-, 3-tape machines (deterministic or not), all inputs, within a
step budget.

How it is stated here.
* Model (`Model/TMSim.lean`): `_read_extended_tape` and the splice loop of
  `read_input_as_ntm` with Python's integer index arithmetic and slicing as written
  (including the blank extension on a left move from the leftmost cell, fix 8f7542c), the
  queue loop observed through `n` calls of `next()` (`simStepwise`), next to the native run
  `MNTM.readStepwise` of C03.  Nothing assumes halting.
* Spec (`Spec/TMSim.lean`): `encode hd sep tapes` — per tape its cells with the head mark right
  after the scanned cell, then the separator (`encTape`); `stepTapes` is the native
  `write_symbol`/`move` on every tape (`zip(moves, tapes)`, `TMTape` exactly as in C03);
  `GoodTape`/`GoodCfg` = representable (class invariant, machine's blank, no cell equal to a mark).
* Domain (`SimDomain`): `validate = ok`, at least one tape, tape alphabet without the two
  marks, `'^' ≠ '_'`; the input must not contain the marks either (`Clean`) — the library
  never checks an input string against `input_symbols`.  The theorems hold for any number of
  tapes ≥ 1 and any symbol type; the code's marks are the instance `hd = '^'`, `sep = '_'`
  of `Γ = Char` (last section).
-/
import AutomataVerif.Proofs.TMSim
import Batteries.Lean.Except

namespace AV.Props.C17
open AV AV.TM

set_option linter.unusedSectionVars false
variable {σ Γ : Type} [DecidableEq σ] [DecidableEq Γ]

/-! ## decode ∘ encode -/

/-- `_read_extended_tape` on the encoding of a tuple of tapes returns exactly the scanned
symbols (and does not raise `MalformedExtendedTapeError`). -/
theorem C17_decode_heads (hd sep b : Γ) (hne : sep ≠ hd) (ts : List (Tape Γ))
    (hts : ∀ t ∈ ts, GoodTape hd sep b t) :
    readExtended hd sep (encode hd sep ts) = .ok (ts.map Tape.read) :=
  readExtended_encode hd sep hne ts hts

/-! ## splice = encode ∘ native step -/

/-- The native successor of a configuration is `stepTapes` on its tapes. -/
theorem C17_native_step (tapes : List (Tape Γ)) (q : σ) (moves : List (Γ × Dir)) :
    MNTM.apply tapes (q, moves) = { state := q, tapes := stepTapes moves tapes } := rfl

/-- **The splice loop computes the encoding of the native step**: for a transition
`(q, moves)` with one move per tape, tapes without the marks, written symbols and blank
different from the marks, `new_tape` is `encode (stepTapes moves tapes)` — all of `L`, `R`,
`N`, on every tape, at both boundaries (left of the leftmost cell: blank inserted after the
previous separator or at index 0; right of the last cell: blank inserted before the
separator) — the queue entry records the last index, and neither `IndexError` nor
fuel exhaustion occurs. -/
theorem C17_step (hd sep b : Γ) (hne : sep ≠ hd) (hb : b ≠ hd ∧ b ≠ sep) (q : σ)
    (moves : List (Γ × Dir)) (ts : List (Tape Γ)) (hl : moves.length = ts.length)
    (hm : ∀ m ∈ moves, m.1 ≠ hd ∧ m.1 ≠ sep) (hts : ∀ t ∈ ts, GoodTape hd sep b t) :
    spliceAll hd sep b (encode hd sep ts) (q, moves) =
      .ok (some (q, encode hd sep (stepTapes moves ts),
        (((encode hd sep (stepTapes moves ts)).length : Nat) : Int) - 1)) :=
  spliceAll_encode hd sep b hne hb q moves ts hl hm hts

/-- Representable configurations are closed under the machine's steps, and the start
configuration is representable: the hypotheses of `C17_step` hold along every run. -/
theorem C17_representable (M : MNTM σ Γ) (hd sep : Γ) (dom : SimDomain M hd sep) (w : List Γ)
    (hw : Clean hd sep w) :
    GoodCfg M hd sep (M.initCfg w) ∧
    ∀ c, GoodCfg M hd sep c → ∀ x ∈ M.succL c, GoodCfg M hd sep x :=
  ⟨M.goodCfg_init hd sep dom w hw, fun _ hc => M.goodCfg_succL hd sep dom hc⟩

/-! ## the simulation as a whole -/

/-- The configurations yielded by `read_input_as_ntm` within `n` calls are (state, extended
tape) = (state, `encode` tapes) of the configurations visited by a FIFO search over the native
successor relation (successors taken in the order of the transition list), and the generator
stands exactly as that search does. -/
theorem C17_sim_visits (M : MNTM σ Γ) (hd sep : Γ) (dom : SimDomain M hd sep) (w : List Γ)
    (hw : Clean hd sep w) (n : Nat) :
    (simStepwise M hd sep w n).1.map strip =
      (Q.qobs M.succL M.accF n [M.initCfg w]).1.map (encS hd sep) ∧
    (simStepwise M hd sep w n).2 = (Q.qobs M.succL M.accF n [M.initCfg w]).2 :=
  M.simStepwise_eq hd sep dom w hw n

/-- **Rejection only through `RejectionException`**: whatever the budget, the simulation has
returned, raised `RejectionException`, or is still running — never
`MalformedExtendedTapeError`, `IndexError` or anything else. -/
theorem C17_only_rejection (M : MNTM σ Γ) (hd sep : Γ) (dom : SimDomain M hd sep) (w : List Γ)
    (hw : Clean hd sep w) (n : Nat) :
    (simStepwise M hd sep w n).2 = .returned ∨
    (simStepwise M hd sep w n).2 = .raised (.lib .rejectionException) ∨
    (simStepwise M hd sep w n).2 = .running := by
  rw [(C17_sim_visits M hd sep dom w hw n).2]
  exact Q.qobs_end_cases _ _ _ _

theorem native_acc_eq (M : MNTM σ Γ) (hv : M.validate = .ok ()) : M.acc = M.accF := by
  funext c
  rw [M.acc_eq_final (M.validate_final_no_rows hv).1 c]
  rfl

/-- **Same verdict — acceptance**: some budget makes the native run return iff some budget
makes the simulation return. -/
theorem C17_accept_iff (M : MNTM σ Γ) (hd sep : Γ) (dom : SimDomain M hd sep) (w : List Γ)
    (hw : Clean hd sep w) :
    (∃ n, (M.readStepwise w n).2 = .returned) ↔ ∃ n, (simStepwise M hd sep w n).2 = .returned := by
  simp only [(C17_sim_visits M hd sep dom w hw _).2, MNTM.readStepwise_eq_qobs,
    native_acc_eq M dom.valid, Q.qobs_accept_iff]
  constructor
  · rintro ⟨d, c, hc, ha⟩
    exact ⟨d, c, (Q.mem_lvl_congr (M.mem_succ_iff_succL) d _ c).mp hc, ha⟩
  · rintro ⟨d, c, hc, ha⟩
    exact ⟨d, c, (Q.mem_lvl_congr (M.mem_succ_iff_succL) d _ c).mpr hc, ha⟩

/-- **Same verdict — rejection**. -/
theorem C17_reject_iff (M : MNTM σ Γ) (hd sep : Γ) (dom : SimDomain M hd sep) (w : List Γ)
    (hw : Clean hd sep w) :
    (∃ n, (M.readStepwise w n).2 = .raised (.lib .rejectionException)) ↔
      ∃ n, (simStepwise M hd sep w n).2 = .raised (.lib .rejectionException) := by
  have h1 := Q.qobs_reject_iff M.succ M.accF [M.initCfg w]
  have h2 := Q.qobs_reject_iff M.succL M.accF [M.initCfg w]
  simp only [(C17_sim_visits M hd sep dom w hw _).2, MNTM.readStepwise_eq_qobs,
    native_acc_eq M dom.valid]
  have hmem : ∀ d c, c ∈ Q.lvl M.succ d [M.initCfg w] ↔ c ∈ Q.lvl M.succL d [M.initCfg w] :=
    fun d c => Q.mem_lvl_congr (M.mem_succ_iff_succL) d _ c
  have hnil : ∀ D, Q.lvl M.succ D [M.initCfg w] = [] ↔ Q.lvl M.succL D [M.initCfg w] = [] := by
    intro D
    rw [List.eq_nil_iff_forall_not_mem, List.eq_nil_iff_forall_not_mem]
    exact forall_congr' fun c => not_congr (hmem D c)
  show (∃ n, _ = GenEnd.raised Q.rej) ↔ (∃ n, _ = GenEnd.raised Q.rej)
  rw [h1, h2]
  simp only [hnil, hmem]

/-- **C17, as the property says it**: if the native run is decided (accept or reject) within
some budget, the simulation reaches the same verdict within some budget — and conversely. -/
theorem C17_verdict (M : MNTM σ Γ) (hd sep : Γ) (dom : SimDomain M hd sep) (w : List Γ)
    (hw : Clean hd sep w) (v : Verdict) (hv : v ≠ .outOfFuel) :
    (∃ n, M.verdict w n = .ok v) ↔ ∃ n, simVerdict M hd sep w n = .ok v := by
  have hcases := fun n => Q.qobs_end_cases M.succ M.acc n [M.initCfg w]
  have hcases' := C17_only_rejection M hd sep dom w hw
  have key : ∀ (e : GenEnd), (e = .returned ∨ e = .raised (.lib .rejectionException) ∨ e = .running) →
      (verdictOf e = .ok v ↔ (v = .accept ∧ e = .returned) ∨
        (v = .reject ∧ e = .raised (.lib .rejectionException))) := by
    intro e he
    rcases he with rfl | rfl | rfl
    · cases v <;> simp [verdictOf]
    · cases v <;> simp [verdictOf]
    · cases v <;> simp [verdictOf] at hv ⊢
  unfold MNTM.verdict simVerdict
  have hk1 : ∀ n, verdictOf (M.readStepwise w n).2 = .ok v ↔ _ := fun n =>
    key _ (by rw [MNTM.readStepwise_eq_qobs]; exact hcases n)
  have hk2 : ∀ n, verdictOf (simStepwise M hd sep w n).2 = .ok v ↔ _ := fun n => key _ (hcases' n)
  simp only [hk1, hk2]
  have ha := C17_accept_iff M hd sep dom w hw
  have hr := C17_reject_iff M hd sep dom w hw
  constructor
  · rintro ⟨n, (⟨rfl, h⟩ | ⟨rfl, h⟩)⟩
    · obtain ⟨n', h'⟩ := ha.mp ⟨n, h⟩; exact ⟨n', Or.inl ⟨rfl, h'⟩⟩
    · obtain ⟨n', h'⟩ := hr.mp ⟨n, h⟩; exact ⟨n', Or.inr ⟨rfl, h'⟩⟩
  · rintro ⟨n, (⟨rfl, h⟩ | ⟨rfl, h⟩)⟩
    · obtain ⟨n', h'⟩ := ha.mpr ⟨n, h⟩; exact ⟨n', Or.inl ⟨rfl, h'⟩⟩
    · obtain ⟨n', h'⟩ := hr.mpr ⟨n, h⟩; exact ⟨n', Or.inr ⟨rfl, h'⟩⟩

/-! ## the code's instance: `Γ = Char`, head mark `'^'`, separator `'_'` -/

/-- The property for the marks the library uses. -/
theorem C17_verdict_char {σ : Type} [DecidableEq σ] (M : MNTM σ Char)
    (hvalid : M.validate = .ok ()) (hnt : 1 ≤ M.nTapes)
    (halpha : ∀ a ∈ M.tapeSyms, a ≠ '^' ∧ a ≠ '_') (w : List Char)
    (hw : ∀ a ∈ w, a ≠ '^' ∧ a ≠ '_') (v : Verdict) (hv : v ≠ .outOfFuel) (n : Nat)
    (hnative : M.verdict w n = .ok v) :
    (∃ n', simVerdict M '^' '_' w n' = .ok v) ∧
    ∀ k, (simStepwise M '^' '_' w k).2 = .returned ∨
      (simStepwise M '^' '_' w k).2 = .raised (.lib .rejectionException) ∨
      (simStepwise M '^' '_' w k).2 = .running := by
  have dom : SimDomain M '^' '_' := ⟨hvalid, hnt, by decide, halpha⟩
  exact ⟨(C17_verdict M '^' '_' dom w hw v hv).mp ⟨n, hnative⟩,
    C17_only_rejection M '^' '_' dom w hw⟩

/-! ## Non-vacuity -/

/-- The trigger of F9: `q0 -1/1,L→ q1 -#/#,R→ q2` (left move from the leftmost cell), here
with a second tape that runs right past its end; symbols `'1'`, `'#'`. -/
def exF9 : MNTM Nat Char :=
  { states := [0, 1, 2], inputSyms := ['1'], tapeSyms := ['1', '#'], nTapes := 2,
    trans := [(0, [(['1', '#'], [(1, [('1', .L), ('1', .R)])])]),
              (1, [(['#', '#'], [(2, [('#', .R), ('#', .N)]), (1, [('1', .L), ('#', .L)])])])],
    init := 0, blank := '#', finals := [2] }

example : SimDomain exF9 '^' '_' := ⟨by decide, by decide, by decide, by decide⟩
example : Clean '^' '_' ['1'] := by intro x hx; simp at hx; subst hx; decide
/-- extended tapes of the yields: start; after the left move off tape 1 (blank inserted at
index 0) and the right move off tape 2 (blank inserted before `_`); then the final state —
the simulation takes the successors in list order, the native run `[1:]` first, so the native
run visits one more configuration before accepting -/
example : ((simStepwise exF9 '^' '_' ['1'] 4).1.map fun e => (e.1, String.ofList e.2.1, e.2.2)) =
    [(0, "1^_#^_", 0), (1, "#^1_1#^_", 7), (2, "#1^_1#^_", 7)] ∧
    (simStepwise exF9 '^' '_' ['1'] 4).2 = .returned ∧
    (exF9.readStepwise ['1'] 4).1.map (·.state) = [0, 1, 1, 2] := by decide
example : exF9.verdict ['1'] 6 = .ok .accept ∧ simVerdict exF9 '^' '_' ['1'] 6 = .ok .accept := by
  decide
example : readExtended '^' '_' "1^_#^_".toList = .ok ['1', '#'] := by decide

/-! ## The boundary of the domain: the marks inside the tape alphabet or the input

`validate` does not reserve `'^'` / `'_'` and the library never checks an input string, so the
two hypotheses `halpha` / `hw` of `C17_verdict_char` exclude inputs that lie inside the property's
literal quantifier ("all valid machines, all inputs").  On them the property **fails**; the two
theorems below prove it on the model with concrete witnesses (open finding
`C17:mark-symbol-in-alphabet-or-input` in `known_findings.json`; `harness/ops/C17.py` produces
the same inputs on the real code on every run — family `mark_alphabets` — and compares model and
code there, too). -/

/-- `q0 -_/_,R→ qf` over the tape alphabet `{'_', '#'}`: a valid one-tape machine whose tape
alphabet contains the separator mark. -/
def exU : MNTM Nat Char :=
  { states := [0, 1], inputSyms := ['_'], tapeSyms := ['_', '#'], nTapes := 1,
    trans := [(0, [(['_'], [(1, [('_', .R)])])])],
    init := 0, blank := '#', finals := [1] }

/-- **`halpha` cannot be dropped**: `exU` is valid and has one tape, the native run accepts
`"_"`, the single-tape simulation raises `MalformedExtendedTapeError` (its initial extended tape
`"_^_"` has a separator before the first head mark). -/
theorem C17_mark_in_alphabet_fails :
    exU.validate = .ok () ∧ 1 ≤ exU.nTapes ∧
    exU.verdict ['_'] 5 = .ok .accept ∧
    simVerdict exU '^' '_' ['_'] 5 = .error (.lib .malformedExtendedTapeError) ∧
    ¬ (∀ a ∈ exU.tapeSyms, a ≠ '^' ∧ a ≠ '_') := by decide

/-- **`hw` cannot be dropped**: `exF9` satisfies `SimDomain` (valid, two tapes, tape alphabet
`{'1', '#'}`), the native run rejects the input `"^"` (no row for it), the simulation raises
`MalformedExtendedTapeError` (head mark right after a head mark). -/
theorem C17_mark_in_input_fails :
    SimDomain exF9 '^' '_' ∧
    exF9.verdict ['^'] 5 = .ok .reject ∧
    simVerdict exF9 '^' '_' ['^'] 5 = .error (.lib .malformedExtendedTapeError) :=
  ⟨⟨by decide, by decide, by decide, by decide⟩, by decide, by decide⟩

/-- A machine that *writes* the head mark (`'^'` in its tape alphabet, clean input):
`q0 -0/^,R→ q1 -#/#,N→ qf`.  Natively it accepts `"0"`; the simulation's second extended tape
is `"^#^_"`, which `_read_extended_tape` refuses. -/
def exW : MNTM Nat Char :=
  { states := [0, 1, 2], inputSyms := ['0'], tapeSyms := ['0', '^', '#'], nTapes := 1,
    trans := [(0, [(['0'], [(1, [('^', .R)])])]), (1, [(['#'], [(2, [('#', .N)])])])],
    init := 0, blank := '#', finals := [2] }

theorem C17_mark_written_fails :
    exW.validate = .ok () ∧ exW.verdict ['0'] 5 = .ok .accept ∧
    (simStepwise exW '^' '_' ['0'] 5).1.map (fun e => String.ofList e.2.1) = ["0^_", "^#^_"] ∧
    simVerdict exW '^' '_' ['0'] 5 = .error (.lib .malformedExtendedTapeError) := by decide

end AV.Props.C17
