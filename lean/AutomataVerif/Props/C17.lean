import AutomataVerif.Model.TMSim
