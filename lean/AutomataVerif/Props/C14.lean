/- Props/C14.lean — in progress. -/
import AutomataVerif.Model.DFACache

namespace AV.Props.C14
end AV.Props.C14
