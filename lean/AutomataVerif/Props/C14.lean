/-
Props/C14.lean — C14: successor / predecessor traversal enumerates the language in order,
completely.

English statement (properties.jsonl): for every DFA, start string, strictness flag, symbol
ordering key and length window, the successor generator yields exactly the accepted words
inside the window that come after the start string (or equal to it when not strict), in
increasing lexicographic order without repeats, and the single-step variant returns the first
of them or None; the predecessor variants do the same in decreasing order for finite languages
and refuse infinite ones with the documented exception.  The empty word and start strings that
are not accepted or not even readable are handled like any other.

Model (Model/DFASucc.lean): `successors` is the explicit-stack loop of the code, run for `fuel`
iterations: it returns the words yielded so far and how the run ended (`finished` = generator
exhausted, `outOfFuel` = still running, `raised e`).  String order is `lexLt key` (Python's `<`
on strings compared through `key`; Proofs/Query.lean).

What is proved (for every fuel, i.e. for every prefix of the generator's output): the words
yielded so far are strictly increasing (decreasing for predecessors), all lie in the window
set and after (before) the start string, and **no word is skipped**: every word of the window
set after the start string has been yielded or is greater than everything yielded so far —
so the output is always an initial segment of the sorted filter of the window set, and is
the whole sorted filter once the generator is exhausted.  The loop never raises inside the
domain.  Consequently `successor`/`predecessor` return the least/greatest such word, or `None`
when there is none.  Termination (`C14_termination`): when a max length is given or the
language is finite, the generator is exhausted after finitely many iterations (a potential
that every iteration lowers), hence its complete output *is* the sorted filter
(`C14_successors_total`, `C14_predecessors_total`).

Domain of the positive theorems (`Dom`): start strings over the alphabet, a non-empty alphabet,
an injective key.  The first two restrictions cut into the literal statement ("not even
readable … handled like any other", "every DFA"): there the code fails, which is proved on the
model as `C14_foreign_start_raises` (`KeyError`, open finding F13) and `C14_empty_alphabet`
(`IndexError`, open finding F14) at the end of this file.
-/
import AutomataVerif.Proofs.Succ
import AutomataVerif.Proofs.SuccTerm
import AutomataVerif.Proofs.SuccForeign
import AutomataVerif.Props.C13

namespace AV.Props.C14
open AV AV.DFA AV.WordOrder AV.Props.C13

variable {σ α : Type} [DecidableEq σ] [DecidableEq α]

/-- The window set: accepted words with `min_length ≤ |w| ≤ max_length`. -/
def Window (d : AV.DFA σ α) (o : SuccOpts) : Set (List α) :=
  {w | w ∈ Lang d ∧ o.minLen ≤ w.length ∧ ∀ m, o.maxLen = some m → w.length ≤ m}

/-- "comes after the start string (or equals it when not strict)"; no start string: every word. -/
def After (key : α → Int) (strict : Bool) : Option (List α) → List α → Prop
  | none, _ => True
  | some w0, w => lexLt key w0 w ∨ (w = w0 ∧ strict = false)

/-- "comes before the start string (or equals it when not strict)". -/
def Before (key : α → Int) (strict : Bool) : Option (List α) → List α → Prop
  | none, _ => True
  | some w0, w => lexLt key w w0 ∨ (w = w0 ∧ strict = false)

/-- The domain of the property. -/
structure Dom (d : AV.DFA σ α) (key : α → Int) (input : Option (List α)) : Prop where
  valid : d.validate = .ok ()
  dict : d.IsDict
  symsNodup : d.syms.Nodup
  symsNe : d.syms ≠ []
  keyInj : d.KeyInj key
  inputOver : ∀ w0, input = some w0 → ∀ x ∈ w0, x ∈ d.syms

theorem target_iff_window (d : AV.DFA σ α) (o : SuccOpts) (w : List α) :
    Target d o w ↔ w ∈ Window d o := by
  unfold Target Window inWindow
  simp only [Set.mem_ofPred_eq, Lang, Bool.and_eq_true, decide_eq_true_eq]
  constructor
  · rintro ⟨h1, h2, h3⟩
    refine ⟨h1, h2, ?_⟩
    intro m hm
    rw [hm] at h3
    simpa using h3
  · rintro ⟨h1, h2, h3⟩
    refine ⟨h1, h2, ?_⟩
    cases hm : o.maxLen with
    | none => rfl
    | some m => simpa using h3 m hm

omit [DecidableEq α] in
theorem lexLt_eq_preLt (key : α → Int) (u v : List α) : lexLt key u v ↔ preLt key u v :=
  (preLt_iff_lex key u v).symm

/-! ## successors (forward direction) -/

/-- **Successors**: for every number of loop iterations, the words yielded so far
(1) the loop has not raised; (2) are strictly increasing in the string order (no repeats);
(3) are accepted words inside the window that come after the start string (or equal it when
not strict); (4) miss nothing: every such word has been yielded, or — only while the generator
is still running — is greater than everything yielded so far. -/
theorem C14_successors (d : AV.DFA σ α) (key : α → Int) (input : Option (List α))
    (h : Dom d key input) (o : SuccOpts) (ho : o.reverse = false) (fuel : Nat) :
    ((d.successors key input o fuel).2 = .finished ∨ (d.successors key input o fuel).2 = .outOfFuel) ∧
    (d.successors key input o fuel).1.Pairwise (lexLt key) ∧
    (∀ w ∈ (d.successors key input o fuel).1, w ∈ Window d o ∧ After key o.strict input w) ∧
    (∀ w ∈ Window d o, After key o.strict input w →
      w ∈ (d.successors key input o fuel).1 ∨
        ((d.successors key input o fuel).2 = .outOfFuel ∧
          ∀ y ∈ (d.successors key input o fuel).1, lexLt key y w)) := by
  have wf := (DFA.validate_eq_ok d).mp h.valid
  obtain ⟨first, last, s0, _, _, cok, inv, hrun, hchars, hcand, hsy⟩ :=
    successorsCore_setup wf h.dict h.symsNodup h.symsNe h.keyInj input h.inputOver o
  have hcf : (setupCfg d key o first last).first = first := rfl
  rw [← hcf] at hcand
  generalize setupCfg d key o first last = c at cok hrun hcand
  have hsucc : d.successors key input o fuel = succLoop d o c fuel s0 := by
    unfold DFA.successors DFA.finiteGuard
    rw [ho]
    exact hrun fuel
  rw [hsucc]
  have hκ : dirKey key o.reverse = key := by rw [ho]; rfl
  rw [hκ] at cok
  have hcand' : s0.cand = some c.first := by
    rw [hcand, ho]; cases input <;> rfl
  -- what is pending before the first iteration is what comes after the start string
  have hpend : ∀ w, Target d o w → (PendF key c.first s0 w ↔ After key o.strict input w) := by
    intro w ht
    have hw := ht.over wf cok
    have hpf := preLt_first cok.inj cok.first (input.getD []) w hw
    simp only [PendF, hcand', hchars, hsy, true_and]
    cases input with
    | none =>
      simp only [Option.getD_none, List.nil_append, After, iff_true] at hpf ⊢
      cases w with
      | nil => exact Or.inl ⟨rfl, trivial⟩
      | cons x t => exact Or.inr (hpf.mp (by simp))
    | some w0 =>
      simp only [Option.getD_some, After, lexLt_eq_preLt] at hpf ⊢
      rw [hpf]
      constructor
      · rintro (⟨h1, h3⟩ | h2)
        · exact Or.inr ⟨h1, by simpa using h3⟩
        · exact Or.inl h2
      · rintro (h2 | ⟨h1, h3⟩)
        · exact Or.inr h2
        · exact Or.inl ⟨h1, by simpa using h3⟩
  obtain ⟨l1, l2, l3, l4⟩ := loop_fwd wf h.dict cok ho fuel s0 inv
  refine ⟨l1, ?_, ?_, ?_⟩
  · exact l2.imp fun hh => (lexLt_eq_preLt key _ _).mpr hh
  · intro w hw
    obtain ⟨ht, hp⟩ := l3 w hw
    exact ⟨(target_iff_window d o w).mp ht, (hpend w ht).mp hp⟩
  · intro w hw ha
    have ht := (target_iff_window d o w).mpr hw
    rcases l4 w ht ((hpend w ht).mpr ha) with h1 | ⟨h1, h2⟩
    · exact Or.inl h1
    · exact Or.inr ⟨h1, fun y hy => (lexLt_eq_preLt key _ _).mpr (h2 y hy)⟩

/-- Once the generator is exhausted its output is exactly the sorted filter of the window
set: strictly increasing, and a word is in it iff it is in the window set and after the start. -/
theorem C14_successors_exhausted (d : AV.DFA σ α) (key : α → Int) (input : Option (List α))
    (h : Dom d key input) (o : SuccOpts) (ho : o.reverse = false) (fuel : Nat)
    (hfin : (d.successors key input o fuel).2 = .finished) :
    (d.successors key input o fuel).1.Pairwise (lexLt key) ∧
    ∀ w, w ∈ (d.successors key input o fuel).1 ↔ (w ∈ Window d o ∧ After key o.strict input w) := by
  obtain ⟨_, h2, h3, h4⟩ := C14_successors d key input h o ho fuel
  refine ⟨h2, fun w => ⟨h3 w, ?_⟩⟩
  rintro ⟨hw, ha⟩
  rcases h4 w hw ha with h' | ⟨h', _⟩
  · exact h'
  · rw [hfin] at h'; cases h'

/-- **successor()**: never raises; returns the least accepted word inside the window that comes
after the start string (or equals it when not strict), or `None` when there is no such word. -/
theorem C14_successor (d : AV.DFA σ α) (key : α → Int) (input : Option (List α))
    (h : Dom d key input) (o : SuccOpts) (fuel : Nat) :
    match d.successor key input o fuel with
    | .word w => (w ∈ Window d o ∧ After key o.strict input w) ∧
        ∀ w' ∈ Window d o, After key o.strict input w' → w' = w ∨ lexLt key w w'
    | .none => ∀ w ∈ Window d o, ¬ After key o.strict input w
    | .outOfFuel => True
    | .raised _ => False := by
  have ho : ({ o with reverse := false } : SuccOpts).reverse = false := rfl
  obtain ⟨h1, h2, h3, h4⟩ := C14_successors d key input h { o with reverse := false } ho fuel
  have hwin : Window d { o with reverse := false } = Window d o := rfl
  rw [hwin] at h3 h4
  simp only at h3 h4
  unfold DFA.successor firstOf
  generalize d.successors key input { o with reverse := false } fuel = r at h1 h2 h3 h4
  obtain ⟨ys, st⟩ := r
  simp only at h1 h2 h3 h4 ⊢
  cases ys with
  | cons w ys' =>
    simp only
    refine ⟨h3 w List.mem_cons_self, ?_⟩
    intro w' hw' ha'
    rcases h4 w' hw' ha' with hm | ⟨_, hlt⟩
    · rcases List.mem_cons.mp hm with rfl | hm'
      · exact Or.inl rfl
      · exact Or.inr ((List.pairwise_cons.mp h2).1 w' hm')
    · exact Or.inr (hlt w List.mem_cons_self)
  | nil =>
    cases st with
    | finished =>
      simp only
      intro w hw ha
      rcases h4 w hw ha with hm | ⟨hf, _⟩
      · cases hm
      · cases hf
    | outOfFuel => trivial
    | raised e => rcases h1 with h1 | h1 <;> cases h1

/-! ## predecessors (reverse direction) -/

/-- **Predecessors refuse infinite languages** with `InfiniteLanguageException`, before
producing anything (whatever the window). -/
theorem C14_predecessors_infinite (d : AV.DFA σ α) (key : α → Int) (input : Option (List α))
    (h : Dom d key input) (o : SuccOpts) (ho : o.reverse = true) (fuel : Nat)
    (hinf : (Lang d).Infinite) :
    d.successors key input o fuel = ([], .raised (.lib .infiniteLanguageException)) := by
  obtain ⟨b, hb, hiff⟩ := C13_isfinite d h.valid h.dict
  have : b = false := by
    cases b with
    | false => rfl
    | true => exact absurd (hiff.mp rfl) hinf
  subst this
  unfold DFA.successors DFA.finiteGuard
  rw [ho]
  simp only [hb, DFA.successorsCore]

/-- **Predecessors of a finite language**: for every number of loop iterations, the words
yielded so far are strictly *decreasing* in the string order, are accepted words inside the
window that come before the start string (or equal it when not strict), and miss nothing:
every such word has been yielded, or — only while the generator is still running — is smaller
than everything yielded so far.  The loop never raises. -/
theorem C14_predecessors (d : AV.DFA σ α) (key : α → Int) (input : Option (List α))
    (h : Dom d key input) (o : SuccOpts) (ho : o.reverse = true) (fuel : Nat)
    (hfinite : (Lang d).Finite) :
    ((d.successors key input o fuel).2 = .finished ∨ (d.successors key input o fuel).2 = .outOfFuel) ∧
    (d.successors key input o fuel).1.Pairwise (fun u v => lexLt key v u) ∧
    (∀ w ∈ (d.successors key input o fuel).1, w ∈ Window d o ∧ Before key o.strict input w) ∧
    (∀ w ∈ Window d o, Before key o.strict input w →
      w ∈ (d.successors key input o fuel).1 ∨
        ((d.successors key input o fuel).2 = .outOfFuel ∧
          ∀ y ∈ (d.successors key input o fuel).1, lexLt key w y)) := by
  have wf := (DFA.validate_eq_ok d).mp h.valid
  obtain ⟨b, hb, hiff⟩ := C13_isfinite d h.valid h.dict
  have : b = true := hiff.mpr hfinite
  subst this
  obtain ⟨first, last, s0, _, _, cok, inv, hrun, hchars, hcand, hsy⟩ :=
    successorsCore_setup wf h.dict h.symsNodup h.symsNe h.keyInj input h.inputOver o
  have hcf : (setupCfg d key o first last).first = first := rfl
  rw [← hcf] at hcand
  generalize setupCfg d key o first last = c at cok hrun hcand
  have hsucc : d.successors key input o fuel = succLoop d o c fuel s0 := by
    unfold DFA.successors DFA.finiteGuard
    rw [ho]
    simp only [hb]
    exact hrun fuel
  rw [hsucc]
  have hκ : dirKey key o.reverse = fun a => - key a := by rw [ho]; rfl
  rw [hκ] at cok
  -- post-order for the negated key is the decreasing string order
  have hord : ∀ u v : List α, postLt (fun a => - key a) u v ↔ lexLt key v u := by
    intro u v
    rw [postLt_iff_preLt_neg, lexLt_eq_preLt]
    have : (fun a => - (fun a => - key a) a) = key := by funext a; simp
    rw [this]
  have hpend : ∀ w, Target d o w → (PendR (fun a => - key a) s0 w ↔ Before key o.strict input w) := by
    intro w ht
    have hw := ht.over wf cok
    cases input with
    | none =>
      have hc : s0.cand = some c.first := by rw [hcand]
      simp only [Option.getD_none] at hchars
      simp only [PendR, hc, hchars, Before, iff_true]
      have := post_first cok.inj cok.first [] w hw
      simp only [List.nil_prefix, true_or, List.nil_append, true_iff] at this
      exact this
    | some w0 =>
      have hc : s0.cand = none := by rw [hcand, ho]
      simp only [Option.getD_some] at hchars
      simp only [PendR, hc, hchars, hsy, Before, hord]
      constructor
      · rintro (⟨h1, h3⟩ | h2)
        · exact Or.inr ⟨h1, by simpa using h3⟩
        · exact Or.inl h2
      · rintro (h2 | ⟨h1, h3⟩)
        · exact Or.inr h2
        · exact Or.inl ⟨h1, by simpa using h3⟩
  obtain ⟨l1, l2, l3, l4⟩ := loop_rev wf h.dict cok ho fuel s0 inv
  refine ⟨l1, ?_, ?_, ?_⟩
  · exact l2.imp fun hh => (hord _ _).mp hh
  · intro w hw
    obtain ⟨ht, hp⟩ := l3 w hw
    exact ⟨(target_iff_window d o w).mp ht, (hpend w ht).mp hp⟩
  · intro w hw ha
    have ht := (target_iff_window d o w).mpr hw
    rcases l4 w ht ((hpend w ht).mpr ha) with h1 | ⟨h1, h2⟩
    · exact Or.inl h1
    · exact Or.inr ⟨h1, fun y hy => (hord _ _).mp (h2 y hy)⟩

/-- Exhausted predecessor generator = the decreasingly sorted filter of the window set. -/
theorem C14_predecessors_exhausted (d : AV.DFA σ α) (key : α → Int) (input : Option (List α))
    (h : Dom d key input) (o : SuccOpts) (ho : o.reverse = true) (fuel : Nat)
    (hfinite : (Lang d).Finite) (hfin : (d.successors key input o fuel).2 = .finished) :
    (d.successors key input o fuel).1.Pairwise (fun u v => lexLt key v u) ∧
    ∀ w, w ∈ (d.successors key input o fuel).1 ↔ (w ∈ Window d o ∧ Before key o.strict input w) := by
  obtain ⟨_, h2, h3, h4⟩ := C14_predecessors d key input h o ho fuel hfinite
  refine ⟨h2, fun w => ⟨h3 w, ?_⟩⟩
  rintro ⟨hw, ha⟩
  rcases h4 w hw ha with h' | ⟨h', _⟩
  · exact h'
  · rw [hfin] at h'; cases h'

/-- `predecessors(input, …)` is `successors(input, …, reverse=True)` — also for `input = None`
(all words in decreasing order), which the wrapper passes through unchanged. -/
theorem C14_predecessors_wrapper (d : AV.DFA σ α) (key : α → Int) (input : Option (List α))
    (o : SuccOpts) (fuel : Nat) :
    d.predecessors key input o fuel = d.successors key input { o with reverse := true } fuel := rfl

/-- **predecessor()**: for a finite language it never raises and returns the greatest accepted
word inside the window that comes before the start string (or equals it when not strict), or
`None`; for an infinite language it raises `InfiniteLanguageException`.  (`input = None`: the
greatest word of the window set.) -/
theorem C14_predecessor (d : AV.DFA σ α) (key : α → Int) (input : Option (List α))
    (h : Dom d key input) (o : SuccOpts) (fuel : Nat) :
    ((Lang d).Infinite → d.predecessor key input o fuel = .raised (.lib .infiniteLanguageException)) ∧
    ((Lang d).Finite →
      match d.predecessor key input o fuel with
      | .word w => (w ∈ Window d o ∧ Before key o.strict input w) ∧
          ∀ w' ∈ Window d o, Before key o.strict input w' → w' = w ∨ lexLt key w' w
      | .none => ∀ w ∈ Window d o, ¬ Before key o.strict input w
      | .outOfFuel => True
      | .raised _ => False) := by
  have ho : ({ o with reverse := true } : SuccOpts).reverse = true := rfl
  constructor
  · intro hinf
    unfold DFA.predecessor DFA.predecessors
    rw [C14_predecessors_infinite d key input h { o with reverse := true } ho fuel hinf]
    rfl
  · intro hfinite
    obtain ⟨h1, h2, h3, h4⟩ :=
      C14_predecessors d key input h { o with reverse := true } ho fuel hfinite
    have hwin : Window d { o with reverse := true } = Window d o := rfl
    rw [hwin] at h3 h4
    simp only at h3 h4
    unfold DFA.predecessor DFA.predecessors firstOf
    generalize d.successors key input { o with reverse := true } fuel = r at h1 h2 h3 h4
    obtain ⟨ys, st⟩ := r
    simp only at h1 h2 h3 h4 ⊢
    cases ys with
    | cons w ys' =>
      simp only
      refine ⟨h3 w List.mem_cons_self, ?_⟩
      intro w' hw' ha'
      rcases h4 w' hw' ha' with hm | ⟨_, hlt⟩
      · rcases List.mem_cons.mp hm with rfl | hm'
        · exact Or.inl rfl
        · exact Or.inr ((List.pairwise_cons.mp h2).1 w' hm')
      · exact Or.inr (hlt w List.mem_cons_self)
    | nil =>
      cases st with
      | finished =>
        simp only
        intro w hw ha
        rcases h4 w hw ha with hm | ⟨hf, _⟩
        · cases hm
        · cases hf
      | outOfFuel => trivial
      | raised e => rcases h1 with h1 | h1 <;> cases h1

/-! ## termination -/

/-- A descent below `p·a` implies an accepted word of length `> |p|`. -/
theorem viable_gives_word {d : AV.DFA σ α} (hd : d.IsDict) {S : List α} {κ : α → Int}
    {c : SuccCfg σ α} (cok : CfgOK d κ S c) {top : Option σ} {rest : List (Option σ)}
    {chars : List α} (hst : StackOK d (top :: rest) chars) {a : α}
    (hv : viable c (d.step? top a) = true) :
    ∃ w : List α, w ∈ Lang d ∧ chars.length < w.length := by
  cases hs : d.step? top a with
  | none => rw [hs] at hv; simp [viable] at hv
  | some t =>
    rw [hs] at hv
    simp only [viable, decide_eq_true_eq] at hv
    obtain ⟨f, hf, n, hp⟩ := (cok.coacc t).mp hv
    obtain ⟨x, hxl, hxr⟩ := (pathLen_iff_run hd).mp hp
    refine ⟨chars.reverse ++ [a] ++ x, ?_, by simp⟩
    show d.accepts _ = true
    unfold DFA.accepts
    rw [DFA.run_append, DFA.run_append, DFA.run_cons, DFA.run_nil, ← hst.top, hs, hxr]
    simp [DFA.isFinal, hf]

/-- **Termination**: when a max length is given, or the language is finite (which the
predecessor direction requires anyway), the generator is exhausted after finitely many loop
iterations.  Together with `C14_successors_exhausted` / `C14_predecessors_exhausted`: its
complete output is the sorted filter of the window set. -/
theorem C14_termination (d : AV.DFA σ α) (key : α → Int) (input : Option (List α))
    (h : Dom d key input) (o : SuccOpts)
    (hbound : o.maxLen.isSome = true ∨ (Lang d).Finite)
    (hrev : o.reverse = true → (Lang d).Finite) :
    ∃ fuel, (d.successors key input o fuel).2 = .finished := by
  have wf := (DFA.validate_eq_ok d).mp h.valid
  obtain ⟨first, last, s0, hf, hl, cok, inv, hrun, _, _, _⟩ :=
    successorsCore_setup wf h.dict h.symsNodup h.symsNe h.keyInj input h.inputOver o
  have hSnd : (d.sortedSymbols key o.reverse).Nodup :=
    (sortedSymbols_perm d key o.reverse).nodup_iff.mpr h.symsNodup
  have cpos : CfgPos (d.sortedSymbols key o.reverse) (setupCfg d key o first last) :=
    cfgPos_of hSnd hf hl
  -- the run of `successors` is the loop
  have hsucc : ∀ fuel, d.successors key input o fuel =
      succLoop d o (setupCfg d key o first last) fuel s0 := by
    intro fuel
    unfold DFA.successors DFA.finiteGuard
    by_cases hr : o.reverse = true
    · obtain ⟨b, hb, hiff⟩ := C13_isfinite d h.valid h.dict
      have : b = true := hiff.mpr (hrev hr)
      subst this
      rw [hr]
      simp only [hb]
      exact hrun fuel
    · have hr' : o.reverse = false := by
        cases hx : o.reverse with
        | true => exact absurd hx hr
        | false => rfl
      rw [hr']
      exact hrun fuel
  -- a depth bound
  obtain ⟨D, hD⟩ : ∃ D, ∀ (top : Option σ) (rest : List (Option σ)) (chars : List α) (a : α),
      StackOK d (top :: rest) chars →
      (viable (setupCfg d key o first last) (d.step? top a) && belowMax o chars.length) = true →
      chars.length < D := by
    cases hm : o.maxLen with
    | some m =>
      refine ⟨m, ?_⟩
      intro top rest chars a _ hb
      simp only [Bool.and_eq_true, belowMax, hm, decide_eq_true_eq] at hb
      exact hb.2
    | none =>
      have hfin : (Lang d).Finite := by
        rcases hbound with hb | hb
        · rw [hm] at hb; cases hb
        · exact hb
      obtain ⟨M, hM⟩ := (lang_finite_iff_bounded d h.valid).mp hfin
      refine ⟨M, ?_⟩
      intro top rest chars a hst hb
      simp only [Bool.and_eq_true] at hb
      obtain ⟨w, hw, hlen⟩ := viable_gives_word h.dict cok hst hb.1
      have := hM w hw
      omega
  refine ⟨potential (d.sortedSymbols key o.reverse) D s0 + 1, ?_⟩
  rw [hsucc]
  exact loop_finishes cpos hD _ s0 inv (Nat.lt_succ_self _)

/-- **C14, complete statement**: inside the domain, with a max length or a finite language,
the complete output of the successor generator is the sorted filter of the window set. -/
theorem C14_successors_total (d : AV.DFA σ α) (key : α → Int) (input : Option (List α))
    (h : Dom d key input) (o : SuccOpts) (ho : o.reverse = false)
    (hbound : o.maxLen.isSome = true ∨ (Lang d).Finite) :
    ∃ fuel ys, d.successors key input o fuel = (ys, .finished) ∧ ys.Pairwise (lexLt key) ∧
      ∀ w, w ∈ ys ↔ (w ∈ Window d o ∧ After key o.strict input w) := by
  obtain ⟨fuel, hfin⟩ := C14_termination d key input h o hbound (fun hr => by rw [ho] at hr; cases hr)
  obtain ⟨h1, h2⟩ := C14_successors_exhausted d key input h o ho fuel hfin
  exact ⟨fuel, _, Prod.ext rfl hfin, h1, h2⟩

/-- … and the complete output of the predecessor generator of a finite language is the
decreasingly sorted filter of the window set. -/
theorem C14_predecessors_total (d : AV.DFA σ α) (key : α → Int) (input : Option (List α))
    (h : Dom d key input) (o : SuccOpts) (ho : o.reverse = true) (hfinite : (Lang d).Finite) :
    ∃ fuel ys, d.successors key input o fuel = (ys, .finished) ∧
      ys.Pairwise (fun u v => lexLt key v u) ∧
      ∀ w, w ∈ ys ↔ (w ∈ Window d o ∧ Before key o.strict input w) := by
  obtain ⟨fuel, hfin⟩ := C14_termination d key input h o (Or.inr hfinite) (fun _ => hfinite)
  obtain ⟨h1, h2⟩ := C14_predecessors_exhausted d key input h o ho fuel hfinite hfin
  exact ⟨fuel, _, Prod.ext rfl hfin, h1, h2⟩

/-- `successor()` terminates inside the domain (max length given or finite language) and then
returns the least word of the filtered window set, or `None` iff that set is empty. -/
theorem C14_successor_total (d : AV.DFA σ α) (key : α → Int) (input : Option (List α))
    (h : Dom d key input) (o : SuccOpts)
    (hbound : o.maxLen.isSome = true ∨ (Lang d).Finite) :
    ∃ fuel,
      match d.successor key input o fuel with
      | .word w => (w ∈ Window d o ∧ After key o.strict input w) ∧
          ∀ w' ∈ Window d o, After key o.strict input w' → w' = w ∨ lexLt key w w'
      | .none => ∀ w ∈ Window d o, ¬ After key o.strict input w
      | _ => False := by
  obtain ⟨fuel, hfin⟩ := C14_termination d key input h { o with reverse := false } hbound
    (fun hr => by cases hr)
  refine ⟨fuel, ?_⟩
  have hs := C14_successor d key input h o fuel
  have hne : d.successor key input o fuel ≠ .outOfFuel := by
    unfold DFA.successor firstOf
    generalize d.successors key input { o with reverse := false } fuel = r at hfin
    obtain ⟨ys, st⟩ := r
    simp only at hfin
    subst hfin
    cases ys <;> simp
  revert hs hne
  cases d.successor key input o fuel <;> simp

/-- `predecessor()` of a finite language terminates and returns the greatest word of the
filtered window set, or `None` iff that set is empty. -/
theorem C14_predecessor_total (d : AV.DFA σ α) (key : α → Int) (input : Option (List α))
    (h : Dom d key input) (o : SuccOpts) (hfinite : (Lang d).Finite) :
    ∃ fuel,
      match d.predecessor key input o fuel with
      | .word w => (w ∈ Window d o ∧ Before key o.strict input w) ∧
          ∀ w' ∈ Window d o, Before key o.strict input w' → w' = w ∨ lexLt key w' w
      | .none => ∀ w ∈ Window d o, ¬ Before key o.strict input w
      | _ => False := by
  obtain ⟨fuel, hfin⟩ := C14_termination d key input h { o with reverse := true }
    (Or.inr hfinite) (fun _ => hfinite)
  refine ⟨fuel, ?_⟩
  have hs := (C14_predecessor d key input h o fuel).2 hfinite
  have hne : d.predecessor key input o fuel ≠ .outOfFuel := by
    unfold DFA.predecessor DFA.predecessors firstOf
    generalize d.successors key input { o with reverse := true } fuel = r at hfin
    obtain ⟨ys, st⟩ := r
    simp only at hfin
    subst hfin
    cases ys <;> simp
  revert hs hne
  cases d.predecessor key input o fuel <;> simp

/-- Two lists strictly sorted by the same strict order with the same members are equal. -/
theorem sorted_unique {β : Type} (R : β → β → Prop) (hirr : ∀ a, ¬ R a a)
    (htr : ∀ a b c, R a b → R b c → R a c) :
    ∀ (l1 l2 : List β), l1.Pairwise R → l2.Pairwise R → (∀ w, w ∈ l1 ↔ w ∈ l2) → l1 = l2 := by
  intro l1
  induction l1 with
  | nil =>
    intro l2 _ _ hm
    cases l2 with
    | nil => rfl
    | cons b t => exact absurd ((hm b).mpr List.mem_cons_self) (by simp)
  | cons a t ih =>
    intro l2 p1 p2 hm
    cases l2 with
    | nil => exact absurd ((hm a).mp List.mem_cons_self) (by simp)
    | cons b t2 =>
      rw [List.pairwise_cons] at p1 p2
      have hab : a = b := by
        rcases List.mem_cons.mp ((hm a).mp List.mem_cons_self) with e | e
        · exact e
        · rcases List.mem_cons.mp ((hm b).mpr List.mem_cons_self) with e' | e'
          · exact e'.symm
          · exact absurd (htr a b a (p1.1 b e') (p2.1 a e)) (hirr a)
      subst hab
      congr 1
      apply ih t2 p1.2 p2.2
      intro w
      constructor
      · intro hw
        rcases List.mem_cons.mp ((hm w).mp (List.mem_cons_of_mem _ hw)) with e | e
        · subst e; exact absurd (p1.1 w hw) (hirr w)
        · exact e
      · intro hw
        rcases List.mem_cons.mp ((hm w).mpr (List.mem_cons_of_mem _ hw)) with e | e
        · subst e; exact absurd (p2.1 w hw) (hirr w)
        · exact e

/-- The output does not depend on the fuel once the generator is exhausted: more iterations
change nothing (so "the" output of the generator is well defined) — in both directions
(the reverse direction on a finite language; on an infinite one nothing is ever yielded). -/
theorem C14_output_unique (d : AV.DFA σ α) (key : α → Int) (input : Option (List α))
    (h : Dom d key input) (o : SuccOpts) (hrev : o.reverse = true → (Lang d).Finite) (f1 f2 : Nat)
    (h1 : (d.successors key input o f1).2 = .finished)
    (h2 : (d.successors key input o f2).2 = .finished) :
    (d.successors key input o f1).1 = (d.successors key input o f2).1 := by
  have hirr : ∀ a : List α, ¬ lexLt key a a := fun a => lexLt_irrefl key a
  have htr : ∀ a b c : List α, lexLt key a b → lexLt key b c → lexLt key a c := by
    intro a b c hab hbc
    rw [lexLt_eq_preLt] at *
    exact preLt_trans key hab hbc
  cases ho : o.reverse with
  | false =>
    obtain ⟨s1, m1⟩ := C14_successors_exhausted d key input h o ho f1 h1
    obtain ⟨s2, m2⟩ := C14_successors_exhausted d key input h o ho f2 h2
    exact sorted_unique (lexLt key) hirr htr _ _ s1 s2 (fun w => by rw [m1, m2])
  | true =>
    obtain ⟨s1, m1⟩ := C14_predecessors_exhausted d key input h o ho f1 (hrev ho) h1
    obtain ⟨s2, m2⟩ := C14_predecessors_exhausted d key input h o ho f2 (hrev ho) h2
    exact sorted_unique (fun u v => lexLt key v u) hirr (fun a b c hab hbc => htr c b a hbc hab)
      _ _ s1 s2 (fun w => by rw [m1, m2])

/-! ## the two failure modes inside the literal domain (open findings F13, F14)

The English statement says start strings "not even readable … are handled like any other" and
quantifies over all valid DFAs.  The code does not live up to that for the two input classes
excluded by `Dom.inputOver` and `Dom.symsNe`; the theorems below prove the failures on the
model (the correspondence run reproduces them on the real code on every run and reports them
under the finding keys `C14:start-string-with-foreign-symbol` and `C14:empty-alphabet`). -/

/-- **F13 (open finding)**: a start string containing a symbol outside the alphabet — a start
string that is "not even readable" — makes `successors` / `predecessors` raise `KeyError`
instead of enumerating the words after (before) it: for every valid DFA over a non-empty
alphabet, every key, window and strictness, in the forward direction and (for a finite
language) in the reverse direction, after finitely many loop iterations the run ends with
`KeyError` and **nothing** has been yielded (however much fuel is given). -/
theorem C14_foreign_start_raises (d : AV.DFA σ α) (key : α → Int) (w0 : List α) (o : SuccOpts)
    (hv : d.validate = .ok ()) (hd : d.IsDict) (hnd : d.syms.Nodup) (hne : d.syms ≠ [])
    (hx : ∃ x ∈ w0, x ∉ d.syms) (hrev : o.reverse = true → (Lang d).Finite) :
    ∃ n, ∀ fuel, d.successors key (some w0) o (fuel + n) = ([], .raised (.py .keyError)) := by
  have wf := (DFA.validate_eq_ok d).mp hv
  obtain ⟨n, hn⟩ := SuccForeign.successorsCore_foreign wf hnd hne key hx o d.digraph
  refine ⟨n, fun fuel => ?_⟩
  unfold DFA.successors DFA.finiteGuard
  cases ho : o.reverse with
  | false => exact hn fuel
  | true =>
    obtain ⟨b, hb, hiff⟩ := C13_isfinite d hv hd
    have : b = true := hiff.mpr (hrev ho)
    subst this
    simp only [hb]
    exact hn fuel

/-- … hence `successor()` raises `KeyError` on such a start string (where the property asks for
the least word after it, or `None`). -/
theorem C14_foreign_start_successor_raises (d : AV.DFA σ α) (key : α → Int) (w0 : List α)
    (o : SuccOpts) (hv : d.validate = .ok ()) (hd : d.IsDict) (hnd : d.syms.Nodup) (hne : d.syms ≠ [])
    (hx : ∃ x ∈ w0, x ∉ d.syms) :
    ∃ n, ∀ fuel, d.successor key (some w0) o (fuel + n) = .raised (.py .keyError) := by
  obtain ⟨n, hn⟩ := C14_foreign_start_raises d key w0 { o with reverse := false } hv hd hnd hne hx
    (fun hr => by cases hr)
  exact ⟨n, fun fuel => by unfold DFA.successor; rw [hn fuel]; rfl⟩

/-- **F14 (open finding)**: on a valid DFA with an empty alphabet (language `{ε}` or `∅`) every
call — any start string incl. `None`, both directions, any window — raises `IndexError`
(`sorted_symbols[-1]`) at the first `next()`, where the property asks for the words of the
window set (at most the empty word). -/
theorem C14_empty_alphabet (d : AV.DFA σ α) (key : α → Int) (input : Option (List α)) (o : SuccOpts)
    (hv : d.validate = .ok ()) (hd : d.IsDict) (hs : d.syms = []) (fuel : Nat) :
    d.successors key input o fuel = ([], .raised (.py .indexError)) := by
  have wf := (DFA.validate_eq_ok d).mp hv
  unfold DFA.successors DFA.finiteGuard
  cases ho : o.reverse with
  | false => exact SuccForeign.successorsCore_empty_alphabet hs key input o d.digraph fuel
  | true =>
    -- the language is a subset of {ε}, hence finite, hence `isfinite()` lets the call through
    have hfin : (Lang d).Finite := by
      apply Set.Finite.subset (Set.finite_singleton ([] : List α))
      intro w hw
      have hover := accepts_over wf hw
      rw [hs] at hover
      cases w with
      | nil => rfl
      | cons x t => exact absurd (hover x List.mem_cons_self) (by simp)
    obtain ⟨b, hb, hiff⟩ := C13_isfinite d hv hd
    have : b = true := hiff.mpr hfin
    subst this
    simp only [hb]
    exact SuccForeign.successorsCore_empty_alphabet hs key input o d.digraph fuel

/-! ## non-vacuity and in-Lean tests on concrete DFAs -/

/-- `{ε, 0, 01, 1, 10, 11}` (the finite language of Props/C13 `exF`). -/
def exF : AV.DFA Nat Int := AV.Props.C13.exF

/-- `0*1⁺` (infinite). -/
def exD : AV.DFA Nat Int := AV.Props.C13.exD

example : Dom exF id (some [0, 1]) :=
  ⟨by decide, ⟨by decide, by decide⟩, by decide, by decide, by unfold DFA.KeyInj; decide, by decide⟩

/-- test: all words of the finite language in increasing order, generator exhausted. -/
example : exF.successors id none {} 100 = ([[], [0], [0, 1], [1], [1, 0], [1, 1]], .finished) := by
  decide
/-- test: non-strict successors of an accepted start inside a window. -/
example : exF.successors id (some [0, 1]) { strict := false, minLen := 2 } 100 =
    ([[0, 1], [1, 0], [1, 1]], .finished) := by decide
/-- test: unreadable start string, reversed key order. -/
example : exF.successors (fun a => -a) (some [0, 0, 1]) {} 100 = ([], .finished) := by decide
example : exF.successors (fun a => -a) (some [1, 1, 1]) {} 100 = ([[1, 0], [0], [0, 1]], .finished) := by
  decide
/-- test: predecessors in decreasing order, the empty word last (fix 322a5c4). -/
example : exF.predecessors id (some [1, 0]) { strict := true } 100 = ([[1], [0, 1], [0], []], .finished) := by
  decide
example : exF.predecessor id (some []) { strict := false } 100 = .word [] := by decide
/-- test: `predecessors(None)` = all words in decreasing order; `predecessor(None)` = the greatest. -/
example : exF.predecessors id none {} 100 = ([[1, 1], [1, 0], [1], [0, 1], [0], []], .finished) := by
  decide
example : exF.predecessor id none { maxLen := some 1 } 100 = .word [1] := by decide
/-- test: infinite language — forward with a max length, predecessors refused. -/
example : exD.successors id (some [0, 1]) { maxLen := some 3 } 200 =
    ([[0, 1, 1], [1], [1, 1], [1, 1, 1]], .finished) := by decide
example : exD.predecessors id (some [1]) {} 10 = ([], .raised (.lib .infiniteLanguageException)) := by decide
/-- outside the domain of the property (infinite language, no max length): the words after `00`
in `0*1⁺` have no least element, the traversal descends forever — the model says so too. -/
example : exD.successor id (some [0, 0]) {} 60 = .outOfFuel := by decide

/-- `{ε}` over the empty alphabet. -/
def exE : AV.DFA Nat Int :=
  { states := [0], syms := [], trans := [(0, [])], init := 0, finals := [0], allowPartial := false }

/-- F13 witnesses: the hypotheses of `C14_foreign_start_raises` are met by `exF` with the start
string `0·7` (7 is not a symbol); the model run ends with `KeyError`, nothing yielded — forward,
reverse, and with the foreign symbol in the middle. -/
example : exF.validate = .ok () ∧ exF.syms.Nodup ∧ exF.syms ≠ [] ∧ (∃ x ∈ [0, 7], x ∉ exF.syms) := by
  decide
example : exF.successors id (some [0, 7]) {} 100 = ([], .raised (.py .keyError)) := by decide
example : exF.successors id (some [0, 7]) { reverse := true, strict := false } 100 =
    ([], .raised (.py .keyError)) := by decide
example : exF.successors id (some [7, 1, 0]) { maxLen := some 1 } 100 = ([], .raised (.py .keyError)) := by
  decide
example : exF.successor id (some [7]) {} 100 = .raised (.py .keyError) := by decide
/-- F14 witnesses. -/
example : exE.validate = .ok () ∧ exE.syms = [] := by decide
example : exE.successors id none {} 100 = ([], .raised (.py .indexError)) := by decide
example : exE.successors id (some []) { reverse := true, strict := false } 100 =
    ([], .raised (.py .indexError)) := by decide

end AV.Props.C14
