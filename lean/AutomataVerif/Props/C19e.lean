/-
Props/C19e.lean — C19, the clause "a well-formed (accepted by validate) definition can be run on
any string and passed to any operation without an undocumented error".

The models of C01–C17 track Python-level failures explicitly: `Res β = Except Exn β`,
`Exn.py …` = an undocumented Python error (`KeyError`, `IndexError`, …), `Exn.lib …` = a
documented library exception; generators end with an `Option Exn` / `Outcome` / `GenEnd` /
`SuccStatus`.  `AcceptedIsUsable` below has one field per modelled operation whose model can
express a failure.  Each field says: on VALID operands (validate = ok; plus the representation
invariant "came from Python sets / dicts" — `PyShape`, `IsDict`, `NFA.Valid` — where the cited
theorem needs it; plus the argument conditions of the owning property) the model returns `.ok _`
or the documented `Exn.lib _` named in the field, and never `Exn.py _`.  Every field is a
corollary of a theorem of the property that owns the operation (cited in
`C19_accepted_is_usable_partial`); nothing is re-proved here except three-line glue.

Exclusions that are OPEN FINDINGS (the model does return `Exn.py` on some valid operand; the
field carries the exclusion as an explicit hypothesis and names the finding):
  * F14 / F14b `C14:empty-alphabet` — `successors/successor/predecessors/predecessor` on a valid
    DFA with an empty alphabet raise `IndexError` (`C14_empty_alphabet`): hypothesis `Dom.symsNe`;
  * F13 `C14:start-string-with-foreign-symbol` — a start string with a symbol outside the
    alphabet raises `KeyError` (`C14_foreign_start_raises`): hypothesis `Dom.inputOver`;
  * F31 `C13:len-overflow-2^63` — the builtin `len(dfa)` raises `OverflowError` from 2^63 words
    on: hypothesis `ncard < 2^63` in `dfa_len_builtin`;
  * F35 / F35b `C17:mark-symbol-in-alphabet-or-input` — `MNTM.read_input_as_ntm` raises
    `MalformedExtendedTapeError` when `'^'` / `'_'` is a tape symbol or occurs in the input:
    hypotheses `SimDomain.alphabet` and `Clean`.
One documented Python exception: `random_word(k)` raises `ValueError` when there is no word of
length `k` (its docstring says so): `dfa_random_word` allows exactly `.py .valueError`.

Operations whose model is a TOTAL function (no `Res`: the model cannot express a failure, so
there is nothing to state): `DFA.to_partial`, `minify`, `isempty`, `count_words_of_length`,
`words_of_length`, `DFA.from_nfa`, `NFA.from_dfa`, `NFA.eliminate_lambda` (C07's model),
`DFA.__eq__` / `NFA.__eq__` (three-valued `Option Bool` / `EqRes`, see C06 / C09), renumbering.
Their crash-freedom on the real code is sampled (harness/ops/C19.py), like every field below.
-/
import AutomataVerif.Props.C19b
import AutomataVerif.Props.C01
import AutomataVerif.Props.C02
import AutomataVerif.Props.C03
import AutomataVerif.Props.C06
import AutomataVerif.Props.C13
import AutomataVerif.Props.C14
import AutomataVerif.Props.C17
import AutomataVerif.Props.C18

namespace AV.Props.C19
open AV AV.GNFA AV.GnfaSpec

/-! ## vocabulary -/

/-- The call did not end with an undocumented Python-level error. -/
def NoCrash {β : Type} (r : Res β) : Prop := ∀ e : PyErr, r ≠ .error (.py e)

theorem NoCrash.of_ok {β : Type} {r : Res β} {x : β} (h : r = .ok x) : NoCrash r := by
  intro e he; rw [h] at he; cases he

theorem NoCrash.of_lib {β : Type} {r : Res β} {x : Gen.Err} (h : r = .error (.lib x)) :
    NoCrash r := by
  intro e he; rw [h] at he; cases he

/-- The call returned, or raised the documented library exception `x`. -/
def OkOr {β : Type} (x : Gen.Err) (r : Res β) : Prop := (∃ v, r = .ok v) ∨ r = .error (.lib x)

theorem OkOr.noCrash {β : Type} {x : Gen.Err} {r : Res β} (h : OkOr x r) : NoCrash r := by
  rcases h with ⟨v, h⟩ | h
  · exact NoCrash.of_ok h
  · exact NoCrash.of_lib h

/-- `∀ e, r = error e → e = lib x` is `OkOr x r`. -/
theorem OkOr.of_only {β : Type} {x : Gen.Err} {r : Res β}
    (h : ∀ e, r = .error e → e = .lib x) : OkOr x r := by
  cases hr : r with
  | ok v => exact Or.inl ⟨v, rfl⟩
  | error e => rw [h e hr]; exact Or.inr rfl

/-! ## the statement: one field per operation -/

/-- **An accepted definition is usable**: no modelled operation ends with an undocumented
Python error on valid operands. -/
structure AcceptedIsUsable : Prop where
  -- ### constructors on an accepted definition
  /-- The validating constructor returns the definition it was given (DFA `__init__`, NFA
  `__init__` as called by the operations). -/
  constructors : (∀ {σ α : Type} [DecidableEq σ] [DecidableEq α] (d : DFA σ α),
      d.validate = .ok () → ∀ sv : Bool, d.mk' sv = .ok d) ∧
    (∀ {σ α : Type} [DecidableEq σ] [DecidableEq α] (n : NFA σ α),
      n.validate = .ok () → NFA.create n = .ok n)
  -- ### DFA: reading (C01)
  /-- `_get_next_current_state` from the sink or a declared state: no `KeyError`. -/
  dfa_step : ∀ {σ α : Type} [DecidableEq σ] [DecidableEq α] (d : DFA σ α), d.validate = .ok () →
    ∀ (s : Option σ) (a : α), (∀ q, s = some q → q ∈ d.states) → ∃ s', d.stepE s a = .ok s'
  /-- `read_input_stepwise(w, ignore_rejection)` on ANY word (foreign symbols included): the
  generator ends normally or with `RejectionException`. -/
  dfa_read_stepwise : ∀ {σ α : Type} [DecidableEq σ] [DecidableEq α] (d : DFA σ α),
    d.validate = .ok () → ∀ (w : List α) (ign : Bool) (e : Exn),
    (d.readStepwise w ign).2 = some e → e = .lib .rejectionException
  /-- `read_input(w)`: a configuration or `RejectionException`. -/
  dfa_read_input : ∀ {σ α : Type} [DecidableEq σ] [DecidableEq α] (d : DFA σ α),
    d.validate = .ok () → ∀ w : List α, OkOr .rejectionException (d.readInput w)
  /-- `accepts_input(w)` and `item in d` (any item, `none` = not a `str`) return a Boolean. -/
  dfa_accepts_input : ∀ {σ α : Type} [DecidableEq σ] [DecidableEq α] (d : DFA σ α),
    d.validate = .ok () → (∀ w : List α, ∃ b, d.acceptsInput w = .ok b) ∧
      ∀ item : Option (List α), ∃ b, d.contains item = .ok b
  -- ### NFA: reading (C01)
  /-- `lambda_closures[q]` for a declared state and `_get_next_current_states` from any set of
  states: no `KeyError`. -/
  nfa_step : ∀ {σ α : Type} [DecidableEq σ] [DecidableEq α] (n : NFA σ α), n.validate = .ok () →
    (∀ q ∈ n.states, ∃ c, n.closureE q = .ok c) ∧
    ∀ (cur : List σ) (a : α), ∃ nxt, n.nextStatesE cur a = .ok nxt
  nfa_read_stepwise : ∀ {σ α : Type} [DecidableEq σ] [DecidableEq α] (n : NFA σ α),
    n.validate = .ok () → ∀ (w : List α) (e : Exn),
    (n.readStepwise w).2 = some e → e = .lib .rejectionException
  nfa_read_input : ∀ {σ α : Type} [DecidableEq σ] [DecidableEq α] (n : NFA σ α),
    n.validate = .ok () → ∀ w : List α, OkOr .rejectionException (n.readInput w)
  nfa_accepts_input : ∀ {σ α : Type} [DecidableEq σ] [DecidableEq α] (n : NFA σ α),
    n.validate = .ok () → (∀ w : List α, ∃ b, n.acceptsInput w = .ok b) ∧
      ∀ item : Option (List α), ∃ b, n.contains item = .ok b
  -- ### DFA: Boolean operations, completion, complement, operators (C04) — ANY two valid
  -- operands, equal alphabets or not
  /-- `A.union/intersection/difference/symmetric_difference(B, minify=False)`: a DFA, or
  `SymbolMismatchError` (exactly when the alphabets differ). -/
  dfa_binop : ∀ {σ α : Type} [DecidableEq σ] [DecidableEq α] (op : DFA.BinOp) (A B : DFA σ α),
    A.validate = .ok () → B.validate = .ok () → A.PyShape →
    OkOr .symbolMismatchError (A.binopPlain op B)
  /-- … with `minify=True`. -/
  dfa_binop_min : ∀ {σ α : Type} [DecidableEq σ] [DecidableEq α] (op : DFA.BinOp) (A B : DFA σ α)
    (pick : List Nat → Nat), A.validate = .ok () → B.validate = .ok () → A.PyShape →
    OkOr .symbolMismatchError (A.binopMin op B pick)
  /-- All four option combinations `retain_names × minify`. -/
  dfa_binop_opts : ∀ {σ α : Type} [DecidableEq σ] [DecidableEq α] (op : DFA.BinOp) (A B : DFA σ α)
    (retain minify : Bool) (pick : List Nat → Nat),
    A.validate = .ok () → B.validate = .ok () → A.PyShape →
    OkOr .symbolMismatchError (DFA.binopOpts op A B retain minify pick)
  /-- The operators `| & - ^` as the source defines them (no `TypeError` / `AttributeError`
  from the dispatch either). -/
  dfa_operator : ∀ {σ α : Type} [DecidableEq σ] [DecidableEq α] (op : DFA.BinOp) (A B : DFA σ α)
    (pick : List Nat → Nat), A.validate = .ok () → B.validate = .ok () → A.PyShape →
    OkOr .symbolMismatchError (DFA.operator op A B pick)
  /-- `d.to_complete(trap)`; `trap ∉ states` is what `_get_trap_state_id` guarantees. -/
  dfa_to_complete : ∀ {σ α : Type} [DecidableEq σ] [DecidableEq α] (d : DFA σ α) (trap : σ)
    (custom : Bool), d.validate = .ok () → d.PyShape → trap ∉ d.states →
    ∃ C, d.toComplete trap custom = .ok C
  /-- `d.complement(…)` under the option combinations, and `~d`. -/
  dfa_complement : ∀ {σ α : Type} [DecidableEq σ] [DecidableEq α] (d : DFA σ α) (trap : σ)
    (pick : List Nat → Nat), d.validate = .ok () → d.PyShape → trap ∉ d.states →
    (∃ R, d.complementFull trap = .ok R) ∧ (∃ M, d.complementMinFull trap pick = .ok M) ∧
    (∃ R, DFA.invert d trap pick = .ok R)
  /-- Results fed into further operations: every finite expression tree over
  {∪, ∩, −, △, complement, to_partial, to_complete} with any `minify` flags, leaves valid DFAs
  over one alphabet (`trapOf` = `_get_trap_state_id`: a name not among the states). -/
  dfa_expr : ∀ {α : Type} [DecidableEq α] (trapOf : List Nat → Nat), (∀ l, trapOf l ∉ l) →
    ∀ (pick : List Nat → Nat) (Sg : List α) (e : C04.DFAExpr α), e.LeavesOk Sg →
    ∃ R, e.eval trapOf pick = .ok R
  -- ### DFA: comparisons (C06)
  /-- `issubset`, `isdisjoint` (`<=`, `>=`, `issuperset` are the same calls): a Boolean or
  `SymbolMismatchError`, for ALL operands (the model has no other exit). -/
  dfa_issubset_isdisjoint : ∀ {σ α : Type} [DecidableEq σ] [DecidableEq α] (A B : DFA σ α),
    OkOr .symbolMismatchError (A.issubset B) ∧ OkOr .symbolMismatchError (A.isdisjoint B)
  /-- On valid operands over one alphabet they return. -/
  dfa_compare_defined : ∀ {σ α : Type} [DecidableEq σ] [DecidableEq α] (A B : DFA σ α),
    A.validate = .ok () → B.validate = .ok () → A.PyShape → B.PyShape → A.symsEq B = true →
    (∃ b, A.issubset B = .ok b) ∧ (∃ b, B.issubset A = .ok b) ∧ (∃ b, A.isdisjoint B = .ok b) ∧
    ∃ c, A.compareAll B = .ok c
  -- ### DFA: cardinality queries, iteration, random words (C13); `IsDict` = the transition
  -- table came from Python dicts (no duplicate keys)
  /-- `minimum_word_length()`: a number or `EmptyLanguageException`. -/
  dfa_min_word_length : ∀ {σ α : Type} [DecidableEq σ] [DecidableEq α] (d : DFA σ α),
    d.validate = .ok () → d.IsDict → OkOr .emptyLanguageException d.minimumWordLength
  /-- `maximum_word_length()`: a number / `None`, or `EmptyLanguageException`. -/
  dfa_max_word_length : ∀ {σ α : Type} [DecidableEq σ] [DecidableEq α] (d : DFA σ α),
    d.validate = .ok () → d.IsDict → OkOr .emptyLanguageException d.maximumWordLength
  /-- `isfinite()` returns. -/
  dfa_isfinite : ∀ {σ α : Type} [DecidableEq σ] [DecidableEq α] (d : DFA σ α),
    d.validate = .ok () → d.IsDict → ∃ b, d.isFinite = .ok b
  /-- `cardinality()` / `__len__()`: a number or `InfiniteLanguageException`. -/
  dfa_cardinality : ∀ {σ α : Type} [DecidableEq σ] [DecidableEq α] (d : DFA σ α),
    d.validate = .ok () → d.IsDict →
    OkOr .infiniteLanguageException d.cardinality ∧ OkOr .infiniteLanguageException d.len
  /-- The builtin `len(d)`.  EXCLUSION (open finding F31 `C13:len-overflow-2^63`): from 2^63
  words on the interpreter raises `OverflowError` (`C13_len`, `C13_len_full_fails`); below that
  bound: the number, or `InfiniteLanguageException`. -/
  dfa_len_builtin : ∀ {σ α : Type} [DecidableEq σ] [DecidableEq α] (d : DFA σ α),
    d.validate = .ok () → d.IsDict →
    ((C13.Lang d).Finite → Set.ncard (C13.Lang d) < 2 ^ 63) →
    (∃ n, d.lenBuiltin = .ok n) ∨ d.lenBuiltin = .error (.exn (.lib .infiniteLanguageException))
  /-- `iter(d)` run for any number of loop bodies: no exception. -/
  dfa_iter : ∀ {σ α : Type} [DecidableEq σ] [DecidableEq α] (d : DFA σ α),
    d.validate = .ok () → d.IsDict → ∀ (key : α → Int) (n : Nat), ∃ r, d.iterRun key n = .ok r
  /-- `random_word(k)`: a word, or the DOCUMENTED `ValueError` ("if this DFA does not accept any
  words of length k") — no `AssertionError`, nothing else.  `InRange`: the numbers `cs` are
  possible results of `rng.randint(0, total - 1)`. -/
  dfa_random_word : ∀ {σ α : Type} [DecidableEq σ] [DecidableEq α] (d : DFA σ α),
    d.validate = .ok () → d.IsDict → ∀ (k : Nat) (cs : List Nat), d.InRange k d.init cs →
    (∃ w, d.randomWord k cs = .ok w) ∨ d.randomWord k cs = .error (.py .valueError)
  -- ### DFA: successors / predecessors (C14)
  /-- `successors(…)` / `predecessors(…)` for any number of loop iterations: the generator is
  exhausted, still running, or raised `InfiniteLanguageException` (reverse direction on an
  infinite language).  EXCLUSIONS carried by `C14.Dom` (open findings): `symsNe` — F14 / F14b
  `C14:empty-alphabet` (`IndexError` on an empty alphabet, `C14_empty_alphabet`); `inputOver` —
  F13 `C14:start-string-with-foreign-symbol` (`KeyError`, `C14_foreign_start_raises`).  The other
  fields of `Dom`: validate = ok, dict-shaped table, duplicate-free alphabet, `key` injective on
  the alphabet (it is a sort key). -/
  dfa_successors : ∀ {σ α : Type} [DecidableEq σ] [DecidableEq α] (d : DFA σ α) (key : α → Int)
    (input : Option (List α)), C14.Dom d key input → ∀ (o : DFA.SuccOpts) (fuel : Nat) (e : Exn),
    (d.successors key input o fuel).2 = .raised e → e = .lib .infiniteLanguageException
  /-- `successor(…)` never raises; `predecessor(…)` raises at most `InfiniteLanguageException`
  (same exclusions). -/
  dfa_successor_predecessor : ∀ {σ α : Type} [DecidableEq σ] [DecidableEq α] (d : DFA σ α)
    (key : α → Int) (input : Option (List α)), C14.Dom d key input →
    ∀ (o : DFA.SuccOpts) (fuel : Nat) (e : Exn),
    d.successor key input o fuel ≠ .raised e ∧
    (d.predecessor key input o fuel = .raised e → e = .lib .infiniteLanguageException)
  -- ### NFA: regular operations, quotients, products (C08); `Valid` = validate ok + dict-shaped
  -- table.  The operands may use different state-name types; no alphabet condition exists
  /-- `union` (`|`), `concatenate` (`+`), `intersection` (`&`), `shuffle_product`,
  `right_quotient`, `left_quotient` return an NFA (no `KeyError` in `_load_new_transition_dict`,
  `_eliminate_lambda`, the product loops). -/
  nfa_binary : ∀ {σ₁ σ₂ α : Type} [DecidableEq σ₁] [DecidableEq σ₂] [DecidableEq α]
    (A : NFA σ₁ α) (B : NFA σ₂ α), A.Valid → B.Valid →
    (∃ R, NFA.union A B = .ok R) ∧ (∃ R, NFA.orOp A B = .ok R) ∧
    (∃ R, NFA.concatenate A B = .ok R) ∧ (∃ R, NFA.addOp A B = .ok R) ∧
    (∃ R, NFA.intersection A B = .ok R) ∧ (∃ R, NFA.andOp A B = .ok R) ∧
    (∃ R, NFA.shuffleProduct A B = .ok R) ∧
    (∃ R, NFA.rightQuotient A B = .ok R) ∧ (∃ R, NFA.leftQuotient A B = .ok R)
  /-- `kleene_star`, `option`, `reverse` (`nat` = the embedding of the fresh int names). -/
  nfa_unary : ∀ {σ α : Type} [DecidableEq σ] [DecidableEq α] (nat : Nat → σ),
    Function.Injective nat → ∀ A : NFA σ α, A.Valid →
    (∃ R, NFA.kleeneStar nat A = .ok R) ∧ (∃ R, NFA.option nat A = .ok R) ∧
    (∃ R, NFA.reverse nat A = .ok R)
  /-- Results fed into further operations: every finite expression tree over the nine operations
  with Python's mixed names (`PyName`), valid leaves: the evaluation returns. -/
  nfa_expr : ∀ {α : Type} [DecidableEq α] (e : NFA.OpExpr α), C08.LeavesValid e →
    ∃ R, e.eval = .ok R
  /-- `_eliminate_lambda()` (the helper the quotients and `eliminate_lambda` run; it indexes
  `lambda_closures[…]`): returns. -/
  nfa_eliminate_lambda_core : ∀ {σ α : Type} [DecidableEq σ] [DecidableEq α] (A : NFA σ α),
    A.Valid → ∃ r, NFAElim.core A = .ok r
  -- ### GNFA (C12)
  /-- `GNFA.from_dfa(d)` returns and `to_regex()` of the result returns, for every tie-break
  order of `_find_min_connected_node`.  EXCLUSION (open finding F34
  `C12:alphabet-has-reserved-regex-character`): the alphabet consists of literal characters
  (`IsLit`: not reserved in the regex syntax, not white space) — otherwise the GNFA constructor
  refuses some of the labels `from_dfa` writes (`InvalidRegexError` / `LexerError`). -/
  gnfa_from_dfa_to_regex : ∀ {σ : Type} [DecidableEq σ] (natName : Nat → σ),
    Function.Injective natName → ∀ d : DFA σ Char, d.validate = .ok () →
    (∀ kv ∈ d.trans, (akeys kv.2).Nodup) → (∀ a ∈ d.syms, IsLit a) →
    ∃ g, fromDFA simpleRxValid natName d = .ok g ∧
      ∀ ord : Nat → List σ → List σ, (∀ k l x, x ∈ ord k l ↔ x ∈ l) → ∃ o, toRegex g ord = .ok o
  /-- `GNFA.from_nfa(n)` + `to_regex()` (same exclusion; rows and target sets duplicate-free). -/
  gnfa_from_nfa_to_regex : ∀ {σ : Type} [DecidableEq σ] (natName : Nat → σ),
    Function.Injective natName → ∀ n : NFA σ Char, n.validate = .ok () →
    (∀ kv ∈ n.trans, (akeys kv.2).Nodup) → (∀ kv ∈ n.trans, ∀ e ∈ kv.2, e.2.Nodup) →
    (∀ a ∈ n.syms, IsLit a) →
    ∃ g, fromNFA simpleRxValid natName n = .ok g ∧
      ∀ ord : Nat → List σ → List σ, (∀ k l x, x ∈ ord k l ↔ x ∈ l) → ∃ o, toRegex g ord = .ok o
  /-- `g.to_regex()` on a hand-written GNFA of the documented shape (what `GNFA.validate`
  checks since fix 084dfed: a row for every non-final state, an entry for every non-initial
  state) whose labels are well-formed regexes: no `KeyError` (F20, fixed).  `Shape` / `Denotes`
  are hypotheses here: no bridge from `validateStr = ok` to them is proved. -/
  gnfa_to_regex : ∀ {σ : Type} [DecidableEq σ] (g : GNFA σ Str),
    Shape (dedup g.states) g.init g.final g.trans →
    ∀ Lb : σ → σ → Language Char, Denotes Lab g.trans Lb →
    ∀ ord : Nat → List σ → List σ, (∀ k l x, x ∈ ord k l ↔ x ∈ l) → ∃ o, toRegex g ord = .ok o
  -- ### PDA (C02): these hold for EVERY table, valid or not (no validity hypothesis needed)
  /-- NPDA `read_input_stepwise` (any loop budget): ends normally, with `RejectionException`, or
  is still running; `read_input` raises at most that; `accepts_input` raises nothing. -/
  npda_read : ∀ {σ α γ : Type} [DecidableEq σ] [DecidableEq α] [DecidableEq γ]
    (M : PDA.NPDA σ α γ) (fuel : Nat) (w : List α),
    (∀ e, (M.readStepwise fuel w).2 = .raised e → e = .lib .rejectionException) ∧
    (∀ e, PDA.readInput (M.readStepwise fuel w) = some (.error e) → e = .lib .rejectionException) ∧
    (∀ e, PDA.acceptsInput (M.readStepwise fuel w) ≠ some (.error e))
  /-- DPDA the same, whichever of two applicable transitions `set.pop()` takes (`pick`); the
  `IndexError` in the message formatting of `_get_next_configuration` is unreachable. -/
  dpda_read : ∀ {σ α γ : Type} [DecidableEq σ] [DecidableEq α] [DecidableEq γ]
    (M : PDA.DPDA σ α γ) (pick : PDA.Config σ α γ → Bool) (fuel : Nat) (w : List α),
    (∀ e, (M.readStepwise pick fuel w).2 = .raised e → e = .lib .rejectionException) ∧
    (∀ e, PDA.readInput (M.readStepwise pick fuel w) = some (.error e) →
      e = .lib .rejectionException) ∧
    (∀ e, PDA.acceptsInput (M.readStepwise pick fuel w) ≠ some (.error e))
  -- ### Turing machines (C03)
  /-- DTM `read_input_stepwise` observed through `n` calls of `next()`: raises at most
  `RejectionException`; `accepts_input` within that budget answers (for every table). -/
  dtm_read : ∀ {σ Γ : Type} [DecidableEq σ] [DecidableEq Γ] (M : TM.DTM σ Γ) (w : List Γ) (n : Nat),
    (∀ e, (M.readStepwise w n).2 = .raised e → e = .lib .rejectionException) ∧
    ∃ v, M.verdict w n = .ok v
  ntm_read : ∀ {σ Γ : Type} [DecidableEq σ] [DecidableEq Γ] (M : TM.NTM σ Γ) (w : List Γ) (n : Nat),
    (∀ e, (M.readStepwise w n).2 = .raised e → e = .lib .rejectionException) ∧
    ∃ v, M.verdict w n = .ok v
  /-- MNTM (valid: empty transition lists allowed since fix 5a3675d, no `IndexError`). -/
  mntm_read : ∀ {σ Γ : Type} [DecidableEq σ] [DecidableEq Γ] (M : TM.MNTM σ Γ),
    M.validate = .ok () → ∀ (w : List Γ) (n : Nat),
    (∀ e, (M.readStepwise w n).2 = .raised e → e = .lib .rejectionException) ∧
    ∃ v, M.verdict w n = .ok v
  /-- `MNTM.read_input_as_ntm` (C17).  EXCLUSION (open finding F35 / F35b
  `C17:mark-symbol-in-alphabet-or-input`): the head mark `hd` (`'^'`) and the separator `sep`
  (`'_'`) are neither tape symbols (`SimDomain.alphabet`) nor in the input (`Clean`) — otherwise
  `MalformedExtendedTapeError` (`C17_mark_in_alphabet_fails`, `C17_mark_in_input_fails`).
  `SimDomain` also asks for `1 ≤ n_tapes`, which `validate` does not check. -/
  mntm_read_as_ntm : ∀ {σ Γ : Type} [DecidableEq σ] [DecidableEq Γ] (M : TM.MNTM σ Γ) (hd sep : Γ),
    TM.SimDomain M hd sep → ∀ w : List Γ, TM.Clean hd sep w → ∀ n : Nat,
    (∀ e, (TM.simStepwise M hd sep w n).2 = .raised e → e = .lib .rejectionException) ∧
    ∃ v, TM.simVerdict M hd sep w n = .ok v
  -- ### every class: copy / pickle (C18)
  /-- `copy()` and a pickle round trip of a constructed automaton of any of the 8 classes
  return (under either setting of `allow_mutable_automata`). -/
  copy_pickle : ∀ (allowMutable : Bool) (cls : String), cls ∈ VA.Obj.classes →
    ∀ (kwargs : List (String × VA.PyVal)) (a : VA.Inst),
    VA.Obj.classInit allowMutable cls kwargs = .ok a →
    (∃ b, VA.Obj.copy allowMutable a = .ok b) ∧ ∃ b, VA.Obj.pickleRoundTrip allowMutable a = .ok b

/-! ## glue -/

/-- A reader whose `accepts_input` never raises ends with `RejectionException` at most, and so
does `read_input`. -/
theorem pda_reads {β : Type} (r : List β × PDA.Outcome)
    (h : ∀ e, PDA.acceptsInput r ≠ some (.error e)) :
    (∀ e, r.2 = .raised e → e = .lib .rejectionException) ∧
    (∀ e, PDA.readInput r = some (.error e) → e = .lib .rejectionException) ∧
    (∀ e, PDA.acceptsInput r ≠ some (.error e)) := by
  have key : ∀ e, PDA.readInput r = some (.error e) → e = .lib .rejectionException := by
    intro e he
    apply Classical.byContradiction
    intro hne
    apply h e
    unfold PDA.acceptsInput
    rw [he]
    cases e with
    | py x => rfl
    | lib x => cases x <;> first | rfl | exact absurd rfl hne
  refine ⟨fun e he => key e ?_, key, h⟩
  unfold PDA.readInput
  rw [he]

/-- `accepts_input` on top of a generator that raises at most `RejectionException` answers. -/
theorem verdictOf_ok {g : TM.GenEnd} (h : ∀ e, g = .raised e → e = .lib .rejectionException) :
    ∃ v, TM.verdictOf g = .ok v := by
  cases g with
  | returned => exact ⟨_, rfl⟩
  | raised e => rw [h e rfl]; exact ⟨_, rfl⟩
  | running => exact ⟨_, rfl⟩

/-! ## the proof -/

theorem C19_accepted_is_usable_partial : AcceptedIsUsable where
  constructors :=
    ⟨fun d hv sv => by cases sv <;> simp [DFA.mk', hv],
     fun n hv => NFA.create_eq_ok n ((NFA.validate_eq_ok n).mp hv)⟩
  dfa_step := fun d hv s a hs => by
    have wf := (DFA.validate_eq_ok d).mp hv
    refine ⟨_, DFA.stepE_good wf ?_ a⟩
    cases s with
    | none => trivial
    | some q => exact hs q rfl
  dfa_read_stepwise := fun d hv w ign e he => by
    cases ign with
    | false =>
      have h : d.readStepwise w false = d.readStepwise w := rfl
      rw [h, C01.C01_dfa_stepwise d hv w] at he
      revert he
      cases d.accepts w <;> simp [rejectUnless]
      intro h; exact h.symm
    | true =>
      rw [C01.C01_dfa_stepwise_ignore d hv w] at he
      cases he
  dfa_read_input := fun d hv w => by
    rw [C01.C01_dfa_read_input d hv w]
    cases d.accepts w
    · exact Or.inr rfl
    · exact Or.inl ⟨_, rfl⟩
  dfa_accepts_input := fun d hv =>
    ⟨fun w => ⟨_, (C01.C01_dfa_verdicts d hv w).1⟩, fun item => by
      cases item with
      | none => exact ⟨false, rfl⟩
      | some w => exact ⟨_, (C01.C01_dfa_verdicts d hv w).2.1⟩⟩
  nfa_step := fun n hv => by
    have wf := (NFA.validate_eq_ok n).mp hv
    refine ⟨fun q hq => ⟨n.closure q, by simp [NFA.closureE, hq]⟩, fun cur a => ?_⟩
    exact ⟨_, NFA.nextStatesE_eq wf cur a⟩
  nfa_read_stepwise := fun n hv w e he => by
    rw [(C01.C01_nfa_stepwise n hv w).1] at he
    revert he
    cases n.accepts w <;> simp [rejectUnless]
    intro h; exact h.symm
  nfa_read_input := fun n hv w => by
    rw [(C01.C01_nfa_verdicts n hv w).1]
    cases n.accepts w
    · exact Or.inr rfl
    · exact Or.inl ⟨_, rfl⟩
  nfa_accepts_input := fun n hv =>
    ⟨fun w => ⟨_, (C01.C01_nfa_verdicts n hv w).2.1⟩, fun item => by
      cases item with
      | none => exact ⟨false, rfl⟩
      | some w => exact ⟨_, (C01.C01_nfa_verdicts n hv w).2.2.1⟩⟩
  dfa_binop := fun op A B hA hB pA => by
    cases hs : A.symsEq B with
    | true =>
      obtain ⟨R, h, _⟩ := C04.C04_binop_valid op A B hA hB pA hs
      exact Or.inl ⟨R, h⟩
    | false => exact Or.inr (C04.C04_mismatch op A B hs (fun _ => 0)).1
  dfa_binop_min := fun op A B pick hA hB pA => by
    cases hs : A.symsEq B with
    | true =>
      obtain ⟨M, h, _⟩ := C04.C04_binop_min op A B pick hA hB pA hs
      exact Or.inl ⟨M, h⟩
    | false => exact Or.inr (C04.C04_mismatch op A B hs pick).2
  dfa_binop_opts := fun op A B retain minify pick hA hB pA => by
    cases hs : A.symsEq B with
    | true =>
      rcases C04.C04_binop_all_options op A B retain minify pick hA hB pA hs with
        ⟨R, h, _⟩ | ⟨R, h, _⟩ | ⟨R, h, _⟩ <;> exact Or.inl ⟨_, h⟩
    | false =>
      obtain ⟨h1, h2⟩ := C04.C04_mismatch op A B hs pick
      refine Or.inr ?_
      cases minify <;> cases retain <;> simp [DFA.binopOpts, h1, h2, Except.map]
  dfa_operator := fun op A B pick hA hB pA => by
    cases hs : A.symsEq B with
    | true =>
      obtain ⟨R, h, _⟩ := (C04.C04_operators op A B pick hA hB pA hs).2
      exact Or.inl ⟨_, h⟩
    | false =>
      obtain ⟨_, h2⟩ := C04.C04_mismatch op A B hs pick
      have h0 : DFA.operator op A B pick = DFA.binopOpts op A B false true pick := by
        cases op <;> rfl
      refine Or.inr ?_
      rw [h0]
      simp [DFA.binopOpts, h2, Except.map]
  dfa_to_complete := fun d trap custom hd pd ht =>
    let ⟨C, h, _⟩ := C04.C04_to_complete d hd pd trap custom ht
    ⟨C, h⟩
  dfa_complement := fun d trap pick hd pd ht =>
    ⟨let ⟨R, h, _⟩ := C04.C04_complement d hd pd trap ht; ⟨R, h⟩,
     let ⟨M, h, _⟩ := C04.C04_complement_min d trap pick hd pd ht; ⟨M, h⟩,
     let ⟨R, h, _⟩ := (C04.C04_invert d trap pick hd pd ht).2; ⟨_, h⟩⟩
  dfa_expr := fun trapOf hfresh pick Sg e hl =>
    let ⟨R, h, _⟩ := C04.C04_expr_all trapOf hfresh pick Sg e hl
    ⟨R, h⟩
  dfa_issubset_isdisjoint := fun A B => by
    cases hs : A.symsEq B with
    | true =>
      refine ⟨Or.inl ?_, Or.inl ?_⟩
      · unfold DFA.issubset; rw [hs]; exact ⟨_, rfl⟩
      · unfold DFA.isdisjoint; rw [hs]; exact ⟨_, rfl⟩
    | false => exact ⟨Or.inr (C06.C06_mismatch A B hs).2.1, Or.inr (C06.C06_mismatch A B hs).2.2⟩
  dfa_compare_defined := fun A B hA hB pA pB hs =>
    let ⟨_, h2, h3, h4⟩ := C06.C06_defined A B hA hB pA pB hs
    let ⟨c, hc, _⟩ := C06.C06_compare_all A B hA hB pA pB hs
    ⟨h2, h3, h4, c, hc⟩
  dfa_min_word_length := fun d _ hd => OkOr.of_only (C13.C13_min d hd).2.2
  dfa_max_word_length := fun d hv hd => OkOr.of_only (C13.C13_max d hv hd).2.2.2
  dfa_isfinite := fun d hv hd => let ⟨b, h, _⟩ := C13.C13_isfinite d hv hd; ⟨b, h⟩
  dfa_cardinality := fun d hv hd => by
    obtain ⟨hfin, hinf, hlen⟩ := C13.C13_cardinality d hv hd
    have h : OkOr .infiniteLanguageException d.cardinality := by
      rcases (C13.Lang d).finite_or_infinite with h | h
      · exact Or.inl ⟨_, hfin h⟩
      · exact Or.inr (hinf h)
    exact ⟨h, by rw [hlen]; exact h⟩
  dfa_len_builtin := fun d hv hd hsmall => by
    obtain ⟨h1, _, h3⟩ := C13.C13_len d hv hd
    rcases (C13.Lang d).finite_or_infinite with h | h
    · exact Or.inl ⟨_, h1 h (hsmall h)⟩
    · exact Or.inr (h3 h)
  dfa_iter := fun d hv hd key n => by
    by_cases he : C13.Lang d = ∅
    · exact ⟨_, C13.C13_iter_empty d hd key n he⟩
    · obtain ⟨i, limit, k, _, _, _, h, _⟩ := C13.iterRun_levels d hv hd key n he
      exact ⟨_, h⟩
  dfa_random_word := fun d hv hd k cs hin => by
    by_cases h0 : d.countWordsOfLength k = 0
    · exact Or.inr (C13.C13_random_none d k cs h0)
    · obtain ⟨w, hw, _⟩ := C13.C13_random_member d hv hd k cs h0 hin
      exact Or.inl ⟨w, hw⟩
  dfa_successors := fun d key input h o fuel e he => by
    cases ho : o.reverse with
    | false =>
      rcases (C14.C14_successors d key input h o ho fuel).1 with h1 | h1 <;> rw [h1] at he <;> cases he
    | true =>
      rcases (C13.Lang d).finite_or_infinite with hf | hi
      · rcases (C14.C14_predecessors d key input h o ho fuel hf).1 with h1 | h1 <;>
          rw [h1] at he <;> cases he
      · rw [C14.C14_predecessors_infinite d key input h o ho fuel hi] at he
        cases he; rfl
  dfa_successor_predecessor := fun d key input h o fuel e => by
    constructor
    · intro he
      have := C14.C14_successor d key input h o fuel
      rw [he] at this
      exact this
    · intro he
      obtain ⟨hinf, hfin⟩ := C14.C14_predecessor d key input h o fuel
      rcases (C13.Lang d).finite_or_infinite with hf | hi
      · have := hfin hf
        rw [he] at this
        exact this.elim
      · rw [hinf hi] at he
        cases he; rfl
  nfa_binary := fun A B hA hB =>
    ⟨let ⟨R, h, _⟩ := C08.C08_union A B hA hB; ⟨R, h⟩,
     let ⟨R, h, _⟩ := C08.C08_or A B hA hB; ⟨R, h⟩,
     let ⟨R, h, _⟩ := C08.C08_concatenate A B hA hB; ⟨R, h⟩,
     let ⟨R, h, _⟩ := C08.C08_add A B hA hB; ⟨R, h⟩,
     let ⟨R, h, _⟩ := C08.C08_intersection A B hA hB; ⟨R, h⟩,
     let ⟨R, h, _⟩ := C08.C08_and A B hA hB; ⟨R, h⟩,
     let ⟨R, h, _⟩ := C08.C08_shuffle_product A B hA hB; ⟨R, h⟩,
     let ⟨R, h, _⟩ := C08.C08_right_quotient A B hA hB; ⟨R, h⟩,
     let ⟨R, h, _⟩ := C08.C08_left_quotient A B hA hB; ⟨R, h⟩⟩
  nfa_unary := fun nat hnat A hA =>
    ⟨let ⟨R, h, _⟩ := C08.C08_kleene_star nat hnat A hA; ⟨R, h⟩,
     let ⟨R, h, _⟩ := C08.C08_option nat hnat A hA; ⟨R, h⟩,
     let ⟨R, h, _⟩ := C08.C08_reverse nat hnat A hA; ⟨R, h⟩⟩
  nfa_expr := fun e h => let ⟨R, hR, _⟩ := C08.C08_expr e h; ⟨R, hR⟩
  nfa_eliminate_lambda_core := fun A hA =>
    let ⟨ra, ta, fa, h, _⟩ := NFAElim.core_spec A hA
    ⟨(ra, ta, fa), h⟩
  gnfa_from_dfa_to_regex := fun natName hinj d hv hkeys hlit =>
    let ⟨g, hg⟩ := C12.C12_from_dfa_total natName hinj d hv hlit
    ⟨g, hg, fun ord hord =>
      let ⟨o, ho, _⟩ := C12.C12_to_regex_dfa simpleRxValid natName hinj d hv hkeys hlit g hg ord hord
      ⟨o, ho⟩⟩
  gnfa_from_nfa_to_regex := fun natName hinj n hv hkeys htgts hlit =>
    let ⟨g, hg⟩ := C12.C12_from_nfa_total natName hinj n hv hkeys htgts hlit
    ⟨g, hg, fun ord hord =>
      let ⟨o, ho, _⟩ :=
        C12.C12_to_regex_nfa simpleRxValid natName hinj n hv hkeys htgts hlit g hg ord hord
      ⟨o, ho⟩⟩
  gnfa_to_regex := fun g hS _ hD ord hord =>
    let ⟨o, ho, _⟩ := C12.C12_to_regex_strings g hS hD ord hord
    ⟨o, ho⟩
  npda_read := fun M fuel w =>
    pda_reads _ (C02.C02_npda_accepts_input M fuel w).2.2.2.1
  dpda_read := fun M pick fuel w =>
    pda_reads _ (C02.C02_dpda_accepts_input M pick fuel w).2.2.2.1
  dtm_read := fun M w n =>
    have h : ∀ e, (M.readStepwise w n).2 = .raised e → e = .lib .rejectionException :=
      fun e he => ((C03.C03_dtm_reject_iff M w n e).mp he).1
    ⟨h, verdictOf_ok h⟩
  ntm_read := fun M w n =>
    have h : ∀ e, (M.readStepwise w n).2 = .raised e → e = .lib .rejectionException :=
      fun e he => ((C03.C03_ntm_reject_iff M w n e).mp he).1
    ⟨h, verdictOf_ok h⟩
  mntm_read := fun M hv w n =>
    have h : ∀ e, (M.readStepwise w n).2 = .raised e → e = .lib .rejectionException :=
      fun e he => ((C03.C03_mntm_rejects_iff M hv w e).mp ⟨n, he⟩).1
    ⟨h, verdictOf_ok h⟩
  mntm_read_as_ntm := fun M hd sep dom w hw n =>
    have h : ∀ e, (TM.simStepwise M hd sep w n).2 = .raised e → e = .lib .rejectionException := by
      intro e he
      rcases C17.C17_only_rejection M hd sep dom w hw n with h | h | h <;> rw [h] at he <;> cases he
      rfl
    ⟨h, verdictOf_ok h⟩
  copy_pickle := fun am cls hcls kwargs a h =>
    ⟨let ⟨b, hb, _⟩ := C18.C18_copy_roundtrip am cls hcls kwargs a h; ⟨b, hb⟩,
     let ⟨b, hb, _⟩ := C18.C18_pickle_roundtrip am cls hcls kwargs a h; ⟨b, hb⟩⟩

/-! ## non-vacuity: the hypotheses are met by concrete non-trivial automata, and the calls the
fields speak about end as the fields say -/

/-- C01's partial DFA (state 1 has no 1-transition) is valid; a word with the foreign symbol 7
and a word that runs into the missing transition are read without a crash: `RejectionException`,
`accepts_input` answers `False`. -/
example : C01.exDFA.validate = .ok () ∧
    C01.exDFA.readInput [0, 7, 1] = .error (.lib .rejectionException) ∧
    C01.exDFA.acceptsInput [1, 1, 0] = .ok false ∧ C01.exDFA.acceptsInput [0, 1] = .ok true := by
  decide

/-- C01's NFA with an ε-cycle and a state without a row: valid, reads a foreign symbol. -/
example : C01.exNFA.validate = .ok () ∧ C01.exNFA.acceptsInput [0] = .ok true ∧
    C01.exNFA.readInput [0, 5] = .error (.lib .rejectionException) := by decide

/-- C06's DFAs (one partial, one complete, common alphabet): hypotheses of `dfa_binop` /
`dfa_compare_defined`; against a DFA over another alphabet the documented
`SymbolMismatchError`. -/
example : C06.exA.validate = .ok () ∧ C06.exB.validate = .ok () ∧ C06.exA.symsEq C06.exB = true ∧
    C06.exA.issubset C06.exB = .ok false ∧
    (match C06.exA.binopPlain .union
        { C06.exB with syms := [0], trans := [(0, [(0, 1)]), (1, [(0, 0)])] } with
     | .error (.lib .symbolMismatchError) => true
     | _ => false) = true := by decide
example : C06.exA.PyShape ∧ C06.exB.PyShape := ⟨C06.exA_shape, C06.exB_shape⟩

/-- The hypotheses of `dfa_successors` (`C14.Dom`: non-empty alphabet, start string over it) are
met by C13's finite-language DFA; on C14's infinite-language DFA the reverse direction ends
with the documented `InfiniteLanguageException`. -/
example : C14.Dom C14.exF id (some [0, 1]) :=
  ⟨by decide, ⟨by decide, by decide⟩, by decide, by decide, by unfold DFA.KeyInj; decide, by decide⟩
example : C14.exD.predecessors id (some [1]) {} 10 =
    ([], .raised (.lib .infiniteLanguageException)) := by decide

/-- C08's NFAs are `Valid`; a quotient of a union evaluates without error. -/
example : C08.exA.Valid ∧ C08.exB.Valid := ⟨C08.exA_valid, C08.exB_valid⟩
example : (match NFA.union C08.exA C08.exB with
           | .ok U => (NFA.leftQuotient U C08.exB).toOption.isSome
           | .error _ => false) = true := by decide

/-- C02's aⁿbⁿ DPDA (valid) and C03's two-tape MNTM (valid) on accepted and rejected inputs. -/
example : C02.exD.validate = .ok () ∧
    PDA.acceptsInput (C02.exD.readStepwise (fun _ => true) 10 [0, 0, 1, 1]) = some (.ok true) ∧
    PDA.acceptsInput (C02.exD.readStepwise (fun _ => false) 10 [0, 1, 1, 7]) = some (.ok false) := by
  decide
example : C03.exM.validate = .ok () ∧ C03.exM.verdict [0, 0] 4 = .ok .accept ∧
    C03.exM.verdict [9] 4 = .ok .reject := by decide

end AV.Props.C19
