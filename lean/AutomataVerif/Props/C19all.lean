/-
Props/C19all.lean — aggregator: the module the C19 check builds and audits. It only imports the
files that hold C19's property theorems (C19, C19b, C19c, C19d, C19e, C19f); it states nothing.
-/
import AutomataVerif.Props.C19b
import AutomataVerif.Props.C19d
import AutomataVerif.Props.C19e
import AutomataVerif.Props.C19f
import AutomataVerif.Props.C19g
import AutomataVerif.Props.C19h
