import AutomataVerif.Model.NFAEq
