/-
Props/C09.lean — NFA equality decides language equivalence exactly.

English statement (properties.jsonl C09): "For any two NFAs over the same alphabet, == is
true exactly when they accept the same language and != exactly when they do not, whatever
their sizes, state names, nondeterminism or empty-string transitions.  The answer is
symmetric and is the same as comparing their determinisations."

Model: `NFA.eqImpl` / `eqOp` / `neOp` (Model/NFAEq.lean) = the extended Hopcroft–Karp loop
of `NFA.__eq__` over subset states with a union–find (Model/HK.lean), the `==` / `!=`
expressions with Python's `NotImplemented` protocol.  The union–find's choice of class
representative (networkx: heavier root, ties by set-iteration order) is the parameter
`pick`; every theorem below holds for *every* `pick`.

"Valid" is `validate = .ok ()` (what `NFA.validate` checks); "same alphabet" is
`sameSyms A.syms B.syms = true` (the two symbol lists have the same members); the language
of an NFA is `NFA.accepts` (proved equal to Mathlib's `εNFA.accepts` in Props/C01.lean),
and language equality quantifies over *all* words (symbols outside the alphabet included).
-/
import Mathlib.Data.List.Sublists
import AutomataVerif.Proofs.NFAEq
import AutomataVerif.Props.C01

namespace AV.Props.C09
open AV AV.NFA AV.Props.C01

set_option linter.unusedSectionVars false

variable {σ σ₁ σ₂ α : Type} [DecidableEq σ] [DecidableEq σ₁] [DecidableEq σ₂] [DecidableEq α]

/-- A union–find representative choice for the subset states of a pair of operands. -/
abbrev Pick (σ₁ σ₂ : Type) :=
  HKG.UF (List σ₁ ⊕ List σ₂) → List σ₁ ⊕ List σ₂ → List σ₁ ⊕ List σ₂ → Bool

/-- The finite universe of subset states: canonical sublists of either state list. -/
def univ (A : AV.NFA σ₁ α) (B : AV.NFA σ₂ α) : List (List σ₁ ⊕ List σ₂) :=
  A.states.sublists.map .inl ++ B.states.sublists.map .inr

theorem subsetCanon_mem_univ_inl (A : AV.NFA σ₁ α) (B : AV.NFA σ₂ α) (S : List σ₁) :
    (.inl (A.subsetCanon S) : List σ₁ ⊕ List σ₂) ∈ univ A B := by
  unfold univ
  refine List.mem_append_left _ (List.mem_map.mpr ⟨A.subsetCanon S, ?_, rfl⟩)
  rw [List.mem_sublists]
  exact List.filter_sublist

theorem subsetCanon_mem_univ_inr (A : AV.NFA σ₁ α) (B : AV.NFA σ₂ α) (S : List σ₂) :
    (.inr (B.subsetCanon S) : List σ₁ ⊕ List σ₂) ∈ univ A B := by
  unfold univ
  refine List.mem_append_right _ (List.mem_map.mpr ⟨B.subsetCanon S, ?_, rfl⟩)
  rw [List.mem_sublists]
  exact List.filter_sublist

theorem univ_closed (A : AV.NFA σ₁ α) (B : AV.NFA σ₂ α) (x : List σ₁ ⊕ List σ₂) (a : α) :
    eqStep A B x a ∈ univ A B := by
  cases x with
  | inl S => exact subsetCanon_mem_univ_inl A B _
  | inr S => exact subsetCanon_mem_univ_inr A B _

theorem univ_length (A : AV.NFA σ₁ α) (B : AV.NFA σ₂ α) :
    (univ A B).length + 2 = eqFuel A B := by
  unfold univ eqFuel
  simp [List.length_sublists]

/-- Language equivalence of the two start subset states (over the common alphabet) is
equality of the two NFA languages on all words. -/
theorem langEq_iff (A : AV.NFA σ₁ α) (B : AV.NFA σ₂ α) (hA : A.validate = .ok ())
    (hB : B.validate = .ok ()) (hs : sameSyms A.syms B.syms = true) :
    HKG.LangEq (eqStep A B) (eqIsFinal A B) A.syms
        (.inl (A.subsetCanon (A.closure A.init))) (.inr (B.subsetCanon (B.closure B.init))) ↔
      ∀ w, A.accepts w = B.accepts w := by
  have wfA := (NFA.validate_eq_ok A).mp hA
  have wfB := (NFA.validate_eq_ok B).mp hB
  have hsy := (sameSyms_iff A.syms B.syms).mp hs
  unfold HKG.LangEq
  simp only [eqIsFinal_runW_inl A B wfA, eqIsFinal_runW_inr A B wfB]
  constructor
  · intro h w
    by_cases hw : ∀ a ∈ w, a ∈ A.syms
    · exact h w hw
    · have hex : ∃ a ∈ w, a ∉ A.syms := by
        by_contra hne
        exact hw (fun a ha => by
          by_contra hna
          exact hne ⟨a, ha, hna⟩)
      obtain ⟨a, ha, hna⟩ := hex
      rw [C01_nfa_foreign_symbol_rejected A hA w ⟨a, ha, hna⟩,
        C01_nfa_foreign_symbol_rejected B hB w ⟨a, ha, fun hb => hna ((hsy a).mpr hb)⟩]
  · intro h w _
    exact h w

/-- `A.__eq__(B)` on valid operands over a common alphabet never runs out of fuel, never
returns `NotImplemented`, and its verdict is `True` exactly when the languages are equal —
for every representative choice of the union–find. -/
theorem eqImpl_spec (pick : Pick σ₁ σ₂) (A : AV.NFA σ₁ α) (B : AV.NFA σ₂ α)
    (hA : A.validate = .ok ()) (hB : B.validate = .ok ()) (hs : sameSyms A.syms B.syms = true) :
    ∃ v : Bool, eqImpl pick A B = .val v ∧ (v = true ↔ ∀ w, A.accepts w = B.accepts w) := by
  unfold eqImpl
  simp only [hs, if_true]
  have hne := HKG.run_ne_none (eqStep A B) (eqIsFinal A B) A.syms pick (univ A B)
    (fun x _ a _ => univ_closed A B x a)
    (.inl (A.subsetCanon (A.closure A.init))) (.inr (B.subsetCanon (B.closure B.init)))
    (subsetCanon_mem_univ_inl A B _) (subsetCanon_mem_univ_inr A B _) (eqFuel A B) (by rw [univ_length])
  cases hr : HKG.run (eqStep A B) (eqIsFinal A B) A.syms pick (eqFuel A B)
      (.inl (A.subsetCanon (A.closure A.init))) (.inr (B.subsetCanon (B.closure B.init))) with
  | none => exact absurd hr hne
  | some v =>
    refine ⟨v, rfl, ?_⟩
    rw [HKG.run_iff _ _ _ _ _ _ _ v hr]
    exact langEq_iff A B hA hB hs

theorem sameSyms_comm (xs ys : List α) : sameSyms xs ys = sameSyms ys xs := by
  unfold sameSyms; exact Bool.and_comm _ _

/-- **C09 (==, !=).**  For valid NFAs over a common alphabet the expression `A == B`
evaluates to a Boolean `v` (no `NotImplemented` fallback, no fuel exhaustion), `A != B`
evaluates to `!v`, and `v` is `True` exactly when `A` and `B` accept the same words —
whatever representatives the union–find picks. -/
theorem C09_eq_iff (pick₁ : Pick σ₁ σ₂) (pick₂ : Pick σ₂ σ₁) (A : AV.NFA σ₁ α) (B : AV.NFA σ₂ α)
    (hA : A.validate = .ok ()) (hB : B.validate = .ok ()) (hs : sameSyms A.syms B.syms = true) :
    ∃ v : Bool, eqOp pick₁ pick₂ A B = some v ∧ neOp pick₁ pick₂ A B = some (!v) ∧
      (v = true ↔ ∀ w, A.accepts w = B.accepts w) := by
  obtain ⟨v, hv, hiff⟩ := eqImpl_spec pick₁ A B hA hB hs
  exact ⟨v, by simp [eqOp, hv], by simp [neOp, hv], hiff⟩

/-- The same, phrased with Mathlib's textbook ε-NFA semantics: `==` is `True` exactly when
the two `εNFA.accepts` languages are equal. -/
theorem C09_eq_iff_language (pick₁ : Pick σ₁ σ₂) (pick₂ : Pick σ₂ σ₁) (A : AV.NFA σ₁ α)
    (B : AV.NFA σ₂ α) (hA : A.validate = .ok ()) (hB : B.validate = .ok ())
    (hs : sameSyms A.syms B.syms = true) :
    eqOp pick₁ pick₂ A B = some true ↔ (nfaTextbook A).accepts = (nfaTextbook B).accepts := by
  obtain ⟨v, hv, _, hiff⟩ := C09_eq_iff pick₁ pick₂ A B hA hB hs
  have key : (∀ w, A.accepts w = B.accepts w) ↔ (nfaTextbook A).accepts = (nfaTextbook B).accepts := by
    constructor
    · intro h
      ext w
      rw [← C01_nfa_accepts_iff A hA w, ← C01_nfa_accepts_iff B hB w, h w]
    · intro h w
      have : A.accepts w = true ↔ B.accepts w = true := by
        rw [C01_nfa_accepts_iff A hA w, C01_nfa_accepts_iff B hB w, h]
      cases ha : A.accepts w <;> cases hb : B.accepts w <;> simp_all
  rw [hv, ← key, ← hiff]
  simp

/-- **C09 (symmetry).**  `A == B` and `B == A` evaluate to the same Boolean (for any
representative choices on either side). -/
theorem C09_symm (pick₁ pick₃ : Pick σ₁ σ₂) (pick₂ pick₄ : Pick σ₂ σ₁) (A : AV.NFA σ₁ α)
    (B : AV.NFA σ₂ α) (hA : A.validate = .ok ()) (hB : B.validate = .ok ())
    (hs : sameSyms A.syms B.syms = true) :
    eqOp pick₁ pick₂ A B = eqOp pick₄ pick₃ B A ∧ neOp pick₁ pick₂ A B = neOp pick₄ pick₃ B A := by
  obtain ⟨v, hv, hn, hiff⟩ := C09_eq_iff pick₁ pick₂ A B hA hB hs
  obtain ⟨v', hv', hn', hiff'⟩ := C09_eq_iff pick₄ pick₃ B A hB hA (by rw [sameSyms_comm]; exact hs)
  have : v = v' := by
    have h : v = true ↔ v' = true := by
      rw [hiff, hiff']
      exact ⟨fun h w => (h w).symm, fun h w => (h w).symm⟩
    cases v <;> cases v' <;> simp_all
  subst this
  exact ⟨hv.trans hv'.symm, hn.trans hn'.symm⟩

/-- The verdict does not depend on the union–find's representative choices. -/
theorem C09_pick_irrelevant (pick₁ pick₁' : Pick σ₁ σ₂) (pick₂ pick₂' : Pick σ₂ σ₁)
    (A : AV.NFA σ₁ α) (B : AV.NFA σ₂ α) (hA : A.validate = .ok ()) (hB : B.validate = .ok ())
    (hs : sameSyms A.syms B.syms = true) :
    eqOp pick₁ pick₂ A B = eqOp pick₁' pick₂' A B := by
  obtain ⟨v, hv, _, hiff⟩ := C09_eq_iff pick₁ pick₂ A B hA hB hs
  obtain ⟨v', hv', _, hiff'⟩ := C09_eq_iff pick₁' pick₂' A B hA hB hs
  have : v = v' := by
    have h : v = true ↔ v' = true := by rw [hiff, hiff']
    cases v <;> cases v' <;> simp_all
  rw [hv, hv', this]

/-- **C09 (determinisations).**  `A == B` is `True` exactly when the subset-construction
DFAs (Mathlib's `εNFA.toNFA.toDFA`) of the two textbook ε-NFAs accept the same language. -/
theorem C09_eq_det (pick₁ : Pick σ₁ σ₂) (pick₂ : Pick σ₂ σ₁) (A : AV.NFA σ₁ α) (B : AV.NFA σ₂ α)
    (hA : A.validate = .ok ()) (hB : B.validate = .ok ()) (hs : sameSyms A.syms B.syms = true) :
    eqOp pick₁ pick₂ A B = some true ↔
      (nfaTextbook A).toNFA.toDFA.accepts = (nfaTextbook B).toNFA.toDFA.accepts := by
  rw [C09_eq_iff_language pick₁ pick₂ A B hA hB hs, _root_.NFA.toDFA_correct,
    _root_.NFA.toDFA_correct, εNFA.toNFA_correct, εNFA.toNFA_correct]

/- The "same as comparing their determinisations" clause in terms of the library's OWN
functions (`A == B` equals `DFA.from_nfa(A) == DFA.from_nfa(B)`, for the default options and
for every other option combination) needs the models of `DFA.from_nfa` (C07) and
`DFA.__eq__` (C06); it is proved in Props/C09b.lean: `C09_eq_det_lib`,
`C09_eq_det_lib_renumbered`, `C09_eq_det_lib_default`, `C09_eq_det_lib_default_renumbered`. -/

/-- Outside the property's domain (different alphabets): `__eq__` returns `NotImplemented`
both ways, so `==` is `False` and `!=` is `True` (identity comparison of distinct objects). -/
theorem C09_different_alphabets (pick₁ : Pick σ₁ σ₂) (pick₂ : Pick σ₂ σ₁) (A : AV.NFA σ₁ α)
    (B : AV.NFA σ₂ α) (hs : sameSyms A.syms B.syms = false) :
    eqImpl pick₁ A B = .notImplemented ∧ eqOp pick₁ pick₂ A B = some false ∧
      neOp pick₁ pick₂ A B = some true := by
  have hs' : sameSyms B.syms A.syms = false := by rw [sameSyms_comm]; exact hs
  simp [eqOp, neOp, eqImpl, hs, hs']

/-- The finality test of `__eq__` (which re-closes every member of the subset state) equals
the plain test "some member is final" on every subset state the loop can build: those are
ε-closed subsets of the state set.  (Hence replacing the closure test by plain membership
changes nothing — DESIGN.md Appendix D, mutant m20, is an equivalent mutant.) -/
theorem C09_final_test_reclosing_redundant (n : AV.NFA σ α) (hv : n.validate = .ok ()) (w : List α) :
    n.setFinal (n.subsetCanon (n.runFrom (n.closure n.init) w)) =
      n.anyFinal (n.runFrom (n.closure n.init) w) := by
  have wf := (NFA.validate_eq_ok n).mp hv
  exact setFinal_subsetCanon (goodSet_runFrom wf (goodSet_start wf) w)

/-! ## non-vacuity -/

/-- `a*` with an ε-cycle and a state without a row … -/
def exA : AV.NFA Nat Nat :=
  { states := [0, 1, 2], syms := [0],
    trans := [(0, [(none, [1])]), (1, [(none, [0]), (some 0, [0])])],
    init := 0, finals := [1] }

/-- … and `a*` as a one-state loop with other state names and an unreachable state. -/
def exB : AV.NFA Nat Nat :=
  { states := [7, 9], syms := [0], trans := [(7, [(some 0, [7])]), (9, [(some 0, [7])])],
    init := 7, finals := [7] }

/-- `a⁺`. -/
def exC : AV.NFA Nat Nat :=
  { states := [0, 1], syms := [0], trans := [(0, [(some 0, [1])]), (1, [(some 0, [1])])],
    init := 0, finals := [1] }

def exPick : Pick Nat Nat := HKG.nxPick fun _ _ => true

example : exA.validate = .ok () ∧ exB.validate = .ok () ∧ exC.validate = .ok () := by decide
example : sameSyms exA.syms exB.syms = true := by decide
example : eqOp exPick exPick exA exB = some true ∧ neOp exPick exPick exA exB = some false := by
  decide
example : eqOp exPick exPick exA exC = some false ∧ eqOp exPick exPick exC exA = some false := by
  decide
example : exA.accepts [] = true ∧ exC.accepts [] = false := by decide

end AV.Props.C09
