/-
Props/C01.lean — C01: finite-automaton acceptance follows the formal definition.

English statement (properties.jsonl): for every valid DFA (complete or partial) and NFA
(with or without empty-string transitions) and every input string, the accept/reject
verdict, the membership operator and the returned final configuration equal those of the
textbook run of the automaton's transition table from its initial state; a string that
uses a symbol outside the alphabet or reaches a missing transition is rejected, never a
crash.  Step-by-step reading yields the initial configuration plus exactly one
configuration per consumed symbol, each obtained from the previous one by the transition
relation (closed under empty-string moves for NFAs), and rejection is signalled only by
the library's rejection exception.

"Textbook run" is Mathlib's `DFA.eval`/`DFA.accepts` (for the table completed with a sink)
and Mathlib's `εNFA.eval`/`εNFA.accepts` (whose `mem_accepts_iff_exists_path` is the path
formulation).  "Valid" is `validate = .ok ()`, the model of the constructor's check.
-/
import AutomataVerif.Proofs.Read
import Mathlib.Computability.EpsilonNFA

namespace AV.Props.C01
open AV

variable {σ α : Type} [DecidableEq σ] [DecidableEq α]

/-! ## DFA -/

/-- The textbook automaton of a DFA definition: states `Option σ` (`none` = the implicit
sink of a partial table), transition = table lookup, start = initial state, accepting =
the declared final states. -/
def dfaTextbook (d : AV.DFA σ α) : _root_.DFA α (Option σ) where
  step := fun s a => s.bind fun q => ((alookup q d.trans).bind fun r => alookup a r)
  start := some d.init
  accept := {s | ∃ q, s = some q ∧ q ∈ d.finals}

theorem dfaTextbook_step (d : AV.DFA σ α) (s : Option σ) (a : α) :
    (dfaTextbook d).step s a = d.step? s a := by
  cases s with
  | none => rfl
  | some q =>
    simp only [dfaTextbook, Option.bind_some, DFA.step?, DFA.row, DFA.row?]
    cases alookup q d.trans <;> simp

theorem dfaTextbook_evalFrom (d : AV.DFA σ α) (s : Option σ) (w : List α) :
    (dfaTextbook d).evalFrom s w = d.run s w := by
  induction w generalizing s with
  | nil => rfl
  | cons a w ih =>
    rw [_root_.DFA.evalFrom_cons, ih, dfaTextbook_step]; rfl

/-- Step-by-step reading of a valid DFA yields the initial configuration followed by
exactly one configuration per consumed symbol, each the transition function applied to the
previous one; it ends with `RejectionException` exactly when the word is not accepted and
with no other exception (no `KeyError`). -/
theorem C01_dfa_stepwise (d : AV.DFA σ α) (hv : d.validate = .ok ()) (w : List α) :
    d.readStepwise w =
      (List.scanl d.step? (some d.init) w, rejectUnless (d.accepts w)) := by
  have wf := (DFA.validate_eq_ok d).mp hv
  unfold DFA.readStepwise
  simp only [DFA.readAux_eq wf false w (some d.init) wf.initOk, Bool.false_or, DFA.accepts]
  cases w <;> simp [List.scanl]

/-- **`read_input_stepwise(w, ignore_rejection=True)`**: the same configurations — the
initial one plus exactly one per symbol, each the transition function applied to the previous
one — and NO exception at the end, whether or not the word is accepted (and no `KeyError`). -/
theorem C01_dfa_stepwise_ignore (d : AV.DFA σ α) (hv : d.validate = .ok ()) (w : List α) :
    d.readStepwise w true = (List.scanl d.step? (some d.init) w, none) := by
  have wf := (DFA.validate_eq_ok d).mp hv
  unfold DFA.readStepwise
  simp only [DFA.readAux_eq wf true w (some d.init) wf.initOk, Bool.true_or, rejectUnless]
  cases w <;> simp [List.scanl]

/-- The flag only affects the terminating exception, never the yielded configurations. -/
theorem C01_dfa_stepwise_flag_irrelevant (d : AV.DFA σ α) (hv : d.validate = .ok ()) (w : List α) :
    (d.readStepwise w true).1 = (d.readStepwise w false).1 ∧
    (d.readStepwise w true).1.length = w.length + 1 := by
  rw [C01_dfa_stepwise_ignore d hv w]
  have h := C01_dfa_stepwise d hv w
  have h' : d.readStepwise w false = d.readStepwise w := rfl
  rw [h', h]
  simp

/-- The number of yielded configurations is `|w| + 1`. -/
theorem C01_dfa_stepwise_length (d : AV.DFA σ α) (hv : d.validate = .ok ()) (w : List α) :
    (d.readStepwise w).1.length = w.length + 1 := by
  rw [C01_dfa_stepwise d hv w]; simp

/-- The model's verdict is Mathlib's `DFA.accepts` of the textbook automaton. -/
theorem C01_dfa_accepts_iff (d : AV.DFA σ α) (w : List α) :
    d.accepts w = true ↔ w ∈ (dfaTextbook d).accepts := by
  rw [_root_.DFA.mem_accepts, _root_.DFA.eval, dfaTextbook_evalFrom]
  show d.isFinal (d.run (some d.init) w) = true ↔ d.run (some d.init) w ∈ (dfaTextbook d).accept
  simp only [dfaTextbook]
  cases d.run (some d.init) w with
  | none => simp [DFA.isFinal]
  | some q => simp [DFA.isFinal]

omit [DecidableEq σ] [DecidableEq α] in
/-- The `k`-th element of a `scanl` is the fold over the first `k` elements. -/
theorem getElem?_scanl {β γ : Type} (f : β → γ → β) (l : List γ) (b : β) (k : Nat) :
    (List.scanl f b l)[k]? = if k ≤ l.length then some ((l.take k).foldl f b) else none := by
  induction l generalizing b k with
  | nil => cases k <;> simp
  | cons a l ih =>
    cases k with
    | zero => simp [List.scanl_cons]
    | succ k => simp [List.scanl_cons, ih]

/-- **The `k`-th yielded configuration is the textbook run of the first `k` symbols**
(Mathlib's `DFA.eval` on the prefix), for every `k ≤ |w|`; there is no `k`-th configuration
beyond that. -/
theorem C01_dfa_trace_nth (d : AV.DFA σ α) (hv : d.validate = .ok ()) (w : List α) (k : Nat) :
    (d.readStepwise w).1[k]? =
      if k ≤ w.length then some ((dfaTextbook d).eval (w.take k)) else none := by
  rw [C01_dfa_stepwise d hv w]
  simp only [getElem?_scanl, _root_.DFA.eval, dfaTextbook_evalFrom]
  rfl

/-- `read_input` returns the final configuration of the textbook run when the word is
accepted and raises `RejectionException` (nothing else) otherwise. -/
theorem C01_dfa_read_input (d : AV.DFA σ α) (hv : d.validate = .ok ()) (w : List α) :
    d.readInput w =
      if d.accepts w then .ok ((dfaTextbook d).eval w) else .error (.lib .rejectionException) := by
  unfold DFA.readInput
  simp only [C01_dfa_stepwise d hv w, DFA.scanl_getLast, Option.getD_some, _root_.DFA.eval,
    dfaTextbook_evalFrom]
  cases h : d.accepts w <;> simp [rejectUnless]
  rfl

/-- `accepts_input` and the `in` operator return the textbook verdict; a non-`str` item is
never a member; none of them can raise on a valid DFA. -/
theorem C01_dfa_verdicts (d : AV.DFA σ α) (hv : d.validate = .ok ()) (w : List α) :
    d.acceptsInput w = .ok (d.accepts w) ∧ d.contains (some w) = .ok (d.accepts w) ∧
    d.contains none = .ok false := by
  have h : d.acceptsInput w = .ok (d.accepts w) := by
    unfold DFA.acceptsInput
    rw [C01_dfa_read_input d hv w]
    cases d.accepts w <;> simp
  exact ⟨h, h, rfl⟩

/-- A word that uses a symbol outside the alphabet is rejected (and by the theorems above
this happens through `RejectionException`, never a crash). -/
theorem C01_dfa_foreign_symbol_rejected (d : AV.DFA σ α) (hv : d.validate = .ok ()) (w : List α)
    (hw : ∃ a ∈ w, a ∉ d.syms) : d.accepts w = false := by
  have wf := (DFA.validate_eq_ok d).mp hv
  obtain ⟨a, ha, hna⟩ := hw
  obtain ⟨u, v, rfl⟩ := List.append_of_mem ha
  unfold DFA.accepts
  rw [DFA.run_append, DFA.run_cons, DFA.step?_foreign wf _ hna, DFA.run_none]
  rfl

/-- A run that reaches a missing transition is rejected. -/
theorem C01_dfa_missing_transition_rejected (d : AV.DFA σ α) (u v : List α) (a : α)
    (h : d.step? (d.run (some d.init) u) a = none) : d.accepts (u ++ a :: v) = false := by
  unfold DFA.accepts
  rw [DFA.run_append, DFA.run_cons, h, DFA.run_none]
  rfl

/-- Rejection is a library exception below `AutomatonException` in the class hierarchy
regenerated from the source on every run. -/
theorem C01_rejection_is_library_exception :
    Gen.Err.isSubclass .rejectionException .automatonException = true := by decide

/-! ## NFA -/

/-- The textbook ε-NFA of an NFA definition (Mathlib's `εNFA`; `none` is the empty string). -/
def nfaTextbook (n : AV.NFA σ α) : εNFA α σ where
  step := fun q a => {p | p ∈ n.targets q a}
  start := {n.init}
  accept := {q | q ∈ n.finals}

theorem reach_iff_εClosure (n : AV.NFA σ α) (q p : σ) :
    Reach n.epsSucc q p ↔ p ∈ (nfaTextbook n).εClosure {q} := by
  constructor
  · intro h
    induction h with
    | refl => exact εNFA.εClosure.base _ rfl
    | tail _ hc ih => exact εNFA.εClosure.step _ _ hc ih
  · intro h
    generalize hS : ({q} : Set σ) = S at h
    induction h with
    | base s hs => subst hS; cases hs; exact Reach.refl _
    | step s t hst _ ih => exact Reach.tail ih hst

/-- The computed λ-closure of a state is Mathlib's `εClosure`: the state itself plus
everything reachable by empty-string moves (ε-cycles included). -/
theorem C01_nfa_closure (n : AV.NFA σ α) (q p : σ) (hq : q ∈ n.states) :
    p ∈ n.closure q ↔ p ∈ (nfaTextbook n).εClosure {q} := by
  rw [NFA.mem_closure_iff n (NFA.states_sub_nodes n hq), reach_iff_εClosure]

theorem nextStates_eq_stepSet (n : AV.NFA σ α) (wf : n.WF) (cur : List σ) (a : α) :
    {p | p ∈ n.nextStates cur a} = (nfaTextbook n).stepSet {q | q ∈ cur} a := by
  ext p
  simp only [Set.mem_ofPred_eq, NFA.mem_nextStates, εNFA.mem_stepSet_iff]
  constructor
  · rintro ⟨q, hq, t, ht, hp⟩
    refine ⟨q, hq, ?_⟩
    rw [εNFA.mem_εClosure_iff_exists]
    exact ⟨t, ht, (C01_nfa_closure n t p (NFA.targets_mem_states wf ht)).mp hp⟩
  · rintro ⟨q, hq, hp⟩
    rw [εNFA.mem_εClosure_iff_exists] at hp
    obtain ⟨t, ht, hp⟩ := hp
    exact ⟨q, hq, t, ht, (C01_nfa_closure n t p (NFA.targets_mem_states wf ht)).mpr hp⟩

theorem runFrom_eq_evalFrom (n : AV.NFA σ α) (wf : n.WF) (w : List α) (cur : List σ) (S : Set σ)
    (h : {p | p ∈ cur} = (nfaTextbook n).εClosure S) :
    {p | p ∈ n.runFrom cur w} = (nfaTextbook n).evalFrom S w := by
  induction w using List.reverseRecOn generalizing cur S with
  | nil => simpa [NFA.runFrom] using h
  | append_singleton w a ih =>
    rw [εNFA.evalFrom_append_singleton, ← ih cur S h]
    simp only [NFA.runFrom, List.foldl_append, List.foldl_cons, List.foldl_nil]
    exact nextStates_eq_stepSet n wf _ a

/-- Configuration `k` of the stepwise reader (as a set) is Mathlib's `εNFA.eval` of the
first `k` symbols: the ε-closed set of states reachable on that prefix. -/
theorem C01_nfa_stepwise (n : AV.NFA σ α) (hv : n.validate = .ok ()) (w : List α) :
    n.readStepwise w =
      (List.scanl n.nextStates (n.closure n.init) w, rejectUnless (n.accepts w)) ∧
    ∀ u, {p | p ∈ n.runFrom (n.closure n.init) u} = (nfaTextbook n).eval u := by
  have wf := (NFA.validate_eq_ok n).mp hv
  constructor
  · unfold NFA.readStepwise
    simp only [NFA.closureE, wf.initOk, if_true, NFA.readAux_eq wf, NFA.accepts]
    cases w <;> simp [List.scanl]
  · intro u
    refine runFrom_eq_evalFrom n wf u _ _ ?_
    ext p
    exact C01_nfa_closure n n.init p wf.initOk

/-- **The `k`-th yielded configuration of the NFA reader, as a set, is Mathlib's `εNFA.eval`
of the first `k` symbols** — the ε-closed set of states reachable on that prefix — for every
`k ≤ |w|`; there is no `k`-th configuration beyond that. -/
theorem C01_nfa_trace_nth (n : AV.NFA σ α) (hv : n.validate = .ok ()) (w : List α) (k : Nat) :
    (k ≤ w.length → ∃ c, (n.readStepwise w).1[k]? = some c ∧
      {p | p ∈ c} = (nfaTextbook n).eval (w.take k)) ∧
    (w.length < k → (n.readStepwise w).1[k]? = none) ∧
    (∀ c, (n.readStepwise w).1[k]? = some c → {p | p ∈ c} = (nfaTextbook n).eval (w.take k)) := by
  have h := C01_nfa_stepwise n hv w
  have hk : (n.readStepwise w).1[k]? =
      if k ≤ w.length then some (n.runFrom (n.closure n.init) (w.take k)) else none := by
    rw [h.1]; simp only [getElem?_scanl]; rfl
  refine ⟨fun hle => ?_, fun hlt => ?_, fun c hc => ?_⟩
  · exact ⟨_, by rw [hk, if_pos hle], h.2 (w.take k)⟩
  · rw [hk, if_neg (by omega)]
  · rw [hk] at hc
    split at hc
    · cases hc; exact h.2 (w.take k)
    · cases hc

theorem C01_nfa_stepwise_length (n : AV.NFA σ α) (hv : n.validate = .ok ()) (w : List α) :
    (n.readStepwise w).1.length = w.length + 1 := by
  rw [(C01_nfa_stepwise n hv w).1]; simp

/-- The model's verdict is Mathlib's `εNFA.accepts` of the textbook ε-NFA. -/
theorem C01_nfa_accepts_iff (n : AV.NFA σ α) (hv : n.validate = .ok ()) (w : List α) :
    n.accepts w = true ↔ w ∈ (nfaTextbook n).accepts := by
  have h := (C01_nfa_stepwise n hv w).2 w
  unfold NFA.accepts NFA.anyFinal
  rw [List.any_eq_true]
  show _ ↔ ∃ S ∈ (nfaTextbook n).accept, S ∈ (nfaTextbook n).eval w
  rw [← h]
  simp only [nfaTextbook, Set.mem_ofPred_eq, decide_eq_true_eq]
  constructor
  · rintro ⟨q, hq, hf⟩; exact ⟨q, hf, hq⟩
  · rintro ⟨q, hf, hq⟩; exact ⟨q, hq, hf⟩

/-- `read_input` returns the last configuration when accepted and raises
`RejectionException` (nothing else — in particular no `KeyError`) otherwise;
`accepts_input` / `in` return the verdict; non-`str` items are not members. -/
theorem C01_nfa_verdicts (n : AV.NFA σ α) (hv : n.validate = .ok ()) (w : List α) :
    n.readInput w = (if n.accepts w then .ok (n.runFrom (n.closure n.init) w)
                     else .error (.lib .rejectionException)) ∧
    n.acceptsInput w = .ok (n.accepts w) ∧ n.contains (some w) = .ok (n.accepts w) ∧
    n.contains none = .ok false := by
  have h1 : n.readInput w = (if n.accepts w then .ok (n.runFrom (n.closure n.init) w)
                     else .error (.lib .rejectionException)) := by
    unfold NFA.readInput
    simp only [(C01_nfa_stepwise n hv w).1, NFA.scanl_getLast]
    cases h : n.accepts w <;> simp [rejectUnless]
  have h2 : n.acceptsInput w = .ok (n.accepts w) := by
    unfold NFA.acceptsInput
    rw [h1]
    cases n.accepts w <;> simp
  exact ⟨h1, h2, h2, rfl⟩

/-- A symbol outside the alphabet empties the configuration: the word is rejected. -/
theorem C01_nfa_foreign_symbol_rejected (n : AV.NFA σ α) (hv : n.validate = .ok ()) (w : List α)
    (hw : ∃ a ∈ w, a ∉ n.syms) : n.accepts w = false := by
  have wf := (NFA.validate_eq_ok n).mp hv
  obtain ⟨a, ha, hna⟩ := hw
  obtain ⟨u, v, rfl⟩ := List.append_of_mem ha
  have hnext : ∀ cur, n.nextStates cur a = [] := by
    intro cur
    rw [List.eq_nil_iff_forall_not_mem]
    intro p hp
    obtain ⟨q, _, t, ht, _⟩ := (NFA.mem_nextStates n cur a p).mp hp
    unfold NFA.targets NFA.row at ht
    cases hr : n.row? q with
    | none => simp [hr] at ht
    | some r =>
      simp only [hr, Option.getD_some] at ht
      cases hl : alookup (some a) r with
      | none => simp [hl] at ht
      | some ts =>
        exact hna (wf.symsOk (q, r) (alookup_some_mem hr) a (alookup_some_key_mem hl))
  have hempty : ∀ v : List α, n.runFrom [] v = [] := by
    intro v
    induction v with
    | nil => rfl
    | cons b v ih => simpa [NFA.runFrom, NFA.nextStates] using ih
  unfold NFA.accepts
  simp only [NFA.runFrom, List.foldl_append, List.foldl_cons, hnext]
  have := hempty v
  simp only [NFA.runFrom] at this
  rw [this]; rfl

/-! ## non-vacuity: the hypotheses are met by concrete non-trivial automata -/

/-- A partial DFA over {0,1} accepting words that end in 1 (state 1 has no 1-transition). -/
def exDFA : AV.DFA Nat Nat :=
  { states := [0, 1], syms := [0, 1], trans := [(0, [(0, 0), (1, 1)]), (1, [(0, 0)])],
    init := 0, finals := [1], allowPartial := true }

example : exDFA.validate = .ok () := by decide
example : exDFA.accepts [0, 1] = true ∧ exDFA.accepts [1, 1] = false ∧ exDFA.accepts [7] = false := by
  decide
-- ignore_rejection=True on a rejected word: all configurations (the sink included), no exception
example : exDFA.readStepwise [1, 1, 0] true = ([some 0, some 1, none, none], none) ∧
    exDFA.readStepwise [1, 1, 0] false = ([some 0, some 1, none, none], some (.lib .rejectionException)) := by
  decide

/-- An NFA with an ε-cycle 0 ⇄ 1 and a state without a row. -/
def exNFA : AV.NFA Nat Nat :=
  { states := [0, 1, 2], syms := [0],
    trans := [(0, [(none, [1]), (some 0, [2])]), (1, [(none, [0])])],
    init := 0, finals := [2] }

example : exNFA.validate = .ok () := by decide
example : exNFA.accepts [0] = true ∧ exNFA.accepts [] = false ∧ exNFA.accepts [0, 0] = false := by
  decide

end AV.Props.C01
