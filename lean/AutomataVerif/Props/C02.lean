import AutomataVerif.Model.PDA
