/-
Props/C02.lean — C02: pushdown acceptance: NPDA explores all runs; DPDA is deterministic
and agrees.

English statement (properties.jsonl): an NPDA accepts a string exactly when some sequence
of its moves consumes the whole string and ends in a configuration that is accepting under
the chosen acceptance mode (final state, empty stack, or either), the start configuration
included; its step-by-step reader yields, level by level, exactly the configurations
reachable in that many moves.  A DPDA definition is accepted by the constructor exactly
when no configuration can have two applicable moves, and on every string a DPDA gives the
same verdict as the NPDA with the same transition table.  Quantifier: all valid PDA
transition tables whose epsilon-moves cannot run forever, all three acceptance modes, all
strings; determinism validation for all tables, valid or not.

Reference semantics: `Spec/PDA.lean` — `Step Δ c c'` (one move of the table's move relation
`Δ`), `StepN Δ k c c'` (exactly `k` moves), `Accepting mode F c`.  The model of the code is
`Model/PDA.lean`.  Both readers may run forever on λ-cycles; the model takes `fuel` (loop
iterations) and answers `Outcome.outOfFuel` when it runs out.  "The reader accepts" is
`∃ fuel, outcome = returned`, "rejects" is `∃ fuel, outcome = raised RejectionException`;
decided runs do not depend on the fuel (`C02_npda_fuel_monotone`, `C02_dpda_fuel_monotone`).
-/
import AutomataVerif.Proofs.PdaNpda

namespace AV.Props.C02
open AV AV.PDA

variable {σ α γ τ : Type} [DecidableEq σ] [DecidableEq α] [DecidableEq γ]

/-! ## Acceptance test and stack discipline -/

/-- `_has_accepted` is the specification's `Accepting` for each of the three acceptance-mode
literals.  The literals and the tests attached to them are read from the source on every
run (`Generated/Pda.lean`), so an edit of `_has_accepted` breaks this theorem. -/
theorem C02_has_accepted_iff (M : Table σ α γ τ) (m : AccMode) (hm : M.mode = m.literal)
    (c : Config σ α γ) : M.hasAccepted c = true ↔ Accepting m M.finals c :=
  hasAccepted_iff M m hm c

/-- The acceptance modes that validate are exactly the three literals. -/
theorem C02_valid_modes (s : String) : s ∈ Gen.Pda.validModes ↔ ∃ m : AccMode, s = m.literal := by
  constructor
  · intro h
    simp only [Gen.Pda.validModes, List.mem_cons, List.not_mem_nil, or_false] at h
    rcases h with h | h | h
    · exact ⟨.finalState, h⟩
    · exact ⟨.emptyStack, h⟩
    · exact ⟨.both, h⟩
  · rintro ⟨m, rfl⟩; cases m <;> simp [Gen.Pda.validModes, AccMode.literal]

/-- `_replace_stack_top` on a stack with top `X`: the top is replaced by the pushed string and
the FIRST pushed symbol becomes the new top (an empty push pops). -/
theorem C02_replace_stack_top (β push : List γ) (X : γ) :
    replaceStackTop (β ++ [X]) push = β ++ push.reverse ∧
    (∀ Y rest, push = Y :: rest → Stack.top (replaceStackTop (β ++ [X]) push) = some Y) ∧
    (push = [] → replaceStackTop (β ++ [X]) push = β) := by
  refine ⟨replaceStackTop_concat β push X, ?_, ?_⟩
  · rintro Y rest rfl
    rw [replaceStackTop_concat, List.reverse_cons, ← List.append_assoc, Stack.top_concat]
  · rintro rfl; simp

/-! ## NPDA -/

/-- `_get_next_configurations(c)` is exactly the set of configurations one move away from `c`
(an empty stack has no move). -/
theorem C02_npda_next_iff (M : NPDA σ α γ) (c c' : Config σ α γ) :
    c' ∈ M.nextConfigs c ↔ Step M.moves c c' :=
  M.mem_nextConfigs c c'

/-- The step-by-step reader of an NPDA, for every table, mode, word and fuel.
With `ys` the yielded sets, `Lv k` the configurations reachable from the start configuration
in exactly `k` moves and `Acc` the accepting configurations:
(a) the `k`-th yielded set is exactly `Lv k`;
(b) the start level is always yielded, and at most `fuel` further levels;
(c) the reader goes past a level only if that level is non-empty and contains no accepting
    configuration — so it stops at the FIRST level that contains an accepting configuration;
(d) it returns (accepts) iff the last yielded level contains an accepting configuration;
(e) it raises `RejectionException` iff the last yielded level is empty;
(f) it runs out of fuel iff it has yielded `fuel + 1` levels;
(g) it raises nothing but `RejectionException`. -/
theorem C02_npda_stepwise (M : NPDA σ α γ) (m : AccMode) (hm : M.mode = m.literal)
    (fuel : Nat) (w : List α) :
    let ys := (M.readStepwise fuel w).1
    let out := (M.readStepwise fuel w).2
    let Lv := fun (k : Nat) (c : Config σ α γ) => StepN M.moves k (M.start w) c
    let Acc := Accepting m M.finals
    (∀ k L, ys[k]? = some L → ∀ c, c ∈ L ↔ Lv k c) ∧
    (1 ≤ ys.length ∧ ys.length ≤ fuel + 1) ∧
    (∀ k, k + 1 < ys.length → (∃ c, Lv k c) ∧ ∀ c, Lv k c → ¬ Acc c) ∧
    (out = .returned ↔ ys.length ≤ fuel ∧ ∃ c, Lv (ys.length - 1) c ∧ Acc c) ∧
    (out = .raised (.lib .rejectionException) ↔ ys.length ≤ fuel ∧ ¬ ∃ c, Lv (ys.length - 1) c) ∧
    (out = .outOfFuel ↔ ys.length = fuel + 1) ∧
    (∀ e, out = .raised e → e = .lib .rejectionException) := by
  intro ys out Lv Acc
  have S := M.run_spec (M.start w) fuel 0 [M.start w] (by intro c; simp [stepN_zero_iff])
  have hys : ys = [M.start w] :: (M.run fuel [M.start w]).1 := rfl
  have hout : out = (M.run fuel [M.start w]).2 := rfl
  have hlen : ys.length = (M.run fuel [M.start w]).1.length + 1 := by rw [hys]; rfl
  have hacc : ∀ c, M.hasAccepted c = true ↔ Acc c := fun c => hasAccepted_iff M m hm c
  refine ⟨?_, ⟨by omega, by have := S.len; omega⟩, ?_, ?_, ?_, ?_, ?_⟩
  · intro k L hL c
    cases k with
    | zero =>
      rw [hys] at hL; simp at hL; subst hL
      simp [Lv, stepN_zero_iff]
    | succ k =>
      rw [hys, List.getElem?_cons_succ] at hL
      have := S.level k L hL c
      simpa [Lv, Nat.add_comm] using this
  · intro k hk
    have := S.before k (by omega)
    simp only [Nat.zero_add] at this
    refine ⟨this.1, fun c hc hA => ?_⟩
    have h1 := this.2 c hc
    rw [(hacc c).mpr hA] at h1; cases h1
  · rw [hout, S.returned, hlen]
    simp only [Nat.zero_add, Nat.add_sub_cancel, Nat.succ_le_iff, hacc]
    rfl
  · rw [hout, S.rejected, hlen]
    simp only [Nat.zero_add, Nat.add_sub_cancel, Nat.succ_le_iff]
    rfl
  · rw [hout, S.fuelOut, hlen]; omega
  · rw [hout]; exact S.onlyRej

end AV.Props.C02
