/-
Props/C02.lean — C02: pushdown acceptance: NPDA explores all runs; DPDA is deterministic
and agrees.

English statement (properties.jsonl): an NPDA accepts a string exactly when some sequence
of its moves consumes the whole string and ends in a configuration that is accepting under
the chosen acceptance mode (final state, empty stack, or either), the start configuration
included; its step-by-step reader yields, level by level, exactly the configurations
reachable in that many moves.  A DPDA definition is accepted by the constructor exactly
when no configuration can have two applicable moves, and on every string a DPDA gives the
same verdict as the NPDA with the same transition table.  Quantifier: all valid PDA
transition tables whose epsilon-moves cannot run forever, all three acceptance modes, all
strings; determinism validation for all tables, valid or not.

Reference semantics: `Spec/PDA.lean` — `Step Δ c c'` (one move of the table's move relation
`Δ`), `StepN Δ k c c'` (exactly `k` moves), `Accepting mode F c`.  The model of the code is
`Model/PDA.lean`.  Both readers may run forever on λ-cycles; the model takes `fuel` (loop
iterations) and answers `Outcome.outOfFuel` when it runs out.  "The reader accepts" is
`∃ fuel, outcome = returned`, "rejects" is `∃ fuel, outcome = raised RejectionException`;
decided runs do not depend on the fuel (`C02_npda_fuel_monotone`, `C02_dpda_fuel_monotone`).
-/
import AutomataVerif.Proofs.PdaNpda
import AutomataVerif.Proofs.PdaDpda
import AutomataVerif.Proofs.PdaValidate
import AutomataVerif.Proofs.PdaEps

namespace AV.Props.C02
open AV AV.PDA

variable {σ α γ τ : Type} [DecidableEq σ] [DecidableEq α] [DecidableEq γ]

/-! ## Acceptance test and stack discipline -/

/-- `_has_accepted` is the specification's `Accepting` for each of the three acceptance-mode
literals.  The literals and the tests attached to them are read from the source on every
run (`Generated/Pda.lean`), so an edit of `_has_accepted` breaks this theorem. -/
theorem C02_has_accepted_iff (M : Table σ α γ τ) (m : AccMode) (hm : M.mode = m.literal)
    (c : Config σ α γ) : M.hasAccepted c = true ↔ Accepting m M.finals c :=
  hasAccepted_iff M m hm c

/-- The extractor recognised every statement of `_has_accepted` (no extra `if`, no unknown test,
no `else`, final `return False`) and neither npda.py nor dpda.py overrides a helper the model
takes from pda.py (`Generated/Pda.lean`, rewritten from the source on every run).  Without this
obligation an unrecognised statement would become a rule that never fires and every other
theorem would still check. -/
theorem C02_has_accepted_shape : Gen.Pda.hasAcceptedShapeOk = true := by decide

/-- The acceptance modes that validate are exactly the three literals. -/
theorem C02_valid_modes (s : String) : s ∈ Gen.Pda.validModes ↔ ∃ m : AccMode, s = m.literal := by
  constructor
  · intro h
    simp only [Gen.Pda.validModes, List.mem_cons, List.not_mem_nil, or_false] at h
    rcases h with h | h | h
    · exact ⟨.finalState, h⟩
    · exact ⟨.emptyStack, h⟩
    · exact ⟨.both, h⟩
  · rintro ⟨m, rfl⟩; cases m <;> simp [Gen.Pda.validModes, AccMode.literal]

/-- `_replace_stack_top` on a stack with top `X`: the top is replaced by the pushed string and
the FIRST pushed symbol becomes the new top (an empty push pops). -/
theorem C02_replace_stack_top (β push : List γ) (X : γ) :
    replaceStackTop (β ++ [X]) push = β ++ push.reverse ∧
    (∀ Y rest, push = Y :: rest → Stack.top (replaceStackTop (β ++ [X]) push) = some Y) ∧
    (push = [] → replaceStackTop (β ++ [X]) push = β) := by
  refine ⟨replaceStackTop_concat β push X, ?_, ?_⟩
  · rintro Y rest rfl
    rw [replaceStackTop_concat, List.reverse_cons, ← List.append_assoc, Stack.top_concat]
  · rintro rfl; simp

/-! ## NPDA -/

/-- `_get_next_configurations(c)` is exactly the set of configurations one move away from `c`
(an empty stack has no move). -/
theorem C02_npda_next_iff (M : NPDA σ α γ) (c c' : Config σ α γ) :
    c' ∈ M.nextConfigs c ↔ Step M.moves c c' :=
  M.mem_nextConfigs c c'

/-- The step-by-step reader of an NPDA, for every table, mode, word and fuel.
With `ys` the yielded sets, `Lv k` the configurations reachable from the start configuration
in exactly `k` moves and `Acc` the accepting configurations:
(a) the `k`-th yielded set is exactly `Lv k`;
(b) the start level is always yielded, and at most `fuel` further levels;
(c) the reader goes past a level only if that level is non-empty and contains no accepting
    configuration — so it stops at the FIRST level that contains an accepting configuration;
(d) it returns (accepts) iff the last yielded level contains an accepting configuration;
(e) it raises `RejectionException` iff the last yielded level is empty;
(f) it runs out of fuel iff it has yielded `fuel + 1` levels;
(g) it raises nothing but `RejectionException`. -/
theorem C02_npda_stepwise (M : NPDA σ α γ) (m : AccMode) (hm : M.mode = m.literal)
    (fuel : Nat) (w : List α) :
    let ys := (M.readStepwise fuel w).1
    let out := (M.readStepwise fuel w).2
    let Lv := fun (k : Nat) (c : Config σ α γ) => StepN M.moves k (M.start w) c
    let Acc := Accepting m M.finals
    (∀ k L, ys[k]? = some L → ∀ c, c ∈ L ↔ Lv k c) ∧
    (1 ≤ ys.length ∧ ys.length ≤ fuel + 1) ∧
    (∀ k, k + 1 < ys.length → (∃ c, Lv k c) ∧ ∀ c, Lv k c → ¬ Acc c) ∧
    (out = .returned ↔ ys.length ≤ fuel ∧ ∃ c, Lv (ys.length - 1) c ∧ Acc c) ∧
    (out = .raised (.lib .rejectionException) ↔ ys.length ≤ fuel ∧ ¬ ∃ c, Lv (ys.length - 1) c) ∧
    (out = .outOfFuel ↔ ys.length = fuel + 1) ∧
    (∀ e, out = .raised e → e = .lib .rejectionException) := by
  intro ys out Lv Acc
  have S := M.run_spec (M.start w) fuel 0 [M.start w] (by intro c; simp [stepN_zero_iff])
  have hys : ys = [M.start w] :: (M.run fuel [M.start w]).1 := rfl
  have hout : out = (M.run fuel [M.start w]).2 := rfl
  have hlen : ys.length = (M.run fuel [M.start w]).1.length + 1 := by rw [hys]; rfl
  have hacc : ∀ c, M.hasAccepted c = true ↔ Acc c := fun c => hasAccepted_iff M m hm c
  refine ⟨?_, ⟨by omega, by have := S.len; omega⟩, ?_, ?_, ?_, ?_, ?_⟩
  · intro k L hL c
    cases k with
    | zero =>
      rw [hys] at hL; simp at hL; subst hL
      simp [Lv, stepN_zero_iff]
    | succ k =>
      rw [hys, List.getElem?_cons_succ] at hL
      have := S.level k L hL c
      simpa [Lv, Nat.add_comm] using this
  · intro k hk
    have := S.before k (by omega)
    simp only [Nat.zero_add] at this
    refine ⟨this.1, fun c hc hA => ?_⟩
    have h1 := this.2 c hc
    rw [(hacc c).mpr hA] at h1; cases h1
  · rw [hout, S.returned, hlen]
    simp only [Nat.zero_add, Nat.add_sub_cancel, Nat.succ_le_iff, hacc]
    rfl
  · rw [hout, S.rejected, hlen]
    simp only [Nat.zero_add, Nat.add_sub_cancel, Nat.succ_le_iff]
    rfl
  · rw [hout, S.fuelOut, hlen]; omega
  · rw [hout]; exact S.onlyRej

/-- **An NPDA accepts a string exactly when some sequence of its moves consumes the whole
string and ends in an accepting configuration, the start configuration included** (`k = 0`).
"Accepts" = the reader returns for some fuel; by `C02_npda_fuel_monotone` it then returns for
every larger fuel. -/
theorem C02_npda_accept_iff (M : NPDA σ α γ) (m : AccMode) (hm : M.mode = m.literal) (w : List α) :
    (∃ fuel, (M.readStepwise fuel w).2 = .returned) ↔
      ∃ k c, StepN M.moves k (M.start w) c ∧ Accepting m M.finals c := by
  constructor
  · rintro ⟨fuel, h⟩
    obtain ⟨_, _, _, hd, _⟩ := C02_npda_stepwise M m hm fuel w
    obtain ⟨_, c, hc, ha⟩ := hd.mp h
    exact ⟨_, c, hc, ha⟩
  · rintro ⟨k, c, hc, ha⟩
    refine ⟨k + 1, ?_⟩
    obtain ⟨_, hb, hcc, hd, he, hf, hg⟩ := C02_npda_stepwise M m hm (k + 1) w
    cases hout : (M.readStepwise (k + 1) w).2 with
    | returned => rfl
    | outOfFuel =>
      have hl := hf.mp hout
      exact absurd ha ((hcc k (by omega)).2 c hc)
    | raised e =>
      obtain rfl := hg e hout
      obtain ⟨hl, hne⟩ := he.mp hout
      exact absurd (stepN_prefix hc _ (by omega)) hne

/-- An NPDA rejects (the reader raises `RejectionException` for some fuel) exactly when all
runs die out — some level is empty — and no reachable configuration is accepting. -/
theorem C02_npda_reject_iff (M : NPDA σ α γ) (m : AccMode) (hm : M.mode = m.literal) (w : List α) :
    (∃ fuel, (M.readStepwise fuel w).2 = .raised (.lib .rejectionException)) ↔
      (∃ k, ∀ c, ¬ StepN M.moves k (M.start w) c) ∧
      ¬ ∃ k c, StepN M.moves k (M.start w) c ∧ Accepting m M.finals c := by
  constructor
  · rintro ⟨fuel, h⟩
    obtain ⟨_, hb, hcc, _, he, _⟩ := C02_npda_stepwise M m hm fuel w
    obtain ⟨hl, hne⟩ := he.mp h
    refine ⟨⟨_, fun c hc => hne ⟨c, hc⟩⟩, ?_⟩
    rintro ⟨k, c, hc, ha⟩
    rcases Nat.lt_or_ge (k + 1) (M.readStepwise fuel w).1.length with hlt | hge
    · exact (hcc k hlt).2 c hc ha
    · exact hne (stepN_prefix hc _ (by omega))
  · rintro ⟨⟨k, hk⟩, hna⟩
    refine ⟨k + 1, ?_⟩
    obtain ⟨_, hb, hcc, hd, he, hf, hg⟩ := C02_npda_stepwise M m hm (k + 1) w
    cases hout : (M.readStepwise (k + 1) w).2 with
    | returned =>
      obtain ⟨_, c, hc, ha⟩ := hd.mp hout
      exact absurd ⟨_, c, hc, ha⟩ hna
    | outOfFuel =>
      have hl := hf.mp hout
      obtain ⟨c, hc⟩ := (hcc k (by omega)).1
      exact absurd hc (hk c)
    | raised e => rw [hg e hout]

/-- Fuel only matters for undecided runs: once the reader has returned or raised, more
fuel gives the same yields and the same outcome. -/
theorem C02_npda_fuel_monotone (M : NPDA σ α γ) (fuel fuel' : Nat) (w : List α)
    (h : (M.readStepwise fuel w).2 ≠ .outOfFuel) (hle : fuel ≤ fuel') :
    M.readStepwise fuel' w = M.readStepwise fuel w :=
  M.readStepwise_mono fuel fuel' w h hle

/-- The property's quantifier "tables whose epsilon-moves cannot run forever": if all runs on
`w` die out (some level is empty), the reader decides `w`, and its verdict is `accept` iff an
accepting configuration is reachable. -/
theorem C02_npda_decides (M : NPDA σ α γ) (m : AccMode) (hm : M.mode = m.literal) (w : List α)
    (hfin : ∃ k, ∀ c, ¬ StepN M.moves k (M.start w) c) :
    ∃ fuel b, acceptsInput (M.readStepwise fuel w) = some (.ok b) ∧
      (b = true ↔ ∃ k c, StepN M.moves k (M.start w) c ∧ Accepting m M.finals c) := by
  by_cases hA : ∃ k c, StepN M.moves k (M.start w) c ∧ Accepting m M.finals c
  · obtain ⟨fuel, h⟩ := (C02_npda_accept_iff M m hm w).mpr hA
    refine ⟨fuel, true, ?_, by simp [hA]⟩
    simp only [acceptsInput, readInput, h]
    cases hl : (M.readStepwise fuel w).1.getLast? with
    | some L => rfl
    | none => simp [NPDA.readStepwise] at hl
  · obtain ⟨fuel, h⟩ := (C02_npda_reject_iff M m hm w).mpr ⟨hfin, hA⟩
    exact ⟨fuel, false, by simp [acceptsInput, readInput, h], by simp [hA]⟩

/-! ## The quantifier's condition: "tables whose epsilon-moves cannot run forever"

`EpsTerminates Δ` (Spec/PDA.lean): the converse of the λ-move relation of the table is well
founded — no configuration whatever starts an infinite sequence of λ-moves.  It is a condition on
the table; the per-word hypothesis `hfin` of `C02_npda_decides` / the first conjunct of
`C02_npda_reject_iff` follow from it for every word. -/

/-- **If the ε-moves of the table cannot run forever, then on every word all runs die out**: some
level of the run tree is empty.  (Finite branching: `_get_next_configurations` returns a finite
set; a move that is not a λ-move consumes an input symbol.) -/
theorem C02_no_eps_run_dies_out (M : NPDA σ α γ) (h : EpsTerminates M.moves) (w : List α) :
    ∃ k, ∀ c, ¬ StepN M.moves k (M.start w) c :=
  M.dies_out h (M.start w)

/-- The same for a DPDA table. -/
theorem C02_dpda_no_eps_run_dies_out (M : DPDA σ α γ) (h : EpsTerminates M.moves) (w : List α) :
    ∃ k, ∀ c, ¬ StepN M.moves k (M.start w) c :=
  M.dies_out h (M.start w)

/-- The per-word hypothesis `hfin` of `C02_npda_decides` / first conjunct of `C02_npda_reject_iff` is
*exactly* "ε-moves cannot run forever" on the run tree of that word: all runs on `w` die out iff no
configuration reachable from the start configuration starts an infinite sequence of λ-moves
(NPDA and DPDA tables).  `C02_no_eps_run_dies_out` is the special case where the condition
holds for all configurations, i.e. for the table. -/
theorem C02_dies_out_iff_eps_terminates_on_run :
    (∀ (M : NPDA σ α γ) (w : List α), (∃ k, ∀ c, ¬ StepN M.moves k (M.start w) c) ↔
      ∀ k c, StepN M.moves k (M.start w) c → Acc (fun c' c => EpsStep M.moves c c') c) ∧
    (∀ (M : DPDA σ α γ) (w : List α), (∃ k, ∀ c, ¬ StepN M.moves k (M.start w) c) ↔
      ∀ k c, StepN M.moves k (M.start w) c → Acc (fun c' c => EpsStep M.moves c c') c) :=
  ⟨fun M w => M.dies_out_iff (M.start w), fun M w => M.dies_out_iff (M.start w)⟩

/-- `C02_npda_decides` with the quantifier's own condition: on a table whose ε-moves cannot run
forever the reader decides every word, and says `True` iff an accepting configuration is
reachable. -/
theorem C02_npda_decides_eps (M : NPDA σ α γ) (m : AccMode) (hm : M.mode = m.literal)
    (h : EpsTerminates M.moves) (w : List α) :
    ∃ fuel b, acceptsInput (M.readStepwise fuel w) = some (.ok b) ∧
      (b = true ↔ ∃ k c, StepN M.moves k (M.start w) c ∧ Accepting m M.finals c) :=
  C02_npda_decides M m hm w (C02_no_eps_run_dies_out M h w)

/-- `C02_npda_reject_iff` with the quantifier's own condition: the reader rejects exactly when no
accepting configuration is reachable. -/
theorem C02_npda_reject_iff_eps (M : NPDA σ α γ) (m : AccMode) (hm : M.mode = m.literal)
    (h : EpsTerminates M.moves) (w : List α) :
    (∃ fuel, (M.readStepwise fuel w).2 = .raised (.lib .rejectionException)) ↔
      ¬ ∃ k c, StepN M.moves k (M.start w) c ∧ Accepting m M.finals c := by
  rw [C02_npda_reject_iff M m hm w]
  exact ⟨fun h' => h'.2, fun h' => ⟨C02_no_eps_run_dies_out M h w, h'⟩⟩

/-- `accepts_input` / `read_input` of an NPDA: True with the last yielded set when the reader
returns, False / `RejectionException` when it raises, and never another exception. -/
theorem C02_npda_accepts_input (M : NPDA σ α γ) (fuel : Nat) (w : List α) :
    (acceptsInput (M.readStepwise fuel w) = some (.ok true) ↔ (M.readStepwise fuel w).2 = .returned) ∧
    (acceptsInput (M.readStepwise fuel w) = some (.ok false) ↔
      (M.readStepwise fuel w).2 = .raised (.lib .rejectionException)) ∧
    (acceptsInput (M.readStepwise fuel w) = none ↔ (M.readStepwise fuel w).2 = .outOfFuel) ∧
    (∀ e, acceptsInput (M.readStepwise fuel w) ≠ some (.error e)) ∧
    ((M.readStepwise fuel w).2 = .returned →
      readInput (M.readStepwise fuel w) = (M.readStepwise fuel w).1.getLast?.map .ok) := by
  have hne : (M.readStepwise fuel w).1.getLast? ≠ none := by simp [NPDA.readStepwise]
  have hrej : ∀ e, (M.readStepwise fuel w).2 = .raised e → e = .lib .rejectionException := by
    intro e he
    have S := M.run_spec (M.start w) fuel 0 [M.start w] (by intro c; simp [stepN_zero_iff])
    exact S.onlyRej e he
  cases hout : (M.readStepwise fuel w).2 with
  | outOfFuel => simp [acceptsInput, readInput, hout]
  | raised e =>
    obtain rfl := hrej e hout
    simp [acceptsInput, readInput, hout]
  | returned =>
    cases hl : (M.readStepwise fuel w).1.getLast? with
    | none => exact absurd hl hne
    | some L => simp [acceptsInput, readInput, hout, hl]

/-! ## Validation: the constructor accepts a DPDA definition exactly when no configuration
can have two applicable moves

`Table.WellFormed` (Spec/PDA.lean) lists the other rules of `PDA.validate`.
`Table.KeysUnique` says that the association lists standing for Python dicts have unique
keys (true of every dict). -/

/-- `NPDA.validate` (the NPDA constructor) accepts exactly the well-formed definitions. -/
theorem C02_npda_validate_iff (M : NPDA σ α γ) : M.validate = .ok () ↔ M.WellFormed :=
  M.validate_eq_ok

/-- `DPDA.validate` (the DPDA constructor) accepts a definition exactly when it is well formed
and no state and stack top have both a symbol move and a λ-move. -/
theorem C02_dpda_validate_iff (M : DPDA σ α γ) (hk : M.KeysUnique) :
    M.validate = .ok () ↔ M.WellFormed ∧ ¬ M.TwoMoves := by
  rw [M.validate_eq_ok_rows hk, M.detRows_iff hk]

/-- The table-level condition is the property's wording: some configuration has two
applicable moves, i.e. two different successor configurations. -/
theorem C02_dpda_two_moves_iff (M : DPDA σ α γ) :
    M.TwoMoves ↔ ∃ c c₁ c₂ : Config σ α γ, Step M.moves c c₁ ∧ Step M.moves c c₂ ∧ c₁ ≠ c₂ :=
  M.twoMoves_iff

/-- **A DPDA definition is accepted by the constructor exactly when no configuration can have
two applicable moves** (given the rules that concern every PDA). -/
theorem C02_dpda_constructor_iff (M : DPDA σ α γ) (hk : M.KeysUnique) (wf : M.WellFormed) :
    M.validate = .ok () ↔
      ¬ ∃ c c₁ c₂ : Config σ α γ, Step M.moves c c₁ ∧ Step M.moves c c₂ ∧ c₁ ≠ c₂ := by
  rw [C02_dpda_validate_iff M hk, ← C02_dpda_two_moves_iff]
  exact ⟨fun h => h.2, fun h => ⟨wf, h⟩⟩

/-- On a well-formed definition the error is `NondeterminismError` exactly when some
configuration has two applicable moves … -/
theorem C02_dpda_nondeterminism_error_iff (M : DPDA σ α γ) (hk : M.KeysUnique) (wf : M.WellFormed) :
    M.validate = .error (.lib .nondeterminismError) ↔ M.TwoMoves := by
  constructor
  · intro h
    apply Classical.byContradiction
    intro hno
    exact M.validate_nondeterminism_rows hk h ((M.detRows_iff hk).mpr hno)
  · intro h
    exact M.validate_of_wf_not_det hk wf (fun hd => (M.detRows_iff hk).mp hd h)

/-- … and for every table, valid or not, `NondeterminismError` is never raised without such a
configuration (a malformed nondeterministic table may raise the error of an earlier check). -/
theorem C02_dpda_nondeterminism_error_sound (M : DPDA σ α γ) (hk : M.KeysUnique)
    (h : M.validate = .error (.lib .nondeterminismError)) :
    ∃ c c₁ c₂ : Config σ α γ, Step M.moves c c₁ ∧ Step M.moves c c₂ ∧ c₁ ≠ c₂ := by
  rw [← C02_dpda_two_moves_iff]
  apply Classical.byContradiction
  intro hno
  exact M.validate_nondeterminism_rows hk h ((M.detRows_iff hk).mpr hno)

/-- A table that offers two moves to some configuration is refused by the DPDA constructor
(whatever else is wrong with it). -/
theorem C02_dpda_two_moves_rejected (M : DPDA σ α γ) (hk : M.KeysUnique) (h : M.TwoMoves) :
    M.validate ≠ .ok () :=
  fun hv => ((C02_dpda_validate_iff M hk).mp hv).2 h

/-- The move relations and `TwoMoves` of `Spec/PDA.lean` are written through the table lookup
`Table.entry?`; stated by membership only (`movesMem`, `TwoMovesMem`: an item of `transitions`, an
item of the row, an item of the innermost dict) they are the same relations as soon as dict keys
are unique — which they are in every Python dict. -/
theorem C02_moves_by_membership :
    (∀ (M : NPDA σ α γ), M.KeysUniqueAll → ∀ q a X p push, M.moves q a X p push ↔ M.movesMem q a X p push) ∧
    (∀ (M : DPDA σ α γ), M.KeysUniqueAll → ∀ q a X p push, M.moves q a X p push ↔ M.movesMem q a X p push) ∧
    (∀ (M : DPDA σ α γ), M.KeysUnique → (M.TwoMoves ↔ M.TwoMovesMem)) :=
  ⟨fun M hk => M.moves_iff_movesMem hk, fun M hk => M.moves_iff_movesMem hk, fun M hk => M.twoMoves_iff_mem hk⟩

/-! ## DPDA reader -/

/-- The step-by-step reader of a DPDA, for every table (deterministic or not: `pick` is the
order in which `set.pop()` returns a symbol move and a λ-move), mode, word and fuel.
With `ys` the yielded configurations:
(a) the first is the start configuration and each next one is one move after the previous
    one — so the `k`-th is reachable in exactly `k` moves;
(b) at least one and at most `fuel + 1` configurations are yielded;
(c) every yielded configuration but the last is not accepting: the reader stops at the first
    accepting configuration, **the start configuration included** (F7, fixed by 5e96321);
(d) it returns iff the last yielded configuration is accepting;
(e) it raises `RejectionException` iff the last one is not accepting and has no move;
(f) it runs out of fuel iff it yielded `fuel + 1` configurations, the last not accepting;
(g) it raises nothing else (the `IndexError` of `_get_next_configuration` is unreachable). -/
theorem C02_dpda_stepwise (M : DPDA σ α γ) (m : AccMode) (hm : M.mode = m.literal)
    (pick : Config σ α γ → Bool) (fuel : Nat) (w : List α) :
    let ys := (M.readStepwise pick fuel w).1
    let out := (M.readStepwise pick fuel w).2
    let Acc := Accepting m M.finals
    (ys[0]? = some (M.start w) ∧
      (∀ k c c', ys[k]? = some c → ys[k + 1]? = some c' → Step M.moves c c') ∧
      (∀ k c, ys[k]? = some c → StepN M.moves k (M.start w) c)) ∧
    (1 ≤ ys.length ∧ ys.length ≤ fuel + 1) ∧
    (∀ k c, ys[k]? = some c → k + 1 < ys.length → ¬ Acc c) ∧
    (out = .returned ↔ ∃ c, ys.getLast? = some c ∧ Acc c) ∧
    (out = .raised (.lib .rejectionException) ↔
      ys.length ≤ fuel ∧ ∃ c, ys.getLast? = some c ∧ ¬ Acc c ∧ ¬ ∃ c', Step M.moves c c') ∧
    (out = .outOfFuel ↔ ys.length = fuel + 1 ∧ ∃ c, ys.getLast? = some c ∧ ¬ Acc c) ∧
    (∀ e, out = .raised e → e = .lib .rejectionException) := by
  intro ys out Acc
  have S := M.readStepwise_spec pick fuel w
  have hacc : ∀ c, M.hasAccepted c = true ↔ Acc c := fun c => hasAccepted_iff M m hm c
  have hnacc : ∀ c, M.hasAccepted c = false ↔ ¬ Acc c := fun c => by
    rw [← hacc c]; cases M.hasAccepted c <;> simp
  refine ⟨⟨S.head, S.chain, S.level⟩, ⟨S.lenPos, S.len⟩, ?_, ?_, ?_, ?_, S.onlyRej⟩
  · intro k c hc hk; exact (hnacc c).mp (S.before k c hc hk)
  · rw [show (out = Outcome.returned) = ((M.readStepwise pick fuel w).2 = .returned) from rfl, S.returned]
    simp only [hacc]; rfl
  · rw [show (out = Outcome.raised (.lib .rejectionException)) =
      ((M.readStepwise pick fuel w).2 = .raised (.lib .rejectionException)) from rfl, S.rejected]
    simp only [hnacc]; rfl
  · rw [show (out = Outcome.outOfFuel) = ((M.readStepwise pick fuel w).2 = .outOfFuel) from rfl, S.fuelOut]
    simp only [hnacc]; rfl

/-- A deterministic DPDA accepts exactly when an accepting configuration is reachable (the
start configuration included) … -/
theorem C02_dpda_accept_iff (M : DPDA σ α γ) (hdet : ¬ M.TwoMoves) (m : AccMode) (hm : M.mode = m.literal)
    (pick : Config σ α γ → Bool) (w : List α) :
    (∃ fuel, (M.readStepwise pick fuel w).2 = .returned) ↔
      ∃ k c, StepN M.moves k (M.start w) c ∧ Accepting m M.finals c := by
  rw [M.returned_iff hdet pick w]
  simp only [hasAccepted_iff M m hm]

/-- … and rejects exactly when its run dies out and no reachable configuration is accepting. -/
theorem C02_dpda_reject_iff (M : DPDA σ α γ) (hdet : ¬ M.TwoMoves) (m : AccMode) (hm : M.mode = m.literal)
    (pick : Config σ α γ → Bool) (w : List α) :
    (∃ fuel, (M.readStepwise pick fuel w).2 = .raised (.lib .rejectionException)) ↔
      (∃ k, ∀ c, ¬ StepN M.moves k (M.start w) c) ∧
      ¬ ∃ k c, StepN M.moves k (M.start w) c ∧ Accepting m M.finals c := by
  rw [M.rejected_iff hdet pick w]
  simp only [hasAccepted_iff M m hm]

/-- Fuel only matters for undecided runs. -/
theorem C02_dpda_fuel_monotone (M : DPDA σ α γ) (pick : Config σ α γ → Bool) (fuel fuel' : Nat)
    (w : List α) (h : (M.readStepwise pick fuel w).2 ≠ .outOfFuel) (hle : fuel ≤ fuel') :
    M.readStepwise pick fuel' w = M.readStepwise pick fuel w :=
  M.readStepwise_mono pick fuel fuel' w h hle

/-- On a deterministic table the order in which the set of candidate transitions is popped
is irrelevant: the reader is a function of the definition and the word. -/
theorem C02_dpda_pick_irrelevant (M : DPDA σ α γ) (hdet : ¬ M.TwoMoves)
    (pick pick' : Config σ α γ → Bool) (fuel : Nat) (w : List α) :
    M.readStepwise pick fuel w = M.readStepwise pick' fuel w := by
  unfold DPDA.readStepwise
  simp only [M.loop_pick hdet pick pick']

/-- `accepts_input` / `read_input` of a DPDA: True with the last yielded configuration when
the reader returns, False / `RejectionException` when it raises, never another exception. -/
theorem C02_dpda_accepts_input (M : DPDA σ α γ) (pick : Config σ α γ → Bool) (fuel : Nat) (w : List α) :
    (acceptsInput (M.readStepwise pick fuel w) = some (.ok true) ↔
      (M.readStepwise pick fuel w).2 = .returned) ∧
    (acceptsInput (M.readStepwise pick fuel w) = some (.ok false) ↔
      (M.readStepwise pick fuel w).2 = .raised (.lib .rejectionException)) ∧
    (acceptsInput (M.readStepwise pick fuel w) = none ↔ (M.readStepwise pick fuel w).2 = .outOfFuel) ∧
    (∀ e, acceptsInput (M.readStepwise pick fuel w) ≠ some (.error e)) ∧
    ((M.readStepwise pick fuel w).2 = .returned →
      readInput (M.readStepwise pick fuel w) = (M.readStepwise pick fuel w).1.getLast?.map .ok) := by
  have S := M.readStepwise_spec pick fuel w
  have hne : (M.readStepwise pick fuel w).1.getLast? ≠ none := by
    intro h; have := S.lenPos; rw [List.getLast?_eq_none_iff] at h; rw [h] at this; simp at this
  cases hout : (M.readStepwise pick fuel w).2 with
  | outOfFuel => simp [acceptsInput, readInput, hout]
  | raised e =>
    obtain rfl := S.onlyRej e hout
    simp [acceptsInput, readInput, hout]
  | returned =>
    cases hl : (M.readStepwise pick fuel w).1.getLast? with
    | none => exact absurd hl hne
    | some c => simp [acceptsInput, readInput, hout, hl]

/-! ## DPDA = NPDA with the same transition table -/

/-- `DPDA.lift` is "the NPDA with the same transition table": same move relation (each
entry `(p, push)` becomes the set `{(p, push)}`), same start, finals and mode. -/
theorem C02_lift_same_table (M : DPDA σ α γ) :
    (∀ q a X p push, M.lift.moves q a X p push ↔ M.moves q a X p push) ∧
    (∀ w, M.lift.start w = M.start w) ∧ M.lift.finals = M.finals ∧ M.lift.mode = M.mode ∧
    (∀ q a X, M.lift.entry? q a X = (M.entry? q a X).map fun e => [e]) :=
  ⟨M.lift_moves, fun _ => rfl, rfl, rfl, M.lift_entry?⟩

/-- **On every string a (deterministic) DPDA gives the same verdict as the NPDA with the same
transition table**: one accepts iff the other does, one rejects iff the other does.
This is false of the code before `fix:` 5e96321 (F7), where the DPDA did not test the start
configuration before taking an available λ-move. -/
theorem C02_dpda_eq_npda (M : DPDA σ α γ) (hdet : ¬ M.TwoMoves) (m : AccMode) (hm : M.mode = m.literal)
    (pick : Config σ α γ → Bool) (w : List α) :
    ((∃ fuel, (M.readStepwise pick fuel w).2 = .returned) ↔
      (∃ fuel, (M.lift.readStepwise fuel w).2 = .returned)) ∧
    ((∃ fuel, (M.readStepwise pick fuel w).2 = .raised (.lib .rejectionException)) ↔
      (∃ fuel, (M.lift.readStepwise fuel w).2 = .raised (.lib .rejectionException))) := by
  have hm' : M.lift.mode = m.literal := hm
  constructor
  · rw [C02_dpda_accept_iff M hdet m hm pick w, C02_npda_accept_iff M.lift m hm' w]
    simp only [DPDA.lift_stepN]; rfl
  · rw [C02_dpda_reject_iff M hdet m hm pick w, C02_npda_reject_iff M.lift m hm' w]
    simp only [DPDA.lift_stepN]; rfl

/-- The same in terms of `accepts_input` at arbitrary fuels: whenever both runs are decided,
the two Booleans are equal, and neither call raises. -/
theorem C02_dpda_eq_npda_decided (M : DPDA σ α γ) (hdet : ¬ M.TwoMoves) (m : AccMode)
    (hm : M.mode = m.literal) (pick : Config σ α γ → Bool) (w : List α) (f f' : Nat)
    (hd : (M.readStepwise pick f w).2 ≠ .outOfFuel) (hn : (M.lift.readStepwise f' w).2 ≠ .outOfFuel) :
    ∃ b, acceptsInput (M.readStepwise pick f w) = some (.ok b) ∧
      acceptsInput (M.lift.readStepwise f' w) = some (.ok b) := by
  obtain ⟨hacc, hrej⟩ := C02_dpda_eq_npda M hdet m hm pick w
  have SD := M.readStepwise_spec pick f w
  have SN := C02_npda_accepts_input M.lift f' w
  have hlastD : (M.readStepwise pick f w).1.getLast? ≠ none := by
    intro h; have := SD.lenPos; rw [List.getLast?_eq_none_iff] at h; rw [h] at this; simp at this
  -- verdict of the DPDA run
  cases hD : (M.readStepwise pick f w).2 with
  | outOfFuel => exact absurd hD hd
  | returned =>
    refine ⟨true, ?_, ?_⟩
    · cases hl : (M.readStepwise pick f w).1.getLast? with
      | none => exact absurd hl hlastD
      | some c => simp [acceptsInput, readInput, hD, hl]
    · obtain ⟨f₂, h₂⟩ := hacc.mp ⟨f, hD⟩
      -- the NPDA run at fuel f' is decided, hence equal to the run at max f' f₂
      have e1 := C02_npda_fuel_monotone M.lift f' (max f' f₂) w hn (Nat.le_max_left _ _)
      have e2 := C02_npda_fuel_monotone M.lift f₂ (max f' f₂) w (by rw [h₂]; simp) (Nat.le_max_right _ _)
      have : (M.lift.readStepwise f' w).2 = .returned := by
        rw [← e1, e2]; exact h₂
      exact SN.1.mpr this
  | raised e =>
    obtain rfl := SD.onlyRej e hD
    refine ⟨false, by simp [acceptsInput, readInput, hD], ?_⟩
    obtain ⟨f₂, h₂⟩ := hrej.mp ⟨f, hD⟩
    have e1 := C02_npda_fuel_monotone M.lift f' (max f' f₂) w hn (Nat.le_max_left _ _)
    have e2 := C02_npda_fuel_monotone M.lift f₂ (max f' f₂) w (by rw [h₂]; simp) (Nat.le_max_right _ _)
    have : (M.lift.readStepwise f' w).2 = .raised (.lib .rejectionException) := by
      rw [← e1, e2]; exact h₂
    exact SN.2.1.mpr this

/-! ## End to end, for definitions accepted by the constructors -/

/-- The NPDA built from a well-formed DPDA table is well formed (accepted by the NPDA
constructor). -/
theorem C02_lift_valid (M : DPDA σ α γ) (wf : M.WellFormed) : M.lift.validate = .ok () := by
  rw [C02_npda_validate_iff]
  refine ⟨?_, ?_, wf.initOk, wf.initStackOk, wf.finalsOk, wf.modeOk⟩
  · intro kv hkv e he a ha
    simp only [DPDA.lift, List.mem_map] at hkv
    obtain ⟨kv', hkv', rfl⟩ := hkv
    simp only [List.mem_map] at he
    obtain ⟨e', he', rfl⟩ := he
    exact wf.inputOk kv' hkv' e' he' a ha
  · intro kv hkv e he X hX
    simp only [DPDA.lift, List.mem_map] at hkv
    obtain ⟨kv', hkv', rfl⟩ := hkv
    simp only [List.mem_map] at he
    obtain ⟨e', he', rfl⟩ := he
    refine wf.stackOk kv' hkv' e' he' X ?_
    simpa [akeys, List.map_map] using hX

/-- For every NPDA definition the constructor accepts: the mode is one of the three, and
for all words acceptance is reachability of an accepting configuration. -/
theorem C02_npda_valid (M : NPDA σ α γ) (hv : M.validate = .ok ()) :
    ∃ m : AccMode, M.mode = m.literal ∧ ∀ w : List α,
      ((∃ fuel, acceptsInput (M.readStepwise fuel w) = some (.ok true)) ↔
        ∃ k c, StepN M.moves k (M.start w) c ∧ Accepting m M.finals c) := by
  obtain ⟨m, hm⟩ := ((C02_npda_validate_iff M).mp hv).modeOk
  refine ⟨m, hm, fun w => ?_⟩
  rw [← C02_npda_accept_iff M m hm w]
  constructor
  · rintro ⟨f, h⟩; exact ⟨f, (C02_npda_accepts_input M f w).1.mp h⟩
  · rintro ⟨f, h⟩; exact ⟨f, (C02_npda_accepts_input M f w).1.mpr h⟩

/-- For every DPDA definition the constructor accepts: the NPDA with the same table is
accepted by its constructor too, and on every word the two machines give the same verdict
(both accept, both reject, or neither run ends). -/
theorem C02_dpda_valid_eq_npda (M : DPDA σ α γ) (hk : M.KeysUnique) (hv : M.validate = .ok ())
    (pick : Config σ α γ → Bool) (w : List α) :
    M.lift.validate = .ok () ∧
    ((∃ fuel, (M.readStepwise pick fuel w).2 = .returned) ↔
      (∃ fuel, (M.lift.readStepwise fuel w).2 = .returned)) ∧
    ((∃ fuel, (M.readStepwise pick fuel w).2 = .raised (.lib .rejectionException)) ↔
      (∃ fuel, (M.lift.readStepwise fuel w).2 = .raised (.lib .rejectionException))) := by
  obtain ⟨wf, hdet⟩ := (C02_dpda_validate_iff M hk).mp hv
  obtain ⟨m, hm⟩ := wf.modeOk
  exact ⟨C02_lift_valid M wf, C02_dpda_eq_npda M hdet m hm pick w⟩

/-- A deterministic DPDA whose ε-moves cannot run forever decides every word, and says `True` iff
an accepting configuration is reachable. -/
theorem C02_dpda_decides_eps (M : DPDA σ α γ) (hdet : ¬ M.TwoMoves) (m : AccMode) (hm : M.mode = m.literal)
    (h : EpsTerminates M.moves) (pick : Config σ α γ → Bool) (w : List α) :
    ∃ fuel b, acceptsInput (M.readStepwise pick fuel w) = some (.ok b) ∧
      (b = true ↔ ∃ k c, StepN M.moves k (M.start w) c ∧ Accepting m M.finals c) := by
  by_cases hA : ∃ k c, StepN M.moves k (M.start w) c ∧ Accepting m M.finals c
  · obtain ⟨fuel, hf⟩ := (C02_dpda_accept_iff M hdet m hm pick w).mpr hA
    exact ⟨fuel, true, (C02_dpda_accepts_input M pick fuel w).1.mpr hf, by simp [hA]⟩
  · obtain ⟨fuel, hf⟩ := (C02_dpda_reject_iff M hdet m hm pick w).mpr
      ⟨C02_dpda_no_eps_run_dies_out M h w, hA⟩
    exact ⟨fuel, false, (C02_dpda_accepts_input M pick fuel w).2.1.mpr hf, by simp [hA]⟩

/-- **C02 for the tables of its quantifier** — a DPDA definition the constructor accepts, whose
ε-moves cannot run forever: the NPDA with the same table is accepted by its constructor, and on
every word both `accepts_input` calls come back (some budget suffices for both), with the same
Boolean, which is `True` exactly when some sequence of moves consumes the word and ends in an
accepting configuration (the start configuration included). -/
theorem C02_valid_eps_terminating (M : DPDA σ α γ) (hk : M.KeysUnique) (hv : M.validate = .ok ())
    (h : EpsTerminates M.moves) (pick : Config σ α γ → Bool) (w : List α) :
    M.lift.validate = .ok () ∧ ∃ m : AccMode, M.mode = m.literal ∧ ∃ fuel b,
      acceptsInput (M.readStepwise pick fuel w) = some (.ok b) ∧
      acceptsInput (M.lift.readStepwise fuel w) = some (.ok b) ∧
      (b = true ↔ ∃ k c, StepN M.moves k (M.start w) c ∧ Accepting m M.finals c) := by
  obtain ⟨wf, hdet⟩ := (C02_dpda_validate_iff M hk).mp hv
  obtain ⟨m, hm⟩ := wf.modeOk
  refine ⟨C02_lift_valid M wf, m, hm, ?_⟩
  obtain ⟨f1, b1, h1, hb1⟩ := C02_dpda_decides_eps M hdet m hm h pick w
  have hL : EpsTerminates M.lift.moves := by rw [M.lift_moves_eq]; exact h
  obtain ⟨f2, b2, h2, hb2⟩ := C02_npda_decides_eps M.lift m hm hL w
  have hb : b2 = b1 := by
    have e : (b2 = true) ↔ (b1 = true) := by
      rw [hb1, hb2]
      simp only [DPDA.lift_stepN]
      rfl
    cases b1 <;> cases b2 <;> simp_all
  subst hb
  have hd1 : (M.readStepwise pick f1 w).2 ≠ .outOfFuel := by
    intro hh
    have := (C02_dpda_accepts_input M pick f1 w).2.2.1.mpr hh
    rw [this] at h1; cases h1
  have hd2 : (M.lift.readStepwise f2 w).2 ≠ .outOfFuel := by
    intro hh
    have := (C02_npda_accepts_input M.lift f2 w).2.2.1.mpr hh
    rw [this] at h2; cases h2
  refine ⟨max f1 f2, b2, ?_, ?_, hb1⟩
  · rw [C02_dpda_fuel_monotone M pick f1 (max f1 f2) w hd1 (Nat.le_max_left _ _)]; exact h1
  · rw [C02_npda_fuel_monotone M.lift f2 (max f1 f2) w hd2 (Nat.le_max_right _ _)]; exact h2

/-! ## Non-vacuity: concrete machines (states, symbols, stack symbols are naturals) -/

section Examples

/-- `q0 —a,Z→ {(q0, AZ), (q1, Z)}`, `q0 —λ,A→ (q1, λ)`, `q1 —λ,Z→ (q1, λ)`, accepting by empty
stack (`Z = 0`, `A = 1`). -/
def exN : NPDA Nat Nat Nat :=
  { states := [0, 1], inputSyms := [0], stackSyms := [0, 1],
    trans := [(0, [(some 0, [(0, [(0, [1, 0]), (1, [0])])]), (none, [(1, [(1, [])])])]),
              (1, [(none, [(0, [(1, [])])])])],
    init := 0, initStack := 0, finals := [], mode := "empty_stack" }

example : exN.validate = .ok () := by rfl
example : exN.mode = AccMode.emptyStack.literal := by decide
/-- accepted at level 2 (two configurations per level: genuinely nondeterministic) -/
example : exN.readStepwise 5 [0] =
    ([[⟨0, [0], [0]⟩], [⟨0, [], [0, 1]⟩, ⟨1, [], [0]⟩], [⟨1, [], [0]⟩, ⟨1, [], []⟩]], .returned) := by decide
/-- rejected: level 4 is empty -/
example : (exN.readStepwise 9 [0, 0]).2 = .raised (.lib .rejectionException) ∧
    (exN.readStepwise 9 [0, 0]).1.length = 5 := by decide
/-- the hypothesis of `C02_npda_decides` is met (all runs on `aa` die out) -/
example : ∃ k, ∀ c, ¬ StepN exN.moves k (exN.start [0, 0]) c := by
  obtain ⟨_, _, _, _, he, _⟩ := C02_npda_stepwise exN .emptyStack (by decide) 9 [0, 0]
  have := he.mp (by decide)
  exact ⟨_, fun c hc => this.2 ⟨c, hc⟩⟩

/-- `exN`'s λ-moves all pop: they cannot run forever, so `C02_npda_decides_eps` applies to it
(and `exLoop` above is a table outside the quantifier). -/
theorem exN_eps : EpsTerminates exN.moves :=
  exN.epsTerminates_of_lambda_pops (by decide)

example (w : List Nat) : ∃ fuel b, acceptsInput (exN.readStepwise fuel w) = some (.ok b) ∧
    (b = true ↔ ∃ k c, StepN exN.moves k (exN.start w) c ∧ Accepting .emptyStack exN.finals c) :=
  C02_npda_decides_eps exN .emptyStack (by decide) exN_eps w

/-- a λ-cycle `q0 —λ,Z→ (q0, ZZ)`: the reader never decides; the model says so -/
def exLoop : NPDA Nat Nat Nat :=
  { states := [0], inputSyms := [0], stackSyms := [0],
    trans := [(0, [(none, [(0, [(0, [0, 0])])])])],
    init := 0, initStack := 0, finals := [], mode := "final_state" }

example : exLoop.validate = .ok () ∧ (exLoop.readStepwise 20 []).2 = .outOfFuel := ⟨by rfl, by decide⟩

/-- The docstring DPDA for aⁿbⁿ (`a = 0`, `b = 1`; stack `'0' = 0`, `'1' = 1`). -/
def exD : DPDA Nat Nat Nat :=
  { states := [0, 1, 2, 3], inputSyms := [0, 1], stackSyms := [0, 1],
    trans := [(0, [(some 0, [(0, (1, [1, 0]))])]),
              (1, [(some 0, [(1, (1, [1, 1]))]), (some 1, [(1, (2, []))])]),
              (2, [(some 1, [(1, (2, []))]), (none, [(0, (3, [0]))])])],
    init := 0, initStack := 0, finals := [3], mode := "final_state" }

theorem exD_keys : exD.KeysUnique := by unfold Table.KeysUnique; decide
example : exD.validate = .ok () := by rfl
example : ¬ exD.TwoMoves := ((C02_dpda_validate_iff exD exD_keys).mp (by rfl)).2
example : (exD.readStepwise (fun _ => true) 10 [0, 0, 1, 1]).2 = .returned ∧
    (exD.lift.readStepwise 10 [0, 0, 1, 1]).2 = .returned ∧
    (exD.readStepwise (fun _ => true) 10 [0, 1, 1]).2 = .raised (.lib .rejectionException) ∧
    (exD.lift.readStepwise 10 [0, 1, 1]).2 = .raised (.lib .rejectionException) := by decide

/-- `exD`'s only λ-move goes from `q2` to `q3`, which has no row: ε-moves cannot run forever. -/
theorem exD_eps : EpsTerminates exD.moves := by
  apply epsTerminates_of_measure (fun c => if c.state = 3 then 0 else 1)
  intro c c' hs
  cases hs with
  | mk hm =>
    obtain ⟨row, sp, h1, h2, h3⟩ := exD.entry?_some_mem hm
    simp only [exD, List.mem_cons, Prod.mk.injEq, List.not_mem_nil, or_false] at h1
    rcases h1 with ⟨rfl, rfl⟩ | ⟨rfl, rfl⟩ | ⟨rfl, rfl⟩
    · simp at h2
    · simp at h2
    · simp only [List.mem_cons, Prod.mk.injEq, List.not_mem_nil, or_false, reduceCtorEq, false_and,
        false_or, true_and] at h2
      subst h2
      simp only [List.mem_cons, Prod.mk.injEq, List.not_mem_nil, or_false] at h3
      obtain ⟨_, rfl, _⟩ := h3
      simp

/-- the property for the docstring DPDA, all words -/
example (w : List Nat) := C02_valid_eps_terminating exD exD_keys (by rfl) exD_eps (fun _ => true) w
theorem exD_keys_all : exD.KeysUniqueAll := ⟨exD_keys, by decide⟩
example : exD.moves 2 none 0 3 [0] ∧ exD.movesMem 2 none 0 3 [0] := by
  have h : exD.moves 2 none 0 3 [0] := by show exD.entry? 2 none 0 = some (3, [0]); decide
  exact ⟨h, ((C02_moves_by_membership (σ := Nat) (α := Nat) (γ := Nat)).2.1 exD exD_keys_all ..).mp h⟩

/-- F7: `q0` final, only row `q0 —λ,Z→ (q1, Z)`.  The start configuration accepts `""`; the
DPDA reader returns immediately, like the NPDA (before the fix it moved to `q1` and rejected). -/
def exF7 : DPDA Nat Nat Nat :=
  { states := [0, 1], inputSyms := [0], stackSyms := [0],
    trans := [(0, [(none, [(0, (1, [0]))])])],
    init := 0, initStack := 0, finals := [0], mode := "final_state" }

example : exF7.validate = .ok () ∧
    exF7.readStepwise (fun _ => true) 5 [] = ([⟨0, [], [0]⟩], .returned) ∧
    exF7.lift.readStepwise 5 [] = ([[⟨0, [], [0]⟩]], .returned) := ⟨by rfl, by decide, by decide⟩

/-- m05's killer: a one-symbol sibling next to a λ-move on the same stack top. -/
def exTwo : DPDA Nat Nat Nat :=
  { states := [0, 1], inputSyms := [0], stackSyms := [0],
    trans := [(0, [(some 0, [(0, (1, [0]))]), (none, [(0, (0, [0]))])])],
    init := 0, initStack := 0, finals := [1], mode := "final_state" }

example : exTwo.validate = .error (.lib .nondeterminismError) ∧ exTwo.KeysUnique :=
  ⟨by rfl, by unfold Table.KeysUnique; decide⟩
example : exTwo.TwoMoves := ⟨0, 0, 0, by decide, by decide⟩
example : exTwo.validate ≠ .ok () :=
  C02_dpda_two_moves_rejected exTwo (by unfold Table.KeysUnique; decide) ⟨0, 0, 0, by decide, by decide⟩
/-- there the popped transition matters: the two set orders give different runs -/
example : exTwo.readStepwise (fun _ => true) 3 [0] ≠ exTwo.readStepwise (fun _ => false) 3 [0] := by decide

/-- m03's killer: mode "both", empty stack in a non-final state is accepting. -/
example : Table.hasAccepted ({ exN with mode := "both" } : NPDA Nat Nat Nat) ⟨1, [], []⟩ = true := by decide

end Examples

end AV.Props.C02
