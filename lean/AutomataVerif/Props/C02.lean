/-
Props/C02.lean — C02: pushdown acceptance: NPDA explores all runs; DPDA is deterministic
and agrees.

English statement (properties.jsonl): an NPDA accepts a string exactly when some sequence
of its moves consumes the whole string and ends in a configuration that is accepting under
the chosen acceptance mode (final state, empty stack, or either), the start configuration
included; its step-by-step reader yields, level by level, exactly the configurations
reachable in that many moves.  A DPDA definition is accepted by the constructor exactly
when no configuration can have two applicable moves, and on every string a DPDA gives the
same verdict as the NPDA with the same transition table.  Quantifier: all valid PDA
transition tables whose epsilon-moves cannot run forever, all three acceptance modes, all
strings; determinism validation for all tables, valid or not.

Reference semantics: `Spec/PDA.lean` — `Step Δ c c'` (one move of the table's move relation
`Δ`), `StepN Δ k c c'` (exactly `k` moves), `Accepting mode F c`.  The model of the code is
`Model/PDA.lean`.  Both readers may run forever on λ-cycles; the model takes `fuel` (loop
iterations) and answers `Outcome.outOfFuel` when it runs out.  "The reader accepts" is
`∃ fuel, outcome = returned`, "rejects" is `∃ fuel, outcome = raised RejectionException`;
decided runs do not depend on the fuel (`C02_npda_fuel_monotone`, `C02_dpda_fuel_monotone`).
-/
import AutomataVerif.Proofs.PdaNpda

namespace AV.Props.C02
open AV AV.PDA

variable {σ α γ τ : Type} [DecidableEq σ] [DecidableEq α] [DecidableEq γ]

/-! ## Acceptance test and stack discipline -/

/-- `_has_accepted` is the specification's `Accepting` for each of the three acceptance-mode
literals.  The literals and the tests attached to them are read from the source on every
run (`Generated/Pda.lean`), so an edit of `_has_accepted` breaks this theorem. -/
theorem C02_has_accepted_iff (M : Table σ α γ τ) (m : AccMode) (hm : M.mode = m.literal)
    (c : Config σ α γ) : M.hasAccepted c = true ↔ Accepting m M.finals c :=
  hasAccepted_iff M m hm c

/-- The acceptance modes that validate are exactly the three literals. -/
theorem C02_valid_modes (s : String) : s ∈ Gen.Pda.validModes ↔ ∃ m : AccMode, s = m.literal := by
  constructor
  · intro h
    simp only [Gen.Pda.validModes, List.mem_cons, List.not_mem_nil, or_false] at h
    rcases h with h | h | h
    · exact ⟨.finalState, h⟩
    · exact ⟨.emptyStack, h⟩
    · exact ⟨.both, h⟩
  · rintro ⟨m, rfl⟩; cases m <;> simp [Gen.Pda.validModes, AccMode.literal]

/-- `_replace_stack_top` on a stack with top `X`: the top is replaced by the pushed string and
the FIRST pushed symbol becomes the new top (an empty push pops). -/
theorem C02_replace_stack_top (β push : List γ) (X : γ) :
    replaceStackTop (β ++ [X]) push = β ++ push.reverse ∧
    (∀ Y rest, push = Y :: rest → Stack.top (replaceStackTop (β ++ [X]) push) = some Y) ∧
    (push = [] → replaceStackTop (β ++ [X]) push = β) := by
  refine ⟨replaceStackTop_concat β push X, ?_, ?_⟩
  · rintro Y rest rfl
    rw [replaceStackTop_concat, List.reverse_cons, ← List.append_assoc, Stack.top_concat]
  · rintro rfl; simp

/-! ## NPDA -/

/-- `_get_next_configurations(c)` is exactly the set of configurations one move away from `c`
(an empty stack has no move). -/
theorem C02_npda_next_iff (M : NPDA σ α γ) (c c' : Config σ α γ) :
    c' ∈ M.nextConfigs c ↔ Step M.moves c c' :=
  M.mem_nextConfigs c c'

/-- The step-by-step reader of an NPDA, for every table, mode, word and fuel.
With `ys` the yielded sets, `Lv k` the configurations reachable from the start configuration
in exactly `k` moves and `Acc` the accepting configurations:
(a) the `k`-th yielded set is exactly `Lv k`;
(b) the start level is always yielded, and at most `fuel` further levels;
(c) the reader goes past a level only if that level is non-empty and contains no accepting
    configuration — so it stops at the FIRST level that contains an accepting configuration;
(d) it returns (accepts) iff the last yielded level contains an accepting configuration;
(e) it raises `RejectionException` iff the last yielded level is empty;
(f) it runs out of fuel iff it has yielded `fuel + 1` levels;
(g) it raises nothing but `RejectionException`. -/
theorem C02_npda_stepwise (M : NPDA σ α γ) (m : AccMode) (hm : M.mode = m.literal)
    (fuel : Nat) (w : List α) :
    let ys := (M.readStepwise fuel w).1
    let out := (M.readStepwise fuel w).2
    let Lv := fun (k : Nat) (c : Config σ α γ) => StepN M.moves k (M.start w) c
    let Acc := Accepting m M.finals
    (∀ k L, ys[k]? = some L → ∀ c, c ∈ L ↔ Lv k c) ∧
    (1 ≤ ys.length ∧ ys.length ≤ fuel + 1) ∧
    (∀ k, k + 1 < ys.length → (∃ c, Lv k c) ∧ ∀ c, Lv k c → ¬ Acc c) ∧
    (out = .returned ↔ ys.length ≤ fuel ∧ ∃ c, Lv (ys.length - 1) c ∧ Acc c) ∧
    (out = .raised (.lib .rejectionException) ↔ ys.length ≤ fuel ∧ ¬ ∃ c, Lv (ys.length - 1) c) ∧
    (out = .outOfFuel ↔ ys.length = fuel + 1) ∧
    (∀ e, out = .raised e → e = .lib .rejectionException) := by
  intro ys out Lv Acc
  have S := M.run_spec (M.start w) fuel 0 [M.start w] (by intro c; simp [stepN_zero_iff])
  have hys : ys = [M.start w] :: (M.run fuel [M.start w]).1 := rfl
  have hout : out = (M.run fuel [M.start w]).2 := rfl
  have hlen : ys.length = (M.run fuel [M.start w]).1.length + 1 := by rw [hys]; rfl
  have hacc : ∀ c, M.hasAccepted c = true ↔ Acc c := fun c => hasAccepted_iff M m hm c
  refine ⟨?_, ⟨by omega, by have := S.len; omega⟩, ?_, ?_, ?_, ?_, ?_⟩
  · intro k L hL c
    cases k with
    | zero =>
      rw [hys] at hL; simp at hL; subst hL
      simp [Lv, stepN_zero_iff]
    | succ k =>
      rw [hys, List.getElem?_cons_succ] at hL
      have := S.level k L hL c
      simpa [Lv, Nat.add_comm] using this
  · intro k hk
    have := S.before k (by omega)
    simp only [Nat.zero_add] at this
    refine ⟨this.1, fun c hc hA => ?_⟩
    have h1 := this.2 c hc
    rw [(hacc c).mpr hA] at h1; cases h1
  · rw [hout, S.returned, hlen]
    simp only [Nat.zero_add, Nat.add_sub_cancel, Nat.succ_le_iff, hacc]
    rfl
  · rw [hout, S.rejected, hlen]
    simp only [Nat.zero_add, Nat.add_sub_cancel, Nat.succ_le_iff]
    rfl
  · rw [hout, S.fuelOut, hlen]; omega
  · rw [hout]; exact S.onlyRej

/-- **An NPDA accepts a string exactly when some sequence of its moves consumes the whole
string and ends in an accepting configuration, the start configuration included** (`k = 0`).
"Accepts" = the reader returns for some fuel; by `C02_npda_fuel_monotone` it then returns for
every larger fuel. -/
theorem C02_npda_accept_iff (M : NPDA σ α γ) (m : AccMode) (hm : M.mode = m.literal) (w : List α) :
    (∃ fuel, (M.readStepwise fuel w).2 = .returned) ↔
      ∃ k c, StepN M.moves k (M.start w) c ∧ Accepting m M.finals c := by
  constructor
  · rintro ⟨fuel, h⟩
    obtain ⟨_, _, _, hd, _⟩ := C02_npda_stepwise M m hm fuel w
    obtain ⟨_, c, hc, ha⟩ := hd.mp h
    exact ⟨_, c, hc, ha⟩
  · rintro ⟨k, c, hc, ha⟩
    refine ⟨k + 1, ?_⟩
    obtain ⟨_, hb, hcc, hd, he, hf, hg⟩ := C02_npda_stepwise M m hm (k + 1) w
    cases hout : (M.readStepwise (k + 1) w).2 with
    | returned => rfl
    | outOfFuel =>
      have hl := hf.mp hout
      exact absurd ha ((hcc k (by omega)).2 c hc)
    | raised e =>
      obtain rfl := hg e hout
      obtain ⟨hl, hne⟩ := he.mp hout
      exact absurd (stepN_prefix hc _ (by omega)) hne

/-- An NPDA rejects (the reader raises `RejectionException` for some fuel) exactly when all
runs die out — some level is empty — and no reachable configuration is accepting. -/
theorem C02_npda_reject_iff (M : NPDA σ α γ) (m : AccMode) (hm : M.mode = m.literal) (w : List α) :
    (∃ fuel, (M.readStepwise fuel w).2 = .raised (.lib .rejectionException)) ↔
      (∃ k, ∀ c, ¬ StepN M.moves k (M.start w) c) ∧
      ¬ ∃ k c, StepN M.moves k (M.start w) c ∧ Accepting m M.finals c := by
  constructor
  · rintro ⟨fuel, h⟩
    obtain ⟨_, hb, hcc, _, he, _⟩ := C02_npda_stepwise M m hm fuel w
    obtain ⟨hl, hne⟩ := he.mp h
    refine ⟨⟨_, fun c hc => hne ⟨c, hc⟩⟩, ?_⟩
    rintro ⟨k, c, hc, ha⟩
    rcases Nat.lt_or_ge (k + 1) (M.readStepwise fuel w).1.length with hlt | hge
    · exact (hcc k hlt).2 c hc ha
    · exact hne (stepN_prefix hc _ (by omega))
  · rintro ⟨⟨k, hk⟩, hna⟩
    refine ⟨k + 1, ?_⟩
    obtain ⟨_, hb, hcc, hd, he, hf, hg⟩ := C02_npda_stepwise M m hm (k + 1) w
    cases hout : (M.readStepwise (k + 1) w).2 with
    | returned =>
      obtain ⟨_, c, hc, ha⟩ := hd.mp hout
      exact absurd ⟨_, c, hc, ha⟩ hna
    | outOfFuel =>
      have hl := hf.mp hout
      obtain ⟨c, hc⟩ := (hcc k (by omega)).1
      exact absurd hc (hk c)
    | raised e => rw [hg e hout]

/-- Fuel only matters for undecided runs: once the reader has returned or raised, more
fuel gives the same yields and the same outcome. -/
theorem C02_npda_fuel_monotone (M : NPDA σ α γ) (fuel fuel' : Nat) (w : List α)
    (h : (M.readStepwise fuel w).2 ≠ .outOfFuel) (hle : fuel ≤ fuel') :
    M.readStepwise fuel' w = M.readStepwise fuel w :=
  M.readStepwise_mono fuel fuel' w h hle

/-- The property's quantifier "tables whose epsilon-moves cannot run forever": if all runs on
`w` die out (some level is empty), the reader decides `w`, and its verdict is `accept` iff an
accepting configuration is reachable. -/
theorem C02_npda_decides (M : NPDA σ α γ) (m : AccMode) (hm : M.mode = m.literal) (w : List α)
    (hfin : ∃ k, ∀ c, ¬ StepN M.moves k (M.start w) c) :
    ∃ fuel b, acceptsInput (M.readStepwise fuel w) = some (.ok b) ∧
      (b = true ↔ ∃ k c, StepN M.moves k (M.start w) c ∧ Accepting m M.finals c) := by
  by_cases hA : ∃ k c, StepN M.moves k (M.start w) c ∧ Accepting m M.finals c
  · obtain ⟨fuel, h⟩ := (C02_npda_accept_iff M m hm w).mpr hA
    refine ⟨fuel, true, ?_, by simp [hA]⟩
    simp only [acceptsInput, readInput, h]
    cases hl : (M.readStepwise fuel w).1.getLast? with
    | some L => rfl
    | none => simp [NPDA.readStepwise] at hl
  · obtain ⟨fuel, h⟩ := (C02_npda_reject_iff M m hm w).mpr ⟨hfin, hA⟩
    exact ⟨fuel, false, by simp [acceptsInput, readInput, h], by simp [hA]⟩

/-- `accepts_input` / `read_input` of an NPDA: True with the last yielded set when the reader
returns, False / `RejectionException` when it raises, and never another exception. -/
theorem C02_npda_accepts_input (M : NPDA σ α γ) (fuel : Nat) (w : List α) :
    (acceptsInput (M.readStepwise fuel w) = some (.ok true) ↔ (M.readStepwise fuel w).2 = .returned) ∧
    (acceptsInput (M.readStepwise fuel w) = some (.ok false) ↔
      (M.readStepwise fuel w).2 = .raised (.lib .rejectionException)) ∧
    (acceptsInput (M.readStepwise fuel w) = none ↔ (M.readStepwise fuel w).2 = .outOfFuel) ∧
    (∀ e, acceptsInput (M.readStepwise fuel w) ≠ some (.error e)) ∧
    ((M.readStepwise fuel w).2 = .returned →
      readInput (M.readStepwise fuel w) = (M.readStepwise fuel w).1.getLast?.map .ok) := by
  have hne : (M.readStepwise fuel w).1.getLast? ≠ none := by simp [NPDA.readStepwise]
  have hrej : ∀ e, (M.readStepwise fuel w).2 = .raised e → e = .lib .rejectionException := by
    intro e he
    have S := M.run_spec (M.start w) fuel 0 [M.start w] (by intro c; simp [stepN_zero_iff])
    exact S.onlyRej e he
  cases hout : (M.readStepwise fuel w).2 with
  | outOfFuel => simp [acceptsInput, readInput, hout]
  | raised e =>
    obtain rfl := hrej e hout
    simp [acceptsInput, readInput, hout]
  | returned =>
    cases hl : (M.readStepwise fuel w).1.getLast? with
    | none => exact absurd hl hne
    | some L => simp [acceptsInput, readInput, hout, hl]

end AV.Props.C02
