/-
Props/C19h.lean — C19, crash-freedom of the conversions whose model is a TOTAL function (the gap
left by Props/C19g.lean): `DFA.from_nfa` (`_expand_dfa` + `_iterate_through_symbol_path_pairs`),
`NFA.eliminate_lambda`, `NFA.from_dfa`, and `DFA.complement(minify=True)` of a PARTIAL operand.

Model/ConvertE.lean refines the total models of Model/Convert.lean with explicit Python failures
(every dict subscript of the real function can raise `KeyError`; the list with line numbers is in
its header).  Here: on a definition accepted by `validate` the failure-tracking version returns
`.ok` of exactly the value of the total model — the model that the C07 language theorems
(`C07_from_nfa_lang`, `C07_from_nfa_min`, `C07_elim_lang`, `C07_from_dfa_lang`) are about.

What validation ACCEPTS and the theorems therefore cover: rows keyed by non-states (their target
sets are validated like every other row, so `lambda_closures[end_state]` hits even when such a row
is read), states without a row (`transitions.get(state, {})`), empty target sets, lambda cycles,
unreachable parts.

`_expand_dfa` is modelled as the loop the code runs (one step per edge yielded by `_bfs_edges`),
and the subscript `transitions[cur_state_name]` is shown to hit at every step; the loop is
proved to produce the very table, state list, final list and `allow_partial` flag of the total
model `DFA.expand`, for ANY successor function satisfying `ExpandHyp` (`expandE_eq`), so the
result also covers the other callers of `_expand_dfa` once their `expand_state_fn` is shown not
to fail.  The `retain_names=False` loop (Model/ConvertERenum.lean: tables keyed by the integers
handed out by `get_renaming_function(count(0))`, `visited_set` / `queue` holding subset states) is
proved to simulate the `retain_names=True` loop step by step (Proofs/ConvertERenum.lean), so it
fails nowhere either and builds `renumber` of the same DFA.  All four `retain_names × minify`
variants of `from_nfa` are covered (for `retain_names=False, minify=True` up to the final renaming
of the blocks inside `_minify`, a `setdefault`, which is the total model's).
No subscript was found that can fail on an accepted definition.
-/
import AutomataVerif.Proofs.ConvertE
import AutomataVerif.Proofs.ConvertERenum
import AutomataVerif.Proofs.MinGlueSubset
import AutomataVerif.Proofs.Complete
import AutomataVerif.Props.C19g
import AutomataVerif.Props.C07

namespace AV

set_option linter.unusedSectionVars false

namespace Props.C19
open AV.DFA AV.C07
variable {σ α : Type} [DecidableEq σ] [DecidableEq α]

/-! ## `DFA.from_nfa` -/

/-- **`_iterate_through_symbol_path_pairs(S)` raises no `KeyError`** for ANY set `S` of names
(states, non-states, names of rows keyed by non-states): every `lambda_closures[end_state]` hits,
because validation checks the target sets of every row of the table. -/
theorem C19_symbol_path_pairs_no_keyerror (n : AV.NFA σ α) (hv : n.validate = .ok ())
    (S : List σ) : n.subsetSuccE S = .ok (n.subsetSucc S) :=
  NFA.subsetSuccE_eq ((NFA.validate_eq_ok n).mp hv) S

/-- **The loop of `_expand_dfa` raises no `KeyError`** (`transitions[cur_state_name]` at every
edge) whenever the BFS is exhaustive (`ExpandHyp`) and `expand_state_fn` does not fail on the
universe, and it builds exactly the DFA of the total model `DFA.expand` (same state order, same
rows, same final list, same `allow_partial`). -/
theorem C19_expand_dfa_no_keyerror {S : Type} [DecidableEq S] {succE : S → Res (List (α × S))}
    {succ : S → List (α × S)} {univ : List S} {fuel : Nat} {init : S} (isFin : S → Bool)
    (syms : List α) (h : ExpandHyp succ univ fuel init)
    (hsE : ∀ u ∈ univ, succE u = .ok (succ u)) :
    expandE succE isFin syms fuel init = .ok (expand succ isFin syms fuel init) :=
  expandE_eq isFin syms h hsE

/-- **`DFA.from_nfa(n, retain_names=True, minify=False)` raises no `KeyError`** on an accepted
definition — `_get_lambda_closures()[initial_state]`, every `lambda_closures[end_state]`, every
`transitions[cur_state_name]` — and returns the value of the total model (the one
`C07_from_nfa_lang` / `C07_from_nfa_valid` are about). -/
theorem C19_from_nfa_no_keyerror (n : AV.NFA σ α) (hv : n.validate = .ok ()) :
    n.toDFAE = .ok n.toDFA := by
  have wf := (NFA.validate_eq_ok n).mp hv
  unfold NFA.toDFAE
  rw [bindE_ok (NFA.closureE_eq wf.initOk)]
  exact expandE_eq _ _ (subset_expandHyp n (n.closure n.init)) (fun u _ => NFA.subsetSuccE_eq wf u)

/-- **`DFA.from_nfa(n, retain_names=True, minify=True)` raises no `KeyError` / `StopIteration`**
on an accepted definition (expansion, then every subscript of `_minify`, for every pop order
`pick`) and returns the value of the total model (`C07_from_nfa_min`). -/
theorem C19_from_nfa_min_no_keyerror (n : AV.NFA σ α) (hv : n.validate = .ok ()) (ps : n.PyShape)
    (pick : List Nat → Nat) : n.toDFAMinE pick = .ok (n.toDFAMin pick) := by
  have wf := (NFA.validate_eq_ok n).mp hv
  unfold NFA.toDFAMinE
  rw [bindE_ok (C19_from_nfa_no_keyerror n hv)]
  exact minifyCoreE_eq (toDFA_minSource wf ps) pick

/-- **The loop of `_expand_dfa(retain_names=False)` raises no `KeyError`** under the same
hypotheses (tables keyed by the integers of `get_renaming_function(count(0))`), and builds exactly
`renumber` of the total model. -/
theorem C19_expand_dfa_renum_no_keyerror {S : Type} [DecidableEq S]
    {succE : S → Res (List (α × S))} {succ : S → List (α × S)} {univ : List S} {fuel : Nat}
    {init : S} (isFin : S → Bool) (syms : List α) (h : ExpandHyp succ univ fuel init)
    (hsE : ∀ u ∈ univ, succE u = .ok (succ u)) :
    expandRenumE succE isFin syms fuel init = .ok (expand succ isFin syms fuel init).renumber :=
  expandRenumE_eq isFin syms h hsE

/-- **`DFA.from_nfa(n, retain_names=False, minify=False)` raises no `KeyError`** on an accepted
definition and returns the value of the total model (`C07_from_nfa_renumbered`). -/
theorem C19_from_nfa_renum_no_keyerror (n : AV.NFA σ α) (hv : n.validate = .ok ()) :
    n.toDFARenumE = .ok n.toDFA.renumber := by
  have wf := (NFA.validate_eq_ok n).mp hv
  unfold NFA.toDFARenumE
  rw [bindE_ok (NFA.closureE_eq wf.initOk)]
  exact expandRenumE_eq _ _ (subset_expandHyp n (n.closure n.init))
    (fun u _ => NFA.subsetSuccE_eq wf u)

/-- **`DFA.from_nfa(n)` with the DEFAULT options (`retain_names=False, minify=True`) raises no
`KeyError` / `StopIteration`** on an accepted definition, for every pop order, and returns the
value of the total model `toDFAMinRenum` (`C07_from_nfa_min_renumbered`). -/
theorem C19_from_nfa_default_no_keyerror (n : AV.NFA σ α) (hv : n.validate = .ok ())
    (ps : n.PyShape) (pick : List Nat → Nat) :
    n.toDFAMinRenumE pick = .ok (n.toDFAMinRenum pick) := by
  have wf := (NFA.validate_eq_ok n).mp hv
  unfold NFA.toDFAMinRenumE
  rw [bindE_ok (C19_from_nfa_renum_no_keyerror n hv)]
  exact minifyCoreE_eq (toDFA_renumber_minSource wf ps) pick

/-! ## `NFA.eliminate_lambda`, `NFA.from_dfa` -/

/-- **`eliminate_lambda()` raises no `KeyError`** on an accepted definition —
`lambda_closures[state]` for every declared state, `lambda_closures[end_state]` inside
`_get_next_current_states` for every state of every lambda enclosure — and hands the constructor
exactly the arguments of the total model (`C07_elim_lang`; by `C07_elim_valid` the constructor
accepts them). -/
theorem C19_eliminate_lambda_no_keyerror (n : AV.NFA σ α) (hv : n.validate = .ok ()) :
    n.eliminateLambdaE = .ok n.eliminateLambda :=
  NFA.eliminateLambdaE_eq ((NFA.validate_eq_ok n).mp hv)

/-- `eliminate_lambda()` ends with no exception at all on an accepted definition: no `KeyError`
in `_eliminate_lambda`, and the final constructor call validates its arguments successfully. -/
theorem C19_eliminate_lambda_total (n : AV.NFA σ α) (hv : n.validate = .ok ()) (ps : n.PyShape) :
    ∃ r, n.eliminateLambdaE = .ok r ∧ r.validate = .ok () :=
  ⟨n.eliminateLambda, C19_eliminate_lambda_no_keyerror n hv, AV.Props.C07.C07_elim_valid n hv ps⟩

/-- **`NFA.from_dfa(d)`** performs no subscript (a dict comprehension over `.items()`); its
constructor call accepts the arguments whenever `d` is an accepted DFA. -/
theorem C19_from_dfa_total (d : AV.DFA σ α) (hv : d.validate = .ok ()) :
    ∃ r, NFA.ofDFAE d = .ok r ∧ r = NFA.ofDFA d ∧ r.validate = .ok () :=
  ⟨NFA.ofDFA d, rfl, rfl, (NFA.validate_eq_ok _).mpr (ofDFA_wf ((DFA.validate_eq_ok d).mp hv))⟩

/-- The round trip `DFA.from_nfa(NFA.from_dfa(d), retain_names=True, minify=False)` raises no
`KeyError` on an accepted DFA. -/
theorem C19_from_dfa_from_nfa_no_keyerror (d : AV.DFA σ α) (hv : d.validate = .ok ()) :
    (NFA.ofDFA d).toDFAE = .ok (NFA.ofDFA d).toDFA :=
  C19_from_nfa_no_keyerror _ ((NFA.validate_eq_ok _).mpr (ofDFA_wf ((DFA.validate_eq_ok d).mp hv)))

/-! ## `complement(minify=True)` of a partial operand -/

/-- **`complement(retain_names=True, minify=True)` raises no `KeyError` / `StopIteration`** on an
accepted definition, PARTIAL OR COMPLETE, as the code composes it: `to_complete()` iff
`allow_partial` (with the trap id the code finds, any name — the result of `to_complete` is a
well-formed complete table whatever it is), `complete_dfa.transitions[state]` in the BFS, then
`_minify`.  The value is the one of the total model `complementMinFull` (`C04_complement_min`). -/
theorem C19_complement_min_full_no_keyerror (d : AV.DFA σ α) (hv : d.validate = .ok ())
    (ps : d.PyShape) (trap : σ) (pick : List Nat → Nat) :
    ∃ C, (if d.allowPartial then d.toComplete trap false else .ok d) = .ok C ∧
      d.complementMinFull trap pick = .ok (C.complementMin pick) ∧
      d.complementMinFullE trap pick = .ok (C.complementMin pick) := by
  have wf := (DFA.validate_eq_ok d).mp hv
  unfold complementMinFull complementMinFullE
  cases hp : d.allowPartial with
  | false =>
    refine ⟨d, by simp, by simp, ?_⟩
    simp only [Bool.false_eq_true, if_false]
    exact C19_complement_min_no_keyerror d hv hp ps pick
  | true =>
    simp only [if_true]
    cases hl : d.looksPartial with
    | true =>
      have hC := C04.toComplete_of_partial d trap false hl (Or.inl rfl)
      refine ⟨d.toCompleteCore trap, hC, by rw [hC], ?_⟩
      rw [hC]
      exact C19_complement_min_no_keyerror _
        ((DFA.validate_eq_ok _).mpr (C04.toCompleteCore_wf wf)) rfl
        (C04.toCompleteCore_pyShape wf ps) pick
    | false =>
      have hC := C04.toComplete_of_not_partial d trap false hl
      refine ⟨d, hC, by rw [hC], ?_⟩
      rw [hC]
      -- every row is full: the same table flagged complete is accepted as well
      have wf' : ({ d with allowPartial := false } : AV.DFA σ α).WF := by
        refine ⟨wf.rows, ?_, wf.symsOk, wf.tgtOk, wf.initOk, wf.finalsOk⟩
        intro _ kv hkv
        have hlen : kv.2.length = d.syms.length := by
          have := hl
          simp only [looksPartial, List.any_eq_false, bne_iff_ne, ne_eq, Decidable.not_not] at this
          simpa using this kv hkv
        exact C04.row_full_of_length (ps.rows_nodup kv hkv) (wf.symsOk kv hkv) hlen
      have ps' : ({ d with allowPartial := false } : AV.DFA σ α).PyShape :=
        ⟨ps.states_nodup, ps.syms_nodup, ps.finals_nodup, ps.keys_nodup, ps.rows_nodup⟩
      exact C19_complement_min_no_keyerror ({ d with allowPartial := false } : AV.DFA σ α)
        ((DFA.validate_eq_ok _).mpr wf') rfl ps' pick

/-- The gap of Props/C19g.lean for these operations, in the vocabulary of Props/C19e.lean: none
of them ends with an undocumented Python error on an accepted definition. -/
theorem C19_conversions_no_crash (n : AV.NFA σ α) (hv : n.validate = .ok ()) (ps : n.PyShape)
    (pick : List Nat → Nat) :
    (∀ e : PyErr, n.toDFAE ≠ .error (.py e)) ∧
    (∀ e : PyErr, n.toDFAMinE pick ≠ .error (.py e)) ∧
    (∀ e : PyErr, n.toDFARenumE ≠ .error (.py e)) ∧
    (∀ e : PyErr, n.toDFAMinRenumE pick ≠ .error (.py e)) ∧
    (∀ e : PyErr, n.eliminateLambdaE ≠ .error (.py e)) := by
  rw [C19_from_nfa_no_keyerror n hv, C19_from_nfa_min_no_keyerror n hv ps pick,
    C19_from_nfa_renum_no_keyerror n hv, C19_from_nfa_default_no_keyerror n hv ps pick,
    C19_eliminate_lambda_no_keyerror n hv]
  refine ⟨?_, ?_, ?_, ?_, ?_⟩ <;> intro e h <;> cases h

/-! ## non-vacuity, and what the failure-tracking models do outside the hypotheses -/

/-- Equality of results is decidable (for the `decide` examples). -/
local instance decEqRes' {β : Type} [DecidableEq β] : DecidableEq (Res β) := fun a b =>
  match a, b with
  | .ok x, .ok y => if h : x = y then isTrue (by rw [h]) else isFalse (fun he => h (by cases he; rfl))
  | .error x, .error y =>
    if h : x = y then isTrue (by rw [h]) else isFalse (fun he => h (by cases he; rfl))
  | .ok _, .error _ => isFalse (fun he => by cases he)
  | .error _, .ok _ => isFalse (fun he => by cases he)

/-- An accepted NFA with a lambda cycle `0 ⇄ 1`, a state without a row (`3`), an empty target set
(row of `2`), and a row keyed by the non-state `7` (with a lambda edge and a symbol edge). -/
def exCyc : AV.NFA Nat Nat :=
  { states := [0, 1, 2, 3], syms := [0, 1],
    trans := [(0, [(none, [1]), (some 0, [2])]), (1, [(none, [0]), (some 1, [1, 3])]),
              (2, [(some 0, []), (some 1, [0])]), (7, [(some 0, [0]), (none, [2])])],
    init := 0, finals := [3] }

example : exCyc.validate = .ok () := by decide

theorem exCyc_shape : exCyc.PyShape :=
  ⟨by decide, by decide, by decide, by decide, by decide, by decide⟩

/-- The failure-tracking runs on the example end with `.ok` (computed, not via the theorems). -/
example : (match exCyc.toDFAE with | .ok m => m.states | .error _ => []) =
    [[0, 1], [2], [0, 1, 3]] := by decide
example : (match exCyc.toDFAE with | .ok m => (m.trans, m.finals, m.allowPartial) | .error _ => ([], [], false)) =
    (exCyc.toDFA.trans, exCyc.toDFA.finals, exCyc.toDFA.allowPartial) := by decide
example : (match exCyc.toDFAMinE with | .ok m => m.states.length | .error _ => 99) = 3 := by decide
example : (match exCyc.eliminateLambdaE with | .ok m => (m.states, m.finals) | .error _ => ([], [])) =
    (exCyc.eliminateLambda.states, exCyc.eliminateLambda.finals) := by decide
example : (match exCyc.toDFARenumE with | .ok m => (m.states, m.trans, m.finals) | .error _ => ([], [], [])) =
    ([0, 1, 2], [(0, [(0, 1), (1, 2)]), (1, [(1, 0)]), (2, [(0, 1), (1, 2)])], [2]) := by decide
example : (match exCyc.toDFAMinRenumE with | .ok m => m.states.length | .error _ => 99) = 3 := by decide
/-- Reading the row keyed by the non-state `7` does not fail either. -/
example : (match exCyc.subsetSuccE [7, 3, 9] with | .ok r => r | .error _ => []) = [(0, [0, 1])] := by
  decide

/-- The failure tracking is not vacuous: a target outside `states` (validation rejects it with
`InvalidStateError`) makes `lambda_closures[end_state]` fail with `KeyError` in `from_nfa` and in
`eliminate_lambda` (through the lambda enclosure of `0`), while the total models go on. -/
def exBadTargetH : AV.NFA Nat Nat :=
  { states := [0, 1], syms := [0], trans := [(0, [(none, [1])]), (1, [(some 0, [5])])],
    init := 0, finals := [1] }

example : exBadTargetH.validate = .error (.lib .invalidStateError) ∧
    (match exBadTargetH.toDFAE with | .error (.py .keyError) => true | _ => false) = true ∧
    (match exBadTargetH.eliminateLambdaE with | .error (.py .keyError) => true | _ => false) = true ∧
    exBadTargetH.toDFA.states.length = 2 := by decide

/-- An initial state outside `states`: `_get_lambda_closures()[initial_state]` fails. -/
def exBadInitH : AV.NFA Nat Nat :=
  { states := [0], syms := [0], trans := [(0, [(some 0, [0])])], init := 4, finals := [] }

example : exBadInitH.validate = .error (.lib .invalidStateError) ∧
    (match exBadInitH.toDFAE with | .error (.py .keyError) => true | _ => false) = true := by decide

/-- `transitions[cur_state_name]` is a real obligation of the loop: started from a state whose
row was never created, the first edge fails. -/
example : (match expEdgeE (S := Nat) (α := Nat) (fun _ => false) 5
      { trans := [(0, [])], states := [0], finals := [], queue := [] } (0, 0) with
    | .error (.py .keyError) => true | _ => false) = true := by decide

/-- A partial accepted DFA: `complement(minify=True)` through `to_complete` (trap id 9). -/
example : (match exDead.complementMinFullE 9 (fun _ => 0) with
    | .ok m => m.states.length | .error _ => 99) = 3 := by decide

end Props.C19
end AV
