/-
Proofs/RandomSel.lean — `random_word` (Model/DFAQuery.lean): WHICH word the recorded `randint`
results select.  `Sel d r q cs w` is a specification that does not mention the loop: it follows
the word `w` symbol by symbol and asks, for each symbol, that the matching outcome `c` picks an
edge with that label (`pickEdge`, the inner `for symbol, next_state in transition.items()` loop).
`randomWordLoop_sel` / `randomWord_ok_iff_sel` prove that this is exactly the event
"`random_word(k)` returns `w`" (review gap C13/G2: the uniformity statement is now a statement
about the output of `randomWord`).  Core only.
-/
import AutomataVerif.Proofs.Random

namespace AV
namespace DFA

set_option linter.unusedSectionVars false

variable {σ α : Type} [DecidableEq σ] [DecidableEq α]

/-- The outcomes `cs` select the word `w` from the state `q` with `r` symbols to go: the first
outcome picks an edge `(a, t)` of the row of `q` (count-weighted, `pickEdge` with the counts of
the level below), `a` is the first symbol of `w`, and the remaining outcomes select the rest of
`w` from `t`; with no symbol to go the word is empty and the state is final (the `assert`). -/
def Sel (d : DFA σ α) : Nat → σ → List Nat → List α → Prop
  | 0, q, _, w => w = [] ∧ q ∈ d.finals
  | r + 1, q, cs, w =>
      ∃ a t w', w = a :: w' ∧ pickEdge (d.cnt r) (d.row q) (cs.headD 0) = some (a, t) ∧
        Sel d r t cs.tail w'

namespace RandSel

theorem sel_zero (d : DFA σ α) (q : σ) (cs : List Nat) (w : List α) :
    d.Sel 0 q cs w ↔ w = [] ∧ q ∈ d.finals := Iff.rfl

/-- The reviewer's reading of `Sel`: one outcome per symbol. -/
theorem sel_cons (d : DFA σ α) (r : Nat) (q : σ) (c : Nat) (cs : List Nat) (a : α) (w : List α) :
    d.Sel (r + 1) q (c :: cs) (a :: w) ↔
      ∃ t, pickEdge (d.cnt r) (d.row q) c = some (a, t) ∧ d.Sel r t cs w := by
  constructor
  · rintro ⟨a', t, w', hw, hp, hs⟩
    cases hw
    exact ⟨t, hp, hs⟩
  · rintro ⟨t, hp, hs⟩
    exact ⟨a, t, w, rfl, hp, hs⟩

theorem not_sel_succ_nil (d : DFA σ α) (r : Nat) (q : σ) (cs : List Nat) : ¬ d.Sel (r + 1) q cs [] := by
  rintro ⟨a, t, w', hw, _⟩
  cases hw

/-- With the outcome `c` fixed and the edge it picks known, `Sel` of a longer word reduces to the
label test and `Sel` of the rest. -/
theorem sel_cons_of_pick (d : DFA σ α) (r : Nat) (q : σ) (c : Nat) (cs : List Nat) (a : α)
    (w : List α) {e : α × σ} (he : pickEdge (d.cnt r) (d.row q) c = some e) :
    d.Sel (r + 1) q (c :: cs) (a :: w) ↔ e.1 = a ∧ d.Sel r e.2 cs w := by
  rw [sel_cons]
  constructor
  · rintro ⟨t, hp, hs⟩
    rw [he] at hp
    cases hp
    exact ⟨rfl, hs⟩
  · rintro ⟨h1, hs⟩
    refine ⟨e.2, ?_, hs⟩
    rw [he, ← h1]

theorem not_sel_of_pick_none (d : DFA σ α) (r : Nat) (q : σ) (c : Nat) (cs : List Nat)
    (w : List α) (he : pickEdge (d.cnt r) (d.row q) c = none) : ¬ d.Sel (r + 1) q (c :: cs) w := by
  rintro ⟨a, t, w', _, hp, _⟩
  simp only [List.headD_cons] at hp
  rw [he] at hp
  cases hp

/-- The outcomes select at most one word. -/
theorem sel_unique (d : DFA σ α) : ∀ (r : Nat) (q : σ) (cs : List Nat) (w w' : List α),
    d.Sel r q cs w → d.Sel r q cs w' → w = w' := by
  intro r
  induction r with
  | zero =>
    intro q cs w w' h h'
    rw [h.1, h'.1]
  | succ r ih =>
    rintro q cs w w' ⟨a, t, v, hw, hp, hs⟩ ⟨a', t', v', hw', hp', hs'⟩
    rw [hp] at hp'
    cases hp'
    rw [hw, hw', ih t cs.tail v v' hs hs']

/-- What `Sel` means in terms of the language: the selected word has length `r` and is accepted
from `q` (read through the transition function). -/
theorem sel_accepts {d : DFA σ α} (hd : d.IsDict) : ∀ (r : Nat) (q : σ) (cs : List Nat) (w : List α),
    d.Sel r q cs w → w.length = r ∧ d.acceptsFrom q w = true := by
  intro r
  induction r with
  | zero =>
    rintro q cs w ⟨hw, hq⟩
    subst hw
    exact ⟨rfl, by simp [acceptsFrom, DFA.isFinal, hq]⟩
  | succ r ih =>
    rintro q cs w ⟨a, t, v, hw, hp, hs⟩
    subst hw
    obtain ⟨hl, hacc⟩ := ih t cs.tail v hs
    have hstep := mem_row_lookup hd (pickEdge_mem hp)
    refine ⟨by simp [hl], ?_⟩
    simp only [acceptsFrom, run_cons] at hacc ⊢
    rw [hstep]
    exact hacc

/-- Outcomes that select a word respect the contract of `randint` at every step. -/
theorem sel_inRange {d : DFA σ α} (wf : d.WF) : ∀ (r : Nat) (q : σ) (cs : List Nat) (w : List α),
    q ∈ d.states → d.Sel r q cs w → d.InRange r q cs := by
  intro r
  induction r with
  | zero => intro q cs w _ _; trivial
  | succ r ih =>
    rintro q cs w hq ⟨a, t, v, _, hp, hs⟩
    have ht : t ∈ d.states :=
      row_vals_states wf (List.mem_map.mpr ⟨(a, t), pickEdge_mem hp, rfl⟩)
    refine ⟨?_, ?_⟩
    · rw [cnt_succ]
      simp only [hq, if_true]
      rcases Nat.lt_or_ge (cs.headD 0) (weight (d.cnt r) (d.row q)) with hlt | hge
      · exact hlt
      · rw [pickEdge_none_of_ge hge] at hp
        cases hp
    · rw [hp]
      exact ih t cs.tail v ht hs

/-- **The loop returns the word selected by the outcomes.**  From `q` with `r` symbols to go,
a positive count and in-range outcomes, the loop ends normally, in a final state, having
appended to the accumulator exactly the word `w` with `Sel d r q cs w`. -/
theorem randomWordLoop_sel {d : DFA σ α} (wf : d.WF) :
    ∀ (r : Nat) (q : σ) (cs : List Nat) (acc : List α), q ∈ d.states → 0 < d.cnt r q →
      d.InRange r q cs →
      ∃ w qf, d.randomWordLoop d.cnt r q cs acc = .ok (acc.reverse ++ w, qf) ∧ qf ∈ d.finals ∧
        d.Sel r q cs w := by
  intro r
  induction r with
  | zero =>
    intro q cs acc _ hpos _
    have hq : q ∈ d.finals := by
      rw [cnt_zero] at hpos
      by_cases h : q ∈ d.finals
      · exact h
      · simp [h] at hpos
    exact ⟨[], q, by simp [randomWordLoop], hq, rfl, hq⟩
  | succ r ih =>
    intro q cs acc hq hpos hin
    obtain ⟨hlt, hrest⟩ := hin
    unfold randomWordLoop
    have hne : decide (d.cnt (r + 1) q = 0) = false := by simp; omega
    simp only [hne]
    have hw : cs.headD 0 < weight (d.cnt r) (d.row q) := by
      rw [cnt_succ] at hlt; simpa [hq] using hlt
    obtain ⟨e, he, hepos⟩ := pickEdge_lt_weight hw
    rw [he] at hrest
    simp only [he]
    have hmem := pickEdge_mem he
    have hes : e.2 ∈ d.states := row_vals_states wf (List.mem_map.mpr ⟨e, hmem, rfl⟩)
    obtain ⟨w, qf, hrun, hfin, hsel⟩ := ih e.2 cs.tail (e.1 :: acc) hes hepos hrest
    refine ⟨e.1 :: w, qf, ?_, hfin, e.1, e.2, w, rfl, he, hsel⟩
    obtain ⟨a, t⟩ := e
    simp only at hrun ⊢
    rw [hrun]; simp

/-- **Output characterisation of `random_word`** (model level): with in-range outcomes,
`random_word(k)` returns `w` exactly when the outcomes select `w` from the initial state. -/
theorem randomWord_ok_iff_sel {d : DFA σ α} (wf : d.WF) (k : Nat) (cs : List Nat) (w : List α)
    (hin : d.InRange k d.init cs) : d.randomWord k cs = .ok w ↔ d.Sel k d.init cs w := by
  rw [randomWord_eq]
  unfold randomWordCore
  by_cases h0 : d.cnt k d.init = 0
  · have hdec : decide (d.cnt k d.init = 0) = true := by simpa using h0
    simp only [hdec]
    constructor
    · intro h; cases h
    · intro hs
      exfalso
      cases k with
      | zero =>
        rw [cnt_zero] at h0
        simp [hs.2] at h0
      | succ r =>
        have := hin.1
        omega
  · have hdec : decide (d.cnt k d.init = 0) = false := by simpa using h0
    obtain ⟨w0, qf, hrun, hfin, hsel⟩ :=
      randomWordLoop_sel wf k d.init cs [] wf.initOk (Nat.pos_of_ne_zero h0) hin
    simp only [hdec, hrun, List.reverse_nil, List.nil_append]
    have hf : decide (qf ∈ d.finals) = true := by simpa using hfin
    simp only [hf]
    constructor
    · intro h
      cases h
      exact hsel
    · intro hs
      rw [sel_unique d k d.init cs w w0 hs hsel]

/-- … and selecting outcomes are in range, so this direction needs no hypothesis on `cs`. -/
theorem randomWord_ok_of_sel {d : DFA σ α} (wf : d.WF) (k : Nat) (cs : List Nat) (w : List α)
    (hs : d.Sel k d.init cs w) : d.randomWord k cs = .ok w :=
  (randomWord_ok_iff_sel wf k cs w (sel_inRange wf k d.init cs w wf.initOk hs)).mpr hs

end RandSel
end DFA
end AV
