/-
Proofs/GnfaTable.lean — the dict manipulation of `GNFA.to_regex` (model: `ripPair`, `ripStep`,
`findMin`, `toRegexLoop`) computes the ripped graph of `GnfaSpec.rip`, never raises on a table
of the documented shape, and hence (with the elimination lemma) returns a label for the language
of the GNFA — for every label type / label rule that is sound, and for every tie-break order.
-/
import AutomataVerif.Proofs.Basic
import AutomataVerif.Proofs.GnfaElim
import AutomataVerif.Model.GNFA

namespace AV.GNFA
open AV AV.GnfaSpec

set_option linter.unusedSectionVars false

variable {σ ℓ κ β : Type} [DecidableEq σ] [DecidableEq ℓ] [DecidableEq κ] [DecidableEq β]

/-! ### association lists: insert / delete -/

theorem alookup_ainsert (k k' : κ) (v : β) (d : List (κ × β)) :
    alookup k' (ainsert k v d) = if k' = k then some v else alookup k' d := by
  induction d with
  | nil =>
    simp only [ainsert, alookup_cons, alookup_nil]
    by_cases h : k = k'
    · simp [h]
    · have : ¬ k' = k := fun e => h e.symm
      simp [h, this]
  | cons e t ih =>
    obtain ⟨a, b⟩ := e
    simp only [ainsert]
    by_cases ha : a = k
    · subst ha
      simp only [if_true, alookup_cons]
      by_cases h : a = k'
      · simp [h]
      · have : ¬ k' = a := fun e => h e.symm
        simp [h, this]
    · simp only [ha, if_false, alookup_cons, ih]
      by_cases h : a = k'
      · subst h; simp [ha]
      · simp [h]

theorem alookup_adel (k k' : κ) (d : List (κ × β)) :
    alookup k' (adel k d) = if k' = k then none else alookup k' d := by
  induction d with
  | nil => simp [adel]
  | cons e t ih =>
    obtain ⟨a, b⟩ := e
    unfold adel at ih ⊢
    by_cases ha : a = k
    · subst ha
      simp only [List.filter_cons, ne_eq, not_true_eq_false, decide_false, Bool.false_eq_true,
        if_false, ih, alookup_cons]
      by_cases h : k' = a
      · simp [h]
      · have : ¬ a = k' := fun e => h e.symm
        simp [h, this]
    · simp only [List.filter_cons, ne_eq, ha, not_false_eq_true, decide_true, if_true,
        alookup_cons, ih]
      by_cases h : a = k'
      · subst h; simp [ha]
      · simp [h]

/-! ### two-level lookup -/

/-- `tr.get(p, {}).get(r)` with "missing" made explicit: `none` = no entry,
`some none` = the entry `None`, `some (some l)` = a label. -/
def get2 (tr : Table σ ℓ) (p r : σ) : Option (Option ℓ) := (alookup p tr).bind (alookup r)

/-- The label at `(p, r)`, a missing entry read as `None`. -/
def lab (tr : Table σ ℓ) (p r : σ) : Option ℓ := (get2 tr p r).join

theorem getE_eq (tr : Table σ ℓ) (p r : σ) :
    getE tr p r = match get2 tr p r with
      | some l => .ok l
      | none => .error (.py .keyError) := by
  unfold getE get2
  cases alookup p tr with
  | none => rfl
  | some row => cases h : alookup r row <;> simp [h]

theorem getE_of_get2 {tr : Table σ ℓ} {p r : σ} {l : Option ℓ} (h : get2 tr p r = some l) :
    getE tr p r = .ok l := by rw [getE_eq, h]

theorem row_of_get2 {tr : Table σ ℓ} {p r : σ} (h : (get2 tr p r).isSome) :
    (alookup p tr).isSome := by
  unfold get2 at h
  cases h' : alookup p tr with
  | none => simp [h'] at h
  | some _ => rfl

theorem setE_spec {tr : Table σ ℓ} {p : σ} (hrow : (alookup p tr).isSome) (r : σ) (v : Option ℓ) :
    ∃ tr', setE tr p r v = .ok tr' ∧
      (∀ p', (alookup p' tr').isSome = (alookup p' tr).isSome) ∧
      ∀ p' r', get2 tr' p' r' = if p' = p ∧ r' = r then some v else get2 tr p' r' := by
  unfold setE
  cases hr : alookup p tr with
  | none => simp [hr] at hrow
  | some row =>
    refine ⟨_, rfl, ?_, ?_⟩
    · intro p'
      rw [alookup_ainsert]
      by_cases h : p' = p
      · subst h; simp [hr]
      · simp [h]
    · intro p' r'
      unfold get2
      rw [alookup_ainsert]
      by_cases h : p' = p
      · subst h
        simp only [if_true, Option.bind_some, alookup_ainsert, true_and, hr]
      · simp [h]

theorem delRow_spec {tr : Table σ ℓ} {q : σ} (hrow : (alookup q tr).isSome) :
    ∃ tr', delRow tr q = .ok tr' ∧
      (∀ p', (alookup p' tr').isSome = (if p' = q then false else (alookup p' tr).isSome)) ∧
      ∀ p' r', get2 tr' p' r' = if p' = q then none else get2 tr p' r' := by
  unfold delRow ahas
  rw [if_pos hrow]
  refine ⟨_, rfl, ?_, ?_⟩
  · intro p'
    rw [alookup_adel]
    by_cases h : p' = q <;> simp [h]
  · intro p' r'
    unfold get2
    rw [alookup_adel]
    by_cases h : p' = q <;> simp [h]

theorem delEntry_spec {tr : Table σ ℓ} {p q : σ} (h : (get2 tr p q).isSome) :
    ∃ tr', delEntry tr p q = .ok tr' ∧
      (∀ p', (alookup p' tr').isSome = (alookup p' tr).isSome) ∧
      ∀ p' r', get2 tr' p' r' = if p' = p ∧ r' = q then none else get2 tr p' r' := by
  unfold delEntry
  unfold get2 at h
  cases hr : alookup p tr with
  | none => simp [hr] at h
  | some row =>
    simp only [hr, Option.bind_some] at h
    simp only [ahas, h, if_true]
    refine ⟨_, rfl, ?_, ?_⟩
    · intro p'
      rw [alookup_ainsert]
      by_cases h' : p' = p
      · subst h'; simp [hr]
      · simp [h']
    · intro p' r'
      unfold get2
      rw [alookup_ainsert]
      by_cases h' : p' = p
      · subst h'
        simp only [if_true, Option.bind_some, alookup_adel, true_and, hr]
      · simp [h']

/-! ### the double loop of `to_regex` -/

/-- All updates of the `for q_i, q_j in product(…)` loop read the table as it was before the
loop: entries in row/column `q_rip` are never written, and each pair is written once. -/
theorem fold_ripPair (comb : Option ℓ → Option ℓ → Option ℓ → Option ℓ → Option ℓ) (q : σ)
    (tr0 : Table σ ℓ) :
    ∀ (l : List (σ × σ)) (tr : Table σ ℓ),
      l.Nodup →
      (∀ pr ∈ l, pr.1 ≠ q ∧ pr.2 ≠ q ∧ (get2 tr0 pr.1 q).isSome ∧ (get2 tr0 q q).isSome ∧
        (get2 tr0 q pr.2).isSome ∧ (get2 tr0 pr.1 pr.2).isSome) →
      (∀ p r, (p = q ∨ r = q ∨ (p, r) ∈ l) → get2 tr p r = get2 tr0 p r) →
      (∀ p, (alookup p tr).isSome = (alookup p tr0).isSome) →
      ∃ tr', l.foldlM (fun tr pr => ripPair comb q tr pr.1 pr.2) tr = .ok tr' ∧
        (∀ p, (alookup p tr').isSome = (alookup p tr0).isSome) ∧
        ∀ p r, get2 tr' p r =
          if (p, r) ∈ l then
            some (comb (lab tr0 p q) (lab tr0 q q) (lab tr0 q r) (lab tr0 p r))
          else get2 tr p r := by
  intro l
  induction l with
  | nil =>
    intro tr _ _ _ hrows
    exact ⟨tr, rfl, hrows, by simp⟩
  | cons pr l ih =>
    intro tr hnd hmem hsame hrows
    obtain ⟨i, j⟩ := pr
    obtain ⟨hiq, hjq, h1, h2, h3, h4⟩ := hmem (i, j) (by simp)
    simp only at hiq hjq h1 h2 h3 h4
    have hnd' := List.nodup_cons.mp hnd
    -- the four reads
    obtain ⟨r1, hr1⟩ := Option.isSome_iff_exists.mp h1
    obtain ⟨r2, hr2⟩ := Option.isSome_iff_exists.mp h2
    obtain ⟨r3, hr3⟩ := Option.isSome_iff_exists.mp h3
    obtain ⟨r4, hr4⟩ := Option.isSome_iff_exists.mp h4
    have e1 : getE tr i q = .ok r1 := getE_of_get2 (by rw [hsame i q (Or.inr (Or.inl rfl)), hr1])
    have e2 : getE tr q q = .ok r2 := getE_of_get2 (by rw [hsame q q (Or.inl rfl), hr2])
    have e3 : getE tr q j = .ok r3 := getE_of_get2 (by rw [hsame q j (Or.inl rfl), hr3])
    have e4 : getE tr i j = .ok r4 :=
      getE_of_get2 (by rw [hsame i j (Or.inr (Or.inr (by simp))), hr4])
    have hrow : (alookup i tr).isSome := by rw [hrows]; exact row_of_get2 h1
    obtain ⟨tr1, hset, hrows1, hget1⟩ := setE_spec hrow j (comb r1 r2 r3 r4)
    have hstep : ripPair comb q tr i j = .ok tr1 := by
      unfold ripPair
      rw [e1]; simp only [bind, Except.bind]
      rw [e2]; simp only
      rw [e3]; simp only
      rw [e4]; simp only
      exact hset
    have hsame1 : ∀ p r, (p = q ∨ r = q ∨ (p, r) ∈ l) → get2 tr1 p r = get2 tr0 p r := by
      intro p r hpr
      rw [hget1]
      have hne : ¬ (p = i ∧ r = j) := by
        rintro ⟨rfl, rfl⟩
        rcases hpr with h | h | h
        · exact hiq h
        · exact hjq h
        · exact hnd'.1 h
      rw [if_neg hne]
      apply hsame
      rcases hpr with h | h | h
      · exact Or.inl h
      · exact Or.inr (Or.inl h)
      · exact Or.inr (Or.inr (List.mem_cons_of_mem _ h))
    obtain ⟨tr', hfold, hrows', hget'⟩ := ih tr1 hnd'.2
      (fun pr hpr => hmem pr (List.mem_cons_of_mem _ hpr)) hsame1
      (fun p => by rw [hrows1, hrows])
    refine ⟨tr', ?_, hrows', ?_⟩
    · rw [List.foldlM_cons]
      simp only [bind, Except.bind, hstep]
      exact hfold
    · intro p r
      rw [hget']
      by_cases hin : (p, r) ∈ l
      · have : (p, r) ∈ (i, j) :: l := List.mem_cons_of_mem _ hin
        rw [if_pos hin, if_pos this]
      · rw [if_neg hin, hget1]
        by_cases hij : p = i ∧ r = j
        · obtain ⟨rfl, rfl⟩ := hij
          rw [if_pos ⟨rfl, rfl⟩, if_pos (by simp)]
          simp only [lab, hr1, hr2, hr3, hr4, Option.join_some]
        · rw [if_neg hij, if_neg]
          intro hmem'
          rcases List.mem_cons.mp hmem' with h | h
          · exact hij ⟨congrArg Prod.fst h, congrArg Prod.snd h⟩
          · exact hin h

theorem fold_delEntry (q : σ) :
    ∀ (l : List σ) (tr : Table σ ℓ),
      l.Nodup →
      (∀ p ∈ l, (get2 tr p q).isSome) →
      ∃ tr', l.foldlM (fun tr p => delEntry tr p q) tr = .ok tr' ∧
        (∀ p, (alookup p tr').isSome = (alookup p tr).isSome) ∧
        ∀ p r, get2 tr' p r = if p ∈ l ∧ r = q then none else get2 tr p r := by
  intro l
  induction l with
  | nil => intro tr _ _; exact ⟨tr, rfl, fun _ => rfl, by simp⟩
  | cons a l ih =>
    intro tr hnd hmem
    have hnd' := List.nodup_cons.mp hnd
    obtain ⟨tr1, hdel, hrows1, hget1⟩ := delEntry_spec (hmem a (by simp))
    have hmem1 : ∀ p ∈ l, (get2 tr1 p q).isSome := by
      intro p hp
      rw [hget1]
      have hne : ¬ (p = a ∧ q = q) := by
        rintro ⟨rfl, _⟩
        exact hnd'.1 hp
      rw [if_neg hne]; exact hmem p (List.mem_cons_of_mem _ hp)
    obtain ⟨tr', hfold, hrows', hget'⟩ := ih tr1 hnd'.2 hmem1
    refine ⟨tr', ?_, fun p => by rw [hrows', hrows1], ?_⟩
    · rw [List.foldlM_cons]
      simp only [bind, Except.bind, hdel]
      exact hfold
    · intro p r
      rw [hget', hget1]
      by_cases h1 : p ∈ l ∧ r = q
      · rw [if_pos h1, if_pos ⟨List.mem_cons_of_mem _ h1.1, h1.2⟩]
      · rw [if_neg h1]
        by_cases h2 : p = a ∧ r = q
        · rw [if_pos h2, if_pos ⟨by simp [h2.1], h2.2⟩]
        · rw [if_neg h2, if_neg]
          rintro ⟨hp, hr⟩
          rcases List.mem_cons.mp hp with h | h
          · exact h2 ⟨h, hr⟩
          · exact h1 ⟨h, hr⟩

/-! ### the documented shape of a GNFA table -/

/-- What `from_dfa` / `from_nfa` build and `to_regex` maintains: a row for every state but the
final one, in each row an entry (possibly `None`) for every state but the initial one, and
nothing else. -/
structure Shape (S : List σ) (init final : σ) (tr : Table σ ℓ) : Prop where
  nodup : S.Nodup
  init_mem : init ∈ S
  final_mem : final ∈ S
  ne : init ≠ final
  rows : ∀ p, (alookup p tr).isSome ↔ (p ∈ S ∧ p ≠ final)
  entries : ∀ p r, (get2 tr p r).isSome ↔ (p ∈ S ∧ p ≠ final ∧ r ∈ S ∧ r ≠ init)

theorem mem_pairs {xs ys : List σ} {p r : σ} : (p, r) ∈ pairs xs ys ↔ p ∈ xs ∧ r ∈ ys := by
  unfold pairs
  simp only [List.mem_flatMap, List.mem_map, Prod.mk.injEq]
  constructor
  · rintro ⟨x, hx, y, hy, rfl, rfl⟩; exact ⟨hx, hy⟩
  · rintro ⟨hx, hy⟩; exact ⟨p, hx, r, hy, rfl, rfl⟩

theorem nodup_pairs {xs ys : List σ} (hx : xs.Nodup) (hy : ys.Nodup) : (pairs xs ys).Nodup := by
  unfold pairs
  induction xs with
  | nil => simp
  | cons a t ih =>
    have hx' := List.nodup_cons.mp hx
    rw [List.flatMap_cons, List.nodup_append]
    refine ⟨?_, ih hx'.2, ?_⟩
    · exact (List.nodup_map_iff (fun _ _ h => (Prod.mk.inj h).2)).mpr hy
    · intro u hu v hv
      simp only [List.mem_map] at hu
      obtain ⟨y, _, rfl⟩ := hu
      simp only [List.mem_flatMap, List.mem_map] at hv
      obtain ⟨x, hxt, y', _, rfl⟩ := hv
      intro h
      exact hx'.1 ((Prod.mk.inj h).1 ▸ hxt)

theorem length_filter_ne {S : List σ} (h : S.Nodup) {q : σ} (hq : q ∈ S) :
    (S.filter fun x => decide (x ≠ q)).length + 1 = S.length := by
  induction S with
  | nil => simp at hq
  | cons a t ih =>
    have h' := List.nodup_cons.mp h
    by_cases ha : a = q
    · subst ha
      have : (t.filter fun x => decide (x ≠ a)) = t := by
        apply List.filter_eq_self.mpr
        intro x hx
        simp only [ne_eq, decide_eq_true_eq]
        rintro rfl; exact h'.1 hx
      rw [List.filter_cons_of_neg (by simp), this]
      rfl
    · have hq' : q ∈ t := by
        rcases List.mem_cons.mp hq with h0 | h0
        · exact absurd h0.symm ha
        · exact h0
      rw [List.filter_cons_of_pos (by simpa using ha)]
      have := ih h'.2 hq'
      simp only [List.length_cons]
      omega

/-- One iteration of the `while` loop of `to_regex` never raises on a table of the documented
shape; the new table has the documented shape for the remaining states, and its entries are
those of the ripped graph. -/
theorem ripStep_spec (comb : Option ℓ → Option ℓ → Option ℓ → Option ℓ → Option ℓ)
    {S : List σ} {init final : σ} {tr : Table σ ℓ} (hS : Shape S init final tr) {q : σ}
    (hq : q ∈ S) (hqi : q ≠ init) (hqf : q ≠ final) :
    ∃ tr', ripStep comb init final S tr q = .ok (S.filter (fun x => decide (x ≠ q)), tr') ∧
      Shape (S.filter fun x => decide (x ≠ q)) init final tr' ∧
      ∀ p r, get2 tr' p r =
        if p = q ∨ r = q then none
        else (get2 tr p r).map fun _ => comb (lab tr p q) (lab tr q q) (lab tr q r) (lab tr p r) := by
  set S' := S.filter fun x => decide (x ≠ q) with hS'
  have memS' : ∀ x, x ∈ S' ↔ x ∈ S ∧ x ≠ q := by intro x; simp [hS']
  have ndS' : S'.Nodup := hS.nodup.filter _
  set froms := S'.filter fun x => decide (x ≠ final) with hfroms
  set tos := S'.filter fun x => decide (x ≠ init) with htos
  have memF : ∀ x, x ∈ froms ↔ x ∈ S ∧ x ≠ q ∧ x ≠ final := by
    intro x; simp [hfroms, memS', and_assoc]
  have memT : ∀ x, x ∈ tos ↔ x ∈ S ∧ x ≠ q ∧ x ≠ init := by
    intro x; simp [htos, memS', and_assoc]
  -- 1. the pairs loop
  have hpairs := fold_ripPair comb q tr (pairs froms tos) tr
    (nodup_pairs (ndS'.filter _) (ndS'.filter _))
    (by
      rintro ⟨i, j⟩ hij
      obtain ⟨hi, hj⟩ := mem_pairs.mp hij
      obtain ⟨hiS, hiq, hif⟩ := (memF i).mp hi
      obtain ⟨hjS, hjq, hji⟩ := (memT j).mp hj
      exact ⟨hiq, hjq, (hS.entries i q).mpr ⟨hiS, hif, hq, hqi⟩,
        (hS.entries q q).mpr ⟨hq, hqf, hq, hqi⟩, (hS.entries q j).mpr ⟨hq, hqf, hjS, hji⟩,
        (hS.entries i j).mpr ⟨hiS, hif, hjS, hji⟩⟩)
    (fun _ _ _ => rfl) (fun _ => rfl)
  obtain ⟨tr1, hfold1, hrows1, hget1⟩ := hpairs
  -- 2. del new_transitions[q_rip]
  have hrowq : (alookup q tr1).isSome := by rw [hrows1]; exact (hS.rows q).mpr ⟨hq, hqf⟩
  obtain ⟨tr2, hdel2, hrows2, hget2⟩ := delRow_spec hrowq
  -- 3. del new_transitions[state][q_rip]
  have hent : ∀ p ∈ froms, (get2 tr2 p q).isSome := by
    intro p hp
    obtain ⟨hpS, hpq, hpf⟩ := (memF p).mp hp
    rw [hget2, if_neg hpq, hget1, if_neg (by rw [mem_pairs]; rintro ⟨_, h⟩; exact ((memT q).mp h).2.1 rfl)]
    exact (hS.entries p q).mpr ⟨hpS, hpf, hq, hqi⟩
  obtain ⟨tr3, hfold3, hrows3, hget3⟩ := fold_delEntry q froms tr2 (ndS'.filter _) hent
  have hfinal : ∀ p r, get2 tr3 p r =
      if p = q ∨ r = q then none
      else (get2 tr p r).map fun _ => comb (lab tr p q) (lab tr q q) (lab tr q r) (lab tr p r) := by
    intro p r
    rw [hget3]
    by_cases hpq : p = q
    · subst hpq
      have : ¬ (p ∈ froms ∧ r = p) := by rintro ⟨h, _⟩; exact ((memF p).mp h).2.1 rfl
      rw [if_neg this, hget2]; simp
    · by_cases hrq : r = q
      · subst hrq
        rw [if_pos (Or.inr rfl)]
        by_cases hpF : p ∈ froms
        · rw [if_pos ⟨hpF, rfl⟩]
        · rw [if_neg (fun h => hpF h.1), hget2, if_neg hpq, hget1,
            if_neg (by rw [mem_pairs]; exact fun h => hpF h.1)]
          -- no such entry existed
          have : ¬ (get2 tr p r).isSome := by
            rw [hS.entries]
            rintro ⟨h1, h2, _, _⟩
            exact hpF ((memF p).mpr ⟨h1, hpq, h2⟩)
          simpa using this
      · rw [if_neg (fun h => hrq h.2), hget2, if_neg hpq, hget1,
          if_neg (show ¬ (p = q ∨ r = q) by simp [hpq, hrq])]
        by_cases hin : (p, r) ∈ pairs froms tos
        · rw [if_pos hin]
          obtain ⟨hp, hr⟩ := mem_pairs.mp hin
          obtain ⟨hpS, _, hpf⟩ := (memF p).mp hp
          obtain ⟨hrS, _, hri⟩ := (memT r).mp hr
          obtain ⟨v, hv⟩ := Option.isSome_iff_exists.mp ((hS.entries p r).mpr ⟨hpS, hpf, hrS, hri⟩)
          rw [hv]; rfl
        · rw [if_neg hin]
          have : ¬ (get2 tr p r).isSome := by
            rw [hS.entries]
            rintro ⟨h1, h2, h3, h4⟩
            exact hin (mem_pairs.mpr ⟨(memF p).mpr ⟨h1, hpq, h2⟩, (memT r).mpr ⟨h3, hrq, h4⟩⟩)
          have hn : get2 tr p r = none := by simpa using this
          rw [hn]; rfl
  refine ⟨tr3, ?_, ?_, hfinal⟩
  · unfold ripStep
    rw [if_neg (not_not.mpr hq)]
    simp only [← hS', ← hfroms, ← htos, bind, Except.bind, hfold1, hdel2, hfold3]
  · refine ⟨ndS', (memS' init).mpr ⟨hS.init_mem, fun h => hqi h.symm⟩,
      (memS' final).mpr ⟨hS.final_mem, fun h => hqf h.symm⟩, hS.ne, ?_, ?_⟩
    · intro p
      rw [hrows3, hrows2]
      by_cases hpq : p = q
      · simp [hpq, memS']
      · rw [if_neg hpq, hrows1, hS.rows, memS']
        tauto
    · intro p r
      rw [hfinal]
      by_cases hpq : p = q
      · simp [hpq, memS']
      · by_cases hrq : r = q
        · simp [hrq, memS']
        · rw [if_neg (by simp [hpq, hrq]), Option.isSome_map, hS.entries, memS', memS']
          tauto

/-! ### `_find_min_connected_node` returns an inner state, whatever the set order -/

theorem akeys_ainsert_of_mem {k : κ} {v : β} {d : List (κ × β)} (h : k ∈ akeys d) :
    ∀ x, x ∈ akeys (ainsert k v d) ↔ x ∈ akeys d := by
  intro x
  rw [← alookup_isSome_iff, ← alookup_isSome_iff, alookup_ainsert]
  by_cases hx : x = k
  · subst hx; simp [alookup_isSome_iff.mpr h]
  · simp [hx]

theorem degInc_spec {deg : List (σ × Nat)} {x : σ} (h : x ∈ akeys deg) :
    ∃ deg', degInc deg x = .ok deg' ∧ ∀ y, y ∈ akeys deg' ↔ y ∈ akeys deg := by
  unfold degInc
  obtain ⟨n, hn⟩ := Option.isSome_iff_exists.mp (alookup_isSome_iff.mpr h)
  rw [hn]
  exact ⟨_, rfl, akeys_ainsert_of_mem h⟩

theorem rowDegrees_spec (init final q : σ) (K : List σ) (hq : q ≠ init → q ∈ K) :
    ∀ (row : List (σ × Option ℓ)) (deg : List (σ × Nat)),
      (∀ e ∈ row, e.2 ≠ none → e.1 ≠ final → e.1 ∈ K) →
      (∀ y, y ∈ akeys deg ↔ y ∈ K) →
      ∃ deg', rowDegrees init final q row deg = .ok deg' ∧ ∀ y, y ∈ akeys deg' ↔ y ∈ K := by
  intro row
  unfold rowDegrees
  induction row with
  | nil => intro deg _ hk; exact ⟨deg, rfl, hk⟩
  | cons e row ih =>
    intro deg hrow hk
    rw [List.foldlM_cons]
    have hrow' : ∀ e ∈ row, e.2 ≠ none → e.1 ≠ final → e.1 ∈ K :=
      fun e he => hrow e (List.mem_cons_of_mem _ he)
    cases he2 : e.2 with
    | none =>
      simp only [bind, Except.bind]
      exact ih deg hrow' hk
    | some l =>
      -- first increment
      have h1 : ∃ d1, (if q ≠ init then degInc deg q else .ok deg) = .ok d1 ∧
          ∀ y, y ∈ akeys d1 ↔ y ∈ K := by
        by_cases hqi : q ≠ init
        · rw [if_pos hqi]
          obtain ⟨d1, hd1, hk1⟩ := degInc_spec ((hk q).mpr (hq hqi))
          exact ⟨d1, hd1, fun y => (hk1 y).trans (hk y)⟩
        · rw [if_neg hqi]; exact ⟨deg, rfl, hk⟩
      obtain ⟨d1, hd1, hk1⟩ := h1
      have h2 : ∃ d2, (if e.1 ≠ final then degInc d1 e.1 else .ok d1) = .ok d2 ∧
          ∀ y, y ∈ akeys d2 ↔ y ∈ K := by
        by_cases hef : e.1 ≠ final
        · rw [if_pos hef]
          have : e.1 ∈ K := hrow e (by simp) (by simp [he2]) hef
          obtain ⟨d2, hd2, hk2⟩ := degInc_spec ((hk1 e.1).mpr this)
          exact ⟨d2, hd2, fun y => (hk2 y).trans (hk1 y)⟩
        · rw [if_neg hef]; exact ⟨d1, rfl, hk1⟩
      obtain ⟨d2, hd2, hk2⟩ := h2
      simp only [bind, Except.bind, hd1, hd2]
      exact ih d2 hrow' hk2

theorem argminAux_mem (best : σ) (bn : Nat) (t : List (σ × Nat)) :
    argminAux best bn t = best ∨ argminAux best bn t ∈ akeys t := by
  induction t generalizing best bn with
  | nil => exact Or.inl rfl
  | cons e t ih =>
    obtain ⟨x, n⟩ := e
    simp only [argminAux]
    split
    · rcases ih x n with h | h
      · exact Or.inr (by simp [akeys, h])
      · exact Or.inr (by simp only [akeys, List.map_cons, List.mem_cons]; exact Or.inr h)
    · rcases ih best bn with h | h
      · exact Or.inl h
      · exact Or.inr (by simp only [akeys, List.map_cons, List.mem_cons]; exact Or.inr h)

theorem exists_inner {S : List σ} (hnd : S.Nodup) {init final : σ} (hlen : S.length > 2) :
    ∃ x, x ∈ innerStates S init final := by
  by_contra hne
  have hsub : S ⊆ [init, final] := by
    intro x hx
    by_contra hx'
    apply hne
    refine ⟨x, ?_⟩
    simp only [List.mem_cons, List.not_mem_nil, or_false, not_or] at hx'
    simp [innerStates, hx, hx'.1, hx'.2]
  have := List.Nodup.length_le_of_subset hnd hsub
  simp at this
  omega

theorem findMin_spec {S : List σ} {init final : σ} {tr : Table σ ℓ} (hS : Shape S init final tr)
    (hlen : S.length > 2) (ord : List σ → List σ) (hord : ∀ l x, x ∈ ord l ↔ x ∈ l) :
    ∃ q, findMin S tr init final ord = .ok q ∧ q ∈ S ∧ q ≠ init ∧ q ≠ final := by
  set K := ord (innerStates S init final) with hK
  have memK : ∀ x, x ∈ K ↔ x ∈ S ∧ x ≠ init ∧ x ≠ final := by
    intro x; rw [hK, hord]; simp [innerStates]
  -- the outer loop keeps the key set
  have outer : ∀ (l : List σ) (deg : List (σ × Nat)), (∀ p ∈ l, p ∈ S ∧ p ≠ final) →
      (∀ y, y ∈ akeys deg ↔ y ∈ K) →
      ∃ deg', l.foldlM (fun deg q =>
          match alookup q tr with
          | none => (.error (.py .keyError) : Res (List (σ × Nat)))
          | some row => rowDegrees init final q row deg) deg = .ok deg' ∧
        ∀ y, y ∈ akeys deg' ↔ y ∈ K := by
    intro l
    induction l with
    | nil => intro deg _ hk; exact ⟨deg, rfl, hk⟩
    | cons p l ih =>
      intro deg hl hk
      obtain ⟨hpS, hpf⟩ := hl p (by simp)
      obtain ⟨row, hrow⟩ := Option.isSome_iff_exists.mp ((hS.rows p).mpr ⟨hpS, hpf⟩)
      have hrowK : ∀ e ∈ row, e.2 ≠ none → e.1 ≠ final → e.1 ∈ K := by
        intro e he _ hef
        have : (get2 tr p e.1).isSome := by
          unfold get2
          rw [hrow]
          simp only [Option.bind_some]
          exact alookup_isSome_iff.mpr (List.mem_map.mpr ⟨e, he, rfl⟩)
        obtain ⟨_, _, h3, h4⟩ := (hS.entries p e.1).mp this
        exact (memK e.1).mpr ⟨h3, h4, hef⟩
      obtain ⟨d1, hd1, hk1⟩ := rowDegrees_spec (ℓ := ℓ) init final p K
        (fun hpi => (memK p).mpr ⟨hpS, hpi, hpf⟩) row deg hrowK hk
      obtain ⟨d2, hd2, hk2⟩ := ih d1 (fun p' hp' => hl p' (List.mem_cons_of_mem _ hp')) hk1
      refine ⟨d2, ?_, hk2⟩
      rw [List.foldlM_cons]
      simp only [hrow, bind, Except.bind, hd1]
      exact hd2
  obtain ⟨deg, hdeg, hk⟩ := outer (S.filter fun q => decide (q ≠ final)) (K.map fun q => (q, 0))
    (by intro p hp; simpa using hp)
    (by intro y; simp [akeys, List.map_map, Function.comp_def])
  obtain ⟨x, hx⟩ := exists_inner hS.nodup (init := init) (final := final) hlen
  have hxK : x ∈ K := by rw [hK, hord]; exact hx
  have hxdeg : x ∈ akeys deg := (hk x).mpr hxK
  have hdeg' : stateDegrees S tr init final K = .ok deg := hdeg
  unfold findMin
  simp only [← hK, bind, Except.bind, hdeg']
  cases hd : deg with
  | nil => rw [hd] at hxdeg; simp [akeys] at hxdeg
  | cons e t =>
    obtain ⟨b, n⟩ := e
    refine ⟨argminAux b n t, rfl, ?_⟩
    have : argminAux b n t ∈ akeys deg := by
      rw [hd]
      rcases argminAux_mem b n t with h | h
      · simp [akeys, h]
      · simp only [akeys, List.map_cons, List.mem_cons]; exact Or.inr h
    exact (memK _).mp ((hk _).mp this)

/-! ### labels as languages -/

/-- An optional label denotes `L` under the label semantics `R` (`None` = the empty language). -/
def RO (R : Language Char → ℓ → Prop) (L : Language Char) : Option ℓ → Prop
  | none => L = 0
  | some l => R L l

/-- The label rule `comb` is sound for the semantics `R`: it computes a label for
`L₄ + L₁ · L₂* · L₃`. -/
def CombSound (R : Language Char → ℓ → Prop)
    (comb : Option ℓ → Option ℓ → Option ℓ → Option ℓ → Option ℓ) : Prop :=
  ∀ (L1 L2 L3 L4 : Language Char) (r1 r2 r3 r4 : Option ℓ),
    RO R L1 r1 → RO R L2 r2 → RO R L3 r3 → RO R L4 r4 →
    RO R (L4 + L1 * KStar.kstar L2 * L3) (comb r1 r2 r3 r4)

/-- The table `tr` is a labelling of the language-labelled graph `Lb`. -/
def Denotes (R : Language Char → ℓ → Prop) (tr : Table σ ℓ) (Lb : σ → σ → Language Char) : Prop :=
  ∀ p r, RO R (Lb p r) (lab tr p r)

theorem Denotes.rip {R : Language Char → ℓ → Prop}
    {comb : Option ℓ → Option ℓ → Option ℓ → Option ℓ → Option ℓ} (hcomb : CombSound R comb)
    {tr tr' : Table σ ℓ} {Lb : σ → σ → Language Char} (hD : Denotes R tr Lb) {q : σ}
    (hget : ∀ p r, get2 tr' p r =
      if p = q ∨ r = q then none
      else (get2 tr p r).map fun _ => comb (lab tr p q) (lab tr q q) (lab tr q r) (lab tr p r))
    (hent : ∀ p r, get2 tr p r = none → get2 tr p q = none ∨ get2 tr q r = none) :
    Denotes R tr' (GnfaSpec.rip Lb q) := by
  intro p r
  unfold lab GnfaSpec.rip
  rw [hget]
  by_cases h : p = q ∨ r = q
  · rw [if_pos h, if_pos h]; rfl
  · rw [if_neg h, if_neg h]
    cases hg : get2 tr p r with
    | some v =>
      simp only [Option.map_some, Option.join_some]
      exact hcomb _ _ _ _ _ _ _ _ (hD p q) (hD q q) (hD q r) (hD p r)
    | none =>
      simp only [Option.map_none, Option.join_none]
      show _ = 0
      have h0 : Lb p r = 0 := by have := hD p r; unfold lab at this; rw [hg] at this; exact this
      rcases hent p r hg with h1 | h1
      · have : Lb p q = 0 := by have := hD p q; unfold lab at this; rw [h1] at this; exact this
        simp [h0, this]
      · have : Lb q r = 0 := by have := hD q r; unfold lab at this; rw [h1] at this; exact this
        simp [h0, this]

/-- With two states left the language of the graph is the label of its only edge. -/
theorem GLang_two {S : List σ} {init final : σ} {tr : Table σ ℓ} (hS : Shape S init final tr)
    (hlen : S.length = 2) {R : Language Char → ℓ → Prop} {Lb : σ → σ → Language Char}
    (hD : Denotes R tr Lb) : GLang Lb init final = Lb init final := by
  have hsub : ∀ x ∈ S, x = init ∨ x = final := by
    intro x hx
    by_contra hx'
    simp only [not_or] at hx'
    have hsub : [x, init, final] ⊆ S := by
      intro y hy
      simp only [List.mem_cons, List.not_mem_nil, or_false] at hy
      rcases hy with rfl | rfl | rfl
      · exact hx
      · exact hS.init_mem
      · exact hS.final_mem
    have hnd : [x, init, final].Nodup := by
      simp [hx'.1, hx'.2, hS.ne]
    have := List.Nodup.length_le_of_subset hnd hsub
    simp at this; omega
  have hzero : ∀ p r, ¬ (p = init ∧ r = final) → Lb p r = 0 := by
    intro p r hpr
    have hn : get2 tr p r = none := by
      have : ¬ (get2 tr p r).isSome := by
        rw [hS.entries]
        rintro ⟨h1, h2, h3, h4⟩
        rcases hsub p h1 with rfl | rfl
        · rcases hsub r h3 with rfl | rfl
          · exact h4 rfl
          · exact hpr ⟨rfl, rfl⟩
        · exact h2 rfl
      simpa using this
    have := hD p r
    unfold lab at this; rw [hn] at this; exact this
  ext w
  constructor
  · intro hw
    have hw : Walk Lb init final w := hw
    cases hw with
    | nil => exact absurd rfl hS.ne
    | @cons _ m _ u v hu hrest =>
      by_cases hm : m = final
      · subst hm
        cases hrest with
        | nil => simpa using hu
        | @cons _ m' _ u' v' hu' _ =>
          rw [hzero m m' (fun h => hS.ne h.1.symm)] at hu'
          exact absurd hu' (by simp)
      · rw [hzero init m (fun h => hm h.2)] at hu
        exact absurd hu (by simp)
  · intro hw
    exact Walk.single hw

/-! ### the loop -/

/-- **`to_regex` is correct for every sound label rule and every tie-break order**: on a table
of the documented shape whose labels denote the edge languages `Lb`, the loop never raises
and returns a label denoting the language of the GNFA (`None` iff that language is empty). -/
theorem toRegexLoop_spec {R : Language Char → ℓ → Prop}
    {comb : Option ℓ → Option ℓ → Option ℓ → Option ℓ → Option ℓ} (hcomb : CombSound R comb)
    (init final : σ) (ord : Nat → List σ → List σ) (hord : ∀ k l x, x ∈ ord k l ↔ x ∈ l) :
    ∀ (fuel k : Nat) (S : List σ) (tr : Table σ ℓ) (rips : List σ) (Lb : σ → σ → Language Char),
      Shape S init final tr → Denotes R tr Lb → S.length = fuel + 2 →
      ∃ rips' o, toRegexLoop comb init final ord fuel k S tr rips = .ok (rips', o) ∧
        RO R (GLang Lb init final) o := by
  intro fuel
  induction fuel with
  | zero =>
    intro k S tr rips Lb hS hD hlen
    obtain ⟨l, hl⟩ := Option.isSome_iff_exists.mp
      ((hS.entries init final).mpr ⟨hS.init_mem, hS.ne, hS.final_mem, fun h => hS.ne h.symm⟩)
    refine ⟨rips, l, ?_, ?_⟩
    · simp only [toRegexLoop, getE_of_get2 hl, bind, Except.bind]
    · rw [GLang_two hS (by omega) hD]
      have := hD init final
      unfold lab at this; rw [hl] at this; exact this
  | succ fuel ih =>
    intro k S tr rips Lb hS hD hlen
    obtain ⟨q, hfind, hqS, hqi, hqf⟩ := findMin_spec hS (by omega) (ord k) (hord k)
    obtain ⟨tr', hstep, hS', hget⟩ := ripStep_spec comb hS hqS hqi hqf
    have hD' : Denotes R tr' (GnfaSpec.rip Lb q) := by
      refine hD.rip hcomb hget ?_
      intro p r hn
      have : ¬ (get2 tr p r).isSome := by simp [hn]
      rw [hS.entries] at this
      by_cases hp : p ∈ S ∧ p ≠ final
      · right
        have : ¬ (get2 tr q r).isSome := by
          rw [hS.entries]; rintro ⟨_, _, h3, h4⟩; exact this ⟨hp.1, hp.2, h3, h4⟩
        simpa using this
      · left
        have : ¬ (get2 tr p q).isSome := by
          rw [hS.entries]; rintro ⟨h1, h2, _, _⟩; exact hp ⟨h1, h2⟩
        simpa using this
    have hlen' : (S.filter fun x => decide (x ≠ q)).length = fuel + 2 := by
      have := length_filter_ne hS.nodup hqS
      omega
    obtain ⟨rips', o, hloop, hRO⟩ := ih (k + 1) _ tr' (rips ++ [q]) _ hS' hD' hlen'
    refine ⟨rips', o, ?_, ?_⟩
    · rw [toRegexLoop, if_pos (by omega)]
      simp only [bind, Except.bind, hfind, hstep]
      exact hloop
    · rw [← GLang_rip Lb (fun h => hqi h.symm) (fun h => hqf h.symm)]
      exact hRO

/-- `to_regex` of a GNFA of the documented shape. -/
theorem toRegexG_spec {R : Language Char → ℓ → Prop}
    {comb : Option ℓ → Option ℓ → Option ℓ → Option ℓ → Option ℓ} (hcomb : CombSound R comb)
    (g : GNFA σ ℓ) (hS : Shape (dedup g.states) g.init g.final g.trans)
    {Lb : σ → σ → Language Char} (hD : Denotes R g.trans Lb)
    (ord : Nat → List σ → List σ) (hord : ∀ k l x, x ∈ ord k l ↔ x ∈ l) :
    ∃ o, toRegexG comb g ord = .ok o ∧ RO R (GLang Lb g.init g.final) o := by
  have hlen : (dedup g.states).length ≥ 2 := by
    have hsub : [g.init, g.final] ⊆ dedup g.states := by
      intro y hy
      simp only [List.mem_cons, List.not_mem_nil, or_false] at hy
      rcases hy with rfl | rfl
      · exact hS.init_mem
      · exact hS.final_mem
    have hnd : [g.init, g.final].Nodup := by simp [hS.ne]
    have := List.Nodup.length_le_of_subset hnd hsub
    simpa using this
  obtain ⟨rips', o, hloop, hRO⟩ := toRegexLoop_spec hcomb g.init g.final ord hord
    ((dedup g.states).length - 2) 0 (dedup g.states) g.trans [] Lb hS hD (by omega)
  refine ⟨o, ?_, hRO⟩
  unfold toRegexG toRegexTrace
  simp only [bind, Except.bind, hloop]

end AV.GNFA
