/-
Proofs/MinifyExpand.lean — the DFA built by `_expand_dfa` is a valid, Python-shaped DFA all
of whose states are reachable, hence a source for `_minify` with `kept = states`
(`expand_minSource`): the `minify=True` path of `union`, `intersection`, `difference`,
`symmetric_difference` and `from_nfa` (core only).  The lazy product satisfies the hypotheses
(`binopPlain_minSource`).
-/
import AutomataVerif.Proofs.Product
import AutomataVerif.Proofs.MinifyCorrect

namespace AV
namespace DFA

set_option linter.unusedSectionVars false

variable {S α : Type} [DecidableEq S] [DecidableEq α]
variable {succ : S → List (α × S)} {univ : List S} {fuel : Nat} {init : S}

section
variable (isFin : S → Bool) (syms : List α)

theorem mem_univ_of_mem_bfsStates (h : ExpandHyp succ univ fuel init) {s : S}
    (hs : s ∈ bfsStates succ fuel init) : s ∈ univ :=
  reach_mem_univ h ((mem_bfsStates_iff h).mp hs)

/-- `_expand_dfa` builds a valid DFA when the expansion function only uses alphabet symbols. -/
theorem expand_wf (h : ExpandHyp succ univ fuel init)
    (hkeys : ∀ u ∈ univ, ∀ a ∈ akeys (succ u), a ∈ syms) :
    (expand succ isFin syms fuel init).WF := by
  refine ⟨?_, ?_, ?_, ?_, ?_, ?_⟩
  · intro q hq
    simpa [expand, akeys, List.map_map, Function.comp_def] using hq
  · intro hp kv hkv a ha
    simp only [expand] at hp hkv ha
    have hlen := List.any_eq_false.mp hp kv hkv
    simp only [bne_iff_ne, ne_eq, Decidable.not_not] at hlen
    obtain ⟨s, hs, rfl⟩ := List.mem_map.mp hkv
    have hu := mem_univ_of_mem_bfsStates h hs
    refine subset_of_nodup_length_eq (h.keysNodup s hu) (hkeys s hu) ?_ a ha
    rw [← hlen]; simp [akeys]
  · intro kv hkv a ha
    simp only [expand] at hkv ⊢
    obtain ⟨s, hs, rfl⟩ := List.mem_map.mp hkv
    exact hkeys s (mem_univ_of_mem_bfsStates h hs) a ha
  · intro kv hkv q hq
    simp only [expand] at hkv ⊢
    obtain ⟨s, hs, rfl⟩ := List.mem_map.mp hkv
    exact (mem_bfsStates_iff h).mpr (Reach.tail ((mem_bfsStates_iff h).mp hs) hq)
  · exact init_mem_bfsStates h
  · intro q hq
    simp only [expand] at hq ⊢
    exact (List.mem_filter.mp hq).1

theorem expand_pyShape (h : ExpandHyp succ univ fuel init) (hsyms : syms.Nodup) :
    (expand succ isFin syms fuel init).PyShape := by
  have hnd := nodup_bfsStates h
  refine ⟨hnd, hsyms, List.Nodup.sublist List.filter_sublist hnd, ?_, ?_⟩
  · simpa [expand, akeys, List.map_map, Function.comp_def] using hnd
  · intro kv hkv
    simp only [expand] at hkv
    obtain ⟨s, hs, rfl⟩ := List.mem_map.mp hkv
    exact h.keysNodup s (mem_univ_of_mem_bfsStates h hs)

theorem expand_all_reachable (h : ExpandHyp succ univ fuel init) :
    ∀ q ∈ (expand succ isFin syms fuel init).states,
      ∃ w, (expand succ isFin syms fuel init).run
        (some (expand succ isFin syms fuel init).init) w = some q := by
  intro q hq
  obtain ⟨w, hw⟩ := expand_states_reachable isFin syms h hq
  exact ⟨w, by rw [← hw]; exact (expand_run isFin syms h w).1⟩

/-- The output of `_expand_dfa`, handed to `_minify` with all its states, is a source that
describes it. -/
theorem expand_minSource (h : ExpandHyp succ univ fuel init) (hsyms : syms.Nodup)
    (hkeys : ∀ u ∈ univ, ∀ a ∈ akeys (succ u), a ∈ syms) :
    MinSource (expand succ isFin syms fuel init) (expand succ isFin syms fuel init).states
      (expand succ isFin syms fuel init).finals :=
  minSource_of_trim (expand_wf isFin syms h hkeys) (expand_pyShape isFin syms h hsyms)
    (expand_all_reachable isFin syms h)

end

/-! ### the lazy product -/
section product
variable {σ : Type} [DecidableEq σ]

theorem sideRow_keys {d : DFA σ α} (wf : d.WF) (x : Option σ) {c : α}
    (h : c ∈ akeys (d.sideRow x)) : c ∈ d.syms := by
  cases x with
  | none => simp [sideRow, akeys] at h
  | some q =>
    simp only [sideRow, row, row?] at h
    cases hr : alookup q d.trans with
    | none => simp [hr, akeys] at h
    | some r =>
      rw [hr] at h
      exact wf.symsOk (q, r) (alookup_some_mem hr) c h

/-- The BFS of `_expand_dfa` over the lazy product is exhaustive. -/
theorem cross_expandHyp (A B : DFA σ α) (l r : Bool) (wfA : A.WF) (wfB : B.WF) (pA : A.PyShape) :
    ExpandHyp (A.crossSucc B l r) (A.prodUniv B) (A.prodFuel B) (some A.init, some B.init) := by
  refine ⟨?_, ?_, ?_, ?_⟩
  · rw [mem_prodUniv]
    exact ⟨Or.inr ⟨A.init, states_sub_graphNodes A wfA.initOk, rfl⟩,
      Or.inr ⟨B.init, states_sub_graphNodes B wfB.initOk, rfl⟩⟩
  · intro u _ e he
    exact crossSucc_closed A B l r u e he
  · rintro ⟨x, y⟩ _
    refine crossSucc_keys_nodup A B l r (x, y) ?_
    cases x with
    | none => simp [sideRow, akeys]
    | some q => exact pA.row_nodup q
  · rw [length_prodUniv]; unfold prodFuel; omega

theorem symsEq_sub {A B : DFA σ α} (hs : A.symsEq B = true) : ∀ a ∈ B.syms, a ∈ A.syms := by
  unfold symsEq at hs
  rw [Bool.and_eq_true, List.all_eq_true, List.all_eq_true] at hs
  intro a ha
  simpa using hs.2 a ha

/-- `A.op(B, minify=False)` succeeds on valid operands over a common alphabet, and its result
with all its states is a source for `_minify`. -/
theorem binopPlain_minSource (op : BinOp) (A B : DFA σ α) (wfA : A.WF) (wfB : B.WF)
    (pA : A.PyShape) (hs : A.symsEq B = true) :
    ∃ P, binopPlain op A B = .ok P ∧ P.syms = A.syms ∧ MinSource P P.states P.finals := by
  refine ⟨expand (A.crossSucc B op.lrel op.rrel)
    (fun s => op.fin (A.isFinalO s.1) (B.isFinalO s.2)) A.syms (A.prodFuel B)
    (some A.init, some B.init), by simp [binopPlain, hs], rfl, ?_⟩
  refine expand_minSource _ _ (cross_expandHyp A B op.lrel op.rrel wfA wfB pA) pA.syms_nodup ?_
  intro u _ a ha
  rcases crossSucc_keys_sub A B op.lrel op.rrel u ha with h | h
  · exact sideRow_keys wfA _ h
  · exact symsEq_sub hs a (sideRow_keys wfB _ h)

end product

end DFA
end AV
