/-
Proofs/CtorFLMinimal.lean — from_finite_language (C15), minimality: the registered states are
pairwise distinguishable at every point of the construction (their part of the table is frozen),
hence the final table has no two equivalent states; every state is reachable and live.
Core only.
-/
import AutomataVerif.Proofs.CtorFLDfa

namespace AV.Ctor.FL

set_option linter.unusedSectionVars false
set_option linter.unusedVariables false
set_option linter.unusedSimpArgs false

variable {α : Type} [DecidableEq α]

/-- Acceptance of `w` from the state `q` of the table under construction. -/
def accFrom (s : FLState α) (q : List α) (w : List α) : Bool :=
  match runO (look s) (some q) w with
  | some t => decide (t ∈ s.finals)
  | none => false

theorem accFrom_nil (s : FLState α) (q : List α) : accFrom s q [] = decide (q ∈ s.finals) := rfl

theorem accFrom_cons (s : FLState α) (q : List α) (a : α) (w : List α) :
    accFrom s q (a :: w) =
      match look s q a with
      | some t => accFrom s t w
      | none => false := by
  unfold accFrom
  rw [runO_cons]
  simp only [Option.bind_some]
  cases look s q a with
  | none => simp
  | some t => rfl

/-- The registered states are pairwise distinguishable. -/
def RegDist (s : FLState α) : Prop :=
  ∀ q1 ∈ avals s.sigs, ∀ q2 ∈ avals s.sigs, q1 ≠ q2 → ∃ w, accFrom s q1 w ≠ accFrom s q2 w

/-- The registered part of the table is frozen: same rows, same finality ⇒ same acceptance. -/
theorem frozen_acc {s s' : FLState α} (R : List (List α))
    (hclosed : ∀ q ∈ R, ∀ a t, look s q a = some t → t ∈ R)
    (hsame : ∀ q ∈ R, (∀ a, look s' q a = look s q a) ∧ (q ∈ s'.finals ↔ q ∈ s.finals)) :
    ∀ (w : List α) (q : List α), q ∈ R → accFrom s' q w = accFrom s q w := by
  intro w
  induction w with
  | nil =>
    intro q hq
    rw [accFrom_nil, accFrom_nil]
    have := (hsame q hq).2
    simp only [this]
  | cons a w ih =>
    intro q hq
    rw [accFrom_cons, accFrom_cons, (hsame q hq).1 a]
    cases h : look s q a with
    | none => rfl
    | some t => exact ih t (hclosed q hq a t h)

section general
variable {added : List (List α)} {cur : List α} {k : Nat} {s : FLState α} {φ : List α → List α}
variable (inv : FLInv added cur k s φ)
include inv

open Classical in
/-- The run from the state of a trie node follows the trie (at any point of the construction). -/
theorem runO_trie (w : List α) : ∀ p, InTrie added p →
    runO (look s) (some (φ p)) w = if InTrie added (p ++ w) then some (φ (p ++ w)) else none := by
  induction w with
  | nil => intro p hp; simp [hp]
  | cons a w ih =>
    intro p hp
    rw [runO_cons]
    simp only [Option.bind_some]
    rw [inv.step p a hp]
    by_cases h : InTrie added (p ++ [a])
    · simp only [h, if_true]
      rw [ih (p ++ [a]) h]
      simp
    · simp only [h, if_false, runO_none]
      have : ¬ InTrie added (p ++ a :: w) := by
        intro h2
        apply h
        apply h2.prefix
        have : p ++ a :: w = (p ++ [a]) ++ w := by simp
        rw [this]; exact List.prefix_append _ _
      simp [this]

/-- Every state is live: some word is accepted from it. -/
theorem key_live (q : List α) (hq : q ∈ akeys s.trans) : ∃ u, accFrom s q u = true := by
  classical
  obtain ⟨p, hp, rfl⟩ := inv.surj q hq
  obtain ⟨w, hw, hpw⟩ := hp
  obtain ⟨u, rfl⟩ := hpw
  refine ⟨u, ?_⟩
  unfold accFrom
  have hin : InTrie added (p ++ u) := ⟨p ++ u, hw, List.prefix_refl _⟩
  rw [runO_trie inv u p ⟨p ++ u, hw, List.prefix_append _ _⟩]
  simp only [hin, if_true, decide_eq_true_eq]
  exact (inv.fin _ hin).mpr hw

end general

/-- Rows that are not equal as sets differ at some symbol. -/
theorem exists_lookup_ne {r1 r2 : List (α × List α)} (h1 : (akeys r1).Nodup) (h2 : (akeys r2).Nodup)
    (hne : ¬ ((r1.all fun x => decide (x ∈ r2)) = true ∧ (r2.all fun x => decide (x ∈ r1)) = true)) :
    ∃ a, alookup a r1 ≠ alookup a r2 := by
  apply Classical.byContradiction
  intro hno
  have hall : ∀ a, alookup a r1 = alookup a r2 := by
    intro a
    apply Classical.byContradiction
    intro h; exact hno ⟨a, h⟩
  apply hne
  simp only [List.all_eq_true, decide_eq_true_eq]
  constructor
  · intro x hx
    have := alookup_of_mem_nodup h1 (k := x.1) (v := x.2) hx
    rw [hall] at this
    exact alookup_some_mem this
  · intro x hx
    have := alookup_of_mem_nodup h2 (k := x.1) (v := x.2) hx
    rw [← hall] at this
    exact alookup_some_mem this

theorem sigGet_none {sig : FLSig α} {l : List (FLSig α × List α)} (h : sigGet sig l = none) :
    ∀ e ∈ l, sigEq e.1 sig = false := by
  induction l with
  | nil => intro e he; cases he
  | cons e0 t ih =>
    obtain ⟨s0, u⟩ := e0
    unfold sigGet at h
    by_cases hs : sigEq s0 sig = true
    · simp [hs] at h
    · simp only [hs] at h
      intro e he
      rcases List.mem_cons.mp he with rfl | he'
      · simpa using hs
      · exact ih h e he'

/-- One `compress` iteration preserves "registered states are pairwise distinguishable". -/
theorem compressAt_invD {added : List (List α)} {cur : List α} {k : Nat} {s : FLState α}
    {φ : List α → List α} (inv : FLInv added cur (k + 1) s φ) (hadd : added ≠ []) (hD : RegDist s) :
    ∃ s' φ', flCompressAt s (cur.take (k + 1)) = .ok s' ∧ FLInv added cur k s' φ' ∧ RegDist s' := by
  obtain ⟨s', φ', h1, inv', hcase⟩ := compressAt_inv inv hadd
  refine ⟨s', φ', h1, inv', ?_⟩
  rcases hcase with ⟨ht, hf, row, hrow, hsig, hsigs⟩ | ⟨hsigs, hfrozen⟩
  · -- the state has been registered: it differs from every registered state
    have hacc : ∀ q w, accFrom s' q w = accFrom s q w := by
      intro q w
      unfold accFrom
      have : look s' = look s := by funext q a; unfold look; rw [ht]
      rw [this, hf]
    have hav : ∀ q, q ∈ avals s'.sigs ↔ q ∈ avals s.sigs ∨ q = cur.take (k + 1) := by
      intro q; rw [hsigs]; simp [avals]
    have hkids : ∀ a t, look s (cur.take (k + 1)) a = some t → t ∈ avals s.sigs := by
      intro a t ht'
      rcases inv.activeKids (k + 1) (Nat.le_refl _) a t ht' with ⟨h, _⟩ | h
      · omega
      · exact h
    have hprenot : cur.take (k + 1) ∉ avals s.sigs := fun h =>
      ((inv.regIff _).mp h).2 (k + 1) (Nat.le_refl _) rfl
    -- pre against a registered q
    have hnew : ∀ q ∈ avals s.sigs, ∃ w, accFrom s (cur.take (k + 1)) w ≠ accFrom s q w := by
      intro q hq
      obtain ⟨x, hx, hx2⟩ := List.mem_map.mp hq
      obtain ⟨rowq, hrq, hxs⟩ := inv.sigOK x hx
      rw [hx2] at hrq hxs
      have hne := sigGet_none hsig x hx
      rw [hxs] at hne
      unfold sigEq at hne
      simp only at hne
      by_cases hfin : decide (q ∈ s.finals) = decide (cur.take (k + 1) ∈ s.finals)
      · -- same finality: the rows differ
        have hrows : ¬ ((rowq.all fun y => decide (y ∈ row)) = true ∧
            (row.all fun y => decide (y ∈ rowq)) = true) := by
          rintro ⟨h2, h3⟩
          rw [hfin] at hne
          simp [h2, h3] at hne
        obtain ⟨a, ha⟩ := exists_lookup_ne (inv.rowsNodup _ _ hrq) (inv.rowsNodup _ _ hrow) hrows
        have hlq : look s q a = alookup a rowq := by unfold look; rw [hrq]; rfl
        have hlp : look s (cur.take (k + 1)) a = alookup a row := by unfold look; rw [hrow]; rfl
        cases h1' : alookup a rowq with
        | none =>
          cases h2' : alookup a row with
          | none => rw [h1', h2'] at ha; exact absurd rfl ha
          | some t2 =>
            -- pre moves on `a` to a live state, q does not move
            have ht2 : t2 ∈ avals s.sigs := hkids a t2 (by rw [hlp, h2'])
            obtain ⟨u, hu⟩ := key_live inv t2 ((inv.regIff _).mp ht2).1
            refine ⟨a :: u, ?_⟩
            rw [accFrom_cons, accFrom_cons, hlp, h2', hlq, h1']
            simp [hu]
        | some t1 =>
          have ht1 : t1 ∈ avals s.sigs := inv.regClosed q hq a t1 (by rw [hlq, h1'])
          cases h2' : alookup a row with
          | none =>
            obtain ⟨u, hu⟩ := key_live inv t1 ((inv.regIff _).mp ht1).1
            refine ⟨a :: u, ?_⟩
            rw [accFrom_cons, accFrom_cons, hlp, h2', hlq, h1']
            simp [hu]
          | some t2 =>
            have ht2 : t2 ∈ avals s.sigs := hkids a t2 (by rw [hlp, h2'])
            have hne12 : t2 ≠ t1 := by
              intro e; rw [h1', h2', e] at ha; exact ha rfl
            obtain ⟨u, hu⟩ := hD t2 ht2 t1 ht1 hne12
            refine ⟨a :: u, ?_⟩
            rw [accFrom_cons, accFrom_cons, hlp, h2', hlq, h1']
            exact hu
      · refine ⟨[], ?_⟩
        rw [accFrom_nil, accFrom_nil]
        exact fun e => hfin e.symm
    intro q1 h1q q2 h2q hne
    rcases (hav q1).mp h1q with h1' | h1' <;> rcases (hav q2).mp h2q with h2' | h2'
    · obtain ⟨w, hw⟩ := hD q1 h1' q2 h2' hne
      exact ⟨w, by rw [hacc, hacc]; exact hw⟩
    · obtain ⟨w, hw⟩ := hnew q1 h1'
      exact ⟨w, by rw [hacc, hacc, h2']; exact fun e => hw e.symm⟩
    · obtain ⟨w, hw⟩ := hnew q2 h2'
      exact ⟨w, by rw [hacc, hacc, h1']; exact hw⟩
    · exact absurd (h1'.trans h2'.symm) hne
  · -- the state has been merged into a registered one: the registered part is frozen
    have hacc := frozen_acc (s := s) (s' := s') (avals s.sigs) inv.regClosed hfrozen
    intro q1 h1q q2 h2q hne
    rw [hsigs] at h1q h2q
    obtain ⟨w, hw⟩ := hD q1 h1q q2 h2q hne
    exact ⟨w, by rw [hacc w q1 h1q, hacc w q2 h2q]; exact hw⟩

theorem compressLoop_invD {added : List (List α)} {cur : List α} (hadd : added ≠ []) :
    ∀ (n i : Nat) (s : FLState α) (φ : List α → List α), n ≤ i → FLInv added cur i s φ → RegDist s →
      ∃ s' φ', flCompressLoop cur n i s = .ok s' ∧ FLInv added cur (i - n) s' φ' ∧ RegDist s' := by
  intro n
  induction n with
  | zero => intro i s φ _ inv hD; exact ⟨s, φ, rfl, by simpa using inv, hD⟩
  | succ n ih =>
    intro i s φ hni inv hD
    obtain ⟨k, rfl⟩ : ∃ k, i = k + 1 := ⟨i - 1, by omega⟩
    obtain ⟨s1, φ1, h1, inv1, hD1⟩ := compressAt_invD inv hadd hD
    unfold flCompressLoop
    rw [h1]
    simp only [Nat.add_sub_cancel]
    obtain ⟨s2, φ2, h2, inv2, hD2⟩ := ih k s1 φ1 (by omega) inv1 hD1
    refine ⟨s2, φ2, h2, ?_, hD2⟩
    have : k + 1 - (n + 1) = k - n := by omega
    rw [this]; exact inv2

theorem compress_invD {added : List (List α)} {cur : List α} (hadd : added ≠ []) (s : FLState α)
    (φ : List α → List α) (inv : FLInv added cur cur.length s φ) (hD : RegDist s) (next : List α) :
    ∃ s' φ', flCompress s cur next = .ok s' ∧ FLInv added cur (lcpLen cur next) s' φ' ∧ RegDist s' := by
  unfold flCompress
  obtain ⟨s', φ', h1, inv', hD'⟩ := compressLoop_invD hadd (cur.length - lcpLen cur next) cur.length s φ
    (by omega) inv hD
  refine ⟨s', φ', h1, ?_, hD'⟩
  have : cur.length - (cur.length - lcpLen cur next) = lcpLen cur next := by
    have := lcpLen_le_left cur next; omega
  rw [this] at inv'; exact inv'

/-- `add_to_trie` does not touch the registered part. -/
theorem add_frozenD {added : List (List α)} {cur : List α} {k : Nat} {s : FLState α}
    {φ : List α → List α} (inv : FLInv added cur k s φ) (next : List α)
    (hk : next.take k = cur.take k)
    (hfresh : ∀ q, q <+: next → k < q.length → ¬ InTrie added q)
    (hnew : ¬ InTrie added next) (hD : RegDist s) : RegDist (flAddWord s next) := by
  have e := flAddWord_effect s next
  have hsame : ∀ q ∈ avals s.sigs,
      (∀ a, look (flAddWord s next) q a = look s q a) ∧
        (q ∈ (flAddWord s next).finals ↔ q ∈ s.finals) := by
    intro q hq
    obtain ⟨hkey, hne⟩ := (inv.regIff q).mp hq
    have hqn : q ≠ next := fun e' => hnew (e' ▸ inv.namesT _ hkey)
    refine ⟨fun a => ?_, ?_⟩
    · rw [e.look_ne q a hqn]
      cases h0 : look s q a with
      | some t => rfl
      | none =>
        simp only
        have : ¬ ∃ j, j < next.length ∧ q = next.take j ∧ next[j]? = some a := by
          rintro ⟨j, hj, e1, _⟩
          have hin : InTrie added (next.take j) := e1 ▸ inv.namesT _ hkey
          have hjk : j ≤ k := by
            apply Classical.byContradiction; intro h
            apply hfresh _ (List.take_prefix _ _) _ hin
            rw [List.length_take]; omega
          rw [take_of_take_eq hk hjk] at e1
          exact hne j hjk e1
        rw [if_neg this]
    · rw [e.finals, mem_sinsert]
      simp [hqn]
  have hacc := frozen_acc (s := s) (s' := flAddWord s next) (avals s.sigs) inv.regClosed hsame
  intro q1 h1 q2 h2 hne
  rw [e.sigs] at h1 h2
  obtain ⟨w, hw⟩ := hD q1 h1 q2 h2 hne
  exact ⟨w, by rw [hacc w q1 h1, hacc w q2 h2]; exact hw⟩

section main
variable {lt : α → α → Bool} (ho : StrictTotal lt)
include ho

theorem add_after_compressD {added : List (List α)} {prev : List α} {s : FLState α}
    {φ : List α → List α} (hmax : ∀ w ∈ added, wordLe lt w prev) (next : List α)
    (hlt : wordLt lt prev next = true ∨ added = [])
    (inv : FLInv added prev (lcpLen prev next) s φ) (hD : RegDist s) :
    RegDist (flAddWord s next) := by
  have hcommon : ∀ p, InTrie added p → p <+: next → p.length ≤ lcpLen prev next := by
    intro p hp hpn
    obtain ⟨w, hw, hpw⟩ := hp
    rcases hlt with hlt | he
    · have : p <+: prev := prefix_between ho (hmax w hw) (Or.inr hlt) hpw hpn
      exact common_prefix_le this hpn
    · rw [he] at hw; cases hw
  apply add_frozenD inv next
  · rw [take_lcpLen prev next]
  · intro q hq hk hin
    have := hcommon q hin hq; omega
  · intro hin
    obtain ⟨w, hw, hnw⟩ := hin
    rcases hlt with hlt | he
    · have h1 : wordLe lt next w := prefix_wordLe ho hnw
      have h2 : wordLe lt next prev := wordLe_trans ho h1 (hmax w hw)
      rcases h2 with h2 | h2
      · rw [h2, wordLt_irrefl ho] at hlt; cases hlt
      · have := wordLt_trans ho hlt h2
        rw [wordLt_irrefl ho] at this; cases this
    · rw [he] at hw; cases hw
  · exact hD

theorem flMain_invD : ∀ (rest : List (List α)) (added : List (List α)) (prev : List α) (s : FLState α)
    (φ : List α → List α), added ≠ [] → FLInv added prev prev.length s φ → RegDist s →
    (∀ w ∈ added, wordLe lt w prev) → Increasing lt (prev :: rest) →
    ∃ s' φ' last, flMain rest prev s = .ok s' ∧ FLInv (added ++ rest) last 0 s' φ' ∧ RegDist s' := by
  intro rest
  induction rest with
  | nil =>
    intro added prev s φ hadd inv hD _ _
    obtain ⟨s', φ', h1, inv', hD'⟩ := compress_invD hadd s φ inv hD []
    rw [lcpLen_nil_right] at inv'
    exact ⟨s', φ', prev, h1, by simpa using inv', hD'⟩
  | cons cur rest ih =>
    intro added prev s φ hadd inv hD hmax hinc
    unfold Increasing at hinc
    rw [List.pairwise_cons] at hinc
    have hlt : wordLt lt prev cur = true := hinc.1 cur (by simp)
    obtain ⟨s1, φ1, h1, inv1, hD1⟩ := compress_invD hadd s φ inv hD cur
    obtain ⟨φ2, inv2⟩ := add_after_compress ho hmax cur (Or.inl hlt) inv1
    have hD2 := add_after_compressD ho hmax cur (Or.inl hlt) inv1 hD1
    unfold flMain
    rw [h1]
    simp only
    obtain ⟨s3, φ3, last, h3, inv3, hD3⟩ := ih (added ++ [cur]) cur (flAddWord s1 cur) φ2 (by simp) inv2 hD2
      (by
        intro w hw
        rcases List.mem_append.mp hw with h | h
        · exact wordLe_trans ho (hmax w h) (Or.inr hlt)
        · simp only [List.mem_singleton] at h; exact Or.inl h)
      hinc.2
    exact ⟨s3, φ3, last, h3, by simpa using inv3, hD3⟩

theorem construction_invD (first : List α) (rest : List (List α)) (hinc : Increasing lt (first :: rest)) :
    ∃ s φ last, flMain rest first (flAddWord s0 first) = .ok s ∧ FLInv (first :: rest) last 0 s φ ∧
      RegDist s := by
  have hinv0 : FLInv ([] : List (List α)) [] (lcpLen ([] : List α) first) s0 id := by
    have : lcpLen ([] : List α) first = 0 := by cases first <;> rfl
    rw [this]; exact inv_init
  have hD0 : RegDist (s0 : FLState α) := by
    intro q1 h1; simp [s0, avals] at h1
  obtain ⟨φ1, inv1⟩ := add_after_compress ho (added := []) (prev := []) (s := s0) (φ := id)
    (fun w hw => by cases hw) first (Or.inr rfl) hinv0
  have hD1 := add_after_compressD ho (added := []) (prev := []) (s := s0) (φ := id)
    (fun w hw => by cases hw) first (Or.inr rfl) hinv0 hD0
  simp only [List.nil_append] at inv1
  obtain ⟨s, φ, last, h, inv, hD⟩ := flMain_invD ho rest [first] first (flAddWord s0 first) φ1 (by simp)
    inv1 hD1 (by intro w hw; simp only [List.mem_singleton] at hw; exact Or.inl hw) hinc
  exact ⟨s, φ, last, h, by simpa using inv, hD⟩

end main

/-! ### the final table is minimal -/

theorem exists_max_length (l : List (List α)) (h : l ≠ []) : ∃ u ∈ l, ∀ w ∈ l, w.length ≤ u.length := by
  induction l with
  | nil => exact absurd rfl h
  | cons x t ih =>
    by_cases ht : t = []
    · subst ht; exact ⟨x, by simp, fun w hw => by simp at hw; rw [hw]; exact Nat.le_refl _⟩
    · obtain ⟨u, hu, hmax⟩ := ih ht
      by_cases hxu : u.length ≤ x.length
      · refine ⟨x, by simp, ?_⟩
        intro w hw
        rcases List.mem_cons.mp hw with rfl | hw'
        · exact Nat.le_refl _
        · exact Nat.le_trans (hmax w hw') hxu
      · refine ⟨u, List.mem_cons_of_mem _ hu, ?_⟩
        intro w hw
        rcases List.mem_cons.mp hw with rfl | hw'
        · omega
        · exact hmax w hw'

section finalMin
variable {added : List (List α)} {last : List α} {s : FLState α} {φ : List α → List α}
variable (syms : List α) (inv : FLInv added last 0 s φ) (hadd : added ≠ [])
variable (hover : ∀ w ∈ added, ∀ c ∈ w, c ∈ syms) (hD : RegDist s)
include inv hadd hover

omit hover in
theorem reg_final (q : List α) : q ∈ avals s.sigs ↔ q ∈ akeys s.trans ∧ q ≠ [] := by
  rw [inv.regIff]
  constructor
  · rintro ⟨h1, h2⟩; exact ⟨h1, by simpa using h2 0 (Nat.le_refl _)⟩
  · rintro ⟨h1, h2⟩
    refine ⟨h1, ?_⟩
    intro i hi
    have : i = 0 := by omega
    subst this; simpa using h2

/-- A word accepted from a state only uses symbols of the alphabet. -/
theorem acc_over (w : List α) : ∀ q, accFrom s q w = true → Over syms w := by
  induction w with
  | nil => intro q _; exact over_nil _
  | cons a w ih =>
    intro q h
    rw [accFrom_cons] at h
    cases hl : look s q a with
    | none => rw [hl] at h; cases h
    | some t =>
      rw [hl] at h
      obtain ⟨_, _, w', hw', haw⟩ := look_target inv hadd q a t hl
      rw [over_cons]
      exact ⟨hover w' hw' a haw, ih t h⟩

omit hover in
theorem inTrie_over (hover : ∀ w ∈ added, ∀ c ∈ w, c ∈ syms) (p : List α) (hp : InTrie added p) :
    Over syms p := by
  obtain ⟨w, hw, hpw⟩ := hp
  intro c hc
  exact hover w hw c (hpw.subset hc)

omit hover in
open Classical in
/-- The root against any other state: a longest word of the language is accepted from the root
only. -/
theorem root_dist (q : List α) (hq : q ∈ akeys s.trans) (hne : q ≠ []) :
    ∃ u, accFrom s [] u = true ∧ accFrom s q u = false := by
  obtain ⟨u0, hu0, hmax⟩ := exists_max_length added hadd
  refine ⟨u0, ?_, ?_⟩
  · unfold accFrom
    rw [runO_root inv hadd]
    have hin : InTrie added u0 := ⟨u0, hu0, List.prefix_refl _⟩
    simp only [hin, if_true, decide_eq_true_eq]
    exact (inv.fin u0 hin).mpr hu0
  · obtain ⟨p, hp, rfl⟩ := inv.surj q hq
    have hpne : p ≠ [] := by
      intro e; subst e; exact hne (φ_root inv hadd)
    unfold accFrom
    rw [runO_trie inv u0 p hp]
    have : ¬ InTrie added (p ++ u0) := by
      rintro ⟨w, hw, hpw⟩
      have h1 := hpw.length_le
      have h2 := hmax w hw
      have : p.length ≠ 0 := fun e => hpne (List.eq_nil_of_length_eq_zero e)
      simp at h1; omega
    simp [this]

include hD in
/-- Any two states of the final table are distinguished by a word over the alphabet. -/
theorem keys_dist (q1 q2 : List α) (h1 : q1 ∈ akeys s.trans) (h2 : q2 ∈ akeys s.trans) (hne : q1 ≠ q2) :
    ∃ w, Over syms w ∧ accFrom s q1 w ≠ accFrom s q2 w := by
  have hover_of : ∀ w, accFrom s q1 w ≠ accFrom s q2 w → Over syms w := by
    intro w hw
    cases h : accFrom s q1 w with
    | true => exact acc_over syms inv hadd hover w q1 h
    | false =>
      cases h' : accFrom s q2 w with
      | true => exact acc_over syms inv hadd hover w q2 h'
      | false => rw [h, h'] at hw; exact absurd rfl hw
  by_cases e1 : q1 = []
  · subst e1
    obtain ⟨u, hu1, hu2⟩ := root_dist inv hadd q2 h2 (fun e => hne e.symm)
    have : accFrom s [] u ≠ accFrom s q2 u := by rw [hu1, hu2]; simp
    exact ⟨u, hover_of u this, this⟩
  · by_cases e2 : q2 = []
    · subst e2
      obtain ⟨u, hu1, hu2⟩ := root_dist inv hadd q1 h1 e1
      have : accFrom s q1 u ≠ accFrom s [] u := by rw [hu1, hu2]; simp
      exact ⟨u, hover_of u this, this⟩
    · obtain ⟨w, hw⟩ := hD q1 ((reg_final inv hadd q1).mpr ⟨h1, e1⟩) q2
        ((reg_final inv hadd q2).mpr ⟨h2, e2⟩) hne
      exact ⟨w, hover_of w hw, hw⟩

omit inv hadd hover in
theorem flPartial_isFinal_run (q : List α) (w : List α) :
    (flPartialDFA syms s).isFinal ((flPartialDFA syms s).run (some (FLName.pref q)) w) = accFrom s q w := by
  rw [flPartial_run]
  unfold accFrom
  cases runO (look s) (some q) w with
  | none => rfl
  | some t =>
    simp only [Option.map_some, DFA.isFinal, flPartialDFA, List.mem_map]
    congr 1
    apply propext
    constructor
    · rintro ⟨t', ht', e⟩; rw [pref_inj _ _ e] at ht'; exact ht'
    · intro h; exact ⟨t, h, rfl⟩

open Classical in
include hD in
/-- **Minimality, partial form.** -/
theorem flPartial_minimal : MinimalPartialShape (flPartialDFA syms s) where
  nodup := by
    show (akeys (flTrans s)).Nodup
    unfold flTrans
    rw [akeys_map_key]
    exact nodup_map_inj _ pref_inj inv.keysNodup
  reach := by
    intro x hx
    obtain ⟨q, hq, rfl⟩ := (flTrans_keys s x).mp hx
    obtain ⟨p, hp, rfl⟩ := inv.surj q hq
    refine ⟨p, inTrie_over syms inv hadd hover p hp, ?_⟩
    rw [show (flPartialDFA syms s).init = FLName.pref [] from rfl, flPartial_run, runO_root inv hadd]
    simp [hp]
  dist := by
    intro x1 h1 x2 h2 hne
    obtain ⟨q1, hq1, rfl⟩ := (flTrans_keys s x1).mp h1
    obtain ⟨q2, hq2, rfl⟩ := (flTrans_keys s x2).mp h2
    have hq : q1 ≠ q2 := fun e => hne (by rw [e])
    obtain ⟨w, hw, hd⟩ := keys_dist syms inv hadd hover hD q1 q2 hq1 hq2 hq
    exact ⟨w, hw, by rw [flPartial_isFinal_run, flPartial_isFinal_run]; exact hd⟩
  live := by
    intro x hx
    obtain ⟨q, hq, rfl⟩ := (flTrans_keys s x).mp hx
    obtain ⟨u, hu⟩ := key_live inv q hq
    exact ⟨u, acc_over syms inv hadd hover u q hu, by rw [flPartial_isFinal_run]; exact hu⟩

/-! #### complete form -/

omit hover in
theorem flComplete_run_from (x : Option (List α)) (hx : ∀ q, x = some q → q ∈ akeys s.trans)
    (w : List α) (hw : Over syms w) :
    (flCompleteDFA syms (s := s)).run (some (cName x)) w = some (cName (runO (look s) x w)) := by
  have hstep : ∀ (x : Option (List α)) (a : α), (∀ q, x = some q → q ∈ akeys s.trans) →
      a ∈ (flCompleteDFA syms (s := s)).syms →
      (flCompleteDFA syms (s := s)).step? (some (cName x)) a = some (cName (x.bind fun q => look s q a)) ∧
        ∀ q, (x.bind fun q => look s q a) = some q → q ∈ akeys s.trans := by
    intro x a hx ha
    refine ⟨flComplete_step syms inv x hx a ha, ?_⟩
    intro q hq
    cases x with
    | none => cases hq
    | some q0 => exact (look_target inv hadd q0 a q hq).2.1
  exact (run_sim (flCompleteDFA syms (s := s)) cName (fun x a => x.bind fun q => look s q a)
    (fun x => ∀ q, x = some q → q ∈ akeys s.trans) hstep w x hx hw).1

omit hover in
theorem flComplete_isFinal_run (q : List α) (hq : q ∈ akeys s.trans) (w : List α) (hw : Over syms w) :
    (flCompleteDFA syms (s := s)).isFinal ((flCompleteDFA syms (s := s)).run (some (FLName.pref q)) w) =
      accFrom s q w := by
  have := flComplete_run_from syms inv hadd (some q) (fun q' e => by cases e; exact hq) w hw
  simp only [cName] at this
  rw [this]
  unfold accFrom
  cases runO (look s) (some q) w with
  | none => simp [DFA.isFinal, cName, flCompleteDFA]
  | some t =>
    simp only [DFA.isFinal, cName, flCompleteDFA, List.mem_map]
    congr 1
    apply propext
    constructor
    · rintro ⟨t', ht', e⟩; rw [pref_inj _ _ e] at ht'; exact ht'
    · intro h; exact ⟨t, h, rfl⟩

omit hover in
theorem flComplete_trap_run (w : List α) (hw : Over syms w) :
    (flCompleteDFA syms (s := s)).isFinal ((flCompleteDFA syms (s := s)).run (some FLName.zero) w) = false := by
  have := flComplete_run_from syms inv hadd none (fun q e => by cases e) w hw
  simp only [cName] at this
  rw [this, runO_none]
  simp [DFA.isFinal, cName, flCompleteDFA]

open Classical in
include hD in
/-- **Minimality, complete form** (the trap state is reachable as soon as the alphabet is not
empty). -/
theorem flComplete_minimal (a : α) (ha : a ∈ syms) : MinimalShape (flCompleteDFA syms (s := s)) where
  nodup := by
    show (akeys (flCompleteTable syms (s := s))).Nodup
    unfold flCompleteTable
    apply nodup_akeys_ainsert
    rw [akeys_map_val]
    unfold flTrans
    rw [akeys_map_key]
    exact nodup_map_inj _ pref_inj inv.keysNodup
  reach := by
    intro x hx
    have hroot : ∀ q, (some ([] : List α)) = some q → q ∈ akeys s.trans := by
      intro q e; cases e
      have := inv.dom [] (inTrie_root inv hadd)
      rwa [φ_root inv hadd] at this
    rcases (flComplete_keys syms x).mp hx with rfl | ⟨q, hq, rfl⟩
    · -- a longest word followed by one more symbol falls out of the trie
      obtain ⟨u0, hu0, hmax⟩ := exists_max_length added hadd
      have hov : Over syms (u0 ++ [a]) := by
        rw [over_append]
        exact ⟨fun c hc => hover u0 hu0 c hc, by simp [ha]⟩
      refine ⟨u0 ++ [a], hov, ?_⟩
      rw [show (flCompleteDFA syms (s := s)).init = cName (some []) from rfl,
        flComplete_run_from syms inv hadd (some []) hroot _ hov, runO_root inv hadd]
      have : ¬ InTrie added (u0 ++ [a]) := by
        rintro ⟨w, hw, hpw⟩
        have h1 := hpw.length_le
        have h2 := hmax w hw
        simp at h1; omega
      simp [this, cName]
    · obtain ⟨p, hp, rfl⟩ := inv.surj q hq
      have hov := inTrie_over syms inv hadd hover p hp
      refine ⟨p, hov, ?_⟩
      rw [show (flCompleteDFA syms (s := s)).init = cName (some []) from rfl,
        flComplete_run_from syms inv hadd (some []) hroot _ hov, runO_root inv hadd]
      simp [hp, cName]
  dist := by
    intro x1 h1 x2 h2 hne
    have key : ∀ q, q ∈ akeys s.trans →
        Distinguishable (flCompleteDFA syms (s := s)) FLName.zero (FLName.pref q) := by
      intro q hq
      obtain ⟨u, hu⟩ := key_live inv q hq
      have hov := acc_over syms inv hadd hover u q hu
      refine ⟨u, hov, ?_⟩
      rw [flComplete_trap_run syms inv hadd u hov, flComplete_isFinal_run syms inv hadd q hq u hov, hu]
      simp
    rcases (flComplete_keys syms x1).mp h1 with rfl | ⟨q1, hq1, rfl⟩ <;>
      rcases (flComplete_keys syms x2).mp h2 with rfl | ⟨q2, hq2, rfl⟩
    · exact absurd rfl hne
    · exact key q2 hq2
    · obtain ⟨w, hw, hd⟩ := key q1 hq1
      exact ⟨w, hw, fun e => hd e.symm⟩
    · have hq : q1 ≠ q2 := fun e => hne (by rw [e])
      obtain ⟨w, hw, hd⟩ := keys_dist syms inv hadd hover hD q1 q2 hq1 hq2 hq
      exact ⟨w, hw, by
        rw [flComplete_isFinal_run syms inv hadd q1 hq1 w hw,
          flComplete_isFinal_run syms inv hadd q2 hq2 w hw]; exact hd⟩

end finalMin

/-- The assembly, with the distinguishability of the registered states. -/
theorem fromFiniteLanguage_eqD {lt : α → α → Bool} (ho : StrictTotal lt) (syms : List α)
    (lang : List (List α)) (asPartial : Bool) (hne : lang ≠ []) (hnd : lang.Nodup) :
    ∃ (added : List (List α)) (last : List α) (s : FLState α) (φ : List α → List α),
      (∀ w, w ∈ added ↔ w ∈ lang) ∧ added ≠ [] ∧ FLInv added last 0 s φ ∧ RegDist s ∧
      fromFiniteLanguage lt syms lang asPartial =
        if asPartial then build (flPartialDFA syms s) else build (flCompleteDFA syms (s := s)) := by
  have hinc := increasing_sortWords ho lang hnd
  have hmem := mem_sortWords ho lang
  cases hsort : sortWords lt lang with
  | nil =>
    exfalso
    obtain ⟨w, hw⟩ := List.exists_mem_of_ne_nil lang hne
    have := (hmem w).mpr hw
    rw [hsort] at this; cases this
  | cons first rest =>
    rw [hsort] at hinc hmem
    obtain ⟨s, φ, last, hmain, inv, hD⟩ := construction_invD ho first rest hinc
    refine ⟨first :: rest, last, s, φ, hmem, by simp, inv, hD, ?_⟩
    unfold fromFiniteLanguage
    have hemp : lang.isEmpty = false := by
      cases lang with
      | nil => exact absurd rfl hne
      | cons a t => rfl
    rw [hemp, hsort]
    simp only [Bool.false_eq_true, if_false]
    have : flMain rest first (flAddWord { trans := [], back := [([], [])], finals := [], sigs := [] } first) =
        .ok s := hmain
    rw [this]
    cases asPartial <;> rfl

end AV.Ctor.FL
