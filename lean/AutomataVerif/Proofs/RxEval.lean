/-
Proofs/RxEval.lean — token classification lemmas (read off the regenerated class table) and
`parse_postfix_tokens` on the postfix linearisation of a tree = the builder run of the tree.
Core only.
-/
import AutomataVerif.Model.RxAst

namespace AV.Rx

set_option linter.unusedSectionVars false

variable {α : Type}

/-! ### classification of the token classes (evaluated on `AV.Gen.Regex.tokenClasses`) -/

@[simp] theorem base_lparen : (Tok.lparen : Tok α).base = .lparen := by rfl
@[simp] theorem base_rparen : (Tok.rparen : Tok α).base = .rparen := by rfl
@[simp] theorem base_union : (Tok.union : Tok α).base = .infixOp := by rfl
@[simp] theorem base_inter : (Tok.inter : Tok α).base = .infixOp := by rfl
@[simp] theorem base_shuffle : (Tok.shuffle : Tok α).base = .infixOp := by rfl
@[simp] theorem base_concat : (Tok.concat : Tok α).base = .infixOp := by rfl
@[simp] theorem base_star : (Tok.star : Tok α).base = .postfixOp := by rfl
@[simp] theorem base_plus : (Tok.plus : Tok α).base = .postfixOp := by rfl
@[simp] theorem base_opt : (Tok.opt : Tok α).base = .postfixOp := by rfl
@[simp] theorem base_quant (lo : Nat) (hi : Option Nat) :
    (Tok.quant lo hi : Tok α).base = .postfixOp := by rfl
@[simp] theorem base_str (s : List α) : (Tok.str s : Tok α).base = .literal := by rfl
@[simp] theorem base_wildcard : (Tok.wildcard : Tok α).base = .literal := by rfl

@[simp] theorem prec_union : (Tok.union : Tok α).prec = some 1 := by rfl
@[simp] theorem prec_inter : (Tok.inter : Tok α).prec = some 1 := by rfl
@[simp] theorem prec_shuffle : (Tok.shuffle : Tok α).prec = some 1 := by rfl
@[simp] theorem prec_concat : (Tok.concat : Tok α).prec = some 2 := by rfl
@[simp] theorem prec_star : (Tok.star : Tok α).prec = some 3 := by rfl
@[simp] theorem prec_plus : (Tok.plus : Tok α).prec = some 3 := by rfl
@[simp] theorem prec_opt : (Tok.opt : Tok α).prec = some 3 := by rfl
@[simp] theorem prec_quant (lo : Nat) (hi : Option Nat) :
    (Tok.quant lo hi : Tok α).prec = some 3 := by rfl

variable [DecidableEq α]

/-- Evaluating the postfix form of a tree (followed by anything) pushes the builder of the
tree — or fails exactly as the builder run fails. -/
theorem evalPostfix_toPostfix (syms : List α) (e : Rx α) :
    ∀ (rest : List (Tok α)) (stack : List (Builder α)) (c : Nat),
      evalPostfix syms (e.toPostfix ++ rest) stack c =
        match e.build syms c with
        | .error x => .error x
        | .ok (b, c') => evalPostfix syms rest (b :: stack) c' := by
  induction e with
  | lit a => intro rest stack c; simp [Rx.toPostfix, evalPostfix, litVal, Rx.build]
  | wildcard => intro rest stack c; simp [Rx.toPostfix, evalPostfix, litVal, Rx.build]
  | eps => intro rest stack c; simp [Rx.toPostfix, evalPostfix, litVal, Rx.build]
  | cat e f ihe ihf =>
    intro rest stack c
    simp only [Rx.toPostfix, List.append_assoc, ihe, Rx.build]
    cases h1 : e.build syms c with
    | error x => rfl
    | ok r1 =>
      obtain ⟨b1, c1⟩ := r1
      simp only [ihf]
      cases h2 : f.build syms c1 with
      | error x => rfl
      | ok r2 =>
        obtain ⟨b2, c2⟩ := r2
        simp only [List.singleton_append, evalPostfix, base_concat, infixOp]
        cases b1.concatenate b2 <;> simp
  | union e f ihe ihf =>
    intro rest stack c
    simp only [Rx.toPostfix, List.append_assoc, ihe, Rx.build]
    cases h1 : e.build syms c with
    | error x => rfl
    | ok r1 =>
      obtain ⟨b1, c1⟩ := r1
      simp only [ihf]
      cases h2 : f.build syms c1 with
      | error x => rfl
      | ok r2 =>
        obtain ⟨b2, c2⟩ := r2
        simp [evalPostfix, infixOp]
  | inter e f ihe ihf =>
    intro rest stack c
    simp only [Rx.toPostfix, List.append_assoc, ihe, Rx.build]
    cases h1 : e.build syms c with
    | error x => rfl
    | ok r1 =>
      obtain ⟨b1, c1⟩ := r1
      simp only [ihf]
      cases h2 : f.build syms c1 with
      | error x => rfl
      | ok r2 =>
        obtain ⟨b2, c2⟩ := r2
        simp [evalPostfix, infixOp]
  | shuffle e f ihe ihf =>
    intro rest stack c
    simp only [Rx.toPostfix, List.append_assoc, ihe, Rx.build]
    cases h1 : e.build syms c with
    | error x => rfl
    | ok r1 =>
      obtain ⟨b1, c1⟩ := r1
      simp only [ihf]
      cases h2 : f.build syms c1 with
      | error x => rfl
      | ok r2 =>
        obtain ⟨b2, c2⟩ := r2
        simp [evalPostfix, infixOp]
  | star e ihe =>
    intro rest stack c
    simp only [Rx.toPostfix, List.append_assoc, ihe, Rx.build]
    cases h1 : e.build syms c with
    | error x => rfl
    | ok r1 =>
      obtain ⟨b1, c1⟩ := r1
      simp only [List.singleton_append, evalPostfix, base_star, postfixOp]
      cases b1.repeat_ 0 none c1 <;> simp
  | plus e ihe =>
    intro rest stack c
    simp only [Rx.toPostfix, List.append_assoc, ihe, Rx.build]
    cases h1 : e.build syms c with
    | error x => rfl
    | ok r1 =>
      obtain ⟨b1, c1⟩ := r1
      simp only [List.singleton_append, evalPostfix, base_plus, postfixOp]
      cases b1.repeat_ 1 none c1 <;> simp
  | opt e ihe =>
    intro rest stack c
    simp only [Rx.toPostfix, List.append_assoc, ihe, Rx.build]
    cases h1 : e.build syms c with
    | error x => rfl
    | ok r1 =>
      obtain ⟨b1, c1⟩ := r1
      simp only [List.singleton_append, evalPostfix, base_opt, postfixOp]
      cases b1.repeat_ 0 (some 1) c1 <;> simp
  | rep e lo hi ihe =>
    intro rest stack c
    simp only [Rx.toPostfix, List.append_assoc, ihe, Rx.build]
    cases h1 : e.build syms c with
    | error x => rfl
    | ok r1 =>
      obtain ⟨b1, c1⟩ := r1
      simp only [List.singleton_append, evalPostfix, base_quant, postfixOp]
      cases b1.repeat_ lo hi c1 <;> simp

/-- `parse_postfix_tokens(postfix of e)` from an empty stack is the builder run of `e`. -/
theorem evalPostfix_tree (syms : List α) (e : Rx α) (c : Nat) :
    evalPostfix syms e.toPostfix [] c = e.build syms c := by
  have := evalPostfix_toPostfix syms e [] [] c
  rw [List.append_nil] at this
  rw [this]
  cases e.build syms c with
  | error x => rfl
  | ok r => obtain ⟨b, c'⟩ := r; simp [evalPostfix]

end AV.Rx
