/-
Proofs/TMRun.lean — the three `read_input_stepwise` models against the reference semantics
of `Spec/TM.lean` (views).
-/
import AutomataVerif.Spec.TM
import AutomataVerif.Proofs.TMTape
import AutomataVerif.Proofs.QueueBFS
import AutomataVerif.Proofs.Basic

namespace AV.TM
set_option linter.unusedSectionVars false
variable {σ Γ : Type} [DecidableEq σ] [DecidableEq Γ]

/-! ### generic generator facts -/

theorem genRun_length_le {S Y : Type} (resume : S → Resume S Y) (n : Nat) (s : S) :
    (genRun resume n s).1.length ≤ n := by
  induction n generalizing s with
  | zero => simp [genRun]
  | succ n ih =>
    simp only [genRun]
    cases resume s with
    | ret => simp
    | raise e => simp
    | yield y s' => simp only [List.length_cons]; have := ih s'; omega

theorem genRun_running_length {S Y : Type} (resume : S → Resume S Y) (n : Nat) (s : S)
    (h : (genRun resume n s).2 = .running) : (genRun resume n s).1.length = n := by
  induction n generalizing s with
  | zero => simp [genRun]
  | succ n ih =>
    simp only [genRun] at h ⊢
    cases hr : resume s with
    | ret => simp [hr] at h
    | raise e => simp [hr] at h
    | yield y s' => simp only [hr] at h ⊢; simp [ih s' h]

/-! ### tapes of configurations -/

theorem apply_wf (c : Cfg σ Γ) (r : σ × Γ × Dir) : (DTM.apply c r).tape.WF :=
  Tape.move_wf _ _

theorem viewCfg_apply {c : Cfg σ Γ} (h : c.tape.WF) (r : σ × Γ × Dir) :
    viewCfg (DTM.apply c r) = vapply (viewCfg c) r := by
  simp only [viewCfg, DTM.apply, vapply, Tape.write_move_view h]

theorem initTape_view (w : List Γ) (b : Γ) : (Tape.init w b).view = blankTape b w := by
  funext i
  rw [Tape.init_view]; rfl

/-! ## DTM -/
namespace DTM

theorem getTransition_eq_delta (M : DTM σ Γ) (q : σ) (s : Γ) :
    M.getTransition q s = M.delta q s := by
  unfold getTransition delta
  cases alookup q M.trans <;> rfl

theorem viewCfg_initCfg (M : DTM σ Γ) (w : List Γ) : viewCfg (M.initCfg w) = M.vstart w := by
  simp [viewCfg, initCfg, vstart, initTape_view]

theorem initCfg_wf (M : DTM σ Γ) (w : List Γ) : (M.initCfg w).tape.WF := Tape.init_wf _ _ _

/-- The model's step is the reference transition function on views. -/
theorem next_ok (M : DTM σ Γ) {c c' : Cfg σ Γ} (h : c.tape.WF) (hn : M.next c = .ok c') :
    M.vstep (viewCfg c) = some (viewCfg c') ∧ c'.tape.WF := by
  unfold next at hn
  unfold vstep
  rw [getTransition_eq_delta, Tape.read_eq_view] at hn
  show Option.map _ (M.delta c.state (c.tape.view 0)) = _ ∧ _
  cases hd : M.delta c.state (c.tape.view 0) with
  | none => rw [hd] at hn; cases hn
  | some r =>
    rw [hd] at hn
    simp only [Except.ok.injEq] at hn
    subst hn
    exact ⟨by simp [viewCfg_apply h], apply_wf _ _⟩

theorem next_err (M : DTM σ Γ) {c : Cfg σ Γ} {e : Exn} (hn : M.next c = .error e) :
    M.vstep (viewCfg c) = none ∧ e = .lib .rejectionException := by
  unfold next at hn
  unfold vstep
  rw [getTransition_eq_delta, Tape.read_eq_view] at hn
  show Option.map _ (M.delta c.state (c.tape.view 0)) = _ ∧ _
  cases hd : M.delta c.state (c.tape.view 0) with
  | none => rw [hd] at hn; simp only [Except.error.injEq] at hn; exact ⟨rfl, hn.symm⟩
  | some r => rw [hd] at hn; cases hn

theorem resume_final (M : DTM σ Γ) {c : Cfg σ Γ} (hf : c.state ∈ M.finals) : M.resume c = .ret := by
  simp [resume, hasAccepted, hf]

theorem resume_err (M : DTM σ Γ) {c : Cfg σ Γ} {e : Exn} (hf : c.state ∉ M.finals)
    (hn : M.next c = .error e) : M.resume c = .raise e := by
  simp [resume, hasAccepted, hf, hn]

theorem resume_ok (M : DTM σ Γ) {c c1 : Cfg σ Γ} (hf : c.state ∉ M.finals)
    (hn : M.next c = .ok c1) : M.resume c = .yield c1 c1 := by
  simp [resume, hasAccepted, hf, hn]

theorem vrunFrom_none (M : DTM σ Γ) (k : Nat) : M.vrunFrom none k = none := by
  unfold vrunFrom
  induction k with
  | zero => rfl
  | succ k ih => rw [Function.iterate_succ_apply', ih]; rfl

theorem vrunFrom_succ (M : DTM σ Γ) (c : VCfg σ Γ) (k : Nat) :
    M.vrunFrom (some c) (k + 1) = M.vrunFrom (M.vstep c) k := by
  unfold vrunFrom
  rw [Function.iterate_succ]
  rfl

theorem vrunFrom_zero (M : DTM σ Γ) (c : Option (VCfg σ Γ)) : M.vrunFrom c 0 = c := rfl

/-- Every yield after the suspended configuration `c` is the corresponding iterate. -/
theorem genRun_kth (M : DTM σ Γ) :
    ∀ (n : Nat) (c : Cfg σ Γ), c.tape.WF → ∀ (k : Nat) (c' : Cfg σ Γ),
      (genRun M.resume n c).1[k]? = some c' →
        M.vrunFrom (some (viewCfg c)) (k + 1) = some (viewCfg c') := by
  intro n
  induction n with
  | zero => intro c _ k c' h; simp [genRun] at h
  | succ n ih =>
    intro c hc k c' h
    by_cases hf : c.state ∈ M.finals
    · simp [genRun, M.resume_final hf] at h
    · cases hnx : M.next c with
      | error e => simp [genRun, M.resume_err hf hnx] at h
      | ok c1 =>
        have hn := M.next_ok hc hnx
        simp only [genRun, M.resume_ok hf hnx] at h
        rw [vrunFrom_succ, hn.1]
        cases k with
        | zero =>
          simp only [List.getElem?_cons_zero, Option.some.injEq] at h
          subst h
          rfl
        | succ j =>
          simp only [List.getElem?_cons_succ] at h
          exact ih c1 hn.2 j c' h

/-- Final-free prefix of the run from `c`. -/
def NoFinalBefore (M : DTM σ Γ) (c : VCfg σ Γ) (k : Nat) : Prop :=
  ∀ j, j < k → ∀ v, M.vrunFrom (some c) j = some v → v.state ∉ M.finals

theorem noFinalBefore_succ (M : DTM σ Γ) (c c1 : VCfg σ Γ) (k : Nat) (hs : M.vstep c = some c1) :
    M.NoFinalBefore c (k + 1) ↔ c.state ∉ M.finals ∧ M.NoFinalBefore c1 k := by
  unfold NoFinalBefore
  constructor
  · intro h
    refine ⟨h 0 (by omega) c rfl, ?_⟩
    intro j hj v hv
    apply h (j + 1) (by omega) v
    rw [vrunFrom_succ, hs]; exact hv
  · rintro ⟨h0, h⟩ j hj v hv
    cases j with
    | zero => simp only [vrunFrom_zero, Option.some.injEq] at hv; subst hv; exact h0
    | succ j =>
      rw [vrunFrom_succ, hs] at hv
      exact h j (by omega) v hv

theorem genRun_returned_iff (M : DTM σ Γ) :
    ∀ (n : Nat) (c : Cfg σ Γ), c.tape.WF →
      ((genRun M.resume n c).2 = .returned ↔
        ∃ k, k < n ∧ (∃ v, M.vrunFrom (some (viewCfg c)) k = some v ∧ v.state ∈ M.finals) ∧
          M.NoFinalBefore (viewCfg c) k) := by
  intro n
  induction n with
  | zero => intro c _; simp [genRun]
  | succ n ih =>
    intro c hc
    by_cases hf : c.state ∈ M.finals
    · simp only [genRun, M.resume_final hf, true_iff]
      exact ⟨0, by omega, ⟨viewCfg c, rfl, hf⟩, fun j hj => by omega⟩
    · cases hnx : M.next c with
      | error e =>
        have hn := M.next_err hnx
        simp only [genRun, M.resume_err hf hnx, reduceCtorEq, false_iff]
        rintro ⟨k, _, ⟨v, hv, hvf⟩, _⟩
        cases k with
        | zero => simp only [vrunFrom_zero, Option.some.injEq] at hv; subst hv; exact hf hvf
        | succ k => rw [vrunFrom_succ, hn.1, vrunFrom_none] at hv; cases hv
      | ok c1 =>
        have hn := M.next_ok hc hnx
        simp only [genRun, M.resume_ok hf hnx]
        rw [ih c1 hn.2]
        constructor
        · rintro ⟨k, hk, hv, hnf⟩
          refine ⟨k + 1, by omega, ?_, ?_⟩
          · rw [vrunFrom_succ, hn.1]; exact hv
          · exact (noFinalBefore_succ M _ _ k hn.1).mpr ⟨hf, hnf⟩
        · rintro ⟨k, hk, ⟨v, hv, hvf⟩, hnf⟩
          cases k with
          | zero => simp only [vrunFrom_zero, Option.some.injEq] at hv; subst hv; exact absurd hvf hf
          | succ k =>
            rw [vrunFrom_succ, hn.1] at hv
            exact ⟨k, by omega, ⟨v, hv, hvf⟩, ((noFinalBefore_succ M _ _ k hn.1).mp hnf).2⟩

theorem genRun_raised_iff (M : DTM σ Γ) :
    ∀ (n : Nat) (c : Cfg σ Γ), c.tape.WF → ∀ e,
      ((genRun M.resume n c).2 = .raised e ↔
        e = .lib .rejectionException ∧
        ∃ k, k < n ∧ (∃ v, M.vrunFrom (some (viewCfg c)) k = some v ∧ v.state ∉ M.finals ∧
          M.vstep v = none) ∧ M.NoFinalBefore (viewCfg c) k) := by
  intro n
  induction n with
  | zero => intro c _ e; simp [genRun]
  | succ n ih =>
    intro c hc e
    by_cases hf : c.state ∈ M.finals
    · simp only [genRun, M.resume_final hf, reduceCtorEq, false_iff]
      rintro ⟨_, k, _, ⟨v, hv, hvf, _⟩, hnf⟩
      cases k with
      | zero => simp only [vrunFrom_zero, Option.some.injEq] at hv; subst hv; exact hvf hf
      | succ k => exact hnf 0 (by omega) (viewCfg c) rfl hf
    · cases hnx : M.next c with
      | error e' =>
        have hn := M.next_err hnx
        simp only [genRun, M.resume_err hf hnx, GenEnd.raised.injEq]
        constructor
        · intro h
          subst h
          exact ⟨hn.2, 0, by omega, ⟨viewCfg c, rfl, hf, hn.1⟩, fun j hj => by omega⟩
        · rintro ⟨he, _⟩
          rw [he, hn.2]
      | ok c1 =>
        have hn := M.next_ok hc hnx
        simp only [genRun, M.resume_ok hf hnx]
        rw [ih c1 hn.2]
        constructor
        · rintro ⟨he, k, hk, hv, hnf⟩
          refine ⟨he, k + 1, by omega, ?_, ?_⟩
          · rw [vrunFrom_succ, hn.1]; exact hv
          · exact (noFinalBefore_succ M _ _ k hn.1).mpr ⟨hf, hnf⟩
        · rintro ⟨he, k, hk, ⟨v, hv, hvf, hst⟩, hnf⟩
          cases k with
          | zero =>
            simp only [vrunFrom_zero, Option.some.injEq] at hv; subst hv
            rw [hn.1] at hst; cases hst
          | succ k =>
            rw [vrunFrom_succ, hn.1] at hv
            exact ⟨he, k, by omega, ⟨v, hv, hvf, hst⟩, ((noFinalBefore_succ M _ _ k hn.1).mp hnf).2⟩

/-- The generator yields a `k`-th further configuration exactly when the budget allows it
and the run neither got stuck nor met a final state before. -/
theorem genRun_exists_iff (M : DTM σ Γ) :
    ∀ (n : Nat) (c : Cfg σ Γ), c.tape.WF → ∀ k,
      ((∃ c', (genRun M.resume n c).1[k]? = some c') ↔
        k < n ∧ (∃ v, M.vrunFrom (some (viewCfg c)) (k + 1) = some v) ∧
          M.NoFinalBefore (viewCfg c) (k + 1)) := by
  intro n
  induction n with
  | zero => intro c _ k; simp [genRun]
  | succ n ih =>
    intro c hc k
    by_cases hf : c.state ∈ M.finals
    · simp only [genRun, M.resume_final hf, List.getElem?_nil, reduceCtorEq, exists_false, false_iff]
      rintro ⟨_, _, hnf⟩
      exact hnf 0 (by omega) (viewCfg c) rfl hf
    · cases hnx : M.next c with
      | error e =>
        have hn := M.next_err hnx
        simp only [genRun, M.resume_err hf hnx, List.getElem?_nil, reduceCtorEq, exists_false,
          false_iff]
        rintro ⟨_, ⟨v, hv⟩, _⟩
        rw [vrunFrom_succ, hn.1, vrunFrom_none] at hv
        cases hv
      | ok c1 =>
        have hn := M.next_ok hc hnx
        simp only [genRun, M.resume_ok hf hnx]
        rw [noFinalBefore_succ M _ _ _ hn.1, vrunFrom_succ, hn.1]
        cases k with
        | zero =>
          simp only [List.getElem?_cons_zero, Option.some.injEq, exists_eq', true_iff]
          exact ⟨by omega, ⟨viewCfg c1, rfl⟩, hf, fun j hj => by omega⟩
        | succ j =>
          simp only [List.getElem?_cons_succ]
          rw [ih c1 hn.2 j]
          constructor
          · rintro ⟨h1, h2, h3⟩; exact ⟨by omega, h2, hf, h3⟩
          · rintro ⟨h1, h2, _, h3⟩; exact ⟨by omega, h2, h3⟩

end DTM

/-! ## NTM -/

/-- The set of views of a stored level. -/
def VS (L : List (Cfg σ Γ)) : VCfg σ Γ → Prop := fun v => ∃ c ∈ L, viewCfg c = v

def AllWF (L : List (Cfg σ Γ)) : Prop := ∀ c ∈ L, c.tape.WF

theorem mem_dedup {β : Type} [DecidableEq β] {x : β} {l : List β} : x ∈ dedup l ↔ x ∈ l := by
  unfold dedup; simp

theorem mem_foldl_sunion {α β : Type} [DecidableEq β] (f : α → List β) (l : List α) (init : List β)
    (y : β) : y ∈ l.foldl (fun acc c => sunion acc (f c)) init ↔ y ∈ init ∨ ∃ c ∈ l, y ∈ f c := by
  induction l generalizing init with
  | nil => simp
  | cons a t ih =>
    simp only [List.foldl_cons, ih, mem_sunion, List.mem_cons, exists_eq_or_imp]
    constructor
    · rintro ((h | h) | h)
      · exact Or.inl h
      · exact Or.inr (Or.inl h)
      · exact Or.inr (Or.inr h)
    · rintro (h | h | h)
      · exact Or.inl (Or.inl h)
      · exact Or.inl (Or.inr h)
      · exact Or.inr h

namespace NTM

theorem getTransitions_eq_delta (M : NTM σ Γ) (q : σ) (s : Γ) :
    M.getTransitions q s = M.delta q s := by
  unfold getTransitions delta
  cases alookup q M.trans <;> rfl

theorem mem_nextCfgs (M : NTM σ Γ) (c c' : Cfg σ Γ) :
    c' ∈ M.nextCfgs c ↔ ∃ r ∈ M.delta c.state (c.tape.view 0), c' = DTM.apply c r := by
  unfold nextCfgs
  rw [mem_dedup, getTransitions_eq_delta, Tape.read_eq_view]
  simp only [List.mem_map]
  constructor
  · rintro ⟨r, hr, rfl⟩; exact ⟨r, hr, rfl⟩
  · rintro ⟨r, hr, rfl⟩; exact ⟨r, hr, rfl⟩

theorem mem_nextLevel (M : NTM σ Γ) (cur : List (Cfg σ Γ)) (c' : Cfg σ Γ) :
    c' ∈ M.nextLevel cur ↔ ∃ c ∈ cur, c' ∈ M.nextCfgs c := by
  unfold nextLevel
  rw [mem_foldl_sunion]
  simp

theorem nextLevel_wf (M : NTM σ Γ) (cur : List (Cfg σ Γ)) : AllWF (M.nextLevel cur) := by
  intro c' hc'
  obtain ⟨c, _, h⟩ := (M.mem_nextLevel cur c').mp hc'
  obtain ⟨r, _, rfl⟩ := (M.mem_nextCfgs c c').mp h
  exact apply_wf _ _

/-- The views of the next stored level are exactly the one-step successors of the views of
the current one. -/
theorem VS_nextLevel (M : NTM σ Γ) {cur : List (Cfg σ Γ)} (hw : AllWF cur) (v' : VCfg σ Γ) :
    VS (M.nextLevel cur) v' ↔ ∃ v, VS cur v ∧ M.VStep v v' := by
  constructor
  · rintro ⟨c', hc', rfl⟩
    obtain ⟨c, hc, h⟩ := (M.mem_nextLevel cur c').mp hc'
    obtain ⟨r, hr, rfl⟩ := (M.mem_nextCfgs c c').mp h
    exact ⟨viewCfg c, ⟨c, hc, rfl⟩, r, hr, viewCfg_apply (hw c hc) r⟩
  · rintro ⟨v, ⟨c, hc, rfl⟩, r, hr, rfl⟩
    refine ⟨DTM.apply c r, ?_, viewCfg_apply (hw c hc) r⟩
    exact (M.mem_nextLevel cur _).mpr ⟨c, hc, (M.mem_nextCfgs c _).mpr ⟨r, hr, rfl⟩⟩

/-- `k`-step successors of the views of a stored level. -/
def lev (M : NTM σ Γ) (L : List (Cfg σ Γ)) (k : Nat) (v : VCfg σ Γ) : Prop :=
  ∃ u, VS L u ∧ ReachN M.VStep k u v

theorem lev_zero (M : NTM σ Γ) (L : List (Cfg σ Γ)) (v : VCfg σ Γ) : M.lev L 0 v ↔ VS L v := by
  unfold lev ReachN
  constructor
  · rintro ⟨u, hu, rfl⟩; exact hu
  · intro h; exact ⟨v, h, rfl⟩

theorem lev_succ (M : NTM σ Γ) {L : List (Cfg σ Γ)} (hw : AllWF L) (k : Nat) (v : VCfg σ Γ) :
    M.lev L (k + 1) v ↔ M.lev (M.nextLevel L) k v := by
  unfold lev
  constructor
  · rintro ⟨u, hu, m, hum, hmv⟩
    exact ⟨m, (M.VS_nextLevel hw m).mpr ⟨u, hu, hum⟩, hmv⟩
  · rintro ⟨m, hm, hmv⟩
    obtain ⟨u, hu, hum⟩ := (M.VS_nextLevel hw m).mp hm
    exact ⟨u, hu, m, hum, hmv⟩

theorem resume_nil (M : NTM σ Γ) : M.resume [] = .raise (.lib .rejectionException) := rfl

theorem any_final_iff (M : NTM σ Γ) (L : List (Cfg σ Γ)) :
    L.any M.hasAccepted = true ↔ ∃ c ∈ L, c.state ∈ M.finals := by
  simp [hasAccepted]

theorem resume_final (M : NTM σ Γ) {L : List (Cfg σ Γ)} (h : ∃ c ∈ L, c.state ∈ M.finals) :
    M.resume L = .ret := by
  have ha := (M.any_final_iff L).mpr h
  obtain ⟨c, hc, _⟩ := h
  cases L with
  | nil => cases hc
  | cons a t => simp only [resume, ha, if_true]

theorem resume_step (M : NTM σ Γ) {L : List (Cfg σ Γ)} (hne : L ≠ [])
    (h : ¬ ∃ c ∈ L, c.state ∈ M.finals) :
    M.resume L = .yield (M.nextLevel L) (M.nextLevel L) := by
  have ha : ¬ (L.any M.hasAccepted = true) := fun hh => h ((M.any_final_iff L).mp hh)
  cases L with
  | nil => exact absurd rfl hne
  | cons a t => simp [resume, ha]

def NoFinalBefore (M : NTM σ Γ) (L : List (Cfg σ Γ)) (k : Nat) : Prop :=
  ∀ j, j < k → ∀ v, M.lev L j v → v.state ∉ M.finals

theorem noFinalBefore_succ (M : NTM σ Γ) {L : List (Cfg σ Γ)} (hw : AllWF L) (k : Nat) :
    M.NoFinalBefore L (k + 1) ↔
      (¬ ∃ c ∈ L, c.state ∈ M.finals) ∧ M.NoFinalBefore (M.nextLevel L) k := by
  unfold NoFinalBefore
  constructor
  · intro h
    refine ⟨?_, ?_⟩
    · rintro ⟨c, hc, hf⟩
      exact h 0 (by omega) (viewCfg c) ((M.lev_zero L _).mpr ⟨c, hc, rfl⟩) hf
    · intro j hj v hv
      exact h (j + 1) (by omega) v ((M.lev_succ hw j v).mpr hv)
  · rintro ⟨h0, h⟩ j hj v hv
    cases j with
    | zero =>
      obtain ⟨c, hc, rfl⟩ := (M.lev_zero L v).mp hv
      exact fun hf => h0 ⟨c, hc, hf⟩
    | succ j => exact h j (by omega) v ((M.lev_succ hw j v).mp hv)

/-- Every yielded set is, as a set of views, the set of `k`-step successors. -/
theorem genRun_kth (M : NTM σ Γ) :
    ∀ (n : Nat) (L : List (Cfg σ Γ)), AllWF L → ∀ (k : Nat) (L' : List (Cfg σ Γ)),
      (genRun M.resume n L).1[k]? = some L' → AllWF L' ∧ ∀ v, VS L' v ↔ M.lev L (k + 1) v := by
  intro n
  induction n with
  | zero => intro L _ k L' h; simp [genRun] at h
  | succ n ih =>
    intro L hw k L' h
    by_cases hne : L = []
    · subst hne; simp [genRun, resume_nil] at h
    · by_cases hf : ∃ c ∈ L, c.state ∈ M.finals
      · simp [genRun, M.resume_final hf] at h
      · simp only [genRun, M.resume_step hne hf] at h
        cases k with
        | zero =>
          simp only [List.getElem?_cons_zero, Option.some.injEq] at h
          subst h
          refine ⟨M.nextLevel_wf L, fun v => ?_⟩
          rw [M.lev_succ hw, M.lev_zero]
        | succ j =>
          simp only [List.getElem?_cons_succ] at h
          obtain ⟨h1, h2⟩ := ih _ (M.nextLevel_wf L) j L' h
          refine ⟨h1, fun v => ?_⟩
          rw [h2 v, M.lev_succ hw]

theorem genRun_returned_iff (M : NTM σ Γ) :
    ∀ (n : Nat) (L : List (Cfg σ Γ)), AllWF L →
      ((genRun M.resume n L).2 = .returned ↔
        ∃ k, k < n ∧ (∃ v, M.lev L k v ∧ v.state ∈ M.finals) ∧ M.NoFinalBefore L k) := by
  intro n
  induction n with
  | zero => intro L _; simp [genRun]
  | succ n ih =>
    intro L hw
    by_cases hne : L = []
    · subst hne
      simp only [genRun, resume_nil, reduceCtorEq, false_iff]
      rintro ⟨k, _, ⟨v, ⟨u, ⟨c, hc, _⟩, _⟩, _⟩, _⟩
      cases hc
    · by_cases hf : ∃ c ∈ L, c.state ∈ M.finals
      · simp only [genRun, M.resume_final hf, true_iff]
        obtain ⟨c, hc, hcf⟩ := hf
        exact ⟨0, by omega, ⟨viewCfg c, (M.lev_zero L _).mpr ⟨c, hc, rfl⟩, hcf⟩, fun j hj => by omega⟩
      · simp only [genRun, M.resume_step hne hf]
        rw [ih _ (M.nextLevel_wf L)]
        constructor
        · rintro ⟨k, hk, ⟨v, hv, hvf⟩, hnf⟩
          exact ⟨k + 1, by omega, ⟨v, (M.lev_succ hw k v).mpr hv, hvf⟩,
            (M.noFinalBefore_succ hw k).mpr ⟨hf, hnf⟩⟩
        · rintro ⟨k, hk, ⟨v, hv, hvf⟩, hnf⟩
          cases k with
          | zero =>
            obtain ⟨c, hc, rfl⟩ := (M.lev_zero L v).mp hv
            exact absurd ⟨c, hc, hvf⟩ hf
          | succ k =>
            exact ⟨k, by omega, ⟨v, (M.lev_succ hw k v).mp hv, hvf⟩,
              ((M.noFinalBefore_succ hw k).mp hnf).2⟩

theorem genRun_raised_iff (M : NTM σ Γ) :
    ∀ (n : Nat) (L : List (Cfg σ Γ)), AllWF L → ∀ e,
      ((genRun M.resume n L).2 = .raised e ↔
        e = .lib .rejectionException ∧
        ∃ k, k < n ∧ (∀ v, ¬ M.lev L k v) ∧ M.NoFinalBefore L k) := by
  intro n
  induction n with
  | zero => intro L _ e; simp [genRun]
  | succ n ih =>
    intro L hw e
    by_cases hne : L = []
    · subst hne
      simp only [genRun, resume_nil, GenEnd.raised.injEq]
      constructor
      · intro h
        refine ⟨h.symm, 0, by omega, ?_, fun j hj => by omega⟩
        rintro v ⟨u, ⟨c, hc, _⟩, _⟩
        cases hc
      · rintro ⟨h, _⟩; exact h.symm
    · by_cases hf : ∃ c ∈ L, c.state ∈ M.finals
      · simp only [genRun, M.resume_final hf, reduceCtorEq, false_iff]
        obtain ⟨c, hc, hcf⟩ := hf
        rintro ⟨_, k, _, hemp, hnf⟩
        cases k with
        | zero => exact hemp (viewCfg c) ((M.lev_zero L _).mpr ⟨c, hc, rfl⟩)
        | succ k => exact hnf 0 (by omega) (viewCfg c) ((M.lev_zero L _).mpr ⟨c, hc, rfl⟩) hcf
      · simp only [genRun, M.resume_step hne hf]
        rw [ih _ (M.nextLevel_wf L)]
        constructor
        · rintro ⟨he, k, hk, hemp, hnf⟩
          exact ⟨he, k + 1, by omega, fun v hv => hemp v ((M.lev_succ hw k v).mp hv),
            (M.noFinalBefore_succ hw k).mpr ⟨hf, hnf⟩⟩
        · rintro ⟨he, k, hk, hemp, hnf⟩
          cases k with
          | zero =>
            exfalso
            cases L with
            | nil => exact hne rfl
            | cons a t => exact hemp (viewCfg a) ((M.lev_zero _ _).mpr ⟨a, by simp, rfl⟩)
          | succ k =>
            exact ⟨he, k, by omega, fun v hv => hemp v ((M.lev_succ hw k v).mpr hv),
              ((M.noFinalBefore_succ hw k).mp hnf).2⟩

/-- The generator yields a `k`-th further level exactly when the budget allows it and the
levels before are non-empty and free of final states. -/
theorem genRun_exists_iff (M : NTM σ Γ) :
    ∀ (n : Nat) (L : List (Cfg σ Γ)), AllWF L → ∀ k,
      ((∃ L', (genRun M.resume n L).1[k]? = some L') ↔
        k < n ∧ (∃ v, M.lev L k v) ∧ M.NoFinalBefore L (k + 1)) := by
  intro n
  induction n with
  | zero => intro L _ k; simp [genRun]
  | succ n ih =>
    intro L hw k
    by_cases hne : L = []
    · subst hne
      simp only [genRun, resume_nil, List.getElem?_nil, reduceCtorEq, exists_false, false_iff]
      rintro ⟨_, ⟨v, u, ⟨c, hc, _⟩, _⟩, _⟩
      cases hc
    · by_cases hf : ∃ c ∈ L, c.state ∈ M.finals
      · simp only [genRun, M.resume_final hf, List.getElem?_nil, reduceCtorEq, exists_false,
          false_iff]
        rintro ⟨_, _, hnf⟩
        exact ((M.noFinalBefore_succ hw k).mp hnf).1 hf
      · simp only [genRun, M.resume_step hne hf]
        rw [M.noFinalBefore_succ hw k]
        cases k with
        | zero =>
          simp only [List.getElem?_cons_zero, Option.some.injEq, exists_eq', true_iff]
          refine ⟨by omega, ?_, hf, fun j hj => by omega⟩
          cases L with
          | nil => exact absurd rfl hne
          | cons a t => exact ⟨viewCfg a, (M.lev_zero _ _).mpr ⟨a, by simp, rfl⟩⟩
        | succ j =>
          simp only [List.getElem?_cons_succ]
          rw [ih _ (M.nextLevel_wf L) j]
          constructor
          · rintro ⟨h1, ⟨v, hv⟩, h3⟩
            exact ⟨by omega, ⟨v, (M.lev_succ hw j v).mpr hv⟩, hf, h3⟩
          · rintro ⟨h1, ⟨v, hv⟩, _, h3⟩
            exact ⟨by omega, ⟨v, (M.lev_succ hw j v).mp hv⟩, h3⟩

end NTM

/-! ## MNTM -/

theorem reachN_succ_last {α : Type} (R : α → α → Prop) (k : Nat) (a b : α) :
    ReachN R (k + 1) a b ↔ ∃ m, ReachN R k a m ∧ R m b := by
  induction k generalizing a with
  | zero =>
    simp only [ReachN]
    constructor
    · rintro ⟨m, h, rfl⟩; exact ⟨a, rfl, h⟩
    · rintro ⟨m, rfl, h⟩; exact ⟨b, h, rfl⟩
  | succ k ih =>
    constructor
    · rintro ⟨x, hax, hx⟩
      obtain ⟨m, hm, hmb⟩ := (ih x).mp hx
      exact ⟨m, ⟨x, hax, hm⟩, hmb⟩
    · rintro ⟨m, ⟨x, hax, hxm⟩, hmb⟩
      exact ⟨x, hax, (ih x).mpr ⟨m, hxm, hmb⟩⟩

def AllWFM (c : MCfg σ Γ) : Prop := ∀ t ∈ c.tapes, t.WF

namespace MNTM

/-- Successor list of the queue loop (in enqueue order). -/
def succ (M : MNTM σ Γ) (c : MCfg σ Γ) : List (MCfg σ Γ) := (M.children c).getD []

/-- The `return` test of the queue loop. -/
def acc (M : MNTM σ Γ) (c : MCfg σ Γ) : Bool :=
  (M.children c).isNone && decide (c.state ∈ M.finals)

theorem resume_eq_qres (M : MNTM σ Γ) : M.resume = Q.qres M.succ M.acc := by
  funext st
  cases hc : M.children st.1 with
  | none =>
    have hs : M.succ st.1 = [] := by simp [succ, hc]
    have ha : M.acc st.1 = decide (st.1.state ∈ M.finals) := by simp [acc, hc]
    simp only [resume, Q.qres, hc, hs, ha, List.append_nil]
    by_cases hf : st.1.state ∈ M.finals
    · simp [hf]
    · cases hq : st.2 <;> simp [hf, Q.rej]
  | some kids =>
    have hs : M.succ st.1 = kids := by simp [succ, hc]
    have ha : M.acc st.1 = false := by simp [acc, hc]
    simp only [resume, Q.qres, hc, hs, ha]
    cases hq : st.2 ++ kids <;> simp [Q.rej]

theorem readStepwise_eq_qobs (M : MNTM σ Γ) (w : List Γ) (n : Nat) :
    M.readStepwise w n = Q.qobs M.succ M.acc n [M.initCfg w] := by
  unfold readStepwise
  rw [resume_eq_qres, Q.genStart_eq_qobs]

theorem getTransition_eq (M : MNTM σ Γ) (q : σ) (tapes : List (Tape Γ)) :
    (M.getTransition q tapes).getD [] = M.delta q (tapes.map fun t => t.view 0) := by
  unfold getTransition delta readHeads
  have : (tapes.map Tape.read) = (tapes.map fun t => t.view 0) := by
    apply List.map_congr_left
    intro t _
    exact Tape.read_eq_view t
  rw [this]
  cases alookup q M.trans <;> rfl

theorem succ_eq (M : MNTM σ Γ) (c : MCfg σ Γ) :
    M.succ c = match M.delta c.state (c.tapes.map fun t => t.view 0) with
      | [] => []
      | t0 :: ts => (ts ++ [t0]).map (apply c.tapes) := by
  rw [← getTransition_eq]
  unfold succ children
  cases M.getTransition c.state c.tapes with
  | none => rfl
  | some l =>
    cases l with
    | nil => rfl
    | cons t0 ts => simp

theorem apply_wf (tapes : List (Tape Γ)) (t : σ × List (Γ × Dir)) : AllWFM (apply tapes t) := by
  intro tp htp
  unfold apply at htp
  simp only at htp
  obtain ⟨i, hi, rfl⟩ := List.getElem_of_mem htp
  simp only [List.getElem_zipWith]
  exact Tape.move_wf _ _

theorem map_view_zipWith (moves : List (Γ × Dir)) (tapes : List (Tape Γ)) (hw : ∀ t ∈ tapes, t.WF) :
    (List.zipWith (fun (m : Γ × Dir) (tp : Tape Γ) => (tp.write m.1).move m.2) moves tapes).map Tape.view =
      List.zipWith (fun (m : Γ × Dir) (f : Int → Γ) => shift m.2 (Function.update f 0 m.1)) moves
        (tapes.map Tape.view) := by
  induction moves generalizing tapes with
  | nil => simp
  | cons m ms ih =>
    cases tapes with
    | nil => simp
    | cons t ts =>
      simp only [List.zipWith_cons_cons, List.map_cons]
      rw [Tape.write_move_view (hw t (by simp)), ih ts (fun x hx => hw x (by simp [hx]))]

theorem viewM_apply {c : MCfg σ Γ} (hw : AllWFM c) (t : σ × List (Γ × Dir)) :
    viewM (apply c.tapes t) = vmapply (viewM c) t := by
  simp only [viewM, apply, vmapply, map_view_zipWith t.2 c.tapes hw]

theorem heads_view (c : MCfg σ Γ) :
    (c.tapes.map fun t => t.view 0) = ((viewM c).tapes.map fun f => f 0) := by
  simp [viewM]

/-- The stored successors, as views, are the reference children of the view. -/
theorem succ_view (M : MNTM σ Γ) {c : MCfg σ Γ} (hw : AllWFM c) :
    (M.succ c).map viewM = M.vchildren (viewM c) := by
  rw [succ_eq]
  unfold vchildren
  rw [← heads_view]
  show _ = match M.delta c.state _ with | [] => _ | t0 :: ts => _
  cases M.delta c.state (c.tapes.map fun t => t.view 0) with
  | nil => rfl
  | cons t0 ts =>
    simp only [List.map_map]
    apply List.map_congr_left
    intro t _
    exact viewM_apply hw t

theorem succ_wf (M : MNTM σ Γ) (c : MCfg σ Γ) : ∀ x ∈ M.succ c, AllWFM x := by
  intro x hx
  rw [succ_eq] at hx
  cases hd : M.delta c.state (c.tapes.map fun t => t.view 0) with
  | nil => rw [hd] at hx; cases hx
  | cons t0 ts =>
    rw [hd] at hx
    simp only [List.mem_map] at hx
    obtain ⟨t, _, rfl⟩ := hx
    exact apply_wf _ _

theorem initCfg_wf (M : MNTM σ Γ) (w : List Γ) : AllWFM (M.initCfg w) := by
  intro t ht
  simp only [initCfg, initTapes, List.mem_cons, List.mem_replicate] at ht
  rcases ht with rfl | ⟨_, rfl⟩ <;> exact Tape.init_wf _ _ _

theorem viewM_initCfg (M : MNTM σ Γ) (w : List Γ) : viewM (M.initCfg w) = M.vstart w := by
  simp only [viewM, initCfg, initTapes, vstart, List.map_cons, List.map_replicate, initTape_view]
  congr 3
  funext i
  simp only [blankTape]
  split
  · cases h : i.toNat <;> simp
  · rfl

/-- Valid machines: a final state has no row, so the `return` test is "state is final". -/
theorem acc_eq_final (M : MNTM σ Γ) (hfin : ∀ q ∈ M.finals, alookup q M.trans = none)
    (c : MCfg σ Γ) : M.acc c = M.isFinal (viewM c) := by
  unfold acc isFinal
  by_cases hf : c.state ∈ M.finals
  · have : M.children c = none := by
      unfold children getTransition
      rw [hfin _ hf]
    simp [this, hf, viewM]
  · simp [hf, viewM]

theorem vlevel_eq_lvl (M : MNTM σ Γ) (w : List Γ) (d : Nat) :
    M.vlevel w d = Q.lvl M.vchildren d [M.vstart w] := by
  induction d with
  | zero => rfl
  | succ d ih => rw [vlevel, Q.lvl_succ', ih]

theorem vlevelsUpTo_eq (M : MNTM σ Γ) (w : List Γ) (n : Nat) :
    M.vlevelsUpTo w n = Q.concatLevels M.vchildren n [M.vstart w] := by
  induction n with
  | zero => rfl
  | succ n ih => rw [vlevelsUpTo, Q.concatLevels_succ_last, ih, vlevel_eq_lvl]

theorem mem_vchildren (M : MNTM σ Γ) (c c' : VMCfg σ Γ) : c' ∈ M.vchildren c ↔ M.VStep c c' := by
  unfold vchildren VStep
  cases M.delta c.state (c.tapes.map fun f => f 0) with
  | nil => simp
  | cons t0 ts =>
    simp only [List.mem_map, List.mem_append, List.mem_cons, List.not_mem_nil, or_false]
    constructor
    · rintro ⟨t, ht | ht, rfl⟩
      · exact ⟨t, Or.inr ht, rfl⟩
      · exact ⟨t, Or.inl ht, rfl⟩
    · rintro ⟨t, ht | ht, rfl⟩
      · exact ⟨t, Or.inr ht, rfl⟩
      · exact ⟨t, Or.inl ht, rfl⟩

/-- Level `d` consists exactly of the configurations reachable in `d` steps. -/
theorem mem_vlevel (M : MNTM σ Γ) (w : List Γ) (d : Nat) (v : VMCfg σ Γ) :
    v ∈ M.vlevel w d ↔ ReachN M.VStep d (M.vstart w) v := by
  induction d generalizing v with
  | zero => simp [vlevel, ReachN, eq_comm]
  | succ d ih =>
    rw [vlevel, reachN_succ_last, List.mem_flatMap]
    constructor
    · rintro ⟨m, hm, hv⟩; exact ⟨m, (ih m).mp hm, (M.mem_vchildren m v).mp hv⟩
    · rintro ⟨m, hm, hv⟩; exact ⟨m, (ih m).mpr hm, (M.mem_vchildren m v).mpr hv⟩

/-- **Breadth-first visit**, on views: yields and end of the observation. -/
theorem readStepwise_view (M : MNTM σ Γ) (hfin : ∀ q ∈ M.finals, alookup q M.trans = none)
    (w : List Γ) (n : Nat) :
    (M.readStepwise w n).1.map viewM = Q.cutThrough M.isFinal ((M.vlevelsUpTo w n).take n) ∧
    (M.readStepwise w n).2 = Q.endOf M.isFinal n ((M.vlevelsUpTo w n).take n) := by
  rw [readStepwise_eq_qobs, Q.qobs_yields, Q.qobs_end, vlevelsUpTo_eq, ← Q.bfsSeq_eq_levels]
  have hmap : (Q.bfsSeq M.succ n [M.initCfg w]).map viewM = Q.bfsSeq M.vchildren n [M.vstart w] := by
    rw [Q.bfsSeq_map AllWFM (fun c hc => M.succ_view hc) (fun c _ => M.succ_wf c) n [M.initCfg w]]
    · simp [viewM_initCfg]
    · intro c hc
      simp only [List.mem_singleton] at hc
      subst hc
      exact M.initCfg_wf w
  rw [← hmap]
  exact ⟨Q.cutThrough_map viewM _ _ _ (fun c _ => M.acc_eq_final hfin c),
    Q.endOf_map viewM _ _ n _ (fun c _ => M.acc_eq_final hfin c)⟩

end MNTM
end AV.TM
