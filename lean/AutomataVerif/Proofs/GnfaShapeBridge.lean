/-
Proofs/GnfaShapeBridge.lean — from "`GNFA.validate` accepted the definition" to what the proof of
`to_regex` needs.

`Shape` (Proofs/GnfaTable.lean) is an *exact* description of the table (`↔`): a row for every
non-final state **and no other row**, an entry for every non-initial state **and no other entry**.
`GNFA.validate` (as repaired by 084dfed) checks less: it tolerates an empty row for the final
state, rows keyed by things that are not states, and entries `None` for the initial state.  So
`validate = ok → Shape` is false as it stands (Props/C12c.lean has the counter-example), while
`to_regex` is nevertheless total and correct on every accepted definition.  This file proves that
through the one-directional invariant `Loose` (what `validate` does establish and `to_regex`
maintains), and a simulation of the loose table by its exact core `coreTable`.
-/
import AutomataVerif.Proofs.GnfaTable
import AutomataVerif.Proofs.Validate
import AutomataVerif.Model.GNFAValidate

namespace AV.GNFA
open AV AV.GnfaSpec

set_option linter.unusedSectionVars false

variable {σ ℓ : Type} [DecidableEq σ] [DecidableEq ℓ]

/-! ### generic: inverting `>>=` and `foldlM` in `Res` -/

theorem sb_bind_ok_inv {α β : Type} {x : Res α} {f : α → Res β} {b : β} (h : (x >>= f) = .ok b) :
    ∃ a, x = .ok a ∧ f a = .ok b := by
  cases x with
  | error e => simp [bind, Except.bind] at h
  | ok a => exact ⟨a, rfl, h⟩

theorem sb_foldlM_inv {α β : Type} (f : β → α → Res β) (I : β → β → Prop)
    (hrefl : ∀ b, I b b) (htrans : ∀ a b c, I a b → I b c → I a c) :
    ∀ (l : List α) (b b' : β), (∀ a ∈ l, ∀ x x', f x a = .ok x' → I x x') →
      l.foldlM f b = .ok b' → I b b' := by
  intro l
  induction l with
  | nil =>
    intro b b' _ h
    have : b = b' := by simpa [pure, Except.pure] using h
    subst this; exact hrefl b
  | cons a t ih =>
    intro b b' hstep h
    rw [List.foldlM_cons] at h
    obtain ⟨b1, h1, h2⟩ := sb_bind_ok_inv h
    exact htrans _ _ _ (hstep a (by simp) b b1 h1)
      (ih b1 b' (fun a ha => hstep a (List.mem_cons_of_mem _ ha)) h2)

/-! ### list-level effect of the dict updates -/

theorem sb_mem_ainsert {κ β : Type} [DecidableEq κ] {k : κ} {v : β} {d : List (κ × β)} {e : κ × β}
    (h : e ∈ ainsert k v d) : e = (k, v) ∨ e ∈ d := by
  induction d with
  | nil =>
    simp only [ainsert, List.mem_cons, List.not_mem_nil, or_false] at h
    exact Or.inl h
  | cons x t ih =>
    obtain ⟨a, b⟩ := x
    simp only [ainsert] at h
    by_cases ha : a = k
    · rw [if_pos ha] at h
      rcases List.mem_cons.mp h with h | h
      · exact Or.inl h
      · exact Or.inr (List.mem_cons_of_mem _ h)
    · rw [if_neg ha] at h
      rcases List.mem_cons.mp h with h | h
      · exact Or.inr (by rw [h]; exact List.mem_cons_self)
      · rcases ih h with h | h
        · exact Or.inl h
        · exact Or.inr (List.mem_cons_of_mem _ h)

theorem sb_mem_adel {κ β : Type} [DecidableEq κ] {k : κ} {d : List (κ × β)} {e : κ × β}
    (h : e ∈ adel k d) : e ∈ d := (List.mem_filter.mp h).1

/-- `tr'` evolved from `tr`: every row of `tr'` comes from the row of `tr` with the same key, and
each of its entries is an old entry of that row or has a key in `T`. -/
def Evo (T : σ → Prop) (tr tr' : Table σ ℓ) : Prop :=
  ∀ p row', alookup p tr' = some row' →
    ∃ row, alookup p tr = some row ∧ ∀ e ∈ row', e ∈ row ∨ T e.1

theorem Evo.refl (T : σ → Prop) (tr : Table σ ℓ) : Evo T tr tr :=
  fun _ row' h => ⟨row', h, fun _ he => Or.inl he⟩

theorem Evo.trans {T : σ → Prop} {a b c : Table σ ℓ} (h1 : Evo T a b) (h2 : Evo T b c) :
    Evo T a c := by
  intro p row2 hp
  obtain ⟨row1, hr1, hs1⟩ := h2 p row2 hp
  obtain ⟨row0, hr0, hs0⟩ := h1 p row1 hr1
  refine ⟨row0, hr0, fun e he => ?_⟩
  rcases hs1 e he with h | h
  · exact hs0 e h
  · exact Or.inr h

theorem setE_evo {T : σ → Prop} {tr tr' : Table σ ℓ} {i j : σ} {v : Option ℓ}
    (h : setE tr i j v = .ok tr') (hT : T j) : Evo T tr tr' := by
  unfold setE at h
  cases hr : alookup i tr with
  | none => rw [hr] at h; simp at h
  | some row =>
    rw [hr] at h
    simp only [Except.ok.injEq] at h
    subst h
    intro p row' hp
    rw [alookup_ainsert] at hp
    by_cases hpi : p = i
    · subst hpi
      rw [if_pos rfl] at hp
      simp only [Option.some.injEq] at hp
      subst hp
      refine ⟨row, hr, fun e he => ?_⟩
      rcases sb_mem_ainsert he with h | h
      · right; rw [h]; exact hT
      · exact Or.inl h
    · rw [if_neg hpi] at hp
      exact ⟨row', hp, fun _ he => Or.inl he⟩

theorem ripPair_evo {T : σ → Prop}
    {comb : Option ℓ → Option ℓ → Option ℓ → Option ℓ → Option ℓ} {q : σ} {tr tr' : Table σ ℓ}
    {i j : σ} (h : ripPair comb q tr i j = .ok tr') (hT : T j) : Evo T tr tr' := by
  unfold ripPair at h
  obtain ⟨r1, _, h⟩ := sb_bind_ok_inv h
  obtain ⟨r2, _, h⟩ := sb_bind_ok_inv h
  obtain ⟨r3, _, h⟩ := sb_bind_ok_inv h
  obtain ⟨r4, _, h⟩ := sb_bind_ok_inv h
  exact setE_evo h hT

theorem delRow_evo {T : σ → Prop} {tr tr' : Table σ ℓ} {q : σ} (h : delRow tr q = .ok tr') :
    Evo T tr tr' := by
  unfold delRow at h
  split at h
  · simp only [Except.ok.injEq] at h
    subst h
    intro p row' hp
    rw [alookup_adel] at hp
    by_cases hpq : p = q
    · rw [if_pos hpq] at hp; simp at hp
    · rw [if_neg hpq] at hp
      exact ⟨row', hp, fun _ he => Or.inl he⟩
  · simp at h

theorem delEntry_evo {T : σ → Prop} {tr tr' : Table σ ℓ} {p q : σ}
    (h : delEntry tr p q = .ok tr') : Evo T tr tr' := by
  unfold delEntry at h
  cases hr : alookup p tr with
  | none => rw [hr] at h; simp at h
  | some row =>
    rw [hr] at h
    simp only at h
    split at h
    · simp only [Except.ok.injEq] at h
      subst h
      intro p' row' hp
      rw [alookup_ainsert] at hp
      by_cases hpp : p' = p
      · subst hpp
        rw [if_pos rfl] at hp
        simp only [Option.some.injEq] at hp
        subst hp
        exact ⟨row, hr, fun e he => Or.inl (sb_mem_adel he)⟩
      · rw [if_neg hpp] at hp
        exact ⟨row', hp, fun _ he => Or.inl he⟩
    · simp at h

/-! ### the one-directional shape -/

/-- What `GNFA.validate` establishes and `to_regex` maintains: an entry for every pair
(non-final state, non-initial state), and every *labelled* entry in the row of a non-final state
leads to a non-initial state.  Unlike `Shape` nothing is said about other rows and other entries
(an empty row for the final state, rows of non-states, `None` entries for the initial state). -/
structure Loose (S : List σ) (init final : σ) (tr : Table σ ℓ) : Prop where
  nodup : S.Nodup
  init_mem : init ∈ S
  final_mem : final ∈ S
  ne : init ≠ final
  entries : ∀ p r, p ∈ S → p ≠ final → r ∈ S → r ≠ init → (get2 tr p r).isSome
  lbl : ∀ p, p ∈ S → p ≠ final → ∀ row, alookup p tr = some row →
    ∀ e ∈ row, e.2 ≠ none → e.1 ∈ S ∧ e.1 ≠ init

theorem Shape.toLoose {S : List σ} {init final : σ} {tr : Table σ ℓ} (h : Shape S init final tr) :
    Loose S init final tr where
  nodup := h.nodup
  init_mem := h.init_mem
  final_mem := h.final_mem
  ne := h.ne
  entries := fun p r h1 h2 h3 h4 => (h.entries p r).mpr ⟨h1, h2, h3, h4⟩
  lbl := by
    intro p _ _ row hrow e he _
    have : (get2 tr p e.1).isSome := by
      unfold get2
      rw [hrow]
      simp only [Option.bind_some]
      exact alookup_isSome_iff.mpr (List.mem_map.mpr ⟨e, he, rfl⟩)
    obtain ⟨_, _, h3, h4⟩ := (h.entries p e.1).mp this
    exact ⟨h3, h4⟩

theorem Loose.row {S : List σ} {init final : σ} {tr : Table σ ℓ} (h : Loose S init final tr)
    {p : σ} (hp : p ∈ S) (hpf : p ≠ final) : (alookup p tr).isSome :=
  row_of_get2 (h.entries p final hp hpf h.final_mem (fun e => h.ne e.symm))

/-- `_find_min_connected_node` returns an inner state on a loose table, whatever the set order. -/
theorem findMin_loose {S : List σ} {init final : σ} {tr : Table σ ℓ} (hS : Loose S init final tr)
    (hlen : S.length > 2) (ord : List σ → List σ) (hord : ∀ l x, x ∈ ord l ↔ x ∈ l) :
    ∃ q, findMin S tr init final ord = .ok q ∧ q ∈ S ∧ q ≠ init ∧ q ≠ final := by
  set K := ord (innerStates S init final) with hK
  have memK : ∀ x, x ∈ K ↔ x ∈ S ∧ x ≠ init ∧ x ≠ final := by
    intro x; rw [hK, hord]; simp [innerStates]
  have outer : ∀ (l : List σ) (deg : List (σ × Nat)), (∀ p ∈ l, p ∈ S ∧ p ≠ final) →
      (∀ y, y ∈ akeys deg ↔ y ∈ K) →
      ∃ deg', l.foldlM (fun deg q =>
          match alookup q tr with
          | none => (.error (.py .keyError) : Res (List (σ × Nat)))
          | some row => rowDegrees init final q row deg) deg = .ok deg' ∧
        ∀ y, y ∈ akeys deg' ↔ y ∈ K := by
    intro l
    induction l with
    | nil => intro deg _ hk; exact ⟨deg, rfl, hk⟩
    | cons p l ih =>
      intro deg hl hk
      obtain ⟨hpS, hpf⟩ := hl p (by simp)
      obtain ⟨row, hrow⟩ := Option.isSome_iff_exists.mp (hS.row hpS hpf)
      have hrowK : ∀ e ∈ row, e.2 ≠ none → e.1 ≠ final → e.1 ∈ K := by
        intro e he hne hef
        obtain ⟨h3, h4⟩ := hS.lbl p hpS hpf row hrow e he hne
        exact (memK e.1).mpr ⟨h3, h4, hef⟩
      obtain ⟨d1, hd1, hk1⟩ := rowDegrees_spec (ℓ := ℓ) init final p K
        (fun hpi => (memK p).mpr ⟨hpS, hpi, hpf⟩) row deg hrowK hk
      obtain ⟨d2, hd2, hk2⟩ := ih d1 (fun p' hp' => hl p' (List.mem_cons_of_mem _ hp')) hk1
      refine ⟨d2, ?_, hk2⟩
      rw [List.foldlM_cons]
      simp only [hrow, bind, Except.bind, hd1]
      exact hd2
  obtain ⟨deg, hdeg, hk⟩ := outer (S.filter fun q => decide (q ≠ final)) (K.map fun q => (q, 0))
    (by intro p hp; simpa using hp)
    (by intro y; simp [akeys, List.map_map, Function.comp_def])
  obtain ⟨x, hx⟩ := exists_inner hS.nodup (init := init) (final := final) hlen
  have hxK : x ∈ K := by rw [hK, hord]; exact hx
  have hxdeg : x ∈ akeys deg := (hk x).mpr hxK
  have hdeg' : stateDegrees S tr init final K = .ok deg := hdeg
  unfold findMin
  simp only [← hK, bind, Except.bind, hdeg']
  cases hd : deg with
  | nil => rw [hd] at hxdeg; simp [akeys] at hxdeg
  | cons e t =>
    obtain ⟨b, n⟩ := e
    refine ⟨argminAux b n t, rfl, ?_⟩
    have : argminAux b n t ∈ akeys deg := by
      rw [hd]
      rcases argminAux_mem b n t with h | h
      · simp [akeys, h]
      · simp only [akeys, List.map_cons, List.mem_cons]; exact Or.inr h
    exact (memK _).mp ((hk _).mp this)

/-- One iteration of the `while` loop of `to_regex` on a loose table: no exception, the new table
is loose for the remaining states, and on the pairs (non-final, non-initial) of remaining states
its entries are those of the ripped graph. -/
theorem ripStep_loose (comb : Option ℓ → Option ℓ → Option ℓ → Option ℓ → Option ℓ)
    {S : List σ} {init final : σ} {tr : Table σ ℓ} (hS : Loose S init final tr) {q : σ}
    (hq : q ∈ S) (hqi : q ≠ init) (hqf : q ≠ final) :
    ∃ tr', ripStep comb init final S tr q = .ok (S.filter (fun x => decide (x ≠ q)), tr') ∧
      Loose (S.filter fun x => decide (x ≠ q)) init final tr' ∧
      ∀ p r, p ∈ S → p ≠ q → p ≠ final → r ∈ S → r ≠ q → r ≠ init →
        get2 tr' p r = some (comb (lab tr p q) (lab tr q q) (lab tr q r) (lab tr p r)) := by
  set S' := S.filter fun x => decide (x ≠ q) with hS'
  have memS' : ∀ x, x ∈ S' ↔ x ∈ S ∧ x ≠ q := by intro x; simp [hS']
  have ndS' : S'.Nodup := hS.nodup.filter _
  set froms := S'.filter fun x => decide (x ≠ final) with hfroms
  set tos := S'.filter fun x => decide (x ≠ init) with htos
  have memF : ∀ x, x ∈ froms ↔ x ∈ S ∧ x ≠ q ∧ x ≠ final := by
    intro x; simp [hfroms, memS', and_assoc]
  have memT : ∀ x, x ∈ tos ↔ x ∈ S ∧ x ≠ q ∧ x ≠ init := by
    intro x; simp [htos, memS', and_assoc]
  -- 1. the pairs loop
  have hpairs := fold_ripPair comb q tr (pairs froms tos) tr
    (nodup_pairs (ndS'.filter _) (ndS'.filter _))
    (by
      rintro ⟨i, j⟩ hij
      obtain ⟨hi, hj⟩ := mem_pairs.mp hij
      obtain ⟨hiS, hiq, hif⟩ := (memF i).mp hi
      obtain ⟨hjS, hjq, hji⟩ := (memT j).mp hj
      exact ⟨hiq, hjq, hS.entries i q hiS hif hq hqi, hS.entries q q hq hqf hq hqi,
        hS.entries q j hq hqf hjS hji, hS.entries i j hiS hif hjS hji⟩)
    (fun _ _ _ => rfl) (fun _ => rfl)
  obtain ⟨tr1, hfold1, hrows1, hget1⟩ := hpairs
  -- 2. del new_transitions[q_rip]
  have hrowq : (alookup q tr1).isSome := by rw [hrows1]; exact hS.row hq hqf
  obtain ⟨tr2, hdel2, hrows2, hget2⟩ := delRow_spec hrowq
  -- 3. del new_transitions[state][q_rip]
  have hent : ∀ p ∈ froms, (get2 tr2 p q).isSome := by
    intro p hp
    obtain ⟨hpS, hpq, hpf⟩ := (memF p).mp hp
    rw [hget2, if_neg hpq, hget1,
      if_neg (by rw [mem_pairs]; rintro ⟨_, h⟩; exact ((memT q).mp h).2.1 rfl)]
    exact hS.entries p q hpS hpf hq hqi
  obtain ⟨tr3, hfold3, hrows3, hget3⟩ := fold_delEntry q froms tr2 (ndS'.filter _) hent
  have hcore : ∀ p r, p ∈ S → p ≠ q → p ≠ final → r ∈ S → r ≠ q → r ≠ init →
      get2 tr3 p r = some (comb (lab tr p q) (lab tr q q) (lab tr q r) (lab tr p r)) := by
    intro p r hp hpq hpf hr hrq hri
    rw [hget3, if_neg (fun h => hrq h.2), hget2, if_neg hpq, hget1,
      if_pos (mem_pairs.mpr ⟨(memF p).mpr ⟨hp, hpq, hpf⟩, (memT r).mpr ⟨hr, hrq, hri⟩⟩)]
  have hcolq : ∀ p, p ∈ S → p ≠ q → p ≠ final → get2 tr3 p q = none := by
    intro p hp hpq hpf
    rw [hget3, if_pos ⟨(memF p).mpr ⟨hp, hpq, hpf⟩, rfl⟩]
  -- the rows only got entries with keys among the non-initial states
  have hevo : Evo (fun x => x ∈ S ∧ x ≠ init) tr tr3 := by
    have e1 : Evo (fun x => x ∈ S ∧ x ≠ init) tr tr1 :=
      sb_foldlM_inv (fun tr pr => ripPair comb q tr pr.1 pr.2) (Evo (fun x => x ∈ S ∧ x ≠ init))
        (Evo.refl _) (fun _ _ _ => Evo.trans) (pairs froms tos) tr tr1
        (fun pr hpr x x' hx => by
          obtain ⟨i, j⟩ := pr
          obtain ⟨_, hj⟩ := mem_pairs.mp hpr
          obtain ⟨hjS, _, hji⟩ := (memT j).mp hj
          exact ripPair_evo hx ⟨hjS, hji⟩) hfold1
    have e2 : Evo (fun x => x ∈ S ∧ x ≠ init) tr1 tr2 := delRow_evo hdel2
    have e3 : Evo (fun x => x ∈ S ∧ x ≠ init) tr2 tr3 :=
      sb_foldlM_inv (fun tr p => delEntry tr p q) (Evo (fun x => x ∈ S ∧ x ≠ init))
        (Evo.refl _) (fun _ _ _ => Evo.trans) froms tr2 tr3
        (fun p _ x x' hx => delEntry_evo hx) hfold3
    exact (e1.trans e2).trans e3
  refine ⟨tr3, ?_, ?_, hcore⟩
  · unfold ripStep
    rw [if_neg (not_not.mpr hq)]
    simp only [← hS', ← hfroms, ← htos, bind, Except.bind, hfold1, hdel2, hfold3]
  · refine ⟨ndS', (memS' init).mpr ⟨hS.init_mem, fun h => hqi h.symm⟩,
      (memS' final).mpr ⟨hS.final_mem, fun h => hqf h.symm⟩, hS.ne, ?_, ?_⟩
    · intro p r hp hpf hr hri
      obtain ⟨hpS, hpq⟩ := (memS' p).mp hp
      obtain ⟨hrS, hrq⟩ := (memS' r).mp hr
      rw [hcore p r hpS hpq hpf hrS hrq hri]; rfl
    · intro p hp hpf row' hrow' e he hne
      obtain ⟨hpS, hpq⟩ := (memS' p).mp hp
      obtain ⟨row, hrow, hsub⟩ := hevo p row' hrow'
      have hES : e.1 ∈ S ∧ e.1 ≠ init := by
        rcases hsub e he with h | h
        · exact hS.lbl p hpS hpf row hrow e h hne
        · exact h
      refine ⟨(memS' e.1).mpr ⟨hES.1, ?_⟩, hES.2⟩
      intro heq
      have hn := hcolq p hpS hpq hpf
      unfold get2 at hn
      rw [hrow'] at hn
      simp only [Option.bind_some] at hn
      exact (alookup_eq_none_iff.mp hn) (List.mem_map.mpr ⟨e, he, heq⟩)

/-! ### simulation by an exact table -/

/-- The loose table `tr` and the exact table `ts` agree on the pairs `to_regex` reads. -/
def Sim (S : List σ) (init final : σ) (tr ts : Table σ ℓ) : Prop :=
  ∀ p r, p ∈ S → p ≠ final → r ∈ S → r ≠ init → get2 tr p r = get2 ts p r

/-- **`to_regex` on a loose table**: the loop never raises (no `KeyError`, no `ValueError`), for
every label rule and every tie-break order; and if the table agrees on its core with an exact
table whose labels denote edge languages `Lb`, the result denotes the language of that graph. -/
theorem toRegexLoop_loose (comb : Option ℓ → Option ℓ → Option ℓ → Option ℓ → Option ℓ)
    (init final : σ) (ord : Nat → List σ → List σ) (hord : ∀ k l x, x ∈ ord k l ↔ x ∈ l) :
    ∀ (fuel k : Nat) (S : List σ) (tr : Table σ ℓ) (rips : List σ),
      Loose S init final tr → S.length = fuel + 2 →
      ∃ rips' o, toRegexLoop comb init final ord fuel k S tr rips = .ok (rips', o) ∧
        ∀ (R : Language Char → ℓ → Prop), CombSound R comb →
          ∀ (ts : Table σ ℓ) (Lb : σ → σ → Language Char),
            Shape S init final ts → Sim S init final tr ts → Denotes R ts Lb →
            RO R (GLang Lb init final) o := by
  intro fuel
  induction fuel with
  | zero =>
    intro k S tr rips hS hlen
    have hne' : final ≠ init := fun h => hS.ne h.symm
    obtain ⟨l, hl⟩ := Option.isSome_iff_exists.mp
      (hS.entries init final hS.init_mem hS.ne hS.final_mem hne')
    refine ⟨rips, l, ?_, ?_⟩
    · simp only [toRegexLoop, getE_of_get2 hl, bind, Except.bind]
    · intro R _ ts Lb hSh hSim hD
      rw [GLang_two hSh (by omega) hD]
      have := hD init final
      unfold lab at this
      rw [← hSim init final hS.init_mem hS.ne hS.final_mem hne', hl] at this
      exact this
  | succ fuel ih =>
    intro k S tr rips hS hlen
    obtain ⟨q, hfind, hqS, hqi, hqf⟩ := findMin_loose hS (by omega) (ord k) (hord k)
    obtain ⟨tr', hstep, hS', hcore⟩ := ripStep_loose comb hS hqS hqi hqf
    have hlen' : (S.filter fun x => decide (x ≠ q)).length = fuel + 2 := by
      have := length_filter_ne hS.nodup hqS
      omega
    obtain ⟨rips', o, hloop, hsem⟩ := ih (k + 1) _ tr' (rips ++ [q]) hS' hlen'
    refine ⟨rips', o, ?_, ?_⟩
    · rw [toRegexLoop, if_pos (by omega)]
      simp only [bind, Except.bind, hfind, hstep]
      exact hloop
    · intro R hcomb ts Lb hSh hSim hD
      obtain ⟨ts', _, hSh', hgets⟩ := ripStep_spec comb hSh hqS hqi hqf
      have hD' : Denotes R ts' (GnfaSpec.rip Lb q) := by
        refine hD.rip hcomb hgets ?_
        intro p r hn
        have : ¬ (get2 ts p r).isSome := by simp [hn]
        rw [hSh.entries] at this
        by_cases hp : p ∈ S ∧ p ≠ final
        · right
          have : ¬ (get2 ts q r).isSome := by
            rw [hSh.entries]; rintro ⟨_, _, h3, h4⟩; exact this ⟨hp.1, hp.2, h3, h4⟩
          simpa using this
        · left
          have : ¬ (get2 ts p q).isSome := by
            rw [hSh.entries]; rintro ⟨h1, h2, _, _⟩; exact hp ⟨h1, h2⟩
          simpa using this
      have hSim' : Sim (S.filter fun x => decide (x ≠ q)) init final tr' ts' := by
        intro p r hp hpf hr hri
        have hp' : p ∈ S ∧ p ≠ q := by simpa using hp
        have hr' : r ∈ S ∧ r ≠ q := by simpa using hr
        rw [hcore p r hp'.1 hp'.2 hpf hr'.1 hr'.2 hri, hgets,
          if_neg (by simp [hp'.2, hr'.2])]
        obtain ⟨v, hv⟩ := Option.isSome_iff_exists.mp
          ((hSh.entries p r).mpr ⟨hp'.1, hpf, hr'.1, hri⟩)
        rw [hv]
        simp only [Option.map_some]
        unfold lab
        rw [hSim p q hp'.1 hpf hqS hqi, hSim q q hqS hqf hqS hqi, hSim q r hqS hqf hr'.1 hri,
          hSim p r hp'.1 hpf hr'.1 hri]
      rw [← GLang_rip Lb (fun h => hqi h.symm) (fun h => hqf h.symm)]
      exact hsem R hcomb ts' _ hSh' hSim' hD'

/-! ### the exact core of a loose table -/

/-- The table with exactly the rows and entries `Shape` asks for, labels read from `tr`
(a missing entry read as `None`). -/
def coreTable (S : List σ) (init final : σ) (tr : Table σ ℓ) : Table σ ℓ :=
  (S.filter fun p => decide (p ≠ final)).map fun p =>
    (p, (S.filter fun r => decide (r ≠ init)).map fun r => (r, lab tr p r))

theorem sb_alookup_map_self {κ β : Type} [DecidableEq κ] (f : κ → β) (l : List κ) (k : κ) :
    alookup k (l.map fun x => (x, f x)) = if k ∈ l then some (f k) else none := by
  induction l with
  | nil => simp
  | cons a t ih =>
    rw [List.map_cons, alookup_cons, ih]
    by_cases h : a = k
    · subst h; simp
    · have : ¬ k = a := fun e => h e.symm
      simp [h, this]

theorem get2_coreTable (S : List σ) (init final : σ) (tr : Table σ ℓ) (p r : σ) :
    get2 (coreTable S init final tr) p r =
      if p ∈ S ∧ p ≠ final ∧ r ∈ S ∧ r ≠ init then some (lab tr p r) else none := by
  unfold get2 coreTable
  rw [sb_alookup_map_self (fun p => (S.filter fun r => decide (r ≠ init)).map fun r => (r, lab tr p r))]
  by_cases hp : p ∈ S.filter fun p => decide (p ≠ final)
  · rw [if_pos hp]
    simp only [Option.bind_some]
    rw [sb_alookup_map_self (fun r => lab tr p r)]
    have hp' : p ∈ S ∧ p ≠ final := by simpa using hp
    by_cases hr : r ∈ S.filter fun r => decide (r ≠ init)
    · have hr' : r ∈ S ∧ r ≠ init := by simpa using hr
      rw [if_pos hr, if_pos ⟨hp'.1, hp'.2, hr'.1, hr'.2⟩]
    · have hr' : ¬ (r ∈ S ∧ r ≠ init) := by simpa using hr
      rw [if_neg hr, if_neg (fun h => hr' ⟨h.2.2.1, h.2.2.2⟩)]
  · have hp' : ¬ (p ∈ S ∧ p ≠ final) := by simpa using hp
    rw [if_neg hp, if_neg (fun h => hp' ⟨h.1, h.2.1⟩)]
    rfl

theorem alookup_coreTable_isSome (S : List σ) (init final : σ) (tr : Table σ ℓ) (p : σ) :
    (alookup p (coreTable S init final tr)).isSome ↔ (p ∈ S ∧ p ≠ final) := by
  unfold coreTable
  rw [sb_alookup_map_self (fun p => (S.filter fun r => decide (r ≠ init)).map fun r => (r, lab tr p r))]
  by_cases hp : p ∈ S.filter fun p => decide (p ≠ final)
  · rw [if_pos hp]
    have hp' : p ∈ S ∧ p ≠ final := by simpa using hp
    simp [hp'.1, hp'.2]
  · rw [if_neg hp]
    have hp' : ¬ (p ∈ S ∧ p ≠ final) := by simpa using hp
    simp only [Option.isSome_none, Bool.false_eq_true, false_iff]
    exact hp'

/-- The core of a loose table has the documented shape exactly. -/
theorem shape_coreTable {S : List σ} {init final : σ} {tr : Table σ ℓ}
    (h : Loose S init final tr) : Shape S init final (coreTable S init final tr) where
  nodup := h.nodup
  init_mem := h.init_mem
  final_mem := h.final_mem
  ne := h.ne
  rows := alookup_coreTable_isSome S init final tr
  entries := by
    intro p r
    rw [get2_coreTable]
    by_cases hc : p ∈ S ∧ p ≠ final ∧ r ∈ S ∧ r ≠ init
    · rw [if_pos hc]; simp only [Option.isSome_some, true_iff]; exact hc
    · rw [if_neg hc]; simp only [Option.isSome_none, Bool.false_eq_true, false_iff]; exact hc

theorem sim_coreTable {S : List σ} {init final : σ} {tr : Table σ ℓ}
    (h : Loose S init final tr) : Sim S init final tr (coreTable S init final tr) := by
  intro p r hp hpf hr hri
  rw [get2_coreTable, if_pos ⟨hp, hpf, hr, hri⟩]
  obtain ⟨v, hv⟩ := Option.isSome_iff_exists.mp (h.entries p r hp hpf hr hri)
  unfold lab
  rw [hv]; rfl

/-- The edge languages of the core: edges outside (non-final state) × (non-initial state) are
removed. -/
def coreLb (S : List σ) (init final : σ) (Lb : σ → σ → Language Char) : σ → σ → Language Char :=
  fun p r => if p ∈ S ∧ p ≠ final ∧ r ∈ S ∧ r ≠ init then Lb p r else 0

theorem denotes_coreTable {R : Language Char → ℓ → Prop} {S : List σ} {init final : σ}
    {tr : Table σ ℓ} {Lb : σ → σ → Language Char} (hD : Denotes R tr Lb) :
    Denotes R (coreTable S init final tr) (coreLb S init final Lb) := by
  intro p r
  unfold lab coreLb
  rw [get2_coreTable]
  by_cases hc : p ∈ S ∧ p ≠ final ∧ r ∈ S ∧ r ≠ init
  · rw [if_pos hc, if_pos hc]
    simp only [Option.join_some]
    exact hD p r
  · rw [if_neg hc, if_neg hc]
    rfl

/-- Removing the slack does not change the language: from the initial state a path only uses
labelled entries in rows of non-final states, and those lead to non-initial states; the final
state has no outgoing labelled entry. -/
theorem GLang_coreLb {R : Language Char → ℓ → Prop} {S : List σ} {init final : σ}
    {tr : Table σ ℓ} {Lb : σ → σ → Language Char} (hS : Loose S init final tr)
    (hfin : ∀ r, lab tr final r = none) (hD : Denotes R tr Lb) :
    GLang (coreLb S init final Lb) init final = GLang Lb init final := by
  have mono : ∀ {p r : σ} {w : List Char}, Walk (coreLb S init final Lb) p r w → Walk Lb p r w := by
    intro p r w h
    induction h with
    | nil p => exact Walk.nil p
    | @cons p m r u v hu _ ih =>
      unfold coreLb at hu
      split at hu
      · exact Walk.cons hu ih
      · exact absurd hu (by simp)
  have back : ∀ {p j : σ} {w : List Char}, Walk Lb p j w → p ∈ S →
      Walk (coreLb S init final Lb) p j w := by
    intro p j w h
    induction h with
    | nil p => intro _; exact Walk.nil p
    | @cons p m r u v hu _ ih =>
      intro hpS
      have hpf : p ≠ final := by
        intro e
        subst e
        have := hD p m
        rw [hfin m] at this
        have h0 : Lb p m = 0 := this
        rw [h0] at hu
        exact absurd hu (by simp)
      cases hl : lab tr p m with
      | none =>
        have := hD p m
        rw [hl] at this
        have h0 : Lb p m = 0 := this
        rw [h0] at hu
        exact absurd hu (by simp)
      | some l =>
        have hg : get2 tr p m = some (some l) := by
          unfold lab at hl
          cases hg : get2 tr p m with
          | none => rw [hg] at hl; simp at hl
          | some v => rw [hg] at hl; simp only [Option.join_some] at hl; rw [hl]
        unfold get2 at hg
        cases hrow : alookup p tr with
        | none => rw [hrow] at hg; simp at hg
        | some row =>
          rw [hrow] at hg
          simp only [Option.bind_some] at hg
          have hmem := alookup_some_mem hg
          obtain ⟨hmS, hmi⟩ := hS.lbl p hpS hpf row hrow (m, some l) hmem (by simp)
          refine Walk.cons ?_ (ih hmS)
          unfold coreLb
          rw [if_pos ⟨hpS, hpf, hmS, hmi⟩]
          exact hu
  ext w
  exact ⟨fun h => mono h, fun h => back h hS.init_mem⟩

/-- `to_regex` of a GNFA whose table is loose: total for every label rule and order; with
labels denoting edge languages (and no labelled entry in a row of the final state), the result
denotes the language of the GNFA. -/
theorem toRegexG_loose (comb : Option ℓ → Option ℓ → Option ℓ → Option ℓ → Option ℓ)
    (g : GNFA σ ℓ) (hS : Loose (dedup g.states) g.init g.final g.trans)
    (ord : Nat → List σ → List σ) (hord : ∀ k l x, x ∈ ord k l ↔ x ∈ l) :
    ∃ o, toRegexG comb g ord = .ok o ∧
      ∀ (R : Language Char → ℓ → Prop), CombSound R comb →
        ∀ Lb : σ → σ → Language Char, (∀ r, lab g.trans g.final r = none) →
          Denotes R g.trans Lb → RO R (GLang Lb g.init g.final) o := by
  have hlen : (dedup g.states).length ≥ 2 := by
    have hsub : [g.init, g.final] ⊆ dedup g.states := by
      intro y hy
      simp only [List.mem_cons, List.not_mem_nil, or_false] at hy
      rcases hy with rfl | rfl
      · exact hS.init_mem
      · exact hS.final_mem
    have hnd : [g.init, g.final].Nodup := by simp [hS.ne]
    have := List.Nodup.length_le_of_subset hnd hsub
    simpa using this
  obtain ⟨rips', o, hloop, hsem⟩ := toRegexLoop_loose comb g.init g.final ord hord
    ((dedup g.states).length - 2) 0 (dedup g.states) g.trans [] hS (by omega)
  refine ⟨o, ?_, ?_⟩
  · unfold toRegexG toRegexTrace
    simp only [bind, Except.bind, hloop]
  · intro R hcomb Lb hfin hD
    rw [← GLang_coreLb hS hfin hD]
    exact hsem R hcomb _ _ (shape_coreTable hS) (sim_coreTable hS) (denotes_coreTable hD)

/-! ### what `GNFA.validate = ok` says -/

/-- The checks of `GNFA.validate` (fix 084dfed), read off an accepted definition. -/
structure Accepted (labelCheck : ℓ → Res Unit) (g : GNFA σ ℓ) : Prop where
  init_mem : g.init ∈ g.states
  final_mem : g.final ∈ g.states
  ne : g.init ≠ g.final
  rows : ∀ q ∈ g.states, q ≠ g.final → q ∈ akeys g.trans
  final_row : ∀ kv ∈ g.trans, kv.1 = g.final → kv.2 = []
  complete : ∀ kv ∈ g.trans, kv.1 ≠ g.final → ∀ q ∈ g.states, q ≠ g.init → q ∈ akeys kv.2
  targets : ∀ kv ∈ g.trans, ∀ q ∈ akeys kv.2, q ∈ g.states
  into_init : ∀ kv ∈ g.trans, ∀ l, alookup g.init kv.2 ≠ some (some l)
  labels : ∀ kv ∈ g.trans, ∀ l, some l ∈ avals kv.2 → labelCheck l = .ok ()

theorem accepted_of_validate {labelCheck : ℓ → Res Unit} {g : GNFA σ ℓ}
    (h : g.validate labelCheck = .ok ()) : Accepted labelCheck g := by
  unfold validate at h
  simp only [Res.andThen_eq_ok, guardE_eq_ok, firstErr_eq_ok, decide_eq_true_eq,
    Bool.or_eq_true] at h
  obtain ⟨h1, h2, h3, h4, h5, _⟩ := h
  refine ⟨h1, h2, h3, ?_, ?_, ?_, ?_, ?_, ?_⟩
  · intro q hq hqf
    rcases h4 q hq with h | h
    · exact absurd h hqf
    · exact ahas_iff.mp h
  · intro kv hkv hfin
    have := (h5 kv hkv).2.1
    unfold validateEndStates at this
    rw [if_pos hfin] at this
    simp only [Res.andThen_eq_ok, guardE_eq_ok, firstErr_eq_ok, beq_iff_eq] at this
    exact List.eq_nil_of_length_eq_zero this.1
  · intro kv hkv hfin q hq hqi
    have := (h5 kv hkv).2.1
    unfold validateEndStates at this
    rw [if_neg hfin] at this
    simp only [Res.andThen_eq_ok, guardE_eq_ok, firstErr_eq_ok] at this
    have hm := this.1
    unfold missingTargets at hm
    simp only [Bool.not_eq_true', List.any_eq_false, Bool.and_eq_true, decide_eq_true_eq,
      not_and] at hm
    by_contra hc
    exact hm q hq hc hqi
  · intro kv hkv q hq
    have := (h5 kv hkv).2.1
    unfold validateEndStates at this
    simp only [Res.andThen_eq_ok, guardE_eq_ok, firstErr_eq_ok, decide_eq_true_eq] at this
    exact this.2 q hq
  · intro kv hkv l hl
    have := (h5 kv hkv).2.2
    rw [hl] at this
    simp at this
  · intro kv hkv l hl
    have := (h5 kv hkv).1
    unfold validateLabels at this
    simp only [firstErr_eq_ok] at this
    exact this (some l) hl

/-- **The bridge**: an accepted definition whose rows are Python dicts (no duplicate key) has a
loose table. -/
theorem loose_of_accepted {labelCheck : ℓ → Res Unit} {g : GNFA σ ℓ} (h : Accepted labelCheck g)
    (hnd : ∀ kv ∈ g.trans, (akeys kv.2).Nodup) :
    Loose (dedup g.states) g.init g.final g.trans where
  nodup := nodup_dedup _
  init_mem := mem_dedup.mpr h.init_mem
  final_mem := mem_dedup.mpr h.final_mem
  ne := h.ne
  entries := by
    intro p r hp hpf hr hri
    obtain ⟨row, hrow⟩ := Option.isSome_iff_exists.mp
      (alookup_isSome_iff.mpr (h.rows p (mem_dedup.mp hp) hpf))
    unfold get2
    rw [hrow]
    simp only [Option.bind_some]
    exact alookup_isSome_iff.mpr
      (h.complete (p, row) (alookup_some_mem hrow) hpf r (mem_dedup.mp hr) hri)
  lbl := by
    intro p _ _ row hrow e he hne
    have hkv := alookup_some_mem hrow
    refine ⟨mem_dedup.mpr (h.targets (p, row) hkv e.1 (List.mem_map.mpr ⟨e, he, rfl⟩)), ?_⟩
    intro heq
    obtain ⟨k, v⟩ := e
    simp only at heq hne
    subst heq
    cases v with
    | none => exact hne rfl
    | some l =>
      exact h.into_init (p, row) hkv l (alookup_of_mem_nodup (hnd (p, row) hkv) he)

/-- The final state of an accepted definition has no labelled entry. -/
theorem final_row_of_accepted {labelCheck : ℓ → Res Unit} {g : GNFA σ ℓ}
    (h : Accepted labelCheck g) : ∀ r, lab g.trans g.final r = none := by
  intro r
  unfold lab get2
  cases hrow : alookup g.final g.trans with
  | none => rfl
  | some row =>
    have := h.final_row (g.final, row) (alookup_some_mem hrow) rfl
    simp only at this
    subst this
    rfl

/-- An accepted definition without slack (no row for the final state or for a non-state, no
entry for the initial state) has the documented shape exactly. -/
theorem shape_of_accepted_tight {labelCheck : ℓ → Res Unit} {g : GNFA σ ℓ}
    (h : Accepted labelCheck g)
    (hrows : ∀ kv ∈ g.trans, kv.1 ∈ g.states ∧ kv.1 ≠ g.final)
    (hinit : ∀ kv ∈ g.trans, g.init ∉ akeys kv.2) :
    Shape (dedup g.states) g.init g.final g.trans where
  nodup := nodup_dedup _
  init_mem := mem_dedup.mpr h.init_mem
  final_mem := mem_dedup.mpr h.final_mem
  ne := h.ne
  rows := by
    intro p
    constructor
    · intro hp
      obtain ⟨row, hrow⟩ := Option.isSome_iff_exists.mp hp
      obtain ⟨h1, h2⟩ := hrows (p, row) (alookup_some_mem hrow)
      exact ⟨mem_dedup.mpr h1, h2⟩
    · rintro ⟨hp, hpf⟩
      exact alookup_isSome_iff.mpr (h.rows p (mem_dedup.mp hp) hpf)
  entries := by
    intro p r
    constructor
    · intro hpr
      unfold get2 at hpr
      cases hrow : alookup p g.trans with
      | none => rw [hrow] at hpr; simp at hpr
      | some row =>
        rw [hrow] at hpr
        simp only [Option.bind_some] at hpr
        have hkv := alookup_some_mem hrow
        obtain ⟨h1, h2⟩ := hrows (p, row) hkv
        have hr := alookup_isSome_iff.mp hpr
        refine ⟨mem_dedup.mpr h1, h2, mem_dedup.mpr (h.targets (p, row) hkv r hr), ?_⟩
        intro e
        subst e
        exact hinit (p, row) hkv hr
    · rintro ⟨hp, hpf, hr, hri⟩
      obtain ⟨row, hrow⟩ := Option.isSome_iff_exists.mp
        (alookup_isSome_iff.mpr (h.rows p (mem_dedup.mp hp) hpf))
      unfold get2
      rw [hrow]
      simp only [Option.bind_some]
      exact alookup_isSome_iff.mpr
        (h.complete (p, row) (alookup_some_mem hrow) hpf r (mem_dedup.mp hr) hri)

end AV.GNFA
