/-
Proofs/Iter.lean — `__iter__` (Model/DFAQuery.lean `iterLoop`, `iterRun`): the words yielded by
the `while` loop are the word lists of consecutive lengths.  Core only.
-/
import AutomataVerif.Proofs.MaxLen

namespace AV
namespace DFA

set_option linter.unusedSectionVars false

variable {σ α : Type} [DecidableEq σ] [DecidableEq α]

theorem iterCond_mono {limit : Option Nat} {i j : Nat} (h : iterCond limit j = true) (hij : i ≤ j) :
    iterCond limit i = true := by
  cases limit with
  | none => rfl
  | some l => simp only [iterCond, decide_eq_true_eq] at h ⊢; omega

/-- After at most `n` loop bodies from level `i`: `k ≤ n` bodies were executed, they yielded the
word lists of the lengths `i, …, i+k-1` in this order; the loop was left iff its condition
fails at `i+k`, and it can only have stopped early (`k < n`) for that reason. -/
theorem iterLoop_spec (d : DFA σ α) (key : α → Int) (limit : Option Nat) :
    ∀ (n i : Nat), ∃ k, k ≤ n ∧
      (d.iterLoop key limit n i).1 = (List.range' i k).flatMap (d.wordsOfLength key) ∧
      (∀ j, j < i + k → iterCond limit j = true ∨ j < i) ∧
      ((d.iterLoop key limit n i).2 = !iterCond limit (i + k)) ∧
      (k < n → iterCond limit (i + k) = false) := by
  intro n
  induction n with
  | zero =>
    intro i
    exact ⟨0, Nat.le_refl _, by simp [iterLoop], fun j hj => Or.inr (by omega), by simp [iterLoop],
      fun h => by omega⟩
  | succ n ih =>
    intro i
    unfold iterLoop
    cases hc : iterCond limit i with
    | false =>
      exact ⟨0, Nat.zero_le _, by simp, fun j hj => Or.inr (by omega), by simp [hc], fun _ => by simpa using hc⟩
    | true =>
      obtain ⟨k, hk, h1, h2, h3, h4⟩ := ih (i + 1)
      refine ⟨k + 1, by omega, ?_, ?_, ?_, ?_⟩
      · simp only
        rw [h1, List.range'_succ, List.flatMap_cons]
      · intro j hj
        rcases Nat.lt_or_ge j (i + 1) with hlt | hge
        · rcases Nat.lt_or_ge j i with h | h
          · exact Or.inr h
          · have : j = i := by omega
            subst this; exact Or.inl hc
        · rcases h2 j (by omega) with h | h
          · exact Or.inl h
          · omega
      · simp only
        rw [h3]
        have : i + 1 + k = i + (k + 1) := by omega
        rw [this]
      · intro hlt
        have : i + 1 + k = i + (k + 1) := by omega
        rw [← this]
        exact h4 (by omega)

theorem mem_iterLoop_levels {d : DFA σ α} {key : α → Int} {i k : Nat} {w : List α} :
    w ∈ (List.range' i k).flatMap (d.wordsOfLength key) ↔
      ∃ j, i ≤ j ∧ j < i + k ∧ w ∈ d.wordsOfLength key j := by
  simp only [List.mem_flatMap, List.mem_range'_1]
  constructor
  · rintro ⟨j, ⟨h1, h2⟩, hw⟩; exact ⟨j, h1, h2, hw⟩
  · rintro ⟨j, h1, h2, hw⟩; exact ⟨j, ⟨h1, h2⟩, hw⟩

end DFA
end AV
