/-
Proofs/NFAElimDefs.lean — what the quotient constructions need to know about the triple
`(reachable_states, new_transitions, reachable_final_states)` returned by
`NFA._eliminate_lambda` (Model/NFAElim.lean `NFAElim.core`).  Core only.
-/
import AutomataVerif.Model.NFAElim
import AutomataVerif.Proofs.NFATable

open AV.AL

namespace AV.NFAElim
open AV

variable {σ α : Type} [DecidableEq σ] [DecidableEq α]

/-- Specification of `_eliminate_lambda` on a valid NFA `A`: `ra` are the states reachable
from the initial state in the new table, `ta` is an ε-free table on them whose symbol moves
lie between "ε* then the symbol" and "ε* then the symbol then ε*" of `A`, and `fa` are the
reachable states whose λ-closure meets the final states. -/
structure ElimSpec (A : NFA σ α) (ra : List σ) (ta : Tbl σ α) (fa : List σ) : Prop where
  init_mem : A.init ∈ ra
  sub : ∀ q ∈ ra, q ∈ A.states
  closed : ∀ q ∈ ra, ∀ a, ∀ p ∈ Tbl.tgt ta q a, p ∈ ra
  no_eps_key : ∀ q ∈ ra, alookup none ((alookup q ta).getD []) = none
  low : ∀ q ∈ ra, ∀ a, ∀ r ∈ A.closure q, ∀ s ∈ A.targets r (some a), s ∈ Tbl.tgt ta q (some a)
  up : ∀ q ∈ ra, ∀ a, ∀ p ∈ Tbl.tgt ta q (some a),
    ∃ r ∈ A.closure q, ∃ s ∈ A.targets r (some a), p ∈ A.closure s
  fin : ∀ q, q ∈ fa ↔ q ∈ ra ∧ ∃ p ∈ A.closure q, p ∈ A.finals
  syms : ∀ q ∈ ra, ∀ a ts, alookup (some a) ((alookup q ta).getD []) = some ts → a ∈ A.syms
  dict : Tbl.Dict ta

end AV.NFAElim
