/-
Proofs/CtorACTrie.lean — from_substrings (C15), phase 1: the trie built by the insertion loop.
Ghost state: `paths[i]` = the string spelled from the root to node `i`.  Core only.
-/
import AutomataVerif.Proofs.CtorBasic

namespace AV.Ctor.AC

set_option linter.unusedSectionVars false
set_option linter.unusedVariables false
set_option linter.unusedSimpArgs false

variable {α : Type} [DecidableEq α]

/-! ### node access -/

theorem acGet_eq (nodes : List (ACNode α)) (i : Nat) :
    acGet nodes i = (nodes[i]?).getD ACNode.empty := by
  unfold acGet; rw [List.getD_eq_getElem?_getD]

theorem acGet_set (nodes : List (ACNode α)) (i j : Nat) (v : ACNode α) (hi : i < nodes.length) :
    acGet (nodes.set i v) j = if j = i then v else acGet nodes j := by
  rw [acGet_eq, acGet_eq, List.getElem?_set]
  by_cases h : j = i
  · subst h; simp [hi]
  · have : ¬ i = j := fun e => h e.symm
    simp [h, this]

theorem acGet_append_new (nodes : List (ACNode α)) (e : ACNode α) (j : Nat) :
    acGet (nodes ++ [e]) j = if j = nodes.length then e else acGet nodes j := by
  rw [acGet_eq, acGet_eq, List.getElem?_append]
  by_cases h : j < nodes.length
  · have : ¬ j = nodes.length := by omega
    simp [h, this]
  · by_cases h2 : j = nodes.length
    · subst h2; simp
    · have h3 : nodes.length ≤ j := by omega
      have h4 : ¬ j - nodes.length = 0 := by omega
      simp only [h, if_false, h2]
      rw [List.getElem?_eq_none h3]
      have : ([e] : List (ACNode α))[j - nodes.length]? = none := by
        rw [List.getElem?_eq_none]; simp; omega
      rw [this]

theorem acGet_out_of_range (nodes : List (ACNode α)) (j : Nat) (h : nodes.length ≤ j) :
    acGet nodes j = ACNode.empty := by
  rw [acGet_eq, List.getElem?_eq_none h]; rfl

theorem alookup_snoc {κ β : Type} [DecidableEq κ] (k k' : κ) (v : β) (d : List (κ × β)) :
    alookup k' (d ++ [(k, v)]) =
      match alookup k' d with
      | some x => some x
      | none => if k = k' then some v else none := by
  induction d with
  | nil => simp [alookup_cons]
  | cons e t ih =>
    obtain ⟨k0, v0⟩ := e
    simp only [List.cons_append, alookup_cons]
    by_cases h0 : k0 = k'
    · simp [h0]
    · simp only [h0, if_false]; exact ih

/-! ### the trie invariant -/

/-- `nodes` is a trie whose node `i` spells `paths[i]`. -/
structure Trie (nodes : List (ACNode α)) (paths : List (List α)) : Prop where
  len : paths.length = nodes.length
  root : paths[0]? = some []
  inj : ∀ (i j : Nat) (x : List α), paths[i]? = some x → paths[j]? = some x → i = j
  child : ∀ (i : Nat) (x : List α) (a : α) (j : Nat), paths[i]? = some x →
    (alookup a (acGet nodes i).succ = some j ↔ paths[j]? = some (x ++ [a]))
  pclosed : ∀ (j : Nat) (x : List α) (a : α), paths[j]? = some (x ++ [a]) → ∃ i : Nat, paths[i]? = some x
  entries : ∀ (i : Nat) (a : α) (j : Nat), (a, j) ∈ (acGet nodes i).succ → alookup a (acGet nodes i).succ = some j
  keysNodup : ∀ i : Nat, (akeys (acGet nodes i).succ).Nodup

theorem Trie.pos {nodes : List (ACNode α)} {paths : List (List α)} (h : Trie nodes paths) :
    0 < nodes.length := by
  have := h.root
  rw [← h.len]
  apply Classical.byContradiction; intro h2
  rw [List.getElem?_eq_none (by omega)] at this; cases this

theorem lt_of_getElem? {β : Type} {l : List β} {i : Nat} {x : β} (h : l[i]? = some x) : i < l.length := by
  apply Classical.byContradiction; intro h2
  rw [List.getElem?_eq_none (by omega)] at h; cases h

theorem snoc_inj {x y : List α} {a b : α} (h : x ++ [a] = y ++ [b]) : x = y ∧ a = b := by
  have := List.append_inj' h rfl
  exact ⟨this.1, by simpa using this.2⟩

theorem snoc_ne_self (x : List α) (a b : α) : x ++ [a] ≠ x ++ [a] ++ [b] := by
  intro h
  have := congrArg List.length h
  simp at this

/-- One symbol of the insertion loop. -/
theorem insertSym_spec {nodes : List (ACNode α)} {paths : List (List α)} (h : Trie nodes paths)
    (cur : Nat) (x : List α) (hx : paths[cur]? = some x) (a : α) :
    ∃ paths', Trie (acInsertSym (nodes, cur) a).1 paths' ∧
      paths'[(acInsertSym (nodes, cur) a).2]? = some (x ++ [a]) ∧
      (∀ y, y ∈ paths' ↔ y ∈ paths ∨ y = x ++ [a]) ∧
      (∀ i : Nat, i < paths.length → paths'[i]? = paths[i]?) ∧
      paths.length ≤ paths'.length ∧
      (∀ i, i < nodes.length → (acGet (acInsertSym (nodes, cur) a).1 i).out = (acGet nodes i).out ∧
        (acGet (acInsertSym (nodes, cur) a).1 i).fail = (acGet nodes i).fail) ∧
      (∀ i, nodes.length ≤ i → (acGet (acInsertSym (nodes, cur) a).1 i).out = [] ∧
        (acGet (acInsertSym (nodes, cur) a).1 i).fail = none) := by
  have hcur : cur < nodes.length := by rw [← h.len]; exact lt_of_getElem? hx
  unfold acInsertSym
  simp only
  cases hl : alookup a (acGet nodes cur).succ with
  | some j =>
    simp only
    refine ⟨paths, h, (h.child cur x a j hx).mp hl, ?_, fun i _ => rfl, Nat.le_refl _,
      (fun i _ => by simp), fun i hi => ?_⟩
    · intro y
      constructor
      · exact Or.inl
      · rintro (h1 | h1)
        · exact h1
        · rw [h1]; exact List.mem_iff_getElem?.mpr ⟨j, (h.child cur x a j hx).mp hl⟩
    · rw [acGet_out_of_range nodes i hi]; exact ⟨rfl, rfl⟩
  | none =>
    simp only
    -- the new string is not yet in the trie
    have hnew : ∀ j : Nat, paths[j]? ≠ some (x ++ [a]) := by
      intro j hj
      have := (h.child cur x a j hx).mpr hj
      rw [hl] at this; cases this
    have hplen : paths.length = nodes.length := h.len
    -- access to the updated node list
    have hget : ∀ j, acGet (nodes.set cur { acGet nodes cur with succ := (acGet nodes cur).succ ++ [(a, nodes.length)] }
        ++ [ACNode.empty]) j =
        if j = nodes.length then ACNode.empty
        else if j = cur then { acGet nodes cur with succ := (acGet nodes cur).succ ++ [(a, nodes.length)] }
        else acGet nodes j := by
      intro j
      rw [acGet_append_new, List.length_set]
      by_cases h1 : j = nodes.length
      · simp [h1]
      · simp only [h1, if_false]
        rw [acGet_set _ _ _ _ hcur]
    have hpget : ∀ j : Nat, (paths ++ [x ++ [a]])[j]? =
        if j < nodes.length then paths[j]? else if j = nodes.length then some (x ++ [a]) else none := by
      intro j
      rw [List.getElem?_append, hplen]
      by_cases h1 : j < nodes.length
      · simp [h1]
      · simp only [h1, if_false]
        by_cases h2 : j = nodes.length
        · simp [h2]
        · simp only [h2, if_false]
          rw [List.getElem?_eq_none]; simp; omega
    refine ⟨paths ++ [x ++ [a]], ?_, ?_, ?_, ?_, ?_, ?_, ?_⟩
    · refine ⟨by simp [hplen], ?_, ?_, ?_, ?_, ?_, ?_⟩
      · rw [hpget]; simp [h.pos, h.root]
      · intro i j y hi hj
        rw [hpget] at hi hj
        by_cases h1 : i < nodes.length <;> by_cases h2 : j < nodes.length
        · simp only [h1, h2, if_true] at hi hj; exact h.inj i j y hi hj
        · simp only [h1, h2, if_true, if_false] at hi hj
          by_cases h3 : j = nodes.length
          · simp only [h3, if_true] at hj
            rw [← Option.some.inj hj] at hi
            exact absurd hi (hnew i)
          · simp [h3] at hj
        · simp only [h1, h2, if_true, if_false] at hi hj
          by_cases h3 : i = nodes.length
          · simp only [h3, if_true] at hi
            rw [← Option.some.inj hi] at hj
            exact absurd hj (hnew j)
          · simp [h3] at hi
        · simp only [h1, h2, if_false] at hi hj
          by_cases h3 : i = nodes.length <;> by_cases h4 : j = nodes.length
          · omega
          · simp [h4] at hj
          · simp [h3] at hi
          · simp [h3] at hi
      · intro i y b j hi
        rw [hpget] at hi
        rw [hget, hpget]
        by_cases h1 : i = nodes.length
        · -- the new node has no successors
          have hy : y = x ++ [a] := by
            have : ¬ nodes.length < nodes.length := Nat.lt_irrefl _
            rw [h1] at hi
            simp only [this, if_false, if_true] at hi
            exact (Option.some.inj hi).symm
          simp only [h1, if_true, ACNode.empty, alookup_nil, reduceCtorEq, false_iff]
          by_cases h2 : j < nodes.length
          · simp only [h2, if_true]
            intro hj
            rw [hy] at hj
            obtain ⟨i', hi'⟩ := h.pclosed j _ _ hj
            exact hnew i' hi'
          · simp only [h2, if_false]
            by_cases h3 : j = nodes.length
            · simp only [h3, if_true, Option.some.injEq]
              rw [hy]; exact snoc_ne_self x a b
            · simp [h3]
        · have h1' : i < nodes.length := by
            apply Classical.byContradiction; intro h2
            simp [h2, h1] at hi
          simp only [h1', if_true] at hi
          simp only [h1, if_false]
          by_cases h2 : i = cur
          · subst h2
            have hyx : y = x := by rw [hx] at hi; exact (Option.some.inj hi).symm
            subst hyx
            simp only [if_true, alookup_snoc]
            by_cases h3 : j < nodes.length
            · simp only [h3, if_true]
              rw [← h.child i y b j hx]
              cases h4 : alookup b (acGet nodes i).succ with
              | some j' => simp
              | none =>
                simp only [reduceCtorEq, iff_false]
                by_cases h5 : a = b
                · simp only [h5, if_true, Option.some.injEq]; omega
                · simp [h5]
            · simp only [h3, if_false]
              by_cases h4 : j = nodes.length
              · simp only [h4, if_true, Option.some.injEq]
                cases h5 : alookup b (acGet nodes i).succ with
                | some j' =>
                  simp only [Option.some.injEq]
                  have := lt_of_getElem? ((h.child i y b j' hx).mp h5)
                  constructor
                  · intro e; omega
                  · intro e
                    have := (snoc_inj e).2
                    subst this
                    rw [hl] at h5; cases h5
                | none =>
                  simp only
                  by_cases h6 : a = b
                  · simp [h6]
                  · simp only [h6, if_false, reduceCtorEq, false_iff]
                    intro e; exact h6 (snoc_inj e).2
              · simp only [h4, if_false, reduceCtorEq, iff_false]
                intro e
                cases h5 : alookup b (acGet nodes i).succ with
                | some j' =>
                  rw [h5] at e
                  have := lt_of_getElem? ((h.child i y b j' hx).mp h5)
                  simp only [Option.some.injEq] at e
                  omega
                | none =>
                  rw [h5] at e
                  simp only at e
                  by_cases h6 : a = b
                  · simp only [h6, if_true, Option.some.injEq] at e; omega
                  · simp [h6] at e
          · simp only [h2, if_false]
            rw [h.child i y b j hi]
            by_cases h3 : j < nodes.length
            · simp [h3]
            · simp only [h3, if_false]
              have hn : paths[j]? = none := List.getElem?_eq_none (by omega)
              rw [hn]
              by_cases h4 : j = nodes.length
              · simp only [h4, if_true, Option.some.injEq, reduceCtorEq, false_iff]
                intro e
                have hyx := (snoc_inj e).1
                rw [← hyx] at hi
                exact h2 (h.inj i cur x hi hx)
              · simp [h4]
      · intro j y b hj
        rw [hpget] at hj
        by_cases h1 : j < nodes.length
        · simp only [h1, if_true] at hj
          obtain ⟨i, hi⟩ := h.pclosed j y b hj
          have := lt_of_getElem? hi
          exact ⟨i, by rw [hpget]; simp [hplen ▸ this, hi]⟩
        · simp only [h1, if_false] at hj
          by_cases h2 : j = nodes.length
          · simp only [h2, if_true, Option.some.injEq] at hj
            have := (snoc_inj hj).1
            exact ⟨cur, by rw [hpget]; simp [hcur, hx, this]⟩
          · simp [h2] at hj
      · intro i b j hmem
        rw [hget] at hmem ⊢
        by_cases h1 : i = nodes.length
        · simp [h1, ACNode.empty] at hmem
        · simp only [h1, if_false] at hmem ⊢
          by_cases h2 : i = cur
          · simp only [h2, if_true] at hmem ⊢
            rw [alookup_snoc]
            rcases List.mem_append.mp hmem with h3 | h3
            · rw [h.entries cur b j h3]
            · simp only [List.mem_singleton, Prod.mk.injEq] at h3
              obtain ⟨rfl, rfl⟩ := h3
              rw [hl]; simp
          · simp only [h2, if_false] at hmem ⊢
            exact h.entries i b j hmem
      · intro i
        rw [hget]
        by_cases h1 : i = nodes.length
        · simp [h1, ACNode.empty, akeys]
        · simp only [h1, if_false]
          by_cases h2 : i = cur
          · simp only [h2, if_true]
            have hk : a ∉ akeys (acGet nodes cur).succ := alookup_eq_none_iff.mp hl
            simp only [akeys, List.map_append, List.map_cons, List.map_nil]
            rw [List.nodup_append]
            refine ⟨h.keysNodup cur, by simp, ?_⟩
            intro b hb c hc
            simp only [List.mem_singleton] at hc
            subst hc
            intro e; subst e; exact hk hb
          · simp only [h2, if_false]; exact h.keysNodup i
    · rw [hpget]; simp
    · intro y
      rw [List.mem_append]
      simp
    · intro i hi
      rw [hpget]; simp [hplen ▸ hi]
    · simp
    · intro i hi
      rw [hget]
      have h1 : ¬ i = nodes.length := by omega
      simp only [h1, if_false]
      by_cases h2 : i = cur
      · simp [h2]
      · simp [h2]
    · intro i hi
      rw [hget]
      by_cases h1 : i = nodes.length
      · simp [h1, ACNode.empty]
      · have h2 : ¬ i = cur := by omega
        simp only [h1, h2, if_false]
        rw [acGet_out_of_range nodes i hi]; exact ⟨rfl, rfl⟩

/-- The walk of the insertion loop along a word. -/
theorem insertWalk_spec (w : List α) : ∀ {nodes : List (ACNode α)} {paths : List (List α)}
    (h : Trie nodes paths) (cur : Nat) (x : List α) (hx : paths[cur]? = some x),
    ∃ paths', Trie (w.foldl acInsertSym (nodes, cur)).1 paths' ∧
      paths'[(w.foldl acInsertSym (nodes, cur)).2]? = some (x ++ w) ∧
      (∀ y, y ∈ paths' ↔ y ∈ paths ∨ ∃ u, u ≠ [] ∧ u <+: w ∧ y = x ++ u) ∧
      (∀ i : Nat, i < paths.length → paths'[i]? = paths[i]?) ∧
      paths.length ≤ paths'.length ∧
      (∀ i, i < nodes.length → (acGet (w.foldl acInsertSym (nodes, cur)).1 i).out = (acGet nodes i).out ∧
        (acGet (w.foldl acInsertSym (nodes, cur)).1 i).fail = (acGet nodes i).fail) ∧
      (∀ i, nodes.length ≤ i → (acGet (w.foldl acInsertSym (nodes, cur)).1 i).out = [] ∧
        (acGet (w.foldl acInsertSym (nodes, cur)).1 i).fail = none) := by
  induction w with
  | nil =>
    intro nodes paths h cur x hx
    refine ⟨paths, h, by simpa using hx, ?_, fun i _ => rfl, Nat.le_refl _, fun i _ => ⟨rfl, rfl⟩,
      fun i hi => ?_⟩
    · intro y
      constructor
      · exact Or.inl
      · rintro (h1 | ⟨u, hu, hp, _⟩)
        · exact h1
        · exact absurd (List.prefix_nil.mp hp) hu
    · simp only [List.foldl_nil]
      rw [acGet_out_of_range nodes i hi]; exact ⟨rfl, rfl⟩
  | cons a w ih =>
    intro nodes paths h cur x hx
    obtain ⟨p1, t1, c1, m1, k1, l1, o1, n1⟩ := insertSym_spec h cur x hx a
    rw [List.foldl_cons]
    have hlen1 : p1.length = (acInsertSym (nodes, cur) a).1.length := t1.len
    obtain ⟨p2, t2, c2, m2, k2, l2, o2, n2⟩ :=
      ih (nodes := (acInsertSym (nodes, cur) a).1) (paths := p1) t1 (acInsertSym (nodes, cur) a).2 (x ++ [a]) c1
    have hnl : nodes.length ≤ (acInsertSym (nodes, cur) a).1.length := by
      rw [← hlen1, ← h.len]; exact l1
    refine ⟨p2, t2, by rw [c2]; simp, ?_, ?_, Nat.le_trans l1 l2, ?_, ?_⟩
    · intro y
      rw [m2, m1]
      constructor
      · rintro ((h1 | h1) | ⟨u, hu, hp, rfl⟩)
        · exact Or.inl h1
        · exact Or.inr ⟨[a], by simp, by simp [List.prefix_cons_iff], h1⟩
        · exact Or.inr ⟨a :: u, by simp, by simp [List.cons_prefix_cons, hp], by simp⟩
      · rintro (h1 | ⟨u, hu, hp, rfl⟩)
        · exact Or.inl (Or.inl h1)
        · cases u with
          | nil => exact absurd rfl hu
          | cons b u =>
            obtain ⟨rfl, hp'⟩ := List.cons_prefix_cons.mp hp
            by_cases hu' : u = []
            · subst hu'; exact Or.inl (Or.inr rfl)
            · exact Or.inr ⟨u, hu', hp', by simp⟩
    · intro i hi
      rw [k2 i (by omega), k1 i hi]
    · intro i hi
      obtain ⟨e1, e2⟩ := o2 i (by omega)
      obtain ⟨e3, e4⟩ := o1 i hi
      exact ⟨e1.trans e3, e2.trans e4⟩
    · intro i hi
      by_cases h1 : i < (acInsertSym (nodes, cur) a).1.length
      · obtain ⟨e1, e2⟩ := o2 i h1
        obtain ⟨e3, e4⟩ := n1 i hi
        exact ⟨e1.trans e3, e2.trans e4⟩
      · exact n2 i (by omega)

/-- The trie of a pattern list, with what the later phases need: the strings of the nodes are
exactly the prefixes of the patterns, the `out` field marks the patterns, no failure link is
set. -/
structure TrieOf (pats : List (List α)) (nodes : List (ACNode α)) (paths : List (List α)) : Prop
    extends Trie nodes paths where
  mem : ∀ y : List α, y ∈ paths ↔ y = [] ∨ ∃ s ∈ pats, y <+: s
  out : ∀ (i : Nat) (y : List α), paths[i]? = some y → ((acGet nodes i).out ≠ [] ↔ y ∈ pats)
  nofail : ∀ i : Nat, (acGet nodes i).fail = none

theorem insertWord_spec {pats : List (List α)} {nodes : List (ACNode α)} {paths : List (List α)}
    (h : TrieOf pats nodes paths) (w : List α) :
    ∃ paths', TrieOf (pats ++ [w]) (acInsertWord nodes w) paths' := by
  obtain ⟨p1, t1, c1, m1, k1, l1, o1, n1⟩ := insertWalk_spec w h.toTrie 0 [] h.root
  simp only [List.nil_append] at c1 m1
  have hend : (w.foldl acInsertSym (nodes, 0)).2 < (w.foldl acInsertSym (nodes, 0)).1.length := by
    rw [← t1.len]; exact lt_of_getElem? c1
  have hget : ∀ j, acGet (acInsertWord nodes w) j =
      if j = (w.foldl acInsertSym (nodes, 0)).2 then
        { acGet (w.foldl acInsertSym (nodes, 0)).1 (w.foldl acInsertSym (nodes, 0)).2 with out := [w] }
      else acGet (w.foldl acInsertSym (nodes, 0)).1 j := by
    intro j
    unfold acInsertWord
    simp only
    rw [acGet_set _ _ _ _ hend]
  refine ⟨p1, ⟨?_, ?_, ?_, ?_⟩⟩
  · refine ⟨by rw [t1.len]; unfold acInsertWord; simp, t1.root, t1.inj, ?_, t1.pclosed, ?_, ?_⟩
    · intro i x a j hi
      rw [hget]
      by_cases h1 : i = (w.foldl acInsertSym (nodes, 0)).2
      · simp only [h1, if_true]; rw [← h1]; exact t1.child i x a j hi
      · simp only [h1, if_false]; exact t1.child i x a j hi
    · intro i a j hm
      rw [hget] at hm ⊢
      by_cases h1 : i = (w.foldl acInsertSym (nodes, 0)).2
      · simp only [h1, if_true] at hm ⊢; exact t1.entries _ a j hm
      · simp only [h1, if_false] at hm ⊢; exact t1.entries i a j hm
    · intro i
      rw [hget]
      by_cases h1 : i = (w.foldl acInsertSym (nodes, 0)).2
      · simp only [h1, if_true]; exact t1.keysNodup _
      · simp only [h1, if_false]; exact t1.keysNodup i
  · intro y
    rw [m1, h.mem]
    constructor
    · rintro ((h1 | ⟨s, hs, hp⟩) | ⟨u, hu, hp, rfl⟩)
      · exact Or.inl h1
      · exact Or.inr ⟨s, List.mem_append_left _ hs, hp⟩
      · exact Or.inr ⟨w, by simp, hp⟩
    · rintro (h1 | ⟨s, hs, hp⟩)
      · exact Or.inl (Or.inl h1)
      · rcases List.mem_append.mp hs with h2 | h2
        · exact Or.inl (Or.inr ⟨s, h2, hp⟩)
        · simp only [List.mem_singleton] at h2
          subst h2
          by_cases hy : y = []
          · exact Or.inl (Or.inl hy)
          · exact Or.inr ⟨y, hy, hp, rfl⟩
  · intro i y hi
    rw [hget]
    by_cases h1 : i = (w.foldl acInsertSym (nodes, 0)).2
    · have hy : y = w := by rw [h1, c1] at hi; exact (Option.some.inj hi).symm
      simp [h1, hy]
    · simp only [h1, if_false]
      have hyw : y ≠ w := by
        intro e; rw [e] at hi; exact h1 (t1.inj _ _ _ hi c1)
      by_cases h2 : i < nodes.length
      · rw [(o1 i h2).1]
        have : paths[i]? = some y := by rw [← k1 i (by rw [h.len]; exact h2)]; exact hi
        rw [h.out i y this]
        simp [hyw]
      · rw [(n1 i (by omega)).1]
        simp only [ne_eq, not_true_eq_false, false_iff, List.mem_append, List.mem_singleton, hyw,
          or_false]
        intro hy
        -- a pattern is already in the old trie, at an old index
        have : y ∈ paths := (h.mem y).mpr (Or.inr ⟨y, hy, List.prefix_refl _⟩)
        obtain ⟨i', hi'⟩ := List.mem_iff_getElem?.mp this
        have hlt := lt_of_getElem? hi'
        have := t1.inj i i' y hi (by rw [k1 i' hlt]; exact hi')
        rw [h.len] at hlt
        omega
  · intro i
    rw [hget]
    by_cases h1 : i = (w.foldl acInsertSym (nodes, 0)).2
    · simp only [h1, if_true]
      by_cases h2 : (w.foldl acInsertSym (nodes, 0)).2 < nodes.length
      · rw [(o1 _ h2).2]; exact h.nofail _
      · exact (n1 _ (by omega)).2
    · simp only [h1, if_false]
      by_cases h2 : i < nodes.length
      · rw [(o1 i h2).2]; exact h.nofail i
      · exact (n1 i (by omega)).2

theorem trieOf_init : TrieOf ([] : List (List α)) [ACNode.empty] [[]] := by
  refine ⟨⟨rfl, rfl, ?_, ?_, ?_, ?_, ?_⟩, ?_, ?_, ?_⟩
  · intro i j x hi hj
    have h1 := lt_of_getElem? hi
    have h2 := lt_of_getElem? hj
    simp at h1 h2; omega
  · intro i x a j hi
    have h1 := lt_of_getElem? hi
    simp only [List.length_singleton, Nat.lt_one_iff] at h1
    subst h1
    simp only [List.getElem?_cons_zero, Option.some.injEq] at hi
    subst hi
    constructor
    · intro h; simp [acGet, ACNode.empty] at h
    · intro h
      have h2 := lt_of_getElem? h
      simp only [List.length_singleton, Nat.lt_one_iff] at h2
      subst h2
      simp at h
  · intro j x a hj
    have h2 := lt_of_getElem? hj
    simp only [List.length_singleton, Nat.lt_one_iff] at h2
    subst h2
    simp at hj
  · intro i a j hm
    by_cases h : i = 0
    · subst h; simp [acGet, ACNode.empty] at hm
    · rw [acGet_out_of_range _ i (by simp; omega)] at hm; simp [ACNode.empty] at hm
  · intro i
    by_cases h : i = 0
    · subst h; simp [acGet, ACNode.empty, akeys]
    · rw [acGet_out_of_range _ i (by simp; omega)]; simp [ACNode.empty, akeys]
  · intro y; simp
  · intro i y hi
    have h1 := lt_of_getElem? hi
    simp only [List.length_singleton, Nat.lt_one_iff] at h1
    subst h1
    simp [acGet, ACNode.empty]
  · intro i
    by_cases h : i = 0
    · subst h; rfl
    · rw [acGet_out_of_range _ i (by simp; omega)]; rfl

/-- **Phase 1.** The insertion loop builds a trie of the pattern set. -/
theorem acTrie_spec (pats : List (List α)) : ∃ paths, TrieOf pats (acTrie pats) paths := by
  unfold acTrie
  have key : ∀ (rest done : List (List α)) (nodes : List (ACNode α)) (paths : List (List α)),
      TrieOf done nodes paths → ∃ paths', TrieOf (done ++ rest) (rest.foldl acInsertWord nodes) paths' := by
    intro rest
    induction rest with
    | nil => intro done nodes paths h; exact ⟨paths, by simpa using h⟩
    | cons w rest ih =>
      intro done nodes paths h
      obtain ⟨p1, h1⟩ := insertWord_spec h w
      obtain ⟨p2, h2⟩ := ih (done ++ [w]) _ p1 h1
      exact ⟨p2, by simpa using h2⟩
  simpa using key pats [] _ _ trieOf_init

end AV.Ctor.AC
