/-
Proofs/CtorACBfs.lean — from_substrings (C15), phase 2c: the breadth-first computation of all
failure and output links (`acFailBfs`).  Core only.
-/
import AutomataVerif.Proofs.CtorACLink

namespace AV.Ctor.AC

set_option linter.unusedSectionVars false
set_option linter.unusedVariables false
set_option linter.unusedSimpArgs false

variable {α : Type} [DecidableEq α]

/-- `nodes` has the tree structure of `nodes0` (only `fail` / `out` fields may differ). -/
structure SameTree (nodes0 nodes : List (ACNode α)) : Prop where
  len : nodes.length = nodes0.length
  succ : ∀ i : Nat, (acGet nodes i).succ = (acGet nodes0 i).succ

theorem SameTree.refl (nodes : List (ACNode α)) : SameTree nodes nodes := ⟨rfl, fun _ => rfl⟩

theorem Trie.of_sameTree {nodes0 nodes : List (ACNode α)} {paths : List (List α)}
    (h : Trie nodes0 paths) (s : SameTree nodes0 nodes) : Trie nodes paths := by
  refine ⟨by rw [h.len, s.len], h.root, h.inj, ?_, h.pclosed, ?_, ?_⟩
  · intro i x a j hi; rw [s.succ]; exact h.child i x a j hi
  · intro i a j hm; rw [s.succ] at hm ⊢; exact h.entries i a j hm
  · intro i; rw [s.succ]; exact h.keysNodup i

/-- Depth of a node. -/
def dep (paths : List (List α)) (v : Nat) : Nat := ((paths[v]?).getD []).length

theorem dep_eq {paths : List (List α)} {v : Nat} {x : List α} (h : paths[v]? = some x) :
    dep paths v = x.length := by unfold dep; rw [h]; rfl

section bfs
variable {pats : List (List α)} {nodes0 : List (ACNode α)} {paths : List (List α)}

/-- All children of one node. -/
theorem acLinkAll_spec (hT : TrieOf pats nodes0 paths) (cur : Nat) (x : List α)
    (hcur : paths[cur]? = some x) (hx : x ≠ []) :
    ∀ (kids : List (α × Nat)) (nodes : List (ACNode α)), SameTree nodes0 nodes →
      (acGet nodes 0).fail = none →
      (∀ v y, paths[v]? = some y → y ≠ [] → y.length ≤ x.length →
        FailOK paths (acGet nodes v) y ∧ OutOK pats (acGet nodes v) y) →
      (∀ e ∈ kids, paths[e.2]? = some (x ++ [e.1])) →
      (kids.map Prod.snd).Nodup →
      (∀ e ∈ kids, (acGet nodes e.2).out = (acGet nodes0 e.2).out) →
      ∃ nodes', acLinkAll cur kids nodes = .ok nodes' ∧ SameTree nodes0 nodes' ∧
        (∀ v, v ∉ kids.map Prod.snd → acGet nodes' v = acGet nodes v) ∧
        (∀ e ∈ kids, FailOK paths (acGet nodes' e.2) (x ++ [e.1]) ∧
          OutOK pats (acGet nodes' e.2) (x ++ [e.1])) := by
  have hsub : ∀ s ∈ pats, s ∈ paths := fun s hs => (hT.mem s).mpr (Or.inr ⟨s, hs, List.prefix_refl _⟩)
  intro kids
  induction kids with
  | nil =>
    intro nodes hs _ _ _ _ _
    exact ⟨nodes, rfl, hs, fun _ _ => rfl, fun e he => by cases he⟩
  | cons e rest ih =>
    intro nodes hs hroot hOK hk hnd hown
    obtain ⟨a, c⟩ := e
    have hc : paths[c]? = some (x ++ [a]) := hk (a, c) (by simp)
    have hT' : Trie nodes paths := hT.toTrie.of_sameTree hs
    have hclt : c < nodes.length := by rw [← hT'.len]; exact lt_of_getElem? hc
    have hownc : (acGet nodes c).out ≠ [] ↔ x ++ [a] ∈ pats := by
      rw [hown (a, c) (by simp)]; exact hT.out c _ hc
    obtain ⟨node', hlink, hsucc, hf, ho⟩ := acLink_spec hT' hroot hsub cur x hcur hx hOK a c hc hownc
    unfold acLinkAll
    rw [hlink]
    simp only
    have hget : ∀ v, acGet (nodes.set c node') v = if v = c then node' else acGet nodes v :=
      fun v => acGet_set nodes c v node' hclt
    have hc0 : c ≠ 0 := by
      intro e; rw [e, hT.root] at hc
      have := Option.some.inj hc
      simp at this
    have hs1 : SameTree nodes0 (nodes.set c node') := by
      refine ⟨by rw [List.length_set]; exact hs.len, ?_⟩
      intro i
      rw [hget]
      by_cases h : i = c
      · simp only [h, if_true]; rw [hsucc]; exact hs.succ c
      · simp only [h, if_false]; exact hs.succ i
    have hnd' : c ∉ rest.map Prod.snd ∧ (rest.map Prod.snd).Nodup := by
      simpa using hnd
    obtain ⟨nodes', hr, hs', hframe, hok⟩ := ih (nodes.set c node') hs1
      (by rw [hget]; simp [Ne.symm hc0]; exact hroot)
      (by
        intro v y hv hy hl
        rw [hget]
        have : v ≠ c := by
          intro e; rw [e, hc] at hv
          have := congrArg List.length (Option.some.inj hv)
          simp at this; omega
        simp only [this, if_false]
        exact hOK v y hv hy hl)
      (fun e he => hk e (List.mem_cons_of_mem _ he)) hnd'.2
      (by
        intro e he
        rw [hget]
        have : e.2 ≠ c := by
          intro h; apply hnd'.1; rw [← h]; exact List.mem_map.mpr ⟨e, he, rfl⟩
        simp only [this, if_false]
        exact hown e (List.mem_cons_of_mem _ he))
    refine ⟨nodes', hr, hs', ?_, ?_⟩
    · intro v hv
      simp only [List.map_cons, List.mem_cons, not_or] at hv
      rw [hframe v hv.2, hget]; simp [hv.1]
    · intro e he
      rcases List.mem_cons.mp he with rfl | he'
      · rw [hframe c hnd'.1, hget]; simp only [if_true]; exact ⟨hf, ho⟩
      · exact hok e he'

/-- Invariant of the first BFS: `queue ++ done` are the nodes whose links are final. -/
structure BfsInv (pats : List (List α)) (nodes0 : List (ACNode α)) (paths : List (List α))
    (nodes : List (ACNode α)) (queue done : List Nat) : Prop where
  same : SameTree nodes0 nodes
  rootfail : (acGet nodes 0).fail = none
  rootout : (acGet nodes 0).out = (acGet nodes0 0).out
  ok : ∀ v ∈ queue ++ done, ∀ x, paths[v]? = some x →
    x ≠ [] ∧ FailOK paths (acGet nodes v) x ∧ OutOK pats (acGet nodes v) x
  inrange : ∀ v ∈ queue ++ done, v < nodes0.length
  unl : ∀ v, v ∉ queue ++ done → (acGet nodes v).out = (acGet nodes0 v).out
  nodup : (queue ++ done).Nodup
  depth1 : ∀ (v : Nat) (x : List α), paths[v]? = some x → x.length = 1 → v ∈ queue ++ done
  kids : ∀ u ∈ done, ∀ (a : α) (c : Nat), alookup a (acGet nodes0 u).succ = some c → c ∈ queue ++ done
  origin : ∀ v ∈ queue ++ done, dep paths v = 1 ∨
    ∃ u ∈ done, ∃ a : α, alookup a (acGet nodes0 u).succ = some v
  sorted : queue.Pairwise (fun p q => dep paths p ≤ dep paths q)
  span : ∀ h ∈ queue.head?, ∀ q ∈ queue, dep paths q ≤ dep paths h + 1
  low : ∀ h ∈ queue.head?, ∀ (v : Nat) (x : List α), paths[v]? = some x → x ≠ [] →
    x.length ≤ dep paths h → v ∈ queue ++ done

theorem paths_some (hT : TrieOf pats nodes0 paths) {v : Nat} (hv : v < nodes0.length) :
    ∃ x, paths[v]? = some x := by
  have : v < paths.length := by rw [hT.len]; exact hv
  exact ⟨paths[v], List.getElem?_eq_getElem this⟩

/-- One iteration of the `while queue:` loop. -/
theorem bfs_step (hT : TrieOf pats nodes0 paths) {nodes : List (ACNode α)} {cur : Nat}
    {rest done : List Nat} (inv : BfsInv pats nodes0 paths nodes (cur :: rest) done) :
    ∃ nodes', acLinkAll cur (acGet nodes cur).succ nodes = .ok nodes' ∧
      BfsInv pats nodes0 paths nodes' (rest ++ (acGet nodes cur).succ.map Prod.snd) (cur :: done) := by
  have hcurmem : cur ∈ (cur :: rest) ++ done := by simp
  obtain ⟨x, hcur⟩ := paths_some hT (inv.inrange cur hcurmem)
  obtain ⟨hx, _, _⟩ := inv.ok cur hcurmem x hcur
  have hdepcur : dep paths cur = x.length := dep_eq hcur
  have hkidsEq : (acGet nodes cur).succ = (acGet nodes0 cur).succ := inv.same.succ cur
  -- the children of cur
  have hk : ∀ e ∈ (acGet nodes cur).succ, paths[e.2]? = some (x ++ [e.1]) := by
    intro e he
    rw [hkidsEq] at he
    exact (hT.child cur x e.1 e.2 hcur).mp (hT.entries cur e.1 e.2 he)
  have hkdep : ∀ e ∈ (acGet nodes cur).succ, dep paths e.2 = x.length + 1 := by
    intro e he; rw [dep_eq (hk e he)]; simp
  have hknd : ((acGet nodes cur).succ.map Prod.snd).Nodup := by
    rw [hkidsEq]
    have hkeys := hT.keysNodup cur
    -- distinct keys and values determined by keys ⇒ distinct values
    unfold List.Nodup at hkeys ⊢
    unfold akeys at hkeys
    rw [List.pairwise_map] at hkeys ⊢
    apply List.Pairwise.imp_of_mem _ hkeys
    intro e1 e2 h1 h2 hne heq
    apply hne
    have p1 := (hT.child cur x e1.1 e1.2 hcur).mp (hT.entries cur e1.1 e1.2 h1)
    have p2 := (hT.child cur x e2.1 e2.2 hcur).mp (hT.entries cur e2.1 e2.2 h2)
    rw [heq, p2] at p1
    exact (snoc_inj (Option.some.inj p1)).2.symm
  -- children are not linked yet
  have hcur_notdone : cur ∉ done := by
    have := inv.nodup
    rw [List.nodup_append] at this
    exact fun h => this.2.2 cur (by simp) cur h rfl
  have hkfresh : ∀ e ∈ (acGet nodes cur).succ, e.2 ∉ (cur :: rest) ++ done := by
    intro e he hmem
    rcases inv.origin e.2 hmem with h1 | ⟨u, hu, a, hua⟩
    · rw [hkdep e he] at h1
      have : x.length ≠ 0 := fun e => hx (List.eq_nil_of_length_eq_zero e)
      omega
    · obtain ⟨xu, hxu⟩ := paths_some hT (inv.inrange u (by simp [hu]))
      have p1 := (hT.child u xu a e.2 hxu).mp hua
      rw [hk e he] at p1
      have := (snoc_inj (Option.some.inj p1)).1
      rw [← this] at hxu
      have : u = cur := hT.inj u cur x hxu hcur
      rw [this] at hu
      exact hcur_notdone hu
  -- everything at depth ≤ |x| is linked
  have hOK : ∀ v y, paths[v]? = some y → y ≠ [] → y.length ≤ x.length →
      FailOK paths (acGet nodes v) y ∧ OutOK pats (acGet nodes v) y := by
    intro v y hv hy hl
    have hm := inv.low cur (by simp) v y hv hy (by rw [hdepcur]; exact hl)
    exact (inv.ok v hm y hv).2
  obtain ⟨nodes', hr, hs', hframe, hok⟩ := acLinkAll_spec hT cur x hcur hx (acGet nodes cur).succ nodes
    inv.same inv.rootfail hOK hk hknd
    (fun e he => inv.unl e.2 (hkfresh e he))
  refine ⟨nodes', hr, ?_⟩
  -- membership in the new linked set
  have hmem_new : ∀ v, v ∈ (rest ++ (acGet nodes cur).succ.map Prod.snd) ++ (cur :: done) ↔
      v ∈ (cur :: rest) ++ done ∨ v ∈ (acGet nodes cur).succ.map Prod.snd := by
    intro v
    simp only [List.mem_append, List.mem_cons]
    constructor
    · rintro ((h | h) | (h | h))
      · exact Or.inl (Or.inl (Or.inr h))
      · exact Or.inr h
      · exact Or.inl (Or.inl (Or.inl h))
      · exact Or.inl (Or.inr h)
    · rintro (((h | h) | h) | h)
      · exact Or.inr (Or.inl h)
      · exact Or.inl (Or.inl h)
      · exact Or.inr (Or.inr h)
      · exact Or.inl (Or.inr h)
  have hkid_of_mem : ∀ v, v ∈ (acGet nodes cur).succ.map Prod.snd →
      ∃ e ∈ (acGet nodes cur).succ, e.2 = v := by
    intro v hv
    obtain ⟨e, he, rfl⟩ := List.mem_map.mp hv
    exact ⟨e, he, rfl⟩
  have hold_notkid : ∀ v, v ∈ (cur :: rest) ++ done → v ∉ (acGet nodes cur).succ.map Prod.snd := by
    intro v hv hk'
    obtain ⟨e, he, rfl⟩ := hkid_of_mem v hk'
    exact hkfresh e he hv
  have h0notkid : 0 ∉ (acGet nodes cur).succ.map Prod.snd := by
    intro h0
    obtain ⟨e, he, e0⟩ := hkid_of_mem 0 h0
    have := hk e he
    rw [e0, hT.root] at this
    have := Option.some.inj this
    simp at this
  refine
    { same := hs'
      rootfail := by rw [hframe 0 h0notkid]; exact inv.rootfail
      rootout := by rw [hframe 0 h0notkid]; exact inv.rootout
      ok := ?_
      inrange := ?_
      unl := ?_
      nodup := ?_
      depth1 := ?_
      kids := ?_
      origin := ?_
      sorted := ?_
      span := ?_
      low := ?_ }
  · intro v hv y hy
    rcases (hmem_new v).mp hv with h | h
    · rw [hframe v (hold_notkid v h)]
      exact inv.ok v h y hy
    · obtain ⟨e, he, rfl⟩ := hkid_of_mem v h
      have := hk e he
      rw [this] at hy
      have hy' : y = x ++ [e.1] := (Option.some.inj hy).symm
      rw [hy']
      exact ⟨by simp, hok e he⟩
  · intro v hv
    rcases (hmem_new v).mp hv with h | h
    · exact inv.inrange v h
    · obtain ⟨e, he, rfl⟩ := hkid_of_mem v h
      have := lt_of_getElem? (hk e he)
      rw [hT.len] at this; exact this
  · intro v hv
    have h1 : v ∉ (cur :: rest) ++ done := fun h => hv ((hmem_new v).mpr (Or.inl h))
    have h2 : v ∉ (acGet nodes cur).succ.map Prod.snd := fun h => hv ((hmem_new v).mpr (Or.inr h))
    rw [hframe v h2]; exact inv.unl v h1
  · -- no repetition
    have hnd := inv.nodup
    have h1 : ((cur :: rest) ++ done).Nodup := hnd
    rw [List.nodup_append] at h1
    obtain ⟨hq, hd, hdisj⟩ := h1
    rw [List.nodup_cons] at hq
    rw [List.nodup_append]
    refine ⟨?_, ?_, ?_⟩
    · rw [List.nodup_append]
      exact ⟨hq.2, hknd, fun a ha b hb e =>
        hold_notkid a (List.mem_append_left _ (List.mem_cons_of_mem _ ha)) (e ▸ hb)⟩
    · rw [List.nodup_cons]; exact ⟨hcur_notdone, hd⟩
    · intro a ha b hb e
      subst e
      rcases List.mem_append.mp ha with h2 | h2
      · rcases List.mem_cons.mp hb with h3 | h3
        · rw [h3] at h2; exact hq.1 h2
        · exact hdisj a (List.mem_cons_of_mem _ h2) a h3 rfl
      · apply hold_notkid a _ h2
        rcases List.mem_cons.mp hb with h3 | h3
        · rw [h3]; simp
        · exact List.mem_append_right _ h3
  · intro v y hv hy
    exact (hmem_new v).mpr (Or.inl (inv.depth1 v y hv hy))
  · intro u hu a c hc
    rcases List.mem_cons.mp hu with rfl | hu'
    · apply (hmem_new c).mpr
      right
      have : (a, c) ∈ (acGet nodes u).succ := by rw [hkidsEq]; exact alookup_some_mem hc
      exact List.mem_map.mpr ⟨(a, c), this, rfl⟩
    · exact (hmem_new c).mpr (Or.inl (inv.kids u hu' a c hc))
  · intro v hv
    rcases (hmem_new v).mp hv with h | h
    · rcases inv.origin v h with h1 | ⟨u, hu, a, hua⟩
      · exact Or.inl h1
      · exact Or.inr ⟨u, List.mem_cons_of_mem _ hu, a, hua⟩
    · obtain ⟨e, he, rfl⟩ := hkid_of_mem v h
      right
      refine ⟨cur, by simp, e.1, ?_⟩
      rw [hkidsEq] at he
      exact hT.entries cur e.1 e.2 he
  · -- depth order of the new queue
    have hs := inv.sorted
    rw [List.pairwise_cons] at hs
    rw [List.pairwise_append]
    refine ⟨hs.2, ?_, ?_⟩
    · rw [List.pairwise_map]
      apply List.Pairwise.imp_of_mem _ (List.pairwise_of_forall (R := fun _ _ => True) (fun _ _ => trivial))
      intro e1 e2 h1 h2 _
      rw [hkdep e1 h1, hkdep e2 h2]; exact Nat.le_refl _
    · intro q hq k hk'
      obtain ⟨e, he, rfl⟩ := hkid_of_mem k hk'
      rw [hkdep e he]
      have := inv.span cur (by simp) q (List.mem_cons_of_mem _ hq)
      rw [hdepcur] at this; exact this
  · -- span
    intro h hh q hq
    have hs := inv.sorted
    rw [List.pairwise_cons] at hs
    -- depth of the new head is ≥ depth of cur
    have hhge : x.length ≤ dep paths h := by
      have hmem : h ∈ rest ++ (acGet nodes cur).succ.map Prod.snd := List.mem_of_mem_head? hh
      rcases List.mem_append.mp hmem with h1 | h1
      · have := hs.1 h h1; rw [hdepcur] at this; exact this
      · obtain ⟨e, he, rfl⟩ := hkid_of_mem h h1
        rw [hkdep e he]; omega
    rcases List.mem_append.mp hq with h1 | h1
    · have := inv.span cur (by simp) q (List.mem_cons_of_mem _ h1)
      rw [hdepcur] at this; omega
    · obtain ⟨e, he, rfl⟩ := hkid_of_mem q h1
      rw [hkdep e he]; omega
  · -- low
    intro h hh v y hv hy hl
    have hs := inv.sorted
    rw [List.pairwise_cons] at hs
    have hmemh : h ∈ rest ++ (acGet nodes cur).succ.map Prod.snd := List.mem_of_mem_head? hh
    have hhle : dep paths h ≤ x.length + 1 := by
      rcases List.mem_append.mp hmemh with h1 | h1
      · have := inv.span cur (by simp) h (List.mem_cons_of_mem _ h1)
        rw [hdepcur] at this; exact this
      · obtain ⟨e, he, rfl⟩ := hkid_of_mem h h1
        rw [hkdep e he]; omega
    by_cases hyl : y.length ≤ x.length
    · exact (hmem_new v).mpr (Or.inl (inv.low cur (by simp) v y hv hy (by rw [hdepcur]; exact hyl)))
    · -- depth |x| + 1 = depth of the new head: the parent has been popped
      have hylen : y.length = x.length + 1 := by omega
      have hdeph : dep paths h = x.length + 1 := by omega
      obtain ⟨y', b, rfl⟩ : ∃ y' b, y = y' ++ [b] := by
        have : y ≠ [] := hy
        exact ⟨y.dropLast, y.getLast this, (List.dropLast_concat_getLast this).symm⟩
      obtain ⟨u, hu⟩ := hT.pclosed v y' b hv
      have hy'len : y'.length = x.length := by simp at hylen; omega
      have hy'ne : y' ≠ [] := by
        intro e; rw [e] at hy'len
        exact hx (List.eq_nil_of_length_eq_zero hy'len.symm)
      have hulinked := inv.low cur (by simp) u y' hu hy'ne (by rw [hdepcur, hy'len]; exact Nat.le_refl _)
      have hchild : alookup b (acGet nodes0 u).succ = some v := (hT.child u y' b v hu).mpr hv
      have hudone : u ∈ cur :: done := by
        rcases List.mem_append.mp hulinked with h1 | h1
        · rcases List.mem_cons.mp h1 with rfl | h2
          · simp
          · -- u would still be in the queue, before a head of larger depth
            exfalso
            -- the new queue is sorted and starts with h
            have hsort_new : (rest ++ (acGet nodes cur).succ.map Prod.snd).Pairwise
                (fun p q => dep paths p ≤ dep paths q) := by
              rw [List.pairwise_append]
              refine ⟨hs.2, ?_, ?_⟩
              · rw [List.pairwise_map]
                apply List.Pairwise.imp_of_mem _
                  (List.pairwise_of_forall (R := fun _ _ => True) (fun _ _ => trivial))
                intro e1 e2 h1 h2 _
                rw [hkdep e1 h1, hkdep e2 h2]; exact Nat.le_refl _
              · intro q hq k hk'
                obtain ⟨e, he, rfl⟩ := hkid_of_mem k hk'
                rw [hkdep e he]
                have := inv.span cur (by simp) q (List.mem_cons_of_mem _ hq)
                rw [hdepcur] at this; exact this
            have hu_in : u ∈ rest ++ (acGet nodes cur).succ.map Prod.snd := List.mem_append_left _ h2
            -- head is ≤ every element
            have : dep paths h ≤ dep paths u := by
              cases hq : rest ++ (acGet nodes cur).succ.map Prod.snd with
              | nil => rw [hq] at hu_in; cases hu_in
              | cons h' t =>
                rw [hq] at hh hsort_new hu_in
                simp only [List.head?_cons, Option.mem_def, Option.some.injEq] at hh
                subst hh
                rcases List.mem_cons.mp hu_in with rfl | h3
                · exact Nat.le_refl _
                · exact (List.pairwise_cons.mp hsort_new).1 u h3
            rw [dep_eq hu, hdeph, hy'len] at this
            omega
        · exact List.mem_cons_of_mem _ h1
      rcases List.mem_cons.mp hudone with rfl | h1
      · apply (hmem_new v).mpr
        right
        have : (b, v) ∈ (acGet nodes u).succ := by rw [hkidsEq]; exact alookup_some_mem hchild
        exact List.mem_map.mpr ⟨(b, v), this, rfl⟩
      · exact (hmem_new v).mpr (Or.inl (inv.kids u h1 b v hchild))

/-- The values of a successor dict are distinct. -/
theorem kids_nodup (hT : Trie nodes0 paths) (cur : Nat) (x : List α) (hcur : paths[cur]? = some x) :
    ((acGet nodes0 cur).succ.map Prod.snd).Nodup := by
  have hkeys := hT.keysNodup cur
  unfold List.Nodup at hkeys ⊢
  unfold akeys at hkeys
  rw [List.pairwise_map] at hkeys ⊢
  apply List.Pairwise.imp_of_mem _ hkeys
  intro e1 e2 h1 h2 hne heq
  apply hne
  have p1 := (hT.child cur x e1.1 e1.2 hcur).mp (hT.entries cur e1.1 e1.2 h1)
  have p2 := (hT.child cur x e2.1 e2.2 hcur).mp (hT.entries cur e2.1 e2.2 h2)
  rw [heq, p2] at p1
  exact (snoc_inj (Option.some.inj p1)).2.symm

theorem length_one {x : List α} (h : x.length = 1) : ∃ a, x = [a] := by
  match x, h with
  | [a], _ => exact ⟨a, rfl⟩

/-- The invariant holds initially (`queue = deque(root.successors.values())`). -/
theorem bfs_init (hT : TrieOf pats nodes0 paths) :
    BfsInv pats nodes0 paths nodes0 ((acGet nodes0 0).succ.map Prod.snd) [] := by
  have hkid : ∀ v, v ∈ (acGet nodes0 0).succ.map Prod.snd → ∃ a, paths[v]? = some [a] := by
    intro v hv
    obtain ⟨e, he, rfl⟩ := List.mem_map.mp hv
    have := (hT.child 0 [] e.1 e.2 hT.root).mp (hT.entries 0 e.1 e.2 he)
    exact ⟨e.1, by simpa using this⟩
  have hroot : ([] : List α) ∈ paths := (hT.toTrie.mem_iff _).mpr ⟨0, hT.root⟩
  have hdepth1 : ∀ (v : Nat) (x : List α), paths[v]? = some x → x.length = 1 →
      v ∈ (acGet nodes0 0).succ.map Prod.snd := by
    intro v x hv hx
    obtain ⟨a, rfl⟩ := length_one hx
    have : alookup a (acGet nodes0 0).succ = some v :=
      (hT.child 0 [] a v hT.root).mpr (by simpa using hv)
    exact List.mem_map.mpr ⟨(a, v), alookup_some_mem this, rfl⟩
  have hdep1 : ∀ v, v ∈ (acGet nodes0 0).succ.map Prod.snd → dep paths v = 1 := by
    intro v hv
    obtain ⟨a, ha⟩ := hkid v hv
    rw [dep_eq ha]; rfl
  refine
    { same := SameTree.refl _
      rootfail := hT.nofail 0
      rootout := rfl
      ok := ?_
      inrange := ?_
      unl := fun _ _ => rfl
      nodup := by simpa using kids_nodup hT.toTrie 0 [] hT.root
      depth1 := fun v x hv hx => by simpa using hdepth1 v x hv hx
      kids := fun u hu => by cases hu
      origin := fun v hv => Or.inl (hdep1 v (by simpa using hv))
      sorted := ?_
      span := ?_
      low := ?_ }
  · intro v hv x hx
    obtain ⟨a, ha⟩ := hkid v (by simpa using hv)
    rw [ha] at hx
    have hxa : x = [a] := (Option.some.inj hx).symm
    subst hxa
    refine ⟨by simp, ?_, ?_⟩
    · unfold FailOK
      rw [hT.nofail v]
      simp only
      refine ⟨List.nil_suffix, by simp, hroot, ?_⟩
      intro z hz hne _
      rcases List.suffix_cons_iff.mp hz with h | h
      · exact absurd h hne
      · rw [List.suffix_nil.mp h]; simp
    · unfold OutOK
      rw [hT.out v [a] ha]
      constructor
      · intro hm; exact ⟨[a], by simp, List.suffix_refl _, hm⟩
      · rintro ⟨z, hz, hs, hm⟩
        rcases List.suffix_cons_iff.mp hs with h | h
        · rw [← h]; exact hm
        · exact absurd (List.suffix_nil.mp h) hz
  · intro v hv
    obtain ⟨a, ha⟩ := hkid v (by simpa using hv)
    have := lt_of_getElem? ha
    rw [hT.len] at this; exact this
  · apply List.Pairwise.imp_of_mem _
      (List.pairwise_of_forall (R := fun _ _ => True) (fun _ _ => trivial))
    intro p q hp hq _
    rw [hdep1 p hp, hdep1 q hq]; exact Nat.le_refl _
  · intro h hh q hq
    rw [hdep1 q hq, hdep1 h (List.mem_of_mem_head? hh)]; omega
  · intro h hh v x hv hx hl
    rw [hdep1 h (List.mem_of_mem_head? hh)] at hl
    have : x.length = 1 := by
      have : x.length ≠ 0 := fun e => hx (List.eq_nil_of_length_eq_zero e)
      omega
    simpa using hdepth1 v x hv this

/-- Distinct non-root node indices are fewer than the nodes. -/
theorem count_linked {l : List Nat} {n : Nat} (hnd : l.Nodup) (h : ∀ v ∈ l, v ≠ 0 ∧ v < n) :
    l.length + 1 ≤ n ∨ l = [] := by
  by_cases hl : l = []
  · exact Or.inr hl
  · left
    have hsub : ∀ v ∈ l, v ∈ List.range' 1 (n - 1) := by
      intro v hv
      obtain ⟨h1, h2⟩ := h v hv
      rw [List.mem_range'_1]; omega
    have := List.Nodup.length_le_of_subset hnd hsub
    rw [List.length_range'] at this
    obtain ⟨v, hv⟩ := List.exists_mem_of_ne_nil l hl
    have := h v hv
    omega

/-- The whole first BFS. -/
theorem bfs_loop (hT : TrieOf pats nodes0 paths) : ∀ (fuel : Nat) (queue done : List Nat)
    (nodes : List (ACNode α)), BfsInv pats nodes0 paths nodes queue done →
    nodes0.length ≤ fuel + done.length →
    ∃ nodes' done', acFailBfs fuel queue nodes = .ok nodes' ∧ BfsInv pats nodes0 paths nodes' [] done' := by
  intro fuel
  induction fuel with
  | zero =>
    intro queue done nodes inv hf
    cases queue with
    | nil => exact ⟨nodes, done, rfl, inv⟩
    | cons cur rest =>
      exfalso
      have hne : ∀ v ∈ (cur :: rest) ++ done, v ≠ 0 ∧ v < nodes0.length := by
        intro v hv
        refine ⟨?_, inv.inrange v hv⟩
        intro e; subst e
        exact (inv.ok 0 hv [] hT.root).1 rfl
      rcases count_linked inv.nodup hne with h | h
      · simp only [List.length_append, List.length_cons] at h; omega
      · simp at h
  | succ f ih =>
    intro queue done nodes inv hf
    cases queue with
    | nil => exact ⟨nodes, done, rfl, inv⟩
    | cons cur rest =>
      obtain ⟨nodes1, h1, inv1⟩ := bfs_step hT inv
      unfold acFailBfs
      simp only
      rw [h1]
      simp only
      exact ih _ _ nodes1 inv1 (by simp only [List.length_cons]; omega)

/-- Result of phase 2: a trie of the patterns with all failure and output links. -/
structure Linked (pats : List (List α)) (nodes : List (ACNode α)) (paths : List (List α)) : Prop where
  trie : Trie nodes paths
  mem : ∀ y : List α, y ∈ paths ↔ y = [] ∨ ∃ s ∈ pats, y <+: s
  rootfail : (acGet nodes 0).fail = none
  rootout : (acGet nodes 0).out ≠ [] ↔ [] ∈ pats
  ok : ∀ (v : Nat) (x : List α), paths[v]? = some x → x ≠ [] →
    FailOK paths (acGet nodes v) x ∧ OutOK pats (acGet nodes v) x

theorem linked_of_final (hT : TrieOf pats nodes0 paths) {nodes : List (ACNode α)} {done : List Nat}
    (inv : BfsInv pats nodes0 paths nodes [] done) : Linked pats nodes paths := by
  have hall : ∀ (n : Nat) (v : Nat) (x : List α), x.length = n + 1 → paths[v]? = some x → v ∈ done := by
    intro n
    induction n with
    | zero => intro v x hx hv; simpa using inv.depth1 v x hv hx
    | succ n ih =>
      intro v x hx hv
      have hne : x ≠ [] := by intro e; rw [e] at hx; simp at hx
      obtain ⟨y, b, rfl⟩ : ∃ y b, x = y ++ [b] :=
        ⟨x.dropLast, x.getLast hne, (List.dropLast_concat_getLast hne).symm⟩
      obtain ⟨u, hu⟩ := hT.pclosed v y b hv
      have hud : u ∈ done := ih u y (by simp at hx; omega) hu
      have := inv.kids u hud b v ((hT.child u y b v hu).mpr hv)
      simpa using this
  refine ⟨hT.toTrie.of_sameTree inv.same, hT.mem, inv.rootfail, ?_, ?_⟩
  · rw [inv.rootout]; exact hT.out 0 [] hT.root
  · intro v x hv hx
    have hlen : x.length = (x.length - 1) + 1 := by
      have : x.length ≠ 0 := fun e => hx (List.eq_nil_of_length_eq_zero e)
      omega
    have := hall _ v x hlen hv
    exact (inv.ok v (by simpa using this) x hv).2

/-- **Phase 2.** `acFailBfs` from the trie of the patterns computes all links. -/
theorem acFailBfs_spec (hT : TrieOf pats nodes0 paths) :
    ∃ nodes, acFailBfs (nodes0.length + 1) ((acGet nodes0 0).succ.map Prod.snd) nodes0 = .ok nodes ∧
      Linked pats nodes paths := by
  obtain ⟨nodes, done, h1, inv⟩ := bfs_loop hT (nodes0.length + 1) _ [] nodes0 (bfs_init hT) (by simp)
  exact ⟨nodes, h1, linked_of_final hT inv⟩

end bfs

end AV.Ctor.AC
