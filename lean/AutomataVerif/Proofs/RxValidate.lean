/-
Proofs/RxValidate.lean — `validate_tokens` accepts exactly the (non-empty) token lists of the
documented grammar `G`, on lists of tokens the lexer can emit; and every rejection is an
`InvalidRegexError`.  Core only.
-/
import AutomataVerif.Proofs.RxGrammar

namespace AV.Rx

set_option linter.unusedSectionVars false

variable {α : Type}

/-- Tokens the lexer can produce: everything except the inserted `concat`, and `str s` only
with a one-symbol text. -/
def LexTok : Tok α → Prop
  | .concat => False
  | .str s => ∃ a, s = [a]
  | _ => True

/-! ### the loop as a recursion over the remaining tokens -/

/-- `validateLoop` over the pairs that start with `(prev, ·)`: the state is the previous token
and the (lagging) parenthesis counter. -/
def scan : Option (Tok α) → Int → List (Tok α) → Res Int
  | prev, cnt, [] => validateStep cnt (prev, none)
  | prev, cnt, t :: ts =>
      match validateStep cnt (prev, some t) with
      | .error e => .error e
      | .ok c => scan (some t) c ts

theorem validateLoop_eq_scan (ts : List (Tok α)) : ∀ (prev : Option (Tok α)) (cnt : Int),
    validateLoop cnt (List.zip (prev :: ts.map some) (ts.map some ++ [none])) = scan prev cnt ts := by
  induction ts with
  | nil =>
      intro prev cnt
      simp only [List.map_nil, List.nil_append, List.zip_cons_cons, List.zip_nil_right,
        validateLoop, scan]
      cases validateStep cnt (prev, none) <;> rfl
  | cons t ts ih =>
      intro prev cnt
      simp only [List.map_cons, List.cons_append, List.zip_cons_cons, validateLoop, scan]
      cases validateStep cnt (prev, some t) with
      | error e => rfl
      | ok c => exact ih (some t) c

theorem validateTokens_eq_scan (ts : List (Tok α)) :
    validateTokens ts =
      match scan none 0 ts with
      | .error e => .error e
      | .ok cnt => if cnt != 0 then .error (.lib .invalidRegexError) else .ok () := by
  unfold validateTokens validatePairs
  rw [validateLoop_eq_scan]
  rfl

/-! ### the phase and the depth contribution of the previous token -/

/-- What the previous token says about the innermost open group: nothing read yet in it,
a binary operator awaits its right operand, or a complete factor was just read. -/
inductive Ph
  | start | afterOp | done
  deriving DecidableEq, Repr

def phOf : Option (Tok α) → Ph
  | none => .start
  | some t =>
      match t.base with
      | .lparen => .start
      | .infixOp => .afterOp
      | _ => .done

/-- How much the previous token still has to add to the counter. -/
def delta : Option (Tok α) → Int
  | none => 0
  | some t =>
      match t.base with
      | .lparen => 1
      | .rparen => -1
      | _ => 0

/-- The adjacency rules. -/
def Adj : Ph → Base → Prop
  | .start, b => b ≠ .infixOp ∧ b ≠ .postfixOp
  | .afterOp, b => b ≠ .infixOp ∧ b ≠ .postfixOp ∧ b ≠ .rparen
  | .done, _ => True

/-- `validateStep` only looks at the base classes of the two tokens. -/
def stepB (cnt : Int) (pb cb : Option Base) : Res Int :=
  if pb.isNone && (cb == some .infixOp || cb == some .postfixOp) then
    .error (.lib .invalidRegexError)
  else if pb == some .infixOp then
    if cb.isNone then .error (.lib .invalidRegexError)
    else if cb == some .infixOp || cb == some .postfixOp || cb == some .rparen then
      .error (.lib .invalidRegexError)
    else .ok cnt
  else if pb == some .lparen then
    if cb == some .infixOp || cb == some .postfixOp then .error (.lib .invalidRegexError)
    else .ok (cnt + 1)
  else if pb == some .rparen then
    if cnt - 1 < 0 then .error (.lib .invalidRegexError)
    else .ok (cnt - 1)
  else .ok cnt

theorem optIs_eq (t : Option (Tok α)) (b : Base) : optIs t b = (t.map Tok.base == some b) := by
  cases t <;> simp [optIs]

theorem validateStep_eq (cnt : Int) (prev curr : Option (Tok α)) :
    validateStep cnt (prev, curr) = stepB cnt (prev.map Tok.base) (curr.map Tok.base) := by
  simp only [validateStep, stepB, optIs_eq, Option.isNone_map]

def phB : Option Base → Ph
  | some .lparen => .start
  | none => .start
  | some .infixOp => .afterOp
  | _ => .done

def deltaB : Option Base → Int
  | some .lparen => 1
  | some .rparen => -1
  | _ => 0

theorem phOf_eq (p : Option (Tok α)) : phOf p = phB (p.map Tok.base) := by
  cases p with
  | none => rfl
  | some t => simp only [phOf, Option.map_some]; cases t.base <;> rfl

theorem delta_eq (p : Option (Tok α)) : delta p = deltaB (p.map Tok.base) := by
  cases p with
  | none => rfl
  | some t => simp only [delta, Option.map_some]; cases t.base <;> rfl

theorem step_ok {prev : Option (Tok α)} {t : Tok α} {cnt : Int}
    (hadj : Adj (phOf prev) t.base) (hd : 0 ≤ cnt + delta prev) :
    validateStep cnt (prev, some t) = .ok (cnt + delta prev) := by
  rw [validateStep_eq]
  rw [phOf_eq] at hadj
  rw [delta_eq] at hd ⊢
  revert hadj hd
  simp only [Option.map_some]
  generalize t.base = tb
  generalize prev.map Tok.base = pb
  intro hadj hd
  rcases pb with _ | pb
  · cases tb <;> simp_all [stepB, Adj, phB, deltaB]
  · cases pb <;> cases tb <;> simp_all [stepB, Adj, phB, deltaB] <;>
      (rw [if_neg (by omega)]; rfl)

theorem end_ok {prev : Option (Tok α)} {cnt : Int}
    (hph : phOf prev ≠ .afterOp) (hd : 0 ≤ cnt + delta prev) :
    validateStep cnt (prev, none) = .ok (cnt + delta prev) := by
  rw [validateStep_eq]
  rw [phOf_eq] at hph
  rw [delta_eq] at hd ⊢
  revert hph hd
  simp only [Option.map_none]
  generalize prev.map Tok.base = pb
  intro hph hd
  rcases pb with _ | pb
  · simp_all [stepB, phB, deltaB]
  · cases pb <;> simp_all [stepB, phB, deltaB] <;>
      (rw [if_neg (by omega)]; rfl)

theorem step_inv {prev : Option (Tok α)} {t : Tok α} {cnt c : Int}
    (h : validateStep cnt (prev, some t) = .ok c) :
    c = cnt + delta prev ∧ Adj (phOf prev) t.base ∧ (0 ≤ cnt → 0 ≤ c) := by
  rw [validateStep_eq] at h
  rw [phOf_eq, delta_eq]
  revert h
  simp only [Option.map_some]
  generalize t.base = tb
  generalize prev.map Tok.base = pb
  intro h
  rcases pb with _ | pb
  · cases tb <;> simp_all [stepB, Adj, phB, deltaB]
  · cases pb <;> cases tb <;> simp_all [stepB, Adj, phB, deltaB] <;>
      (try split at h) <;> (try simp_all) <;> omega

theorem end_inv {prev : Option (Tok α)} {cnt c : Int}
    (h : validateStep cnt (prev, none) = .ok c) :
    c = cnt + delta prev ∧ phOf prev ≠ .afterOp ∧ (0 ≤ cnt → 0 ≤ c) := by
  rw [validateStep_eq] at h
  rw [phOf_eq, delta_eq]
  revert h
  simp only [Option.map_none]
  generalize prev.map Tok.base = pb
  intro h
  rcases pb with _ | pb
  · simp_all [stepB, phB, deltaB]
  · cases pb <;> simp_all [stepB, phB, deltaB] <;>
      (try split at h) <;> (try simp_all) <;> omega

theorem stepB_error {cnt : Int} {pb cb : Option Base} {e : Exn} (h : stepB cnt pb cb = .error e) :
    e = .lib .invalidRegexError := by
  unfold stepB at h
  repeat' split at h
  all_goals first | (cases h; rfl) | cases h

theorem validateStep_error {cnt : Int} {pc : Option (Tok α) × Option (Tok α)} {e : Exn}
    (h : validateStep cnt pc = .error e) : e = .lib .invalidRegexError := by
  rcases pc with ⟨p, c⟩
  rw [validateStep_eq] at h
  exact stepB_error h

theorem scan_error (ts : List (Tok α)) : ∀ {prev : Option (Tok α)} {cnt : Int} {e : Exn},
    scan prev cnt ts = .error e → e = .lib .invalidRegexError := by
  induction ts with
  | nil => intro prev cnt e h; exact validateStep_error h
  | cons t ts ih =>
      intro prev cnt e h
      simp only [scan] at h
      cases hs : validateStep cnt (prev, some t) with
      | error e' =>
          rw [hs] at h
          cases h
          exact validateStep_error hs
      | ok c =>
          rw [hs] at h
          exact ih h

/-- An invalid sequence is reported with `InvalidRegexError`, never anything else. -/
theorem validate_error_kind (ts : List (Tok α)) :
    validateTokens ts = .ok () ∨ validateTokens ts = .error (.lib .invalidRegexError) := by
  rw [validateTokens_eq_scan]
  cases hs : scan none 0 ts with
  | error e => right; rw [scan_error ts hs]
  | ok c =>
      by_cases hc : c = 0
      · left; simp [hc]
      · right; simp [hc]

/-- `validateTokens` accepts iff the scan ends with counter `0`. -/
theorem validateTokens_ok_iff (ts : List (Tok α)) :
    validateTokens ts = .ok () ↔ scan none 0 ts = .ok 0 := by
  rw [validateTokens_eq_scan]
  cases hs : scan none 0 ts with
  | error e => simp
  | ok c =>
      by_cases hc : c = 0
      · simp [hc]
      · simp [hc]

/-! ### grammar ⇒ accepted -/

theorem Adj_literal (ph : Ph) : Adj ph .literal := by cases ph <;> simp [Adj]
theorem Adj_lparen (ph : Ph) : Adj ph .lparen := by cases ph <;> simp [Adj]

theorem delta_none : delta (none : Option (Tok α)) = 0 := rfl
theorem delta_lparen : delta (some (.lparen : Tok α)) = 1 := by simp [delta]
theorem delta_rparen : delta (some (.rparen : Tok α)) = -1 := by simp [delta]
theorem delta_union : delta (some (.union : Tok α)) = 0 := by simp [delta]
theorem delta_inter : delta (some (.inter : Tok α)) = 0 := by simp [delta]
theorem delta_shuffle : delta (some (.shuffle : Tok α)) = 0 := by simp [delta]
theorem delta_star : delta (some (.star : Tok α)) = 0 := by simp [delta]
theorem delta_plus : delta (some (.plus : Tok α)) = 0 := by simp [delta]
theorem delta_opt : delta (some (.opt : Tok α)) = 0 := by simp [delta]
theorem delta_quant (lo : Nat) (hi : Option Nat) : delta (some (.quant lo hi : Tok α)) = 0 := by
  simp [delta]
theorem delta_str (s : List α) : delta (some (.str s : Tok α)) = 0 := by simp [delta]
theorem delta_wildcard : delta (some (.wildcard : Tok α)) = 0 := by simp [delta]

/-- rewrite `delta` of a concrete token -/
local macro "delta_simp" : tactic =>
  `(tactic| simp only [delta_none, delta_lparen, delta_rparen, delta_union, delta_inter,
      delta_shuffle, delta_star, delta_plus, delta_opt, delta_quant, delta_str, delta_wildcard,
      Int.add_zero, Int.sub_zero, Int.zero_add] at *)

theorem scan_cons_ok {prev : Option (Tok α)} {t : Tok α} {cnt : Int} (ts : List (Tok α))
    (hadj : Adj (phOf prev) t.base) (hd : 0 ≤ cnt + delta prev) :
    scan prev cnt (t :: ts) = scan (some t) (cnt + delta prev) ts := by
  simp only [scan, step_ok hadj hd]

/-- A phrase is scanned without error after any previous token, leaves the depth unchanged, and
ends in a token after which anything may follow. -/
theorem scan_phrase {l : Lvl} {e : Rx α} {ts : List (Tok α)} (h : G l e ts) :
    ∃ lt : Tok α, phOf (some lt) = .done ∧
      ∀ (prev : Option (Tok α)) (cnt : Int) (rest : List (Tok α)), 0 ≤ cnt + delta prev →
        scan prev cnt (ts ++ rest) = scan (some lt) (cnt + delta prev - delta (some lt)) rest := by
  induction h with
  | lit a =>
      refine ⟨.str [a], by simp [phOf], ?_⟩
      intro prev cnt rest hd
      simp only [List.cons_append, List.nil_append]
      rw [scan_cons_ok _ (by simpa using Adj_literal _) hd]
      simp [delta]
  | wild =>
      refine ⟨.wildcard, by simp [phOf], ?_⟩
      intro prev cnt rest hd
      simp only [List.cons_append, List.nil_append]
      rw [scan_cons_ok _ (by simpa using Adj_literal _) hd]
      simp [delta]
  | eps =>
      refine ⟨.rparen, by simp [phOf], ?_⟩
      intro prev cnt rest hd
      simp only [List.cons_append, List.nil_append]
      rw [scan_cons_ok _ (by simpa using Adj_lparen _) hd]
      rw [scan_cons_ok _ (by simp [phOf, Adj]) (by delta_simp; omega)]
      congr 1 <;> delta_simp <;> omega
  | paren _ ih =>
      obtain ⟨lt, hlt, H⟩ := ih
      refine ⟨.rparen, by simp [phOf], ?_⟩
      intro prev cnt rest hd
      simp only [List.cons_append, List.nil_append, List.append_assoc]
      rw [scan_cons_ok _ (by simpa using Adj_lparen _) hd]
      rw [H _ _ _ (by delta_simp; omega)]
      rw [scan_cons_ok _ (by rw [hlt]; trivial) (by delta_simp; omega)]
      congr 1 <;> delta_simp <;> omega
  | atom _ ih => exact ih
  | factor _ ih => exact ih
  | term _ ih => exact ih
  | star _ ih =>
      obtain ⟨lt, hlt, H⟩ := ih
      refine ⟨.star, by simp [phOf], ?_⟩
      intro prev cnt rest hd
      simp only [List.cons_append, List.nil_append, List.append_assoc]
      rw [H _ _ _ hd, scan_cons_ok _ (by rw [hlt]; trivial) (by omega)]
      congr 1 <;> delta_simp <;> omega
  | plus _ ih =>
      obtain ⟨lt, hlt, H⟩ := ih
      refine ⟨.plus, by simp [phOf], ?_⟩
      intro prev cnt rest hd
      simp only [List.cons_append, List.nil_append, List.append_assoc]
      rw [H _ _ _ hd, scan_cons_ok _ (by rw [hlt]; trivial) (by omega)]
      congr 1 <;> delta_simp <;> omega
  | opt _ ih =>
      obtain ⟨lt, hlt, H⟩ := ih
      refine ⟨.opt, by simp [phOf], ?_⟩
      intro prev cnt rest hd
      simp only [List.cons_append, List.nil_append, List.append_assoc]
      rw [H _ _ _ hd, scan_cons_ok _ (by rw [hlt]; trivial) (by omega)]
      congr 1 <;> delta_simp <;> omega
  | quant lo hi _ ih =>
      obtain ⟨lt, hlt, H⟩ := ih
      refine ⟨.quant lo hi, by simp [phOf], ?_⟩
      intro prev cnt rest hd
      simp only [List.cons_append, List.nil_append, List.append_assoc]
      rw [H _ _ _ hd, scan_cons_ok _ (by rw [hlt]; trivial) (by omega)]
      congr 1 <;> delta_simp <;> omega
  | cat _ _ ih1 ih2 =>
      obtain ⟨lt1, hlt1, H1⟩ := ih1
      obtain ⟨lt2, hlt2, H2⟩ := ih2
      refine ⟨lt2, hlt2, ?_⟩
      intro prev cnt rest hd
      simp only [List.append_assoc]
      rw [H1 _ _ _ hd, H2 _ _ _ (by omega)]
      congr 1
      omega
  | union _ _ ih1 ih2 =>
      obtain ⟨lt1, hlt1, H1⟩ := ih1
      obtain ⟨lt2, hlt2, H2⟩ := ih2
      refine ⟨lt2, hlt2, ?_⟩
      intro prev cnt rest hd
      simp only [List.cons_append, List.nil_append, List.append_assoc]
      rw [H1 _ _ _ hd, scan_cons_ok _ (by rw [hlt1]; trivial) (by omega),
        H2 _ _ _ (by delta_simp; omega)]
      congr 1 <;> delta_simp <;> omega
  | inter _ _ ih1 ih2 =>
      obtain ⟨lt1, hlt1, H1⟩ := ih1
      obtain ⟨lt2, hlt2, H2⟩ := ih2
      refine ⟨lt2, hlt2, ?_⟩
      intro prev cnt rest hd
      simp only [List.cons_append, List.nil_append, List.append_assoc]
      rw [H1 _ _ _ hd, scan_cons_ok _ (by rw [hlt1]; trivial) (by omega),
        H2 _ _ _ (by delta_simp; omega)]
      congr 1 <;> delta_simp <;> omega
  | shuffle _ _ ih1 ih2 =>
      obtain ⟨lt1, hlt1, H1⟩ := ih1
      obtain ⟨lt2, hlt2, H2⟩ := ih2
      refine ⟨lt2, hlt2, ?_⟩
      intro prev cnt rest hd
      simp only [List.cons_append, List.nil_append, List.append_assoc]
      rw [H1 _ _ _ hd, scan_cons_ok _ (by rw [hlt1]; trivial) (by omega),
        H2 _ _ _ (by delta_simp; omega)]
      congr 1 <;> delta_simp <;> omega

theorem validate_of_grammar {l : Lvl} {e : Rx α} {ts : List (Tok α)} (h : G l e ts) :
    validateTokens ts = .ok () := by
  rw [validateTokens_ok_iff]
  obtain ⟨lt, hlt, H⟩ := scan_phrase h
  have := H none 0 [] (by delta_simp; try omega)
  rw [List.append_nil] at this
  rw [this]
  simp only [scan]
  rw [end_ok (by rw [hlt]; decide) (by delta_simp; try omega)]
  congr 1 <;> delta_simp <;> omega

/-! ### accepted ⇒ grammar: the open groups of a scanned prefix -/

/-- The innermost open group reads `E op`: a binary operator awaits its right operand. -/
inductive FrOp : List (Tok α) → Prop
  | mk {e : Rx α} {ts : List (Tok α)} {t : Tok α} :
      G .E e ts → (t = .union ∨ t = .inter ∨ t = .shuffle) → FrOp (ts ++ [t])

/-- `[E op]`: a term may start here. -/
def Fr0 (ts : List (Tok α)) : Prop := ts = [] ∨ FrOp ts

/-- `[E op] [T]`: a factor may start here. -/
def Fr1 (ts : List (Tok α)) : Prop :=
  ∃ pre T, ts = pre ++ T ∧ Fr0 pre ∧ (T = [] ∨ ∃ e, G .T e T)

/-- `[E op] [T] F`: a complete factor was just read. -/
def Fr2 (ts : List (Tok α)) : Prop :=
  ∃ mid F f, ts = mid ++ F ∧ Fr1 mid ∧ G .F f F

/-- The shape of the innermost open group in each phase. -/
def Fr : Ph → List (Tok α) → Prop
  | .start, ts => ts = []
  | .afterOp, ts => FrOp ts
  | .done, ts => Fr2 ts

theorem Fr0.toE {pre T : List (Tok α)} {f : Rx α} (h : Fr0 pre) (hT : G .T f T) :
    ∃ e, G .E e (pre ++ T) := by
  rcases h with rfl | h
  · exact ⟨_, .term hT⟩
  · cases h with
    | mk hE hop =>
        rcases hop with rfl | rfl | rfl
        · exact ⟨_, .union hE hT⟩
        · exact ⟨_, .inter hE hT⟩
        · exact ⟨_, .shuffle hE hT⟩

theorem Fr1.addF {mid F : List (Tok α)} {f : Rx α} (h : Fr1 mid) (hF : G .F f F) :
    ∃ pre T e, mid ++ F = pre ++ T ∧ Fr0 pre ∧ G .T e T := by
  obtain ⟨pre, T, rfl, hpre, hT⟩ := h
  rcases hT with rfl | ⟨e, hT⟩
  · exact ⟨pre, F, _, by simp, hpre, .factor hF⟩
  · exact ⟨pre, T ++ F, _, by simp, hpre, .cat hT hF⟩

theorem Fr2.toE {ts : List (Tok α)} (h : Fr2 ts) : ∃ e, G .E e ts := by
  obtain ⟨mid, F, f, rfl, hmid, hF⟩ := h
  obtain ⟨pre, T, e, heq, hpre, hT⟩ := hmid.addF hF
  rw [heq]
  exact hpre.toE hT

theorem Fr2.toFr1 {ts : List (Tok α)} (h : Fr2 ts) : Fr1 ts := by
  obtain ⟨mid, F, f, rfl, hmid, hF⟩ := h
  obtain ⟨pre, T, e, heq, hpre, hT⟩ := hmid.addF hF
  exact ⟨pre, T, heq, hpre, .inr ⟨e, hT⟩⟩

theorem Fr.toFr1 {ph : Ph} {ts : List (Tok α)} (h : Fr ph ts) : Fr1 ts := by
  cases ph with
  | start => exact ⟨[], [], by simpa [Fr] using h, .inl rfl, .inl rfl⟩
  | afterOp => exact ⟨ts, [], by simp, .inr h, .inl rfl⟩
  | done => exact Fr2.toFr1 h

theorem Fr1.addA {ts A : List (Tok α)} {a : Rx α} (h : Fr1 ts) (hA : G .A a A) : Fr2 (ts ++ A) :=
  ⟨ts, A, a, rfl, h, .atom hA⟩

theorem Fr2.addPost {ts : List (Tok α)} {t : Tok α} (h : Fr2 ts) (ht : t.base = .postfixOp) :
    Fr2 (ts ++ [t]) := by
  obtain ⟨mid, F, f, rfl, hmid, hF⟩ := h
  cases t <;> simp at ht
  · exact ⟨mid, _, _, by simp, hmid, .star hF⟩
  · exact ⟨mid, _, _, by simp, hmid, .plus hF⟩
  · exact ⟨mid, _, _, by simp, hmid, .opt hF⟩
  · exact ⟨mid, _, _, (List.append_assoc _ _ _), hmid, .quant _ _ hF⟩

theorem Fr2.addBin {ts : List (Tok α)} {t : Tok α} (h : Fr2 ts) (ht : t.base = .infixOp)
    (hl : LexTok t) : FrOp (ts ++ [t]) := by
  obtain ⟨e, hE⟩ := h.toE
  cases t <;> simp at ht
  · exact .mk hE (.inl rfl)
  · exact .mk hE (.inr (.inl rfl))
  · exact .mk hE (.inr (.inr rfl))
  · exact hl.elim

/-- `Pref d ph ts`: the prefix `ts` has `d` unclosed parentheses; every open group is a frame,
the innermost one in phase `ph`. -/
inductive Pref : Nat → Ph → List (Tok α) → Prop
  | base {ph : Ph} {ts : List (Tok α)} : Fr ph ts → Pref 0 ph ts
  | push {d : Nat} {ph ph' : Ph} {ts us : List (Tok α)} :
      Pref d ph ts → Fr ph' us → Pref (d + 1) ph' (ts ++ .lparen :: us)

theorem Pref.mapTop {d : Nat} {ph ph' : Ph} {ts vs : List (Tok α)} (h : Pref d ph ts)
    (hf : ∀ us, Fr ph us → Fr ph' (us ++ vs)) : Pref d ph' (ts ++ vs) := by
  cases h with
  | base hfr => exact .base (hf _ hfr)
  | push hp hfr =>
      rw [List.append_assoc, List.cons_append]
      exact .push hp (hf _ hfr)

theorem Pref.addA {d : Nat} {ph : Ph} {ts A : List (Tok α)} {a : Rx α} (h : Pref d ph ts)
    (hA : G .A a A) : Pref d .done (ts ++ A) :=
  h.mapTop fun _ hfr => (Fr.toFr1 hfr).addA hA

theorem Pref.addL {d : Nat} {ph : Ph} {ts : List (Tok α)} (h : Pref d ph ts) :
    Pref (d + 1) .start (ts ++ [.lparen]) :=
  .push h rfl

theorem Pref.addR {d : Nat} {ph : Ph} {ts : List (Tok α)} (h : Pref (d + 1) ph ts)
    (hph : ph ≠ .afterOp) : Pref d .done (ts ++ [.rparen]) := by
  cases h with
  | push hp hfr =>
      rename_i ph0 ts' us
      cases ph with
      | afterOp => exact absurd rfl hph
      | start =>
          have : us = [] := hfr
          subst this
          have := hp.addA (G.eps (α := α))
          simpa using this
      | done =>
          obtain ⟨e, hE⟩ := Fr2.toE hfr
          have := hp.addA (G.paren hE)
          simpa using this

/-- Reading one more token that the validator lets through keeps the prefix well-formed. -/
theorem Pref.step {d : Nat} {ph : Ph} {pre : List (Tok α)} {t : Tok α}
    (h : Pref d ph pre) (hl : LexTok t) (hadj : Adj ph t.base) (hr : t.base = .rparen → 1 ≤ d) :
    ∃ d' : Nat, (d' : Int) = d + delta (some t) ∧ Pref d' (phOf (some t)) (pre ++ [t]) := by
  cases t with
  | lparen => exact ⟨d + 1, by delta_simp; omega, by simpa [phOf] using h.addL⟩
  | rparen =>
      have hd := hr (by simp)
      obtain ⟨d0, rfl⟩ : ∃ d0, d = d0 + 1 := ⟨d - 1, by omega⟩
      have hph : ph ≠ .afterOp := by
        rintro rfl
        simp [Adj] at hadj
      exact ⟨d0, by delta_simp; omega, by simpa [phOf] using h.addR hph⟩
  | union =>
      cases ph <;> simp [Adj] at hadj
      exact ⟨d, by delta_simp, by
        simpa [phOf] using h.mapTop (ph' := .afterOp) fun _ hfr => Fr2.addBin hfr (by simp) hl⟩
  | inter =>
      cases ph <;> simp [Adj] at hadj
      exact ⟨d, by delta_simp, by
        simpa [phOf] using h.mapTop (ph' := .afterOp) fun _ hfr => Fr2.addBin hfr (by simp) hl⟩
  | shuffle =>
      cases ph <;> simp [Adj] at hadj
      exact ⟨d, by delta_simp, by
        simpa [phOf] using h.mapTop (ph' := .afterOp) fun _ hfr => Fr2.addBin hfr (by simp) hl⟩
  | concat => exact hl.elim
  | star =>
      cases ph <;> simp [Adj] at hadj
      exact ⟨d, by delta_simp, by
        simpa [phOf] using h.mapTop (ph' := .done) fun _ hfr => Fr2.addPost hfr (by simp)⟩
  | plus =>
      cases ph <;> simp [Adj] at hadj
      exact ⟨d, by delta_simp, by
        simpa [phOf] using h.mapTop (ph' := .done) fun _ hfr => Fr2.addPost hfr (by simp)⟩
  | opt =>
      cases ph <;> simp [Adj] at hadj
      exact ⟨d, by delta_simp, by
        simpa [phOf] using h.mapTop (ph' := .done) fun _ hfr => Fr2.addPost hfr (by simp)⟩
  | quant lo hi =>
      cases ph <;> simp [Adj] at hadj
      exact ⟨d, by delta_simp, by
        simpa [phOf] using h.mapTop (ph' := .done) fun _ hfr => Fr2.addPost hfr (by simp)⟩
  | str s =>
      obtain ⟨a, rfl⟩ := hl
      exact ⟨d, by delta_simp, by simpa [phOf] using h.addA (G.lit a)⟩
  | wildcard => exact ⟨d, by delta_simp, by simpa [phOf] using h.addA G.wild⟩

theorem phOf_start {prev : Option (Tok α)} (h : phOf prev = .start) :
    prev = none ∨ delta prev = 1 := by
  cases prev with
  | none => exact .inl rfl
  | some p =>
      right
      revert h
      simp only [phOf, delta]
      cases p.base <;> simp

/-- After a `)` the scan only goes on if the counter is positive. -/
theorem scan_rparen_pos {t : Tok α} {c r : Int} {ts : List (Tok α)} (ht : t.base = .rparen)
    (hc : 0 ≤ c) (h : scan (some t) c ts = .ok r) : 1 ≤ c := by
  have hdl : delta (some t) = -1 := by simp [delta, ht]
  cases ts with
  | nil =>
      obtain ⟨h1, -, h3⟩ := end_inv h
      have := h3 hc
      omega
  | cons u us =>
      simp only [scan] at h
      cases hs : validateStep c (some t, some u) with
      | error e => rw [hs] at h; cases h
      | ok c' =>
          obtain ⟨h1, -, h3⟩ := step_inv hs
          have := h3 hc
          omega

/-- The simulation: a successful scan of `ts` from a well-formed prefix `pre` shows that
`pre ++ ts` is in the grammar. -/
theorem scan_sound (ts : List (Tok α)) :
    ∀ (pre : List (Tok α)) (prev : Option (Tok α)) (cnt : Int) (d : Nat),
      Pref d (phOf prev) pre → (d : Int) = cnt + delta prev → 0 ≤ cnt → (∀ t ∈ ts, LexTok t) →
      scan prev cnt ts = .ok 0 → (prev = none ∧ ts = []) ∨ InGrammar (pre ++ ts) := by
  induction ts with
  | nil =>
      intro pre prev cnt d hp hd hc _ hs
      obtain ⟨h1, h2, -⟩ := end_inv hs
      have hd0 : d = 0 := by omega
      subst hd0
      cases hph : phOf prev with
      | afterOp => exact absurd hph h2
      | start =>
          rcases phOf_start hph with rfl | hdl
          · exact .inl ⟨rfl, rfl⟩
          · omega
      | done =>
          rw [hph] at hp
          cases hp with
          | base hfr =>
              right
              rw [List.append_nil]
              exact Fr2.toE hfr
  | cons t ts ih =>
      intro pre prev cnt d hp hd hc hl hs
      simp only [scan] at hs
      cases hv : validateStep cnt (prev, some t) with
      | error e => rw [hv] at hs; cases hs
      | ok c =>
          rw [hv] at hs
          obtain ⟨h1, hadj, h3⟩ := step_inv hv
          have hc' : 0 ≤ c := h3 hc
          have hr : t.base = .rparen → 1 ≤ d := by
            intro ht
            have := scan_rparen_pos ht hc' hs
            omega
          obtain ⟨d', hd', hp'⟩ := hp.step (hl t (by simp)) hadj hr
          rcases ih (pre ++ [t]) (some t) c d' hp' (by omega) hc'
              (fun u hu => hl u (by simp [hu])) hs with ⟨h, -⟩ | h
          · cases h
          · right
            simpa using h

theorem grammar_of_validate {ts : List (Tok α)} (hl : ∀ t ∈ ts, LexTok t) (hne : ts ≠ [])
    (hv : validateTokens ts = .ok ()) : InGrammar ts := by
  rw [validateTokens_ok_iff] at hv
  rcases scan_sound ts [] none 0 0 (.base rfl) (by delta_simp; rfl) (Int.le_refl 0) hl hv
    with ⟨-, h⟩ | h
  · exact absurd h hne
  · simpa using h

/-- No phrase is empty (so the two alternatives of `validate_iff_grammar` are exclusive). -/
theorem G.ne_nil {l : Lvl} {e : Rx α} {ts : List (Tok α)} (h : G l e ts) : ts ≠ [] := by
  induction h <;> simp_all

theorem validate_iff_grammar {ts : List (Tok α)} (hl : ∀ t ∈ ts, LexTok t) :
    validateTokens ts = .ok () ↔ ts = [] ∨ InGrammar ts := by
  constructor
  · intro hv
    by_cases hne : ts = []
    · exact .inl hne
    · exact .inr (grammar_of_validate hl hne hv)
  · rintro (rfl | ⟨e, he⟩)
    · rfl
    · exact validate_of_grammar he

end AV.Rx
