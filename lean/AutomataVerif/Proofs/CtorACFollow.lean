/-
Proofs/CtorACFollow.lean — from_substrings (C15), phase 2a: failure links as strings, the
`while st is not None and symbol not in st.successors: st = st.fail` loop.  Core only.
-/
import AutomataVerif.Proofs.CtorACTrie
import AutomataVerif.Proofs.CtorKMPSpec

namespace AV.Ctor.AC

set_option linter.unusedSectionVars false
set_option linter.unusedVariables false
set_option linter.unusedSimpArgs false

variable {α : Type} [DecidableEq α]

/-! ### strings of the trie -/

section strings
variable {nodes : List (ACNode α)} {paths : List (List α)}

theorem Trie.mem_iff (h : Trie nodes paths) (x : List α) : x ∈ paths ↔ ∃ i : Nat, paths[i]? = some x :=
  List.mem_iff_getElem?

/-- The set of strings of a trie is prefix-closed. -/
theorem Trie.prefix_mem (h : Trie nodes paths) {x y : List α} (hy : y ∈ paths) (hxy : x <+: y) :
    x ∈ paths := by
  obtain ⟨t, rfl⟩ := hxy
  induction t using KMP.snoc_induction generalizing x with
  | h0 => simpa using hy
  | hs t a ih =>
    apply ih
    rw [← List.append_assoc] at hy
    obtain ⟨j, hj⟩ := (h.mem_iff _).mp hy
    obtain ⟨i, hi⟩ := h.pclosed j _ a hj
    exact (h.mem_iff _).mpr ⟨i, hi⟩

theorem Trie.child_mem (h : Trie nodes paths) {i : Nat} {x : List α} (hi : paths[i]? = some x) (a : α) :
    ahas a (acGet nodes i).succ = true ↔ x ++ [a] ∈ paths := by
  unfold ahas
  rw [h.mem_iff]
  constructor
  · intro hs
    cases hl : alookup a (acGet nodes i).succ with
    | none => rw [hl] at hs; cases hs
    | some j => exact ⟨j, (h.child i x a j hi).mp hl⟩
  · rintro ⟨j, hj⟩
    rw [(h.child i x a j hi).mpr hj]; rfl

/-- The depth of a node is smaller than the number of nodes. -/
theorem Trie.depth_lt (h : Trie nodes paths) {v : Nat} {x : List α} (hv : paths[v]? = some x) :
    x.length < nodes.length := by
  have hx : x ∈ paths := (h.mem_iff x).mpr ⟨v, hv⟩
  let L : List (List α) := (List.range (x.length + 1)).map fun k => x.take k
  have hsub : ∀ y ∈ L, y ∈ paths := by
    intro y hy
    obtain ⟨k, _, rfl⟩ := List.mem_map.mp hy
    exact h.prefix_mem hx (List.take_prefix _ _)
  have hnd : L.Nodup := by
    unfold List.Nodup
    rw [List.pairwise_map]
    apply List.Pairwise.imp_of_mem _ (List.nodup_range (n := x.length + 1))
    intro i j hi hj hne e
    have := congrArg List.length e
    rw [List.length_take, List.length_take] at this
    have h1 := List.mem_range.mp hi
    have h2 := List.mem_range.mp hj
    omega
  have := List.Nodup.length_le_of_subset hnd hsub
  rw [h.len] at this
  have e : L.length = x.length + 1 := by simp [L]
  omega

end strings

/-! ### failure links as strings -/

/-- `y` is the longest proper suffix of `x` that is a string of the trie. -/
def IsFail (paths : List (List α)) (x y : List α) : Prop :=
  y <:+ x ∧ y ≠ x ∧ y ∈ paths ∧ ∀ z, z <:+ x → z ≠ x → z ∈ paths → z.length ≤ y.length

theorem IsFail.chain {paths : List (List α)} {x y z : List α} (h : IsFail paths x y)
    (hz : z <:+ x) (hne : z ≠ x) (hm : z ∈ paths) : z <:+ y :=
  List.suffix_of_suffix_length_le hz h.1 (h.2.2.2 z hz hne hm)

theorem IsFail.length_lt {paths : List (List α)} {x y : List α} (h : IsFail paths x y) :
    y.length < x.length := by
  have h1 := h.1.length_le
  have : y.length ≠ x.length := by
    intro e; exact h.2.1 (h.1.eq_of_length e)
  omega

/-- The failure link stored in a node record is right for a node spelling `x ≠ []`:
`None` stands for the root. -/
def FailOK (paths : List (List α)) (node : ACNode α) (x : List α) : Prop :=
  match node.fail with
  | none => IsFail paths x []
  | some u => ∃ y, y ≠ [] ∧ paths[u]? = some y ∧ IsFail paths x y

/-- Outcome of looking up `a` below the node where the failure-chain walk from a node spelling
`y0` stopped (root if it fell off the chain): the child spelling `z ++ [a]` for the longest
suffix `z` of `y0` such that `z ++ [a]` is in the trie, `None` if there is no such suffix. -/
def Target (paths : List (List α)) (y0 : List α) (a : α) (fl : Option Nat) : Prop :=
  (∃ c z, fl = some c ∧ paths[c]? = some (z ++ [a]) ∧ z <:+ y0 ∧
      ∀ z', z' <:+ y0 → z' ++ [a] ∈ paths → z'.length ≤ z.length) ∨
  (fl = none ∧ ∀ z', z' <:+ y0 → z' ++ [a] ∉ paths)

section follow
variable {nodes : List (ACNode α)} {paths : List (List α)} (h : Trie nodes paths)
include h

/-- The walk along the failure chain, followed by the lookup of `a`. -/
theorem acFollow_spec (a : α) (hroot : (acGet nodes 0).fail = none) :
    ∀ (n : Nat) (y0 : List α) (st : Option Nat), y0.length ≤ n →
      (match st with
        | none => y0 = []
        | some s => paths[s]? = some y0) →
      (∀ v x, paths[v]? = some x → x ≠ [] → x.length ≤ y0.length → FailOK paths (acGet nodes v) x) →
      ∀ fuel, n + 2 ≤ fuel →
      ∃ r, acFollow nodes a fuel st = .ok r ∧
        Target paths y0 a (alookup a (acGet nodes (r.getD 0)).succ) := by
  intro n
  induction n with
  | zero =>
    intro y0 st hlen hst hchain fuel hfuel
    have hy0 : y0 = [] := List.eq_nil_of_length_eq_zero (by omega)
    subst hy0
    obtain ⟨f, rfl⟩ : ∃ f, fuel = f + 1 := ⟨fuel - 1, by omega⟩
    obtain ⟨f', rfl⟩ : ∃ f', f = f' + 1 := ⟨f - 1, by omega⟩
    -- everything happens at the root
    have hroot_target : Target paths [] a (alookup a (acGet nodes 0).succ) := by
      cases hl : alookup a (acGet nodes 0).succ with
      | some c =>
        left
        refine ⟨c, [], rfl, (h.child 0 [] a c h.root).mp hl, List.suffix_refl _, ?_⟩
        intro z' hz' _
        rw [List.suffix_nil.mp hz']; simp
      | none =>
        right
        refine ⟨rfl, ?_⟩
        intro z' hz' hm
        rw [List.suffix_nil.mp hz'] at hm
        have := (h.child_mem h.root a).mpr hm
        unfold ahas at this
        rw [hl] at this; cases this
    cases st with
    | none => exact ⟨none, by unfold acFollow; rfl, hroot_target⟩
    | some s =>
      have hs0 : s = 0 := h.inj s 0 [] hst h.root
      subst hs0
      unfold acFollow
      by_cases hh : ahas a (acGet nodes 0).succ = true
      · simp only [hh, if_true]
        exact ⟨some 0, rfl, hroot_target⟩
      · simp only [hh]
        rw [hroot]
        exact ⟨none, by unfold acFollow; rfl, hroot_target⟩
  | succ n ih =>
    intro y0 st hlen hst hchain fuel hfuel
    by_cases hy0 : y0 = []
    · subst hy0
      exact ih [] st (by simp) hst hchain fuel (by omega)
    · obtain ⟨f, rfl⟩ : ∃ f, fuel = f + 1 := ⟨fuel - 1, by omega⟩
      cases st with
      | none => exact absurd hst hy0
      | some s =>
        simp only at hst
        unfold acFollow
        by_cases hh : ahas a (acGet nodes s).succ = true
        · -- the node itself has an `a`-successor
          simp only [hh, if_true]
          refine ⟨some s, rfl, ?_⟩
          simp only [Option.getD_some]
          cases hl : alookup a (acGet nodes s).succ with
          | none => unfold ahas at hh; rw [hl] at hh; cases hh
          | some c =>
            left
            refine ⟨c, y0, rfl, (h.child s y0 a c hst).mp hl, List.suffix_refl _, ?_⟩
            intro z' hz' _
            exact hz'.length_le
        · simp only [hh]
          have hnot : y0 ++ [a] ∉ paths := fun hm => hh ((h.child_mem hst a).mpr hm)
          have hfo := hchain s y0 hst hy0 (Nat.le_refl _)
          unfold FailOK at hfo
          -- suffixes of y0 that extend by `a` are suffixes of the failure string
          have hdown : ∀ y, IsFail paths y0 y → ∀ z', z' <:+ y0 → z' ++ [a] ∈ paths → z' <:+ y := by
            intro y hf z' hz' hm
            have hne : z' ≠ y0 := by intro e; rw [e] at hm; exact hnot hm
            exact hf.chain hz' hne (h.prefix_mem hm (List.prefix_append _ _))
          cases hfl : (acGet nodes s).fail with
          | none =>
            rw [hfl] at hfo
            simp only at hfo
            obtain ⟨r, hr, ht⟩ := ih [] none (by simp) rfl
              (fun v x hv hx hl => by simp at hl; exact absurd hl hx)
              f (by omega)
            refine ⟨r, hr, ?_⟩
            rcases ht with ⟨c, z, e1, e2, e3, e4⟩ | ⟨e1, e2⟩
            · left
              refine ⟨c, z, e1, e2, e3.trans hfo.1, ?_⟩
              intro z' hz' hm
              exact e4 z' (hdown [] hfo z' hz' hm) hm
            · right
              exact ⟨e1, fun z' hz' hm => e2 z' (hdown [] hfo z' hz' hm) hm⟩
          | some u =>
            rw [hfl] at hfo
            simp only at hfo
            obtain ⟨y, hyne, hu, hf⟩ := hfo
            have hylt := hf.length_lt
            obtain ⟨r, hr, ht⟩ := ih y (some u) (by omega) hu
              (fun v x hv hx hl => hchain v x hv hx (by omega)) f (by omega)
            refine ⟨r, hr, ?_⟩
            rcases ht with ⟨c, z, e1, e2, e3, e4⟩ | ⟨e1, e2⟩
            · left
              refine ⟨c, z, e1, e2, e3.trans hf.1, ?_⟩
              intro z' hz' hm
              exact e4 z' (hdown y hf z' hz' hm) hm
            · right
              exact ⟨e1, fun z' hz' hm => e2 z' (hdown y hf z' hz' hm) hm⟩

end follow

end AV.Ctor.AC
