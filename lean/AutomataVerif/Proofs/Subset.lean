/-
Proofs/Subset.lean — the subset construction `DFA.from_nfa` (model `NFA.toDFA`) and the
embedding `NFA.from_dfa` (model `NFA.ofDFA`): helper lemmas for Props/C07.lean (core only).

* generic association-list facts (`alookup` through `map`/`filter`/`ainsert`);
* `powerset`: the finite universe of the subset construction, of length `2 ^ |states|`;
* `canon`, `nextStates`, `runFrom`, `anyFinal` depend on the *members* of their arguments only;
* `subsetSucc_lookup`: a row of the implicit subset automaton maps `a` to the canonical
  name of `nextStates S a`, and has no entry exactly when that set is empty;
* `subset_run`: the implicit run of the subset automaton tracks the NFA run;
* `expand_wf`: the DFA built by `_expand_dfa` validates;
* `ofDFA_*`: runs of the embedded DFA are singleton/empty images of the DFA run.

Everything lives in the namespace `AV.C07` so that helper names cannot clash with the
lemma files of other properties.
-/
import AutomataVerif.Proofs.Expand
import AutomataVerif.Proofs.PyShape
import AutomataVerif.Proofs.MinifySpec
import AutomataVerif.Model.Convert

namespace AV
namespace C07

set_option linter.unusedSectionVars false
set_option linter.unusedSimpArgs false

variable {σ α κ β γ : Type} [DecidableEq σ] [DecidableEq α] [DecidableEq κ] [DecidableEq β]

/-! ### association lists -/

theorem alookup_map_fn (f : κ → β) (l : List κ) (k : κ) :
    alookup k (l.map fun a => (a, f a)) = if k ∈ l then some (f k) else none := by
  induction l with
  | nil => simp
  | cons x t ih =>
    simp only [List.map_cons, alookup_cons, ih, List.mem_cons]
    by_cases hx : x = k
    · subst hx; simp
    · have : ¬ k = x := fun e => hx e.symm
      simp [hx, this]

theorem akeys_map_fn (f : κ → β) (l : List κ) : akeys (l.map fun a => (a, f a)) = l := by
  induction l with
  | nil => rfl
  | cons x t ih => simp only [akeys, List.map_cons] at ih ⊢; rw [ih]

/-- Mapping the values of a dict commutes with lookup. -/
theorem alookup_map_val (g : β → γ) (l : List (κ × β)) (k : κ) :
    alookup k (l.map fun kv => (kv.1, g kv.2)) = (alookup k l).map g := by
  induction l with
  | nil => rfl
  | cons x t ih =>
    obtain ⟨k', v⟩ := x
    simp only [List.map_cons, alookup_cons, ih]
    split <;> simp

theorem akeys_map_val (g : β → γ) (l : List (κ × β)) :
    akeys (l.map fun kv => (kv.1, g kv.2)) = akeys l := by
  induction l with
  | nil => rfl
  | cons x t ih => simp only [akeys, List.map_cons] at ih ⊢; rw [ih]

/-- Filtering a dict by a predicate on keys does not change the lookup of a kept key. -/
theorem alookup_filter_key (p : κ → Bool) (l : List (κ × β)) (k : κ) :
    alookup k (l.filter fun kv => p kv.1) = if p k then alookup k l else none := by
  induction l with
  | nil => simp
  | cons x t ih =>
    obtain ⟨k', v⟩ := x
    simp only [List.filter_cons]
    by_cases hk : k' = k
    · subst hk
      cases hp : p k' <;> simp [alookup_cons, ih, hp]
    · cases hp : p k' <;> simp [alookup_cons, ih, hp, hk]

theorem alookup_ainsert_self (k : κ) (v : β) (d : List (κ × β)) :
    alookup k (ainsert k v d) = some v := by
  induction d with
  | nil => simp [ainsert, alookup_cons]
  | cons x t ih =>
    obtain ⟨k', v'⟩ := x
    simp only [ainsert]
    by_cases hk : k' = k
    · simp [hk, alookup_cons]
    · simp [hk, alookup_cons, ih]

theorem alookup_ainsert_ne {k k' : κ} (h : k' ≠ k) (v : β) (d : List (κ × β)) :
    alookup k' (ainsert k v d) = alookup k' d := by
  induction d with
  | nil =>
    have : ¬ k = k' := fun e => h e.symm
    simp [ainsert, alookup_cons, this]
  | cons x t ih =>
    obtain ⟨k'', v'⟩ := x
    simp only [ainsert]
    by_cases hk : k'' = k
    · subst hk
      have : ¬ k'' = k' := fun e => h e.symm
      simp [alookup_cons, this]
    · simp only [hk, if_false, alookup_cons, ih]

theorem mem_ainsert {k : κ} {v : β} {d : List (κ × β)} {x : κ × β} (h : x ∈ ainsert k v d) :
    x = (k, v) ∨ x ∈ d := by
  induction d with
  | nil => simp [ainsert] at h; exact Or.inl h
  | cons y t ih =>
    obtain ⟨k', v'⟩ := y
    simp only [ainsert] at h
    by_cases hk : k' = k
    · simp only [hk, if_true, List.mem_cons] at h
      rcases h with h | h
      · exact Or.inl h
      · exact Or.inr (List.mem_cons_of_mem _ h)
    · simp only [hk, if_false, List.mem_cons] at h
      rcases h with h | h
      · exact Or.inr (by rw [h]; simp)
      · rcases ih h with h' | h'
        · exact Or.inl h'
        · exact Or.inr (List.mem_cons_of_mem _ h')

theorem akeys_ainsert_nodup {k : κ} {v : β} {d : List (κ × β)} (h : (akeys d).Nodup) :
    (akeys (ainsert k v d)).Nodup := by
  induction d with
  | nil => simp [ainsert, akeys]
  | cons y t ih =>
    obtain ⟨k', v'⟩ := y
    simp only [ainsert]
    by_cases hk : k' = k
    · subst hk; simpa [akeys] using h
    · simp only [hk, if_false]
      simp only [akeys, List.map_cons, List.nodup_cons] at h ih ⊢
      refine ⟨?_, ih h.2⟩
      intro hm
      obtain ⟨x, hx, hx1⟩ := List.mem_map.mp hm
      rcases mem_ainsert hx with h' | h'
      · rw [h'] at hx1; exact hk hx1.symm
      · exact h.1 (List.mem_map.mpr ⟨x, h', hx1⟩)

theorem akeys_sub_ainsert {k k' : κ} {v : β} {d : List (κ × β)} (h : k' ∈ akeys d) :
    k' ∈ akeys (ainsert k v d) := by
  rw [← alookup_isSome_iff] at h ⊢
  by_cases hk : k' = k
  · subst hk; rw [alookup_ainsert_self]; rfl
  · rw [alookup_ainsert_ne hk]; exact h

/-- With duplicate-free keys, membership of an entry is lookup. -/
theorem mem_iff_alookup {d : List (κ × β)} (hnd : (akeys d).Nodup) {k : κ} {v : β} :
    (k, v) ∈ d ↔ alookup k d = some v :=
  ⟨alookup_of_mem_nodup hnd, alookup_some_mem⟩

/-! ### the universe of the subset construction -/

/-- All sublists of `l` (every `l.filter p` is one of them). -/
def powerset : List σ → List (List σ)
  | [] => [[]]
  | x :: t => powerset t ++ (powerset t).map (x :: ·)

theorem length_powerset (l : List σ) : (powerset l).length = 2 ^ l.length := by
  induction l with
  | nil => rfl
  | cons x t ih =>
    simp only [powerset, List.length_append, List.length_map, ih, List.length_cons, Nat.pow_succ]
    omega

theorem filter_mem_powerset (p : σ → Bool) (l : List σ) : l.filter p ∈ powerset l := by
  induction l with
  | nil => simp [powerset]
  | cons x t ih =>
    simp only [powerset, List.filter_cons, List.mem_append, List.mem_map]
    cases p x
    · exact Or.inl ih
    · exact Or.inr ⟨_, ih, rfl⟩

/-! ### dependence on members only -/

theorem mem_canon (n : NFA σ α) (S : List σ) (q : σ) :
    q ∈ n.canon S ↔ q ∈ n.states ∧ q ∈ S := by
  simp [NFA.canon, List.mem_filter]

theorem canon_congr (n : NFA σ α) {S T : List σ} (h : ∀ q, q ∈ S ↔ q ∈ T) :
    n.canon S = n.canon T := by
  unfold NFA.canon
  apply List.filter_congr
  intro q _
  simp [h q]

theorem canon_mem_powerset (n : NFA σ α) (S : List σ) : n.canon S ∈ powerset n.states :=
  filter_mem_powerset _ _

/-- `canon S` has the members of `S` when `S ⊆ states`. -/
theorem mem_canon_of_sub (n : NFA σ α) {S : List σ} (hS : ∀ q ∈ S, q ∈ n.states) (q : σ) :
    q ∈ n.canon S ↔ q ∈ S := by
  rw [mem_canon]; exact ⟨fun h => h.2, fun h => ⟨hS q h, h⟩⟩

theorem nextStates_congr (n : NFA σ α) {S T : List σ} (h : ∀ q, q ∈ S ↔ q ∈ T) (a : α) (p : σ) :
    p ∈ n.nextStates S a ↔ p ∈ n.nextStates T a := by
  simp only [NFA.mem_nextStates, h]

@[simp] theorem runFrom_nil (n : NFA σ α) (S : List σ) : n.runFrom S [] = S := rfl
@[simp] theorem runFrom_cons (n : NFA σ α) (S : List σ) (a : α) (w : List α) :
    n.runFrom S (a :: w) = n.runFrom (n.nextStates S a) w := rfl

theorem runFrom_congr (n : NFA σ α) (w : List α) : ∀ {S T : List σ}, (∀ q, q ∈ S ↔ q ∈ T) →
    ∀ p, p ∈ n.runFrom S w ↔ p ∈ n.runFrom T w := by
  induction w with
  | nil => intro S T h p; exact h p
  | cons a w ih =>
    intro S T h p
    simp only [runFrom_cons]
    exact ih (nextStates_congr n h a) p

theorem anyFinal_congr (n : NFA σ α) {S T : List σ} (h : ∀ q, q ∈ S ↔ q ∈ T) :
    n.anyFinal S = n.anyFinal T := by
  rw [Bool.eq_iff_iff]
  simp [NFA.anyFinal, List.any_eq_true, h]

theorem anyFinal_iff (n : NFA σ α) (S : List σ) :
    n.anyFinal S = true ↔ ∃ q ∈ S, q ∈ n.finals := by
  simp [NFA.anyFinal, List.any_eq_true]

@[simp] theorem nextStates_nil (n : NFA σ α) (a : α) : n.nextStates [] a = [] := rfl

@[simp] theorem runFrom_nil_set (n : NFA σ α) (w : List α) : n.runFrom [] w = [] := by
  induction w with
  | nil => rfl
  | cons a w ih => simpa using ih

theorem runFrom_sub_states {n : NFA σ α} (wf : n.WF) {S : List σ} (hS : ∀ q ∈ S, q ∈ n.states)
    (w : List α) : ∀ q ∈ n.runFrom S w, q ∈ n.states := by
  induction w generalizing S with
  | nil => exact hS
  | cons a w ih =>
    rw [runFrom_cons]
    exact ih (fun q hq => NFA.nextStates_sub_states wf S a hq)

/-- A state is in its own λ-closure. -/
theorem self_mem_closure (n : NFA σ α) {q : σ} (hq : q ∈ n.nodes) : q ∈ n.closure q :=
  (NFA.mem_closure_iff n hq).mpr (Reach.refl q)

/-- λ-closures are transitive. -/
theorem closure_trans {n : NFA σ α} (wf : n.WF) {q p r : σ} (hq : q ∈ n.states)
    (hp : p ∈ n.closure q) (hr : r ∈ n.closure p) : r ∈ n.closure q := by
  have hps := NFA.closure_sub_states wf hq hp
  rw [NFA.mem_closure_iff n (NFA.states_sub_nodes n hq)] at hp ⊢
  rw [NFA.mem_closure_iff n (NFA.states_sub_nodes n hps)] at hr
  exact Reach.trans hp hr

/-- When a state has no λ-move its computed closure is literally `[q]`. -/
theorem closure_eq_singleton (n : NFA σ α) {q : σ} (h : n.epsSucc q = []) : n.closure q = [q] := by
  unfold NFA.closure bfs
  have hd : dedup [q] = [q] := by simp [dedup, sunion, sinsert]
  simp only [hd, bfsAux, h, List.filter_nil]
  have hd0 : dedup ([] : List σ) = [] := rfl
  rw [hd0]
  simp only [List.append_nil]
  cases n.nodes.length <;> rfl

theorem NFA.PyShape.row_nodup {n : NFA σ α} (h : n.PyShape) (q : σ) : (akeys (n.row q)).Nodup := by
  unfold NFA.row NFA.row?
  cases hr : alookup q n.trans with
  | none => simp [akeys]
  | some r => exact h.rows_nodup (q, r) (alookup_some_mem hr)

theorem row_mem_trans {n : NFA σ α} {q : σ} {e : Option α × List σ} (he : e ∈ n.row q) :
    ∃ r, (q, r) ∈ n.trans ∧ e ∈ r := by
  unfold NFA.row NFA.row? at he
  cases hr : alookup q n.trans with
  | none => simp [hr] at he
  | some r => simp only [hr, Option.getD_some] at he; exact ⟨r, alookup_some_mem hr, he⟩

/-- With duplicate-free row keys the targets on `x` are the value of *the* entry with key `x`. -/
theorem mem_targets_iff {n : NFA σ α} (ps : n.PyShape) (q : σ) (x : Option α) (t : σ) :
    t ∈ n.targets q x ↔ ∃ ts, (x, ts) ∈ n.row q ∧ t ∈ ts := by
  unfold NFA.targets
  constructor
  · intro h
    cases hl : alookup x (n.row q) with
    | none => simp [hl] at h
    | some ts => simp only [hl, Option.getD_some] at h; exact ⟨ts, alookup_some_mem hl, h⟩
  · rintro ⟨ts, he, ht⟩
    rw [alookup_of_mem_nodup (NFA.PyShape.row_nodup ps q) he]; exact ht

/-! ### rows of the implicit subset automaton -/

/-- The `(symbol, targets)` pairs met by `_iterate_through_symbol_path_pairs`. -/
def entries (n : NFA σ α) (S : List σ) : List (α × List σ) :=
  S.flatMap fun q =>
    (n.row q).filterMap fun e =>
      match e.1 with
      | some a => if e.2.isEmpty then none else some (a, e.2)
      | none => none

theorem subsetSucc_eq (n : NFA σ α) (S : List σ) :
    n.subsetSucc S = (dedup ((entries n S).map Prod.fst)).map fun a =>
      (a, n.canon (((entries n S).filter fun e => decide (e.1 = a)).flatMap
        fun e => e.2.flatMap n.closure)) := rfl

theorem mem_entries (n : NFA σ α) (S : List σ) (a : α) (ts : List σ) :
    (a, ts) ∈ entries n S ↔ ∃ q ∈ S, (some a, ts) ∈ n.row q ∧ ts ≠ [] := by
  unfold entries
  simp only [List.mem_flatMap, List.mem_filterMap]
  constructor
  · rintro ⟨q, hq, e, he, h⟩
    obtain ⟨e1, e2⟩ := e
    cases e1 with
    | none => simp at h
    | some b =>
      simp only at h
      by_cases hemp : e2.isEmpty = true
      · simp [hemp] at h
      · simp only [hemp, Bool.false_eq_true, if_false, Option.some.injEq, Prod.mk.injEq] at h
        obtain ⟨rfl, rfl⟩ := h
        exact ⟨q, hq, he, by simpa using hemp⟩
  · rintro ⟨q, hq, he, hne⟩
    refine ⟨q, hq, (some a, ts), he, ?_⟩
    have : ts.isEmpty = false := by cases ts <;> simp_all
    simp [this]

/-- The target set collected for `a` has the members of `nextStates S a`. -/
theorem mem_succ_set {n : NFA σ α} (ps : n.PyShape) (S : List σ) (a : α) (p : σ) :
    p ∈ ((entries n S).filter fun e => decide (e.1 = a)).flatMap (fun e => e.2.flatMap n.closure) ↔
      p ∈ n.nextStates S a := by
  rw [NFA.mem_nextStates]
  simp only [List.mem_flatMap, List.mem_filter, decide_eq_true_eq]
  constructor
  · rintro ⟨⟨b, ts⟩, ⟨he, hb⟩, t, ht, hp⟩
    simp only at hb ht; subst hb
    obtain ⟨q, hq, hrow, _⟩ := (mem_entries n S b ts).mp he
    exact ⟨q, hq, t, (mem_targets_iff ps q (some b) t).mpr ⟨ts, hrow, ht⟩, hp⟩
  · rintro ⟨q, hq, t, ht, hp⟩
    obtain ⟨ts, hrow, hts⟩ := (mem_targets_iff ps q (some a) t).mp ht
    have hne : ts ≠ [] := by intro e; rw [e] at hts; cases hts
    exact ⟨(a, ts), ⟨(mem_entries n S a ts).mpr ⟨q, hq, hrow, hne⟩, rfl⟩, t, hts, hp⟩

/-- A symbol is a key of the row exactly when some target set on it is non-empty. -/
theorem key_mem_iff {n : NFA σ α} (wf : n.WF) (ps : n.PyShape) (S : List σ) (a : α) :
    a ∈ (entries n S).map Prod.fst ↔ ∃ p, p ∈ n.nextStates S a := by
  simp only [NFA.mem_nextStates, List.mem_map]
  constructor
  · rintro ⟨⟨b, ts⟩, he, hb⟩
    simp only at hb; subst hb
    obtain ⟨q, hq, hrow, hne⟩ := (mem_entries n S b ts).mp he
    cases ts with
    | nil => exact absurd rfl hne
    | cons t ts' =>
      have ht : t ∈ n.targets q (some b) :=
        (mem_targets_iff ps q (some b) t).mpr ⟨_, hrow, by simp⟩
      exact ⟨t, q, hq, t, ht,
        self_mem_closure n (NFA.states_sub_nodes n (NFA.targets_mem_states wf ht))⟩
  · rintro ⟨p, q, hq, t, ht, _⟩
    obtain ⟨ts, hrow, hts⟩ := (mem_targets_iff ps q (some a) t).mp ht
    have hne : ts ≠ [] := by intro e; rw [e] at hts; cases hts
    exact ⟨(a, ts), (mem_entries n S a ts).mpr ⟨q, hq, hrow, hne⟩, rfl⟩

/-- **Rows of the subset automaton.**  The row of `S` maps `a` to the canonical name of
`nextStates S a`, and has no entry for `a` exactly when that set is empty (Python skips
symbols without targets: the subset DFA is partial there). -/
theorem subsetSucc_lookup {n : NFA σ α} (wf : n.WF) (ps : n.PyShape) (S : List σ) (a : α) :
    alookup a (n.subsetSucc S) =
      if n.nextStates S a = [] then none else some (n.canon (n.nextStates S a)) := by
  rw [subsetSucc_eq, alookup_map_fn]
  by_cases hk : a ∈ dedup ((entries n S).map Prod.fst)
  · rw [if_pos hk]
    obtain ⟨p, hp⟩ := (key_mem_iff wf ps S a).mp (mem_dedup.mp hk)
    have hne : n.nextStates S a ≠ [] := by intro e; rw [e] at hp; cases hp
    rw [if_neg hne]
    exact congrArg some (canon_congr n (mem_succ_set ps S a))
  · rw [if_neg hk]
    have hne : n.nextStates S a = [] := by
      rw [List.eq_nil_iff_forall_not_mem]
      intro p hp
      exact hk (mem_dedup.mpr ((key_mem_iff wf ps S a).mpr ⟨p, hp⟩))
    rw [if_pos hne]

theorem subsetSucc_keys_nodup (n : NFA σ α) (S : List σ) : (akeys (n.subsetSucc S)).Nodup := by
  rw [subsetSucc_eq, akeys_map_fn]; exact nodup_dedup _

theorem subsetSucc_keys_sub {n : NFA σ α} (wf : n.WF) (S : List σ) :
    ∀ a ∈ akeys (n.subsetSucc S), a ∈ n.syms := by
  rw [subsetSucc_eq, akeys_map_fn]
  intro a ha
  rw [mem_dedup] at ha
  obtain ⟨⟨b, ts⟩, he, hb⟩ := List.mem_map.mp ha
  simp only at hb; subst hb
  obtain ⟨q, _, hrow, _⟩ := (mem_entries n S b ts).mp he
  obtain ⟨r, hr, her⟩ := row_mem_trans hrow
  exact wf.symsOk (q, r) hr b (List.mem_map.mpr ⟨_, her, rfl⟩)

theorem subsetSucc_vals_canon (n : NFA σ α) (S : List σ) :
    ∀ e ∈ n.subsetSucc S, ∃ T, e.2 = n.canon T := by
  rw [subsetSucc_eq]
  intro e he
  obtain ⟨a, _, rfl⟩ := List.mem_map.mp he
  exact ⟨_, rfl⟩

/-- The BFS of `_expand_dfa` over the subset automaton is exhaustive: the universe is the
list of all sublists of `n.states` (`2 ^ |states|` of them). -/
theorem subset_expandHyp (n : NFA σ α) (S₀ : List σ) :
    DFA.ExpandHyp n.subsetSucc (powerset n.states) (2 ^ n.states.length + 1) (n.canon S₀) := by
  refine ⟨canon_mem_powerset n S₀, ?_, fun u _ => subsetSucc_keys_nodup n u, ?_⟩
  · intro u _ e he
    obtain ⟨T, hT⟩ := subsetSucc_vals_canon n u e he
    rw [hT]; exact canon_mem_powerset n T
  · rw [length_powerset]; omega

theorem subsetFinal_canon {n : NFA σ α} (wf : n.WF) (S : List σ) :
    n.subsetFinal (n.canon S) = n.anyFinal S := by
  rw [Bool.eq_iff_iff]
  simp only [NFA.subsetFinal, NFA.anyFinal, List.any_eq_true, decide_eq_true_eq, mem_canon]
  constructor
  · rintro ⟨q, ⟨_, hq⟩, hf⟩; exact ⟨q, hq, hf⟩
  · rintro ⟨q, hq, hf⟩; exact ⟨q, ⟨wf.finalsOk q hf, hq⟩, hf⟩

/-- **Run invariant of the subset construction.**  From the canonical name of any set
`S ⊆ states`, the implicit run of the subset automaton on `w` ends in a final subset
exactly when the NFA run from `S` on `w` meets a final state; a stopped run (`none`)
corresponds to the empty set of current states. -/
theorem subset_run {n : NFA σ α} (wf : n.WF) (ps : n.PyShape) (w : List α) :
    ∀ S : List σ, (∀ q ∈ S, q ∈ n.states) →
      (match DFA.implRun n.subsetSucc (some (n.canon S)) w with
        | some T => n.subsetFinal T
        | none => false) = n.anyFinal (n.runFrom S w) := by
  induction w with
  | nil => intro S _; simp only [DFA.implRun_nil, runFrom_nil]; exact subsetFinal_canon wf S
  | cons a w ih =>
    intro S hS
    have hcS : ∀ q, q ∈ n.canon S ↔ q ∈ S := mem_canon_of_sub n hS
    rw [DFA.implRun_cons, runFrom_cons]
    simp only [DFA.implStep]
    rw [subsetSucc_lookup wf ps]
    by_cases hne : n.nextStates (n.canon S) a = []
    · have hne' : n.nextStates S a = [] := by
        rw [List.eq_nil_iff_forall_not_mem] at hne ⊢
        intro p hp; exact hne p ((nextStates_congr n hcS a p).mpr hp)
      simp [hne, hne', NFA.anyFinal]
    · simp only [hne, if_false]
      rw [ih _ (fun q hq => NFA.nextStates_sub_states wf _ a hq)]
      exact anyFinal_congr n (runFrom_congr n w (nextStates_congr n hcS a))

/-- The implicit run also tracks the *set* of current states (used for reachability facts). -/
theorem subset_run_set {n : NFA σ α} (wf : n.WF) (ps : n.PyShape) (w : List α) :
    ∀ S : List σ, (∀ q ∈ S, q ∈ n.states) → ∀ T,
      DFA.implRun n.subsetSucc (some (n.canon S)) w = some T →
        ∀ q, q ∈ T ↔ q ∈ n.runFrom S w := by
  induction w with
  | nil =>
    intro S hS T hT q
    simp only [DFA.implRun_nil, Option.some.injEq] at hT
    subst hT; exact mem_canon_of_sub n hS q
  | cons a w ih =>
    intro S hS T hT q
    have hcS : ∀ q, q ∈ n.canon S ↔ q ∈ S := mem_canon_of_sub n hS
    rw [DFA.implRun_cons] at hT
    simp only [DFA.implStep] at hT
    rw [subsetSucc_lookup wf ps] at hT
    by_cases hne : n.nextStates (n.canon S) a = []
    · simp [hne] at hT
    · simp only [hne, if_false] at hT
      rw [ih _ (fun q hq => NFA.nextStates_sub_states wf _ a hq) T hT q, runFrom_cons]
      exact runFrom_congr n w (nextStates_congr n hcS a) q

/-! ### the DFA built by `_expand_dfa` validates -/

section expand
variable {S : Type} [DecidableEq S] {succ : S → List (α × S)} {univ : List S} {fuel : Nat} {init : S}

theorem bfsStates_sub_univ (h : DFA.ExpandHyp succ univ fuel init) {s : S}
    (hs : s ∈ DFA.bfsStates succ fuel init) : s ∈ univ :=
  DFA.reach_mem_univ h ((DFA.mem_bfsStates_iff h).mp hs)

theorem expand_trans_mem (isFin : S → Bool) (syms : List α) {kv : S × List (α × S)}
    (hkv : kv ∈ (DFA.expand succ isFin syms fuel init).trans) :
    kv.1 ∈ DFA.bfsStates succ fuel init ∧ kv.2 = succ kv.1 := by
  simp only [DFA.expand, List.mem_map] at hkv
  obtain ⟨s, hs, rfl⟩ := hkv
  exact ⟨hs, rfl⟩

/-- The result of `_expand_dfa(retain_names=True, minify=False)` is a well-formed DFA
definition whenever the BFS is exhaustive and the rows only use alphabet symbols. -/
theorem expand_wf (isFin : S → Bool) (syms : List α) (h : DFA.ExpandHyp succ univ fuel init)
    (hkeys : ∀ u ∈ univ, ∀ a ∈ akeys (succ u), a ∈ syms) :
    (DFA.expand succ isFin syms fuel init).WF := by
  refine ⟨?_, ?_, ?_, ?_, ?_, ?_⟩
  · intro q hq
    show q ∈ akeys ((DFA.bfsStates succ fuel init).map fun s => (s, succ s))
    rw [akeys_map_fn]; exact hq
  · intro hp kv hkv a ha
    obtain ⟨hs, hrow⟩ := expand_trans_mem isFin syms hkv
    have hu := bfsStates_sub_univ h hs
    have hall : ∀ kv' ∈ (DFA.expand succ isFin syms fuel init).trans,
        kv'.2.length = syms.length := by
      intro kv' hkv'
      have hp' : ((DFA.expand succ isFin syms fuel init).trans.any
          fun kv => kv.2.length != syms.length) = false := hp
      rw [List.any_eq_false] at hp'
      have := hp' kv' hkv'
      simpa using this
    have hlen : (akeys kv.2).length = syms.length := by
      rw [← hall kv hkv]; simp [akeys]
    rw [hrow] at hlen ⊢
    exact subset_of_nodup_length_eq (h.keysNodup _ hu) (hkeys _ hu) hlen a ha
  · intro kv hkv a ha
    obtain ⟨hs, hrow⟩ := expand_trans_mem isFin syms hkv
    rw [hrow] at ha
    exact hkeys _ (bfsStates_sub_univ h hs) a ha
  · intro kv hkv q hq
    obtain ⟨hs, hrow⟩ := expand_trans_mem isFin syms hkv
    rw [hrow] at hq
    show q ∈ DFA.bfsStates succ fuel init
    rw [DFA.mem_bfsStates_iff h] at hs ⊢
    exact Reach.tail hs hq
  · exact DFA.init_mem_bfsStates h
  · intro q hq
    exact (List.mem_filter.mp hq).1

/-- … and has the shape of a value built from Python sets and dicts. -/
theorem expand_pyShape (isFin : S → Bool) (syms : List α) (h : DFA.ExpandHyp succ univ fuel init)
    (hsyms : syms.Nodup) : (DFA.expand succ isFin syms fuel init).PyShape := by
  refine ⟨DFA.nodup_bfsStates h, hsyms, ?_, ?_, ?_⟩
  · exact List.Nodup.sublist List.filter_sublist (DFA.nodup_bfsStates h)
  · show (akeys ((DFA.bfsStates succ fuel init).map fun s => (s, succ s))).Nodup
    rw [akeys_map_fn]; exact DFA.nodup_bfsStates h
  · intro kv hkv
    obtain ⟨hs, hrow⟩ := expand_trans_mem isFin syms hkv
    rw [hrow]; exact h.keysNodup _ (bfsStates_sub_univ h hs)

/-- The arguments with which `_expand_dfa(minify=True)` calls `_minify`. -/
theorem expand_minHyp (isFin : S → Bool) (syms : List α) (h : DFA.ExpandHyp succ univ fuel init)
    (hsyms : syms.Nodup) (hkeys : ∀ u ∈ univ, ∀ a ∈ akeys (succ u), a ∈ syms) :
    let P := DFA.expand succ isFin syms fuel init
    DFA.MinHyp P.states P.syms P.trans P.init P.finals := by
  intro P
  have wf := expand_wf isFin syms h hkeys
  refine ⟨DFA.nodup_bfsStates h, hsyms, wf.initOk, wf.finalsOk, wf.rows, ?_⟩
  intro q r hqr a ha
  exact wf.symsOk (q, r) (alookup_some_mem hqr) a ha

end expand

/-! ### `NFA.from_dfa` -/

theorem alookup_some_map (g : β → γ) (r : List (κ × β)) (a : κ) :
    alookup (some a) (r.map fun e => (some e.1, g e.2)) = (alookup a r).map g := by
  induction r with
  | nil => rfl
  | cons x t ih =>
    obtain ⟨k', v⟩ := x
    simp only [List.map_cons, alookup_cons, ih, Option.some.injEq]
    split <;> simp

theorem alookup_none_map (g : β → γ) (r : List (κ × β)) :
    alookup (none : Option κ) (r.map fun e => (some e.1, g e.2)) = none := by
  induction r with
  | nil => rfl
  | cons x t ih =>
    obtain ⟨k', v⟩ := x
    simp only [List.map_cons, alookup_cons, ih]
    simp

theorem ofDFA_row (d : DFA σ α) (q : σ) :
    (NFA.ofDFA d).row q = (d.row q).map fun e => (some e.1, [e.2]) := by
  unfold NFA.row NFA.row? DFA.row DFA.row?
  show (alookup q (d.trans.map fun kv => (kv.1, kv.2.map fun e => (some e.1, [e.2])))).getD [] = _
  rw [alookup_map_val]
  cases alookup q d.trans <;> rfl

theorem ofDFA_targets_none (d : DFA σ α) (q : σ) : (NFA.ofDFA d).targets q none = [] := by
  unfold NFA.targets
  rw [ofDFA_row, alookup_none_map (fun t => [t])]; rfl

theorem ofDFA_targets_some (d : DFA σ α) (q : σ) (a : α) :
    (NFA.ofDFA d).targets q (some a) = (d.step? (some q) a).toList := by
  unfold NFA.targets
  rw [ofDFA_row, alookup_some_map (fun t => [t])]
  simp only [DFA.step?]
  cases alookup a (d.row q) <;> rfl

/-- No λ-moves: the closure of a state is the state itself. -/
theorem ofDFA_closure (d : DFA σ α) (q : σ) : (NFA.ofDFA d).closure q = [q] :=
  closure_eq_singleton _ (ofDFA_targets_none d q)

theorem ofDFA_mem_nextStates (d : DFA σ α) (s : Option σ) (a : α) (p : σ) :
    p ∈ (NFA.ofDFA d).nextStates s.toList a ↔ p ∈ (d.step? s a).toList := by
  rw [NFA.mem_nextStates]
  simp only [ofDFA_targets_some, ofDFA_closure, List.mem_singleton, Option.mem_toList]
  cases s with
  | none => simp [DFA.step?]
  | some q =>
    constructor
    · rintro ⟨q', hq', t, ht, rfl⟩
      cases hq'; exact ht
    · intro h; exact ⟨q, rfl, p, h, rfl⟩

/-- **Run of the embedded DFA**: the set of current states is the singleton of the DFA's
state, or empty when the DFA run has stopped. -/
theorem ofDFA_run (d : DFA σ α) (w : List α) : ∀ (s : Option σ) (p : σ),
    p ∈ (NFA.ofDFA d).runFrom s.toList w ↔ d.run s w = some p := by
  induction w with
  | nil => intro s p; simp [Option.mem_toList]
  | cons a w ih =>
    intro s p
    rw [runFrom_cons, DFA.run_cons, ← ih (d.step? s a) p]
    exact runFrom_congr _ w (ofDFA_mem_nextStates d s a) p

theorem ofDFA_accepts (d : DFA σ α) (w : List α) : (NFA.ofDFA d).accepts w = d.accepts w := by
  unfold NFA.accepts DFA.accepts
  rw [ofDFA_closure]
  rw [Bool.eq_iff_iff, anyFinal_iff]
  have hrun := ofDFA_run d w (some d.init)
  simp only [Option.toList_some] at hrun
  show (∃ q ∈ (NFA.ofDFA d).runFrom [d.init] w, q ∈ d.finals) ↔ _
  cases hr : d.run (some d.init) w with
  | none =>
    simp only [DFA.isFinal, Bool.false_eq_true, iff_false]
    rintro ⟨q, hq, _⟩
    rw [hrun, hr] at hq; cases hq
  | some q =>
    simp only [DFA.isFinal, decide_eq_true_eq]
    constructor
    · rintro ⟨q', hq', hf⟩
      rw [hrun, hr] at hq'; cases hq'; exact hf
    · intro hf; exact ⟨q, (hrun q).mpr hr, hf⟩

theorem ofDFA_wf {d : DFA σ α} (wf : d.WF) : (NFA.ofDFA d).WF := by
  have htr : ∀ kv ∈ (NFA.ofDFA d).trans, ∃ r, (kv.1, r) ∈ d.trans ∧
      kv.2 = r.map fun e => (some e.1, [e.2]) := by
    intro kv hkv
    simp only [NFA.ofDFA, List.mem_map] at hkv
    obtain ⟨⟨k, r⟩, hr, rfl⟩ := hkv
    exact ⟨r, hr, rfl⟩
  refine ⟨?_, ?_, wf.initOk, Or.inl ?_, wf.finalsOk⟩
  · intro kv hkv a ha
    obtain ⟨r, hr, hkv2⟩ := htr kv hkv
    rw [hkv2] at ha
    simp only [akeys, List.map_map, List.mem_map, Function.comp] at ha
    obtain ⟨e, he, hea⟩ := ha
    cases hea
    exact wf.symsOk (kv.1, r) hr e.1 (List.mem_map.mpr ⟨e, he, rfl⟩)
  · intro kv hkv ts hts q hq
    obtain ⟨r, hr, hkv2⟩ := htr kv hkv
    rw [hkv2] at hts
    simp only [avals, List.map_map, List.mem_map, Function.comp] at hts
    obtain ⟨e, he, rfl⟩ := hts
    simp only [List.mem_singleton] at hq; subst hq
    exact wf.tgtOk (kv.1, r) hr e.2 (List.mem_map.mpr ⟨e, he, rfl⟩)
  · show d.init ∈ akeys (d.trans.map fun kv => (kv.1, kv.2.map fun e => (some e.1, [e.2])))
    rw [akeys_map_val]
    exact wf.rows _ wf.initOk

/-! ### renaming by discovery index (`retain_names=False`) -/

section renumber
variable {S : Type} [DecidableEq S]

theorem indexOf_inj {x y : S} : ∀ {l : List S}, x ∈ l → indexOf x l = indexOf y l → x = y
  | z :: t, hx, h => by
    simp only [indexOf] at h
    by_cases hzx : z = x
    · by_cases hzy : z = y
      · exact hzx.symm.trans hzy
      · rw [if_pos hzx, if_neg hzy] at h; omega
    · by_cases hzy : z = y
      · rw [if_neg hzx, if_pos hzy] at h; omega
      · rw [if_neg hzx, if_neg hzy] at h
        have h := Nat.add_right_cancel h
        have hx' : x ∈ t := by
          rcases List.mem_cons.mp hx with e | e
          · exact absurd e.symm hzx
          · exact e
        exact indexOf_inj hx' h

theorem alookup_rename_key {β γ : Type} (f : S → Nat) (g : β → γ) (q : S)
    (hinj : ∀ k, f k = f q → k = q) (l : List (S × β)) :
    alookup (f q) (l.map fun kv => (f kv.1, g kv.2)) = (alookup q l).map g := by
  induction l with
  | nil => rfl
  | cons x t ih =>
    obtain ⟨k, v⟩ := x
    simp only [List.map_cons, alookup_cons, ih]
    by_cases hk : k = q
    · subst hk; simp
    · have : ¬ f k = f q := fun e => hk (hinj k e)
      simp [hk, this]

variable (d : DFA S α)

theorem renumber_inj {q : S} (hq : q ∈ d.states) (k : S)
    (h : indexOf k d.states = indexOf q d.states) : k = q :=
  (indexOf_inj hq h.symm).symm

theorem renumber_row {q : S} (hq : q ∈ d.states) :
    d.renumber.row (indexOf q d.states) = (d.row q).map fun e => (e.1, indexOf e.2 d.states) := by
  unfold DFA.row DFA.row?
  show (alookup (indexOf q d.states) (d.trans.map fun kv =>
    (indexOf kv.1 d.states, kv.2.map fun e => (e.1, indexOf e.2 d.states)))).getD [] = _
  rw [alookup_rename_key (fun s => indexOf s d.states) _ q (renumber_inj d hq)]
  cases alookup q d.trans <;> rfl

theorem renumber_step {q : S} (hq : q ∈ d.states) (a : α) :
    d.renumber.step? (some (indexOf q d.states)) a =
      (d.step? (some q) a).map fun s => indexOf s d.states := by
  simp only [DFA.step?]
  rw [renumber_row d hq, alookup_map_val (fun s => indexOf s d.states)]

theorem renumber_run {d : DFA S α} (wf : d.WF) (w : List α) : ∀ q ∈ d.states,
    d.renumber.run (some (indexOf q d.states)) w =
      (d.run (some q) w).map fun s => indexOf s d.states := by
  induction w with
  | nil => intro q _; rfl
  | cons a w ih =>
    intro q hq
    rw [DFA.run_cons, DFA.run_cons, renumber_step d hq]
    cases hs : d.step? (some q) a with
    | none => simp
    | some q' => exact ih q' (DFA.step?_mem wf hs)

theorem good_run {d : DFA S α} (wf : d.WF) (w : List α) : ∀ s, d.Good s → d.Good (d.run s w) := by
  induction w with
  | nil => intro s h; exact h
  | cons a w ih => intro s h; rw [DFA.run_cons]; exact ih _ (DFA.good_step wf a h)

/-- **Renaming preserves the language** (the renaming is injective on the states). -/
theorem renumber_accepts {d : DFA S α} (wf : d.WF) (w : List α) :
    d.renumber.accepts w = d.accepts w := by
  unfold DFA.accepts
  show d.renumber.isFinal (d.renumber.run (some (indexOf d.init d.states)) w) = _
  rw [renumber_run wf w d.init wf.initOk]
  have hg := good_run wf w (some d.init) wf.initOk
  cases hr : d.run (some d.init) w with
  | none => rfl
  | some q =>
    rw [hr] at hg
    simp only [Option.map_some, DFA.isFinal]
    rw [Bool.eq_iff_iff]
    simp only [decide_eq_true_eq]
    show indexOf q d.states ∈ d.finals.map (fun s => indexOf s d.states) ↔ _
    rw [List.mem_map]
    constructor
    · rintro ⟨x, hx, hxe⟩
      rw [← renumber_inj d hg x hxe]; exact hx
    · intro h; exact ⟨q, h, rfl⟩

/-- **Renaming preserves validity.** -/
theorem renumber_wf {d : DFA S α} (wf : d.WF) : d.renumber.WF := by
  have htr : ∀ kv ∈ d.renumber.trans, ∃ kv' ∈ d.trans, kv.1 = indexOf kv'.1 d.states ∧
      kv.2 = kv'.2.map fun e => (e.1, indexOf e.2 d.states) := by
    intro kv hkv
    simp only [DFA.renumber, List.mem_map] at hkv
    obtain ⟨kv', h', rfl⟩ := hkv
    exact ⟨kv', h', rfl, rfl⟩
  have hkeys : ∀ (r : List (α × S)), akeys (r.map fun e => (e.1, indexOf e.2 d.states)) = akeys r :=
    fun r => akeys_map_val (fun s => indexOf s d.states) r
  refine ⟨?_, ?_, ?_, ?_, ?_, ?_⟩
  · intro q hq
    obtain ⟨s, hs, rfl⟩ := List.mem_map.mp (show q ∈ d.states.map _ from hq)
    obtain ⟨kv, hkv, hk⟩ := List.mem_map.mp (wf.rows s hs)
    refine List.mem_map.mpr ⟨(indexOf kv.1 d.states, kv.2.map fun e => (e.1, indexOf e.2 d.states)), ?_, ?_⟩
    · exact List.mem_map.mpr ⟨kv, hkv, rfl⟩
    · show indexOf kv.1 d.states = _; rw [hk]
  · intro hp kv hkv a ha
    obtain ⟨kv', h', _, h2⟩ := htr kv hkv
    rw [h2, hkeys]
    exact wf.complete hp kv' h' a ha
  · intro kv hkv a ha
    obtain ⟨kv', h', _, h2⟩ := htr kv hkv
    rw [h2, hkeys] at ha
    exact wf.symsOk kv' h' a ha
  · intro kv hkv q hq
    obtain ⟨kv', h', _, h2⟩ := htr kv hkv
    rw [h2] at hq
    simp only [avals, List.map_map, List.mem_map, Function.comp] at hq
    obtain ⟨e, he, rfl⟩ := hq
    exact List.mem_map.mpr ⟨e.2, wf.tgtOk kv' h' e.2 (List.mem_map.mpr ⟨e, he, rfl⟩), rfl⟩
  · exact List.mem_map.mpr ⟨d.init, wf.initOk, rfl⟩
  · intro q hq
    obtain ⟨s, hs, rfl⟩ := List.mem_map.mp (show q ∈ d.finals.map _ from hq)
    exact List.mem_map.mpr ⟨s, wf.finalsOk s hs, rfl⟩

end renumber

/-! ### the refinement system of `_minify` on all states of a valid DFA is the DFA itself -/

section minify
variable {S : Type} [DecidableEq S]

theorem mdelta_eq_step {d : DFA S α} (wf : d.WF) (s : Option S) (a : α) :
    DFA.mdelta d.states d.trans s a = d.step? s a := by
  cases s with
  | none => rfl
  | some q =>
    simp only [DFA.mdelta]
    show (match alookup a (d.row q) with
      | some t => if t ∈ d.states then some t else none
      | none => none) = alookup a (d.row q)
    cases h : alookup a (d.row q) with
    | none => rfl
    | some t =>
      have : t ∈ d.states := DFA.step?_mem wf (q := q) (a := a) h
      simp [this]

theorem mrun_eq_run {d : DFA S α} (wf : d.WF) (w : List α) : ∀ s : Option S,
    DFA.mrun d.states d.trans s w = d.run s w := by
  induction w with
  | nil => intro s; rfl
  | cons a w ih =>
    intro s
    show DFA.mrun d.states d.trans (DFA.mdelta d.states d.trans s a) w = _
    rw [mdelta_eq_step wf, ih]; rfl

theorem mfin_eq_isFinal (d : DFA S α) (s : Option S) : DFA.mfin d.finals s = d.isFinal s := by
  cases s <;> rfl

/-- The language `_minify` is asked to preserve is the language of the DFA. -/
theorem mlang_eq_accepts {d : DFA S α} (wf : d.WF) (w : List α) :
    DFA.mfin d.finals (DFA.mrun d.states d.trans (some d.init) w) = d.accepts w := by
  rw [mrun_eq_run wf, mfin_eq_isFinal]; rfl

end minify

end C07
end AV
