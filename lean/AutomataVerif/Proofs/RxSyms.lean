/-
Proofs/RxSyms.lean — which symbols can label a row of a builder's transition dict: only the
alphabet (through the wildcard) and the literals of the expression.  Together with the builder
invariant this gives validity of the NFA handed to `NFA(...)` by `from_regex`.  Core only.
-/
import AutomataVerif.Proofs.RxInter
import AutomataVerif.Proofs.Validate

namespace AV.Rx

set_option linter.unusedSectionVars false
set_option linter.unusedSimpArgs false
set_option linter.unusedVariables false

variable {α : Type} [DecidableEq α]

/-- Every non-empty symbol that is a key of some row satisfies `S`. -/
def SymsIn (S : α → Prop) (T : Trans α) : Prop := ∀ kv ∈ T, ∀ x, some x ∈ akeys kv.2 → S x

theorem SymsIn.mono {S S' : α → Prop} {T : Trans α} (h : SymsIn S T) (hs : ∀ x, S x → S' x) :
    SymsIn S' T := fun kv hkv x hx => hs x (h kv hkv x hx)

theorem SymsIn.ainsert {S : α → Prop} {T : Trans α} (h : SymsIn S T) {k : Nat} {row : Row α}
    (hr : ∀ x, some x ∈ akeys row → S x) : SymsIn S (ainsert k row T) := by
  intro kv hkv
  rcases mem_ainsert hkv with e | e
  · rw [e]; exact hr
  · exact h kv e

theorem SymsIn.aupdate {S : α → Prop} {T1 T2 : Trans α} (h1 : SymsIn S T1) (h2 : SymsIn S T2) :
    SymsIn S (aupdate T1 T2) := by
  induction T2 generalizing T1 with
  | nil => exact h1
  | cons kv t ih =>
    rw [aupdate_cons]
    exact ih (h1.ainsert (h2 kv (by simp))) (fun x hx => h2 x (List.mem_cons_of_mem _ hx))

theorem SymsIn.addEdgeE {S : α → Prop} {T T' : Trans α} (h : SymsIn S T) {s t : Nat}
    (e : addEdgeE T s none t = .ok T') : SymsIn S T' := by
  unfold Rx.addEdgeE at e
  cases hrow : alookup s T with
  | none => simp [hrow] at e
  | some row =>
    simp only [hrow] at e
    cases e
    refine h.ainsert ?_
    intro x hx
    unfold addTarget at hx
    rcases mem_akeys_ainsert.mp hx with h1 | h1
    · cases h1
    · exact h _ (alookup_some_mem hrow) x h1

theorem SymsIn.addEdgesE {S : α → Prop} {T T' : Trans α} (h : SymsIn S T) {srcs : List Nat}
    {t : Nat} (e : addEdgesE T srcs none t = .ok T') : SymsIn S T' := by
  unfold Rx.addEdgesE at e
  induction srcs generalizing T with
  | nil => simp [List.foldlM] at e; cases e; exact h
  | cons s rest ih =>
    rw [List.foldlM_cons] at e
    cases h1 : Rx.addEdgeE T s none t with
    | error x => rw [h1] at e; simp [bind, Except.bind] at e
    | ok T1 =>
      rw [h1] at e
      exact ih (h.addEdgeE h1) e

theorem SymsIn.copyTrans {S : α → Prop} {T : Trans α} (h : SymsIn S T) (f : Nat → Nat) :
    SymsIn S (Builder.copyTrans f T) := by
  intro kv hkv
  unfold Builder.copyTrans at hkv
  obtain ⟨kv0, hkv0, rfl⟩ := List.mem_map.mp hkv
  have : akeys (kv0.2.map fun e => (e.1, dedup (e.2.map f))) = akeys kv0.2 := by
    simp [akeys, List.map_map, Function.comp_def]
  intro x hx
  have hx' : some x ∈ akeys (kv0.2.map fun e => (e.1, dedup (e.2.map f))) := hx
  rw [this] at hx'
  exact h kv0 hkv0 x hx'

theorem SymsIn.mapTable {S : α → Prop} {ι : Type} (L : List ι) (nm : ι → Nat) (rowOf : ι → Row α)
    (h : ∀ y ∈ L, ∀ x, some x ∈ akeys (rowOf y) → S x) :
    SymsIn S (L.map fun y => (nm y, rowOf y)) := by
  intro kv hkv
  obtain ⟨y, hy, rfl⟩ := List.mem_map.mp hkv
  exact h y hy

namespace Builder

/-- Keys of the operand row `b.row p` satisfy `S`. -/
theorem symsIn_row {S : α → Prop} {b : Builder α} (h : SymsIn S b.trans) (p : Nat) (x : α)
    (hx : some x ∈ akeys (b.row p)) : S x := by
  unfold row at hx
  cases hl : alookup p b.trans with
  | none => simp [hl, akeys] at hx
  | some r =>
    simp only [hl, Option.getD_some] at hx
    exact h _ (alookup_some_mem hl) x hx

theorem syms_lit (a : α) (c : Nat) : SymsIn (fun x => x = a) (fromStringLiteral [a] c).1.trans := by
  rw [fromStringLiteral_single]
  intro kv hkv x hx
  simp at hkv
  rcases hkv with rfl | rfl
  · simp [akeys] at hx; exact hx
  · simp [akeys] at hx

theorem syms_eps (S : α → Prop) (c : Nat) : SymsIn S (fromStringLiteral ([] : List α) c).1.trans := by
  rw [fromStringLiteral_nil]
  intro kv hkv x hx
  simp at hkv
  subst hkv
  simp [akeys] at hx

theorem syms_wildcard (syms : List α) (c : Nat) :
    SymsIn (fun x => x ∈ syms) (wildcard syms c).1.trans := by
  intro kv hkv x hx
  simp only [wildcard, List.mem_cons, List.not_mem_nil, or_false] at hkv
  have key : ∀ (l : List α) (acc : Row α), (∀ x, some x ∈ akeys acc → x ∈ syms) →
      (∀ y ∈ l, y ∈ syms) →
      ∀ x, some x ∈ akeys (l.foldl (fun row a => ainsert (some a) [c + 1] row) acc) → x ∈ syms := by
    intro l
    induction l with
    | nil => intro acc h _ x hx; exact h x hx
    | cons y t ih =>
      intro acc h hl x hx
      refine ih _ ?_ (fun z hz => hl z (List.mem_cons_of_mem _ hz)) x hx
      intro z hz
      rcases mem_akeys_ainsert.mp hz with h1 | h1
      · cases h1; exact hl y (by simp)
      · exact h z h1
  rcases hkv with rfl | rfl
  · exact key syms [] (by simp [akeys]) (fun y hy => hy) x hx
  · simp [akeys] at hx

theorem syms_union {S : α → Prop} {b1 b2 : Builder α} (h1 : SymsIn S b1.trans)
    (h2 : SymsIn S b2.trans) (c : Nat) : SymsIn S (b1.union b2 c).1.trans :=
  (h1.aupdate h2).ainsert (by intro x hx; simp [akeys] at hx)

theorem syms_concatenate {S : α → Prop} {b1 b2 b : Builder α} (h1 : SymsIn S b1.trans)
    (h2 : SymsIn S b2.trans) (e : b1.concatenate b2 = .ok b) : SymsIn S b.trans := by
  unfold concatenate at e
  cases hT : addEdgesE (aupdate b1.trans b2.trans) b1.finals none b2.init with
  | error x => simp [hT] at e
  | ok T =>
    simp only [hT] at e
    cases e
    exact (h1.aupdate h2).addEdgesE hT

theorem syms_repeatStep {S : α → Prop} {b : Builder α} (hb : SymsIn S b.trans) {lo i : Nat}
    {st st' : RepState α} (h : SymsIn S st.T) (e : repeatStep b lo st i = .ok st') :
    SymsIn S st'.T := by
  unfold repeatStep at e
  simp only at e
  cases hT : addEdgesE (aupdate st.T (copyTrans (b.copyName st.ctr) b.trans)) st.prevFinals none
      (b.copyName st.ctr b.init) with
  | error x => simp [hT] at e
  | ok T =>
    simp only [hT] at e
    cases e
    exact (h.aupdate (hb.copyTrans _)).addEdgesE hT

theorem syms_repeatLoop {S : α → Prop} {b : Builder α} (hb : SymsIn S b.trans) {lo : Nat}
    (l : List Nat) :
    ∀ (st st' : RepState α), SymsIn S st.T → l.foldlM (repeatStep b lo) st = .ok st' →
      SymsIn S st'.T := by
  induction l with
  | nil => intro st st' h e; simp [List.foldlM] at e; cases e; exact h
  | cons i rest ih =>
    intro st st' h e
    rw [List.foldlM_cons] at e
    cases h1 : repeatStep b lo st i with
    | error x => rw [h1] at e; simp [bind, Except.bind] at e
    | ok st1 =>
      rw [h1] at e
      exact ih st1 st' (syms_repeatStep hb h h1) e

theorem syms_repeat {S : α → Prop} {b r : Builder α} (hb : SymsIn S b.trans) {lo c c' : Nat}
    {hi : Option Nat} (e : b.repeat_ lo hi c = .ok (r, c')) : SymsIn S r.trans := by
  unfold repeat_ at e
  simp only at e
  split at e
  · cases e
  · rename_i st hst
    have hst' := syms_repeatLoop hb _ _ st
      (hb.ainsert (by intro x hx; simp [akeys] at hx)) hst
    cases hi with
    | none =>
      simp only at e
      cases hT : addEdgesE st.T st.prevFinals none st.prevInit with
      | error x => simp [hT] at e
      | ok T =>
        simp only [hT] at e
        cases e
        exact hst'.addEdgesE hT
    | some h0 =>
      simp only at e
      cases e
      exact hst'

theorem keys_foldl_addTargets (g : List Nat → List Nat) (row acc : Row α) (a : Option α)
    (h : a ∈ akeys (row.foldl (fun r e => addTargets e.1 (g e.2) r) acc)) :
    a ∈ akeys acc ∨ a ∈ akeys row := by
  induction row generalizing acc with
  | nil => exact Or.inl h
  | cons e rest ih =>
    rw [List.foldl_cons] at h
    rcases ih _ h with h1 | h1
    · unfold addTargets at h1
      rcases mem_akeys_ainsert.mp h1 with h2 | h2
      · right; simp [akeys, h2]
      · exact Or.inl h2
    · right; simp only [akeys, List.map_cons, List.mem_cons]; exact Or.inr h1

theorem syms_shuffle {S : α → Prop} {b1 b2 : Builder α} (h1 : SymsIn S b1.trans)
    (h2 : SymsIn S b2.trans) (c : Nat) : SymsIn S (b1.shuffle b2 c).1.trans := by
  refine SymsIn.mapTable _ _ _ ?_
  rintro ⟨p, q⟩ _ x hx
  unfold shuffleRow at hx
  rcases keys_foldl_addTargets _ _ _ _ hx with h | h
  · rcases keys_foldl_addTargets _ _ _ _ h with h' | h'
    · simp [akeys] at h'
    · exact symsIn_row h1 p x h'
  · exact symsIn_row h2 q x h

theorem keys_foldl_interSymStep (b1 b2 : Builder α) (name : Nat × Nat → Nat) (p q : Nat)
    (syms : List α) (acc : Row α) (a : Option α)
    (h : a ∈ akeys (syms.foldl (interSymStep b1 b2 name p q) acc)) :
    a ∈ akeys acc ∨ ∃ x, a = some x ∧ some x ∈ akeys (b1.row p) := by
  induction syms generalizing acc with
  | nil => exact Or.inl h
  | cons x rest ih =>
    rw [List.foldl_cons] at h
    rcases ih _ h with h1 | h1
    · unfold interSymStep at h1
      cases hl1 : alookup (some x) (b1.row p) with
      | none => simp only [hl1] at h1; exact Or.inl h1
      | some ts1 =>
        cases hl2 : alookup (some x) (b2.row q) with
        | none => simp only [hl1, hl2] at h1; exact Or.inl h1
        | some ts2 =>
          simp only [hl1, hl2] at h1
          unfold addTargets at h1
          rcases mem_akeys_ainsert.mp h1 with h2 | h2
          · exact Or.inr ⟨x, h2, alookup_some_key_mem hl1⟩
          · exact Or.inl h2
    · exact Or.inr h1

theorem syms_intersection {S : α → Prop} {b1 b2 : Builder α} (h1 : SymsIn S b1.trans)
    (h2 : SymsIn S b2.trans) (c : Nat) : SymsIn S (b1.intersection b2 c).1.trans := by
  refine SymsIn.mapTable _ _ _ ?_
  rintro ⟨p, q⟩ _ x hx
  rw [interRow_eq] at hx
  rcases keys_foldl_interSymStep _ _ _ _ _ _ _ _ hx with h | ⟨y, e, hy⟩
  · -- the ε part only has the key `none`
    exfalso
    cases hl2 : alookup none (b2.row q) with
    | none =>
      cases hl1 : alookup none (b1.row p) with
      | none => simp [hl1, hl2, akeys] at h
      | some ts =>
        simp only [hl1, hl2] at h
        unfold addTargets at h
        rcases mem_akeys_ainsert.mp h with h' | h'
        · cases h'
        · simp [akeys] at h'
    | some ts2 =>
      cases hl1 : alookup none (b1.row p) with
      | none =>
        simp only [hl1, hl2] at h
        unfold addTargets at h
        rcases mem_akeys_ainsert.mp h with h' | h'
        · cases h'
        · simp [akeys] at h'
      | some ts =>
        simp only [hl1, hl2] at h
        unfold addTargets at h
        rcases mem_akeys_ainsert.mp h with h' | h'
        · cases h'
        · rcases mem_akeys_ainsert.mp h' with h'' | h''
          · cases h''
          · simp [akeys] at h''
  · cases e
    exact symsIn_row h1 p x hy

/-! ### validity of the NFA handed to the constructor -/

/-- A builder satisfying the invariants, all of whose symbols are in `syms`, yields a valid NFA
definition: the constructor's `validate()` passes. -/
theorem toNFA_valid {b : Builder α} {lo hi : Nat} (i : b.Inv lo hi) (r : RowsNodup b.trans)
    {syms : List α} (s : SymsIn (fun x => x ∈ syms) b.trans) :
    (b.toNFA syms).validate = .ok () := by
  rw [NFA.validate_eq_ok]
  refine ⟨?_, ?_, i.initKey, Or.inl i.initKey, i.finalsKeys⟩
  · intro kv hkv a ha
    exact s kv hkv a ha
  · intro kv hkv ts hts q hq
    obtain ⟨e, he, rfl⟩ := List.mem_map.mp hts
    obtain ⟨k, rw0⟩ := kv
    obtain ⟨a, ts⟩ := e
    have hk : alookup k b.trans = some rw0 := alookup_of_mem_nodup i.keysNodup hkv
    have ha : alookup a rw0 = some ts := alookup_of_mem_nodup (r _ hkv) he
    apply i.tgtKeys k a q
    unfold targets Builder.row
    simp [hk, ha, hq]

end Builder
end AV.Rx
