/-
Proofs/Complete.lean — `to_complete` / `_to_complete` and `complement(minify=False)` (core only).

* `toCompleteCore d trap` (for `trap ∉ d.states`) is valid, complete, duplicate-free and
  gives the same verdict as `d` on every word: the run of the completed DFA is the run of
  `d` with the implicit sink `none` replaced by the state `trap`, as long as the word stays
  inside the alphabet; a foreign symbol kills both runs.
* `complementPlain c` of a complete `c` accepts exactly the words *over the alphabet* that
  `c` rejects.
-/
import AutomataVerif.Proofs.ExpandValid
import AutomataVerif.Proofs.Rename
import AutomataVerif.Model.DFAComplement

namespace AV
namespace C04
open DFA

set_option linter.unusedSectionVars false

variable {κ β σ α : Type} [DecidableEq κ] [DecidableEq σ] [DecidableEq α]

/-! ### `ainsert`, `++`, tabulated dicts -/

theorem alookup_ainsert_self (k : κ) (v : β) (l : List (κ × β)) :
    alookup k (ainsert k v l) = some v := by
  induction l with
  | nil => simp [ainsert, alookup_cons]
  | cons kv t ih =>
    obtain ⟨k', v'⟩ := kv
    simp only [ainsert]
    by_cases h : k' = k
    · simp [h, alookup_cons]
    · simp [h, alookup_cons, ih]

theorem alookup_ainsert_ne {k k' : κ} (v : β) (l : List (κ × β)) (h : k' ≠ k) :
    alookup k' (ainsert k v l) = alookup k' l := by
  induction l with
  | nil => simp [ainsert, alookup_cons, h.symm]
  | cons kv t ih =>
    obtain ⟨k₁, v₁⟩ := kv
    simp only [ainsert]
    by_cases h1 : k₁ = k
    · subst h1
      have : ¬ k₁ = k' := fun e => h e.symm
      simp [alookup_cons, this]
    · simp only [h1, if_false, alookup_cons, ih]

theorem mem_ainsert {k : κ} {v : β} {l : List (κ × β)} {e : κ × β} (h : e ∈ ainsert k v l) :
    e = (k, v) ∨ e ∈ l := by
  induction l with
  | nil => simp [ainsert] at h; exact Or.inl h
  | cons kv t ih =>
    obtain ⟨k', v'⟩ := kv
    simp only [ainsert] at h
    by_cases hk : k' = k
    · simp only [hk, if_true, List.mem_cons] at h
      rcases h with h | h
      · exact Or.inl h
      · exact Or.inr (List.mem_cons_of_mem _ h)
    · simp only [hk, if_false, List.mem_cons] at h
      rcases h with h | h
      · exact Or.inr (by rw [h]; simp)
      · rcases ih h with h' | h'
        · exact Or.inl h'
        · exact Or.inr (List.mem_cons_of_mem _ h')

theorem mem_akeys_ainsert [DecidableEq β] {k k' : κ} {v : β} {l : List (κ × β)} :
    k' ∈ akeys (ainsert k v l) ↔ k' = k ∨ k' ∈ akeys l := by
  rw [← alookup_isSome_iff, ← alookup_isSome_iff]
  by_cases h : k' = k
  · subst h; simp [alookup_ainsert_self]
  · rw [alookup_ainsert_ne v l h]; simp [h]

theorem nodup_akeys_ainsert [DecidableEq β] {k : κ} {v : β} {l : List (κ × β)} (h : (akeys l).Nodup) :
    (akeys (ainsert k v l)).Nodup := by
  induction l with
  | nil => simp [ainsert, akeys]
  | cons kv t ih =>
    obtain ⟨k', v'⟩ := kv
    simp only [ainsert]
    by_cases hk : k' = k
    · subst hk; simpa [akeys] using h
    · simp only [hk, if_false]
      simp only [akeys, List.map_cons, List.nodup_cons] at h ⊢
      refine ⟨?_, ih h.2⟩
      intro hm
      have := (mem_akeys_ainsert (k := k) (v := v) (l := t) (k' := k')).mp hm
      rcases this with e | e
      · exact hk e
      · exact h.1 e

theorem alookup_append (k : κ) (l m : List (κ × β)) :
    alookup k (l ++ m) = match alookup k l with
      | some v => some v
      | none => alookup k m := by
  induction l with
  | nil => rfl
  | cons kv t ih =>
    obtain ⟨k', v'⟩ := kv
    simp only [List.cons_append, alookup_cons]
    by_cases h : k' = k
    · simp [h]
    · simp only [h, if_false]; exact ih

/-- A dict tabulated over a key list: `{k: g(k) for k in K}`. -/
theorem alookup_tabulate (K : List κ) (g : κ → β) (k : κ) :
    alookup k (K.map fun a => (a, g a)) = if k ∈ K then some (g k) else none := by
  induction K with
  | nil => rfl
  | cons x t ih =>
    simp only [List.map_cons, alookup_cons]
    by_cases h : x = k
    · subst h; simp
    · have : ¬ k = x := fun e => h e.symm
      simp only [h, if_false, ih, List.mem_cons, this, false_or]

theorem akeys_tabulate (K : List κ) (g : κ → β) : akeys (K.map fun a => (a, g a)) = K := by
  simp [akeys, List.map_map, Function.comp_def]

theorem filter_keys_eq_nil {r : List (κ × β)} {K : List κ} (h : ∀ a ∈ akeys r, a ∈ K) :
    r.filter (fun e => decide (e.1 ∉ K)) = [] := by
  rw [List.filter_eq_nil_iff]
  intro e he
  have : e.1 ∈ K := h e.1 (List.mem_map.mpr ⟨e, he, rfl⟩)
  simp [this]


/-- Every alphabet symbol is a key of every row (what `allow_partial=False` demands). -/
def _root_.AV.DFA.IsComplete (d : DFA σ α) : Prop := ∀ kv ∈ d.trans, ∀ a ∈ d.syms, a ∈ akeys kv.2

theorem isComplete_of_flag {d : DFA σ α} (wf : d.WF) (h : d.allowPartial = false) : d.IsComplete :=
  wf.complete h

/-- If no row "looks partial" (`len(row) != len(input_symbols)`) the DFA is complete — for
duplicate-free rows over the alphabet. -/
theorem isComplete_of_not_looksPartial {d : DFA σ α} (wf : d.WF) (p : d.PyShape)
    (h : d.looksPartial = false) : d.IsComplete := by
  intro kv hkv
  unfold looksPartial at h
  rw [List.any_eq_false] at h
  have hlen : kv.2.length = d.syms.length := by simpa using h kv hkv
  exact row_full_of_length (p.rows_nodup kv hkv) (wf.symsOk kv hkv) hlen

/-- In a complete well-formed DFA every alphabet symbol leads from a state to a state. -/
theorem step?_of_isComplete {d : DFA σ α} (wf : d.WF) (hc : d.IsComplete) {q : σ}
    (hq : q ∈ d.states) {a : α} (ha : a ∈ d.syms) :
    ∃ q', d.step? (some q) a = some q' ∧ q' ∈ d.states := by
  obtain ⟨r, hr⟩ := row?_some_of_mem wf hq
  have hk := hc (q, r) (alookup_some_mem hr) a ha
  have := alookup_isSome_iff.mpr hk
  cases h : alookup a r with
  | none => simp [h] at this
  | some q' =>
    have hs : d.step? (some q) a = some q' := by simp only [step?, row, hr, Option.getD_some, h]
    exact ⟨q', hs, step?_mem wf hs⟩

/-- A word over the alphabet is read to the end by a complete DFA. -/
theorem run_over {d : DFA σ α} (wf : d.WF) (hc : d.IsComplete) (w : List α) :
    ∀ q, q ∈ d.states → (w.all fun a => decide (a ∈ d.syms)) = true →
      ∃ q', d.run (some q) w = some q' ∧ q' ∈ d.states := by
  induction w with
  | nil => intro q hq _; exact ⟨q, rfl, hq⟩
  | cons a w ih =>
    intro q hq hw
    simp only [List.all_cons, Bool.and_eq_true, decide_eq_true_eq] at hw
    obtain ⟨q', hs, hq'⟩ := step?_of_isComplete wf hc hq hw.1
    rw [run_cons, hs]
    exact ih q' hq' hw.2

/-- A word with a symbol outside the alphabet kills the run of any well-formed DFA. -/
theorem run_not_over {d : DFA σ α} (wf : d.WF) (w : List α) :
    ∀ s, (w.all fun a => decide (a ∈ d.syms)) = false → d.run s w = none := by
  induction w with
  | nil => intro s h; simp at h
  | cons a w ih =>
    intro s h
    rw [run_cons]
    by_cases ha : a ∈ d.syms
    · simp only [List.all_cons, ha, decide_true, Bool.true_and] at h
      exact ih _ h
    · rw [step?_foreign wf s ha]; exact run_none d w

/-! ### `_to_complete` -/

section toComplete
variable (d : DFA σ α) (trap : σ)

/-- The row `{**default_to_trap, **lookup}`. -/
def _root_.AV.DFA.fillRow (row : List (α × σ)) : List (α × σ) :=
  (d.syms.map fun a => (a, (alookup a row).getD trap)) ++ row.filter fun e => decide (e.1 ∉ d.syms)

/-- The dict comprehension of `_to_complete` before the trap row is stored. -/
def _root_.AV.DFA.filledTrans : List (σ × List (α × σ)) := d.trans.map fun kv => (kv.1, d.fillRow trap kv.2)

def _root_.AV.DFA.trapRow : List (α × σ) := d.syms.map fun a => (a, trap)

theorem toCompleteCore_trans :
    (d.toCompleteCore trap).trans = ainsert trap (d.trapRow trap) (d.filledTrans trap) := rfl

theorem toCompleteCore_states :
    (d.toCompleteCore trap).states = akeys (d.toCompleteCore trap).trans := rfl

theorem fillRow_eq {d : DFA σ α} {row : List (α × σ)} (h : ∀ a ∈ akeys row, a ∈ d.syms) :
    d.fillRow trap row = d.syms.map fun a => (a, (alookup a row).getD trap) := by
  unfold fillRow
  rw [filter_keys_eq_nil h, List.append_nil]

theorem akeys_filledTrans : akeys (d.filledTrans trap) = akeys d.trans := by
  simp [filledTrans, akeys, List.map_map, Function.comp_def]

theorem alookup_filledTrans (q : σ) :
    alookup q (d.filledTrans trap) = (alookup q d.trans).map (d.fillRow trap) :=
  alookup_map_val (d.fillRow trap) d.trans q

variable {d} {trap}

theorem mem_toCompleteCore_trans {kv : σ × List (α × σ)} (h : kv ∈ (d.toCompleteCore trap).trans) :
    kv = (trap, d.trapRow trap) ∨ ∃ kv₀ ∈ d.trans, kv = (kv₀.1, d.fillRow trap kv₀.2) := by
  rw [toCompleteCore_trans] at h
  rcases mem_ainsert h with h | h
  · exact Or.inl h
  · obtain ⟨kv₀, h₀, rfl⟩ := List.mem_map.mp h
    exact Or.inr ⟨kv₀, h₀, rfl⟩

theorem mem_toCompleteCore_states {q : σ} :
    q ∈ (d.toCompleteCore trap).states ↔ q = trap ∨ q ∈ akeys d.trans := by
  rw [toCompleteCore_states, toCompleteCore_trans, mem_akeys_ainsert, akeys_filledTrans]

theorem avals_fill_sub (wf : d.WF) {kv : σ × List (α × σ)} (hkv : kv ∈ d.trans) {q : σ}
    (hq : q ∈ avals (d.fillRow trap kv.2)) : q = trap ∨ q ∈ d.states := by
  rw [fillRow_eq trap (wf.symsOk kv hkv)] at hq
  obtain ⟨e, he, rfl⟩ := List.mem_map.mp hq
  obtain ⟨a, _, rfl⟩ := List.mem_map.mp he
  simp only
  cases hl : alookup a kv.2 with
  | none => exact Or.inl rfl
  | some t => exact Or.inr (wf.tgtOk kv hkv t (alookup_some_val_mem hl))

/-- `_to_complete` returns a well-formed complete definition. -/
theorem toCompleteCore_wf (wf : d.WF) : (d.toCompleteCore trap).WF := by
  refine ⟨fun q hq => hq, ?_, ?_, ?_, ?_, ?_⟩
  · intro _ kv hkv a ha
    rcases mem_toCompleteCore_trans hkv with rfl | ⟨kv₀, h₀, rfl⟩
    · simp only [trapRow]; rw [akeys_tabulate]; exact ha
    · simp only
      rw [fillRow_eq trap (wf.symsOk kv₀ h₀), akeys_tabulate]; exact ha
  · intro kv hkv a ha
    rcases mem_toCompleteCore_trans hkv with rfl | ⟨kv₀, h₀, rfl⟩
    · simp only [trapRow] at ha; rw [akeys_tabulate] at ha; exact ha
    · simp only at ha
      rw [fillRow_eq trap (wf.symsOk kv₀ h₀), akeys_tabulate] at ha; exact ha
  · intro kv hkv q hq
    rw [mem_toCompleteCore_states]
    rcases mem_toCompleteCore_trans hkv with rfl | ⟨kv₀, h₀, rfl⟩
    · simp only [trapRow] at hq
      obtain ⟨e, he, rfl⟩ := List.mem_map.mp hq
      obtain ⟨a, _, rfl⟩ := List.mem_map.mp he
      exact Or.inl rfl
    · rcases avals_fill_sub wf h₀ hq with h | h
      · exact Or.inl h
      · exact Or.inr (wf.rows q h)
  · exact mem_toCompleteCore_states.mpr (Or.inr (wf.rows _ wf.initOk))
  · intro q hq
    exact mem_toCompleteCore_states.mpr (Or.inr (wf.rows _ (wf.finalsOk q hq)))

theorem toCompleteCore_pyShape (wf : d.WF) (p : d.PyShape) : (d.toCompleteCore trap).PyShape := by
  have hk : (akeys (d.toCompleteCore trap).trans).Nodup := by
    rw [toCompleteCore_trans]
    exact nodup_akeys_ainsert (by rw [akeys_filledTrans]; exact p.keys_nodup)
  refine ⟨hk, p.syms_nodup, p.finals_nodup, hk, ?_⟩
  intro kv hkv
  rcases mem_toCompleteCore_trans hkv with rfl | ⟨kv₀, h₀, rfl⟩
  · simp only [trapRow]; rw [akeys_tabulate]; exact p.syms_nodup
  · simp only
    rw [fillRow_eq trap (wf.symsOk kv₀ h₀), akeys_tabulate]; exact p.syms_nodup

/-- The completed DFA replaces the implicit sink by the state `trap`. -/
theorem toCompleteCore_step? (wf : d.WF) (ht : trap ∉ d.states) {s : Option σ} (hs : d.Good s)
    {a : α} (ha : a ∈ d.syms) :
    (d.toCompleteCore trap).step? (some (s.getD trap)) a = some ((d.step? s a).getD trap) := by
  cases s with
  | none =>
    simp only [Option.getD_none, step?, row, row?, toCompleteCore_trans, alookup_ainsert_self,
      Option.getD_some, trapRow]
    rw [alookup_tabulate]; simp [ha]
  | some q =>
    have hq : q ∈ d.states := hs
    have hne : q ≠ trap := fun e => ht (e ▸ hq)
    obtain ⟨r, hr⟩ := row?_some_of_mem wf hq
    have hr' : alookup q d.trans = some r := hr
    simp only [Option.getD_some, step?, row, row?, toCompleteCore_trans]
    rw [alookup_ainsert_ne _ _ hne, alookup_filledTrans, hr']
    simp only [Option.map_some, Option.getD_some]
    rw [fillRow_eq trap (wf.symsOk (q, r) (alookup_some_mem hr')), alookup_tabulate]
    simp [ha]

theorem toCompleteCore_isFinal (wf : d.WF) (ht : trap ∉ d.states) (s : Option σ) :
    (d.toCompleteCore trap).isFinal (some (s.getD trap)) = d.isFinal s := by
  cases s with
  | none =>
    have : trap ∉ d.finals := fun h => ht (wf.finalsOk _ h)
    simp [isFinal, toCompleteCore, this]
  | some q => rfl

theorem toCompleteCore_run (wf : d.WF) (ht : trap ∉ d.states) (w : List α) :
    ∀ s, d.Good s →
      (d.toCompleteCore trap).isFinal ((d.toCompleteCore trap).run (some (s.getD trap)) w) =
        d.isFinal (d.run s w) := by
  induction w with
  | nil => intro s _; exact toCompleteCore_isFinal wf ht s
  | cons a w ih =>
    intro s hs
    rw [run_cons, run_cons]
    by_cases ha : a ∈ d.syms
    · rw [toCompleteCore_step? wf ht hs ha]
      exact ih _ (good_step wf a hs)
    · have h1 : (d.toCompleteCore trap).step? (some (s.getD trap)) a = none :=
        step?_foreign (toCompleteCore_wf wf) _ ha
      rw [h1, step?_foreign wf s ha, run_none, run_none]; rfl

/-- **`_to_complete` keeps the verdict on every word.** -/
theorem toCompleteCore_accepts (wf : d.WF) (ht : trap ∉ d.states) (w : List α) :
    (d.toCompleteCore trap).accepts w = d.accepts w :=
  toCompleteCore_run wf ht w (some d.init) wf.initOk

end toComplete

/-! ### `to_complete` -/

theorem toComplete_of_not_partial (d : DFA σ α) (trap : σ) (custom : Bool)
    (h : d.looksPartial = false) : d.toComplete trap custom = .ok d := by
  simp [toComplete, h]

theorem toComplete_custom_taken (d : DFA σ α) (trap : σ) (h : d.looksPartial = true)
    (ht : trap ∈ d.states) : d.toComplete trap true = .error (.lib .invalidStateError) := by
  simp [toComplete, h, ht]

theorem toComplete_of_partial (d : DFA σ α) (trap : σ) (custom : Bool) (h : d.looksPartial = true)
    (ht : custom = false ∨ trap ∉ d.states) : d.toComplete trap custom = .ok (d.toCompleteCore trap) := by
  rcases ht with ht | ht
  · simp [toComplete, h, ht]
  · simp [toComplete, h, ht]

/-! ### `complement(minify=False)` -/

section complement
variable {c : DFA σ α}

theorem complementPlain_wf (wf : c.WF) (hc : c.IsComplete) : c.complementPlain.WF :=
  ⟨wf.rows, fun _ => hc, wf.symsOk, wf.tgtOk, wf.initOk, fun _ hq => (List.mem_filter.mp hq).1⟩

theorem complementPlain_pyShape (p : c.PyShape) : c.complementPlain.PyShape :=
  ⟨p.states_nodup, p.syms_nodup, List.Nodup.sublist List.filter_sublist p.states_nodup,
    p.keys_nodup, p.rows_nodup⟩

theorem complementPlain_run (s : Option σ) (w : List α) : c.complementPlain.run s w = c.run s w := rfl

/-- **Complement is relative to the alphabet**: a word is accepted iff all its symbols are
alphabet symbols and the (complete) operand rejects it. -/
theorem complementPlain_accepts (wf : c.WF) (hc : c.IsComplete) (w : List α) :
    c.complementPlain.accepts w = ((w.all fun a => decide (a ∈ c.syms)) && !c.accepts w) := by
  unfold accepts
  change c.complementPlain.isFinal (c.complementPlain.run (some c.init) w) = _
  rw [complementPlain_run]
  cases hw : (w.all fun a => decide (a ∈ c.syms)) with
  | false => rw [run_not_over wf w _ hw]; rfl
  | true =>
    obtain ⟨q', hr, hq'⟩ := run_over wf hc w c.init wf.initOk hw
    rw [hr]
    simp only [isFinal, complementPlain, List.mem_filter, hq', true_and, Bool.true_and]
    by_cases hf : q' ∈ c.finals <;> simp [hf]

end complement

-- `DFA.complementFull` (`complement(minify=False)` as the code composes it) is defined in
-- Model/DFAComplement.lean: the driver command DFA_COMPLEMENT executes that very definition.

end C04
end AV
