/-
Proofs/CtorFLInv.lean — from_finite_language (C15), layer B2: the invariant of the incremental
construction ("the table is a quotient of the trie of the words added so far; the prefixes of
the current word up to `k` are still trie nodes, everything else is registered") and its
preservation by `add_to_trie`.  Core only.
-/
import AutomataVerif.Proofs.CtorFLAdd

namespace AV.Ctor.FL

set_option linter.unusedSectionVars false
set_option linter.unusedVariables false
set_option linter.unusedSimpArgs false

variable {α : Type} [DecidableEq α]

/-- `p` is a prefix of an added word (a node of the trie of `added`). -/
def InTrie (added : List (List α)) (p : List α) : Prop := ∃ w ∈ added, p <+: w

theorem inTrie_append (added : List (List α)) (next p : List α) :
    InTrie (added ++ [next]) p ↔ InTrie added p ∨ p <+: next := by
  unfold InTrie
  constructor
  · rintro ⟨w, hw, hp⟩
    rcases List.mem_append.mp hw with h | h
    · exact Or.inl ⟨w, h, hp⟩
    · simp only [List.mem_singleton] at h; subst h; exact Or.inr hp
  · rintro (⟨w, hw, hp⟩ | hp)
    · exact ⟨w, List.mem_append_left _ hw, hp⟩
    · exact ⟨next, by simp, hp⟩

theorem InTrie.prefix {added : List (List α)} {p q : List α} (h : InTrie added p) (hq : q <+: p) :
    InTrie added q := by
  obtain ⟨w, hw, hp⟩ := h; exact ⟨w, hw, hq.trans hp⟩

theorem prefix_eq_take {p w : List α} (h : p <+: w) : p = w.take p.length := by
  obtain ⟨t, rfl⟩ := h; simp

open Classical in
/-- Extension of the ghost map by the identity on new trie nodes. -/
noncomputable def extφ (added : List (List α)) (φ : List α → List α) (p : List α) : List α :=
  if InTrie added p then φ p else p

theorem extφ_old {added : List (List α)} {φ : List α → List α} {p : List α} (h : InTrie added p) :
    extφ added φ p = φ p := by unfold extφ; simp [h]

theorem extφ_new {added : List (List α)} {φ : List α → List α} {p : List α} (h : ¬ InTrie added p) :
    extφ added φ p = p := by unfold extφ; simp [h]

open Classical in
/-- The invariant.  `φ` (ghost) maps every trie node to the state that represents it. -/
structure FLInv (added : List (List α)) (cur : List α) (k : Nat) (s : FLState α)
    (φ : List α → List α) : Prop where
  kle : k ≤ cur.length
  curTrie : added ≠ [] → cur ∈ added
  keysNodup : (akeys s.trans).Nodup
  rowsNodup : ∀ q row, alookup q s.trans = some row → (akeys row).Nodup
  active : ∀ i, i ≤ k → φ (cur.take i) = cur.take i
  activeOnly : ∀ p, InTrie added p → ∀ i, i ≤ k → φ p = cur.take i → p = cur.take i
  dom : ∀ p, InTrie added p → φ p ∈ akeys s.trans
  surj : ∀ q ∈ akeys s.trans, ∃ p, InTrie added p ∧ φ p = q
  step : ∀ p a, InTrie added p →
    look s (φ p) a = if InTrie added (p ++ [a]) then some (φ (p ++ [a])) else none
  fin : ∀ p, InTrie added p → (φ p ∈ s.finals ↔ p ∈ added)
  finKeys : ∀ q ∈ s.finals, q ∈ akeys s.trans
  regIff : ∀ q, q ∈ avals s.sigs ↔ (q ∈ akeys s.trans ∧ ∀ i, i ≤ k → q ≠ cur.take i)
  sigOK : ∀ e ∈ s.sigs, ∃ row, alookup e.2 s.trans = some row ∧ e.1 = (decide (e.2 ∈ s.finals), row)
  regClosed : ∀ q ∈ avals s.sigs, ∀ a t, look s q a = some t → t ∈ avals s.sigs
  activeKids : ∀ i, i ≤ k → ∀ a t, look s (cur.take i) a = some t →
    (i < k ∧ cur[i]? = some a ∧ t = cur.take (i + 1)) ∨ t ∈ avals s.sigs
  backSup : ∀ q a t, look s q a = some t → ∃ b, alookup t s.back = some b ∧ q ∈ b
  backKeys : ∀ q ∈ akeys s.trans, q ∈ akeys s.back
  backActive : ∀ i, 1 ≤ i → i ≤ k → alookup (cur.take i) s.back = some [cur.take (i - 1)]
  namesT : ∀ q ∈ akeys s.trans, InTrie added q
  namesB : ∀ q ∈ akeys s.back, q = [] ∨ InTrie added q
  rootBack : ([] : List α) ∈ akeys s.back

/-- The initial state of the construction. -/
def s0 : FLState α := { trans := [], back := [([], [])], finals := [], sigs := [] }

theorem inv_init : FLInv ([] : List (List α)) [] 0 s0 id := by
  refine
    { kle := Nat.le_refl _
      curTrie := fun h => absurd rfl h
      keysNodup := by simp [s0, akeys]
      rowsNodup := fun q row h => by simp [s0] at h
      active := fun i _ => rfl
      activeOnly := fun p hp => by obtain ⟨w, hw, _⟩ := hp; cases hw
      dom := fun p hp => by obtain ⟨w, hw, _⟩ := hp; cases hw
      surj := fun q hq => by simp [s0, akeys] at hq
      step := fun p a hp => by obtain ⟨w, hw, _⟩ := hp; cases hw
      fin := fun p hp => by obtain ⟨w, hw, _⟩ := hp; cases hw
      finKeys := fun q hq => by simp [s0] at hq
      regIff := fun q => by simp [s0, akeys, avals]
      sigOK := fun e he => by simp [s0] at he
      regClosed := fun q hq => by simp [s0, avals] at hq
      activeKids := fun i _ a t h => by simp [look, s0] at h
      backSup := fun q a t h => by simp [look, s0] at h
      backKeys := fun q hq => by simp [s0, akeys] at hq
      backActive := fun i h1 h2 => by omega
      namesT := fun q hq => by simp [s0, akeys] at hq
      namesB := fun q hq => by simp [s0, akeys] at hq; exact Or.inl hq
      rootBack := by simp [s0, akeys] }

theorem take_of_take_eq {u v : List α} {k j : Nat} (h : u.take k = v.take k) (hj : j ≤ k) :
    u.take j = v.take j := by
  have := congrArg (List.take j) h
  rwa [List.take_take, List.take_take, Nat.min_eq_left hj] at this

theorem getElem?_of_take_eq {u v : List α} {k j : Nat} (h : u.take k = v.take k) (hj : j < k) :
    u[j]? = v[j]? := by
  have := congrArg (fun l => l[j]?) h
  simp only [List.getElem?_take, hj, if_true] at this
  exact this

open Classical in
/-- `add_to_trie(next)` preserves the invariant, when `next` shares exactly its first `k`
symbols with the trie (the sortedness facts supplied by the caller). -/
theorem add_inv {added : List (List α)} {cur : List α} {k : Nat} {s : FLState α}
    {φ : List α → List α} (inv : FLInv added cur k s φ) (next : List α)
    (hk : next.take k = cur.take k) (hkn : k ≤ next.length)
    (hfresh : ∀ q, q <+: next → k < q.length → ¬ InTrie added q)
    (hcommon : ∀ p, InTrie added p → p <+: next → p.length ≤ k)
    (hnew : ¬ InTrie added next) :
    ∃ φ', FLInv (added ++ [next]) next next.length (flAddWord s next) φ' := by
  have e := flAddWord_effect s next
  -- facts about the prefixes of next
  have F1 : ∀ j, j ≤ k → next.take j = cur.take j := fun j hj => take_of_take_eq hk hj
  have F2 : ∀ j, j ≤ next.length → k < j → ¬ InTrie added (next.take j) := by
    intro j hj hkj
    apply hfresh _ (List.take_prefix _ _)
    rw [List.length_take]; omega
  have F3 : ∀ j, j ≤ next.length → next.take j ∈ akeys s.trans → j ≤ k := by
    intro j hj hm
    apply Classical.byContradiction; intro h
    exact F2 j hj (by omega) (inv.namesT _ hm)
  have hnextkey : next ∉ akeys s.trans := fun h => hnew (inv.namesT _ h)
  have F4 := inTrie_append added next
  refine ⟨extφ added φ, ?_⟩
  have hφold : ∀ p, InTrie added p → extφ added φ p = φ p := fun p hp => extφ_old hp
  have hφnew : ∀ p, ¬ InTrie added p → extφ added φ p = p := fun p hp => extφ_new hp
  -- the states of old trie nodes are old keys, hence not new prefixes
  have hold_ne : ∀ p, InTrie added p → ∀ j, j ≤ next.length → k < j → φ p ≠ next.take j := by
    intro p hp j hj hkj e'
    have := inv.dom p hp
    rw [e'] at this
    have := F3 j hj this
    omega
  have hne_next : ∀ q, q ∈ akeys s.trans → q ≠ next := fun q hq e' => hnextkey (e' ▸ hq)
  have hlook_fresh : ∀ q b, q ∉ akeys s.trans → look s q b = none := by
    intro q b hq
    unfold look
    rw [alookup_eq_none_iff.mpr hq]; rfl
  have hkeep : ∀ t, t ∈ akeys s.back → t ∈ akeys (flAddWord s next).back := by
    intro t ht
    rw [← alookup_isSome_iff] at ht ⊢
    rw [e.back]
    split
    · rfl
    · exact ht
  refine
    { kle := Nat.le_refl _
      curTrie := fun _ => by simp
      keysNodup := e.keysNodup inv.keysNodup
      rowsNodup := e.rowsNodup inv.rowsNodup
      active := ?_
      activeOnly := ?_
      dom := ?_
      surj := ?_
      step := ?_
      fin := ?_
      finKeys := ?_
      regIff := ?_
      sigOK := ?_
      regClosed := ?_
      activeKids := ?_
      backSup := ?_
      backKeys := ?_
      backActive := ?_
      namesT := ?_
      namesB := ?_
      rootBack := hkeep _ inv.rootBack }
  · -- active
    intro i hi
    by_cases h : InTrie added (next.take i)
    · rw [hφold _ h]
      have hik : i ≤ k := by
        apply Classical.byContradiction; intro h2
        exact F2 i hi (by omega) h
      rw [F1 i hik]; exact inv.active i hik
    · exact hφnew _ h
  · -- activeOnly
    intro p hp i hi hφ
    by_cases h : InTrie added p
    · rw [hφold _ h] at hφ
      have hik : i ≤ k := by
        apply Classical.byContradiction; intro h2
        exact hold_ne p h i hi (by omega) hφ
      rw [F1 i hik] at hφ ⊢
      exact inv.activeOnly p h i hik hφ
    · rw [hφnew _ h] at hφ; exact hφ
  · -- dom
    intro p hp
    rw [e.keys]
    by_cases h : InTrie added p
    · rw [hφold _ h]; exact Or.inl (inv.dom p h)
    · rw [hφnew _ h]
      rcases (F4 p).mp hp with h1 | h1
      · exact absurd h1 h
      · exact Or.inr ⟨p.length, h1.length_le, prefix_eq_take h1⟩
  · -- surj
    intro q hq
    rcases (e.keys q).mp hq with h | ⟨j, hj, rfl⟩
    · obtain ⟨p, hp, hφ⟩ := inv.surj q h
      exact ⟨p, (F4 p).mpr (Or.inl hp), by rw [hφold _ hp]; exact hφ⟩
    · refine ⟨next.take j, (F4 _).mpr (Or.inr (List.take_prefix _ _)), ?_⟩
      by_cases h : InTrie added (next.take j)
      · rw [hφold _ h]
        have hjk : j ≤ k := by
          apply Classical.byContradiction; intro h2
          exact F2 j hj (by omega) h
        rw [F1 j hjk]; exact inv.active j hjk
      · exact hφnew _ h
  · -- step
    intro p a hp
    by_cases h : InTrie added p
    · rw [hφold _ h, e.look_ne _ _ (hne_next _ (inv.dom p h)), inv.step p a h]
      by_cases h2 : InTrie added (p ++ [a])
      · have : InTrie (added ++ [next]) (p ++ [a]) := (F4 _).mpr (Or.inl h2)
        simp only [h2, if_true, this]
        rw [hφold _ h2]
      · simp only [h2, if_false]
        by_cases h3 : p ++ [a] <+: next
        · -- the edge is created by the walk, at an active node
          have hp' : p <+: next := (List.prefix_append p [a]).trans h3
          have hpk : p.length ≤ k := hcommon p h hp'
          have hpt : p = next.take p.length := prefix_eq_take hp'
          have hpc : p = cur.take p.length := by rw [← F1 _ hpk]; exact hpt
          have hφp : φ p = p := by
            have := inv.active p.length hpk
            rw [← hpc] at this; exact this
          have hlt : p.length < next.length := by
            have := h3.length_le; simp at this; omega
          have ha : next[p.length]? = some a := by
            obtain ⟨t, ht⟩ := h3
            rw [← ht]; simp
          have hex : ∃ j, j < next.length ∧ φ p = next.take j ∧ next[j]? = some a :=
            ⟨p.length, hlt, by rw [hφp]; exact hpt, ha⟩
          have hin : InTrie (added ++ [next]) (p ++ [a]) := (F4 _).mpr (Or.inr h3)
          rw [if_pos hex, if_pos hin, hφp, hφnew _ h2]
        · have hnin : ¬ InTrie (added ++ [next]) (p ++ [a]) := by
            intro h4; rcases (F4 _).mp h4 with h5 | h5
            · exact h2 h5
            · exact h3 h5
          have hnex : ¬ ∃ j, j < next.length ∧ φ p = next.take j ∧ next[j]? = some a := by
            rintro ⟨j, hj, e1, e2⟩
            have hjk : j ≤ k := by
              apply Classical.byContradiction; intro h5
              exact hold_ne p h j (Nat.le_of_lt hj) (by omega) e1
            rw [F1 j hjk] at e1
            have := inv.activeOnly p h j hjk e1
            apply h3
            rw [this, ← F1 j hjk]
            have : next.take j ++ [a] = next.take (j + 1) := by
              rw [List.take_add_one, e2]; rfl
            rw [this]; exact List.take_prefix _ _
          rw [if_neg hnex, if_neg hnin]
    · -- a new node: a proper prefix of next beyond the common part, or next itself
      rw [hφnew _ h]
      have hp' : p <+: next := by
        rcases (F4 p).mp hp with h1 | h1
        · exact absurd h1 h
        · exact h1
      have hpt : p = next.take p.length := prefix_eq_take hp'
      have hpkey : p ∉ akeys s.trans := fun hm => h (inv.namesT _ hm)
      rw [e.look]
      by_cases hpn : p = next
      · subst hpn
        simp only [if_true]
        have : ¬ InTrie (added ++ [p]) (p ++ [a]) := by
          intro h4
          rcases (F4 _).mp h4 with h5 | h5
          · exact hnew (h5.prefix (List.prefix_append _ _))
          · have := h5.length_le; simp at this; omega
        simp [this]
      · simp only [hpn, if_false, hlook_fresh p a hpkey]
        have hlt : p.length < next.length := by
          have h1 := hp'.length_le
          have : p.length ≠ next.length := fun e' => hpn (hp'.eq_of_length e')
          omega
        have hnot_old : ¬ InTrie added (p ++ [a]) := fun h4 => h (h4.prefix (List.prefix_append _ _))
        by_cases ha : next[p.length]? = some a
        · have hex : ∃ j, j < next.length ∧ p = next.take j ∧ next[j]? = some a := ⟨p.length, hlt, hpt, ha⟩
          have hpre : p ++ [a] <+: next := by
            have : p ++ [a] = next.take (p.length + 1) := by
              rw [List.take_add_one, ha, ← hpt]; rfl
            rw [this]; exact List.take_prefix _ _
          rw [if_pos hex, if_pos ((F4 _).mpr (Or.inr hpre)), hφnew _ hnot_old]
        · have hnex : ¬ ∃ j, j < next.length ∧ p = next.take j ∧ next[j]? = some a := by
            rintro ⟨j, hj, e1, e2⟩
            have : j = p.length := by
              have := congrArg List.length e1
              rw [List.length_take] at this; omega
            rw [this] at e2; exact ha e2
          have hnin : ¬ InTrie (added ++ [next]) (p ++ [a]) := by
            intro h4
            rcases (F4 _).mp h4 with h5 | h5
            · exact hnot_old h5
            · apply ha
              obtain ⟨t, ht⟩ := h5
              rw [← ht]; simp
          rw [if_neg hnex, if_neg hnin]
  · -- fin
    intro p hp
    rw [e.finals, mem_sinsert]
    by_cases h : InTrie added p
    · rw [hφold _ h]
      have h1 : φ p ≠ next := fun e' => hnextkey (e' ▸ inv.dom p h)
      have h2 : p ≠ next := fun e' => hnew (e' ▸ h)
      simp only [h1, false_or, List.mem_append, List.mem_singleton, h2, or_false]
      exact inv.fin p h
    · rw [hφnew _ h]
      have h1 : p ∉ s.finals := fun hm => h (inv.namesT _ (inv.finKeys _ hm))
      have h2 : p ∉ added := fun hm => h ⟨p, hm, List.prefix_refl _⟩
      simp [h1, h2]
  · -- finKeys
    intro q hq
    rw [e.finals, mem_sinsert] at hq
    rw [e.keys]
    rcases hq with rfl | hq
    · exact Or.inr ⟨q.length, Nat.le_refl _, by simp⟩
    · exact Or.inl (inv.finKeys q hq)
  · -- regIff
    intro q
    rw [e.sigs, inv.regIff, e.keys]
    constructor
    · rintro ⟨h1, h2⟩
      refine ⟨Or.inl h1, ?_⟩
      intro i hi e'
      have hik : i ≤ k := F3 i hi (e' ▸ h1)
      rw [F1 i hik] at e'
      exact h2 i hik e'
    · rintro ⟨h1, h2⟩
      rcases h1 with h1 | ⟨j, hj, rfl⟩
      · refine ⟨h1, ?_⟩
        intro i hi e'
        rw [← F1 i hi] at e'
        exact h2 i (by omega) e'
      · exact absurd rfl (h2 j hj)
  · -- sigOK
    intro x hx
    rw [e.sigs] at hx
    obtain ⟨row, hr, hs⟩ := inv.sigOK x hx
    have hreg : x.2 ∈ avals s.sigs := List.mem_map.mpr ⟨x, hx, rfl⟩
    obtain ⟨hkey, hne⟩ := (inv.regIff _).mp hreg
    have hnp : ∀ j, j ≤ next.length → x.2 ≠ next.take j := by
      intro j hj e'
      have hjk : j ≤ k := F3 j hj (e' ▸ hkey)
      rw [F1 j hjk] at e'
      exact hne j hjk e'
    refine ⟨row, by rw [e.row _ hnp]; exact hr, ?_⟩
    rw [hs, e.finals]
    have : x.2 ≠ next := fun e' => hnextkey (e' ▸ hkey)
    simp [mem_sinsert, this]
  · -- regClosed
    intro q hq a t ht
    rw [e.sigs] at hq ⊢
    obtain ⟨hkey, hne⟩ := (inv.regIff _).mp hq
    rw [e.look_ne q a (hne_next q hkey)] at ht
    cases h0 : look s q a with
    | some t' =>
      rw [h0] at ht
      simp only [Option.some.injEq] at ht
      rw [← ht]; exact inv.regClosed q hq a t' h0
    | none =>
      rw [h0] at ht
      simp only at ht
      split at ht
      · rename_i hex
        obtain ⟨j, hj, e1, _⟩ := hex
        have hjk : j ≤ k := F3 j (Nat.le_of_lt hj) (e1 ▸ hkey)
        rw [F1 j hjk] at e1
        exact absurd e1 (hne j hjk)
      · cases ht
  · -- activeKids
    intro i hi a t ht
    rw [e.sigs]
    rw [e.look] at ht
    by_cases hin : next.take i = next
    · simp [hin] at ht
    · simp only [hin, if_false] at ht
      have hilt : i < next.length := by
        apply Classical.byContradiction; intro h
        exact hin (List.take_of_length_le (by omega))
      cases h0 : look s (next.take i) a with
      | some t' =>
        rw [h0] at ht
        simp only [Option.some.injEq] at ht
        subst ht
        -- an old edge from an active node
        have hkey : next.take i ∈ akeys s.trans := by
          apply Classical.byContradiction; intro h
          rw [hlook_fresh _ a h] at h0; cases h0
        have hik : i ≤ k := F3 i hi hkey
        rw [F1 i hik] at h0
        rcases inv.activeKids i hik a t' h0 with ⟨h1, h2, h3⟩ | h1
        · left
          refine ⟨hilt, ?_, ?_⟩
          · rw [getElem?_of_take_eq hk h1]; exact h2
          · rw [h3, F1 (i + 1) (by omega)]
        · exact Or.inr h1
      | none =>
        rw [h0] at ht
        simp only at ht
        split at ht
        · rename_i hex
          obtain ⟨j, hj, e1, e2⟩ := hex
          have hji : j = i := by
            have := congrArg List.length e1
            rw [List.length_take, List.length_take] at this; omega
          subst hji
          simp only [Option.some.injEq] at ht
          left
          refine ⟨hilt, e2, ?_⟩
          rw [← ht, List.take_add_one, e2]; rfl
        · cases ht
  · -- backSup
    intro q a t ht
    rw [e.look] at ht
    by_cases hqn : q = next
    · simp [hqn] at ht
    · simp only [hqn, if_false] at ht
      cases h0 : look s q a with
      | some t' =>
        rw [h0] at ht
        simp only [Option.some.injEq] at ht
        subst ht
        obtain ⟨b, hb, hqb⟩ := inv.backSup q a t' h0
        rw [e.back]
        by_cases hex : ∃ j, j < next.length ∧ t' = next.take (j + 1)
        · rw [if_pos hex]
          refine ⟨_, rfl, ?_⟩
          rw [hb]; simp [mem_sinsert, hqb]
        · rw [if_neg hex]; exact ⟨b, hb, hqb⟩
      | none =>
        rw [h0] at ht
        simp only at ht
        split at ht
        · rename_i hex
          obtain ⟨j, hj, e1, e2⟩ := hex
          simp only [Option.some.injEq] at ht
          have htj : t = next.take (j + 1) := by
            rw [← ht, e1, List.take_add_one, e2]; rfl
          rw [e.back, if_pos ⟨j, hj, htj⟩]
          refine ⟨_, rfl, ?_⟩
          rw [mem_sinsert]
          left
          rw [← ht]; simp
        · cases ht
  · -- backKeys
    intro q hq
    rcases (e.keys q).mp hq with h | ⟨j, hj, rfl⟩
    · exact hkeep q (inv.backKeys q h)
    · cases j with
      | zero => simpa using hkeep _ inv.rootBack
      | succ j =>
        rw [← alookup_isSome_iff, e.back, if_pos ⟨j, by omega, rfl⟩]; rfl
  · -- backActive
    intro i h1 hi
    rw [e.back]
    obtain ⟨j, rfl⟩ : ∃ j, i = j + 1 := ⟨i - 1, by omega⟩
    rw [if_pos ⟨j, by omega, rfl⟩]
    have hjlt : j < next.length := by omega
    have hdl : (next.take (j + 1)).dropLast = next.take j := by
      rw [List.take_add_one, List.getElem?_eq_getElem hjlt]
      simp only [Option.toList_some]
      exact List.dropLast_concat
    rw [hdl]
    simp only [Nat.add_sub_cancel]
    by_cases hjk : j + 1 ≤ k
    · rw [F1 (j + 1) hjk, inv.backActive (j + 1) (by omega) hjk, F1 j (by omega)]
      simp [sinsert]
    · have : next.take (j + 1) ∉ akeys s.back := by
        intro hm
        rcases inv.namesB _ hm with h | h
        · have := congrArg List.length h
          rw [List.length_take, List.length_nil] at this; omega
        · exact F2 (j + 1) hi (by omega) h
      rw [alookup_eq_none_iff.mpr this]
      simp [sinsert]
  · -- namesT
    intro q hq
    rcases (e.keys q).mp hq with h | ⟨j, hj, rfl⟩
    · exact (F4 q).mpr (Or.inl (inv.namesT q h))
    · exact (F4 _).mpr (Or.inr (List.take_prefix _ _))
  · -- namesB
    intro q hq
    rw [← alookup_isSome_iff, e.back] at hq
    split at hq
    · rename_i hex
      obtain ⟨j, hj, rfl⟩ := hex
      exact Or.inr ((F4 _).mpr (Or.inr (List.take_prefix _ _)))
    · rcases inv.namesB q (alookup_isSome_iff.mp hq) with h | h
      · exact Or.inl h
      · exact Or.inr ((F4 q).mpr (Or.inl h))

end AV.Ctor.FL
