/-
Proofs/Basic.lean — lemmas about the list-as-set / association-list vocabulary and
the generic BFS (core only).
-/
import AutomataVerif.Model.Basic

namespace AV

set_option linter.unusedSectionVars false

variable {κ β σ : Type} [DecidableEq κ] [DecidableEq β] [DecidableEq σ]

/-! ### association lists -/

omit [DecidableEq β] in
@[simp] theorem alookup_nil (k : κ) : alookup k ([] : List (κ × β)) = none := rfl

omit [DecidableEq β] in
theorem alookup_cons (k k' : κ) (v : β) (t : List (κ × β)) :
    alookup k ((k', v) :: t) = if k' = k then some v else alookup k t := rfl

omit [DecidableEq β] in
theorem alookup_some_mem {k : κ} {v : β} {d : List (κ × β)} (h : alookup k d = some v) :
    (k, v) ∈ d := by
  induction d with
  | nil => simp at h
  | cons kv t ih =>
    obtain ⟨k', v'⟩ := kv
    rw [alookup_cons] at h
    split at h
    · rename_i hk; cases h; subst hk; simp
    · exact List.mem_cons_of_mem _ (ih h)

omit [DecidableEq β] in
theorem alookup_isSome_iff {k : κ} {d : List (κ × β)} :
    (alookup k d).isSome ↔ k ∈ akeys d := by
  induction d with
  | nil => simp [akeys]
  | cons kv t ih =>
    obtain ⟨k', v'⟩ := kv
    rw [alookup_cons]
    by_cases hk : k' = k
    · simp [hk, akeys]
    · simp only [hk, if_false, akeys, List.map_cons, List.mem_cons]
      rw [ih]
      constructor
      · intro h; exact Or.inr h
      · rintro (h | h)
        · exact absurd h.symm hk
        · exact h

omit [DecidableEq β] in
theorem ahas_iff {k : κ} {d : List (κ × β)} : ahas k d = true ↔ k ∈ akeys d := by
  unfold ahas; exact alookup_isSome_iff

omit [DecidableEq β] in
theorem alookup_eq_none_iff {k : κ} {d : List (κ × β)} : alookup k d = none ↔ k ∉ akeys d := by
  rw [← alookup_isSome_iff]; cases alookup k d <;> simp

omit [DecidableEq β] in
theorem alookup_some_val_mem {k : κ} {v : β} {d : List (κ × β)} (h : alookup k d = some v) :
    v ∈ avals d := by
  have := alookup_some_mem h
  exact List.mem_map.mpr ⟨(k, v), this, rfl⟩

omit [DecidableEq β] in
theorem alookup_some_key_mem {k : κ} {v : β} {d : List (κ × β)} (h : alookup k d = some v) :
    k ∈ akeys d := by
  have := alookup_some_mem h
  exact List.mem_map.mpr ⟨(k, v), this, rfl⟩

omit [DecidableEq β] in
theorem alookup_of_mem_nodup {k : κ} {v : β} {d : List (κ × β)} (hnd : (akeys d).Nodup)
    (h : (k, v) ∈ d) : alookup k d = some v := by
  induction d with
  | nil => cases h
  | cons kv t ih =>
    obtain ⟨k', v'⟩ := kv
    rw [alookup_cons]
    simp only [akeys, List.map_cons, List.nodup_cons] at hnd
    rcases List.mem_cons.mp h with h | h
    · cases h; simp
    · have hk : k' ≠ k := by
        intro e; subst e
        exact hnd.1 (List.mem_map.mpr ⟨(k', v), h, rfl⟩)
      simp only [hk, if_false]
      exact ih hnd.2 h

/-! ### lists as sets -/

@[simp] theorem mem_sinsert {x y : β} {l : List β} : y ∈ sinsert x l ↔ y = x ∨ y ∈ l := by
  unfold sinsert
  split
  · constructor
    · exact Or.inr
    · rintro (h | h)
      · subst h; assumption
      · exact h
  · simp [or_comm]

theorem nodup_sinsert {x : β} {l : List β} (h : l.Nodup) : (sinsert x l).Nodup := by
  unfold sinsert
  split
  · exact h
  · rename_i hx
    rw [List.nodup_append]
    refine ⟨h, by simp, ?_⟩
    intro a ha b hb
    simp at hb
    subst hb
    intro hab
    subst hab
    exact hx ha

@[simp] theorem mem_sunion {y : β} {l r : List β} : y ∈ sunion l r ↔ y ∈ l ∨ y ∈ r := by
  unfold sunion
  induction r generalizing l with
  | nil => simp
  | cons x t ih =>
    simp only [List.foldl_cons]
    rw [ih]
    simp only [mem_sinsert, List.mem_cons]
    constructor
    · rintro ((h | h) | h)
      · exact Or.inr (Or.inl h)
      · exact Or.inl h
      · exact Or.inr (Or.inr h)
    · rintro (h | h | h)
      · exact Or.inl (Or.inr h)
      · exact Or.inl (Or.inl h)
      · exact Or.inr h

theorem nodup_sunion {l r : List β} (h : l.Nodup) : (sunion l r).Nodup := by
  unfold sunion
  induction r generalizing l with
  | nil => simpa
  | cons x t ih =>
    simp only [List.foldl_cons]
    exact ih (nodup_sinsert h)

theorem sunion_prefix (l r : List β) : ∃ s, sunion l r = l ++ s ∧ (∀ y, y ∈ s → y ∈ r) := by
  unfold sunion
  induction r generalizing l with
  | nil => exact ⟨[], by simp⟩
  | cons x t ih =>
    simp only [List.foldl_cons]
    obtain ⟨s, hs, hmem⟩ := ih (sinsert x l)
    by_cases hx : x ∈ l
    · have e : sinsert x l = l := by unfold sinsert; simp [hx]
      rw [e] at hs ⊢
      exact ⟨s, hs, fun y hy => List.mem_cons_of_mem _ (hmem y hy)⟩
    · have e : sinsert x l = l ++ [x] := by unfold sinsert; simp [hx]
      rw [e] at hs ⊢
      refine ⟨x :: s, ?_, ?_⟩
      · simpa using hs
      · intro y hy
        rcases List.mem_cons.mp hy with h | h
        · subst h; simp
        · exact List.mem_cons_of_mem _ (hmem y h)

@[simp] theorem mem_dedup {y : β} {l : List β} : y ∈ dedup l ↔ y ∈ l := by
  unfold dedup; simp

theorem nodup_dedup (l : List β) : (dedup l).Nodup := by
  unfold dedup; exact nodup_sunion List.nodup_nil

/-! ### reachability and BFS -/

/-- Reflexive–transitive closure of the successor relation given by `succ`. -/
inductive Reach (succ : σ → List σ) : σ → σ → Prop
  | refl (a : σ) : Reach succ a a
  | tail {a b c : σ} : Reach succ a b → c ∈ succ b → Reach succ a c

theorem Reach.trans {succ : σ → List σ} {a b c : σ} (h₁ : Reach succ a b) (h₂ : Reach succ b c) :
    Reach succ a c := by
  induction h₂ with
  | refl => exact h₁
  | tail _ hc ih => exact Reach.tail ih hc

theorem Reach.head {succ : σ → List σ} {a b c : σ} (h : b ∈ succ a) (h₂ : Reach succ b c) :
    Reach succ a c :=
  Reach.trans (Reach.tail (Reach.refl a) h) h₂

/-- A set (list) closed under `succ` that contains `a` contains everything reachable from `a`. -/
theorem Reach.mem_of_closed {succ : σ → List σ} {S : List σ}
    (hcl : ∀ u ∈ S, ∀ v ∈ succ u, v ∈ S) {a b : σ} (h : Reach succ a b) (ha : a ∈ S) : b ∈ S := by
  induction h with
  | refl => exact ha
  | tail _ hc ih => exact hcl _ ih _ hc

section bfs
variable (succ : σ → List σ)

/-- Soundness invariant: everything in `vis` is reachable from a source. -/
theorem bfsAux_sound (srcs : List σ) :
    ∀ (fuel : Nat) (work vis : List σ),
      (∀ v ∈ work, v ∈ vis) →
      (∀ v ∈ vis, ∃ s ∈ srcs, Reach succ s v) →
      ∀ v ∈ bfsAux succ fuel work vis, ∃ s ∈ srcs, Reach succ s v := by
  intro fuel
  induction fuel with
  | zero => intro work vis _ hvis v hv; exact hvis v (by simpa [bfsAux] using hv)
  | succ n ih =>
    intro work vis hw hvis v hv
    cases work with
    | nil => exact hvis v (by simpa [bfsAux] using hv)
    | cons q work =>
      simp only [bfsAux] at hv
      refine ih _ _ ?_ ?_ v hv
      · intro x hx
        rcases List.mem_append.mp hx with h | h
        · exact List.mem_append_left _ (hw x (List.mem_cons_of_mem _ h))
        · exact List.mem_append_right _ h
      · intro x hx
        rcases List.mem_append.mp hx with h | h
        · exact hvis x h
        · rw [mem_dedup, List.mem_filter] at h
          obtain ⟨s, hs, hr⟩ := hvis q (hw q (by simp))
          exact ⟨s, hs, Reach.tail hr h.1⟩

/-- Completeness invariant: with enough fuel the result contains `vis` and is closed
under `succ`, provided the processed part of `vis` already is. -/
theorem bfsAux_closed (univ : List σ) (huniv : ∀ u ∈ univ, ∀ v ∈ succ u, v ∈ univ) :
    ∀ (fuel : Nat) (work vis : List σ),
      vis.Nodup → (∀ v ∈ vis, v ∈ univ) → (∀ v ∈ work, v ∈ vis) →
      (∀ u ∈ vis, u ∉ work → ∀ v ∈ succ u, v ∈ vis) →
      work.length + (univ.length - vis.length) < fuel →
      (∀ v ∈ vis, v ∈ bfsAux succ fuel work vis) ∧
      (∀ u ∈ bfsAux succ fuel work vis, ∀ v ∈ succ u, v ∈ bfsAux succ fuel work vis) ∧
      (∀ v ∈ bfsAux succ fuel work vis, v ∈ univ) ∧ (bfsAux succ fuel work vis).Nodup := by
  intro fuel
  induction fuel with
  | zero => intro work vis _ _ _ _ hf; omega
  | succ n ih =>
    intro work vis hnd hvu hw hproc hf
    cases work with
    | nil =>
      simp only [bfsAux]
      exact ⟨fun v hv => hv, fun u hu v hv => hproc u hu (by simp) v hv, hvu, hnd⟩
    | cons q work =>
      simp only [bfsAux]
      have hq : q ∈ vis := hw q (by simp)
      have hnew_nodup : (dedup ((succ q).filter fun t => decide (t ∉ vis))).Nodup := nodup_dedup _
      have hnew_mem : ∀ x, x ∈ dedup ((succ q).filter fun t => decide (t ∉ vis)) ↔ x ∈ succ q ∧ x ∉ vis := by
        intro x; rw [mem_dedup, List.mem_filter]; simp
      have hnd' : (vis ++ dedup ((succ q).filter fun t => decide (t ∉ vis))).Nodup := by
        rw [List.nodup_append]
        refine ⟨hnd, hnew_nodup, ?_⟩
        intro a ha b hb hab
        subst hab
        exact ((hnew_mem a).mp hb).2 ha
      have hvu' : ∀ v ∈ vis ++ dedup ((succ q).filter fun t => decide (t ∉ vis)), v ∈ univ := by
        intro v hv
        rcases List.mem_append.mp hv with h | h
        · exact hvu v h
        · exact huniv q (hvu q hq) v ((hnew_mem v).mp h).1
      have hlen : (vis ++ dedup ((succ q).filter fun t => decide (t ∉ vis))).length ≤ univ.length :=
        List.Nodup.length_le_of_subset hnd' (fun v hv => hvu' v hv)
      have hres := ih (work ++ dedup ((succ q).filter fun t => decide (t ∉ vis)))
        (vis ++ dedup ((succ q).filter fun t => decide (t ∉ vis))) hnd' hvu' ?_ ?_ ?_
      · obtain ⟨h1, h2, h3, h4⟩ := hres
        exact ⟨fun v hv => h1 v (List.mem_append_left _ hv), h2, h3, h4⟩
      · intro x hx
        rcases List.mem_append.mp hx with h | h
        · exact List.mem_append_left _ (hw x (List.mem_cons_of_mem _ h))
        · exact List.mem_append_right _ h
      · intro u hu hnw v hv
        have hnw1 : u ∉ work := fun h => hnw (List.mem_append_left _ h)
        have hnw2 : u ∉ dedup ((succ q).filter fun t => decide (t ∉ vis)) :=
          fun h => hnw (List.mem_append_right _ h)
        rcases List.mem_append.mp hu with h | h
        · by_cases huq : u = q
          · subst huq
            by_cases hvv : v ∈ vis
            · exact List.mem_append_left _ hvv
            · exact List.mem_append_right _ ((hnew_mem v).mpr ⟨hv, hvv⟩)
          · have : u ∉ q :: work := by
              intro hh
              rcases List.mem_cons.mp hh with h' | h'
              · exact huq h'
              · exact hnw1 h'
            exact List.mem_append_left _ (hproc u h this v hv)
        · exact absurd h hnw2
      · simp only [List.length_append, List.length_cons] at hf hlen ⊢
        omega

/-- `bfs` computes exactly the states reachable from the sources (inside a closed universe). -/
theorem mem_bfs_iff {univ srcs : List σ} (hsrc : ∀ s ∈ srcs, s ∈ univ)
    (huniv : ∀ u ∈ univ, ∀ v ∈ succ u, v ∈ univ) {v : σ} :
    v ∈ bfs succ univ srcs ↔ ∃ s ∈ srcs, Reach succ s v := by
  unfold bfs
  simp only
  constructor
  · intro hv
    refine bfsAux_sound succ srcs _ _ _ (fun x hx => hx) ?_ v hv
    intro x hx
    exact ⟨x, mem_dedup.mp hx, Reach.refl x⟩
  · rintro ⟨s, hs, hr⟩
    have h := bfsAux_closed succ univ huniv (univ.length + 1) (dedup srcs) (dedup srcs)
      (nodup_dedup _) (fun x hx => hsrc x (mem_dedup.mp hx)) (fun x hx => hx)
      (fun u hu hnu => absurd hu hnu) (by
        have : (dedup srcs).length ≤ univ.length :=
          List.Nodup.length_le_of_subset (nodup_dedup _) (fun x hx => hsrc x (mem_dedup.mp hx))
        omega)
    exact Reach.mem_of_closed h.2.1 hr (h.1 s (mem_dedup.mpr hs))

theorem nodup_bfs {univ srcs : List σ} (hsrc : ∀ s ∈ srcs, s ∈ univ)
    (huniv : ∀ u ∈ univ, ∀ v ∈ succ u, v ∈ univ) : (bfs succ univ srcs).Nodup := by
  unfold bfs
  simp only
  exact (bfsAux_closed succ univ huniv (univ.length + 1) (dedup srcs) (dedup srcs)
      (nodup_dedup _) (fun x hx => hsrc x (mem_dedup.mp hx)) (fun x hx => hx)
      (fun u hu hnu => absurd hu hnu) (by
        have : (dedup srcs).length ≤ univ.length :=
          List.Nodup.length_le_of_subset (nodup_dedup _) (fun x hx => hsrc x (mem_dedup.mp hx))
        omega)).2.2.2

/-- `bfsN` with any fuel above the size of a closed universe computes reachability. -/
theorem mem_bfsN_iff {univ srcs : List σ} {fuel : Nat} (hf : univ.length < fuel)
    (hsrc : ∀ s ∈ srcs, s ∈ univ)
    (huniv : ∀ u ∈ univ, ∀ v ∈ succ u, v ∈ univ) {v : σ} :
    v ∈ bfsN succ fuel srcs ↔ ∃ s ∈ srcs, Reach succ s v := by
  unfold bfsN
  simp only
  constructor
  · intro hv
    refine bfsAux_sound succ srcs _ _ _ (fun x hx => hx) ?_ v hv
    intro x hx
    exact ⟨x, mem_dedup.mp hx, Reach.refl x⟩
  · rintro ⟨s, hs, hr⟩
    have h := bfsAux_closed succ univ huniv fuel (dedup srcs) (dedup srcs)
      (nodup_dedup _) (fun x hx => hsrc x (mem_dedup.mp hx)) (fun x hx => hx)
      (fun u hu hnu => absurd hu hnu) (by
        have : (dedup srcs).length ≤ univ.length :=
          List.Nodup.length_le_of_subset (nodup_dedup _) (fun x hx => hsrc x (mem_dedup.mp hx))
        omega)
    exact Reach.mem_of_closed h.2.1 hr (h.1 s (mem_dedup.mpr hs))

theorem nodup_bfsN {univ srcs : List σ} {fuel : Nat} (hf : univ.length < fuel)
    (hsrc : ∀ s ∈ srcs, s ∈ univ)
    (huniv : ∀ u ∈ univ, ∀ v ∈ succ u, v ∈ univ) : (bfsN succ fuel srcs).Nodup := by
  unfold bfsN
  simp only
  exact (bfsAux_closed succ univ huniv fuel (dedup srcs) (dedup srcs)
      (nodup_dedup _) (fun x hx => hsrc x (mem_dedup.mp hx)) (fun x hx => hx)
      (fun u hu hnu => absurd hu hnu) (by
        have : (dedup srcs).length ≤ univ.length :=
          List.Nodup.length_le_of_subset (nodup_dedup _) (fun x hx => hsrc x (mem_dedup.mp hx))
        omega)).2.2.2

end bfs

end AV
