/-
Proofs/RxLexTotal.lean — the lexer on ARBITRARY strings (no `Renders` hypothesis).

`Proofs/RxLex.lean` evaluates the lexer on spellings of documented tokens.  Here every string is
covered: one iteration of `Lexer.lex` at a non-empty text does one of four things
(`lexAux_step`), hence
* a lexing failure is `LexerError`, `InvalidRegexError` or `ValueError`, and `ValueError` only
  when some brace group `{g1,g2}` of the string has a non-empty bound text that `int()` rejects
  (`lex_error_kind`);
* the tokens of a successful run are lexer tokens (`LexTok`) and its symbol tokens are
  non-white-space characters of the string that are not reserved, or a lone brace
  (`lex_ok_lexTok`, `lex_ok_str`).
Core only.
-/
import AutomataVerif.Proofs.RxLex
import AutomataVerif.Proofs.RxValidate

namespace AV.Rx.LexTotal
open AV AV.Rx

set_option linter.unusedSimpArgs false
set_option linter.unusedVariables false

/-! ### `get_token` at every first character -/

theorem getToken_lp (rest : List Char) : getToken ('(' :: rest) = .ok (some ("LeftParen", 1)) := by
  have : isPySpace '(' = false := by decide
  simp [getToken, getTokenAux, Gen.Regex.lexerRules, matchLen_lp, matchLen_rp, matchLen_un,
    matchLen_in, matchLen_sh, matchLen_st, matchLen_pl, matchLen_op, matchLen_wi, matchLen_S,
    matchLen_q, litMatch, quantGroups, this]

theorem getToken_rp (rest : List Char) : getToken (')' :: rest) = .ok (some ("RightParen", 1)) := by
  have : isPySpace ')' = false := by decide
  simp [getToken, getTokenAux, Gen.Regex.lexerRules, matchLen_lp, matchLen_rp, matchLen_un,
    matchLen_in, matchLen_sh, matchLen_st, matchLen_pl, matchLen_op, matchLen_wi, matchLen_S,
    matchLen_q, litMatch, quantGroups, this]

theorem getToken_un (rest : List Char) : getToken ('|' :: rest) = .ok (some ("UnionToken", 1)) := by
  have : isPySpace '|' = false := by decide
  simp [getToken, getTokenAux, Gen.Regex.lexerRules, matchLen_lp, matchLen_rp, matchLen_un,
    matchLen_in, matchLen_sh, matchLen_st, matchLen_pl, matchLen_op, matchLen_wi, matchLen_S,
    matchLen_q, litMatch, quantGroups, this]

theorem getToken_in (rest : List Char) :
    getToken ('&' :: rest) = .ok (some ("IntersectionToken", 1)) := by
  have : isPySpace '&' = false := by decide
  simp [getToken, getTokenAux, Gen.Regex.lexerRules, matchLen_lp, matchLen_rp, matchLen_un,
    matchLen_in, matchLen_sh, matchLen_st, matchLen_pl, matchLen_op, matchLen_wi, matchLen_S,
    matchLen_q, litMatch, quantGroups, this]

theorem getToken_sh (rest : List Char) : getToken ('^' :: rest) = .ok (some ("ShuffleToken", 1)) := by
  have : isPySpace '^' = false := by decide
  simp [getToken, getTokenAux, Gen.Regex.lexerRules, matchLen_lp, matchLen_rp, matchLen_un,
    matchLen_in, matchLen_sh, matchLen_st, matchLen_pl, matchLen_op, matchLen_wi, matchLen_S,
    matchLen_q, litMatch, quantGroups, this]

theorem getToken_st (rest : List Char) :
    getToken ('*' :: rest) = .ok (some ("KleeneStarToken", 1)) := by
  have : isPySpace '*' = false := by decide
  simp [getToken, getTokenAux, Gen.Regex.lexerRules, matchLen_lp, matchLen_rp, matchLen_un,
    matchLen_in, matchLen_sh, matchLen_st, matchLen_pl, matchLen_op, matchLen_wi, matchLen_S,
    matchLen_q, litMatch, quantGroups, this]

theorem getToken_pl (rest : List Char) :
    getToken ('+' :: rest) = .ok (some ("KleenePlusToken", 1)) := by
  have : isPySpace '+' = false := by decide
  simp [getToken, getTokenAux, Gen.Regex.lexerRules, matchLen_lp, matchLen_rp, matchLen_un,
    matchLen_in, matchLen_sh, matchLen_st, matchLen_pl, matchLen_op, matchLen_wi, matchLen_S,
    matchLen_q, litMatch, quantGroups, this]

theorem getToken_op (rest : List Char) : getToken ('?' :: rest) = .ok (some ("OptionToken", 1)) := by
  have : isPySpace '?' = false := by decide
  simp [getToken, getTokenAux, Gen.Regex.lexerRules, matchLen_lp, matchLen_rp, matchLen_un,
    matchLen_in, matchLen_sh, matchLen_st, matchLen_pl, matchLen_op, matchLen_wi, matchLen_S,
    matchLen_q, litMatch, quantGroups, this]

theorem getToken_wi (rest : List Char) :
    getToken ('.' :: rest) = .ok (some ("WildcardToken", 1)) := by
  have : isPySpace '.' = false := by decide
  simp [getToken, getTokenAux, Gen.Regex.lexerRules, matchLen_lp, matchLen_rp, matchLen_un,
    matchLen_in, matchLen_sh, matchLen_st, matchLen_pl, matchLen_op, matchLen_wi, matchLen_S,
    matchLen_q, litMatch, quantGroups, this]

/-- An opening brace: the quantifier pattern if it matches here (it is longer than the one
character `\S` matches), otherwise a one-character `StringToken`. -/
theorem getToken_lbrace (rest : List Char) :
    getToken ('{' :: rest) = .ok (some
      (match quantGroups ('{' :: rest) with
       | some g => ("QuantifierToken", g.1.length + g.2.length + 3)
       | none => ("StringToken", 1))) := by
  have hs : isPySpace '{' = false := by decide
  cases hq : quantGroups ('{' :: rest) with
  | none =>
    simp [getToken, getTokenAux, Gen.Regex.lexerRules, matchLen_lp, matchLen_rp, matchLen_un,
      matchLen_in, matchLen_sh, matchLen_st, matchLen_pl, matchLen_op, matchLen_wi, matchLen_S,
      matchLen_q, litMatch, hq, hs]
  | some g =>
    have hk : ¬ (g.1.length + g.2.length + 3 < 1) := by omega
    simp [getToken, getTokenAux, Gen.Regex.lexerRules, matchLen_lp, matchLen_rp, matchLen_un,
      matchLen_in, matchLen_sh, matchLen_st, matchLen_pl, matchLen_op, matchLen_wi, matchLen_S,
      matchLen_q, litMatch, hq, hs, hk]

/-- The ten characters at which a rule other than `\S` can match. -/
def IsTokChar (c : Char) : Prop :=
  c = '(' ∨ c = ')' ∨ c = '|' ∨ c = '&' ∨ c = '^' ∨ c = '*' ∨ c = '+' ∨ c = '?' ∨ c = '.' ∨ c = '{'

/-- Any other character: `\S` matches it unless it is white space. -/
theorem getToken_other {c : Char} (h : ¬ IsTokChar c) (rest : List Char) :
    getToken (c :: rest) = .ok (if isPySpace c then none else some ("StringToken", 1)) := by
  simp only [IsTokChar, not_or] at h
  obtain ⟨h1, h2, h3, h4, h5, h6, h7, h8, h9, h10⟩ := h
  have hq := quantGroups_ne h10 rest
  cases hs : isPySpace c <;>
  simp [getToken, getTokenAux, Gen.Regex.lexerRules, matchLen_lp, matchLen_rp, matchLen_un,
    matchLen_in, matchLen_sh, matchLen_st, matchLen_pl, matchLen_op, matchLen_wi, matchLen_S,
    matchLen_q, litMatch, hq, h1, h2, h3, h4, h5, h6, h7, h8, h9, h10, hs]

/-! ### the quantifier pattern, inverted -/

theorem drop_length_takeWhile (p : Char → Bool) (l : List Char) :
    l.drop (l.takeWhile p).length = l.dropWhile p := by
  induction l with
  | nil => rfl
  | cons c t ih =>
    by_cases h : p c = true
    · simp [List.takeWhile, List.dropWhile, h, ih]
    · simp [List.takeWhile, List.dropWhile, h]

theorem mem_takeWhile {p : Char → Bool} {l : List Char} {c : Char} (h : c ∈ l.takeWhile p) :
    p c = true := by
  induction l with
  | nil => simp at h
  | cons x t ih =>
    by_cases hx : p x = true
    · simp only [List.takeWhile, hx] at h
      rcases List.mem_cons.mp h with rfl | h
      · exact hx
      · exact ih h
    · simp [List.takeWhile, hx] at h

/-- If the quantifier pattern matches at `{ rest` with groups `g1`, `g2`, the text reads
`{ g1 , g2 } …`, `g1` has no comma / newline and `g2` no closing brace / newline. -/
theorem quantGroups_inv {rest g1 g2 : List Char} (h : quantGroups ('{' :: rest) = some (g1, g2)) :
    ∃ rest', rest = g1 ++ ',' :: (g2 ++ '}' :: rest') ∧ NoStop ',' g1 ∧ NoStop '}' g2 := by
  unfold quantGroups at h
  simp only at h
  split at h
  · rename_i rest2 hd1
    split at h
    · rename_i rest3 hd2
      simp only [Option.some.injEq, Prod.mk.injEq] at h
      obtain ⟨hg1, hg2⟩ := h
      rw [drop_length_takeWhile] at hd1 hd2
      have e1 := List.takeWhile_append_dropWhile (p := fun c => c != ',' && c != '\n') (l := rest)
      have e2 := List.takeWhile_append_dropWhile (p := fun c => c != '}' && c != '\n') (l := rest2)
      rw [hd1, hg1] at e1
      rw [hd2, hg2] at e2
      refine ⟨rest3, ?_, ?_, ?_⟩
      · rw [← e1, ← e2]
      · intro c hc
        rw [← hg1] at hc
        have := mem_takeWhile hc
        simpa using this
      · intro c hc
        rw [← hg2] at hc
        have := mem_takeWhile hc
        simpa using this
    · cases h
  · cases h

/-! ### `QuantifierToken.from_match` on any match of the pattern -/

/-- On a match `{g1,g2}` of the quantifier pattern, `from_match` + `__init__` return a
quantifier token, or raise `InvalidRegexError` (negative or ill-ordered numeric bounds), or
`ValueError` — the latter only when a non-empty bound text is rejected by `int()`. -/
theorem quantFromMatch_cases {g1 g2 : List Char} (h1 : NoStop ',' g1) (h2 : NoStop '}' g2) :
    (∃ lo hi, quantFromMatch ('{' :: (g1 ++ ',' :: (g2 ++ ['}']))) = .ok (.quant lo hi)) ∨
    quantFromMatch ('{' :: (g1 ++ ',' :: (g2 ++ ['}']))) = .error (.lib .invalidRegexError) ∨
    (quantFromMatch ('{' :: (g1 ++ ',' :: (g2 ++ ['}']))) = .error (.py .valueError) ∧
      ((g1 ≠ [] ∧ pyInt g1 = none) ∨ (g2 ≠ [] ∧ pyInt g2 = none))) := by
  unfold quantFromMatch
  rw [quantGroups_of_noStop h1 h2 []]
  simp only
  by_cases e1 : g1.isEmpty = true
  · have hg1 : g1 = [] := by cases g1 with
      | nil => rfl
      | cons _ _ => cases e1
    subst hg1
    simp only [List.isEmpty_nil, if_true]
    by_cases e2 : g2.isEmpty = true
    · simp [e2]
    · have hne2 : g2 ≠ [] := by intro e; subst e; exact e2 rfl
      simp only [e2, Bool.false_eq_true, if_false]
      cases h : pyInt g2 with
      | none => exact Or.inr (Or.inr ⟨rfl, Or.inr ⟨hne2, rfl⟩⟩)
      | some hi =>
        simp only [Option.map_some]
        by_cases hlt : hi < 0
        · simp [hlt]
        · simp [hlt]
  · have hne1 : g1 ≠ [] := by intro e; subst e; exact e1 rfl
    simp only [e1, Bool.false_eq_true, if_false]
    cases h : pyInt g1 with
    | none => exact Or.inr (Or.inr ⟨rfl, Or.inl ⟨hne1, rfl⟩⟩)
    | some lo =>
      simp only
      by_cases e2 : g2.isEmpty = true
      · simp only [e2, if_true]
        by_cases hlo : lo < 0
        · simp [hlo]
        · simp [hlo]
      · have hne2 : g2 ≠ [] := by intro e; subst e; exact e2 rfl
        simp only [e2, Bool.false_eq_true, if_false]
        cases h' : pyInt g2 with
        | none => exact Or.inr (Or.inr ⟨rfl, Or.inr ⟨hne2, rfl⟩⟩)
        | some hi =>
          simp only [Option.map_some]
          by_cases hlo : lo < 0
          · simp [hlo]
          · by_cases hlt : hi < lo
            · simp [hlo, hlt]
            · simp [hlo, hlt]

/-! ### one iteration of the lexer loop, at any text -/

theorem lexAux_single {fuel : Nat} {x : Char} {rest : List Char} {cls : String} {t : Tok Char}
    (hg : getToken (x :: rest) = .ok (some (cls, 1))) (hm : mkToken cls [x] = .ok t) :
    lexAux (fuel + 1) (x :: rest) =
      match lexAux fuel rest with
      | .error e => .error e
      | .ok ts => .ok (t :: ts) := by
  simp only [lexAux, hg, List.take_succ_cons, List.take_zero, hm, List.drop_succ_cons,
    List.drop_zero]
  cases lexAux fuel rest <;> rfl

/-- The shape of a non-failing single-character step: the token `t` is appended. -/
def Appends (fuel : Nat) (c : Char) (rest : List Char) (t : Tok Char) : Prop :=
  lexAux (fuel + 1) (c :: rest) =
    match lexAux fuel rest with
    | .error e => .error e
    | .ok ts => .ok (t :: ts)

/-- **One iteration of `Lexer.lex`** at the text `c :: rest`, whatever the characters are:
1. `c` is a blank that no rule matches: skipped;
2. `c` is white space other than a blank: `LexerError`;
3. a one-character token is appended — an operator / parenthesis / wildcard, or the symbol `c`
   (then `c` is not white space and is not reserved, except for a lone brace);
4. `c = '{'` and the quantifier pattern matches `{g1,g2}` here: `QuantifierToken.from_match`
   runs on exactly that text and, if it returns, lexing continues behind the `}`. -/
theorem lexAux_step (fuel : Nat) (c : Char) (rest : List Char) :
    (isBlank c = true ∧ lexAux (fuel + 1) (c :: rest) = lexAux fuel rest) ∨
    (lexAux (fuel + 1) (c :: rest) = .error (.lib .lexerError)) ∨
    (∃ t, LexTok t ∧
      (∀ a, t = Tok.str [a] → a = c ∧ isPySpace c = false ∧
        (isReserved c = false ∨ c = '{' ∨ c = '}')) ∧
      Appends fuel c rest t) ∨
    (∃ g1 g2 rest', c = '{' ∧ rest = g1 ++ ',' :: (g2 ++ '}' :: rest') ∧
      NoStop ',' g1 ∧ NoStop '}' g2 ∧
      lexAux (fuel + 1) (c :: rest) =
        match quantFromMatch ('{' :: (g1 ++ ',' :: (g2 ++ ['}']))) with
        | .error e => .error e
        | .ok t =>
          match lexAux fuel rest' with
          | .error e => .error e
          | .ok ts => .ok (t :: ts)) := by
  have simple : ∀ (x : Char) (cls : String) (t : Tok Char), c = x →
      getToken (x :: rest) = .ok (some (cls, 1)) → mkToken cls [x] = .ok t → LexTok t →
      (∀ a, t ≠ Tok.str [a]) →
      ∃ t, LexTok t ∧
        (∀ a, t = Tok.str [a] → a = c ∧ isPySpace c = false ∧
          (isReserved c = false ∨ c = '{' ∨ c = '}')) ∧
        Appends fuel c rest t := by
    intro x cls t hc hg hm hl hns
    subst hc
    exact ⟨t, hl, fun a ha => absurd ha (hns a), lexAux_single hg hm⟩
  by_cases htc : IsTokChar c
  · rcases htc with h | h | h | h | h | h | h | h | h | h
    · exact Or.inr (Or.inr (Or.inl (simple '(' _ .lparen h (getToken_lp rest) rfl trivial
        (fun a => by simp))))
    · exact Or.inr (Or.inr (Or.inl (simple ')' _ .rparen h (getToken_rp rest) rfl trivial
        (fun a => by simp))))
    · exact Or.inr (Or.inr (Or.inl (simple '|' _ .union h (getToken_un rest) rfl trivial
        (fun a => by simp))))
    · exact Or.inr (Or.inr (Or.inl (simple '&' _ .inter h (getToken_in rest) rfl trivial
        (fun a => by simp))))
    · exact Or.inr (Or.inr (Or.inl (simple '^' _ .shuffle h (getToken_sh rest) rfl trivial
        (fun a => by simp))))
    · exact Or.inr (Or.inr (Or.inl (simple '*' _ .star h (getToken_st rest) rfl trivial
        (fun a => by simp))))
    · exact Or.inr (Or.inr (Or.inl (simple '+' _ .plus h (getToken_pl rest) rfl trivial
        (fun a => by simp))))
    · exact Or.inr (Or.inr (Or.inl (simple '?' _ .opt h (getToken_op rest) rfl trivial
        (fun a => by simp))))
    · exact Or.inr (Or.inr (Or.inl (simple '.' _ .wildcard h (getToken_wi rest) rfl trivial
        (fun a => by simp))))
    · subst h
      have hg := getToken_lbrace rest
      cases hq : quantGroups ('{' :: rest) with
      | none =>
        rw [hq] at hg
        refine Or.inr (Or.inr (Or.inl ⟨.str ['{'], ⟨'{', rfl⟩, ?_, lexAux_single hg rfl⟩))
        intro a ha
        simp only [Tok.str.injEq, List.cons.injEq, and_true] at ha
        exact ⟨ha.symm, by decide, Or.inr (Or.inl rfl)⟩
      | some g =>
        obtain ⟨g1, g2⟩ := g
        rw [hq] at hg
        obtain ⟨rest', hrest, n1, n2⟩ := quantGroups_inv hq
        refine Or.inr (Or.inr (Or.inr ⟨g1, g2, rest', rfl, hrest, n1, n2, ?_⟩))
        have etxt : ('{' :: (g1 ++ ',' :: (g2 ++ ['}']))) ++ rest' =
            '{' :: (g1 ++ ',' :: (g2 ++ '}' :: rest')) := by simp
        have hlen : ('{' :: (g1 ++ ',' :: (g2 ++ ['}']))).length = g1.length + g2.length + 3 := by
          simp; omega
        have htake : ('{' :: (g1 ++ ',' :: (g2 ++ '}' :: rest'))).take (g1.length + g2.length + 3) =
            '{' :: (g1 ++ ',' :: (g2 ++ ['}'])) := by
          rw [← etxt, ← hlen]; exact take_length_append _ _
        have hdrop : ('{' :: (g1 ++ ',' :: (g2 ++ '}' :: rest'))).drop (g1.length + g2.length + 3) =
            rest' := by
          rw [← etxt, ← hlen]; exact drop_length_append _ _
        have hm : ∀ m, mkToken "QuantifierToken" m = quantFromMatch m := fun _ => rfl
        rw [hrest] at hg ⊢
        simp only [lexAux, hg, htake, hdrop, hm]
        cases quantFromMatch ('{' :: (g1 ++ ',' :: (g2 ++ ['}']))) with
        | error e => rfl
        | ok t => cases lexAux fuel rest' <;> rfl
  · have hg := getToken_other htc rest
    cases hs : isPySpace c with
    | true =>
      rw [hs] at hg
      simp only [if_true] at hg
      by_cases hb : isBlank c = true
      · exact Or.inl ⟨hb, by simp only [lexAux, hg, hb, if_true]⟩
      · exact Or.inr (Or.inl (by simp only [lexAux, hg, hb, Bool.false_eq_true, if_false]))
    | false =>
      rw [hs] at hg
      simp only [Bool.false_eq_true, if_false] at hg
      refine Or.inr (Or.inr (Or.inl ⟨.str [c], ⟨c, rfl⟩, ?_, lexAux_single hg rfl⟩))
      intro a ha
      simp only [Tok.str.injEq, List.cons.injEq, and_true] at ha
      refine ⟨ha.symm, rfl, ?_⟩
      by_cases hcb : c = '}'
      · exact Or.inr (Or.inr hcb)
      · left
        simp only [IsTokChar, not_or] at htc
        obtain ⟨h1, h2, h3, h4, h5, h6, h7, h8, h9, h10⟩ := htc
        have hsp : c ≠ ' ' := by intro e; subst e; revert hs; decide
        have htb : c ≠ '\t' := by intro e; subst e; revert hs; decide
        simp [isReserved, Gen.Regex.reservedCharacters, h1, h2, h3, h4, h5, h6, h7, h8, h9, h10,
          hcb, hsp, htb]

/-! ### every string: kinds of lexing failures -/

/-- Some brace group of `s` is not a numeral: at some position of `s` the quantifier pattern
matches with groups `g1`, `g2`, and a non-empty one of them is rejected by `int()`. -/
def HasBadBound (s : List Char) : Prop :=
  ∃ pre rest g1 g2, s = pre ++ rest ∧ quantGroups rest = some (g1, g2) ∧
    ((g1 ≠ [] ∧ pyInt g1 = none) ∨ (g2 ≠ [] ∧ pyInt g2 = none))

theorem HasBadBound.append (pre : List Char) {s : List Char} (h : HasBadBound s) :
    HasBadBound (pre ++ s) := by
  obtain ⟨p, rest, g1, g2, rfl, hq, hb⟩ := h
  exact ⟨pre ++ p, rest, g1, g2, by simp, hq, hb⟩

/-- The three ways lexing can fail. -/
def LexErrKind (s : List Char) (e : Exn) : Prop :=
  e = .lib .lexerError ∨ e = .lib .invalidRegexError ∨ (e = .py .valueError ∧ HasBadBound s)

theorem lexAux_error_kind : ∀ (fuel : Nat) (text : List Char) (e : Exn),
    lexAux fuel text = .error e → LexErrKind text e := by
  intro fuel
  induction fuel with
  | zero => intro text e h; simp [lexAux] at h
  | succ fuel ih =>
    intro text e h
    cases text with
    | nil => simp [lexAux] at h
    | cons c rest =>
      have lift : ∀ (pre : List Char) {r : List Char}, LexErrKind r e → LexErrKind (pre ++ r) e := by
        intro pre r hk
        rcases hk with hk | hk | ⟨hk, hb⟩
        · exact Or.inl hk
        · exact Or.inr (Or.inl hk)
        · exact Or.inr (Or.inr ⟨hk, hb.append pre⟩)
      rcases lexAux_step fuel c rest with ⟨_, hstep⟩ | hstep | ⟨t, _, _, hstep⟩ |
        ⟨g1, g2, rest', hc, hrest, n1, n2, hstep⟩
      · rw [hstep] at h
        exact lift [c] (ih rest e h)
      · rw [hstep] at h
        cases h
        exact Or.inl rfl
      · unfold Appends at hstep
        rw [hstep] at h
        cases hr : lexAux fuel rest with
        | error e' =>
          rw [hr] at h
          cases h
          exact lift [c] (ih rest e hr)
        | ok ts => rw [hr] at h; cases h
      · rw [hstep] at h
        subst hc
        rcases quantFromMatch_cases n1 n2 with ⟨lo, hi, hq⟩ | hq | ⟨hq, hb⟩
        · rw [hq] at h
          simp only at h
          cases hr : lexAux fuel rest' with
          | error e' =>
            rw [hr] at h
            cases h
            have := lift ('{' :: (g1 ++ ',' :: (g2 ++ ['}']))) (ih rest' e hr)
            rw [hrest]
            simpa using this
          | ok ts => rw [hr] at h; cases h
        · rw [hq] at h
          cases h
          exact Or.inr (Or.inl rfl)
        · rw [hq] at h
          cases h
          refine Or.inr (Or.inr ⟨rfl, [], '{' :: rest, g1, g2, rfl, ?_, hb⟩)
          rw [hrest]
          exact quantGroups_of_noStop n1 n2 rest'

/-- **Every string**: `lexer.lex(s)` returns a token list, or raises `LexerError`, or
`InvalidRegexError`, or `ValueError` — and `ValueError` only if some brace group of `s` has a
non-empty bound text that is not a numeral for `int()`. -/
theorem lex_error_kind (s : List Char) :
    (∃ ts, lex s = .ok ts) ∨ lex s = .error (.lib .lexerError) ∨
    lex s = .error (.lib .invalidRegexError) ∨
    (lex s = .error (.py .valueError) ∧ HasBadBound s) := by
  cases h : lex s with
  | ok ts => exact Or.inl ⟨ts, rfl⟩
  | error e =>
    rcases lexAux_error_kind _ _ e h with rfl | rfl | ⟨rfl, hb⟩
    · exact Or.inr (Or.inl rfl)
    · exact Or.inr (Or.inr (Or.inl rfl))
    · exact Or.inr (Or.inr (Or.inr ⟨rfl, hb⟩))

/-! ### every string: the tokens of a successful run -/

theorem lexAux_ok_spec : ∀ (fuel : Nat) (text : List Char) (ts : List (Tok Char)),
    lexAux fuel text = .ok ts →
    (∀ t ∈ ts, LexTok t) ∧
    ∀ a, Tok.str [a] ∈ ts →
      a ∈ text ∧ isPySpace a = false ∧ (isReserved a = false ∨ a = '{' ∨ a = '}') := by
  intro fuel
  induction fuel with
  | zero =>
    intro text ts h
    simp only [lexAux, Except.ok.injEq] at h
    subst h
    exact ⟨fun t ht => (by cases ht), fun a ha => (by cases ha)⟩
  | succ fuel ih =>
    intro text ts h
    cases text with
    | nil =>
      simp only [lexAux, Except.ok.injEq] at h
      subst h
      exact ⟨fun t ht => (by cases ht), fun a ha => (by cases ha)⟩
    | cons c rest =>
      rcases lexAux_step fuel c rest with ⟨_, hstep⟩ | hstep | ⟨t, hl, hstr, hstep⟩ |
        ⟨g1, g2, rest', hc, hrest, n1, n2, hstep⟩
      · rw [hstep] at h
        obtain ⟨i1, i2⟩ := ih rest ts h
        exact ⟨i1, fun a ha => ⟨List.mem_cons_of_mem _ (i2 a ha).1, (i2 a ha).2⟩⟩
      · rw [hstep] at h; cases h
      · unfold Appends at hstep
        rw [hstep] at h
        cases hr : lexAux fuel rest with
        | error e' => rw [hr] at h; cases h
        | ok ts' =>
          rw [hr] at h
          cases h
          obtain ⟨i1, i2⟩ := ih rest ts' hr
          constructor
          · intro t' ht'
            rcases List.mem_cons.mp ht' with rfl | ht'
            · exact hl
            · exact i1 t' ht'
          · intro a ha
            rcases List.mem_cons.mp ha with ha | ha
            · obtain ⟨rfl, h2, h3⟩ := hstr a ha.symm
              exact ⟨by simp, h2, h3⟩
            · exact ⟨List.mem_cons_of_mem _ (i2 a ha).1, (i2 a ha).2⟩
      · rw [hstep] at h
        rcases quantFromMatch_cases n1 n2 with ⟨lo, hi, hq⟩ | hq | ⟨hq, _⟩
        · rw [hq] at h
          simp only at h
          cases hr : lexAux fuel rest' with
          | error e' => rw [hr] at h; cases h
          | ok ts' =>
            rw [hr] at h
            cases h
            obtain ⟨i1, i2⟩ := ih rest' ts' hr
            constructor
            · intro t' ht'
              rcases List.mem_cons.mp ht' with rfl | ht'
              · trivial
              · exact i1 t' ht'
            · intro a ha
              rcases List.mem_cons.mp ha with ha | ha
              · cases ha
              · refine ⟨?_, (i2 a ha).2⟩
                rw [hrest]
                simp [(i2 a ha).1]
        · rw [hq] at h; cases h
        · rw [hq] at h; cases h

/-- The tokens of a successful lexer run are lexer tokens … -/
theorem lex_ok_lexTok {s : List Char} {ts : List (Tok Char)} (h : lex s = .ok ts) :
    ∀ t ∈ ts, LexTok t :=
  (lexAux_ok_spec _ _ _ h).1

/-- … and its symbol tokens are non-white-space characters of the string, not reserved except
for a lone brace. -/
theorem lex_ok_str {s : List Char} {ts : List (Tok Char)} (h : lex s = .ok ts) :
    ∀ a, Tok.str [a] ∈ ts →
      a ∈ s ∧ isPySpace a = false ∧ (isReserved a = false ∨ a = '{' ∨ a = '}') :=
  (lexAux_ok_spec _ _ _ h).2

end AV.Rx.LexTotal
