/-
Proofs/ConvertE.lean — lemmas for Props/C19h.lean: the failure-tracking models of
Model/ConvertE.lean succeed and agree with the total models of Model/Convert.lean.
-/
import AutomataVerif.Model.ConvertE
import AutomataVerif.Proofs.OpsE
import AutomataVerif.Proofs.Subset
import AutomataVerif.Proofs.Read

namespace AV

set_option linter.unusedSectionVars false
open AV.C07

theorem bindE_ok {β γ : Type} {r : Res β} {v : β} (h : r = .ok v) (f : β → Res γ) :
    bindE r f = f v := by subst h; rfl

/-! ### association-list stores at a known position -/
section alist
variable {κ β : Type} [DecidableEq κ]

@[simp] theorem map_fst_pair {γ : Type} (f : κ → γ) (l : List κ) :
    List.map (Prod.fst ∘ fun s => (s, f s)) l = l := by
  induction l with
  | nil => rfl
  | cons x t ih => simp [ih]

@[simp] theorem akeys_map_pair {γ : Type} (f : κ → γ) (l : List κ) :
    akeys (l.map fun s => (s, f s)) = l := by simp [akeys]

theorem ainsert_new {k : κ} {v : β} {d : List (κ × β)} (h : k ∉ akeys d) :
    ainsert k v d = d ++ [(k, v)] := by
  induction d with
  | nil => rfl
  | cons x t ih =>
    rcases x with ⟨k', v'⟩
    simp only [akeys, List.map_cons, List.mem_cons, not_or] at h
    have hne : ¬ k' = k := fun e => h.1 e.symm
    simp only [ainsert, hne, if_false, List.cons_append]
    rw [ih (by simpa [akeys] using h.2)]

theorem alookup_mid {k : κ} {v : β} {d1 d2 : List (κ × β)} (h : k ∉ akeys d1) :
    alookup k (d1 ++ (k, v) :: d2) = some v := by
  induction d1 with
  | nil => simp [alookup]
  | cons x t ih =>
    rcases x with ⟨k', v'⟩
    simp only [akeys, List.map_cons, List.mem_cons, not_or] at h
    have hne : ¬ k' = k := fun e => h.1 e.symm
    simp only [List.cons_append, alookup, hne, if_false]
    exact ih (by simpa [akeys] using h.2)

theorem ainsert_mid {k : κ} {v v' : β} {d1 d2 : List (κ × β)} (h : k ∉ akeys d1) :
    ainsert k v' (d1 ++ (k, v) :: d2) = d1 ++ (k, v') :: d2 := by
  induction d1 with
  | nil => simp [ainsert]
  | cons x t ih =>
    rcases x with ⟨k', v''⟩
    simp only [akeys, List.map_cons, List.mem_cons, not_or] at h
    have hne : ¬ k' = k := fun e => h.1 e.symm
    simp only [List.cons_append, ainsert, hne, if_false]
    rw [ih (by simpa [akeys] using h.2)]

end alist

/-! ### the elements a BFS pop discovers, in order -/
section newOf
variable {S : Type} [DecidableEq S]

/-- The targets of `l` that are not in `sts` yet, without repeats, in order of first appearance. -/
def newOf : List S → List S → List S
  | _, [] => []
  | sts, t :: l => if t ∈ sts then newOf sts l else t :: newOf (sts ++ [t]) l

theorem append_newOf : ∀ (l sts : List S), sts ++ newOf sts l = sunion sts l := by
  intro l
  induction l with
  | nil => intro sts; simp [newOf, sunion]
  | cons t l ih =>
    intro sts
    have hs : sunion sts (t :: l) = sunion (sinsert t sts) l := by simp [sunion]
    rw [hs]
    by_cases ht : t ∈ sts
    · simp only [newOf, ht, if_true]
      rw [ih, show sinsert t sts = sts by simp [sinsert, ht]]
    · simp only [newOf, ht, if_false]
      rw [show sinsert t sts = sts ++ [t] by simp [sinsert, ht], ← ih]
      simp

theorem sunion_append_filter (vis : List S) : ∀ (l acc : List S),
    sunion (vis ++ acc) l = vis ++ sunion acc (l.filter fun t => decide (t ∉ vis)) := by
  intro l
  induction l with
  | nil => intro acc; simp [sunion]
  | cons t l ih =>
    intro acc
    have hs : ∀ a m : List S, sunion a (t :: m) = sunion (sinsert t a) m := by
      intro a m; simp [sunion]
    rw [hs]
    by_cases ht : t ∈ vis
    · have : sinsert t (vis ++ acc) = vis ++ acc := by simp [sinsert, ht]
      rw [this, ih]
      simp [ht]
    · have hf : (t :: l).filter (fun t => decide (t ∉ vis)) = t :: l.filter fun t => decide (t ∉ vis) := by
        simp [ht]
      rw [hf, hs]
      have : sinsert t (vis ++ acc) = vis ++ sinsert t acc := by
        by_cases hta : t ∈ acc
        · simp [sinsert, hta]
        · simp [sinsert, hta, ht]
      rw [this, ih]

theorem newOf_eq (vis l : List S) : newOf vis l = dedup (l.filter fun t => decide (t ∉ vis)) := by
  have h := append_newOf l vis
  have h2 := sunion_append_filter vis l []
  simp only [List.append_nil] at h2
  rw [h2] at h
  exact List.append_cancel_left h

theorem newOf_cons (sts : List S) (t : S) (l : List S) :
    newOf sts (t :: l) = (if t ∈ sts then [] else [t]) ++
      newOf (sts ++ if t ∈ sts then [] else [t]) l := by
  by_cases ht : t ∈ sts <;> simp [newOf, ht]

end newOf

/-! ### `_expand_dfa` -/
namespace DFA
variable {S α : Type} [DecidableEq S] [DecidableEq α]

/-- The loop state while the edges of `q` are being processed. -/
def midSt (isFin : S → Bool) (pre : List (S × List (α × S))) (q : S) (row : List (α × S))
    (post : List (S × List (α × S))) (sts qu : List S) : ExpSt S α :=
  { trans := pre ++ (q, row) :: post, states := sts, finals := sts.filter isFin, queue := qu }

theorem expEdgeE_mid (isFin : S → Bool) {pre post : List (S × List (α × S))} {q : S}
    {row : List (α × S)} {sts : List S} (qu : List S) {a : α} (t : S)
    (hq : q ∉ akeys pre) (hk : akeys pre ++ q :: akeys post = sts) (ha : a ∉ akeys row) :
    expEdgeE isFin q (midSt isFin pre q row post sts qu) (a, t) =
      .ok (midSt isFin pre q (row ++ [(a, t)])
        (post ++ (if t ∈ sts then [] else [t]).map fun s => (s, []))
        (sts ++ if t ∈ sts then [] else [t]) (qu ++ if t ∈ sts then [] else [t])) := by
  by_cases ht : t ∈ sts
  · have hfin : (if isFin t = true then sinsert t (sts.filter isFin) else sts.filter isFin) =
        sts.filter isFin := by
      by_cases hf : isFin t = true
      · simp [hf, sinsert, List.mem_filter, ht]
      · simp [hf]
    simp only [expEdgeE, midSt, ht, if_true, alookup_mid hq, ainsert_mid hq, ainsert_new ha,
      List.map_nil, List.append_nil, hfin]
    simp [sinsert, ht]
  · have hkeys : t ∉ akeys (pre ++ (q, row) :: post) := by
      have : akeys (pre ++ (q, row) :: post) = sts := by
        rw [← hk]; simp [akeys]
      rw [this]; exact ht
    have hfin : (if isFin t = true then sinsert t (sts.filter isFin) else sts.filter isFin) =
        (sts ++ [t]).filter isFin := by
      by_cases hf : isFin t = true
      · have : t ∉ sts.filter isFin := fun h => ht (List.mem_filter.mp h).1
        simp [hf, sinsert, this, List.filter_append]
      · simp [hf, List.filter_append]
    have h1 : ainsert t [] (pre ++ (q, row) :: post) = pre ++ (q, row) :: (post ++ [(t, [])]) := by
      rw [ainsert_new hkeys]; simp
    simp only [expEdgeE, midSt, ht, if_false, h1, alookup_mid hq, ainsert_mid hq, ainsert_new ha,
      hfin, List.map_cons, List.map_nil]
    simp [sinsert, ht]

theorem foldlE_mid (isFin : S → Bool) {pre : List (S × List (α × S))} {q : S}
    (hq : q ∉ akeys pre) :
    ∀ (es row : List (α × S)) (post : List (S × List (α × S))) (sts qu : List S),
      akeys pre ++ q :: akeys post = sts → (akeys (row ++ es)).Nodup →
      foldlE (expEdgeE isFin q) (midSt isFin pre q row post sts qu) es =
        .ok (midSt isFin pre q (row ++ es)
          (post ++ (newOf sts (avals es)).map fun s => (s, []))
          (sts ++ newOf sts (avals es)) (qu ++ newOf sts (avals es))) := by
  intro es
  induction es with
  | nil => intro row post sts qu _ _; simp [foldlE, newOf, avals]
  | cons e es ih =>
    intro row post sts qu hk hnd
    rcases e with ⟨a, t⟩
    have ha : a ∉ akeys row := by
      simp only [akeys, List.map_append, List.map_cons] at hnd
      have := (List.nodup_append.mp hnd).2.2
      intro h
      exact this a (by simpa [akeys] using h) a (by simp) rfl
    simp only [foldlE]
    rw [expEdgeE_mid isFin qu t hq hk ha]
    simp only
    rw [ih (row ++ [(a, t)]) _ _ _ (by rw [← hk]; simp [akeys]) (by simpa using hnd)]
    simp only [avals, List.map_cons]
    rw [newOf_cons]
    simp [List.append_assoc]

/-- The loop state between two pops: `popped` have their final rows, `work` are queued. -/
def mkSt (isFin : S → Bool) (succ : S → List (α × S)) (popped work : List S) : ExpSt S α :=
  { trans := (popped.map fun s => (s, succ s)) ++ work.map fun s => (s, []),
    states := popped ++ work, finals := (popped ++ work).filter isFin, queue := work }

theorem expLoopE_eq {succE : S → Res (List (α × S))} {succ : S → List (α × S)} {univ : List S}
    (isFin : S → Bool) (hsE : ∀ u ∈ univ, succE u = .ok (succ u))
    (hclosed : ∀ u ∈ univ, ∀ e ∈ succ u, e.2 ∈ univ)
    (hkeys : ∀ u ∈ univ, (akeys (succ u)).Nodup) :
    ∀ (fuel : Nat) (popped work : List S), (popped ++ work).Nodup →
      (∀ v ∈ popped ++ work, v ∈ univ) →
      work.length + (univ.length - (popped ++ work).length) < fuel →
      expLoopE succE isFin fuel (mkSt isFin succ popped work) =
        .ok (mkSt isFin succ (bfsAux (fun s => avals (succ s)) fuel work (popped ++ work)) []) := by
  intro fuel
  induction fuel with
  | zero => intro popped work _ _ hf; omega
  | succ n ih =>
    intro popped work hnd hu hf
    cases work with
    | nil => simp [expLoopE, mkSt, bfsAux]
    | cons q work =>
      have hqu : q ∈ univ := hu q (by simp)
      have hqp : q ∉ akeys (popped.map fun s => (s, succ s)) := by
        have : akeys (popped.map fun s => (s, succ s)) = popped := by simp [akeys]
        rw [this]
        intro h
        exact (List.nodup_append.mp hnd).2.2 q h q (by simp) rfl
      have hst : ({ mkSt isFin succ popped (q :: work) with queue := work } : ExpSt S α) =
          midSt isFin (popped.map fun s => (s, succ s)) q [] (work.map fun s => (s, []))
            (popped ++ q :: work) work := by
        simp [mkSt, midSt]
      have hfold := foldlE_mid isFin hqp (succ q) [] (work.map fun s => (s, []))
        (popped ++ q :: work) work (by simp [akeys]) (by simpa using hkeys q hqu)
      rw [← hst] at hfold
      simp only [expLoopE, mkSt, hsE q hqu] at hfold ⊢
      rw [hfold]
      simp only [bfsAux]
      rw [← newOf_eq]
      have hnew_mem : ∀ x, x ∈ newOf (popped ++ q :: work) (avals (succ q)) ↔
          x ∈ avals (succ q) ∧ x ∉ popped ++ q :: work := by
        intro x; rw [newOf_eq, mem_dedup, List.mem_filter]; simp
      have hnd' : ((popped ++ q :: work) ++ newOf (popped ++ q :: work) (avals (succ q))).Nodup := by
        rw [List.nodup_append]
        refine ⟨hnd, by rw [newOf_eq]; exact nodup_dedup _, ?_⟩
        intro a ha b hb hab
        subst hab
        exact ((hnew_mem a).mp hb).2 ha
      have hvu' : ∀ v ∈ (popped ++ q :: work) ++ newOf (popped ++ q :: work) (avals (succ q)),
          v ∈ univ := by
        intro v hv
        rcases List.mem_append.mp hv with h | h
        · exact hu v h
        · obtain ⟨e, he, rfl⟩ := List.mem_map.mp ((hnew_mem v).mp h).1
          exact hclosed q hqu e he
      have hlen := List.Nodup.length_le_of_subset hnd' (fun v hv => hvu' v hv)
      have key := ih (popped ++ [q]) (work ++ newOf (popped ++ q :: work) (avals (succ q)))
        (by simpa [List.append_assoc] using hnd') (by simpa [List.append_assoc] using hvu')
        (by simp only [List.length_append, List.length_cons, List.length_nil] at hf hlen ⊢; omega)
      simp only [mkSt, List.append_assoc, List.cons_append, List.nil_append, List.map_append,
        List.map_cons, List.map_nil] at key ⊢
      exact key

theorem expLoopE_init_eq {succE : S → Res (List (α × S))} {succ : S → List (α × S)} {univ : List S}
    {fuel : Nat} {init : S} (isFin : S → Bool)
    (h : ExpandHyp succ univ fuel init) (hsE : ∀ u ∈ univ, succE u = .ok (succ u)) :
    expLoopE succE isFin fuel (expInit isFin init) =
      .ok (mkSt isFin succ (bfsStates succ fuel init) []) := by
  have h0 : (expInit isFin init : ExpSt S α) = mkSt isFin succ [] [init] := by
    by_cases hf : isFin init = true <;> simp [mkSt, expInit, hf]
  have hlen : 0 < univ.length := List.length_pos_of_mem h.init_mem
  have hf := h.fuel_ok
  have key := expLoopE_eq isFin hsE h.closed h.keysNodup fuel [] [init] (by simp)
    (by intro v hv; simp at hv; subst hv; exact h.init_mem)
    (by simp only [List.nil_append, List.length_cons, List.length_nil]; omega)
  rw [h0, key]
  have hd : dedup [init] = [init] := by simp [dedup, sunion, sinsert]
  simp [bfsStates, bfsN, hd]

theorem expandE_eq {succE : S → Res (List (α × S))} {succ : S → List (α × S)} {univ : List S}
    {fuel : Nat} {init : S} (isFin : S → Bool) (syms : List α)
    (h : ExpandHyp succ univ fuel init) (hsE : ∀ u ∈ univ, succE u = .ok (succ u)) :
    expandE succE isFin syms fuel init = .ok (expand succ isFin syms fuel init) := by
  unfold expandE
  rw [expLoopE_init_eq isFin h hsE]
  simp [mkSt, expand]

end DFA

namespace NFA
variable {σ α : Type} [DecidableEq σ] [DecidableEq α]

theorem closureE_eq {n : NFA σ α} {q : σ} (hq : q ∈ n.states) : n.closureE q = .ok (n.closure q) := by
  simp [closureE, hq]

/-- Every target set stored in a row that `row` can return is made of declared states (the row
may be keyed by a non-state: validation checks every row of the table). -/
theorem row_targets_states {n : NFA σ α} (wf : n.WF) {q : σ} {e : Option α × List σ}
    (he : e ∈ n.row q) : ∀ t ∈ e.2, t ∈ n.states := by
  unfold row row? at he
  cases hr : alookup q n.trans with
  | none => simp [hr] at he
  | some r =>
    simp only [hr, Option.getD_some] at he
    exact wf.tgtOk (q, r) (alookup_some_mem hr) e.2 (List.mem_map.mpr ⟨e, he, rfl⟩)

theorem subsetSuccE_eq {n : NFA σ α} (wf : n.WF) (S : List σ) :
    n.subsetSuccE S = .ok (n.subsetSucc S) := by
  unfold subsetSuccE
  rw [bindE_ok (mapE_eq_ok _ (fun e => (e.1, e.2.flatMap n.closure)) _ ?_)]
  · rw [subsetSucc_eq]
    show Except.ok _ = Except.ok _
    congr 1
    have h1 : (List.map (fun e : α × List σ => (e.1, e.2.flatMap n.closure)) (entries n S)).map Prod.fst
        = (entries n S).map Prod.fst := by simp
    show (dedup ((List.map (fun e : α × List σ => (e.1, e.2.flatMap n.closure)) (entries n S)).map Prod.fst)).map _ = _
    rw [h1]
    apply List.map_congr_left
    intro a _
    congr 2
    rw [List.filter_map, List.flatMap_map]
    rfl
  · intro e he
    have hsub : ∀ t ∈ e.2, t ∈ n.states := by
      obtain ⟨q, _, hq⟩ := List.mem_flatMap.mp he
      obtain ⟨e', he', hm⟩ := List.mem_filterMap.mp hq
      rcases e' with ⟨x, ts⟩
      cases x with
      | none => simp at hm
      | some a =>
        by_cases hts : ts.isEmpty
        · simp [hts] at hm
        · simp [hts] at hm
          subst hm
          exact row_targets_states wf he'
    rw [bindE_ok (mapE_eq_ok _ n.closure _ fun t ht => closureE_eq (hsub t ht))]
    rw [List.flatMap_def]

/-! ### `_eliminate_lambda` -/

theorem elimStepE_eq {n : NFA σ α} (wf : n.WF)
    (acc : List (σ × List (Option α × List σ)) × List σ) {q : σ} (hq : q ∈ n.states) :
    n.elimStepE acc q = .ok (n.elimStep acc q) := by
  unfold elimStepE
  rw [bindE_ok (closureE_eq hq)]
  simp only
  rw [bindE_ok (foldlE_eq_ok _
    (fun tr a => elimUpd q a (n.nextStates ((n.closure q).filter fun p => decide (p ≠ q)) a) tr)
    (fun _ => True) n.syms (fun tr a _ _ => ⟨by rw [bindE_ok (nextStatesE_eq wf _ a)], trivial⟩)
    acc.1 trivial)]
  rfl

theorem eliminateLambdaE_eq {n : NFA σ α} (wf : n.WF) :
    n.eliminateLambdaE = .ok n.eliminateLambda := by
  unfold eliminateLambdaE
  rw [bindE_ok (foldlE_eq_ok n.elimStepE n.elimStep (fun _ => True) n.states
    (fun acc q _ hq => ⟨elimStepE_eq wf acc hq, trivial⟩) _ trivial)]
  rfl

end NFA
end AV
