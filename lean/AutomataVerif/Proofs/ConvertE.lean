/-
Proofs/ConvertE.lean — lemmas for Props/C19h.lean: the failure-tracking models of
Model/ConvertE.lean succeed and agree with the total models of Model/Convert.lean.
-/
import AutomataVerif.Model.ConvertE
import AutomataVerif.Proofs.OpsE
import AutomataVerif.Proofs.Subset
import AutomataVerif.Proofs.Read

namespace AV

set_option linter.unusedSectionVars false
open AV.C07

theorem bindE_ok {β γ : Type} {r : Res β} {v : β} (h : r = .ok v) (f : β → Res γ) :
    bindE r f = f v := by subst h; rfl

namespace NFA
variable {σ α : Type} [DecidableEq σ] [DecidableEq α]

theorem closureE_eq {n : NFA σ α} {q : σ} (hq : q ∈ n.states) : n.closureE q = .ok (n.closure q) := by
  simp [closureE, hq]

/-- Every target set stored in a row that `row` can return is made of declared states (the row
may be keyed by a non-state: validation checks every row of the table). -/
theorem row_targets_states {n : NFA σ α} (wf : n.WF) {q : σ} {e : Option α × List σ}
    (he : e ∈ n.row q) : ∀ t ∈ e.2, t ∈ n.states := by
  unfold row row? at he
  cases hr : alookup q n.trans with
  | none => simp [hr] at he
  | some r =>
    simp only [hr, Option.getD_some] at he
    exact wf.tgtOk (q, r) (alookup_some_mem hr) e.2 (List.mem_map.mpr ⟨e, he, rfl⟩)

theorem subsetSuccE_eq {n : NFA σ α} (wf : n.WF) (S : List σ) :
    n.subsetSuccE S = .ok (n.subsetSucc S) := by
  unfold subsetSuccE
  rw [bindE_ok (mapE_eq_ok _ (fun e => (e.1, e.2.flatMap n.closure)) _ ?_)]
  · rw [subsetSucc_eq]
    show Except.ok _ = Except.ok _
    congr 1
    have h1 : (List.map (fun e : α × List σ => (e.1, e.2.flatMap n.closure)) (entries n S)).map Prod.fst
        = (entries n S).map Prod.fst := by simp
    show (dedup ((List.map (fun e : α × List σ => (e.1, e.2.flatMap n.closure)) (entries n S)).map Prod.fst)).map _ = _
    rw [h1]
    apply List.map_congr_left
    intro a _
    congr 2
    rw [List.filter_map, List.flatMap_map]
    rfl
  · intro e he
    have hsub : ∀ t ∈ e.2, t ∈ n.states := by
      obtain ⟨q, _, hq⟩ := List.mem_flatMap.mp he
      obtain ⟨e', he', hm⟩ := List.mem_filterMap.mp hq
      rcases e' with ⟨x, ts⟩
      cases x with
      | none => simp at hm
      | some a =>
        by_cases hts : ts.isEmpty
        · simp [hts] at hm
        · simp [hts] at hm
          subst hm
          exact row_targets_states wf he'
    rw [bindE_ok (mapE_eq_ok _ n.closure _ fun t ht => closureE_eq (hsub t ht))]
    rw [List.flatMap_def]

/-! ### `_eliminate_lambda` -/

theorem elimStepE_eq {n : NFA σ α} (wf : n.WF)
    (acc : List (σ × List (Option α × List σ)) × List σ) {q : σ} (hq : q ∈ n.states) :
    n.elimStepE acc q = .ok (n.elimStep acc q) := by
  unfold elimStepE
  rw [bindE_ok (closureE_eq hq)]
  simp only
  rw [bindE_ok (foldlE_eq_ok _
    (fun tr a => elimUpd q a (n.nextStates ((n.closure q).filter fun p => decide (p ≠ q)) a) tr)
    (fun _ => True) n.syms (fun tr a _ _ => ⟨by rw [bindE_ok (nextStatesE_eq wf _ a)], trivial⟩)
    acc.1 trivial)]
  rfl

theorem eliminateLambdaE_eq {n : NFA σ α} (wf : n.WF) :
    n.eliminateLambdaE = .ok n.eliminateLambda := by
  unfold eliminateLambdaE
  rw [bindE_ok (foldlE_eq_ok n.elimStepE n.elimStep (fun _ => True) n.states
    (fun acc q _ hq => ⟨elimStepE_eq wf acc hq, trivial⟩) _ trivial)]
  rfl

end NFA
end AV
